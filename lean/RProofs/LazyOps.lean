import RProofs.RepOps
import RProofs.Agg
import RModel.Impl.LazyOps
/-!
The L2 model of the many-way aggregates (`RModel/Impl/LazyOps.lean`: lazy union kernels with a deferred cached cardinality,
the static and the in-place bitmap-level `lazyOR`, `repairAfterLazy`, `FastOr`, `FastAnd`; tied to the Go code by the
`l2agg` / `l2lazy` correspondence checks) computes the set-level folds and returns well-formed bitmaps, for well-formed inputs.

* container level: the lazy invariant `Cont.lazyOk` holds for every well-formed container, is established by `lazyOR2` on
  well-formed operands and preserved by `lazyIOR2` (receiver: lazy, or any 1024-word non-empty bitmap container whatever its
  cached cardinality — the doubled cardinality of `runToBitmapTemp` included), and the result denotes the union;
* `repairCont` turns a lazy container into a well-formed one with the same members;
* bitmap level: the same for `Rep.lazyOR2`, `Rep.lazyIOR2`, `Rep.repairAfterLazy`;
* `Rep.toBSet_fastOr`, `Rep.wf_fastOr`, `Rep.toBSet_fastAnd`, `Rep.wf_fastAnd`.
-/
set_option linter.unusedSimpArgs false
set_option linter.unusedVariables false
namespace RModel.Impl
open RModel RModel.BSet RModel.Driver ContOps RepOps LazyOps

/-! ### small facts -/

theorem wordsCard_pos {ws : List (BitVec 64)} {y : Nat} (h : testBit ws y = true) : 0 < wordsCard ws := by
  rw [wordsCard_eq]
  exact List.length_pos_of_mem ((mem_valsOfWords ws y).mpr h)

theorem exists_testBit_of_pos {ws : List (BitVec 64)} (h : 0 < wordsCard ws) : ∃ y, testBit ws y = true := by
  rw [wordsCard_eq] at h
  cases hv : valsOfWords ws with
  | nil => rw [hv] at h; simp at h
  | cons v t => exact ⟨v, (mem_valsOfWords ws v).mp (by rw [hv]; simp)⟩

/-- a container of cardinality 0 has no members -/
theorem not_has_of_card0 {c : Cont} (h0 : c.card = 0) (y : Nat) : c.has y = false := by
  cases c with
  | arr vs =>
    have : vs = [] := List.eq_nil_of_length_eq_zero h0
    subst this; simp [Cont.has]
  | bmp k ws => exact testBit_false_of_card0 ws h0 y
  | run rs =>
    cases rs with
    | nil => simp [Cont.has, inRuns]
    | cons p t => simp only [Cont.card, List.map_cons, List.sum_cons] at h0; omega

theorem wf_of_wfe {c : Cont} (h : c.card = 0 ∨ c.wf = true) {y : Nat} (hy : c.has y = true) : c.wf = true := by
  rcases h with h0 | h
  · rw [not_has_of_card0 h0 y] at hy; cases hy
  · exact h

theorem testBit_lt {ws : List (BitVec 64)} (hl : ws.length = 1024) {x : Nat} (h : testBit ws x = true) : x < 65536 := by
  by_cases hx : x < 65536
  · exact hx
  · rw [testBit_of_ge ws x (by omega)] at h; cases h

/-! ### the lazy invariant -/

theorem lazyOk_arr {vs : List Nat} : (Cont.arr vs).lazyOk = (Cont.arr vs).wf := rfl
theorem lazyOk_run {rs : List (Nat × Nat)} : (Cont.run rs).lazyOk = (Cont.run rs).wf := rfl

theorem lazyOk_bmp_iff {c : Int} {ws : List (BitVec 64)} :
    (Cont.bmp c ws).lazyOk = true ↔
      ws.length = 1024 ∧ ((c = -1 ∧ 0 < wordsCard ws) ∨ (c = (wordsCard ws : Int) ∧ 4096 < wordsCard ws)) := by
  simp only [Cont.lazyOk, invalidCard, Bool.and_eq_true, Bool.or_eq_true, beq_iff_eq, decide_eq_true_eq]

theorem lazyOk_of_wf {c : Cont} (h : c.wf = true) : c.lazyOk = true := by
  cases c with
  | arr vs => exact h
  | run rs => exact h
  | bmp k ws =>
    obtain ⟨hl, hk, hgt⟩ := wf_bmp h
    exact lazyOk_bmp_iff.mpr ⟨hl, Or.inr ⟨hk, hgt⟩⟩

/-- a deferred-cardinality bitmap container with a member is lazy -/
theorem lazyOk_deferred {ws : List (BitVec 64)} (hl : ws.length = 1024) {y : Nat} (hy : testBit ws y = true) :
    (Cont.bmp invalidCard ws).lazyOk = true :=
  lazyOk_bmp_iff.mpr ⟨hl, Or.inl ⟨rfl, wordsCard_pos hy⟩⟩

theorem bounded_of_lazyOk {c : Cont} (h : c.lazyOk = true) : c.Bounded := by
  cases c with
  | arr vs => exact bounded_of_wf h
  | run rs => exact bounded_of_wf h
  | bmp k ws =>
    intro y hy
    exact testBit_lt (lazyOk_bmp_iff.mp h).1 hy

theorem exists_has_of_lazyOk {c : Cont} (h : c.lazyOk = true) : ∃ y, c.has y = true := by
  cases c with
  | arr vs => exact exists_has_of_wf h
  | run rs => exact exists_has_of_wf h
  | bmp k ws =>
    obtain ⟨_, h2⟩ := lazyOk_bmp_iff.mp h
    rcases h2 with ⟨_, hp⟩ | ⟨_, hp⟩
    · exact exists_testBit_of_pos hp
    · exact exists_testBit_of_pos (by omega)

/-- what the in-place kernel accepts as a receiver: a lazy container, or a 1024-word non-empty bitmap container with ANY
cached cardinality (the temporary of `runContainer16.toBitmapContainer`) -/
def Cont.LazyRecv (c : Cont) : Prop :=
  c.lazyOk = true ∨ ∃ k ws, c = .bmp k ws ∧ ws.length = 1024 ∧ 0 < wordsCard ws

theorem lazyRecv_of_lazyOk {c : Cont} (h : c.lazyOk = true) : c.LazyRecv := Or.inl h

theorem lazyRecv_bmp {k : Int} {ws : List (BitVec 64)} (h : (Cont.bmp k ws).LazyRecv) :
    ws.length = 1024 ∧ 0 < wordsCard ws := by
  rcases h with h | ⟨k', ws', he, hl, hp⟩
  · obtain ⟨hl, h2⟩ := lazyOk_bmp_iff.mp h
    refine ⟨hl, ?_⟩
    rcases h2 with ⟨_, hp⟩ | ⟨_, hp⟩ <;> omega
  · cases he; exact ⟨hl, hp⟩

theorem lazyRecv_arr {vs : List Nat} (h : (Cont.arr vs).LazyRecv) : (Cont.arr vs).wf = true := by
  rcases h with h | ⟨k', ws', he, _, _⟩
  · exact h
  · cases he

theorem lazyRecv_run {rs : List (Nat × Nat)} (h : (Cont.run rs).LazyRecv) : (Cont.run rs).wf = true := by
  rcases h with h | ⟨k', ws', he, _, _⟩
  · exact h
  · cases he

theorem bounded_of_lazyRecv {c : Cont} (h : c.LazyRecv) : c.Bounded := by
  cases c with
  | arr vs => exact bounded_of_wf (lazyRecv_arr h)
  | run rs => exact bounded_of_wf (lazyRecv_run h)
  | bmp k ws => intro y hy; exact testBit_lt (lazyRecv_bmp h).1 hy

theorem exists_has_of_lazyRecv {c : Cont} (h : c.LazyRecv) : ∃ y, c.has y = true := by
  cases c with
  | arr vs => exact exists_has_of_wf (lazyRecv_arr h)
  | run rs => exact exists_has_of_wf (lazyRecv_run h)
  | bmp k ws => exact exists_testBit_of_pos (lazyRecv_bmp h).2

/-! ### `lazyOR2` -/

theorem lazyOR2_arr_run (xs : List Nat) (rs : List (Nat × Nat)) :
    (Cont.arr xs).lazyOR2 (.run rs) = (Cont.arr xs).or2 (.run rs) := rfl
theorem lazyOR2_bmp_run (c : Int) (ws : List (BitVec 64)) (rs : List (Nat × Nat)) :
    (Cont.bmp c ws).lazyOR2 (.run rs) = (Cont.bmp c ws).or2 (.run rs) := rfl
theorem lazyOR2_run (rs : List (Nat × Nat)) (b : Cont) : (Cont.run rs).lazyOR2 b = (Cont.run rs).or2 b := by
  cases b <;> rfl

theorem has_lazyOR2 (a b : Cont) (ha : a.wf = true) (hb : b.wf = true) (x : Nat) :
    (a.lazyOR2 b).has x = (a.has x || b.has x) := by
  cases a with
  | arr xs =>
    have hxs := wf_arr ha
    cases b with
    | arr ys =>
      have hys := wf_arr hb
      simp only [Cont.lazyOR2]
      split
      · rw [has_bmp, testBit_foldl_setBit _ _ _ (by
          intro v hv; have := hxs.bound v hv; rw [length_wordsOfArr]; omega), testBit_wordsOfArr _ _ hys.bound]
        simp only [has_arr, Bool.or_comm]
      · simp only [has_arr, List.contains_eq_mem, ArrayC.mem_union2by2, Bool.decide_or]
    | bmp c ws =>
      simp only [Cont.lazyOR2, has_bmp, has_arr]
      rw [testBit_foldl_setBit xs ws x (by intro v hv; have := hxs.bound v hv; have := (wf_bmp hb).1; omega), Bool.or_comm]
    | run rs => rw [lazyOR2_arr_run]; exact has_or2 _ _ ha hb x
  | bmp c ws =>
    have hws := wf_bmp ha
    cases b with
    | arr ys =>
      have hys := wf_arr hb
      simp only [Cont.lazyOR2, has_bmp, has_arr]
      exact testBit_foldl_setBit ys ws x (by intro v hv; have := hys.bound v hv; have := hws.1; omega)
    | bmp c2 ws2 =>
      have hws2 := wf_bmp hb
      simp only [Cont.lazyOR2, has_bmp]
      exact testBit_orW _ _ (hws.1.trans hws2.1.symm) x
    | run rs => rw [lazyOR2_bmp_run]; exact has_or2 _ _ ha hb x
  | run rs => rw [lazyOR2_run]; exact has_or2 _ _ ha hb x

theorem lazyOk_lazyOR2 (a b : Cont) (ha : a.wf = true) (hb : b.wf = true) : (a.lazyOR2 b).lazyOk = true := by
  obtain ⟨y, hy⟩ := exists_has_of_wf ha
  have hmem : (a.lazyOR2 b).has y = true := by rw [has_lazyOR2 a b ha hb, hy]; rfl
  cases a with
  | arr xs =>
    have hxs := wf_arr ha
    cases b with
    | arr ys =>
      have hys := wf_arr hb
      simp only [Cont.lazyOR2] at hmem ⊢
      split <;> rename_i hsum
      · rw [if_pos hsum] at hmem
        exact lazyOk_deferred (by rw [length_foldl_setBit, length_wordsOfArr]) hmem
      · rw [if_neg hsum] at hmem
        refine wf_of_wfe (wfe_arr ⟨?_, ArrayC.sorted_union2by2 _ _ hxs.sorted hys.sorted, ?_⟩) hmem
        · have := length_union2by2_le xs ys; simp only [lazyLowerBound] at hsum; omega
        · intro v hv
          rcases (ArrayC.mem_union2by2 xs ys v).mp hv with h | h
          · exact hxs.bound v h
          · exact hys.bound v h
    | bmp c ws =>
      simp only [Cont.lazyOR2] at hmem ⊢
      exact lazyOk_deferred (by rw [length_foldl_setBit]; exact (wf_bmp hb).1) hmem
    | run rs => rw [lazyOR2_arr_run]; exact lazyOk_of_wf (wf_or2_ne _ _ ha hb)
  | bmp c ws =>
    have hws := wf_bmp ha
    cases b with
    | arr ys =>
      simp only [Cont.lazyOR2] at hmem ⊢
      exact lazyOk_deferred (by rw [length_foldl_setBit]; exact hws.1) hmem
    | bmp c2 ws2 =>
      simp only [Cont.lazyOR2] at hmem ⊢
      exact lazyOk_deferred (length_orW _ _ hws.1 (wf_bmp hb).1) hmem
    | run rs => rw [lazyOR2_bmp_run]; exact lazyOk_of_wf (wf_or2_ne _ _ ha hb)
  | run rs => rw [lazyOR2_run]; exact lazyOk_of_wf (wf_or2_ne _ _ ha hb)

/-! ### `lazyIOR2` -/

theorem lazyIOR2_run (rs : List (Nat × Nat)) (b : Cont) : (Cont.run rs).lazyIOR2 b = (Cont.run rs).or2 b := by
  cases b <;> rfl

theorem has_arrIorRun (xs : List Nat) (rs : List (Nat × Nat)) (hxs : ArrWf xs) (hrs : RunWf rs) (x : Nat) :
    (arrIorRun xs rs).has x = (xs.contains x || inRuns rs x) := by
  simp only [arrIorRun]
  split
  · simp only [has_arr, List.contains_eq_mem, ArrayC.mem_union2by2, Bool.decide_or, mem_expandRuns]
    cases inRuns rs x <;> simp
  · rw [has_runOrArr rs xs hrs hxs, Bool.or_comm]

theorem has_lazyIOR2 (a b : Cont) (ha : a.LazyRecv) (hb : b.wf = true) (x : Nat) :
    (a.lazyIOR2 b).has x = (a.has x || b.has x) := by
  cases a with
  | arr xs =>
    have ha' := lazyRecv_arr ha
    have hxs := wf_arr ha'
    cases b with
    | arr ys =>
      have hys := wf_arr hb
      simp only [Cont.lazyIOR2]
      split
      · rw [has_bmp, testBit_wordsOfArr _ _ (by
          intro v hv
          rcases (ArrayC.mem_union2by2 xs ys v).mp hv with h | h
          · exact hxs.bound v h
          · exact hys.bound v h)]
        simp only [has_arr, List.contains_eq_mem, ArrayC.mem_union2by2, Bool.decide_or]
      · simp only [has_arr, List.contains_eq_mem, ArrayC.mem_union2by2, Bool.decide_or]
    | bmp c ws =>
      have hws := wf_bmp hb
      simp only [Cont.lazyIOR2, has_bmp, has_arr]
      rw [testBit_orW _ _ ((length_wordsOfArr xs).trans hws.1.symm), testBit_wordsOfArr _ _ hxs.bound]
    | run rs =>
      have hrs := wf_run hb
      simp only [Cont.lazyIOR2]
      split <;> rename_i hf
      · have := has_or2 _ _ ha' hb x
        simp only [Cont.or2, if_pos hf] at this
        exact this
      · rw [has_arrIorRun xs rs hxs hrs]; simp only [has_arr, has_run]
  | bmp c ws =>
    obtain ⟨hl, _⟩ := lazyRecv_bmp ha
    cases b with
    | arr ys =>
      have hys := wf_arr hb
      simp only [Cont.lazyIOR2, has_bmp, has_arr]
      exact testBit_foldl_setBit ys ws x (by intro v hv; have := hys.bound v hv; omega)
    | bmp c2 ws2 =>
      have hws2 := wf_bmp hb
      simp only [Cont.lazyIOR2, has_bmp]
      exact testBit_orW _ _ (hl.trans hws2.1.symm) x
    | run rs =>
      have hrs := wf_run hb
      simp only [Cont.lazyIOR2]
      split <;> rename_i hf
      · have := isFullRun_eq hf
        subst this
        simp only [has_bmp, has_run, inRuns_full]
        by_cases h : x < 65536
        · simp [h]
        · simp [h, testBit_of_ge ws x (by omega)]
      · rw [has_bmp, testBit_orW _ _ ((length_wordsOfRuns rs).trans hl.symm), testBit_wordsOfRuns_wf hrs.bound]
        simp only [has_bmp, has_run, Bool.or_comm]
  | run rs => rw [lazyIOR2_run]; exact has_or2 _ _ (lazyRecv_run ha) hb x

theorem lazyOk_lazyIOR2 (a b : Cont) (ha : a.LazyRecv) (hb : b.wf = true) : (a.lazyIOR2 b).lazyOk = true := by
  obtain ⟨y, hy⟩ := exists_has_of_wf hb
  have hmem : (a.lazyIOR2 b).has y = true := by rw [has_lazyIOR2 a b ha hb, hy, Bool.or_true]
  cases a with
  | arr xs =>
    have ha' := lazyRecv_arr ha
    have hxs := wf_arr ha'
    cases b with
    | arr ys =>
      have hys := wf_arr hb
      have hbound : ∀ v ∈ ArrayC.union2by2 xs ys, v < 65536 := by
        intro v hv
        rcases (ArrayC.mem_union2by2 xs ys v).mp hv with h | h
        · exact hxs.bound v h
        · exact hys.bound v h
      have hsorted := ArrayC.sorted_union2by2 _ _ hxs.sorted hys.sorted
      simp only [Cont.lazyIOR2] at hmem ⊢
      split <;> rename_i hlen
      · have hcard : wordsCard (wordsOfArr (ArrayC.union2by2 xs ys)) = (ArrayC.union2by2 xs ys).length :=
          wordsCard_eq_length (nodup_of_sorted hsorted) (fun v => by
            rw [testBit_wordsOfArr _ _ hbound]; simp)
        refine lazyOk_bmp_iff.mpr ⟨length_wordsOfArr _, Or.inr ⟨by rw [hcard], ?_⟩⟩
        rw [hcard]; simpa only [arrayMax] using hlen
      · rw [if_neg hlen] at hmem
        exact wf_of_wfe (wfe_arr ⟨by simp only [arrayMax] at hlen; omega, hsorted, hbound⟩) hmem
    | bmp c ws =>
      have hws := wf_bmp hb
      simp only [Cont.lazyIOR2]
      refine lazyOk_bmp_iff.mpr ⟨length_orW _ _ (length_wordsOfArr xs) hws.1, Or.inr ⟨rfl, ?_⟩⟩
      refine Nat.lt_of_lt_of_le hws.2.2 (wordsCard_mono ?_)
      intro v hv
      rw [testBit_orW _ _ ((length_wordsOfArr xs).trans hws.1.symm), hv, Bool.or_true]
    | run rs =>
      simp only [Cont.lazyIOR2] at hmem ⊢
      split <;> rename_i hf
      · exact lazyOk_of_wf hb
      · rw [if_neg hf] at hmem
        simp only [arrIorRun] at hmem ⊢
        have hrs := wf_run hb
        split <;> rename_i hc
        · rw [if_pos hc] at hmem
          simp only [Bool.and_eq_true, decide_eq_true_eq] at hc
          refine wf_of_wfe (wfe_arr ⟨?_, ArrayC.sorted_union2by2 _ _ hxs.sorted (sorted_expandRuns rs hrs.sep), ?_⟩) hmem
          · have := length_union2by2_le xs (expandRuns rs)
            rw [length_expandRuns] at this
            simp only [arrayMax] at hc; omega
          · intro v hv
            rcases (ArrayC.mem_union2by2 xs _ v).mp hv with h | h
            · exact hxs.bound v h
            · exact lt_of_inRuns hrs.bound ((mem_expandRuns rs v).mp h)
        · rw [if_neg hc] at hmem
          exact lazyOk_of_wf (wf_of_wfe (wfe_runOrArr hb ha') hmem)
  | bmp c ws =>
    obtain ⟨hl, _⟩ := lazyRecv_bmp ha
    cases b with
    | arr ys =>
      simp only [Cont.lazyIOR2] at hmem ⊢
      exact lazyOk_deferred (by rw [length_foldl_setBit]; exact hl) hmem
    | bmp c2 ws2 =>
      simp only [Cont.lazyIOR2] at hmem ⊢
      exact lazyOk_deferred (length_orW _ _ hl (wf_bmp hb).1) hmem
    | run rs =>
      simp only [Cont.lazyIOR2] at hmem ⊢
      split <;> rename_i hf
      · exact lazyOk_of_wf hb
      · rw [if_neg hf] at hmem
        exact lazyOk_deferred (length_orW _ _ (length_wordsOfRuns rs) hl) hmem
  | run rs => rw [lazyIOR2_run]; exact lazyOk_of_wf (wf_or2_ne _ _ (lazyRecv_run ha) hb)

/-! ### the promotion of a non-full run receiver -/

theorem has_promoteRun (c : Cont) (h : c.lazyOk = true) (x : Nat) : (promoteRun c).has x = c.has x := by
  cases c with
  | arr vs => rfl
  | bmp k ws => rfl
  | run rs =>
    simp only [promoteRun]
    split
    · rfl
    · simp only [runToBitmapTemp, has_bmp, has_run]
      exact testBit_wordsOfRuns_wf (wf_run h).bound x

theorem lazyRecv_promoteRun (c : Cont) (h : c.lazyOk = true) : (promoteRun c).LazyRecv := by
  cases c with
  | arr vs => exact Or.inl h
  | bmp k ws => exact Or.inl h
  | run rs =>
    simp only [promoteRun]
    split
    · exact Or.inl h
    · obtain ⟨y, hy⟩ := exists_has_of_wf (c := .run rs) h
      refine Or.inr ⟨_, _, rfl, length_wordsOfRuns rs, wordsCard_pos (y := y) ?_⟩
      rw [testBit_wordsOfRuns_wf (wf_run h).bound]; exact hy

/-- one equal-key step of the in-place `lazyOR`: promotion, then `lazyIOR` -/
theorem has_lazyStep (a b : Cont) (ha : a.lazyOk = true) (hb : b.wf = true) (x : Nat) :
    ((promoteRun a).lazyIOR2 b).has x = (a.has x || b.has x) := by
  rw [has_lazyIOR2 _ _ (lazyRecv_promoteRun a ha) hb, has_promoteRun a ha]

theorem lazyOk_lazyStep (a b : Cont) (ha : a.lazyOk = true) (hb : b.wf = true) :
    ((promoteRun a).lazyIOR2 b).lazyOk = true :=
  lazyOk_lazyIOR2 _ _ (lazyRecv_promoteRun a ha) hb

/-! ### the containers denote the union (boundary lists) -/

theorem toBSet_of_has {c a b : Cont} (h : ∀ x, c.has x = (a.has x || b.has x)) :
    c.toBSet 0 = BSet.union (a.toBSet 0) (b.toBSet 0) :=
  canon_ext_sinc _ _ (sinc_toBSet _) (sinc_union _ _ (sinc_toBSet a) (sinc_toBSet b))
    (fun x => by rw [mem_toBSet, mem_union _ _ (sinc_toBSet a) (sinc_toBSet b), mem_toBSet, mem_toBSet, h])

/-- `c1.lazyOR(c2)` of two well-formed containers denotes the union -/
theorem Cont.toBSet_lazyOR2 (a b : Cont) (ha : a.wf = true) (hb : b.wf = true) :
    (a.lazyOR2 b).toBSet 0 = BSet.union (a.toBSet 0) (b.toBSet 0) :=
  toBSet_of_has (has_lazyOR2 a b ha hb)

/-- `c1.lazyIOR(c2)` of a lazy receiver and a well-formed argument denotes the union -/
theorem Cont.toBSet_lazyIOR2 (a b : Cont) (ha : a.lazyOk = true) (hb : b.wf = true) :
    (a.lazyIOR2 b).toBSet 0 = BSet.union (a.toBSet 0) (b.toBSet 0) :=
  toBSet_of_has (has_lazyIOR2 a b (Or.inl ha) hb)

/-- … also after the promotion of a non-full run receiver to a bitmap container with a wrong cached cardinality -/
theorem Cont.toBSet_lazyStep (a b : Cont) (ha : a.lazyOk = true) (hb : b.wf = true) :
    ((promoteRun a).lazyIOR2 b).toBSet 0 = BSet.union (a.toBSet 0) (b.toBSet 0) :=
  toBSet_of_has (has_lazyStep a b ha hb)

/-! ### `repairAfterLazy`, one container -/

theorem has_repairWords (ws : List (BitVec 64)) (hl : ws.length = 1024) (x : Nat) :
    (repairWords ws).has x = testBit ws x := by
  simp only [repairWords]
  split
  · simp only [has_arr, contains_valsOfWords]
  · split <;> rename_i hfull
    · rw [has_fullRun]
      have hc : wordsCard ws = 65536 := by simpa using hfull
      by_cases hx : x < 65536
      · rw [testBit_of_full ws hl hc x]
      · simp [hx, testBit_of_ge ws x (by omega)]
    · rfl

theorem wf_repairWords (ws : List (BitVec 64)) (hl : ws.length = 1024) (hp : 0 < wordsCard ws) :
    (repairWords ws).wf = true := by
  obtain ⟨y, hy⟩ := exists_testBit_of_pos hp
  have hmem : (repairWords ws).has y = true := by rw [has_repairWords ws hl, hy]
  simp only [repairWords] at hmem ⊢
  split <;> rename_i hle
  · rw [if_pos hle] at hmem
    exact wf_of_wfe (wfe_arr (arrOk_valsOfWords hl (by simpa only [arrayMax] using hle))) hmem
  · split
    · decide
    · exact wf_bmp_mk hl rfl (by simp only [arrayMax] at hle; omega)

theorem has_repairCont (c : Cont) (h : c.lazyOk = true) (x : Nat) : (repairCont c).has x = c.has x := by
  cases c with
  | arr vs => rfl
  | run rs => rfl
  | bmp k ws =>
    simp only [repairCont]
    split
    · rw [has_repairWords ws (lazyOk_bmp_iff.mp h).1]; rfl
    · rfl

theorem wf_repairCont (c : Cont) (h : c.lazyOk = true) : (repairCont c).wf = true := by
  cases c with
  | arr vs => exact h
  | run rs => exact h
  | bmp k ws =>
    obtain ⟨hl, h2⟩ := lazyOk_bmp_iff.mp h
    simp only [repairCont]
    split <;> rename_i hk
    · refine wf_repairWords ws hl ?_
      rcases h2 with ⟨_, hp⟩ | ⟨_, hp⟩ <;> omega
    · rcases h2 with ⟨hk', _⟩ | ⟨hk', hgt⟩
      · exact absurd (by rw [hk']; rfl) hk
      · exact wf_bmp_mk hl hk' hgt

theorem Cont.toBSet_repairCont (c : Cont) (h : c.lazyOk = true) : (repairCont c).toBSet 0 = c.toBSet 0 :=
  canon_ext_sinc _ _ (sinc_toBSet _) (sinc_toBSet _) (fun x => by rw [mem_toBSet, mem_toBSet, has_repairCont c h])

theorem repairSlot_eq (s : Slot) : (repairSlot s).key = s.key ∧ (repairSlot s).c = repairCont s.c := by
  unfold repairSlot repairCont
  split
  · split <;> simp_all
  · rename_i hne
    exact ⟨rfl, rfl⟩

/-! ### lazy slot lists -/

/-- the lazy invariant of a whole intermediate result: keys strictly increasing and below 65536, every container lazy -/
structure SlotsLazy (l : List Slot) : Prop where
  sorted : l.Pairwise (fun s t => s.key < t.key)
  ok : ∀ s ∈ l, s.key < 65536 ∧ s.c.lazyOk = true

/-- `Rep.lazyOk`: the invariant of the bitmap between the lazy steps of `FastOr` -/
def Rep.LazyOk (r : Rep) : Prop := SlotsLazy r.slots

theorem SlotsWf.lazy {l : List Slot} (h : SlotsWf l) : SlotsLazy l :=
  ⟨h.sorted, fun s hs => ⟨(h.ok s hs).1, lazyOk_of_wf (h.ok s hs).2⟩⟩

theorem Rep.lazyOk_of_wf {r : Rep} (h : r.wf = true) : r.LazyOk := ((slotsWf_iff r).mp h).lazy

theorem SlotsLazy.nil : SlotsLazy [] := ⟨List.Pairwise.nil, fun _ h => by cases h⟩

theorem SlotsLazy.tail {s : Slot} {t : List Slot} (h : SlotsLazy (s :: t)) : SlotsLazy t :=
  ⟨(List.pairwise_cons.mp h.sorted).2, fun s' hs' => h.ok s' (by simp [hs'])⟩

theorem SlotsLazy.head {s : Slot} {t : List Slot} (h : SlotsLazy (s :: t)) : s.key < 65536 ∧ s.c.lazyOk = true :=
  h.ok s (by simp)

theorem SlotsLazy.head_lt {s : Slot} {t : List Slot} (h : SlotsLazy (s :: t)) : ∀ s' ∈ t, s.key < s'.key :=
  (List.pairwise_cons.mp h.sorted).1

theorem SlotsLazy.gt_of_lt_head {k : Nat} {s : Slot} {t : List Slot} (h : SlotsLazy (s :: t)) (hk : k < s.key) :
    ∀ s' ∈ s :: t, k < s'.key := by
  intro s' hs'
  rcases List.mem_cons.mp hs' with rfl | h'
  · exact hk
  · have := h.head_lt s' h'; omega

theorem SlotsLazy.cons {s : Slot} {t : List Slot} (hs : s.key < 65536 ∧ s.c.lazyOk = true) (ht : SlotsLazy t)
    (hlt : ∀ s' ∈ t, s.key < s'.key) : SlotsLazy (s :: t) :=
  ⟨List.pairwise_cons.mpr ⟨hlt, ht.sorted⟩, fun s' hs' => by
    rcases List.mem_cons.mp hs' with rfl | h'
    · exact hs
    · exact ht.ok s' h'⟩

theorem SlotsLazy.bounded {l : List Slot} (h : SlotsLazy l) : ∀ s ∈ l, s.c.Bounded :=
  fun s hs => bounded_of_lazyOk (h.ok s hs).2

theorem slotsHas_map_same (f : Slot → Slot) (hf : ∀ s, (f s).key = s.key ∧ (f s).c = s.c) (l : List Slot) (x : Nat) :
    slotsHas (l.map f) x = slotsHas l x := by
  induction l with
  | nil => rfl
  | cons s t ih => rw [List.map_cons, slotsHas_cons, slotsHas_cons, ih, (hf s).1, (hf s).2]

theorem appendCopySlot_same (c1 c2 : Bool) (s : Slot) :
    (appendCopySlot c1 c2 s).key = s.key ∧ (appendCopySlot c1 c2 s).c = s.c := ⟨rfl, rfl⟩

/-! ### static `lazyOR` -/

theorem has_lazyOrSlots (a b : List Slot) (ha : ∀ s ∈ a, s.c.wf = true) (hb : ∀ s ∈ b, s.c.wf = true) (x : Nat) :
    slotsHas (lazyOrSlots a b) x = (slotsHas a x || slotsHas b x) := by
  fun_induction lazyOrSlots a b with
  | case1 b => rw [map_copySlot, slotsHas_nil, Bool.false_or]
  | case2 a h => rw [map_copySlot, slotsHas_nil, Bool.or_false]
  | case3 sa ta sb tb hlt ih =>
    rw [copySlot_eq, slotsHas_cons, ih (fun s hs => ha s (by simp [hs])) hb, slotsHas_cons sa, Bool.or_assoc]
  | case4 sa ta sb tb hlt hlt2 ih =>
    rw [copySlot_eq, slotsHas_cons, ih ha (fun s hs => hb s (by simp [hs])), slotsHas_cons sb tb]
    cases (sb.key == x / 65536 && sb.c.has (x % 65536)) <;> cases slotsHas (sa :: ta) x <;> simp
  | case5 sa ta sb tb hlt hlt2 ih =>
    have hk : sb.key = sa.key := by omega
    rw [slotsHas_cons, ih (fun s hs => ha s (by simp [hs])) (fun s hs => hb s (by simp [hs])),
      slotsHas_cons sa, slotsHas_cons sb, hk]
    simp only [has_lazyOR2 _ _ (ha sa (by simp)) (hb sb (by simp))]
    cases (sa.key == x / 65536) <;> cases sa.c.has (x % 65536) <;> cases sb.c.has (x % 65536) <;>
      cases slotsHas ta x <;> cases slotsHas tb x <;> rfl

theorem gt_lazyOrSlots (k : Nat) (a b : List Slot) (ha : ∀ s ∈ a, k < s.key) (hb : ∀ s ∈ b, k < s.key) :
    ∀ s ∈ lazyOrSlots a b, k < s.key := by
  fun_induction lazyOrSlots a b with
  | case1 b => rw [map_copySlot]; exact hb
  | case2 a h => rw [map_copySlot]; exact ha
  | case3 sa ta sb tb hlt ih =>
    intro s hs
    rcases List.mem_cons.mp hs with h | h'
    · rw [h]; exact ha sa (by simp)
    · exact ih (gt_tail ha) hb s h'
  | case4 sa ta sb tb hlt hlt2 ih =>
    intro s hs
    rcases List.mem_cons.mp hs with h | h'
    · rw [h]; exact hb sb (by simp)
    · exact ih ha (gt_tail hb) s h'
  | case5 sa ta sb tb hlt hlt2 ih =>
    intro s hs
    rcases List.mem_cons.mp hs with h | h'
    · rw [h]; exact ha sa (by simp)
    · exact ih (gt_tail ha) (gt_tail hb) s h'

theorem lazy_lazyOrSlots (a b : List Slot) (ha : SlotsWf a) (hb : SlotsWf b) : SlotsLazy (lazyOrSlots a b) := by
  fun_induction lazyOrSlots a b with
  | case1 b => rw [map_copySlot]; exact hb.lazy
  | case2 a h => rw [map_copySlot]; exact ha.lazy
  | case3 sa ta sb tb hlt ih =>
    exact SlotsLazy.cons ⟨ha.head.1, lazyOk_of_wf ha.head.2⟩ (ih ha.tail hb)
      (gt_lazyOrSlots _ _ _ ha.head_lt (hb.gt_of_lt_head hlt))
  | case4 sa ta sb tb hlt hlt2 ih =>
    have hlt' : sb.key < sa.key := by omega
    exact SlotsLazy.cons ⟨hb.head.1, lazyOk_of_wf hb.head.2⟩ (ih ha hb.tail)
      (gt_lazyOrSlots _ _ _ (ha.gt_of_lt_head hlt') hb.head_lt)
  | case5 sa ta sb tb hlt hlt2 ih =>
    have hk : sb.key = sa.key := by omega
    refine SlotsLazy.cons ⟨ha.head.1, lazyOk_lazyOR2 _ _ ha.head.2 hb.head.2⟩ (ih ha.tail hb.tail)
      (gt_lazyOrSlots _ _ _ ha.head_lt (fun s hs => by have := hb.head_lt s hs; simp only; omega))

/-! ### in-place `lazyOR` -/

theorem has_lazyIorSlots (c1 c2 : Bool) (a b : List Slot) (ha : ∀ s ∈ a, s.c.lazyOk = true)
    (hb : ∀ s ∈ b, s.c.wf = true) (x : Nat) :
    slotsHas (lazyIorSlots c1 c2 a b) x = (slotsHas a x || slotsHas b x) := by
  fun_induction lazyIorSlots c1 c2 a b with
  | case1 b => rw [slotsHas_map_same _ (appendCopySlot_same c1 c2), slotsHas_nil, Bool.false_or]
  | case2 a h => rw [slotsHas_nil, Bool.or_false]
  | case3 sa ta sb tb hlt ih =>
    rw [slotsHas_cons, ih (fun s hs => ha s (by simp [hs])) hb, slotsHas_cons sa, Bool.or_assoc]
  | case4 sa ta sb tb hlt hlt2 ih =>
    rw [slotsHas_cons, ih ha (fun s hs => hb s (by simp [hs])), slotsHas_cons sb tb]
    simp only
    cases (sb.key == x / 65536 && sb.c.has (x % 65536)) <;> cases slotsHas (sa :: ta) x <;> simp
  | case5 sa ta sb tb hlt hlt2 ih =>
    have hk : sb.key = sa.key := by omega
    rw [slotsHas_cons, ih (fun s hs => ha s (by simp [hs])) (fun s hs => hb s (by simp [hs])),
      slotsHas_cons sa, slotsHas_cons sb, hk]
    simp only [has_lazyStep _ _ (ha sa (by simp)) (hb sb (by simp))]
    cases (sa.key == x / 65536) <;> cases sa.c.has (x % 65536) <;> cases sb.c.has (x % 65536) <;>
      cases slotsHas ta x <;> cases slotsHas tb x <;> rfl

theorem gt_lazyIorSlots (c1 c2 : Bool) (k : Nat) (a b : List Slot) (ha : ∀ s ∈ a, k < s.key) (hb : ∀ s ∈ b, k < s.key) :
    ∀ s ∈ lazyIorSlots c1 c2 a b, k < s.key := by
  fun_induction lazyIorSlots c1 c2 a b with
  | case1 b =>
    intro s hs
    obtain ⟨s0, hs0, rfl⟩ := List.mem_map.mp hs
    exact hb s0 hs0
  | case2 a h => exact ha
  | case3 sa ta sb tb hlt ih =>
    intro s hs
    rcases List.mem_cons.mp hs with h | h'
    · rw [h]; exact ha sa (by simp)
    · exact ih (gt_tail ha) hb s h'
  | case4 sa ta sb tb hlt hlt2 ih =>
    intro s hs
    rcases List.mem_cons.mp hs with h | h'
    · rw [h]; exact hb sb (by simp)
    · exact ih ha (gt_tail hb) s h'
  | case5 sa ta sb tb hlt hlt2 ih =>
    intro s hs
    rcases List.mem_cons.mp hs with h | h'
    · rw [h]; exact ha sa (by simp)
    · exact ih (gt_tail ha) (gt_tail hb) s h'

theorem lazy_lazyIorSlots (c1 c2 : Bool) (a b : List Slot) (ha : SlotsLazy a) (hb : SlotsWf b) :
    SlotsLazy (lazyIorSlots c1 c2 a b) := by
  fun_induction lazyIorSlots c1 c2 a b with
  | case1 b =>
    refine ⟨?_, ?_⟩
    · exact List.Pairwise.map _ (fun s t h => h) hb.sorted
    · intro s hs
      obtain ⟨s0, hs0, rfl⟩ := List.mem_map.mp hs
      exact ⟨(hb.ok s0 hs0).1, lazyOk_of_wf (hb.ok s0 hs0).2⟩
  | case2 a h => exact ha
  | case3 sa ta sb tb hlt ih =>
    exact SlotsLazy.cons ha.head (ih ha.tail hb)
      (gt_lazyIorSlots _ _ _ _ _ ha.head_lt (hb.gt_of_lt_head hlt))
  | case4 sa ta sb tb hlt hlt2 ih =>
    have hlt' : sb.key < sa.key := by omega
    exact SlotsLazy.cons ⟨hb.head.1, lazyOk_of_wf hb.head.2⟩ (ih ha hb.tail)
      (gt_lazyIorSlots _ _ _ _ _ (ha.gt_of_lt_head hlt') hb.head_lt)
  | case5 sa ta sb tb hlt hlt2 ih =>
    have hk : sb.key = sa.key := by omega
    refine SlotsLazy.cons ⟨ha.head.1, lazyOk_lazyStep _ _ ha.head.2 hb.head.2⟩ (ih ha.tail hb.tail)
      (gt_lazyIorSlots _ _ _ _ _ ha.head_lt (fun s hs => by have := hb.head_lt s hs; simp only; omega))

/-! ### `repairAfterLazy` -/

theorem has_repairSlots (l : List Slot) (h : ∀ s ∈ l, s.c.lazyOk = true) (x : Nat) :
    slotsHas (l.map repairSlot) x = slotsHas l x := by
  induction l with
  | nil => rfl
  | cons s t ih =>
    rw [List.map_cons, slotsHas_cons, slotsHas_cons, ih (fun s' hs' => h s' (by simp [hs'])),
      (repairSlot_eq s).1, (repairSlot_eq s).2, has_repairCont s.c (h s (by simp))]

theorem wf_repairSlots (l : List Slot) (h : SlotsLazy l) : SlotsWf (l.map repairSlot) := by
  refine ⟨?_, ?_⟩
  · exact List.Pairwise.map _ (fun s t hst => by rw [(repairSlot_eq s).1, (repairSlot_eq t).1]; exact hst) h.sorted
  · intro s hs
    obtain ⟨s0, hs0, rfl⟩ := List.mem_map.mp hs
    rw [(repairSlot_eq s0).1, (repairSlot_eq s0).2]
    exact ⟨(h.ok s0 hs0).1, wf_repairCont s0.c (h.ok s0 hs0).2⟩

/-! ### bitmap level: the lazy steps -/

theorem Rep.lazyOk_lazyOR2 (a b : Rep) (ha : a.wf = true) (hb : b.wf = true) : (Rep.lazyOR2 a b).LazyOk :=
  lazy_lazyOrSlots _ _ ((slotsWf_iff a).mp ha) ((slotsWf_iff b).mp hb)

theorem Rep.lazyOk_lazyIOR2 (a b : Rep) (ha : a.LazyOk) (hb : b.wf = true) : (Rep.lazyIOR2 a b).LazyOk :=
  lazy_lazyIorSlots _ _ _ _ ha ((slotsWf_iff b).mp hb)

theorem Rep.mem_lazy (r : Rep) (h : r.LazyOk) (x : Nat) : mem r.toBSet x = slotsHas r.slots x :=
  mem_rep_slots r h.bounded x

theorem Rep.mem_lazyOR2 (a b : Rep) (ha : a.wf = true) (hb : b.wf = true) (x : Nat) :
    mem (Rep.lazyOR2 a b).toBSet x = (mem a.toBSet x || mem b.toBSet x) := by
  have hwa := (slotsWf_iff a).mp ha
  have hwb := (slotsWf_iff b).mp hb
  rw [Rep.mem_lazy _ (Rep.lazyOk_lazyOR2 a b ha hb), mem_rep_slots a hwa.bounded, mem_rep_slots b hwb.bounded]
  exact has_lazyOrSlots _ _ (fun s hs => (hwa.ok s hs).2) (fun s hs => (hwb.ok s hs).2) x

theorem Rep.mem_lazyIOR2 (a b : Rep) (ha : a.LazyOk) (hb : b.wf = true) (x : Nat) :
    mem (Rep.lazyIOR2 a b).toBSet x = (mem a.toBSet x || mem b.toBSet x) := by
  have hwb := (slotsWf_iff b).mp hb
  rw [Rep.mem_lazy _ (Rep.lazyOk_lazyIOR2 a b ha hb), Rep.mem_lazy a ha, mem_rep_slots b hwb.bounded]
  exact has_lazyIorSlots _ _ _ _ (fun s hs => (ha.ok s hs).2) (fun s hs => (hwb.ok s hs).2) x

/-- the static `lazyOR` of two well-formed bitmaps denotes the union (its containers may carry deferred cardinalities) -/
theorem Rep.toBSet_lazyOR2 (a b : Rep) (ha : a.wf = true) (hb : b.wf = true) :
    (Rep.lazyOR2 a b).toBSet = BSet.union a.toBSet b.toBSet :=
  canon_ext_sinc _ _ (sinc_rep _) (sinc_union _ _ (sinc_rep a) (sinc_rep b))
    (fun x => by rw [Rep.mem_lazyOR2 a b ha hb, mem_union _ _ (sinc_rep a) (sinc_rep b)])

/-- the in-place `lazyOR` of a lazy receiver and a well-formed argument denotes the union -/
theorem Rep.toBSet_lazyIOR2 (a b : Rep) (ha : a.LazyOk) (hb : b.wf = true) :
    (Rep.lazyIOR2 a b).toBSet = BSet.union a.toBSet b.toBSet :=
  canon_ext_sinc _ _ (sinc_rep _) (sinc_union _ _ (sinc_rep a) (sinc_rep b))
    (fun x => by rw [Rep.mem_lazyIOR2 a b ha hb, mem_union _ _ (sinc_rep a) (sinc_rep b)])

/-- `repairAfterLazy` makes a lazy bitmap well-formed … -/
theorem Rep.wf_repairAfterLazy (r : Rep) (h : r.LazyOk) : r.repairAfterLazy.wf = true :=
  (slotsWf_iff _).mpr (wf_repairSlots r.slots h)

/-- … and keeps its set -/
theorem Rep.toBSet_repairAfterLazy (r : Rep) (h : r.LazyOk) : r.repairAfterLazy.toBSet = r.toBSet :=
  canon_ext_sinc _ _ (sinc_rep _) (sinc_rep _) (fun x => by
    have hw := (slotsWf_iff _).mp (Rep.wf_repairAfterLazy r h)
    rw [mem_rep_slots _ hw.bounded, Rep.mem_lazy r h]
    exact has_repairSlots r.slots (fun s hs => (h.ok s hs).2) x)

/-! ### `Clone` -/

theorem Rep.toBSet_clone (r : Rep) : r.clone.toBSet = r.toBSet := by
  simp only [Rep.clone, Rep.toBSet, List.map_map]
  rfl

theorem Rep.wf_clone (r : Rep) : r.clone.wf = r.wf := by
  simp only [Rep.clone, Rep.wf, List.map_map, List.all_map]
  rfl

/-- the source of a `Clone` keeps its set (only `needCopyOnWrite` flags are raised) -/
theorem Rep.toBSet_cloneSrc (r : Rep) : r.cloneSrc.toBSet = r.toBSet := by
  unfold Rep.cloneSrc
  split
  · simp only [Rep.toBSet, List.map_map]; rfl
  · rfl

/-! ### `FastOr` -/

theorem union_nil_left (a : BSet) (ha : SInc a) : BSet.union [] a = a :=
  canon_ext_sinc _ _ (sinc_union _ _ (by simp [SInc]) ha) ha
    (fun x => by rw [mem_union _ _ (by simp [SInc]) ha, mem_nil, Bool.false_or])

theorem foldl_lazyIOR2 (t : List Rep) (acc : Rep) (hacc : acc.LazyOk) (ht : ∀ r ∈ t, r.wf = true) :
    (t.foldl Rep.lazyIOR2 acc).LazyOk ∧
      (t.foldl Rep.lazyIOR2 acc).toBSet = (t.map Rep.toBSet).foldl BSet.union acc.toBSet := by
  induction t generalizing acc with
  | nil => exact ⟨hacc, rfl⟩
  | cons b t ih =>
    have hb := ht b (by simp)
    have := ih (Rep.lazyIOR2 acc b) (Rep.lazyOk_lazyIOR2 acc b hacc hb) (fun r hr => ht r (by simp [hr]))
    simp only [List.foldl_cons, List.map_cons]
    rw [← Rep.toBSet_lazyIOR2 acc b hacc hb]
    exact this

/-- the intermediate result of `FastOr` just before `repairAfterLazy` is lazy and denotes the union of the inputs -/
theorem fastOr_lazy (a b : Rep) (t : List Rep) (hl : ∀ r ∈ a :: b :: t, r.wf = true) :
    (t.foldl Rep.lazyIOR2 (Rep.lazyOR2 a b)).LazyOk ∧
      (t.foldl Rep.lazyIOR2 (Rep.lazyOR2 a b)).toBSet = BSet.unionL ((a :: b :: t).map Rep.toBSet) := by
  have ha := hl a (by simp)
  have hb := hl b (by simp)
  have := foldl_lazyIOR2 t (Rep.lazyOR2 a b) (Rep.lazyOk_lazyOR2 a b ha hb) (fun r hr => hl r (by simp [hr]))
  refine ⟨this.1, ?_⟩
  rw [this.2, Rep.toBSet_lazyOR2 a b ha hb]
  simp only [BSet.unionL, List.map_cons, List.foldl_cons, union_nil_left _ (sinc_rep a)]

/-- **`FastOr` computes the union**: for well-formed inputs the representation returned by the modelled `FastOr` (static
lazy union of the first two, in-place lazy union of the others with deferred cardinalities and the promotion of run
receivers, `repairAfterLazy`; `Clone` / `NewBitmap` for one / no input) denotes `BSet.unionL` of the inputs' sets -/
theorem Rep.toBSet_fastOr (l : List Rep) (hl : ∀ r ∈ l, r.wf = true) :
    (Rep.fastOr l).toBSet = BSet.unionL (l.map Rep.toBSet) := by
  match l, hl with
  | [], _ => rfl
  | [a], _ =>
    simp only [Rep.fastOr, Rep.toBSet_clone, BSet.unionL, List.map_cons, List.map_nil, List.foldl_cons, List.foldl_nil,
      union_nil_left _ (sinc_rep a)]
  | a :: b :: t, hl =>
    have h := fastOr_lazy a b t hl
    simp only [Rep.fastOr]
    rw [Rep.toBSet_repairAfterLazy _ h.1, h.2]

/-- **`FastOr` returns a well-formed bitmap** (no deferred cardinality, no mis-typed container survives the repair) -/
theorem Rep.wf_fastOr (l : List Rep) (hl : ∀ r ∈ l, r.wf = true) : (Rep.fastOr l).wf = true := by
  match l, hl with
  | [], _ => rfl
  | [a], hl => simp only [Rep.fastOr, Rep.wf_clone]; exact hl a (by simp)
  | a :: b :: t, hl =>
    simp only [Rep.fastOr]
    exact Rep.wf_repairAfterLazy _ (fastOr_lazy a b t hl).1

/-! ### `FastAnd` -/

theorem aggIand2_arr (xs : List Nat) (b : Cont) : (Cont.arr xs).aggIand2 b = (Cont.arr xs).and2 b := by cases b <;> rfl
theorem aggIand2_run (rs : List (Nat × Nat)) (b : Cont) : (Cont.run rs).aggIand2 b = (Cont.run rs).and2 b := by cases b <;> rfl
theorem aggIand2_bmp_bmp (c c2 : Int) (ws ws2 : List (BitVec 64)) :
    (Cont.bmp c ws).aggIand2 (.bmp c2 ws2) = (Cont.bmp c ws).and2 (.bmp c2 ws2) := rfl

theorem has_aggIand2 (a b : Cont) (ha : a.wf = true) (hb : b.wf = true) (x : Nat) :
    (a.aggIand2 b).has x = (a.has x && b.has x) := by
  cases a with
  | arr xs => rw [aggIand2_arr]; exact has_and2 _ _ ha hb x
  | run rs => rw [aggIand2_run]; exact has_and2 _ _ ha hb x
  | bmp c ws =>
    have hws := wf_bmp ha
    cases b with
    | bmp c2 ws2 => rw [aggIand2_bmp_bmp]; exact has_and2 _ _ ha hb x
    | arr ys =>
      have hys := wf_arr hb
      simp only [Cont.aggIand2]
      rw [has_ofWordsAB, testBit_andW _ _ (hws.1.trans (length_wordsOfArr ys).symm), testBit_wordsOfArr _ _ hys.bound]
      rfl
    | run rs =>
      have hrs := wf_run hb
      simp only [Cont.aggIand2]
      split <;> rename_i hf
      · have := isFullRun_eq hf
        subst this
        simp only [has_bmp, has_run, inRuns_full]
        by_cases h : x < 65536
        · simp [h]
        · simp [h, testBit_of_ge ws x (by omega)]
      · rw [has_ofWordsAB, testBit_andW _ _ (hws.1.trans (length_wordsOfRuns rs).symm), testBit_wordsOfRuns_wf hrs.bound]
        rfl

theorem emptyOrWf_aggIand2 (a b : Cont) (ha : a.wf = true) (hb : b.wf = true) : (a.aggIand2 b).EmptyOrWf := by
  cases a with
  | arr xs => rw [aggIand2_arr]; exact emptyOrWf_and2 _ _ ha hb
  | run rs => rw [aggIand2_run]; exact emptyOrWf_and2 _ _ ha hb
  | bmp c ws =>
    have hws := wf_bmp ha
    cases b with
    | bmp c2 ws2 => rw [aggIand2_bmp_bmp]; exact emptyOrWf_and2 _ _ ha hb
    | arr ys =>
      simp only [Cont.aggIand2]
      exact emptyOrWf_of (wfe_ofWordsAB (length_andW _ _ hws.1 (length_wordsOfArr ys))) (cardOk_ofWordsAB _)
    | run rs =>
      simp only [Cont.aggIand2]
      split
      · exact emptyOrWf_of (Or.inr ha) (cardOk_of_wf ha)
      · exact emptyOrWf_of (wfe_ofWordsAB (length_andW _ _ hws.1 (length_wordsOfRuns rs))) (cardOk_ofWordsAB _)

theorem has_iandSlots (a b : List Slot) (ha : SlotsWf a) (hb : SlotsWf b) (x : Nat) :
    slotsHas (iandSlots a b) x = (slotsHas a x && slotsHas b x) := by
  fun_induction iandSlots a b with
  | case1 b => rw [slotsHas_nil, Bool.false_and]
  | case2 a h => rw [slotsHas_nil, Bool.and_false]
  | case3 sa ta sb tb hlt ih =>
    rw [ih ha.tail hb, slotsHas_cons sa]
    by_cases hk : sa.key = x / 65536
    · rw [slotsHas_gt (hb.gt_of_lt_head hlt) (by omega)]
      simp
    · rw [beq_false_of_ne' hk]; simp
  | case4 sa ta sb tb hlt hlt2 ih =>
    have hlt' : sb.key < sa.key := by omega
    rw [ih ha hb.tail, slotsHas_cons sb tb]
    by_cases hk : sb.key = x / 65536
    · rw [slotsHas_gt (ha.gt_of_lt_head hlt') (by omega)]
      simp
    · rw [beq_false_of_ne' hk]; simp
  | case5 sa ta sb tb hlt hlt2 ih =>
    have hk : sb.key = sa.key := by omega
    rw [slotsHas_keep _ _ _ _ (emptyOrWf_aggIand2 _ _ ha.head.2 hb.head.2), ih ha.tail hb.tail,
      slotsHas_cons sa, slotsHas_cons sb, hk, has_aggIand2 _ _ ha.head.2 hb.head.2]
    by_cases hx : sa.key = x / 65536
    · rw [slotsHas_gt ha.head_lt (by omega), slotsHas_gt hb.head_lt (by omega), beq_true_of_eq' hx]
      simp
    · rw [beq_false_of_ne' hx]; simp

theorem gt_iandSlots (k : Nat) (a b : List Slot) (ha : ∀ s ∈ a, k < s.key) :
    ∀ s ∈ iandSlots a b, k < s.key := by
  fun_induction iandSlots a b with
  | case1 b => intro s hs; cases hs
  | case2 a h => intro s hs; cases hs
  | case3 sa ta sb tb hlt ih => exact ih (gt_tail ha)
  | case4 sa ta sb tb hlt hlt2 ih => exact ih ha
  | case5 sa ta sb tb hlt hlt2 ih =>
    intro s hs
    rcases mem_keep hs with h' | h'
    · rw [h']; exact ha sa (by simp)
    · exact ih (gt_tail ha) s h'

theorem wf_iandSlots (a b : List Slot) (ha : SlotsWf a) (hb : SlotsWf b) : SlotsWf (iandSlots a b) := by
  fun_induction iandSlots a b with
  | case1 b => exact SlotsWf.nil
  | case2 a h => exact SlotsWf.nil
  | case3 sa ta sb tb hlt ih => exact ih ha.tail hb
  | case4 sa ta sb tb hlt hlt2 ih => exact ih ha hb.tail
  | case5 sa ta sb tb hlt hlt2 ih =>
    exact wf_keep ha.head.1 (emptyOrWf_aggIand2 _ _ ha.head.2 hb.head.2) (ih ha.tail hb.tail)
      (gt_iandSlots _ _ _ ha.head_lt)

/-- the in-place `And` keeps well-formedness … -/
theorem Rep.wf_aggIand2 (a b : Rep) (ha : a.wf = true) (hb : b.wf = true) : (Rep.aggIand2 a b).wf = true :=
  (slotsWf_iff _).mpr (wf_iandSlots _ _ ((slotsWf_iff a).mp ha) ((slotsWf_iff b).mp hb))

theorem Rep.mem_aggIand2 (a b : Rep) (ha : a.wf = true) (hb : b.wf = true) (x : Nat) :
    mem (Rep.aggIand2 a b).toBSet x = (mem a.toBSet x && mem b.toBSet x) := by
  have hwa := (slotsWf_iff a).mp ha
  have hwb := (slotsWf_iff b).mp hb
  rw [mem_rep_slots _ (wf_iandSlots _ _ hwa hwb).bounded, mem_rep_slots a hwa.bounded, mem_rep_slots b hwb.bounded]
  exact has_iandSlots _ _ hwa hwb x

/-- … and denotes the intersection -/
theorem Rep.toBSet_aggIand2 (a b : Rep) (ha : a.wf = true) (hb : b.wf = true) :
    (Rep.aggIand2 a b).toBSet = BSet.inter a.toBSet b.toBSet :=
  canon_ext_sinc _ _ (sinc_rep _) (sinc_combine _ _ _ _ _ (sinc_rep a) (sinc_rep b))
    (fun x => by rw [Rep.mem_aggIand2 a b ha hb, mem_inter _ _ (sinc_rep a) (sinc_rep b)])

theorem foldl_aggIand2 (t : List Rep) (acc : Rep) (hacc : acc.wf = true) (ht : ∀ r ∈ t, r.wf = true) :
    (t.foldl Rep.aggIand2 acc).wf = true ∧
      (t.foldl Rep.aggIand2 acc).toBSet = (t.map Rep.toBSet).foldl BSet.inter acc.toBSet := by
  induction t generalizing acc with
  | nil => exact ⟨hacc, rfl⟩
  | cons b t ih =>
    have hb := ht b (by simp)
    have := ih (Rep.aggIand2 acc b) (Rep.wf_aggIand2 acc b hacc hb) (fun r hr => ht r (by simp [hr]))
    simp only [List.foldl_cons, List.map_cons]
    rw [← Rep.toBSet_aggIand2 acc b hacc hb]
    exact this

/-- **`FastAnd` computes the intersection** (`BSet.interL`: the empty list gives the empty bitmap, domain assumption D1 of
`Driver/Agg.lean`, which is what `FastAnd()` returns) -/
theorem Rep.toBSet_fastAnd (l : List Rep) (hl : ∀ r ∈ l, r.wf = true) :
    (Rep.fastAnd l).toBSet = BSet.interL (l.map Rep.toBSet) := by
  match l, hl with
  | [], _ => rfl
  | [a], _ => simp only [Rep.fastAnd, Rep.toBSet_clone, BSet.interL, List.map_cons, List.map_nil, List.foldl_nil]
  | a :: b :: t, hl =>
    have ha := hl a (by simp)
    have hb := hl b (by simp)
    have := foldl_aggIand2 t (Rep.and2 a b) (Rep.wf_and2 a b ha hb) (fun r hr => hl r (by simp [hr]))
    simp only [Rep.fastAnd, BSet.interL, List.map_cons, List.foldl_cons]
    rw [this.2, Rep.toBSet_and2 a b ha hb]

/-- **`FastAnd` returns a well-formed bitmap** -/
theorem Rep.wf_fastAnd (l : List Rep) (hl : ∀ r ∈ l, r.wf = true) : (Rep.fastAnd l).wf = true := by
  match l, hl with
  | [], _ => rfl
  | [a], hl => simp only [Rep.fastAnd, Rep.wf_clone]; exact hl a (by simp)
  | a :: b :: t, hl =>
    simp only [Rep.fastAnd]
    exact (foldl_aggIand2 t (Rep.and2 a b) (Rep.wf_and2 a b (hl a (by simp)) (hl b (by simp)))
      (fun r hr => hl r (by simp [hr]))).1

/-! ### `AndAny`: the union built per key -/

/-- what `AndAny` may hold in `ored`: a well-formed array / run container, or a 1024-word bitmap container whose cached
cardinality is exact — but possibly `≤ 4096` (the scratch bitmap is chosen from the SUM of the cardinalities) -/
def Cont.OrOk : Cont → Prop
  | .bmp k ws => ws.length = 1024 ∧ k = (wordsCard ws : Int)
  | c => c.wf = true

theorem orOk_of_wf {c : Cont} (h : c.wf = true) : c.OrOk := by
  cases c with
  | arr vs => exact h
  | run rs => exact h
  | bmp k ws => exact ⟨(wf_bmp h).1, (wf_bmp h).2.1⟩

theorem bounded_of_orOk {c : Cont} (h : c.OrOk) : c.Bounded := by
  cases c with
  | arr vs => exact bounded_of_wf h
  | run rs => exact bounded_of_wf h
  | bmp k ws => intro y hy; exact testBit_lt h.1 hy

theorem orOk_ofWordsOr {ws : List (BitVec 64)} (hl : ws.length = 1024) : (ofWordsOr ws).OrOk := by
  simp only [ofWordsOr]
  split
  · show fullRun.wf = true; decide
  · exact ⟨hl, rfl⟩

theorem has_fullRun_of_card {ws : List (BitVec 64)} (hl : ws.length = 1024) (hc : wordsCard ws = 65536) (x : Nat) :
    fullRun.has x = testBit ws x := by
  rw [has_fullRun]
  by_cases hx : x < 65536
  · rw [testBit_of_full ws hl hc x]
  · simp [hx, testBit_of_ge ws x (by omega)]

theorem aggIor2_run (rs : List (Nat × Nat)) (b : Cont) : (Cont.run rs).aggIor2 b = (Cont.run rs).or2 b := by cases b <;> rfl
theorem aggIor2_arr_arr (xs ys : List Nat) : (Cont.arr xs).aggIor2 (.arr ys) = (Cont.arr xs).lazyIOR2 (.arr ys) := rfl
theorem aggIor2_arr_run (xs : List Nat) (rs : List (Nat × Nat)) :
    (Cont.arr xs).aggIor2 (.run rs) = (Cont.arr xs).lazyIOR2 (.run rs) := rfl
theorem aggIor2_arr_bmp (xs : List Nat) (c : Int) (ws : List (BitVec 64)) :
    (Cont.arr xs).aggIor2 (.bmp c ws) = (Cont.bmp c ws).or2 (.arr xs) := rfl

/-- a lazy container whose cached cardinality is not the deferred one is `OrOk` -/
theorem orOk_of_lazyOk {c : Cont} (h : c.lazyOk = true) (hne : ∀ k ws, c = .bmp k ws → k ≠ -1) : c.OrOk := by
  cases c with
  | arr vs => exact h
  | run rs => exact h
  | bmp k ws =>
    obtain ⟨hlen, h2⟩ := lazyOk_bmp_iff.mp h
    rcases h2 with ⟨hk, _⟩ | ⟨hk, _⟩
    · exact absurd hk (hne k ws rfl)
    · exact ⟨hlen, hk⟩

theorem runToEfficient_card_ne (rs : List (Nat × Nat)) : ∀ k ws, runToEfficient rs = .bmp k ws → k ≠ -1 := by
  intro k ws h
  simp only [runToEfficient, runToEfficientCard] at h
  split at h
  · cases h
  · split at h
    · cases h
    · cases h; omega

theorem runOrArr_card_ne (rs : List (Nat × Nat)) (ys : List Nat) : ∀ k ws, runOrArr rs ys = .bmp k ws → k ≠ -1 := by
  intro k ws h
  simp only [runOrArr] at h
  split at h
  · cases h
  · split at h
    · cases h
    · exact runToEfficient_card_ne _ k ws h

/-- the non-lazy in-place union denotes the union and keeps `OrOk` -/
theorem aggIor2_spec (a b : Cont) (ha : a.OrOk) (hb : b.wf = true) :
    (a.aggIor2 b).OrOk ∧ ∀ x, (a.aggIor2 b).has x = (a.has x || b.has x) := by
  cases a with
  | run rs =>
    rw [aggIor2_run]
    exact ⟨orOk_of_wf (wf_or2_ne _ _ ha hb), has_or2 _ _ ha hb⟩
  | arr xs =>
    have ha' : (Cont.arr xs).wf = true := ha
    have hrecv : (Cont.arr xs).LazyRecv := Or.inl (lazyOk_of_wf ha')
    cases b with
    | arr ys =>
      rw [aggIor2_arr_arr]
      refine ⟨orOk_of_lazyOk (lazyOk_lazyIOR2 _ _ hrecv hb) ?_, has_lazyIOR2 _ _ hrecv hb⟩
      intro k ws h
      simp only [Cont.lazyIOR2] at h
      split at h
      · cases h; omega
      · cases h
    | run rs =>
      rw [aggIor2_arr_run]
      refine ⟨orOk_of_lazyOk (lazyOk_lazyIOR2 _ _ hrecv hb) ?_, has_lazyIOR2 _ _ hrecv hb⟩
      intro k ws h
      simp only [Cont.lazyIOR2] at h
      split at h
      · cases h
      · simp only [arrIorRun] at h
        split at h
        · cases h
        · exact runOrArr_card_ne _ _ k ws h
    | bmp c ws =>
      rw [aggIor2_arr_bmp]
      refine ⟨orOk_of_wf (wf_or2_ne _ _ hb ha'), fun x => ?_⟩
      rw [has_or2 _ _ hb ha', Bool.or_comm]
  | bmp k ws =>
    obtain ⟨hl, hk⟩ := ha
    cases b with
    | arr ys =>
      have hys := wf_arr hb
      have hcard := card_bmpOrArr ws ys hl hys
      have hlen : (ys.foldl setBit ws).length = 1024 := by rw [length_foldl_setBit]; exact hl
      have hhas : ∀ x, testBit (ys.foldl setBit ws) x = (testBit ws x || ys.contains x) :=
        fun x => testBit_foldl_setBit ys ws x (by intro v hv; have := hys.bound v hv; omega)
      simp only [Cont.aggIor2]
      split <;> rename_i hfull
      · have hc : wordsCard (ys.foldl setBit ws) = 65536 := by
          have : k + ((ys.filter fun v => !testBit ws v).length : Nat) = (65536 : Int) := by simpa using hfull
          omega
        refine ⟨by show fullRun.wf = true; decide, fun x => ?_⟩
        rw [has_fullRun_of_card hlen hc, hhas]; rfl
      · refine ⟨⟨hlen, by rw [hcard, hk]; simp⟩, fun x => ?_⟩
        rw [has_bmp, hhas]; rfl
    | bmp c2 ws2 =>
      have hws2 := wf_bmp hb
      simp only [Cont.aggIor2]
      refine ⟨orOk_ofWordsOr (length_orW _ _ hl hws2.1), fun x => ?_⟩
      rw [has_ofWordsOr _ (length_orW _ _ hl hws2.1), testBit_orW _ _ (hl.trans hws2.1.symm)]; rfl
    | run rs =>
      have hrs := wf_run hb
      simp only [Cont.aggIor2]
      split <;> rename_i hf
      · refine ⟨hb, fun x => ?_⟩
        have := isFullRun_eq hf
        subst this
        simp only [has_bmp, has_run, inRuns_full]
        by_cases h : x < 65536
        · simp [h]
        · simp [h, testBit_of_ge ws x (by omega)]
      · have hlen : (orW (wordsOfRuns rs) ws).length = 1024 := length_orW _ _ (length_wordsOfRuns rs) hl
        have hhas : ∀ x, testBit (orW (wordsOfRuns rs) ws) x = (testBit ws x || inRuns rs x) := fun x => by
          rw [testBit_orW _ _ ((length_wordsOfRuns rs).trans hl.symm), testBit_wordsOfRuns_wf hrs.bound, Bool.or_comm]
        split <;> rename_i hfull
        · have hc : wordsCard (orW (wordsOfRuns rs) ws) = 65536 := by
            have : k + (wordsCard (orW (wordsOfRuns rs) ws) : Int) - (wordsCard ws : Int) = (65536 : Int) := by
              simpa using hfull
            omega
          refine ⟨by show fullRun.wf = true; decide, fun x => ?_⟩
          rw [has_fullRun_of_card hlen hc, hhas]; rfl
        · refine ⟨⟨hlen, by omega⟩, fun x => ?_⟩
          rw [has_bmp, hhas]; rfl

theorem foldl_aggIor2 (rest : List Cont) (start : Cont) (hs : start.OrOk) (hr : ∀ c ∈ rest, c.wf = true) :
    (rest.foldl Cont.aggIor2 start).OrOk ∧
      ∀ x, (rest.foldl Cont.aggIor2 start).has x = (start.has x || rest.any (·.has x)) := by
  induction rest generalizing start with
  | nil => exact ⟨hs, fun x => by simp⟩
  | cons c t ih =>
    have hc := hr c (by simp)
    have h1 := aggIor2_spec start c hs hc
    have h2 := ih (start.aggIor2 c) h1.1 (fun c' hc' => hr c' (by simp [hc']))
    refine ⟨h2.1, fun x => ?_⟩
    rw [List.foldl_cons, h2.2 x, h1.2 x, List.any_cons, Bool.or_assoc]

theorem cardGo_nonneg {c : Cont} (h : c.wf = true) : 0 ≤ c.cardGo := by
  cases c with
  | arr vs => simp [Cont.cardGo]
  | run rs => simp [Cont.cardGo]
  | bmp k ws => have := (wf_bmp h).2.1; simp only [Cont.cardGo]; omega

theorem sum_cardGo_nonneg (l : List Cont) (h : ∀ c ∈ l, c.wf = true) : 0 ≤ (l.map Cont.cardGo).sum := by
  induction l with
  | nil => simp
  | cons c t ih =>
    have := cardGo_nonneg (h c (by simp))
    have := ih (fun c' hc' => h c' (by simp [hc']))
    simp only [List.map_cons, List.sum_cons]; omega

theorem scratchBmp_spec (c : Cont) (h : c.wf = true) : (scratchBmp c).OrOk ∧ ∀ x, (scratchBmp c).has x = c.has x := by
  cases c with
  | arr xs =>
    have hxs := wf_arr h
    refine ⟨⟨length_wordsOfArr xs, ?_⟩, fun x => ?_⟩
    · rw [wordsCard_eq_length (nodup_of_sorted hxs.sorted) (fun v => by rw [testBit_wordsOfArr _ _ hxs.bound]; simp)]
    · simp only [scratchBmp, has_bmp, has_arr, testBit_wordsOfArr _ _ hxs.bound]
  | bmp k ws => exact ⟨⟨(wf_bmp h).1, (wf_bmp h).2.1⟩, fun x => rfl⟩
  | run rs =>
    have hrs := wf_run h
    refine ⟨⟨length_wordsOfRuns rs, ?_⟩, fun x => ?_⟩
    · rw [wordsCard_wordsOfRuns rs hrs.sep hrs.bound]
    · simp only [scratchBmp, has_bmp, has_run, testBit_wordsOfRuns_wf hrs.bound]

theorem scratchArr_spec (c : Cont) (h : c.wf = true) (hle : c.cardGo ≤ 4096) :
    (scratchArr c).OrOk ∧ ∀ x, (scratchArr c).has x = c.has x := by
  cases c with
  | arr xs => exact ⟨h, fun x => rfl⟩
  | bmp k ws =>
    exfalso
    obtain ⟨_, hk, hgt⟩ := wf_bmp h
    simp only [Cont.cardGo] at hle
    omega
  | run rs =>
    have hrs := wf_run h
    simp only [Cont.cardGo] at hle
    obtain ⟨y, hy⟩ := exists_has_of_wf h
    have hmem : (Cont.arr (expandRuns rs)).has y = true := by
      rw [has_arr, contains_expandRuns]; exact hy
    refine ⟨?_, fun x => ?_⟩
    · show (Cont.arr (expandRuns rs)).wf = true
      refine wf_of_wfe (wfe_arr ⟨?_, sorted_expandRuns rs hrs.sep, ?_⟩) hmem
      · rw [length_expandRuns]; omega
      · intro v hv; exact lt_of_inRuns hrs.bound ((mem_expandRuns rs v).mp hv)
    · simp only [scratchArr, has_arr, has_run, contains_expandRuns]

/-- the container `AndAny` intersects the receiver's container with: `OrOk`, and it denotes the union of the collected ones -/
theorem oredOf_spec (cs : List Cont) (hcs : ∀ c ∈ cs, c.wf = true) :
    match oredOf cs with
    | none => cs = []
    | some o => o.OrOk ∧ ∀ x, o.has x = cs.any (·.has x) := by
  match cs, hcs with
  | [], _ => simp [oredOf]
  | [c], hcs => simp only [oredOf]; exact ⟨orOk_of_wf (hcs c (by simp)), fun x => by simp⟩
  | c0 :: c1 :: rest, hcs =>
    simp only [oredOf]
    have h0 := hcs c0 (by simp)
    have hr : ∀ c ∈ c1 :: rest, c.wf = true := fun c hc => hcs c (by simp [hc])
    have hstart : (if ((c0 :: c1 :: rest).map Cont.cardGo).sum > (arrayMax : Int) then scratchBmp c0 else scratchArr c0).OrOk ∧
        ∀ x, (if ((c0 :: c1 :: rest).map Cont.cardGo).sum > (arrayMax : Int) then scratchBmp c0 else scratchArr c0).has x
          = c0.has x := by
      split <;> rename_i hsum
      · exact scratchBmp_spec c0 h0
      · refine scratchArr_spec c0 h0 ?_
        have := sum_cardGo_nonneg (c1 :: rest) hr
        simp only [List.map_cons, List.sum_cons, arrayMax] at hsum this ⊢
        omega
    have := foldl_aggIor2 (c1 :: rest) _ hstart.1 hr
    refine ⟨this.1, fun x => ?_⟩
    rw [this.2 x, hstart.2 x]
    simp only [List.any_cons]

/-! ### `AndAny`: one key -/

theorem has_andAnyFix (c : Cont) (x : Nat) : (andAnyFix c).has x = c.has x := by
  cases c with
  | arr vs => rfl
  | run rs => rfl
  | bmp k ws =>
    simp only [andAnyFix]
    split
    · simp only [has_arr, has_bmp, contains_valsOfWords]
    · rfl

theorem emptyOrWf_andAnyFix (c : Cont) (h : c.EmptyOrWf) : (andAnyFix c).EmptyOrWf := by
  cases c with
  | arr vs => exact h
  | run rs => exact h
  | bmp k ws =>
    simp only [andAnyFix]
    split <;> rename_i hk
    · rcases h with ⟨_, hno⟩ | ⟨_, hw⟩
      · left
        have : valsOfWords ws = [] := by
          cases hv : valsOfWords ws with
          | nil => rfl
          | cons v t =>
            have := (mem_valsOfWords ws v).mp (by rw [hv]; simp)
            have h2 := hno v
            simp only [has_bmp] at h2
            rw [this] at h2; cases h2
        rw [this]
        exact ⟨rfl, fun y => rfl⟩
      · exfalso
        obtain ⟨_, hc, hgt⟩ := wf_bmp hw
        simp only [arrayMax] at hk
        omega
    · exact h

theorem has_andAnyStep (a o : Cont) (ha : a.wf = true) (ho : o.OrOk) (x : Nat) :
    (andAnyFix (a.aggIand2 o)).has x = (a.has x && o.has x) := by
  rw [has_andAnyFix]
  cases o with
  | arr ys => exact has_aggIand2 a _ ha ho x
  | run rs => exact has_aggIand2 a _ ha ho x
  | bmp k ws =>
    obtain ⟨hl, hk⟩ := ho
    cases a with
    | arr xs => simp only [Cont.aggIand2, has_arr, has_bmp, has_filter]
    | bmp c1 ws1 =>
      simp only [Cont.aggIand2]
      rw [has_ofWordsAB, testBit_andW _ _ ((wf_bmp ha).1.trans hl.symm)]; rfl
    | run rs =>
      have hrs := wf_run ha
      rw [aggIand2_run]
      simp only [Cont.and2]
      split <;> rename_i hf
      · have := isFullRun_eq hf
        subst this
        simp only [has_bmp, has_run, inRuns_full]
        by_cases h : x < 65536
        · simp [h]
        · simp [h, testBit_of_ge ws x (by omega)]
      · rw [has_ofWordsAB, testBit_andW _ _ ((length_wordsOfRuns rs).trans hl.symm), testBit_wordsOfRuns_wf hrs.bound]
        rfl

theorem emptyOrWf_andAnyStep (a o : Cont) (ha : a.wf = true) (ho : o.OrOk) : (andAnyFix (a.aggIand2 o)).EmptyOrWf := by
  cases o with
  | arr ys => exact emptyOrWf_andAnyFix _ (emptyOrWf_aggIand2 a _ ha ho)
  | run rs => exact emptyOrWf_andAnyFix _ (emptyOrWf_aggIand2 a _ ha ho)
  | bmp k ws =>
    obtain ⟨hl, hk⟩ := ho
    cases a with
    | arr xs =>
      simp only [Cont.aggIand2, andAnyFix]
      exact emptyOrWf_of (wfe_filter (wf_arr ha) _) (cardOk_arr _)
    | bmp c1 ws1 =>
      simp only [Cont.aggIand2]
      exact emptyOrWf_andAnyFix _ (emptyOrWf_of (wfe_ofWordsAB (length_andW _ _ (wf_bmp ha).1 hl)) (cardOk_ofWordsAB _))
    | run rs =>
      rw [aggIand2_run]
      simp only [Cont.and2]
      split
      · simp only [andAnyFix]
        split <;> rename_i hle
        · exact emptyOrWf_of (wfe_arr (arrOk_valsOfWords hl (by simp only [arrayMax] at hle; omega))) (cardOk_arr _)
        · exact emptyOrWf_of (Or.inr (wf_bmp_mk hl hk (by simp only [arrayMax] at hle; omega))) (cardOk_bmp hk)
      · exact emptyOrWf_andAnyFix _
          (emptyOrWf_of (wfe_ofWordsAB (length_andW _ _ (length_wordsOfRuns rs) hl)) (cardOk_ofWordsAB _))

/-! ### `AndAny`: the walk -/

theorem findCont_mem {k : Nat} {b : List Slot} {c : Cont} (h : findCont k b = some c) : ∃ s ∈ b, s.c = c := by
  unfold findCont at h
  cases hf : b.find? (·.key == k) with
  | none => rw [hf] at h; cases h
  | some s =>
    rw [hf] at h
    exact ⟨s, List.mem_of_find?_eq_some hf, by simpa using h⟩

theorem slotsHas_eq_findCont (b : List Slot) (hb : SlotsWf b) (x : Nat) :
    slotsHas b x = (match findCont (x / 65536) b with
      | some c => c.has (x % 65536)
      | none => false) :=
  (has_eq_slotsHas { slots := b } hb x).symm

theorem any_findCont (bs : List (List Slot)) (hbs : ∀ b ∈ bs, SlotsWf b) (x : Nat) :
    (bs.filterMap (findCont (x / 65536))).any (·.has (x % 65536)) = bs.any (slotsHas · x) := by
  induction bs with
  | nil => rfl
  | cons b t ih =>
    have hb := hbs b (by simp)
    have iht := ih (fun b' hb' => hbs b' (by simp [hb']))
    rw [List.any_cons, slotsHas_eq_findCont b hb x, List.filterMap_cons]
    cases findCont (x / 65536) b with
    | none => simpa using iht
    | some c => simp only [List.any_cons, iht]

theorem wf_of_mem_filterMap {bs : List (List Slot)} (hbs : ∀ b ∈ bs, SlotsWf b) {k : Nat} :
    ∀ c ∈ bs.filterMap (findCont k), c.wf = true := by
  intro c hc
  obtain ⟨b, hb, hfc⟩ := List.mem_filterMap.mp hc
  obtain ⟨s, hs, rfl⟩ := findCont_mem hfc
  exact ((hbs b hb).ok s hs).2

theorem has_andAnySlots (bs : List (List Slot)) (hbs : ∀ b ∈ bs, SlotsWf b) (a : List Slot) (ha : SlotsWf a) (x : Nat) :
    slotsHas (andAnySlots bs a) x = (slotsHas a x && bs.any (slotsHas · x)) := by
  induction a with
  | nil => simp [andAnySlots, slotsHas_nil]
  | cons s t ih =>
    have iht := ih ha.tail
    have hspec := oredOf_spec (bs.filterMap (findCont s.key)) (wf_of_mem_filterMap hbs)
    rw [slotsHas_cons s t]
    cases hO : oredOf (bs.filterMap (findCont s.key)) with
    | none =>
      rw [hO] at hspec
      simp only [andAnySlots, hO]
      rw [iht]
      by_cases hk : s.key = x / 65536
      · have hany : bs.any (slotsHas · x) = false := by
          rw [← any_findCont bs hbs x, ← hk, hspec]; rfl
        rw [hany]; simp
      · rw [beq_false_of_ne' hk]; simp
    | some o =>
      rw [hO] at hspec
      simp only [andAnySlots, hO]
      rw [slotsHas_keep _ _ _ _ (emptyOrWf_andAnyStep _ _ ha.head.2 hspec.1), iht,
        has_andAnyStep _ _ ha.head.2 hspec.1, hspec.2]
      by_cases hk : s.key = x / 65536
      · rw [slotsHas_gt ha.head_lt (by omega), beq_true_of_eq' hk, hk, any_findCont bs hbs x]
        simp
      · rw [beq_false_of_ne' hk]; simp

theorem gt_andAnySlots (bs : List (List Slot)) (k : Nat) (a : List Slot) (ha : ∀ s ∈ a, k < s.key) :
    ∀ s ∈ andAnySlots bs a, k < s.key := by
  induction a with
  | nil => intro s hs; simp [andAnySlots] at hs
  | cons s t ih =>
    have iht := ih (gt_tail ha)
    cases hO : oredOf (bs.filterMap (findCont s.key)) with
    | none => simp only [andAnySlots, hO]; exact iht
    | some o =>
      simp only [andAnySlots, hO]
      intro s' hs'
      rcases mem_keep hs' with h' | h'
      · rw [h']; exact ha s (by simp)
      · exact iht s' h'

theorem wf_andAnySlots (bs : List (List Slot)) (hbs : ∀ b ∈ bs, SlotsWf b) (a : List Slot) (ha : SlotsWf a) :
    SlotsWf (andAnySlots bs a) := by
  induction a with
  | nil => simp only [andAnySlots]; exact SlotsWf.nil
  | cons s t ih =>
    have iht := ih ha.tail
    have hspec := oredOf_spec (bs.filterMap (findCont s.key)) (wf_of_mem_filterMap hbs)
    cases hO : oredOf (bs.filterMap (findCont s.key)) with
    | none => simp only [andAnySlots, hO]; exact iht
    | some o =>
      rw [hO] at hspec
      simp only [andAnySlots, hO]
      exact wf_keep ha.head.1 (emptyOrWf_andAnyStep _ _ ha.head.2 hspec.1) iht (gt_andAnySlots bs _ _ ha.head_lt)

/-- **`AndAny` returns a well-formed receiver** (for every argument list, the empty one included) -/
theorem Rep.wf_andAny (x : Rep) (l : List Rep) (hx : x.wf = true) (hl : ∀ r ∈ l, r.wf = true) :
    (x.andAny l).wf = true := by
  match l, hl with
  | [], _ => exact hx
  | [b], hl => exact Rep.wf_aggIand2 x b hx (hl b (by simp))
  | b1 :: b2 :: t, hl =>
    simp only [Rep.andAny]
    refine (slotsWf_iff _).mpr (wf_andAnySlots _ ?_ _ ((slotsWf_iff x).mp hx))
    intro b hb
    obtain ⟨r, hr, rfl⟩ := List.mem_map.mp hb
    exact (slotsWf_iff r).mp (hl r hr)

theorem any_congr_mem {α : Type} {l : List α} {f g : α → Bool} (h : ∀ a ∈ l, f a = g a) : l.any f = l.any g := by
  induction l with
  | nil => rfl
  | cons a t ih =>
    rw [List.any_cons, List.any_cons, h a (by simp), ih (fun a' ha' => h a' (by simp [ha']))]

theorem sinc_unionL (l : List BSet) (hl : ∀ s ∈ l, SInc s) : SInc (BSet.unionL l) :=
  sinc_foldl_union l [] (by simp [SInc]) hl

theorem mem_unionL_sinc (l : List BSet) (hl : ∀ s ∈ l, SInc s) (x : Nat) :
    mem (BSet.unionL l) x = l.any (mem · x) := by
  rw [BSet.unionL, RModel.Impl.mem_foldl_union l [] (by simp [SInc]) hl, mem_nil, Bool.false_or]

theorem Rep.mem_andAny (x : Rep) (l : List Rep) (hne : l ≠ []) (hx : x.wf = true) (hl : ∀ r ∈ l, r.wf = true) (v : Nat) :
    mem (x.andAny l).toBSet v = (mem x.toBSet v && l.any (fun r => mem r.toBSet v)) := by
  have hwx := (slotsWf_iff x).mp hx
  match l, hne, hl with
  | [], hne, _ => exact absurd rfl hne
  | [b], _, hl =>
    simp only [Rep.andAny, List.any_cons, List.any_nil, Bool.or_false]
    exact Rep.mem_aggIand2 x b hx (hl b (by simp)) v
  | b1 :: b2 :: t, _, hl =>
    have hbs : ∀ b ∈ (b1 :: b2 :: t).map (·.slots), SlotsWf b := by
      intro b hb
      obtain ⟨r, hr, rfl⟩ := List.mem_map.mp hb
      exact (slotsWf_iff r).mp (hl r hr)
    have hw := wf_andAnySlots _ hbs _ hwx
    simp only [Rep.andAny]
    rw [mem_rep_slots _ hw.bounded, mem_rep_slots x hwx.bounded]
    show slotsHas (andAnySlots _ x.slots) v = _
    rw [has_andAnySlots _ hbs _ hwx v, List.any_map]
    congr 1
    exact any_congr_mem (fun r hr => (mem_rep_slots r ((slotsWf_iff r).mp (hl r hr)).bounded v).symm)

/-- **`AndAny` computes `x ∩ ⋃ l`** for a non-empty argument list (the empty list is outside the documented domain: Go leaves
the receiver untouched, the specification `BSet.andAny` would empty it) -/
theorem Rep.toBSet_andAny (x : Rep) (l : List Rep) (hne : l ≠ []) (hx : x.wf = true) (hl : ∀ r ∈ l, r.wf = true) :
    (x.andAny l).toBSet = BSet.andAny x.toBSet (l.map Rep.toBSet) := by
  have hs : ∀ s ∈ l.map Rep.toBSet, SInc s := by
    intro s hs
    obtain ⟨r, _, rfl⟩ := List.mem_map.mp hs
    exact sinc_rep r
  refine canon_ext_sinc _ _ (sinc_rep _) (sinc_combine _ _ _ _ _ (sinc_rep x) (sinc_unionL _ hs)) (fun v => ?_)
  rw [Rep.mem_andAny x l hne hx hl v, BSet.andAny, mem_inter _ _ (sinc_rep x) (sinc_unionL _ hs),
    mem_unionL_sinc _ hs, List.any_map]
  rfl

end RModel.Impl
