import RProofs.ContOps
import RProofs.BSetQuery
import RModel.Impl.ContQuery
/-!
Kind-independent part of the correctness proof of the container query kernels (`RModel/Impl/ContQuery.lean`).

The answers of the query kernels are first characterised at the level of a membership predicate `p : Nat → Bool`
(`IsRank`, `IsSelect`, `IsMin`, `IsMax`, `IsNext`, `IsPrev`, `IsNextAbsent`, `IsPrevAbsent`, `IsCardInRange`);
each container kind proves that its Go algorithm satisfies these characterisations for its own membership test
(`List.contains`, `testBit`, `inRuns`); this file turns a characterisation into the equation with the verified
set-level query of `BSet` on any canonical boundary list with the same members.
Core Lean only; no `native_decide`, `bv_decide`, axioms.
-/
namespace RModel.Impl
open RModel RModel.BSet

/-- number of `v < n` with `p v` -/
def cnt (p : Nat → Bool) (n : Nat) : Nat := ((List.range n).filter p).length

theorem cnt_zero (p : Nat → Bool) : cnt p 0 = 0 := by simp [cnt]

theorem cnt_succ (p : Nat → Bool) (n : Nat) : cnt p (n + 1) = cnt p n + (if p n then 1 else 0) := by
  unfold cnt
  rw [List.range_succ, List.filter_append]
  cases h : p n <;> simp [h]

theorem cnt_le_succ (p : Nat → Bool) (n : Nat) : cnt p n ≤ cnt p (n + 1) := by
  rw [cnt_succ]; omega

theorem cnt_mono (p : Nat → Bool) {a b : Nat} (h : a ≤ b) : cnt p a ≤ cnt p b := by
  induction b with
  | zero => have : a = 0 := by omega
            subst this; exact Nat.le_refl _
  | succ b ih =>
    by_cases hab : a = b + 1
    · subst hab; exact Nat.le_refl _
    · exact Nat.le_trans (ih (by omega)) (cnt_le_succ p b)

theorem cnt_le (p : Nat → Bool) (n : Nat) : cnt p n ≤ n := by
  induction n with
  | zero => simp [cnt_zero]
  | succ n ih => rw [cnt_succ]; split <;> omega

theorem cnt_congr {p q : Nat → Bool} (n : Nat) (h : ∀ x, x < n → p x = q x) : cnt p n = cnt q n := by
  induction n with
  | zero => simp [cnt_zero]
  | succ n ih =>
    rw [cnt_succ, cnt_succ, ih (fun x hx => h x (by omega)), h n (by omega)]

/-- `p` holds nowhere in `[a, b)`: the count does not move -/
theorem cnt_eq_of_none (p : Nat → Bool) {a b : Nat} (hab : a ≤ b) (h : ∀ u, a ≤ u → u < b → p u = false) :
    cnt p b = cnt p a := by
  induction b with
  | zero => have : a = 0 := by omega
            subst this; rfl
  | succ b ih =>
    by_cases e : a = b + 1
    · subst e; rfl
    · rw [cnt_succ, h b (by omega) (by omega), ih (by omega) (fun u h1 h2 => h u h1 (by omega))]; simp

/-- `p` holds everywhere in `[a, b)`: the count moves by `b - a` -/
theorem cnt_eq_of_all (p : Nat → Bool) {a b : Nat} (hab : a ≤ b) (h : ∀ u, a ≤ u → u < b → p u = true) :
    cnt p b = cnt p a + (b - a) := by
  induction b with
  | zero => have : a = 0 := by omega
            subst this; rfl
  | succ b ih =>
    by_cases e : a = b + 1
    · subst e; simp
    · rw [cnt_succ, h b (by omega) (by omega), ih (by omega) (fun u h1 h2 => h u h1 (by omega))]; simp; omega

/-- the count is strictly increasing across a member -/
theorem cnt_lt_of_mem (p : Nat → Bool) {a b : Nat} (hab : a < b) (ha : p a = true) : cnt p a < cnt p b := by
  have h1 : cnt p (a + 1) = cnt p a + 1 := by rw [cnt_succ, ha]; simp
  have h2 := cnt_mono p (show a + 1 ≤ b by omega)
  omega

/-- a strictly increasing list of members, all below `n`, containing every member below `n`, has `cnt p n` elements -/
theorem cnt_eq_length {p : Nat → Bool} {l : List Nat} (hl : l.Pairwise (· < ·)) (n : Nat)
    (h : ∀ x, x ∈ l ↔ (x < n ∧ p x = true)) : cnt p n = l.length := by
  unfold cnt
  apply length_eq_of_mem_iff
  · exact (List.nodup_range (n := n)).filter _
  · exact nodup_of_sorted hl
  · intro a
    rw [h a]; simp

/-! ### the characterisations -/

def IsRank (p : Nat → Bool) (x : Nat) (r : Int) : Prop := r = (cnt p (x + 1) : Int)

def IsSelect (p : Nat → Bool) (i : Nat) (r : Int) : Prop := ∃ v : Nat, r = (v : Int) ∧ p v = true ∧ cnt p v = i

def IsMin (p : Nat → Bool) (r : Int) : Prop := ∃ v : Nat, r = (v : Int) ∧ p v = true ∧ ∀ u, u < v → p u = false

def IsMax (p : Nat → Bool) (r : Int) : Prop := ∃ v : Nat, r = (v : Int) ∧ p v = true ∧ ∀ u, v < u → p u = false

def IsNext (p : Nat → Bool) (x : Nat) (r : Int) : Prop :=
  (∃ v : Nat, r = (v : Int) ∧ x ≤ v ∧ p v = true ∧ ∀ u, x ≤ u → u < v → p u = false) ∨
  (r = -1 ∧ ∀ u, x ≤ u → p u = false)

def IsPrev (p : Nat → Bool) (x : Nat) (r : Int) : Prop :=
  (∃ v : Nat, r = (v : Int) ∧ v ≤ x ∧ p v = true ∧ ∀ u, v < u → u ≤ x → p u = false) ∨
  (r = -1 ∧ ∀ u, u ≤ x → p u = false)

def IsNextAbsent (p : Nat → Bool) (x : Nat) (r : Int) : Prop :=
  ∃ v : Nat, r = (v : Int) ∧ x ≤ v ∧ p v = false ∧ ∀ u, x ≤ u → u < v → p u = true

def IsPrevAbsent (p : Nat → Bool) (x : Nat) (r : Int) : Prop :=
  (∃ v : Nat, r = (v : Int) ∧ v ≤ x ∧ p v = false ∧ ∀ u, v < u → u ≤ x → p u = true) ∨
  (r = -1 ∧ ∀ u, u ≤ x → p u = true)

def IsCardInRange (p : Nat → Bool) (lo hi : Nat) (r : Int) : Prop := r = ((cnt p hi - cnt p lo : Nat) : Int)

/-! ### from a characterisation to the `BSet` query -/

section glue
variable {s : BSet} {p : Nat → Bool}

theorem rankLt_eq_cnt (hs : SInc s) (he : Even s) (hm : ∀ x, mem s x = p x) (n : Nat) : rankLt s n = cnt p n := by
  rw [rankLt_eq_count s hs he]
  unfold cnt
  congr 1
  apply List.filter_congr
  intro x _; exact hm x

theorem glue_rank (hs : SInc s) (he : Even s) (hm : ∀ x, mem s x = p x) {x : Nat} {r : Int} (h : IsRank p x r) :
    r = (rankLt s (x + 1) : Int) := by
  rw [rankLt_eq_cnt hs he hm]; exact h

theorem glue_cardInRange (hs : SInc s) (he : Even s) (hm : ∀ x, mem s x = p x) {lo hi : Nat} {r : Int}
    (h : IsCardInRange p lo hi r) : r = (cardInRange s lo hi : Int) := by
  unfold cardInRange
  rw [rankLt_eq_cnt hs he hm, rankLt_eq_cnt hs he hm]; exact h

theorem glue_select (hs : SInc s) (he : Even s) (hm : ∀ x, mem s x = p x) {i : Nat} {r : Int} (h : IsSelect p i r) :
    ∃ v : Nat, r = (v : Int) ∧ select s i = some v := by
  obtain ⟨v, hr, hv, hc⟩ := h
  refine ⟨v, hr, ?_⟩
  rw [select_spec s hs he]
  exact ⟨by rw [hm]; exact hv, by rw [rankLt_eq_cnt hs he hm]; exact hc⟩

theorem glue_min (hs : SInc s) (he : Even s) (hm : ∀ x, mem s x = p x) {r : Int} (h : IsMin p r) :
    ∃ v : Nat, r = (v : Int) ∧ minimum s = some v := by
  obtain ⟨v, hr, hv, hc⟩ := h
  refine ⟨v, hr, ?_⟩
  rw [minimum_some s hs he]
  exact ⟨by rw [hm]; exact hv, fun u hu => by rw [hm]; exact hc u hu⟩

theorem glue_max (hs : SInc s) (he : Even s) (hm : ∀ x, mem s x = p x) {r : Int} (h : IsMax p r) :
    ∃ v : Nat, r = (v : Int) ∧ maximum s = some v := by
  obtain ⟨v, hr, hv, hc⟩ := h
  refine ⟨v, hr, ?_⟩
  rw [maximum_some s hs he]
  exact ⟨by rw [hm]; exact hv, fun u hu => by rw [hm]; exact hc u hu⟩

theorem glue_next (hs : SInc s) (he : Even s) (hm : ∀ x, mem s x = p x) {x : Nat} {r : Int} (h : IsNext p x r) :
    r = (match nextValue s x with | some v => (v : Int) | none => -1) := by
  rcases h with ⟨v, hr, h1, h2, h3⟩ | ⟨hr, h1⟩
  · have : nextValue s x = some v := by
      rw [nextValue_some s hs he]
      exact ⟨h1, by rw [hm]; exact h2, fun u a b => by rw [hm]; exact h3 u a b⟩
    rw [this]; exact hr
  · have : nextValue s x = none := by
      rw [nextValue_none s hs he]
      exact fun u a => by rw [hm]; exact h1 u a
    rw [this]; exact hr

theorem glue_prev (hs : SInc s) (he : Even s) (hm : ∀ x, mem s x = p x) {x : Nat} {r : Int} (h : IsPrev p x r) :
    r = (match prevValue s x with | some v => (v : Int) | none => -1) := by
  rcases h with ⟨v, hr, h1, h2, h3⟩ | ⟨hr, h1⟩
  · have : prevValue s x = some v := by
      rw [prevValue_some s hs he]
      exact ⟨h1, by rw [hm]; exact h2, fun u a b => by rw [hm]; exact h3 u a b⟩
    rw [this]; exact hr
  · have : prevValue s x = none := by
      rw [prevValue_none s hs he]
      exact fun u a => by rw [hm]; exact h1 u a
    rw [this]; exact hr

theorem glue_prevAbsent (hs : SInc s) (he : Even s) (hm : ∀ x, mem s x = p x) {x : Nat} {r : Int}
    (h : IsPrevAbsent p x r) :
    r = (match prevAbsent s x with | some v => (v : Int) | none => -1) := by
  rcases h with ⟨v, hr, h1, h2, h3⟩ | ⟨hr, h1⟩
  · have : prevAbsent s x = some v := by
      rw [prevAbsent_some s hs he]
      exact ⟨h1, by rw [hm]; exact h2, fun u a b => by rw [hm]; exact h3 u a b⟩
    rw [this]; exact hr
  · have : prevAbsent s x = none := by
      rw [prevAbsent_none s hs he]
      exact fun u a => by rw [hm]; exact h1 u a
    rw [this]; exact hr

/-- the container-level convention: the answer is capped by the size `U` of the universe (`U` itself when every value
from `x` on is present) -/
theorem glue_nextAbsent {U : Nat} (hs : SInc s) (he : Even s) (hm : ∀ x, mem s x = p x) (hU : ∀ u, U ≤ u → p u = false)
    {x : Nat} (hx : x ≤ U) {r : Int} (h : IsNextAbsent p x r) :
    r = ((min (nextAbsent s x) U : Nat) : Int) := by
  obtain ⟨v, hr, h1, h2, h3⟩ := h
  obtain ⟨n1, n2, n3⟩ := nextAbsent_spec s hs he x
  have hvn : v = nextAbsent s x := by
    rcases Nat.lt_trichotomy v (nextAbsent s x) with hlt | heq | hgt
    · have := n3 v h1 hlt; rw [hm, h2] at this; simp at this
    · exact heq
    · have := h3 _ n1 hgt; rw [← hm, n2] at this; simp at this
  have hvU : v ≤ U := by
    apply Classical.byContradiction; intro hc
    have := h3 U hx (by omega)
    rw [hU U (Nat.le_refl _)] at this; simp at this
  rw [hr, ← hvn, Nat.min_eq_left hvU]

end glue

/-! ### the abstraction of a well-formed container is canonical in `[0, 65536)` -/

theorem canon_toBSet {c : Cont} (hc : c.wf = true) : Canon 65536 (c.toBSet 0) := by
  apply canon_of_bounded 65536 _ (sinc_toBSet c)
  intro x hx
  rw [mem_toBSet]
  cases h : c.has x
  · rfl
  · have := has_lt hc h; omega

theorem even_toBSet {c : Cont} (hc : c.wf = true) : Even (c.toBSet 0) := (canon_toBSet hc).2.2

end RModel.Impl
