import RProofs.BSet
import RModel.Driver.Util
/-!
The checker's set-building glue (`unionAll`, `ofVals`) is made of the verified `union`; these lemmas say so, which removes
it from the trusted base: the set the checker builds from a list of values / intervals has exactly those members.
-/
namespace RModel.Driver
open RModel RModel.BSet

theorem sinc_foldl_union (l : List BSet) (acc : BSet) (ha : SInc acc) (hl : ∀ s ∈ l, SInc s) :
    SInc (l.foldl BSet.union acc) := by
  induction l generalizing acc with
  | nil => simpa
  | cons a t ih =>
    simp only [List.foldl_cons]
    apply ih
    · exact (sinc_combine _ _ _ _ _ ha (hl a (by simp)) : SInc (BSet.union acc a))
    · intro s hs; exact hl s (by simp [hs])

theorem mem_foldl_union (l : List BSet) (acc : BSet) (ha : SInc acc) (hl : ∀ s ∈ l, SInc s) (x : Nat) :
    mem (l.foldl BSet.union acc) x = (mem acc x || l.any (fun s => mem s x)) := by
  induction l generalizing acc with
  | nil => simp
  | cons a t ih =>
    simp only [List.foldl_cons, List.any_cons]
    have hu : SInc (BSet.union acc a) := sinc_combine _ _ _ _ _ ha (hl a (by simp))
    rw [ih (BSet.union acc a) hu (fun s hs => hl s (by simp [hs])), mem_union _ _ ha (hl a (by simp))]
    simp [Bool.or_assoc]

theorem sinc_unionPairs (l : List BSet) (hl : ∀ s ∈ l, SInc s) : ∀ s ∈ unionPairs l, SInc s := by
  fun_induction unionPairs l with
  | case1 a b t ih =>
    intro s hs
    simp only [List.mem_cons] at hs
    rcases hs with rfl | hs
    · exact sinc_combine _ _ _ _ _ (hl a (by simp)) (hl b (by simp))
    · exact ih (fun s hs => hl s (by simp [hs])) s hs
  | case2 l h => exact hl

theorem any_unionPairs (l : List BSet) (hl : ∀ s ∈ l, SInc s) (x : Nat) :
    (unionPairs l).any (fun s => mem s x) = l.any (fun s => mem s x) := by
  fun_induction unionPairs l with
  | case1 a b t ih =>
    simp only [List.any_cons]
    rw [ih (fun s hs => hl s (by simp [hs])), mem_union _ _ (hl a (by simp)) (hl b (by simp))]
    simp [Bool.or_assoc]
  | case2 l h => rfl

theorem mem_unionAllFuel (n : Nat) (l : List BSet) (hl : ∀ s ∈ l, SInc s) (x : Nat) :
    mem (unionAllFuel n l) x = l.any (fun s => mem s x) ∧ SInc (unionAllFuel n l) := by
  induction n generalizing l with
  | zero =>
    simp only [unionAllFuel]
    refine ⟨?_, sinc_foldl_union l [] (by simp) hl⟩
    rw [mem_foldl_union l [] (by simp) hl]; simp
  | succ n ih =>
    match l with
    | [] => simp [unionAllFuel]
    | [a] => simp [unionAllFuel, hl a (by simp)]
    | a :: b :: t =>
      simp only [unionAllFuel]
      have := ih (unionPairs (a :: b :: t)) (sinc_unionPairs _ hl)
      rw [any_unionPairs _ hl] at this
      exact this

/-- the union of many sets has exactly the members of its parts -/
theorem mem_unionAll (l : List BSet) (hl : ∀ s ∈ l, SInc s) (x : Nat) :
    mem (unionAll l) x = l.any (fun s => mem s x) := (mem_unionAllFuel _ l hl x).1

theorem sinc_unionAll (l : List BSet) (hl : ∀ s ∈ l, SInc s) : SInc (unionAll l) := (mem_unionAllFuel _ l hl 0).2

/-- the set built from a list of values contains exactly those values -/
theorem mem_ofVals (l : List Nat) (x : Nat) : mem (ofVals l) x = l.contains x := by
  unfold ofVals
  rw [mem_unionAll _ (by intro s hs; simp at hs; obtain ⟨v, _, rfl⟩ := hs; simp [BSet.single])]
  induction l with
  | nil => simp
  | cons a t ih =>
    simp only [List.map_cons, List.any_cons, List.contains_cons]
    rw [ih, mem_single]
    simp [BEq.beq]

end RModel.Driver
