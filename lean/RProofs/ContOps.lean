import RProofs.ContOpsLemmas
/-!
The L2 container kernels of `RModel/Impl/ContOps.lean` (`Cont.and2 / or2 / xor2 / andNot2`, the representation-exact
model of the Go kernels, tied to the Go code by the `kern` correspondence check) compute the set operations and
return well-formed (or empty) containers, for well-formed operands.
-/
set_option linter.unusedSimpArgs false
namespace RModel.Impl
open RModel RModel.BSet RModel.Driver ContOps

/-! ### what well-formedness gives -/

theorem pairwise_of_strictInc : ∀ (l : List Nat), strictInc l = true → l.Pairwise (· < ·)
  | [], _ => by simp
  | [a], _ => by simp
  | a :: b :: t, h => by
    simp only [strictInc, Bool.and_eq_true, decide_eq_true_eq] at h
    have ih := pairwise_of_strictInc (b :: t) h.2
    refine List.pairwise_cons.mpr ⟨?_, ih⟩
    intro z hz
    rcases List.mem_cons.mp hz with rfl | hz'
    · exact h.1
    · have := (List.pairwise_cons.mp ih).1 z hz'; omega

theorem strictInc_of_pairwise : ∀ (l : List Nat), l.Pairwise (· < ·) → strictInc l = true
  | [], _ => rfl
  | [a], _ => rfl
  | a :: b :: t, h => by
    have hp := List.pairwise_cons.mp h
    simp only [strictInc, Bool.and_eq_true, decide_eq_true_eq]
    exact ⟨hp.1 b (by simp), strictInc_of_pairwise (b :: t) hp.2⟩

structure ArrWf (vs : List Nat) : Prop where
  pos : 0 < vs.length
  le : vs.length ≤ 4096
  sorted : vs.Pairwise (· < ·)
  bound : ∀ v ∈ vs, v < 65536

theorem wf_arr {vs : List Nat} (h : (Cont.arr vs).wf = true) : ArrWf vs := by
  simp only [Cont.wf, Bool.and_eq_true, decide_eq_true_eq, List.all_eq_true] at h
  exact ⟨h.1.1.1, h.1.1.2, pairwise_of_strictInc _ h.1.2, h.2⟩

theorem wf_bmp {c : Int} {ws : List (BitVec 64)} (h : (Cont.bmp c ws).wf = true) :
    ws.length = 1024 ∧ c = (wordsCard ws : Int) ∧ 4096 < wordsCard ws := by
  simp only [Cont.wf, Bool.and_eq_true, beq_iff_eq, decide_eq_true_eq] at h
  refine ⟨h.1.1, h.1.2, ?_⟩
  have h2 := h.2
  rw [h.1.2] at h2
  simp only [wordsCard]
  omega

theorem nodup_of_sorted {l : List Nat} (h : l.Pairwise (· < ·)) : l.Nodup :=
  h.imp (by intro a b hab; omega)

/-! ### membership of the re-typed word results -/

theorem has_ofWordsAB (ws : List (BitVec 64)) (x : Nat) : (ofWordsAB ws).has x = testBit ws x := by
  simp only [ofWordsAB]
  split
  · rfl
  · simp only [Cont.has, contains_valsOfWords]

theorem has_ofWordsArrArr (ws : List (BitVec 64)) (x : Nat) : (ofWordsArrArr ws).has x = testBit ws x := by
  simp only [ofWordsArrArr]
  split
  · simp only [Cont.has, contains_valsOfWords]
  · rfl

theorem popcount_le64 (w : BitVec 64) : popcount w ≤ 64 := by
  unfold popcount
  have := List.length_filter_le w.getLsbD (List.range 64)
  simpa using this

theorem getLsbD_of_popcount_full (w : BitVec 64) (h : popcount w = 64) (j : Nat) (hj : j < 64) : w.getLsbD j = true := by
  unfold popcount at h
  have h2 : ((List.range 64).filter w.getLsbD).length = (List.range 64).length := by simpa using h
  have := List.length_filter_eq_length_iff.mp h2
  exact this j (by simp [hj])

theorem popcount_full_of_sum (ws : List (BitVec 64)) (h : wordsCard ws = 64 * ws.length) : ∀ w ∈ ws, popcount w = 64 := by
  induction ws with
  | nil => simp
  | cons a t ih =>
    simp only [wordsCard, List.map_cons, List.sum_cons, List.length_cons] at h
    have h1 := popcount_le64 a
    have h2 : wordsCard t ≤ 64 * t.length := by
      clear ih h
      induction t with
      | nil => simp [wordsCard]
      | cons b u ihu => have := popcount_le64 b; simp only [wordsCard, List.map_cons, List.sum_cons, List.length_cons] at *; omega
    simp only [wordsCard] at h2
    intro w hw
    rcases List.mem_cons.mp hw with rfl | hw
    · omega
    · exact ih (by simp only [wordsCard]; omega) w hw

theorem testBit_of_full (ws : List (BitVec 64)) (hl : ws.length = 1024) (hc : wordsCard ws = 65536) (x : Nat) :
    testBit ws x = decide (x < 65536) := by
  by_cases hx : x < 65536
  · have hi : x / 64 < ws.length := by omega
    have := popcount_full_of_sum ws (by omega) ws[x / 64] (List.getElem_mem hi)
    have := getLsbD_of_popcount_full _ this (x % 64) (Nat.mod_lt _ (by omega))
    simp [testBit, List.getD_eq_getElem?_getD, List.getElem?_eq_getElem hi, this, hx]
  · rw [testBit_of_ge ws x (by omega)]; simp [hx]

theorem has_fullRun (x : Nat) : fullRun.has x = decide (x < 65536) := by
  simp [fullRun, Cont.has, inRuns]; omega

theorem has_ofWordsXor (ws : List (BitVec 64)) (hl : ws.length = 1024) (x : Nat) : (ofWordsXor ws).has x = testBit ws x := by
  simp only [ofWordsXor]
  split
  · split <;> rename_i hc
    · rw [has_fullRun, testBit_of_full ws hl (by simpa using hc)]
    · rfl
  · simp only [Cont.has, contains_valsOfWords]

theorem has_ofWordsOr (ws : List (BitVec 64)) (hl : ws.length = 1024) (x : Nat) : (ofWordsOr ws).has x = testBit ws x := by
  simp only [ofWordsOr]
  split <;> rename_i hc
  · rw [has_fullRun, testBit_of_full ws hl (by simpa using hc)]
  · rfl

/-! ### run lists: what `runsOk` gives -/

/-- sorted, non-overlapping, non-adjacent -/
abbrev RunSep (rs : List (Nat × Nat)) : Prop := rs.Pairwise (fun p q => p.1 + p.2 + 1 < q.1)

theorem runsOk_spec : ∀ (rs : List (Nat × Nat)), runsOk rs = true → RunSep rs ∧ ∀ p ∈ rs, p.1 + p.2 ≤ 65535
  | [], _ => by simp [RunSep]
  | [(s, l)], h => by
    simp only [runsOk, decide_eq_true_eq] at h
    simp [RunSep]; exact h
  | (s, l) :: (s', l') :: t, h => by
    simp only [runsOk, Bool.and_eq_true, decide_eq_true_eq] at h
    have ih := runsOk_spec ((s', l') :: t) h.2
    have hb' := ih.2 (s', l') (by simp)
    simp only at hb'
    refine ⟨List.pairwise_cons.mpr ⟨?_, ih.1⟩, ?_⟩
    · intro q hq
      rcases List.mem_cons.mp hq with rfl | hq'
      · exact h.1
      · have := (List.pairwise_cons.mp ih.1).1 q hq'
        simp only at this ⊢; omega
    · intro p hp
      rcases List.mem_cons.mp hp with rfl | hp'
      · simp only; omega
      · exact ih.2 p hp'

structure RunWf (rs : List (Nat × Nat)) : Prop where
  ne : rs ≠ []
  sep : RunSep rs
  bound : ∀ p ∈ rs, p.1 + p.2 ≤ 65535
  minimal : runMinimal rs.length (runsCard rs) = true

theorem wf_run {rs : List (Nat × Nat)} (h : (Cont.run rs).wf = true) : RunWf rs := by
  simp only [Cont.wf, Bool.and_eq_true, Bool.not_eq_true', List.isEmpty_eq_false_iff] at h
  have := runsOk_spec rs h.1.2
  exact ⟨h.1.1, this.1, this.2, h.2⟩

theorem lt_of_inRuns {rs : List (Nat × Nat)} (hb : ∀ p ∈ rs, p.1 + p.2 ≤ 65535) {x : Nat} (h : inRuns rs x = true) :
    x < 65536 := by
  simp only [inRuns, List.any_eq_true, Bool.and_eq_true, decide_eq_true_eq] at h
  obtain ⟨p, hp, h1, h2⟩ := h
  have := hb p hp
  omega

theorem isFullRun_eq {rs : List (Nat × Nat)} (h : isFullRun rs = true) : rs = [(0, 65535)] := by
  unfold isFullRun at h
  split at h
  · rename_i s l
    simp only [Bool.and_eq_true, beq_iff_eq] at h
    obtain ⟨rfl, h2⟩ := h
    simp at h2; simp [h2]
  · simp at h

theorem inRuns_full (x : Nat) : inRuns [(0, 65535)] x = decide (x < 65536) := by
  simp [inRuns]; omega

/-- the members of a well-formed container are below 65536 -/
theorem has_lt {c : Cont} (hc : c.wf = true) {x : Nat} (h : c.has x = true) : x < 65536 := by
  cases c with
  | arr vs =>
    have := (wf_arr hc).bound x (by simpa [Cont.has] using h)
    exact this
  | bmp cd ws =>
    have hl := (wf_bmp hc).1
    by_cases hx : x < 65536
    · exact hx
    · simp only [Cont.has] at h
      rw [testBit_of_ge ws x (by omega)] at h; simp at h
  | run rs => exact lt_of_inRuns (wf_run hc).bound h

theorem length_toBitmapWords {c : Cont} (hc : c.wf = true) : c.toBitmapWords.length = 1024 := by
  cases c with
  | arr vs => exact length_wordsOfArr vs
  | bmp cd ws => exact (wf_bmp hc).1
  | run rs => exact length_wordsOfRuns rs

/-- converting to bitmap words keeps the members -/
theorem testBit_toBitmapWords {c : Cont} (hc : c.wf = true) (x : Nat) : testBit c.toBitmapWords x = c.has x := by
  cases c with
  | arr vs => exact testBit_wordsOfArr vs x (wf_arr hc).bound
  | bmp cd ws => rfl
  | run rs =>
    simp only [Cont.toBitmapWords, Cont.has, testBit_wordsOfRuns]
    by_cases h : inRuns rs x = true
    · simp [h, lt_of_inRuns (wf_run hc).bound h]
    · simp [h]

theorem testBit_wordsOfRuns_wf {rs : List (Nat × Nat)} (hb : ∀ p ∈ rs, p.1 + p.2 ≤ 65535) (x : Nat) :
    testBit (wordsOfRuns rs) x = inRuns rs x := by
  rw [testBit_wordsOfRuns]
  by_cases h : inRuns rs x = true
  · simp [h, lt_of_inRuns hb h]
  · simp [h]

theorem contains_expandRuns (rs : List (Nat × Nat)) (x : Nat) : (expandRuns rs).contains x = inRuns rs x := by
  induction rs with
  | nil => simp [expandRuns, inRuns]
  | cons p t ih =>
    obtain ⟨s, l⟩ := p
    simp only [expandRuns, List.flatMap_cons, inRuns, List.any_cons] at ih ⊢
    rw [← ih]
    simp only [List.contains_eq_mem, List.mem_append, List.mem_range'_1, Bool.decide_or]
    congr 1
    by_cases h1 : s ≤ x <;> by_cases h2 : x ≤ s + l <;> simp [h1, h2] <;> omega

theorem has_runToEfficientCard (rs : List (Nat × Nat)) (hb : ∀ p ∈ rs, p.1 + p.2 ≤ 65535) (card x : Nat) :
    (runToEfficientCard rs card).has x = inRuns rs x := by
  simp only [runToEfficientCard]
  split
  · rfl
  · split
    · simp only [Cont.has, contains_expandRuns]
    · simp only [Cont.has, testBit_wordsOfRuns_wf hb]

theorem has_runToEfficient (rs : List (Nat × Nat)) (hb : ∀ p ∈ rs, p.1 + p.2 ≤ 65535) (x : Nat) :
    (runToEfficient rs).has x = inRuns rs x := has_runToEfficientCard rs hb _ x

/-! ### the run-list algorithms -/

/-- membership in a run list, as a proposition -/
theorem inRuns_iff (rs : List (Nat × Nat)) (x : Nat) : inRuns rs x = true ↔ ∃ p ∈ rs, p.1 ≤ x ∧ x ≤ p.1 + p.2 := by
  simp [inRuns]

theorem inRuns_cons (p : Nat × Nat) (t : List (Nat × Nat)) (x : Nat) :
    inRuns (p :: t) x = ((decide (p.1 ≤ x) && decide (x ≤ p.1 + p.2)) || inRuns t x) := by
  simp [inRuns]

theorem inRuns_append (a b : List (Nat × Nat)) (x : Nat) : inRuns (a ++ b) x = (inRuns a x || inRuns b x) := by
  simp [inRuns]

theorem inRuns_nil (x : Nat) : inRuns [] x = false := rfl

/-- every run of a separated list lies after the head -/
theorem inRuns_tail_gt {p : Nat × Nat} {t : List (Nat × Nat)} (h : RunSep (p :: t)) {x : Nat} (hx : inRuns t x = true) :
    p.1 + p.2 + 1 < x := by
  obtain ⟨q, hq, h1, _⟩ := (inRuns_iff t x).mp hx
  have := (List.pairwise_cons.mp h).1 q hq
  omega

theorem inRuns_out (sa sb ea eb x : Nat) :
    inRuns (if max sa sb ≤ min ea eb then [(max sa sb, min ea eb - max sa sb)] else []) x =
      (decide (sa ≤ x ∧ sb ≤ x) && decide (x ≤ ea ∧ x ≤ eb)) := by
  have h1 : max sa sb ≤ x ↔ sa ≤ x ∧ sb ≤ x := Nat.max_le
  have h2 : x ≤ min ea eb ↔ x ≤ ea ∧ x ≤ eb := Nat.le_min
  split <;> rename_i h
  · simp only [inRuns, List.any_cons, List.any_nil, Bool.or_false]
    rw [show max sa sb + (min ea eb - max sa sb) = min ea eb by omega]
    simp only [h1, h2]
  · simp only [inRuns_nil]
    by_cases h3 : sa ≤ x ∧ sb ≤ x <;> by_cases h4 : x ≤ ea ∧ x ≤ eb <;> simp [h3, h4]
    exact h (Nat.le_trans (h1.mpr h3) (h2.mpr h4))

theorem inRuns_runInter (a b : List (Nat × Nat)) (ha : RunSep a) (hb : RunSep b) (x : Nat) :
    inRuns (runInter a b) x = (inRuns a x && inRuns b x) := by
  fun_induction runInter a b with
  | case1 b => simp [inRuns_nil]
  | case2 a h => simp [inRuns_nil]
  | case3 sa la ta sb lb tb lo hi out hlt ih =>
    have ha' := (List.pairwise_cons.mp ha).2
    rw [inRuns_append, ih ha' hb]
    have hta : inRuns ta x = true → sa + la + 1 < x := fun h => inRuns_tail_gt ha h
    have htb : inRuns tb x = true → sb + lb + 1 < x := fun h => inRuns_tail_gt hb h
    simp only [inRuns_cons] at *
    rw [show inRuns out x = (decide (sa ≤ x ∧ sb ≤ x) && decide (x ≤ sa + la ∧ x ≤ sb + lb)) from
      inRuns_out sa sb (sa + la) (sb + lb) x]
    cases h1 : inRuns ta x <;> cases h2 : inRuns tb x <;> simp_all <;> grind
  | case4 sa la ta sb lb tb lo hi out hlt hlt2 ih =>
    have hb' := (List.pairwise_cons.mp hb).2
    rw [inRuns_append, ih ha hb']
    have hta : inRuns ta x = true → sa + la + 1 < x := fun h => inRuns_tail_gt ha h
    have htb : inRuns tb x = true → sb + lb + 1 < x := fun h => inRuns_tail_gt hb h
    simp only [inRuns_cons] at *
    rw [show inRuns out x = (decide (sa ≤ x ∧ sb ≤ x) && decide (x ≤ sa + la ∧ x ≤ sb + lb)) from
      inRuns_out sa sb (sa + la) (sb + lb) x]
    cases h1 : inRuns ta x <;> cases h2 : inRuns tb x <;> simp_all <;> grind
  | case5 sa la ta sb lb tb lo hi out hlt hlt2 ih =>
    have ha' := (List.pairwise_cons.mp ha).2
    have hb' := (List.pairwise_cons.mp hb).2
    rw [inRuns_append, ih ha' hb']
    have hta : inRuns ta x = true → sa + la + 1 < x := fun h => inRuns_tail_gt ha h
    have htb : inRuns tb x = true → sb + lb + 1 < x := fun h => inRuns_tail_gt hb h
    simp only [inRuns_cons] at *
    rw [show inRuns out x = (decide (sa ≤ x ∧ sb ≤ x) && decide (x ≤ sa + la ∧ x ≤ sb + lb)) from
      inRuns_out sa sb (sa + la) (sb + lb) x]
    cases h1 : inRuns ta x <;> cases h2 : inRuns tb x <;> simp_all <;> grind

theorem inRuns_pre (sa sb x : Nat) :
    inRuns (if sa < sb then [(sa, sb - 1 - sa)] else []) x = (decide (sa ≤ x) && decide (x < sb)) := by
  split <;> rename_i h
  · simp only [inRuns, List.any_cons, List.any_nil, Bool.or_false]
    by_cases h1 : sa ≤ x <;> by_cases h2 : x < sb <;> simp [h1, h2] <;> omega
  · simp only [inRuns_nil]
    by_cases h1 : sa ≤ x <;> by_cases h2 : x < sb <;> simp [h1, h2]; omega

theorem inRuns_runDiff (a b : List (Nat × Nat)) (ha : RunSep a) (hb : RunSep b) (x : Nat) :
    inRuns (runDiff a b) x = (inRuns a x && !inRuns b x) := by
  fun_induction runDiff a b with
  | case1 b => simp [inRuns_nil]
  | case2 a h => simp [inRuns_nil]
  | case3 sa la ta sb lb tb hlt ih =>
    have ha' := (List.pairwise_cons.mp ha).2
    have hta : inRuns ta x = true → sa + la + 1 < x := fun h => inRuns_tail_gt ha h
    have htb : inRuns tb x = true → sb + lb + 1 < x := fun h => inRuns_tail_gt hb h
    rw [inRuns_cons, ih ha' hb]
    simp only [inRuns_cons] at *
    cases h1 : inRuns ta x <;> cases h2 : inRuns tb x <;> simp_all <;> grind
  | case4 sa la ta sb lb tb hlt hlt2 ih =>
    have hb' := (List.pairwise_cons.mp hb).2
    have hta : inRuns ta x = true → sa + la + 1 < x := fun h => inRuns_tail_gt ha h
    have htb : inRuns tb x = true → sb + lb + 1 < x := fun h => inRuns_tail_gt hb h
    rw [ih ha hb']
    simp only [inRuns_cons] at *
    cases h1 : inRuns ta x <;> cases h2 : inRuns tb x <;> simp_all <;> grind
  | case5 sa la ta sb lb tb hlt hlt2 pre hlt3 ih =>
    have hb' := (List.pairwise_cons.mp hb).2
    have hp := List.pairwise_cons.mp ha
    have ha' : RunSep ((sb + lb + 1, sa + la - (sb + lb + 1)) :: ta) := by
      refine List.pairwise_cons.mpr ⟨?_, hp.2⟩
      intro q hq; have := hp.1 q hq; simp only at this ⊢; omega
    have hta : inRuns ta x = true → sa + la + 1 < x := fun h => inRuns_tail_gt ha h
    have htb : inRuns tb x = true → sb + lb + 1 < x := fun h => inRuns_tail_gt hb h
    rw [inRuns_append, ih ha' hb', show inRuns pre x = (decide (sa ≤ x) && decide (x < sb)) from inRuns_pre sa sb x]
    simp only [inRuns_cons] at *
    cases h1 : inRuns ta x <;> cases h2 : inRuns tb x <;> simp_all <;> grind
  | case6 sa la ta sb lb tb hlt hlt2 pre hlt3 ih =>
    have ha' := (List.pairwise_cons.mp ha).2
    have hta : inRuns ta x = true → sa + la + 1 < x := fun h => inRuns_tail_gt ha h
    have htb : inRuns tb x = true → sb + lb + 1 < x := fun h => inRuns_tail_gt hb h
    rw [inRuns_append, ih ha' hb, show inRuns pre x = (decide (sa ≤ x) && decide (x < sb)) from inRuns_pre sa sb x]
    simp only [inRuns_cons] at *
    cases h1 : inRuns ta x <;> cases h2 : inRuns tb x <;> simp_all <;> grind

/-- sorted by start (overlaps and adjacency allowed) -/
abbrev RunSorted (rs : List (Nat × Nat)) : Prop := rs.Pairwise (fun p q => p.1 ≤ q.1)

theorem mem_runMerge (a b : List (Nat × Nat)) (p : Nat × Nat) : p ∈ runMerge a b ↔ p ∈ a ∨ p ∈ b := by
  fun_induction runMerge a b <;> simp_all <;> grind

theorem inRuns_runMerge (a b : List (Nat × Nat)) (x : Nat) : inRuns (runMerge a b) x = (inRuns a x || inRuns b x) := by
  fun_induction runMerge a b with
  | case1 b => simp [inRuns_nil]
  | case2 a h => simp [inRuns_nil]
  | case3 sa la ta sb lb tb h ih => simp only [inRuns_cons, ih] at *; simp [Bool.or_assoc]
  | case4 sa la ta sb lb tb h ih =>
    simp only [inRuns_cons, ih] at *
    cases inRuns ta x <;> cases inRuns tb x <;> simp <;> grind

theorem sorted_runMerge (a b : List (Nat × Nat)) (ha : RunSorted a) (hb : RunSorted b) : RunSorted (runMerge a b) := by
  fun_induction runMerge a b with
  | case1 b => exact hb
  | case2 a h => exact ha
  | case3 sa la ta sb lb tb h ih =>
    have hp := List.pairwise_cons.mp ha
    have hq := List.pairwise_cons.mp hb
    refine List.pairwise_cons.mpr ⟨?_, ih hp.2 hb⟩
    intro q hq'
    rcases (mem_runMerge _ _ q).mp hq' with h1 | h1
    · exact hp.1 q h1
    · rcases List.mem_cons.mp h1 with rfl | h2
      · exact h
      · have := hq.1 q h2; simp only at this ⊢; omega
  | case4 sa la ta sb lb tb h ih =>
    have hp := List.pairwise_cons.mp ha
    have hq := List.pairwise_cons.mp hb
    refine List.pairwise_cons.mpr ⟨?_, ih ha hq.2⟩
    intro q hq'
    rcases (mem_runMerge _ _ q).mp hq' with h1 | h1
    · rcases List.mem_cons.mp h1 with rfl | h2
      · simp only; omega
      · have := hp.1 q h2; simp only at this ⊢; omega
    · exact hq.1 q h1

theorem inRuns_coalesce (cur : Nat × Nat) (t : List (Nat × Nat)) (h : RunSorted (cur :: t)) (x : Nat) :
    inRuns (coalesce cur t) x = inRuns (cur :: t) x := by
  induction t generalizing cur with
  | nil => simp [coalesce]
  | cons p t ih =>
    obtain ⟨s, l⟩ := cur
    obtain ⟨s', l'⟩ := p
    have hp := List.pairwise_cons.mp h
    have hp2 := List.pairwise_cons.mp hp.2
    have hss : s ≤ s' := hp.1 (s', l') (by simp)
    simp only [coalesce]
    split <;> rename_i hc
    · rw [ih]
      · simp only [inRuns_cons]
        cases inRuns t x <;> simp <;> grind
      · refine List.pairwise_cons.mpr ⟨?_, hp2.2⟩
        intro q hq; exact hp.1 q (by simp [hq])
    · rw [inRuns_cons, ih _ hp.2]
      simp only [inRuns_cons]

theorem inRuns_runUnion (a b : List (Nat × Nat)) (ha : RunSorted a) (hb : RunSorted b) (x : Nat) :
    inRuns (runUnion a b) x = (inRuns a x || inRuns b x) := by
  rw [← inRuns_runMerge]
  have hs := sorted_runMerge a b ha hb
  unfold runUnion
  split <;> rename_i hm
  · rw [hm]
  · rw [hm] at hs ⊢; exact inRuns_coalesce _ _ hs x

theorem sorted_of_sep {rs : List (Nat × Nat)} (h : RunSep rs) : RunSorted rs :=
  h.imp (by intro p q hpq; omega)

theorem sorted_singletons {ys : List Nat} (h : ys.Pairwise (· < ·)) : RunSorted (ys.map fun v => (v, 0)) := by
  exact List.pairwise_map.mpr (h.imp (by intro a b hab; simp only; omega))

theorem inRuns_singletons (ys : List Nat) (x : Nat) : inRuns (ys.map fun v => (v, 0)) x = ys.contains x := by
  induction ys with
  | nil => rfl
  | cons a t ih =>
    simp only [List.map_cons, inRuns_cons, ih, List.contains_cons, nat_beq_decide]
    congr 1
    by_cases h : x = a <;> simp [h]; omega

/-- all runs end at or below `M` -/
abbrev RunBound (M : Nat) (rs : List (Nat × Nat)) : Prop := ∀ p ∈ rs, p.1 + p.2 ≤ M

theorem bound_runInter (M : Nat) (a b : List (Nat × Nat)) (ha : RunBound M a) : RunBound M (runInter a b) := by
  fun_induction runInter a b with
  | case1 b => simp [RunBound]
  | case2 a h => simp [RunBound]
  | case3 sa la ta sb lb tb lo hi out hlt ih =>
    intro p hp
    rcases List.mem_append.mp hp with h | h
    · have := ha (sa, la) (by simp)
      simp only [out] at h
      split at h
      · simp at h; subst h; simp only [lo, hi] at *; omega
      · simp at h
    · exact ih (fun q hq => ha q (by simp [hq])) p h
  | case4 sa la ta sb lb tb lo hi out hlt hlt2 ih =>
    intro p hp
    rcases List.mem_append.mp hp with h | h
    · have := ha (sa, la) (by simp)
      simp only [out] at h
      split at h
      · simp at h; subst h; simp only [lo, hi] at *; omega
      · simp at h
    · exact ih ha p h
  | case5 sa la ta sb lb tb lo hi out hlt hlt2 ih =>
    intro p hp
    rcases List.mem_append.mp hp with h | h
    · have := ha (sa, la) (by simp)
      simp only [out] at h
      split at h
      · simp at h; subst h; simp only [lo, hi] at *; omega
      · simp at h
    · exact ih (fun q hq => ha q (by simp [hq])) p h

theorem bound_runDiff (M : Nat) (a b : List (Nat × Nat)) (ha : RunBound M a) : RunBound M (runDiff a b) := by
  fun_induction runDiff a b with
  | case1 b => simp [RunBound]
  | case2 a h => exact ha
  | case3 sa la ta sb lb tb hlt ih =>
    intro p hp
    rcases List.mem_cons.mp hp with rfl | h
    · exact ha _ (by simp)
    · exact ih (fun q hq => ha q (by simp [hq])) p h
  | case4 sa la ta sb lb tb hlt hlt2 ih => exact ih ha
  | case5 sa la ta sb lb tb hlt hlt2 pre hlt3 ih =>
    have h0 := ha (sa, la) (by simp)
    intro p hp
    rcases List.mem_append.mp hp with h | h
    · simp only [pre] at h
      split at h
      · simp at h; subst h; simp only at *; omega
      · simp at h
    · refine ih ?_ p h
      intro q hq
      rcases List.mem_cons.mp hq with rfl | hq'
      · simp only at *; omega
      · exact ha q (by simp [hq'])
  | case6 sa la ta sb lb tb hlt hlt2 pre hlt3 ih =>
    have h0 := ha (sa, la) (by simp)
    intro p hp
    rcases List.mem_append.mp hp with h | h
    · simp only [pre] at h
      split at h
      · simp at h; subst h; simp only at *; omega
      · simp at h
    · exact ih (fun q hq => ha q (by simp [hq])) p h

theorem bound_coalesce (M : Nat) (cur : Nat × Nat) (t : List (Nat × Nat)) (h : RunBound M (cur :: t)) :
    RunBound M (coalesce cur t) := by
  induction t generalizing cur with
  | nil => simpa [coalesce] using h
  | cons p t ih =>
    obtain ⟨s, l⟩ := cur
    obtain ⟨s', l'⟩ := p
    have h1 := h (s, l) (by simp)
    have h2 := h (s', l') (by simp)
    simp only [coalesce]
    split
    · apply ih
      intro q hq
      rcases List.mem_cons.mp hq with rfl | hq'
      · simp only at *; omega
      · exact h q (by simp [hq'])
    · intro q hq
      rcases List.mem_cons.mp hq with rfl | hq'
      · exact h1
      · exact ih _ (fun r hr => h r (by simp [hr])) q hq'

theorem bound_runUnion (M : Nat) (a b : List (Nat × Nat)) (ha : RunBound M a) (hb : RunBound M b) :
    RunBound M (runUnion a b) := by
  have hm : RunBound M (runMerge a b) := by
    intro p hp
    rcases (mem_runMerge a b p).mp hp with h | h
    · exact ha p h
    · exact hb p h
  unfold runUnion
  split <;> rename_i he
  · simp [RunBound]
  · rw [he] at hm; exact bound_coalesce M _ _ hm

/-! ### the four kernels compute the set operations (membership form, through `has_arr, has_bmp, has_run`) -/

theorem has_filter (xs : List Nat) (p : Nat → Bool) (x : Nat) :
    (xs.filter p).contains x = (xs.contains x && p x) := by
  simp only [List.contains_eq_mem, List.mem_filter, Bool.decide_and]
  simp

@[simp] theorem has_arr (v : List Nat) (x : Nat) : (Cont.arr v).has x = v.contains x := rfl
@[simp] theorem has_bmp (c : Int) (ws : List (BitVec 64)) (x : Nat) : (Cont.bmp c ws).has x = testBit ws x := rfl
@[simp] theorem has_run (rs : List (Nat × Nat)) (x : Nat) : (Cont.run rs).has x = inRuns rs x := rfl

theorem bool_and_bound {p : Bool} {x : Nat} (h : p = true → x < 65536) : (p && decide (x < 65536)) = p := by
  cases p <;> simp_all
theorem bool_bound_and {p : Bool} {x : Nat} (h : p = true → x < 65536) : (decide (x < 65536) && p) = p := by
  cases p <;> simp_all

theorem has_and2 (a b : Cont) (ha : a.wf = true) (hb : b.wf = true) (x : Nat) :
    (a.and2 b).has x = (a.has x && b.has x) := by
  cases a with
  | arr xs =>
    have hxs := wf_arr ha
    cases b with
    | arr ys =>
      have hys := wf_arr hb
      simp only [Cont.and2, has_arr, has_bmp, has_run, List.contains_eq_mem,
        ArrayC.mem_intersection2by2 _ _ hxs.sorted hys.sorted, Bool.decide_and]
    | bmp c ws => simp only [Cont.and2, has_arr, has_bmp, has_run, has_filter]
    | run rs =>
      have hrs := wf_run hb
      simp only [Cont.and2]
      split <;> rename_i hf
      · have := isFullRun_eq hf
        subst this
        simp only [has_arr, has_bmp, has_run, inRuns_full]
        exact (bool_and_bound (fun h => hxs.bound x (by simpa using h))).symm
      · split <;> rename_i he
        · exact absurd (List.isEmpty_iff.mp he) hrs.ne
        · simp only [has_arr, has_bmp, has_run, has_filter]
  | bmp c ws =>
    have hws := wf_bmp ha
    cases b with
    | arr ys => simp only [Cont.and2, has_arr, has_bmp, has_run, has_filter, Bool.and_comm]
    | bmp c2 ws2 =>
      have hws2 := wf_bmp hb
      simp only [Cont.and2, has_ofWordsAB, has_arr, has_bmp, has_run, testBit_andW _ _ (hws.1.trans hws2.1.symm)]
    | run rs =>
      have hrs := wf_run hb
      simp only [Cont.and2]
      split <;> rename_i hf
      · have := isFullRun_eq hf
        subst this
        simp only [has_arr, has_bmp, has_run, inRuns_full]
        exact (bool_and_bound (fun h => has_lt ha (x := x) h)).symm
      · simp only [has_ofWordsAB, has_arr, has_bmp, has_run, testBit_andW _ _ ((length_wordsOfRuns rs).trans hws.1.symm),
          testBit_wordsOfRuns_wf hrs.bound, Bool.and_comm]
  | run rs =>
    have hrs := wf_run ha
    simp only [Cont.and2]
    split <;> rename_i hf
    · have := isFullRun_eq hf
      subst this
      simp only [has_arr, has_bmp, has_run, inRuns_full]
      exact (bool_bound_and (fun h => has_lt hb (x := x) h)).symm
    · cases b with
      | arr ys =>
        simp only []
        split <;> rename_i he
        · exact absurd (List.isEmpty_iff.mp he) hrs.ne
        · simp only [has_arr, has_bmp, has_run, has_filter, Bool.and_comm]
      | bmp c2 ws2 =>
        have hws2 := wf_bmp hb
        simp only [has_ofWordsAB, has_arr, has_bmp, has_run, testBit_andW _ _ ((length_wordsOfRuns rs).trans hws2.1.symm),
          testBit_wordsOfRuns_wf hrs.bound]
      | run rs2 =>
        have hrs2 := wf_run hb
        simp only []
        have hbnd := bound_runInter 65535 rs rs2 hrs.bound
        rw [has_runToEfficient _ hbnd]
        simp only [has_arr, has_bmp, has_run, inRuns_runInter _ _ hrs.sep hrs2.sep]
theorem length_andW (a b : List (BitVec 64)) (ha : a.length = 1024) (hb : b.length = 1024) : (andW a b).length = 1024 :=
  length_zipWith_same _ _ _ ha hb
theorem length_orW (a b : List (BitVec 64)) (ha : a.length = 1024) (hb : b.length = 1024) : (orW a b).length = 1024 :=
  length_zipWith_same _ _ _ ha hb
theorem length_xorW (a b : List (BitVec 64)) (ha : a.length = 1024) (hb : b.length = 1024) : (xorW a b).length = 1024 :=
  length_zipWith_same _ _ _ ha hb
theorem length_andNotW (a b : List (BitVec 64)) (ha : a.length = 1024) (hb : b.length = 1024) : (andNotW a b).length = 1024 :=
  length_zipWith_same _ _ _ ha hb

theorem has_runOrArr (rs : List (Nat × Nat)) (ys : List Nat) (hrs : RunWf rs) (hys : ArrWf ys) (x : Nat) :
    (runOrArr rs ys).has x = (inRuns rs x || ys.contains x) := by
  simp only [runOrArr]
  split <;> rename_i h1
  · have := hys.pos; simp at h1; subst h1; simp at this
  · split <;> rename_i h2
    · exact absurd (List.isEmpty_iff.mp h2) hrs.ne
    · have hb2 : RunBound 65535 (ys.map fun v => (v, 0)) := by
        intro p hp
        simp only [List.mem_map] at hp
        obtain ⟨v, hv, rfl⟩ := hp
        have := hys.bound v hv
        simp only; omega
      rw [has_runToEfficient _ (bound_runUnion 65535 _ _ hrs.bound hb2),
        inRuns_runUnion _ _ (sorted_of_sep hrs.sep) (sorted_singletons hys.sorted), inRuns_singletons]

theorem has_bmpOrArr (c : Int) (ws : List (BitVec 64)) (ys : List Nat) (hl : ws.length = 1024) (hys : ArrWf ys) (x : Nat) :
    (bmpOrArr c ws ys).has x = (testBit ws x || ys.contains x) := by
  simp only [bmpOrArr, has_bmp]
  exact testBit_foldl_setBit ys ws x (by intro v hv; have := hys.bound v hv; omega)

theorem has_or2 (a b : Cont) (ha : a.wf = true) (hb : b.wf = true) (x : Nat) :
    (a.or2 b).has x = (a.has x || b.has x) := by
  cases a with
  | arr xs =>
    have hxs := wf_arr ha
    cases b with
    | arr ys =>
      have hys := wf_arr hb
      simp only [Cont.or2]
      split
      · rw [has_ofWordsArrArr, testBit_foldl_setBit _ _ _ (by
          intro v hv; have := hxs.bound v hv; rw [length_wordsOfArr]; omega), testBit_wordsOfArr _ _ hys.bound]
        simp only [has_arr, Bool.or_comm]
      · simp only [has_arr, List.contains_eq_mem, ArrayC.mem_union2by2, Bool.decide_or]
    | bmp c ws =>
      simp only [Cont.or2, has_bmpOrArr c ws xs (wf_bmp hb).1 hxs, has_arr, has_bmp, Bool.or_comm]
    | run rs =>
      have hrs := wf_run hb
      simp only [Cont.or2]
      split <;> rename_i hf
      · have := isFullRun_eq hf
        subst this
        simp only [has_arr, has_run, inRuns_full]
        by_cases h : x < 65536
        · simp [h]
        · have : xs.contains x = false := by
            cases hc : xs.contains x
            · rfl
            · exact absurd (hxs.bound x (by simpa using hc)) h
          simp only [this, h]; rfl
      · rw [has_runOrArr rs xs hrs hxs]; simp only [has_arr, has_run, Bool.or_comm]
  | bmp c ws =>
    have hws := wf_bmp ha
    cases b with
    | arr ys => simp only [Cont.or2, has_bmpOrArr c ws ys hws.1 (wf_arr hb), has_arr, has_bmp]
    | bmp c2 ws2 =>
      have hws2 := wf_bmp hb
      simp only [Cont.or2]
      rw [has_ofWordsOr _ (length_orW _ _ hws.1 hws2.1), testBit_orW _ _ (hws.1.trans hws2.1.symm)]
      simp only [has_bmp]
    | run rs =>
      have hrs := wf_run hb
      simp only [Cont.or2]
      split <;> rename_i hf
      · have := isFullRun_eq hf
        subst this
        simp only [has_bmp, has_run, inRuns_full]
        by_cases h : x < 65536
        · simp [h]
        · simp [h, testBit_of_ge ws x (by omega)]
      · rw [has_ofWordsOr _ (length_orW _ _ (length_wordsOfRuns rs) hws.1),
          testBit_orW _ _ ((length_wordsOfRuns rs).trans hws.1.symm), testBit_wordsOfRuns_wf hrs.bound]
        simp only [has_bmp, has_run, Bool.or_comm]
  | run rs =>
    have hrs := wf_run ha
    simp only [Cont.or2]
    split <;> rename_i hf
    · have := isFullRun_eq hf
      subst this
      simp only [has_run, inRuns_full]
      by_cases h : x < 65536
      · simp [h]
      · have : b.has x = false := by
          cases hc : b.has x
          · rfl
          · exact absurd (has_lt hb hc) h
        simp [h, this]
    · cases b with
      | arr ys => simp only [has_runOrArr rs ys hrs (wf_arr hb), has_arr, has_run]
      | bmp c2 ws2 =>
        have hws2 := wf_bmp hb
        simp only []
        rw [has_ofWordsOr _ (length_orW _ _ (length_wordsOfRuns rs) hws2.1),
          testBit_orW _ _ ((length_wordsOfRuns rs).trans hws2.1.symm), testBit_wordsOfRuns_wf hrs.bound]
        simp only [has_bmp, has_run]
      | run rs2 =>
        have hrs2 := wf_run hb
        simp only []
        rw [has_runToEfficient _ (bound_runUnion 65535 _ _ hrs.bound hrs2.bound),
          inRuns_runUnion _ _ (sorted_of_sep hrs.sep) (sorted_of_sep hrs2.sep)]
        simp only [has_run]

theorem has_bmpXorArr (c : Int) (ws : List (BitVec 64)) (ys : List Nat) (hl : ws.length = 1024) (hys : ArrWf ys) (x : Nat) :
    (bmpXorArr c ws ys).has x = (testBit ws x ^^ ys.contains x) := by
  have := testBit_foldl_flipBit ys ws x (by intro v hv; have := hys.bound v hv; omega) (nodup_of_sorted hys.sorted)
  simp only [bmpXorArr]
  split
  · simp only [has_arr, contains_valsOfWords, this]
  · simp only [has_bmp, this]

theorem has_xor2 (a b : Cont) (ha : a.wf = true) (hb : b.wf = true) (x : Nat) :
    (a.xor2 b).has x = (a.has x ^^ b.has x) := by
  have hla := length_toBitmapWords ha
  have hlb := length_toBitmapWords hb
  have hta := testBit_toBitmapWords ha x
  have htb := testBit_toBitmapWords hb x
  cases a with
  | arr xs =>
    have hxs := wf_arr ha
    cases b with
    | arr ys =>
      have hys := wf_arr hb
      simp only [Cont.xor2]
      split
      · rw [has_ofWordsArrArr, testBit_foldl_flipBit _ _ _ (by
            intro v hv; have := hxs.bound v hv; rw [length_foldl_flipBit, length_emptyWords]; omega)
            (nodup_of_sorted hxs.sorted),
          testBit_foldl_flipBit _ _ _ (by
            intro v hv; have := hys.bound v hv; rw [length_emptyWords]; omega) (nodup_of_sorted hys.sorted),
          testBit_emptyWords]
        simp only [has_arr, Bool.false_xor, Bool.xor_comm]
      · simp only [has_arr, List.contains_eq_mem, ArrayC.mem_exclusiveUnion2by2 _ _ hxs.sorted hys.sorted]
        by_cases h1 : x ∈ xs <;> by_cases h2 : x ∈ ys <;> simp [h1, h2]
    | bmp c ws =>
      simp only [Cont.xor2, has_bmpXorArr c ws xs (wf_bmp hb).1 hxs, has_arr, has_bmp, Bool.xor_comm]
    | run rs =>
      simp only [Cont.xor2, Cont.toBitmapWords] at *
      rw [has_ofWordsXor _ (length_xorW _ _ hlb hla), testBit_xorW _ _ (hlb.trans hla.symm), hta, htb, Bool.xor_comm]
  | bmp c ws =>
    cases b with
    | arr ys => simp only [Cont.xor2, has_bmpXorArr c ws ys (wf_bmp ha).1 (wf_arr hb), has_arr, has_bmp]
    | bmp c2 ws2 =>
      simp only [Cont.xor2, Cont.toBitmapWords] at *
      rw [has_ofWordsXor _ (length_xorW _ _ hla hlb), testBit_xorW _ _ (hla.trans hlb.symm), hta, htb]
    | run rs =>
      simp only [Cont.xor2, Cont.toBitmapWords] at *
      rw [has_ofWordsXor _ (length_xorW _ _ hlb hla), testBit_xorW _ _ (hlb.trans hla.symm), hta, htb, Bool.xor_comm]
  | run rs =>
    simp only [Cont.xor2]
    simp only [Cont.toBitmapWords] at hla hta
    rw [has_ofWordsXor _ (length_xorW _ _ hla hlb), testBit_xorW _ _ (hla.trans hlb.symm), hta, htb]

theorem has_bmpAndNotArr (c : Int) (ws : List (BitVec 64)) (ys : List Nat) (x : Nat) :
    (bmpAndNotArr c ws ys).has x = (testBit ws x && !ys.contains x) := by
  have := testBit_foldl_clearBit ys ws x
  simp only [bmpAndNotArr]
  split
  · simp only [has_arr, contains_valsOfWords, this]
  · simp only [has_bmp, this]

theorem has_andNot2 (a b : Cont) (ha : a.wf = true) (hb : b.wf = true) (x : Nat) :
    (a.andNot2 b).has x = (a.has x && !b.has x) := by
  have hla := length_toBitmapWords ha
  have hlb := length_toBitmapWords hb
  have hta := testBit_toBitmapWords ha x
  have htb := testBit_toBitmapWords hb x
  have hgen : (ofWordsAB (andNotW a.toBitmapWords b.toBitmapWords)).has x = (a.has x && !b.has x) := by
    rw [has_ofWordsAB, testBit_andNotW _ _ (hla.trans hlb.symm), hta, htb]
  cases a with
  | arr xs =>
    have hxs := wf_arr ha
    cases b with
    | arr ys =>
      have hys := wf_arr hb
      simp only [Cont.andNot2, has_arr, List.contains_eq_mem, ArrayC.mem_difference _ _ hxs.sorted hys.sorted]
      by_cases h1 : x ∈ xs <;> by_cases h2 : x ∈ ys <;> simp [h1, h2]
    | bmp c ws => simp only [Cont.andNot2, has_arr, has_bmp, has_filter]
    | run rs => simpa only [Cont.andNot2] using hgen
  | bmp c ws =>
    cases b with
    | arr ys => simp only [Cont.andNot2, has_bmpAndNotArr, has_arr, has_bmp]
    | bmp c2 ws2 => simpa only [Cont.andNot2] using hgen
    | run rs => simpa only [Cont.andNot2] using hgen
  | run rs =>
    have hrs := wf_run ha
    cases b with
    | arr ys => simpa only [Cont.andNot2] using hgen
    | bmp c2 ws2 => simpa only [Cont.andNot2] using hgen
    | run rs2 =>
      have hrs2 := wf_run hb
      simp only [Cont.andNot2]
      rw [has_runToEfficient _ (bound_runDiff 65535 _ _ hrs.bound), inRuns_runDiff _ _ hrs.sep hrs2.sep]
      simp only [has_run]


/-! ### the same, for the abstraction `Cont.toBSet` -/

theorem mem_and2 (a b : Cont) (ha : a.wf = true) (hb : b.wf = true) (x : Nat) :
    mem ((a.and2 b).toBSet 0) x = (mem (a.toBSet 0) x && mem (b.toBSet 0) x) := by
  simp only [mem_toBSet, has_and2 a b ha hb]

theorem mem_or2 (a b : Cont) (ha : a.wf = true) (hb : b.wf = true) (x : Nat) :
    mem ((a.or2 b).toBSet 0) x = (mem (a.toBSet 0) x || mem (b.toBSet 0) x) := by
  simp only [mem_toBSet, has_or2 a b ha hb]

theorem mem_xor2 (a b : Cont) (ha : a.wf = true) (hb : b.wf = true) (x : Nat) :
    mem ((a.xor2 b).toBSet 0) x = (mem (a.toBSet 0) x != mem (b.toBSet 0) x) := by
  rw [mem_toBSet, mem_toBSet, mem_toBSet, has_xor2 a b ha hb]

theorem mem_andNot2 (a b : Cont) (ha : a.wf = true) (hb : b.wf = true) (x : Nat) :
    mem ((a.andNot2 b).toBSet 0) x = (mem (a.toBSet 0) x && !mem (b.toBSet 0) x) := by
  simp only [mem_toBSet, has_andNot2 a b ha hb]

/-- `and` of two well-formed containers is the intersection -/
theorem toBSet_and2 (a b : Cont) (ha : a.wf = true) (hb : b.wf = true) :
    (a.and2 b).toBSet 0 = BSet.inter (a.toBSet 0) (b.toBSet 0) :=
  canon_ext_sinc _ _ (sinc_toBSet _) (sinc_combine _ _ _ _ _ (sinc_toBSet a) (sinc_toBSet b))
    (fun x => by rw [mem_and2 a b ha hb, mem_inter _ _ (sinc_toBSet a) (sinc_toBSet b)])

/-- `or` of two well-formed containers is the union -/
theorem toBSet_or2 (a b : Cont) (ha : a.wf = true) (hb : b.wf = true) :
    (a.or2 b).toBSet 0 = BSet.union (a.toBSet 0) (b.toBSet 0) :=
  canon_ext_sinc _ _ (sinc_toBSet _) (sinc_combine _ _ _ _ _ (sinc_toBSet a) (sinc_toBSet b))
    (fun x => by rw [mem_or2 a b ha hb, mem_union _ _ (sinc_toBSet a) (sinc_toBSet b)])

/-- `xor` of two well-formed containers is the symmetric difference -/
theorem toBSet_xor2 (a b : Cont) (ha : a.wf = true) (hb : b.wf = true) :
    (a.xor2 b).toBSet 0 = BSet.xor (a.toBSet 0) (b.toBSet 0) :=
  canon_ext_sinc _ _ (sinc_toBSet _) (sinc_combine _ _ _ _ _ (sinc_toBSet a) (sinc_toBSet b))
    (fun x => by rw [mem_xor2 a b ha hb, mem_xor _ _ (sinc_toBSet a) (sinc_toBSet b)])

/-- `andNot` of two well-formed containers is the difference -/
theorem toBSet_andNot2 (a b : Cont) (ha : a.wf = true) (hb : b.wf = true) :
    (a.andNot2 b).toBSet 0 = BSet.diff (a.toBSet 0) (b.toBSet 0) :=
  canon_ext_sinc _ _ (sinc_toBSet _) (sinc_combine _ _ _ _ _ (sinc_toBSet a) (sinc_toBSet b))
    (fun x => by rw [mem_andNot2 a b ha hb, mem_diff _ _ (sinc_toBSet a) (sinc_toBSet b)])

/-- `toEfficientContainer` of a run container (run → run / array / bitmap by serialized size) keeps the set -/
theorem toBSet_runToEfficient (rs : List (Nat × Nat)) (hb : RunBound 65535 rs) :
    (runToEfficient rs).toBSet 0 = (Cont.run rs).toBSet 0 :=
  canon_ext_sinc _ _ (sinc_toBSet _) (sinc_toBSet _)
    (fun x => by rw [mem_toBSet, mem_toBSet, has_runToEfficient rs hb, has_run])

/-! ### well-formedness of the results: counting tools -/

theorem length_eq_of_mem_iff {l1 l2 : List Nat} (h1 : l1.Nodup) (h2 : l2.Nodup) (h : ∀ a, a ∈ l1 ↔ a ∈ l2) :
    l1.length = l2.length :=
  ((List.perm_ext_iff_of_nodup h1 h2).mpr h).length_eq

theorem length_le_of_subset {l1 l2 : List Nat} (h1 : l1.Nodup) (h2 : l2.Nodup) (h : ∀ a ∈ l1, a ∈ l2) :
    l1.length ≤ l2.length := by
  have hs : (l2.filter (fun a => l1.contains a)).Sublist l2 := List.filter_sublist
  have he : l1.length = (l2.filter (fun a => l1.contains a)).length :=
    length_eq_of_mem_iff h1 (hs.nodup h2) (by
      intro a; simp only [List.mem_filter, List.contains_eq_mem, decide_eq_true_eq]
      exact ⟨fun ha => ⟨h a ha, ha⟩, fun ha => ha.2⟩)
  rw [he]; exact hs.length_le

theorem nodup_valsOfWords (ws : List (BitVec 64)) : (valsOfWords ws).Nodup := nodup_of_sorted (sorted_valsOfWords ws)

/-- the cached cardinality of a word list is the number of listed values -/
theorem wordsCard_eq (ws : List (BitVec 64)) : wordsCard ws = (valsOfWords ws).length := (length_valsOfWords ws).symm

/-- cardinality is determined by the bits -/
theorem wordsCard_eq_length {ws : List (BitVec 64)} {l : List Nat} (hl : l.Nodup) (h : ∀ x, x ∈ l ↔ testBit ws x = true) :
    wordsCard ws = l.length := by
  rw [wordsCard_eq]
  exact length_eq_of_mem_iff (nodup_valsOfWords ws) hl (fun a => by rw [mem_valsOfWords, h])

theorem wordsCard_mono {ws1 ws2 : List (BitVec 64)} (h : ∀ x, testBit ws1 x = true → testBit ws2 x = true) :
    wordsCard ws1 ≤ wordsCard ws2 := by
  rw [wordsCard_eq, wordsCard_eq]
  exact length_le_of_subset (nodup_valsOfWords _) (nodup_valsOfWords _)
    (fun a ha => (mem_valsOfWords _ _).mpr (h a ((mem_valsOfWords _ _).mp ha)))

/-! ### array-typed results -/

/-- what an array payload must satisfy for "empty or well-formed" -/
structure ArrOk (l : List Nat) : Prop where
  le : l.length ≤ 4096
  sorted : l.Pairwise (· < ·)
  bound : ∀ v ∈ l, v < 65536

theorem wfe_arr {l : List Nat} (h : ArrOk l) : (Cont.arr l).card = 0 ∨ (Cont.arr l).wf = true := by
  cases l with
  | nil => left; rfl
  | cons a t =>
    right
    simp only [Cont.wf, Bool.and_eq_true, decide_eq_true_eq, List.all_eq_true]
    exact ⟨⟨⟨by simp, h.le⟩, strictInc_of_pairwise _ h.sorted⟩, h.bound⟩

theorem ArrWf.ok {l : List Nat} (h : ArrWf l) : ArrOk l := ⟨h.le, h.sorted, h.bound⟩

theorem arrOk_of_sublist {l xs : List Nat} (hs : l.Sublist xs) (hx : ArrOk xs) : ArrOk l :=
  ⟨Nat.le_trans hs.length_le hx.le, hx.sorted.sublist hs, fun v hv => hx.bound v (hs.subset hv)⟩

theorem sublist_intersection2by2 (a b : List Nat) : (ArrayC.intersection2by2 a b).Sublist a := by
  fun_induction ArrayC.intersection2by2 a b with
  | case1 => simp
  | case2 => simp
  | case3 x xs y ys h ih => exact ih.cons _
  | case4 x xs ys h ih => exact ih.cons_cons _
  | case5 x xs y ys h1 h2 ih => exact ih

theorem sublist_difference (a b : List Nat) : (ArrayC.difference a b).Sublist a := by
  fun_induction ArrayC.difference a b with
  | case1 => simp
  | case2 => simp
  | case3 x xs y ys h ih => exact ih.cons_cons _
  | case4 x xs ys h ih => exact ih.cons _
  | case5 x xs y ys h1 h2 ih => exact ih

theorem length_union2by2_le (a b : List Nat) : (ArrayC.union2by2 a b).length ≤ a.length + b.length := by
  fun_induction ArrayC.union2by2 a b <;> simp_all <;> omega

theorem length_exclusiveUnion2by2_le (a b : List Nat) : (ArrayC.exclusiveUnion2by2 a b).length ≤ a.length + b.length := by
  fun_induction ArrayC.exclusiveUnion2by2 a b <;> simp_all <;> omega

theorem arrOk_valsOfWords {ws : List (BitVec 64)} (hl : ws.length = 1024) (hc : wordsCard ws ≤ 4096) :
    ArrOk (valsOfWords ws) :=
  ⟨by rw [length_valsOfWords]; exact hc, sorted_valsOfWords ws,
    fun v hv => by have := lt_of_mem_valsOfWords ws v hv; omega⟩

/-! ### bitmap-typed results -/

theorem wf_bmp_mk {ws : List (BitVec 64)} {c : Int} (hl : ws.length = 1024) (hc : c = (wordsCard ws : Int))
    (hgt : 4096 < wordsCard ws) : (Cont.bmp c ws).wf = true := by
  simp only [Cont.wf, Bool.and_eq_true, beq_iff_eq, decide_eq_true_eq]
  refine ⟨⟨hl, ?_⟩, ?_⟩
  · rw [hc]; rfl
  · rw [hc]; omega

theorem wfe_fullRun : fullRun.card = 0 ∨ fullRun.wf = true := by
  right; decide

theorem wfe_ofWordsAB {ws : List (BitVec 64)} (hl : ws.length = 1024) :
    (ofWordsAB ws).card = 0 ∨ (ofWordsAB ws).wf = true := by
  simp only [ofWordsAB]
  split <;> rename_i h
  · right; exact wf_bmp_mk hl rfl h
  · exact wfe_arr (arrOk_valsOfWords hl (by simp only [arrayMax] at h; omega))

theorem wfe_ofWordsArrArr {ws : List (BitVec 64)} (hl : ws.length = 1024) :
    (ofWordsArrArr ws).card = 0 ∨ (ofWordsArrArr ws).wf = true := by
  simp only [ofWordsArrArr]
  split <;> rename_i h
  · exact wfe_arr (arrOk_valsOfWords hl h)
  · right; exact wf_bmp_mk hl rfl (by simp only [arrayMax] at h; omega)

theorem wfe_ofWordsXor {ws : List (BitVec 64)} (hl : ws.length = 1024) :
    (ofWordsXor ws).card = 0 ∨ (ofWordsXor ws).wf = true := by
  simp only [ofWordsXor]
  split <;> rename_i h
  · split
    · exact wfe_fullRun
    · right; exact wf_bmp_mk hl rfl h
  · exact wfe_arr (arrOk_valsOfWords hl (by simp only [arrayMax] at h; omega))

theorem wfe_ofWordsOr {ws : List (BitVec 64)} (hl : ws.length = 1024) (hgt : 4096 < wordsCard ws) :
    (ofWordsOr ws).card = 0 ∨ (ofWordsOr ws).wf = true := by
  simp only [ofWordsOr]
  split
  · exact wfe_fullRun
  · right; exact wf_bmp_mk hl rfl hgt


/-! ### bitmap × array kernels: the incrementally maintained cardinality is the true one -/

theorem nodup_filter {ys : List Nat} (h : ys.Nodup) (p : Nat → Bool) : (ys.filter p).Nodup :=
  List.filter_sublist.nodup h

theorem card_bmpOrArr (ws : List (BitVec 64)) (ys : List Nat) (hl : ws.length = 1024) (hys : ArrWf ys) :
    wordsCard (ys.foldl setBit ws) = wordsCard ws + (ys.filter fun v => !testBit ws v).length := by
  have hb : ∀ v ∈ ys, v / 64 < ws.length := by intro v hv; have := hys.bound v hv; omega
  have hnd := nodup_of_sorted hys.sorted
  rw [wordsCard_eq ws, ← List.length_append]
  apply wordsCard_eq_length
  · refine List.nodup_append.mpr ⟨nodup_valsOfWords ws, nodup_filter hnd _, ?_⟩
    intro a ha b hb' hab
    subst hab
    have h1 := (mem_valsOfWords _ _).mp ha
    simp only [List.mem_filter] at hb'
    simp [h1] at hb'
  · intro x
    simp only [List.mem_append, mem_valsOfWords, List.mem_filter, testBit_foldl_setBit ys ws x hb,
      List.contains_eq_mem]
    cases h : testBit ws x <;> by_cases h2 : x ∈ ys <;> simp [h, h2]

theorem card_bmpXorArr (ws : List (BitVec 64)) (ys : List Nat) (hl : ws.length = 1024) (hys : ArrWf ys) :
    wordsCard (ys.foldl flipBit ws) + (ys.filter fun v => testBit ws v).length =
      wordsCard ws + (ys.filter fun v => !testBit ws v).length := by
  have hb : ∀ v ∈ ys, v / 64 < ws.length := by intro v hv; have := hys.bound v hv; omega
  have hnd := nodup_of_sorted hys.sorted
  have ht := fun x => testBit_foldl_flipBit ys ws x hb hnd
  rw [wordsCard_eq ws, wordsCard_eq (ys.foldl flipBit ws), ← List.length_append, ← List.length_append]
  apply length_eq_of_mem_iff
  · refine List.nodup_append.mpr ⟨nodup_valsOfWords _, nodup_filter hnd _, ?_⟩
    intro a ha b hb' hab
    subst hab
    have h1 := (mem_valsOfWords _ _).mp ha
    simp only [List.mem_filter] at hb'
    rw [ht] at h1
    simp [hb'.2, hb'.1] at h1
  · refine List.nodup_append.mpr ⟨nodup_valsOfWords ws, nodup_filter hnd _, ?_⟩
    intro a ha b hb' hab
    subst hab
    have h1 := (mem_valsOfWords _ _).mp ha
    simp only [List.mem_filter] at hb'
    simp [h1] at hb'
  · intro x
    simp only [List.mem_append, mem_valsOfWords, List.mem_filter, ht, List.contains_eq_mem]
    cases h : testBit ws x <;> by_cases h2 : x ∈ ys <;> simp [h, h2]

theorem card_bmpAndNotArr (ws : List (BitVec 64)) (ys : List Nat) (hnd : ys.Nodup) :
    wordsCard (ys.foldl clearBit ws) + (ys.filter fun v => testBit ws v).length = wordsCard ws := by
  have ht := fun x => testBit_foldl_clearBit ys ws x
  rw [wordsCard_eq ws, wordsCard_eq (ys.foldl clearBit ws), ← List.length_append]
  apply length_eq_of_mem_iff
  · refine List.nodup_append.mpr ⟨nodup_valsOfWords _, nodup_filter hnd _, ?_⟩
    intro a ha b hb' hab
    subst hab
    have h1 := (mem_valsOfWords _ _).mp ha
    simp only [List.mem_filter] at hb'
    rw [ht] at h1
    simp [hb'.2, hb'.1] at h1
  · exact nodup_valsOfWords ws
  · intro x
    simp only [List.mem_append, mem_valsOfWords, List.mem_filter, ht, List.contains_eq_mem]
    cases h : testBit ws x <;> by_cases h2 : x ∈ ys <;> simp [h, h2]

theorem wfe_bmpOrArr {c : Int} {ws : List (BitVec 64)} (hw : (Cont.bmp c ws).wf = true) {ys : List Nat} (hys : ArrWf ys) :
    (bmpOrArr c ws ys).card = 0 ∨ (bmpOrArr c ws ys).wf = true := by
  obtain ⟨hl, hc, hgt⟩ := wf_bmp hw
  have := card_bmpOrArr ws ys hl hys
  right
  simp only [bmpOrArr]
  refine wf_bmp_mk (by rw [length_foldl_setBit]; exact hl) ?_ (by omega)
  rw [this, hc]; omega

theorem wfe_bmpXorArr {c : Int} {ws : List (BitVec 64)} (hw : (Cont.bmp c ws).wf = true) {ys : List Nat} (hys : ArrWf ys) :
    (bmpXorArr c ws ys).card = 0 ∨ (bmpXorArr c ws ys).wf = true := by
  obtain ⟨hl, hc, hgt⟩ := wf_bmp hw
  have := card_bmpXorArr ws ys hl hys
  have hl' : (ys.foldl flipBit ws).length = 1024 := by rw [length_foldl_flipBit]; exact hl
  simp only [bmpXorArr]
  split <;> rename_i hle
  · exact wfe_arr (arrOk_valsOfWords hl' (by simp only [arrayMax] at hle; omega))
  · right
    refine wf_bmp_mk hl' (by omega) (by simp only [arrayMax] at hle; omega)

theorem wfe_bmpAndNotArr {c : Int} {ws : List (BitVec 64)} (hw : (Cont.bmp c ws).wf = true) {ys : List Nat} (hys : ArrWf ys) :
    (bmpAndNotArr c ws ys).card = 0 ∨ (bmpAndNotArr c ws ys).wf = true := by
  obtain ⟨hl, hc, hgt⟩ := wf_bmp hw
  have := card_bmpAndNotArr ws ys (nodup_of_sorted hys.sorted)
  have hl' : (ys.foldl clearBit ws).length = 1024 := by rw [length_foldl_clearBit]; exact hl
  simp only [bmpAndNotArr]
  split <;> rename_i hle
  · exact wfe_arr (arrOk_valsOfWords hl' (by simp only [arrayMax] at hle; omega))
  · right
    refine wf_bmp_mk hl' (by omega) (by simp only [arrayMax] at hle; omega)


/-! ### run-typed results -/

theorem runsOk_of : ∀ (rs : List (Nat × Nat)), RunSep rs → RunBound 65535 rs → runsOk rs = true
  | [], _, _ => rfl
  | [(s, l)], _, hb => by
    have := hb (s, l) (by simp)
    simp only [runsOk, decide_eq_true_eq]; exact this
  | (s, l) :: (s', l') :: t, hs, hb => by
    have hp := List.pairwise_cons.mp hs
    simp only [runsOk, Bool.and_eq_true, decide_eq_true_eq]
    exact ⟨hp.1 (s', l') (by simp), runsOk_of _ hp.2 (fun q hq => hb q (by simp [hq]))⟩

theorem mem_expandRuns (rs : List (Nat × Nat)) (x : Nat) : x ∈ expandRuns rs ↔ inRuns rs x = true := by
  rw [← contains_expandRuns]; simp

theorem length_expandRuns (rs : List (Nat × Nat)) : (expandRuns rs).length = runsCard rs := by
  induction rs with
  | nil => rfl
  | cons p t ih =>
    obtain ⟨s, l⟩ := p
    simp only [expandRuns, List.flatMap_cons, List.length_append, List.length_range', runsCard, List.map_cons,
      List.sum_cons] at ih ⊢
    omega

theorem sorted_expandRuns (rs : List (Nat × Nat)) (hs : RunSep rs) : (expandRuns rs).Pairwise (· < ·) := by
  induction rs with
  | nil => simp [expandRuns]
  | cons p t ih =>
    obtain ⟨s, l⟩ := p
    have hp := List.pairwise_cons.mp hs
    simp only [expandRuns, List.flatMap_cons]
    rw [List.pairwise_append]
    refine ⟨List.pairwise_lt_range', ih hp.2, ?_⟩
    intro a ha b hb
    have h1 := List.mem_range'_1.mp ha
    have h2 : inRuns t b = true := (mem_expandRuns t b).mp hb
    have := inRuns_tail_gt hs h2
    simp only at this; omega

theorem wordsCard_wordsOfRuns (rs : List (Nat × Nat)) (hs : RunSep rs) (hb : RunBound 65535 rs) :
    wordsCard (wordsOfRuns rs) = runsCard rs := by
  rw [← length_expandRuns]
  exact wordsCard_eq_length (nodup_of_sorted (sorted_expandRuns rs hs))
    (fun x => by rw [mem_expandRuns, testBit_wordsOfRuns_wf hb])

theorem runsCard_eq (rs : List (Nat × Nat)) : (rs.map fun (x : Nat × Nat) => x.2 + 1).sum = runsCard rs := rfl

theorem wfe_runToEfficient (rs : List (Nat × Nat)) (hs : RunSep rs) (hb : RunBound 65535 rs) :
    (runToEfficient rs).card = 0 ∨ (runToEfficient rs).wf = true := by
  simp only [runToEfficient, runToEfficientCard]
  split <;> rename_i hmin
  · right
    have hne : rs ≠ [] := by
      intro h; subst h; simp [runsCard] at hmin
    simp only [Cont.wf, Bool.and_eq_true, Bool.not_eq_true', List.isEmpty_eq_false_iff, runMinimal, decide_eq_true_eq]
    exact ⟨⟨hne, runsOk_of rs hs hb⟩, hmin⟩
  · split <;> rename_i hle
    · apply wfe_arr
      refine ⟨by rw [length_expandRuns]; exact hle, sorted_expandRuns rs hs, ?_⟩
      intro v hv
      exact lt_of_inRuns hb ((mem_expandRuns rs v).mp hv)
    · right
      have := wordsCard_wordsOfRuns rs hs hb
      exact wf_bmp_mk (length_wordsOfRuns rs) (by rw [this]) (by simp only [arrayMax] at hle; omega)

/-! #### the run-list algorithms return separated lists -/

/-- `q` lies inside some run of `a` -/
abbrev Within (a : List (Nat × Nat)) (q : Nat × Nat) : Prop := ∃ p ∈ a, p.1 ≤ q.1 ∧ q.1 + q.2 ≤ p.1 + p.2

theorem within_mono {a a' : List (Nat × Nat)} {q : Nat × Nat} (h : Within a q) (hs : ∀ p ∈ a, p ∈ a') : Within a' q := by
  obtain ⟨p, hp, h1⟩ := h; exact ⟨p, hs p hp, h1⟩

theorem within_runInter (a b : List (Nat × Nat)) : ∀ q ∈ runInter a b, Within a q ∧ Within b q := by
  fun_induction runInter a b with
  | case1 b => simp
  | case2 a h => simp
  | case3 sa la ta sb lb tb lo hi out hlt ih =>
    intro q hq
    rcases List.mem_append.mp hq with h | h
    · simp only [out] at h
      split at h
      · simp at h; subst h
        exact ⟨⟨(sa, la), by simp, by simp only [lo, hi] at *; omega⟩, ⟨(sb, lb), by simp, by simp only [lo, hi] at *; omega⟩⟩
      · simp at h
    · have := ih q h
      exact ⟨within_mono this.1 (by intro p hp; simp [hp]), this.2⟩
  | case4 sa la ta sb lb tb lo hi out hlt hlt2 ih =>
    intro q hq
    rcases List.mem_append.mp hq with h | h
    · simp only [out] at h
      split at h
      · simp at h; subst h
        exact ⟨⟨(sa, la), by simp, by simp only [lo, hi] at *; omega⟩, ⟨(sb, lb), by simp, by simp only [lo, hi] at *; omega⟩⟩
      · simp at h
    · have := ih q h
      exact ⟨this.1, within_mono this.2 (by intro p hp; simp [hp])⟩
  | case5 sa la ta sb lb tb lo hi out hlt hlt2 ih =>
    intro q hq
    rcases List.mem_append.mp hq with h | h
    · simp only [out] at h
      split at h
      · simp at h; subst h
        exact ⟨⟨(sa, la), by simp, by simp only [lo, hi] at *; omega⟩, ⟨(sb, lb), by simp, by simp only [lo, hi] at *; omega⟩⟩
      · simp at h
    · have := ih q h
      exact ⟨within_mono this.1 (by intro p hp; simp [hp]), within_mono this.2 (by intro p hp; simp [hp])⟩

/-- runs inside the tail of a separated list start well after the head's end -/
theorem within_tail_gt {p : Nat × Nat} {t : List (Nat × Nat)} (h : RunSep (p :: t)) {q : Nat × Nat} (hq : Within t q) :
    p.1 + p.2 + 1 < q.1 := by
  obtain ⟨r, hr, h1, _⟩ := hq
  have := (List.pairwise_cons.mp h).1 r hr
  omega

theorem sep_out_append {lo hi : Nat} {rest : List (Nat × Nat)} (hr : RunSep rest) (hgt : ∀ q ∈ rest, hi + 1 < q.1) :
    RunSep ((if lo ≤ hi then [(lo, hi - lo)] else []) ++ rest) := by
  split
  · refine List.pairwise_cons.mpr ⟨?_, hr⟩
    intro q hq; have := hgt q hq; simp only; omega
  · simpa using hr

theorem sep_runInter (a b : List (Nat × Nat)) (ha : RunSep a) (hb : RunSep b) : RunSep (runInter a b) := by
  fun_induction runInter a b with
  | case1 b => simp [RunSep]
  | case2 a h => simp [RunSep]
  | case3 sa la ta sb lb tb lo hi out hlt ih =>
    have ha' := (List.pairwise_cons.mp ha).2
    refine sep_out_append (ih ha' hb) ?_
    intro q hq
    have := within_tail_gt ha (within_runInter _ _ q hq).1
    simp only [hi] at *; omega
  | case4 sa la ta sb lb tb lo hi out hlt hlt2 ih =>
    have hb' := (List.pairwise_cons.mp hb).2
    refine sep_out_append (ih ha hb') ?_
    intro q hq
    have := within_tail_gt hb (within_runInter _ _ q hq).2
    simp only [hi] at *; omega
  | case5 sa la ta sb lb tb lo hi out hlt hlt2 ih =>
    have ha' := (List.pairwise_cons.mp ha).2
    have hb' := (List.pairwise_cons.mp hb).2
    refine sep_out_append (ih ha' hb') ?_
    intro q hq
    have := within_tail_gt ha (within_runInter _ _ q hq).1
    simp only [hi] at *; omega

theorem within_runDiff (a b : List (Nat × Nat)) : ∀ q ∈ runDiff a b, Within a q := by
  fun_induction runDiff a b with
  | case1 b => simp
  | case2 a h => intro q hq; exact ⟨q, hq, Nat.le_refl _, Nat.le_refl _⟩
  | case3 sa la ta sb lb tb hlt ih =>
    intro q hq
    rcases List.mem_cons.mp hq with rfl | h
    · exact ⟨(sa, la), by simp, Nat.le_refl _, Nat.le_refl _⟩
    · exact within_mono (ih q h) (by intro p hp; simp [hp])
  | case4 sa la ta sb lb tb hlt hlt2 ih => exact ih
  | case5 sa la ta sb lb tb hlt hlt2 pre hlt3 ih =>
    intro q hq
    rcases List.mem_append.mp hq with h | h
    · simp only [pre] at h
      split at h
      · simp at h; subst h; exact ⟨(sa, la), by simp, by simp only; omega⟩
      · simp at h
    · obtain ⟨p, hp, h1, h2⟩ := ih q h
      rcases List.mem_cons.mp hp with rfl | hp'
      · exact ⟨(sa, la), by simp, by simp only at *; omega⟩
      · exact ⟨p, by simp [hp'], h1, h2⟩
  | case6 sa la ta sb lb tb hlt hlt2 pre hlt3 ih =>
    intro q hq
    rcases List.mem_append.mp hq with h | h
    · simp only [pre] at h
      split at h
      · simp at h; subst h; exact ⟨(sa, la), by simp, by simp only; omega⟩
      · simp at h
    · exact within_mono (ih q h) (by intro p hp; simp [hp])

theorem sep_pre_append {sa sb : Nat} {rest : List (Nat × Nat)} (hr : RunSep rest) (hgt : ∀ q ∈ rest, sb < q.1) :
    RunSep ((if sa < sb then [(sa, sb - 1 - sa)] else []) ++ rest) := by
  split
  · refine List.pairwise_cons.mpr ⟨?_, hr⟩
    intro q hq; have := hgt q hq; simp only; omega
  · simpa using hr

theorem sep_runDiff (a b : List (Nat × Nat)) (ha : RunSep a) (hb : RunSep b) : RunSep (runDiff a b) := by
  fun_induction runDiff a b with
  | case1 b => simp [RunSep]
  | case2 a h => exact ha
  | case3 sa la ta sb lb tb hlt ih =>
    have ha' := (List.pairwise_cons.mp ha).2
    refine List.pairwise_cons.mpr ⟨?_, ih ha' hb⟩
    intro q hq
    exact within_tail_gt ha (within_runDiff _ _ q hq)
  | case4 sa la ta sb lb tb hlt hlt2 ih => exact ih ha (List.pairwise_cons.mp hb).2
  | case5 sa la ta sb lb tb hlt hlt2 pre hlt3 ih =>
    have hb' := (List.pairwise_cons.mp hb).2
    have hp := List.pairwise_cons.mp ha
    have ha' : RunSep ((sb + lb + 1, sa + la - (sb + lb + 1)) :: ta) := by
      refine List.pairwise_cons.mpr ⟨?_, hp.2⟩
      intro q hq; have := hp.1 q hq; simp only at this ⊢; omega
    refine sep_pre_append (ih ha' hb') ?_
    intro q hq
    obtain ⟨p, hp', h1, _⟩ := within_runDiff _ _ q hq
    rcases List.mem_cons.mp hp' with rfl | hp''
    · simp only at h1; omega
    · have := hp.1 p hp''; simp only at this; omega
  | case6 sa la ta sb lb tb hlt hlt2 pre hlt3 ih =>
    have ha' := (List.pairwise_cons.mp ha).2
    refine sep_pre_append (ih ha' hb) ?_
    intro q hq
    have := within_tail_gt ha (within_runDiff _ _ q hq)
    simp only at this; omega

theorem coalesce_lb (cur : Nat × Nat) (t : List (Nat × Nat)) (h : RunSorted (cur :: t)) :
    ∀ q ∈ coalesce cur t, cur.1 ≤ q.1 := by
  induction t generalizing cur with
  | nil => intro q hq; simp [coalesce] at hq; subst hq; exact Nat.le_refl _
  | cons p t ih =>
    obtain ⟨s, l⟩ := cur
    obtain ⟨s', l'⟩ := p
    have hp := List.pairwise_cons.mp h
    have hss : s ≤ s' := hp.1 (s', l') (by simp)
    simp only [coalesce]
    split
    · apply ih
      refine List.pairwise_cons.mpr ⟨?_, (List.pairwise_cons.mp hp.2).2⟩
      intro q hq; exact hp.1 q (by simp [hq])
    · intro q hq
      rcases List.mem_cons.mp hq with rfl | hq'
      · exact Nat.le_refl _
      · have := ih _ hp.2 q hq'; simp only at this ⊢; omega

theorem sep_coalesce (cur : Nat × Nat) (t : List (Nat × Nat)) (h : RunSorted (cur :: t)) : RunSep (coalesce cur t) := by
  induction t generalizing cur with
  | nil => simp [coalesce, RunSep]
  | cons p t ih =>
    obtain ⟨s, l⟩ := cur
    obtain ⟨s', l'⟩ := p
    have hp := List.pairwise_cons.mp h
    simp only [coalesce]
    split <;> rename_i hc
    · apply ih
      refine List.pairwise_cons.mpr ⟨?_, (List.pairwise_cons.mp hp.2).2⟩
      intro q hq; exact hp.1 q (by simp [hq])
    · refine List.pairwise_cons.mpr ⟨?_, ih _ hp.2⟩
      intro q hq
      have := coalesce_lb _ _ hp.2 q hq
      simp only at this ⊢; omega

theorem sep_runUnion (a b : List (Nat × Nat)) (ha : RunSorted a) (hb : RunSorted b) : RunSep (runUnion a b) := by
  have hs := sorted_runMerge a b ha hb
  unfold runUnion
  split <;> rename_i hm
  · simp [RunSep]
  · rw [hm] at hs; exact sep_coalesce _ _ hs

/-! ### the results are well-formed or empty (property C09 at kernel level) -/

theorem wfe_filter {xs : List Nat} (hxs : ArrWf xs) (p : Nat → Bool) :
    (Cont.arr (xs.filter p)).card = 0 ∨ (Cont.arr (xs.filter p)).wf = true :=
  wfe_arr (arrOk_of_sublist List.filter_sublist hxs.ok)

theorem wf_and2 (a b : Cont) (ha : a.wf = true) (hb : b.wf = true) :
    (a.and2 b).card = 0 ∨ (a.and2 b).wf = true := by
  have hla := length_toBitmapWords ha
  have hlb := length_toBitmapWords hb
  cases a with
  | arr xs =>
    have hxs := wf_arr ha
    cases b with
    | arr ys => exact wfe_arr (arrOk_of_sublist (sublist_intersection2by2 xs ys) hxs.ok)
    | bmp c ws => exact wfe_filter hxs _
    | run rs =>
      simp only [Cont.and2]
      split
      · exact Or.inr ha
      · split
        · exact Or.inl rfl
        · exact wfe_filter hxs _
  | bmp c ws =>
    cases b with
    | arr ys => exact wfe_filter (wf_arr hb) _
    | bmp c2 ws2 => exact wfe_ofWordsAB (length_andW _ _ hla hlb)
    | run rs =>
      simp only [Cont.and2]
      split
      · exact Or.inr ha
      · exact wfe_ofWordsAB (length_andW _ _ hlb hla)
  | run rs =>
    have hrs := wf_run ha
    simp only [Cont.and2]
    split
    · exact Or.inr hb
    · cases b with
      | arr ys =>
        simp only []
        split
        · exact Or.inl rfl
        · exact wfe_filter (wf_arr hb) _
      | bmp c2 ws2 => exact wfe_ofWordsAB (length_andW _ _ hla hlb)
      | run rs2 =>
        have hrs2 := wf_run hb
        exact wfe_runToEfficient _ (sep_runInter _ _ hrs.sep hrs2.sep) (bound_runInter 65535 _ _ hrs.bound)

theorem wfe_runOrArr {rs : List (Nat × Nat)} {ys : List Nat} (hr : (Cont.run rs).wf = true) (hy : (Cont.arr ys).wf = true) :
    (runOrArr rs ys).card = 0 ∨ (runOrArr rs ys).wf = true := by
  have hrs := wf_run hr
  have hys := wf_arr hy
  simp only [runOrArr]
  split
  · exact Or.inr hr
  · split
    · exact Or.inr hy
    · have hb2 : RunBound 65535 (ys.map fun v => (v, 0)) := by
        intro p hp
        simp only [List.mem_map] at hp
        obtain ⟨v, hv, rfl⟩ := hp
        have := hys.bound v hv
        simp only; omega
      exact wfe_runToEfficient _ (sep_runUnion _ _ (sorted_of_sep hrs.sep) (sorted_singletons hys.sorted))
        (bound_runUnion 65535 _ _ hrs.bound hb2)

theorem wf_or2 (a b : Cont) (ha : a.wf = true) (hb : b.wf = true) :
    (a.or2 b).card = 0 ∨ (a.or2 b).wf = true := by
  have hla := length_toBitmapWords ha
  have hlb := length_toBitmapWords hb
  cases a with
  | arr xs =>
    have hxs := wf_arr ha
    cases b with
    | arr ys =>
      have hys := wf_arr hb
      simp only [Cont.or2]
      split <;> rename_i hsum
      · exact wfe_ofWordsArrArr (by rw [length_foldl_setBit, length_wordsOfArr])
      · apply wfe_arr
        refine ⟨?_, ArrayC.sorted_union2by2 _ _ hxs.sorted hys.sorted, ?_⟩
        · have := length_union2by2_le xs ys; simp only [arrayMax] at hsum; omega
        · intro v hv
          rcases (ArrayC.mem_union2by2 xs ys v).mp hv with h | h
          · exact hxs.bound v h
          · exact hys.bound v h
    | bmp c ws => exact wfe_bmpOrArr hb hxs
    | run rs =>
      simp only [Cont.or2]
      split
      · exact Or.inr hb
      · exact wfe_runOrArr hb ha
  | bmp c ws =>
    have hws := wf_bmp ha
    cases b with
    | arr ys => exact wfe_bmpOrArr ha (wf_arr hb)
    | bmp c2 ws2 =>
      have hl : ws.length = ws2.length := hla.trans hlb.symm
      refine wfe_ofWordsOr (length_orW _ _ hla hlb) (Nat.lt_of_lt_of_le hws.2.2 (wordsCard_mono ?_))
      intro x hx; rw [testBit_orW _ _ hl, hx]; rfl
    | run rs =>
      simp only [Cont.or2]
      split
      · exact Or.inr hb
      · have hl : (wordsOfRuns rs).length = ws.length := hlb.trans hla.symm
        refine wfe_ofWordsOr (length_orW _ _ hlb hla) (Nat.lt_of_lt_of_le hws.2.2 (wordsCard_mono ?_))
        intro x hx; rw [testBit_orW _ _ hl, hx]; simp
  | run rs =>
    have hrs := wf_run ha
    simp only [Cont.or2]
    split
    · exact Or.inr ha
    · cases b with
      | arr ys => exact wfe_runOrArr ha hb
      | bmp c2 ws2 =>
        have hws2 := wf_bmp hb
        have hl : (wordsOfRuns rs).length = ws2.length := hla.trans hlb.symm
        refine wfe_ofWordsOr (length_orW _ _ hla hlb) (Nat.lt_of_lt_of_le hws2.2.2 (wordsCard_mono ?_))
        intro x hx; rw [testBit_orW _ _ hl, hx]; simp
      | run rs2 =>
        have hrs2 := wf_run hb
        exact wfe_runToEfficient _ (sep_runUnion _ _ (sorted_of_sep hrs.sep) (sorted_of_sep hrs2.sep))
          (bound_runUnion 65535 _ _ hrs.bound hrs2.bound)

theorem wf_xor2 (a b : Cont) (ha : a.wf = true) (hb : b.wf = true) :
    (a.xor2 b).card = 0 ∨ (a.xor2 b).wf = true := by
  have hla := length_toBitmapWords ha
  have hlb := length_toBitmapWords hb
  cases a with
  | arr xs =>
    have hxs := wf_arr ha
    cases b with
    | arr ys =>
      have hys := wf_arr hb
      simp only [Cont.xor2]
      split <;> rename_i hsum
      · exact wfe_ofWordsArrArr (by rw [length_foldl_flipBit, length_foldl_flipBit, length_emptyWords])
      · apply wfe_arr
        refine ⟨?_, ArrayC.sorted_exclusiveUnion2by2 _ _ hxs.sorted hys.sorted, ?_⟩
        · have := length_exclusiveUnion2by2_le xs ys; simp only [arrayMax] at hsum; omega
        · intro v hv
          rcases ArrayC.subset_exclusiveUnion2by2 xs ys v hv with h | h
          · exact hxs.bound v h
          · exact hys.bound v h
    | bmp c ws => exact wfe_bmpXorArr hb hxs
    | run rs =>
      simp only [Cont.xor2, Cont.toBitmapWords] at *
      exact wfe_ofWordsXor (length_xorW _ _ hlb hla)
  | bmp c ws =>
    cases b with
    | arr ys => exact wfe_bmpXorArr ha (wf_arr hb)
    | bmp c2 ws2 =>
      simp only [Cont.xor2, Cont.toBitmapWords] at *
      exact wfe_ofWordsXor (length_xorW _ _ hla hlb)
    | run rs =>
      simp only [Cont.xor2, Cont.toBitmapWords] at *
      exact wfe_ofWordsXor (length_xorW _ _ hlb hla)
  | run rs =>
    simp only [Cont.xor2]
    simp only [Cont.toBitmapWords] at hla
    exact wfe_ofWordsXor (length_xorW _ _ hla hlb)

theorem wf_andNot2 (a b : Cont) (ha : a.wf = true) (hb : b.wf = true) :
    (a.andNot2 b).card = 0 ∨ (a.andNot2 b).wf = true := by
  have hla := length_toBitmapWords ha
  have hlb := length_toBitmapWords hb
  have hgen : (ofWordsAB (andNotW a.toBitmapWords b.toBitmapWords)).card = 0 ∨
      (ofWordsAB (andNotW a.toBitmapWords b.toBitmapWords)).wf = true :=
    wfe_ofWordsAB (length_andNotW _ _ hla hlb)
  cases a with
  | arr xs =>
    have hxs := wf_arr ha
    cases b with
    | arr ys => exact wfe_arr (arrOk_of_sublist (sublist_difference xs ys) hxs.ok)
    | bmp c ws => exact wfe_filter hxs _
    | run rs => exact hgen
  | bmp c ws =>
    cases b with
    | arr ys => exact wfe_bmpAndNotArr ha (wf_arr hb)
    | bmp c2 ws2 => exact hgen
    | run rs => exact hgen
  | run rs =>
    have hrs := wf_run ha
    cases b with
    | arr ys => exact hgen
    | bmp c2 ws2 => exact hgen
    | run rs2 =>
      have hrs2 := wf_run hb
      exact wfe_runToEfficient _ (sep_runDiff _ _ hrs.sep hrs2.sep) (bound_runDiff 65535 _ _ hrs.bound)


end RModel.Impl
