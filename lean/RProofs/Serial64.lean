import RModel.Impl.Serial64
import RModel.Spec.FormatSpec64
import RProofs.Properties.C05
import RProofs.Properties.C06
import RProofs.Properties.C09
import RProofs.Rep64
/-!
The 64-bit portable serialization (`Impl/Serial64.lean`: `Rep64.encode`, `decode64`, `Rep64.validate`, tied to the Go
bytes and to the Go readers by the `l2ser64` / `l2dec64` correspondence lines) — theorems, each built on the 32-bit
theorem about a bucket's inner stream (`Properties/C05`, `C06`, `C09`):

* `Rep64.encode_length` — bytes written = `serializedSize` (`GetSerializedSizeInBytes`);
* `decode64_encode` — round trip with arbitrary trailing bytes and exact consumption;
* `decode64_ext`, `decode64_count_le`, `decode64_prefix_rejected` — every proper prefix of an encoding is rejected;
* `decode64_no_panic` — the reader is total;
* `decode64_bucket_bound` — an accepted stream holds at least 12 bytes per bucket read: the number of buckets the
  reader builds is bounded by the length of the data, whatever the untrusted count says;
* `decode64_count` — an accepted stream yields exactly as many buckets as its count field says;
* `encode64_conforms` — the bytes written for a well-formed bitmap are read by the independent reading of the 64-bit
  format specification as exactly its elements, consuming the whole stream;
* `wf64_implies_validate`, `decoded_valid_is_wf64` — library-shaped bitmaps validate; accepted + `Validate` ⇒ well formed;
* `roundtrip_wf64`, `readInto_encode`.
-/
namespace RModel.Impl
open RModel

/-! ### little-endian fields -/

namespace Serial64

theorem rd64_le64 (n : Nat) (h : n < 18446744073709551616) (t : Bytes) : rd64 (le64 n ++ t) = some (n, t) := by
  unfold rd64 le64
  rw [List.append_assoc, rd32_le32 _ (by omega)]
  simp only
  rw [rd32_le32 _ (by omega)]
  simp only [Option.some.injEq, Prod.mk.injEq, and_true]
  omega

theorem rd32_lt {bs : Bytes} {v : Nat} {r : Bytes} (h : rd32 bs = some (v, r)) : v < 4294967296 := by
  match bs, h with
  | a :: b :: c :: d :: u, h =>
    simp only [rd32, Option.some.injEq, Prod.mk.injEq] at h
    have := a.toNat_lt; have := b.toNat_lt; have := c.toNat_lt; have := d.toNat_lt
    omega

theorem rd32_length {bs : Bytes} {v : Nat} {r : Bytes} (h : rd32 bs = some (v, r)) : bs.length = r.length + 4 := by
  match bs, h with
  | a :: b :: c :: d :: u, h =>
    simp only [rd32, Option.some.injEq, Prod.mk.injEq] at h
    simp [← h.2]

theorem rd64_length {bs : Bytes} {v : Nat} {r : Bytes} (h : rd64 bs = some (v, r)) : bs.length = r.length + 8 := by
  unfold rd64 at h
  split at h
  · simp at h
  · rename_i lo bs1 h1
    split at h
    · simp at h
    · rename_i hi bs2 h2
      simp only [Option.some.injEq, Prod.mk.injEq] at h
      have := rd32_length h1; have := rd32_length h2
      rw [← h.2]; omega

theorem rd64_ext {bs : Bytes} {v : Nat} {r : Bytes} (h : rd64 bs = some (v, r)) (t : Bytes) :
    rd64 (bs ++ t) = some (v, r ++ t) := by
  unfold rd64 at h ⊢
  split at h
  · simp at h
  · rename_i lo bs1 h1
    split at h
    · simp at h
    · rename_i hi bs2 h2
      simp only [Option.some.injEq, Prod.mk.injEq] at h
      rw [rd32_ext h1 t]
      simp only
      rw [rd32_ext h2 t]
      simp only [Option.some.injEq, Prod.mk.injEq]
      exact ⟨h.1, by rw [h.2]⟩

/-! ### a successful 32-bit read consumes at least 8 bytes (cookie + size word, or cookie + run bitset + one descriptor) -/

theorem rd16_length {bs : Bytes} {v : Nat} {r : Bytes} (h : rd16 bs = some (v, r)) : bs.length = r.length + 2 := by
  match bs, h with
  | a :: b :: u, h =>
    simp only [rd16, Option.some.injEq, Prod.mk.injEq] at h
    simp [← h.2]

theorem takeN_length {n : Nat} {bs a r : Bytes} (h : takeN n bs = some (a, r)) : bs.length = r.length + n := by
  obtain ⟨_, hr, hle⟩ := FormatSpec.takeN_some h
  rw [hr, List.length_drop]; omega

theorem readOne_le {P : SerParams} {b : Bool} {m : Nat} {bs : Bytes} {c : Cont} {r : Bytes}
    (h : readOne P b m bs = some (c, r)) : r.length ≤ bs.length := by
  unfold readOne at h
  dsimp only at h
  split at h
  · split at h
    · simp at h
    · rename_i nr bs1 h1
      cases h2 : takeN (nr * 4) bs1 with
      | none => simp [h2] at h
      | some q =>
        obtain ⟨x, y⟩ := q
        simp only [h2, Option.map_some, Option.some.injEq, Prod.mk.injEq] at h
        have := rd16_length h1; have := takeN_length h2
        rw [← h.2]; omega
  · split at h
    · cases h2 : takeN (P.arrayMax * 2) bs with
      | none => simp [h2] at h
      | some q =>
        obtain ⟨x, y⟩ := q
        simp only [h2, Option.map_some, Option.some.injEq, Prod.mk.injEq] at h
        have := takeN_length h2
        rw [← h.2]; omega
    · cases h2 : takeN ((m + 1) * 2) bs with
      | none => simp [h2] at h
      | some q =>
        obtain ⟨x, y⟩ := q
        simp only [h2, Option.map_some, Option.some.injEq, Prod.mk.injEq] at h
        have := takeN_length h2
        rw [← h.2]; omega

theorem readContainers_le {P : SerParams} {flag : Bool} {isRun : Option Bytes} {i : Nat} {kc : List (Nat × Nat)}
    {bs : Bytes} {ss : List Slot} {rest : Bytes} (h : readContainers P flag isRun i kc bs = some (ss, rest)) :
    rest.length ≤ bs.length := by
  induction kc generalizing i bs ss with
  | nil => rw [readContainers_nil] at h; simp only [Option.some.injEq, Prod.mk.injEq] at h; rw [h.2]; omega
  | cons p t ih =>
    obtain ⟨key, cm1⟩ := p
    rw [readContainers_cons] at h
    cases h1 : readOne P (runBitAt isRun i) cm1 bs with
    | none => simp [h1] at h
    | some q =>
      obtain ⟨c, bs2⟩ := q
      rw [h1] at h
      simp only at h
      cases h2 : readContainers P flag isRun (i + 1) t bs2 with
      | none => simp [h2] at h
      | some q2 =>
        obtain ⟨ss', bs3⟩ := q2
        rw [h2] at h
        simp only [Option.some.injEq, Prod.mk.injEq] at h
        obtain ⟨_, rfl⟩ := h
        have := ih h2; have := readOne_le h1
        omega

theorem decodeTail_ge {P : SerParams} {flag : Bool} {len size : Nat} {isRun : Option Bytes} {bs2 : Bytes}
    {r : Rep} {c : Nat} (h : decodeTail P flag len size isRun bs2 = .ok (r, c)) :
    ∃ k, k + 4 * size ≤ bs2.length ∧ c = len - k := by
  unfold decodeTail at h
  split at h
  · simp at h
  · split at h
    · simp at h
    · rename_i kc bs3 h1
      split at h
      · simp at h
      · rename_i bs4 h2
        split at h
        · simp at h
        · rename_i slots rest h3
          simp only [Outcome.ok.injEq, Prod.mk.injEq] at h
          refine ⟨rest.length, ?_, h.2.symm⟩
          have := takeN_length h1; have := readContainers_le h3
          have : bs4.length ≤ bs3.length := by
            unfold decodeSkip at h2
            split at h2
            · cases h4 : takeN (4 * size) bs3 with
              | none => simp [h4] at h2
              | some q =>
                obtain ⟨x, y⟩ := q
                simp only [h4, Option.map_some, Option.some.injEq] at h2
                have := takeN_length h4
                rw [← h2]; omega
            · simp only [Option.some.injEq] at h2; rw [h2]; omega
          omega

theorem decode_count_ge {P : SerParams} {flag : Bool} {bs : Bytes} {r : Rep} {c : Nat}
    (h : decode P flag bs = .ok (r, c)) : 8 ≤ c := by
  rw [decode_eq] at h
  cases h1 : rd32 bs with
  | none => simp [h1] at h
  | some p =>
    obtain ⟨cookie, bs1⟩ := p
    rw [h1] at h
    simp only at h
    cases h2 : decodeHdr P cookie bs1 with
    | none => simp [h2] at h
    | some q =>
      obtain ⟨size, isRun, bs2⟩ := q
      rw [h2] at h
      simp only at h
      obtain ⟨k, hk, hc⟩ := decodeTail_ge h
      have hl := rd32_length h1
      unfold decodeHdr at h2
      split at h2
      · cases h3 : takeN ((cookie / 65536 + 1 + 7) / 8) bs1 with
        | none => simp [h3] at h2
        | some q =>
          obtain ⟨x, y⟩ := q
          simp only [h3, Option.map_some, Option.some.injEq, Prod.mk.injEq] at h2
          have := takeN_length h3
          obtain ⟨hs, _, hb⟩ := h2
          subst hs hb
          omega
      · split at h2
        · cases h3 : rd32 bs1 with
          | none => simp [h3] at h2
          | some q =>
            obtain ⟨x, y⟩ := q
            simp only [h3, Option.map_some, Option.some.injEq, Prod.mk.injEq] at h2
            have := rd32_length h3
            obtain ⟨_, _, hb⟩ := h2
            subst hb
            omega
        · simp at h2

/-! ### sizes -/

/-- the encoding of one bucket: key, then the inner 32-bit stream -/
def bucketBytes (b : Bucket) : Bytes := le32 b.high ++ b.bm.encode specParams

theorem encode_eq64 (r : Rep64) : r.encode specParams = le64 r.buckets.length ++ r.buckets.flatMap bucketBytes := rfl

theorem serializedSize_pos (r : Rep) : 8 ≤ r.serializedSize specParams := by
  unfold Rep.serializedSize Rep.headerSize
  cases hr : r.hasRun
  · simp; omega
  · have : 1 ≤ r.slots.length := by
      cases hs : r.slots with
      | nil => simp [Rep.hasRun, hs] at hr
      | cons a t => simp
    simp only [if_true]
    split <;> omega

theorem bucketBytes_length (b : Bucket) (h : b.bm.wf = true) :
    (bucketBytes b).length = 4 + b.bm.serializedSize specParams := by
  simp [bucketBytes, encode_length b.bm h]

theorem buckets_length (l : List Bucket) (h : ∀ b ∈ l, b.bm.wf = true) :
    (l.flatMap bucketBytes).length = (l.map fun b => 4 + b.bm.serializedSize specParams).sum := by
  induction l with
  | nil => rfl
  | cons b t ih =>
    simp only [List.flatMap_cons, List.length_append, List.map_cons, List.sum_cons]
    rw [bucketBytes_length b (h b (by simp)), ih (fun b hb => h b (List.mem_cons_of_mem _ hb))]

/-! ### consequences of well-formedness -/

theorem wf_buckets (r : Rep64) (h : r.wf = true) :
    r.buckets.length < 18446744073709551616 ∧
    (∀ b ∈ r.buckets, b.high < 4294967296 ∧ b.bm.wf = true ∧ b.bm.isEmptyGo = false) := by
  simp only [Rep64.wf, Bool.and_eq_true, List.all_eq_true, Bucket.wf, decide_eq_true_eq, Bool.not_eq_true'] at h
  refine ⟨?_, fun b hb => ⟨(h.2 b hb).1.1, (h.2 b hb).1.2, (h.2 b hb).2⟩⟩
  cases hl : r.buckets with
  | nil => simp
  | cons a t =>
    have := strictInc_length 4294967296 a.high (t.map (·.high)) (by simpa [hl] using h.1)
      (fun x hx => by
        rw [← List.map_cons (f := fun b : Bucket => b.high), ← hl] at hx
        obtain ⟨b, hb, rfl⟩ := List.mem_map.mp hx
        exact (h.2 b hb).1.1)
    simp at this ⊢; omega

end Serial64

open Serial64

/-- bytes written = `serializedSize` (what `GetSerializedSizeInBytes` reports) -/
theorem Rep64.encode_length (r : Rep64) (hwf : r.wf = true) :
    (r.encode specParams).length = r.serializedSize specParams := by
  rw [encode_eq64, List.length_append, le64_length, buckets_length _ (fun b hb => ((wf_buckets r hwf).2 b hb).2.1)]
  rfl

/-! ### round trip -/

/-- what the reader makes of one bucket -/
def Bucket.asDecoded (b : Bucket) (flag : Bool) : Bucket := { high := b.high, bm := b.bm.asDecoded flag, flag := false }

theorem Rep64.asDecoded_eq (r : Rep64) (flag : Bool) :
    r.asDecoded flag = { cow := false, buckets := r.buckets.map (Bucket.asDecoded · flag) } := rfl

namespace Serial64

theorem readBuckets_encode (flag : Bool) (l : List Bucket)
    (h : ∀ b ∈ l, b.high < 4294967296 ∧ b.bm.wf = true ∧ b.bm.isEmptyGo = false) (tail : Bytes) :
    readBuckets specParams flag l.length (l.flatMap bucketBytes ++ tail) = .ok (l.map (Bucket.asDecoded · flag), tail) := by
  induction l with
  | nil => rfl
  | cons b t ih =>
    obtain ⟨hk, hw, _⟩ := h b (by simp)
    have hlen := encode_length b.bm hw
    have hpos := serializedSize_pos b.bm
    simp only [List.length_cons, List.flatMap_cons, bucketBytes, List.append_assoc, readBuckets]
    rw [rd32_le32 _ hk]
    simp only
    rw [decode_encode b.bm hw flag]
    simp only
    rw [if_neg (by omega), List.drop_left, ih (fun b hb => h b (List.mem_cons_of_mem _ hb))]
    rfl

end Serial64

/-- `decode64 (encode r ++ tail)` gives back exactly `r` (as a reader builds it) and consumes exactly
`(encode r).length` bytes: round trip, exact consumption, and nothing after the stream is looked at. -/
theorem decode64_encode (r : Rep64) (hwf : r.wf = true) (flag : Bool) (tail : Bytes) :
    decode64 specParams flag (r.encode specParams ++ tail) = .ok (r.asDecoded flag, (r.encode specParams).length) := by
  obtain ⟨hn, hb⟩ := wf_buckets r hwf
  have hlen : (r.encode specParams ++ tail).length - tail.length = (r.encode specParams).length := by simp
  unfold decode64
  rw [← hlen]
  generalize (r.encode specParams ++ tail).length = len
  rw [encode_eq64, List.append_assoc, rd64_le64 _ hn]
  simp only
  rw [readBuckets_encode flag r.buckets hb tail]
  rfl

/-- decoding into an existing bitmap keeps its `copyOnWrite` switch -/
theorem readInto_encode (recv r : Rep64) (hwf : r.wf = true) (flag : Bool) (tail : Bytes) :
    recv.readInto specParams flag (r.encode specParams ++ tail) =
      .ok ({ cow := recv.cow, buckets := (r.asDecoded flag).buckets }, (r.encode specParams).length) := by
  simp [Rep64.readInto, decode64_encode r hwf flag tail]

/-- the round-tripped representation denotes the same set -/
theorem asDecoded_toBSet (r : Rep64) (flag : Bool) : (r.asDecoded flag).toBSet = r.toBSet := by
  simp [Rep64.toBSet, Rep64.asDecoded, Rep.toBSet, List.map_map, Function.comp_def]

/-- the round-tripped representation is again well formed -/
theorem roundtrip_wf64 (r : Rep64) (hwf : r.wf = true) (flag : Bool) : (r.asDecoded flag).wf = true := by
  have h32 : ∀ b : Bucket, (Bucket.asDecoded b flag).wf = b.wf := by
    intro b
    have : (b.bm.asDecoded flag).wf = b.bm.wf := by
      simp [Rep.wf, Rep.asDecoded, List.map_map, List.all_map, Function.comp_def]
    have e : (b.bm.asDecoded flag).isEmptyGo = b.bm.isEmptyGo := by simp [Rep.isEmptyGo, Rep.asDecoded]
    unfold Bucket.wf
    simp only [Bucket.asDecoded]
    rw [this, e]
    rfl
  simp only [Rep64.wf, Rep64.asDecoded_eq, List.map_map, List.all_map, Function.comp_def, h32] at hwf ⊢
  simpa [Bucket.asDecoded] using hwf

/-! ### totality, extension, prefixes -/

namespace Serial64

theorem readBuckets_no_panic (P : SerParams) (flag : Bool) (n : Nat) (bs : Bytes) : readBuckets P flag n bs ≠ .panic := by
  induction n generalizing bs with
  | zero => simp [readBuckets]
  | succ n ih =>
    unfold readBuckets
    split
    · simp
    · rename_i key bs1 _
      split
      · simp
      · rename_i hp; exact absurd hp (decode_no_panic _ _ _)
      · rename_i bm m _
        split
        · simp
        · have := ih (bs1.drop m)
          split <;> simp_all

theorem readBuckets_ext {P : SerParams} {flag : Bool} {n : Nat} {bs : Bytes} {l : List Bucket} {rest : Bytes}
    (h : readBuckets P flag n bs = .ok (l, rest)) (t : Bytes) : readBuckets P flag n (bs ++ t) = .ok (l, rest ++ t) := by
  induction n generalizing bs l rest with
  | zero => simp only [readBuckets, Outcome.ok.injEq, Prod.mk.injEq] at h ⊢; exact ⟨h.1, by rw [h.2]⟩
  | succ n ih =>
    unfold readBuckets at h ⊢
    cases h1 : rd32 bs with
    | none => simp [h1] at h
    | some p =>
      obtain ⟨key, bs1⟩ := p
      rw [h1] at h; rw [rd32_ext h1 t]
      simp only at h ⊢
      cases h2 : decode P flag bs1 with
      | err => simp [h2] at h
      | panic => simp [h2] at h
      | ok v =>
        obtain ⟨bm, m⟩ := v
        rw [h2] at h; rw [decode_ext h2 t]
        simp only at h ⊢
        by_cases hm : m = 0
        · simp [hm] at h
        · rw [if_neg hm] at h ⊢
          have hle := decode_count_le h2
          rw [List.drop_append_of_le_length hle]
          cases h3 : readBuckets P flag n (bs1.drop m) with
          | err => simp [h3] at h
          | panic => simp [h3] at h
          | ok q =>
            obtain ⟨l', rest'⟩ := q
            rw [h3] at h; rw [ih h3]
            simp only [Outcome.ok.injEq, Prod.mk.injEq] at h ⊢
            exact ⟨h.1, by rw [h.2]⟩

/-- the unread rest is a suffix, and every bucket read took at least 12 bytes -/
theorem readBuckets_length {P : SerParams} {flag : Bool} {n : Nat} {bs : Bytes} {l : List Bucket} {rest : Bytes}
    (h : readBuckets P flag n bs = .ok (l, rest)) : l.length = n ∧ rest.length + 12 * n ≤ bs.length := by
  induction n generalizing bs l rest with
  | zero => simp only [readBuckets, Outcome.ok.injEq, Prod.mk.injEq] at h; simp [← h.1, ← h.2]
  | succ n ih =>
    unfold readBuckets at h
    cases h1 : rd32 bs with
    | none => simp [h1] at h
    | some p =>
      obtain ⟨key, bs1⟩ := p
      rw [h1] at h
      simp only at h
      cases h2 : decode P flag bs1 with
      | err => simp [h2] at h
      | panic => simp [h2] at h
      | ok v =>
        obtain ⟨bm, m⟩ := v
        rw [h2] at h
        simp only at h
        by_cases hm : m = 0
        · simp [hm] at h
        · rw [if_neg hm] at h
          cases h3 : readBuckets P flag n (bs1.drop m) with
          | err => simp [h3] at h
          | panic => simp [h3] at h
          | ok q =>
            obtain ⟨l', rest'⟩ := q
            rw [h3] at h
            simp only [Outcome.ok.injEq, Prod.mk.injEq] at h
            obtain ⟨ih1, ih2⟩ := ih h3
            have hle := decode_count_le h2
            have h8 := decode_count_ge h2
            have := rd32_length h1
            rw [List.length_drop] at ih2
            rw [← h.1, ← h.2]
            simp only [List.length_cons]
            omega

end Serial64

/-- the reader is total: it never reaches an unchecked index (the `panic` outcome) on any input, whatever the count says -/
theorem decode64_no_panic (P : SerParams) (flag : Bool) (bs : Bytes) : decode64 P flag bs ≠ .panic := by
  unfold decode64
  split
  · simp
  · rename_i count bs1 _
    have := readBuckets_no_panic P flag count bs1
    split <;> simp_all

/-- a successful read stays the same read when bytes are appended -/
theorem decode64_ext {P : SerParams} {flag : Bool} {bs : Bytes} {v : Rep64 × Nat}
    (h : decode64 P flag bs = .ok v) (t : Bytes) : decode64 P flag (bs ++ t) = .ok v := by
  unfold decode64 at h ⊢
  cases h1 : rd64 bs with
  | none => simp [h1] at h
  | some p =>
    obtain ⟨count, bs1⟩ := p
    rw [h1] at h; rw [rd64_ext h1 t]
    simp only at h ⊢
    cases h2 : readBuckets P flag count bs1 with
    | err => simp [h2] at h
    | panic => simp [h2] at h
    | ok q =>
      obtain ⟨l, rest⟩ := q
      rw [h2] at h; rw [readBuckets_ext h2 t]
      simp only [Outcome.ok.injEq] at h ⊢
      rw [← h]
      simp
      omega

/-- the byte count reported never exceeds the input -/
theorem decode64_count_le {P : SerParams} {flag : Bool} {bs : Bytes} {r : Rep64} {c : Nat}
    (h : decode64 P flag bs = .ok (r, c)) : c ≤ bs.length := by
  unfold decode64 at h
  repeat' split at h
  all_goals simp at h
  omega

/-- **the untrusted count is bounded by the data**: an accepted stream of `c` bytes holds the 8-byte count and at least
12 bytes (key, 32-bit cookie and size words) for every bucket the reader builds — the number of `append`s never exceeds
`(len - 8) / 12`, and the buckets built are exactly as many as the count field says -/
theorem decode64_bucket_bound {P : SerParams} {flag : Bool} {bs : Bytes} {r : Rep64} {c : Nat}
    (h : decode64 P flag bs = .ok (r, c)) : 8 + 12 * r.buckets.length ≤ c ∧ c ≤ bs.length := by
  refine ⟨?_, decode64_count_le h⟩
  unfold decode64 at h
  cases h1 : rd64 bs with
  | none => simp [h1] at h
  | some p =>
    obtain ⟨count, bs1⟩ := p
    rw [h1] at h
    simp only at h
    cases h2 : readBuckets P flag count bs1 with
    | err => simp [h2] at h
    | panic => simp [h2] at h
    | ok q =>
      obtain ⟨l, rest⟩ := q
      rw [h2] at h
      simp only [Outcome.ok.injEq, Prod.mk.injEq] at h
      obtain ⟨hl, hr⟩ := readBuckets_length h2
      have := rd64_length h1
      rw [← h.1, ← h.2]
      simp only
      omega

/-- an accepted stream yields exactly as many buckets as its count field says -/
theorem decode64_count {P : SerParams} {flag : Bool} {bs : Bytes} {r : Rep64} {c : Nat}
    (h : decode64 P flag bs = .ok (r, c)) : ∃ count rest, rd64 bs = some (count, rest) ∧ r.buckets.length = count := by
  unfold decode64 at h
  cases h1 : rd64 bs with
  | none => simp [h1] at h
  | some p =>
    obtain ⟨count, bs1⟩ := p
    rw [h1] at h
    simp only at h
    cases h2 : readBuckets P flag count bs1 with
    | err => simp [h2] at h
    | panic => simp [h2] at h
    | ok q =>
      obtain ⟨l, rest⟩ := q
      rw [h2] at h
      simp only [Outcome.ok.injEq, Prod.mk.injEq] at h
      exact ⟨count, bs1, rfl, by rw [← h.1]; exact (readBuckets_length h2).1⟩

/-- every proper prefix of a valid stream is rejected with an error (never accepted, never a panic) -/
theorem decode64_prefix_rejected (r : Rep64) (hwf : r.wf = true) (flag : Bool) (k : Nat)
    (hk : k < (r.encode specParams).length) : decode64 specParams flag ((r.encode specParams).take k) = .err := by
  cases h : decode64 specParams flag ((r.encode specParams).take k) with
  | err => rfl
  | panic => exact absurd h (decode64_no_panic _ _ _)
  | ok v =>
    exfalso
    obtain ⟨r', c⟩ := v
    have hle := decode64_count_le h
    have hext := decode64_ext h ((r.encode specParams).drop k)
    rw [List.take_append_drop] at hext
    have hfull := decode64_encode r hwf flag []
    rw [List.append_nil, hext] at hfull
    simp only [Outcome.ok.injEq, Prod.mk.injEq] at hfull
    rw [List.length_take] at hle
    omega

/-! ### `Validate` -/

/-- every well-formed representation passes (the model of) `roaring64.Validate` -/
theorem wf64_implies_validate (r : Rep64) (h : r.wf = true) : r.validate = true := by
  simp only [Rep64.wf, Bool.and_eq_true, List.all_eq_true, Bucket.wf, decide_eq_true_eq] at h
  simp only [Rep64.validate, Bool.and_eq_true, List.all_eq_true]
  exact ⟨h.1, fun b hb => ⟨wf_implies_validate b.bm (h.2 b hb).1.2, (h.2 b hb).2⟩⟩

namespace Serial64

theorem readBuckets_shape (P : SerParams) (hP : P.arrayMax = 4096) (flag : Bool) (n : Nat) (bs : Bytes) (l : List Bucket)
    (rest : Bytes) (h : readBuckets P flag n bs = .ok (l, rest)) :
    ∀ b ∈ l, b.high < 4294967296 ∧ (b.bm.validate = true → b.bm.wf = true) := by
  induction n generalizing bs l rest with
  | zero =>
    simp only [readBuckets, Outcome.ok.injEq, Prod.mk.injEq] at h
    intro b hb; rw [← h.1] at hb; cases hb
  | succ n ih =>
    unfold readBuckets at h
    cases h1 : rd32 bs with
    | none => simp [h1] at h
    | some p =>
      obtain ⟨key, bs1⟩ := p
      rw [h1] at h
      simp only at h
      cases h2 : decode P flag bs1 with
      | err => simp [h2] at h
      | panic => simp [h2] at h
      | ok v =>
        obtain ⟨bm, m⟩ := v
        rw [h2] at h
        simp only at h
        by_cases hm : m = 0
        · simp [hm] at h
        · rw [if_neg hm] at h
          cases h3 : readBuckets P flag n (bs1.drop m) with
          | err => simp [h3] at h
          | panic => simp [h3] at h
          | ok q =>
            obtain ⟨l', rest'⟩ := q
            rw [h3] at h
            simp only [Outcome.ok.injEq, Prod.mk.injEq] at h
            intro b hb
            rw [← h.1] at hb
            rcases List.mem_cons.mp hb with rfl | hb
            · exact ⟨rd32_lt h1, fun hv => decoded_valid_is_wf P hP flag bs1 bm m h2 hv⟩
            · exact ih _ _ _ h3 b hb

end Serial64

/-- decoding succeeded and `Validate()==nil` ⇒ well formed: keys strictly increasing and below `2^32`, no empty bucket,
every bucket a well-formed 32-bit bitmap -/
theorem decoded_valid_is_wf64 (P : SerParams) (hP : P.arrayMax = 4096) (flag : Bool) (bs : Bytes) (r : Rep64) (n : Nat)
    (h : decode64 P flag bs = .ok (r, n)) (hv : r.validate = true) : r.wf = true := by
  unfold decode64 at h
  cases h1 : rd64 bs with
  | none => simp [h1] at h
  | some p =>
    obtain ⟨count, bs1⟩ := p
    rw [h1] at h
    simp only at h
    cases h2 : readBuckets P flag count bs1 with
    | err => simp [h2] at h
    | panic => simp [h2] at h
    | ok q =>
      obtain ⟨l, rest⟩ := q
      rw [h2] at h
      simp only [Outcome.ok.injEq, Prod.mk.injEq] at h
      have hs := readBuckets_shape P hP flag count bs1 l rest h2
      simp only [Rep64.validate, Bool.and_eq_true, List.all_eq_true] at hv
      simp only [Rep64.wf, Bool.and_eq_true, List.all_eq_true, Bucket.wf, decide_eq_true_eq]
      rw [← h.1] at hv ⊢
      exact ⟨hv.1, fun b hb => ⟨⟨(hs b hb).1, (hs b hb).2 (hv.2 b hb).1⟩, (hv.2 b hb).2⟩⟩

end RModel.Impl

/-! ### the independent reading of the format specification -/

namespace RModel.FormatSpec
open RModel.Impl RModel.Impl.Serial64

/-! #### the spec reading is stable under extension of the stream (every accessor is) -/

theorem u8_ext {b : Bytes} {i v : Nat} (h : u8 b i = some v) (t : Bytes) : u8 (b ++ t) i = some v := by
  unfold u8 at h ⊢
  have hi : i < b.size := by
    cases hb : b[i]? with
    | none => simp [hb] at h
    | some x => exact (Array.getElem?_eq_some_iff.mp hb).1
  rw [Array.getElem?_append_left hi]; exact h

theorem u16_ext {b : Bytes} {i v : Nat} (h : u16 b i = some v) (t : Bytes) : u16 (b ++ t) i = some v := by
  unfold u16 at h ⊢
  cases h1 : u8 b i with
  | none => simp [h1] at h
  | some lo =>
    cases h2 : u8 b (i + 1) with
    | none => simp [h1, h2] at h
    | some hi => rw [u8_ext h1, u8_ext h2]; simpa [h1, h2] using h

theorem u32_ext {b : Bytes} {i v : Nat} (h : u32 b i = some v) (t : Bytes) : u32 (b ++ t) i = some v := by
  unfold u32 at h ⊢
  cases h1 : u16 b i with
  | none => simp [h1] at h
  | some lo =>
    cases h2 : u16 b (i + 2) with
    | none => simp [h1, h2] at h
    | some hi => rw [u16_ext h1, u16_ext h2]; simpa [h1, h2] using h

theorem bytes8_ext {b : Bytes} {n : Nat} : ∀ {pos : Nat} {l : List Nat}, bytes8 b pos n = some l → ∀ t : Bytes, bytes8 (b ++ t) pos n = some l := by
  induction n with
  | zero => intro pos l h t; simpa [bytes8] using h
  | succ n ih =>
    intro pos l h t
    unfold bytes8 at h ⊢
    cases h1 : u8 b pos with
    | none => simp [h1] at h
    | some x =>
      cases h2 : bytes8 b (pos + 1) n with
      | none => simp [h1, h2] at h
      | some xs => rw [u8_ext h1, ih h2]; simpa [h1, h2] using h

theorem words16_ext {b : Bytes} {n : Nat} : ∀ {pos : Nat} {l : List Nat}, words16 b pos n = some l → ∀ t : Bytes, words16 (b ++ t) pos n = some l := by
  induction n with
  | zero => intro pos l h t; simpa [words16] using h
  | succ n ih =>
    intro pos l h t
    unfold words16 at h ⊢
    cases h1 : u16 b pos with
    | none => simp [h1] at h
    | some x =>
      cases h2 : words16 b (pos + 2) n with
      | none => simp [h1, h2] at h
      | some xs => rw [u16_ext h1, ih h2]; simpa [h1, h2] using h

theorem bitsetBounds_ext {b : Bytes} {pos base : Nat} {v : BSet × Nat} (h : bitsetBounds b pos base = some v) (t : Bytes) :
    bitsetBounds (b ++ t) pos base = some v := by
  unfold bitsetBounds at h ⊢
  cases h1 : bytes8 b pos 8192 with
  | none => simp [h1] at h
  | some l => rw [bytes8_ext h1]; simpa [h1] using h

theorem container_ext {b : Bytes} {isRun : Bool} {key card pos : Nat} {v : BSet × Nat}
    (h : container b isRun key card pos = some v) (t : Bytes) : container (b ++ t) isRun key card pos = some v := by
  unfold container at h ⊢
  dsimp only at h ⊢
  split
  · rw [if_pos ‹_›] at h
    cases h1 : u16 b pos with
    | none => simp [h1] at h
    | some nr =>
      rw [h1] at h; rw [u16_ext h1]
      dsimp only at h ⊢
      cases h2 : words16 b (pos + 2) (2 * nr) with
      | none => simp [h2] at h
      | some ws => rw [h2] at h; rw [words16_ext h2]; exact h
  · rw [if_neg ‹_›] at h
    split
    · rw [if_pos ‹_›] at h
      cases h1 : words16 b pos card with
      | none => simp [h1] at h
      | some vs => rw [h1] at h; rw [words16_ext h1]; exact h
    · rw [if_neg ‹_›] at h
      cases h1 : bitsetBounds b pos (key * 65536) with
      | none => simp [h1] at h
      | some q => rw [h1] at h; rw [bitsetBounds_ext h1]; exact h

theorem runFlag_ext {b : Bytes} {rb : Option Nat} {i : Nat} {v : Bool} (h : runFlag b rb i = some v) (t : Bytes) :
    runFlag (b ++ t) rb i = some v := by
  unfold runFlag at h ⊢
  cases rb with
  | none => exact h
  | some p =>
    dsimp only at h ⊢
    cases h1 : u8 b (p + i / 8) with
    | none => simp [h1] at h
    | some x => rw [h1] at h; rw [u8_ext h1]; exact h

theorem containers_ext {b : Bytes} {runBits offs : Option Nat} {kc : List (Nat × Nat)} :
    ∀ {i p : Nat} {v : List BSet × Nat}, containers b runBits offs i kc p = some v →
      ∀ t : Bytes, containers (b ++ t) runBits offs i kc p = some v := by
  induction kc with
  | nil => intro i p v h t; simpa [containers] using h
  | cons kc0 rest ih =>
    intro i p v h t
    obtain ⟨key, card⟩ := kc0
    unfold containers at h ⊢
    cases h1 : runFlag b runBits i with
    | none => simp [h1] at h
    | some isRun =>
      rw [h1] at h; rw [runFlag_ext h1]
      dsimp only at h ⊢
      have tailStep : ∀ {w : Option (List BSet × Nat)},
          (match container b isRun key card p with
            | none => none
            | some (s, p') =>
              match containers b runBits offs (i + 1) rest p' with
              | none => none
              | some (ss, q) => some (s :: ss, q)) = some v →
          (match container (b ++ t) isRun key card p with
            | none => none
            | some (s, p') =>
              match containers (b ++ t) runBits offs (i + 1) rest p' with
              | none => none
              | some (ss, q) => some (s :: ss, q)) = some v := by
        intro _ h
        cases h2 : container b isRun key card p with
        | none => simp [h2] at h
        | some q =>
          obtain ⟨s, p'⟩ := q
          rw [h2] at h; rw [container_ext h2]
          dsimp only at h ⊢
          cases h3 : containers b runBits offs (i + 1) rest p' with
          | none => simp [h3] at h
          | some q2 => rw [h3] at h; rw [ih h3]; exact h
      cases offs with
      | none =>
        simp only [Bool.not_true, Bool.false_eq_true, if_false] at h ⊢
        exact tailStep (w := none) h
      | some o =>
        dsimp only at h ⊢
        cases h3 : u32 b (o + 4 * i) with
        | none => simp [h3] at h
        | some x =>
          simp only [h3] at h; simp only [u32_ext h3 t]
          split
          · rename_i hc; rw [if_pos hc] at h; simp at h
          · rename_i hc; rw [if_neg hc] at h; exact tailStep (w := none) h

theorem cookieHeader_ext {b : Bytes} {v : Nat × Option Nat × Nat} (h : cookieHeader b = some v) (t : Bytes) :
    cookieHeader (b ++ t) = some v := by
  unfold cookieHeader at h ⊢
  cases h1 : u32 b 0 with
  | none => simp [h1] at h
  | some cookie =>
    rw [h1] at h; rw [u32_ext h1]
    dsimp only at h ⊢
    split
    · rw [if_pos ‹_›] at h
      cases h2 : u32 b 4 with
      | none => simp [h2] at h
      | some n => rw [h2] at h; rw [u32_ext h2]; exact h
    · rw [if_neg ‹_›] at h; exact h

/-- a stream the independent reading accepts is read the same way when more bytes follow it -/
theorem specDecode_ext {b : Bytes} {d : Decoded} (h : specDecode b = some d) (t : Bytes) : specDecode (b ++ t) = some d := by
  unfold specDecode at h ⊢
  cases h1 : cookieHeader b with
  | none => simp [h1] at h
  | some q =>
    obtain ⟨n, runBits, pos⟩ := q
    rw [h1] at h; rw [cookieHeader_ext h1]
    dsimp only at h ⊢
    split
    · rw [if_pos ‹_›] at h; simp at h
    · rw [if_neg ‹_›] at h
      cases h2 : words16 b pos (2 * n) with
      | none => simp [h2] at h
      | some hdr =>
        rw [h2] at h; rw [words16_ext h2]
        dsimp only at h ⊢
        split
        · rw [if_pos ‹_›] at h; simp at h
        · rw [if_neg ‹_›] at h
          split at h
          · simp at h
          · rename_i sets q heq
            rw [containers_ext heq t]; exact h

/-! #### write direction -/

theorem extract_of_drop {b : Bytes} {p : Nat} {A T : List UInt8} (h : b.toList.drop p = A ++ T) :
    b.extract p b.size = A.toArray ++ T.toArray := by
  apply Array.ext'
  have hlen : (A ++ T).length = b.size - p := by rw [← h]; simp
  simp only [Array.toList_extract, List.extract, h, Array.toList_append]
  rw [List.take_of_length_le (by omega)]

theorem u64_le64 {b : Bytes} {n : Nat} {T : List UInt8} (hn : n < 18446744073709551616)
    (h : b.toList.drop 0 = le64 n ++ T) : u64 b 0 = some n := by
  have d0 : b.toList.drop 0 = le32 (n % 4294967296) ++ (le32 (n / 4294967296 % 4294967296) ++ T) := by
    rw [h, le64, List.append_assoc]
  have d4 := drop_of_append d0
  rw [le32_length] at d4
  unfold u64
  rw [u32_eq, u32_eq, d0, d4, rd32_le32 _ (by omega), rd32_le32 _ (by omega)]
  simp only [Option.map_some, Option.bind_eq_bind, Option.bind_some, Option.pure_def, Option.some.injEq]
  omega

theorem toBSet_nonempty {c : Rep} (hw : c.wf = true) (hne : c.isEmptyGo = false) : c.toBSet.isEmpty = false := by
  obtain ⟨y, hy⟩ := exists_mem_of_wf hw hne
  cases hs : c.toBSet with
  | nil => rw [hs] at hy; simp [BSet.mem] at hy
  | cons a t => rfl

theorem buckets64_encode (b : Bytes) (l : List Bucket)
    (hl : ∀ bk ∈ l, bk.high < 4294967296 ∧ bk.bm.wf = true ∧ bk.bm.isEmptyGo = false) :
    ∀ (pos prev : Nat) (acc : List BSet) (T : List UInt8),
      strictInc (l.map (·.high)) = true →
      (∀ bk, l.head? = some bk → prev ≤ bk.high) →
      b.toList.drop pos = l.flatMap bucketBytes ++ T →
      buckets64 b l.length pos prev acc =
        some (acc.reverse ++ l.map (fun bk => BSet.shiftUp bk.bm.toBSet (bk.high * 4294967296)),
              pos + (l.flatMap bucketBytes).length) := by
  induction l with
  | nil => intro pos prev acc T _ _ _; simp [buckets64]
  | cons bk t ih =>
    intro pos prev acc T hinc hprev hd
    obtain ⟨hk, hw, hne⟩ := hl bk (by simp)
    have d0 : b.toList.drop pos = le32 bk.high ++ (bk.bm.encode specParams ++ (t.flatMap bucketBytes ++ T)) := by
      rw [hd]; simp [bucketBytes]
    have d4 := drop_of_append d0
    rw [le32_length] at d4
    have hu : u32 b pos = some bk.high := by rw [u32_eq, d0, rd32_le32 _ hk]; rfl
    have hinner : specDecode (b.extract (pos + 4) b.size) = some ⟨bk.bm.toBSet, (bk.bm.encode specParams).length⟩ := by
      rw [extract_of_drop d4]
      exact specDecode_ext (encode_conforms bk.bm hw) _
    have hp : ¬ bk.high < prev := by have := hprev bk (by simp); omega
    have hrec := ih (fun x hx => hl x (List.mem_cons_of_mem _ hx)) (pos + 4 + (bk.bm.encode specParams).length) (bk.high + 1)
      (BSet.shiftUp bk.bm.toBSet (bk.high * 4294967296) :: acc) T
      (by cases t with
          | nil => rfl
          | cons c u => simp [strictInc] at hinc ⊢; exact hinc.2)
      (by intro c hc
          cases t with
          | nil => simp at hc
          | cons c' u =>
            simp only [List.head?_cons, Option.some.injEq] at hc; subst hc
            simp only [List.map_cons, strictInc, Bool.and_eq_true, decide_eq_true_eq] at hinc; omega)
      (by have := drop_of_append d4; rw [← this])
    simp only [List.length_cons]
    unfold buckets64
    simp only [hu, Option.bind_eq_bind, Option.bind_some, if_neg hp, hinner, toBSet_nonempty hw hne, Bool.false_eq_true, if_false]
    rw [hrec]
    simp [bucketBytes]
    omega

/-- the bytes written by the library for a well-formed 64-bit bitmap decode, under the independent reading of the 64-bit
format specification, to exactly the bitmap's elements, consuming the whole stream -/
theorem encode64_conforms (r : Rep64) (hwf : r.wf = true) :
    specDecode64 (r.encode specParams).toArray = some ⟨r.toBSet, (r.encode specParams).length⟩ := by
  obtain ⟨hn, hb⟩ := wf_buckets r hwf
  have hinc : strictInc (r.buckets.map (·.high)) = true := by
    simp only [Rep64.wf, Bool.and_eq_true] at hwf; exact hwf.1
  generalize hbb : (r.encode specParams).toArray = b
  have hL : b.toList = r.encode specParams := by rw [← hbb]
  have d0 : b.toList.drop 0 = le64 r.buckets.length ++ (r.buckets.flatMap bucketBytes ++ []) := by
    rw [List.drop_zero, hL, encode_eq64, List.append_nil]
  have d8 := drop_of_append d0
  rw [le64_length, Nat.zero_add] at d8
  have hsize : b.size = 8 + (r.buckets.flatMap bucketBytes).length := by
    rw [← Array.length_toList, hL, encode_eq64, List.length_append, le64_length]
  have h12 : r.buckets.length * 12 ≤ (r.buckets.flatMap bucketBytes).length := by
    rw [buckets_length _ (fun x hx => (hb x hx).2.1)]
    have : ∀ l : List Bucket, l.length * 12 ≤ (l.map fun b => 4 + b.bm.serializedSize specParams).sum := by
      intro l
      induction l with
      | nil => simp
      | cons a t ih => have := serializedSize_pos a.bm; simp only [List.length_cons, List.map_cons, List.sum_cons]; omega
    exact this _
  have hbk := buckets64_encode b r.buckets hb 8 0 [] [] hinc (fun _ _ => Nat.zero_le _) d8
  unfold specDecode64
  simp only [u64_le64 hn d0, Option.bind_eq_bind, Option.bind_some, hbk, Option.pure_def]
  rw [if_neg (by omega)]
  simp only [List.reverse_nil, List.nil_append, Option.some.injEq]
  rw [encode_eq64, List.length_append, le64_length]
  rfl

/-! #### read direction -/

theorem toList_extract_drop (b : Bytes) (p : Nat) : (b.extract p b.size).toList = b.toList.drop p := by
  have hlen : (b.toList.drop p).length = b.size - p := by simp
  simp only [Array.toList_extract, List.extract]
  rw [List.take_of_length_le (by omega)]

theorem buckets64_decodes (b : Bytes) (flag : Bool) : ∀ (n pos prev : Nat) (acc sets : List BSet) (p : Nat),
    pos ≤ b.size → buckets64 b n pos prev acc = some (sets, p) →
    ∃ l, readBuckets specParams flag n (b.toList.drop pos) = .ok (l, b.toList.drop p) ∧
      sets = acc.reverse ++ l.map (fun bk => BSet.shiftUp bk.bm.toBSet (bk.high * 4294967296)) ∧ p ≤ b.size := by
  intro n
  induction n with
  | zero =>
    intro pos prev acc sets p hpos h
    simp only [buckets64, Option.some.injEq, Prod.mk.injEq] at h
    exact ⟨[], by simp [readBuckets, h.2], by simp [h.1], by omega⟩
  | succ n ih =>
    intro pos prev acc sets p hpos h
    unfold buckets64 at h
    cases hu : u32 b pos with
    | none => simp [hu] at h
    | some key =>
      obtain ⟨hrd, hl4⟩ := u32_some hu
      simp only [hu, Option.bind_eq_bind, Option.bind_some] at h
      split at h
      · simp at h
      · cases hs : specDecode (b.extract (pos + 4) b.size) with
        | none => simp [hs] at h
        | some inner =>
          simp only [hs, Option.bind_some] at h
          split at h
          · simp at h
          · obtain ⟨r, m, hdec, hset, hm⟩ := conformant_decodes flag _ inner hs
            rw [toList_extract_drop] at hdec
            have hle := decode_count_le hdec
            have hge := decode_count_ge hdec
            rw [List.length_drop, Array.length_toList] at hle
            rw [Array.length_toList] at hl4
            obtain ⟨l, hl, hsets, hp⟩ := ih (pos + 4 + inner.consumed) (key + 1) _ sets p (by omega) h
            refine ⟨{ high := key, bm := r, flag := false } :: l, ?_, ?_, hp⟩
            · unfold readBuckets
              rw [hrd]
              simp only
              rw [hdec]
              simp only
              rw [if_neg (by omega), List.drop_drop, hm, hl]
            · rw [hsets, ← hset]; simp

/-- **read direction.**  Every stream the independent reading of the 64-bit specification accepts is accepted by the
reader (either entry point) and read as exactly the set it encodes, consuming exactly the bytes of the stream. -/
theorem conformant_decodes64 (flag : Bool) (bs : Bytes) (d : Decoded) (h : specDecode64 bs = some d) :
    ∃ r n, decode64 specParams flag bs.toList = .ok (r, n) ∧ r.toBSet = d.set ∧ n = d.consumed := by
  unfold specDecode64 at h
  cases hu : u64 bs 0 with
  | none => simp [hu] at h
  | some n =>
    simp only [hu, Option.bind_eq_bind, Option.bind_some] at h
    split at h
    · simp at h
    · rename_i hsz
      cases hb : buckets64 bs n 8 0 [] with
      | none => simp [hb] at h
      | some q =>
        obtain ⟨sets, p⟩ := q
        simp only [hb, Option.bind_some, Option.pure_def, Option.some.injEq] at h
        obtain ⟨l, hl, hsets, hp⟩ := buckets64_decodes bs flag n 8 0 [] sets p (by omega) hb
        have hrd : rd64 bs.toList = some (n, bs.toList.drop 8) := by
          unfold u64 at hu
          cases h0 : u32 bs 0 with
          | none => simp [h0] at hu
          | some lo =>
            cases h4 : u32 bs (0 + 4) with
            | none => simp [h0, h4] at hu
            | some hi =>
              simp only [h0, h4, Option.bind_eq_bind, Option.bind_some, Option.pure_def, Option.some.injEq] at hu
              obtain ⟨r0, _⟩ := u32_some h0
              obtain ⟨r4, _⟩ := u32_some h4
              rw [List.drop_zero] at r0
              unfold rd64
              rw [r0]
              simp only
              rw [r4]
              simp only [hu]
        refine ⟨{ cow := false, buckets := l }, p, ?_, ?_, ?_⟩
        · unfold decode64
          rw [hrd]
          simp only
          rw [hl]
          simp only [List.length_drop, Array.length_toList]
          congr 2
          omega
        · rw [← h]; simp [Rep64.toBSet, hsets]
        · rw [← h]

/-- non-vacuity: the hypotheses of the theorems of this file are met by a concrete representation (two buckets, the
second one under the top key `2^32 - 1`, array and run containers), and their conclusions are observed on it by evaluation -/
example :
    let r : Rep64 := ⟨false, [⟨0, ⟨false, [⟨0, .arr [1, 5, 9], false⟩, ⟨3, .run [(10, 99)], false⟩]⟩, false⟩,
                              ⟨4294967295, ⟨false, [⟨65535, .arr [65535], true⟩]⟩, true⟩]⟩
    r.wf = true ∧ (r.encode specParams).length = 59 ∧ r.serializedSize specParams = 59 ∧
      (decode64 specParams true (r.encode specParams ++ [7, 7]) == .ok (r.asDecoded true, 59)) = true ∧
      (decode64 specParams false ((r.encode specParams).take 58) == .err) = true ∧
      (r.asDecoded true).validate = true := by
  decide

end RModel.FormatSpec
