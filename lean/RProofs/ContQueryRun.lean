import RProofs.ContQueryGlue
/-!
Correctness of the run-container query kernels of `RModel/Impl/ContQuery.lean` with respect to the
characterisations of `RProofs/ContQueryGlue.lean`, for the membership predicate `inRuns rs`.
Core Lean only; no `native_decide`, `bv_decide`, axioms.
-/
set_option linter.unusedVariables false

namespace RModel.Impl
open RModel RModel.BSet ContOps ContQuery

namespace RunQ

/-! ### `uint16` arithmetic without wrap -/

theorem run_add16_eq {a b : Nat} (h : a + b ≤ 65535) : add16 a b = a + b := by
  unfold add16; omega

theorem run_sub16_eq {a b : Nat} (h : b ≤ a) (ha : a < 65536) : sub16 a b = a - b := by
  unfold sub16; omega

/-! ### index view of a run list -/

/-- end (last member) of run `i`, without wrap -/
def rEnd (rs : List (Nat × Nat)) (i : Nat) : Nat := (rs.getD i (0, 0)).1 + (rs.getD i (0, 0)).2

/-- cardinality of the first `k` runs -/
def pc (rs : List (Nat × Nat)) (k : Nat) : Nat := runsCard (rs.take k)

theorem rStart_le_rEnd (rs : List (Nat × Nat)) (i : Nat) : rStart rs i ≤ rEnd rs i := by
  unfold rStart rEnd; omega

theorem rLen_eq (rs : List (Nat × Nat)) (i : Nat) : rLen rs i = rEnd rs i - rStart rs i + 1 := by
  unfold rLen rStart rEnd; omega

theorem getD_mem {rs : List (Nat × Nat)} {i : Nat} (h : i < rs.length) : rs.getD i (0, 0) ∈ rs := by
  rw [List.getD_eq_getElem?_getD, List.getElem?_eq_getElem h]
  simp

theorem rEnd_bound {rs : List (Nat × Nat)} (hb : ∀ p ∈ rs, p.1 + p.2 ≤ 65535) {i : Nat} (h : i < rs.length) :
    rEnd rs i ≤ 65535 := hb _ (getD_mem h)

theorem rLast_eq {rs : List (Nat × Nat)} (hb : ∀ p ∈ rs, p.1 + p.2 ≤ 65535) {i : Nat} (h : i < rs.length) :
    rLast rs i = rEnd rs i := by
  have := rEnd_bound hb h
  unfold rEnd at this
  simp only [rLast, rEnd]
  exact run_add16_eq this

theorem sep_idx {rs : List (Nat × Nat)} (hs : RunSep rs) {i j : Nat} (hij : i < j) (hj : j < rs.length) :
    rEnd rs i + 1 < rStart rs j := by
  have := (List.pairwise_iff_getElem.mp hs) i j (by omega) hj hij
  simp only [rEnd, rStart, List.getD_eq_getElem?_getD, List.getElem?_eq_getElem hj,
    List.getElem?_eq_getElem (show i < rs.length by omega), Option.getD_some]
  exact this

theorem start_mono {rs : List (Nat × Nat)} (hs : RunSep rs) {i j : Nat} (hij : i < j) (hj : j < rs.length) :
    rStart rs i < rStart rs j := by
  have := sep_idx hs hij hj
  have := rStart_le_rEnd rs i
  omega

theorem inRuns_idx (rs : List (Nat × Nat)) (x : Nat) :
    inRuns rs x = true ↔ ∃ i, i < rs.length ∧ rStart rs i ≤ x ∧ x ≤ rEnd rs i := by
  rw [inRuns_iff]
  constructor
  · rintro ⟨p, hp, h1, h2⟩
    obtain ⟨i, hi, rfl⟩ := List.mem_iff_getElem.mp hp
    refine ⟨i, hi, ?_, ?_⟩
    · simpa [rStart, List.getD_eq_getElem?_getD, List.getElem?_eq_getElem hi] using h1
    · simpa [rEnd, List.getD_eq_getElem?_getD, List.getElem?_eq_getElem hi] using h2
  · rintro ⟨i, hi, h1, h2⟩
    exact ⟨rs.getD i (0, 0), getD_mem hi, h1, h2⟩

theorem inRuns_false_idx (rs : List (Nat × Nat)) (x : Nat)
    (h : ∀ i, i < rs.length → x < rStart rs i ∨ rEnd rs i < x) : inRuns rs x = false := by
  cases hh : inRuns rs x
  · rfl
  · obtain ⟨i, hi, h1, h2⟩ := (inRuns_idx rs x).mp hh
    have := h i hi
    omega

/-! ### the bisection -/

theorem runSearchLoop_spec (rs : List (Nat × Nat)) (hs : RunSep rs) (key : Nat) (i j : Nat)
    (hij : i ≤ j) (hj : j ≤ rs.length)
    (h1 : ∀ k, k < i → rStart rs k ≤ key)
    (h2 : ∀ k, j ≤ k → k < rs.length → key < rStart rs k) :
    i ≤ runSearchLoop rs key i j ∧ runSearchLoop rs key i j ≤ j ∧
    (∀ k, k < runSearchLoop rs key i j → rStart rs k ≤ key) ∧
    (∀ k, runSearchLoop rs key i j ≤ k → k < rs.length → key < rStart rs k) := by
  fun_induction runSearchLoop rs key i j with
  | case1 i j hlt h hc ih =>
    have hh : h = i + (j - i) / 2 := rfl
    obtain ⟨a1, a2, a3, a4⟩ := ih (by omega) hj (by
      intro k hk
      by_cases e : k = h
      · subst e; omega
      · have := start_mono hs (show k < h by omega) (by omega)
        omega) h2
    exact ⟨by omega, a2, a3, a4⟩
  | case2 i j hlt h hc ih =>
    have hh : h = i + (j - i) / 2 := rfl
    obtain ⟨a1, a2, a3, a4⟩ := ih (by omega) (by omega) h1 (by
      intro k hk hkn
      by_cases e : k = h
      · subst e; omega
      · have := start_mono hs (show h < k by omega) hkn
        omega)
    exact ⟨a1, by omega, a3, a4⟩
  | case3 i j hlt => exact ⟨by omega, by omega, h1, fun k hk => h2 k (by omega)⟩

/-! ### `runSearch` -/

theorem runSearch_cases (rs : List (Nat × Nat)) (hs : RunSep rs) (hb : ∀ p ∈ rs, p.1 + p.2 ≤ 65535)
    (x : Nat) :
    ∃ b : Nat, b ≤ rs.length ∧ (runSearch rs x).1 = (b : Int) - 1 ∧
      (∀ i, i < b → rStart rs i ≤ x) ∧ (∀ i, b ≤ i → i < rs.length → x < rStart rs i) ∧
      (((runSearch rs x).2 = true ∧ 0 < b ∧ x ≤ rEnd rs (b - 1) ∧ inRuns rs x = true) ∨
       ((runSearch rs x).2 = false ∧ (∀ i, i < b → rEnd rs i < x) ∧ inRuns rs x = false)) := by
  by_cases hn : rs.length = 0
  · refine ⟨0, by omega, ?_, by omega, by omega, Or.inr ⟨?_, by omega, ?_⟩⟩
    · simp [runSearch, hn]
    · simp [runSearch, hn]
    · have : rs = [] := List.length_eq_zero_iff.mp hn
      subst this; rfl
  · obtain ⟨-, a2, a3, a4⟩ := runSearchLoop_spec rs hs x 0 rs.length (by omega) (by omega) (by omega) (by omega)
    generalize hbd : runSearchLoop rs x 0 rs.length = b at a2 a3 a4
    -- the membership test in terms of `b`
    have key : ∀ pr : Bool, pr = decide (0 < b ∧ x ≤ rEnd rs (b - 1)) →
        ((pr = true ∧ 0 < b ∧ x ≤ rEnd rs (b - 1) ∧ inRuns rs x = true) ∨
         (pr = false ∧ (∀ i, i < b → rEnd rs i < x) ∧ inRuns rs x = false)) := by
      intro pr hpr
      by_cases hc : 0 < b ∧ x ≤ rEnd rs (b - 1)
      · left
        refine ⟨by simp [hpr, hc], hc.1, hc.2, ?_⟩
        exact (inRuns_idx rs x).mpr ⟨b - 1, by omega, a3 _ (by omega), hc.2⟩
      · right
        have hlt : ∀ i, i < b → rEnd rs i < x := by
          intro i hi
          by_cases e : i = b - 1
          · subst e; omega
          · have := sep_idx hs (show i < b - 1 by omega) (by omega)
            have := a3 (b - 1) (by omega)
            omega
        refine ⟨by simp [hpr, hc], hlt, ?_⟩
        apply inRuns_false_idx
        intro i hi
        by_cases e : i < b
        · right; exact hlt i e
        · left; exact a4 i (by omega) hi
    refine ⟨b, a2, ?_, a3, a4, ?_⟩
    · simp only [runSearch, hn, hbd, if_false]
      split
      · rfl
      · split <;> rfl
    · apply key
      simp only [runSearch, hn, hbd]
      simp only [if_false]
      by_cases e1 : b = rs.length
      · simp only [e1, if_true]
        rw [rLast_eq hb (by omega)]
        rw [decide_eq_decide]; omega
      · simp only [e1, if_false]
        by_cases e2 : b = 0
        · simp [e2]
        · simp only [e2, if_false]
          rw [rLast_eq hb (by omega)]
          rw [decide_eq_decide]
          have := a3 (b - 1) (by omega)
          omega

theorem end_mono {rs : List (Nat × Nat)} (hs : RunSep rs) {i j : Nat} (hij : i < j) (hj : j < rs.length) :
    rEnd rs i < rEnd rs j := by
  have := sep_idx hs hij hj
  have := rStart_le_rEnd rs j
  omega

theorem start_mono_le {rs : List (Nat × Nat)} (hs : RunSep rs) {i j : Nat} (hij : i ≤ j) (hj : j < rs.length) :
    rStart rs i ≤ rStart rs j := by
  by_cases e : i = j
  · subst e; omega
  · have := start_mono hs (show i < j by omega) hj; omega

theorem end_mono_le {rs : List (Nat × Nat)} (hs : RunSep rs) {i j : Nat} (hij : i ≤ j) (hj : j < rs.length) :
    rEnd rs i ≤ rEnd rs j := by
  by_cases e : i = j
  · subst e; omega
  · have := end_mono hs (show i < j by omega) hj; omega

/-! ### counting -/

/-- closed form of `cnt (inRuns rs) n` for a separated run list -/
def cr : List (Nat × Nat) → Nat → Nat
  | [], _ => 0
  | p :: t, n => (min (p.1 + p.2 + 1) n - min p.1 n) + cr t n

theorem cr_append (a b : List (Nat × Nat)) (n : Nat) : cr (a ++ b) n = cr a n + cr b n := by
  induction a with
  | nil => simp [cr]
  | cons p t ih => simp only [List.cons_append, cr, ih]; omega

theorem runsCard_cons (p : Nat × Nat) (t : List (Nat × Nat)) : runsCard (p :: t) = p.2 + 1 + runsCard t := by
  simp [runsCard]

theorem runsCard_append (a b : List (Nat × Nat)) : runsCard (a ++ b) = runsCard a + runsCard b := by
  simp [runsCard]

theorem cr_below (l : List (Nat × Nat)) (n : Nat) (h : ∀ p ∈ l, p.1 + p.2 < n) : cr l n = runsCard l := by
  induction l with
  | nil => rfl
  | cons p t ih =>
    have := h p (by simp)
    rw [cr, runsCard_cons, ih (fun q hq => h q (by simp [hq]))]
    omega

theorem cr_above (l : List (Nat × Nat)) (n : Nat) (h : ∀ p ∈ l, n ≤ p.1) : cr l n = 0 := by
  induction l with
  | nil => rfl
  | cons p t ih =>
    have := h p (by simp)
    rw [cr, ih (fun q hq => h q (by simp [hq]))]
    omega

theorem cnt_cons (p : Nat × Nat) (t : List (Nat × Nat)) (hs : RunSep (p :: t)) (n : Nat) :
    cnt (inRuns (p :: t)) n = (min (p.1 + p.2 + 1) n - min p.1 n) + cnt (inRuns t) n := by
  induction n with
  | zero => simp [cnt_zero]
  | succ n ihn =>
    rw [cnt_succ, cnt_succ, ihn, inRuns_cons]
    have htl : inRuns t n = true → p.1 + p.2 + 1 < n := fun h => inRuns_tail_gt hs h
    cases h : inRuns t n
    · by_cases h1 : p.1 ≤ n <;> by_cases h2 : n ≤ p.1 + p.2 <;> simp [h1, h2] <;> omega
    · have := htl h
      have h2 : ¬ n ≤ p.1 + p.2 := by omega
      simp [h2]; omega

theorem cnt_eq_cr (rs : List (Nat × Nat)) (hs : RunSep rs) (n : Nat) : cnt (inRuns rs) n = cr rs n := by
  induction rs with
  | nil =>
    simp only [cr]
    rw [cnt_eq_of_none (inRuns []) (Nat.zero_le n) (fun u _ _ => rfl), cnt_zero]
  | cons p t ih =>
    rw [cnt_cons p t hs, ih (List.pairwise_cons.mp hs).2, cr]

theorem pc_zero (rs : List (Nat × Nat)) : pc rs 0 = 0 := by simp [pc, runsCard]

theorem pc_length (rs : List (Nat × Nat)) : pc rs rs.length = runsCard rs := by simp [pc]

theorem pc_succ (rs : List (Nat × Nat)) {k : Nat} (h : k < rs.length) :
    pc rs (k + 1) = pc rs k + (rEnd rs k - rStart rs k + 1) := by
  unfold pc
  rw [List.take_add_one, runsCard_append, List.getElem?_eq_getElem h]
  simp only [Option.toList_some, rEnd, rStart, List.getD_eq_getElem?_getD, List.getElem?_eq_getElem h,
    Option.getD_some, runsCard_cons]
  simp [runsCard]

theorem pc_le_succ (rs : List (Nat × Nat)) (k : Nat) : pc rs k ≤ pc rs (k + 1) := by
  by_cases h : k < rs.length
  · rw [pc_succ rs h]; omega
  · unfold pc
    rw [List.take_of_length_le (by omega), List.take_of_length_le (by omega)]
    omega

theorem pc_mono (rs : List (Nat × Nat)) {a b : Nat} (h : a ≤ b) : pc rs a ≤ pc rs b := by
  induction b with
  | zero => have : a = 0 := by omega
            subst this; exact Nat.le_refl _
  | succ b ih =>
    by_cases hab : a = b + 1
    · subst hab; exact Nat.le_refl _
    · exact Nat.le_trans (ih (by omega)) (pc_le_succ rs b)

theorem take_facts {rs : List (Nat × Nat)} {k : Nat} {p : Nat × Nat} (hp : p ∈ rs.take k) :
    ∃ i, i < k ∧ i < rs.length ∧ p.1 = rStart rs i ∧ p.1 + p.2 = rEnd rs i := by
  obtain ⟨i, hi, rfl⟩ := List.mem_iff_getElem.mp hp
  rw [List.length_take] at hi
  have hin : i < rs.length := by omega
  refine ⟨i, by omega, hin, ?_, ?_⟩ <;>
    simp [rStart, rEnd, List.getD_eq_getElem?_getD, List.getElem?_eq_getElem hin, List.getElem_take]

theorem drop_facts {rs : List (Nat × Nat)} {k : Nat} {p : Nat × Nat} (hp : p ∈ rs.drop k) :
    ∃ i, k ≤ i ∧ i < rs.length ∧ p.1 = rStart rs i ∧ p.1 + p.2 = rEnd rs i := by
  obtain ⟨i, hi, rfl⟩ := List.mem_iff_getElem.mp hp
  rw [List.length_drop] at hi
  have hin : k + i < rs.length := by omega
  refine ⟨k + i, by omega, hin, ?_, ?_⟩ <;>
    simp [rStart, rEnd, List.getD_eq_getElem?_getD, List.getElem?_eq_getElem hin, List.getElem_drop]

/-- `m` lies in the gap before run `k` (or after the last run, `k = length`) -/
theorem cnt_gap (rs : List (Nat × Nat)) (hs : RunSep rs) (m k : Nat)
    (h1 : ∀ i, i < k → i < rs.length → rEnd rs i < m) (h2 : ∀ i, k ≤ i → i < rs.length → m ≤ rStart rs i) :
    cnt (inRuns rs) m = pc rs k := by
  rw [cnt_eq_cr rs hs]
  conv => lhs; rw [← List.take_append_drop k rs]
  rw [cr_append, cr_below, cr_above]
  · rfl
  · intro p hp
    obtain ⟨i, a, b, c, d⟩ := drop_facts hp
    have := h2 i a b; omega
  · intro p hp
    obtain ⟨i, a, b, c, d⟩ := take_facts hp
    have := h1 i a b; omega

/-- `m` lies inside run `k` (or just after its end) -/
theorem cnt_inside (rs : List (Nat × Nat)) (hs : RunSep rs) (m k : Nat) (hk : k < rs.length)
    (h1 : rStart rs k ≤ m) (h2 : m ≤ rEnd rs k + 1) :
    cnt (inRuns rs) m = pc rs k + (m - rStart rs k) := by
  rw [cnt_eq_cr rs hs]
  conv => lhs; rw [← List.take_append_drop k rs]
  rw [cr_append, cr_below, List.drop_eq_getElem_cons hk, cr, cr_above]
  · have e1 : rs[k].1 = rStart rs k := by
      simp [rStart, List.getD_eq_getElem?_getD, List.getElem?_eq_getElem hk]
    have e2 : rs[k].1 + rs[k].2 = rEnd rs k := by
      simp [rEnd, List.getD_eq_getElem?_getD, List.getElem?_eq_getElem hk]
    unfold pc
    omega
  · intro p hp
    obtain ⟨i, a, b, c, d⟩ := drop_facts hp
    have := sep_idx hs (show k < i by omega) b; omega
  · intro p hp
    obtain ⟨i, a, b, c, d⟩ := take_facts hp
    have := sep_idx hs a hk; omega

end RunQ
open RunQ

theorem runContains_spec (rs : List (Nat × Nat)) (hs : RunSep rs) (hb : ∀ p ∈ rs, p.1 + p.2 ≤ 65535)
    (x : Nat) (hx : x < 65536) : runContains rs x = inRuns rs x := by
  obtain ⟨b, -, -, -, -, hc⟩ := runSearch_cases rs hs hb x
  unfold runContains
  rcases hc with ⟨h1, -, -, h2⟩ | ⟨h1, -, h2⟩ <;> rw [h1, h2]

theorem runNextValue_spec (rs : List (Nat × Nat)) (hs : RunSep rs) (hb : ∀ p ∈ rs, p.1 + p.2 ≤ 65535)
    (x : Nat) (hx : x < 65536) : IsNext (inRuns rs) x (runNextValue rs x) := by
  obtain ⟨b, hbn, hw, h3, h4, hc⟩ := runSearch_cases rs hs hb x
  rcases hsr : runSearch rs x with ⟨w, pr⟩
  rw [hsr] at hw hc
  simp only at hw hc
  simp only [runNextValue, hsr]
  by_cases hn : rs.length = 0
  · simp only [hn, if_true]
    right
    refine ⟨rfl, fun u _ => ?_⟩
    have : rs = [] := List.length_eq_zero_iff.mp hn
    subst this; rfl
  simp only [hn, if_false]
  rcases hc with ⟨h1, hb0, hle, hin⟩ | ⟨h1, hlt, hout⟩
  · simp only [h1, if_true]
    left
    exact ⟨x, rfl, Nat.le_refl _, hin, fun u a b => by omega⟩
  · simp only [h1, Bool.false_eq_true, if_false]
    by_cases e1 : w = -1
    · simp only [e1, if_true]
      have hb0 : b = 0 := by omega
      subst hb0
      left
      refine ⟨rStart rs 0, rfl, ?_, ?_, ?_⟩
      · have := h4 0 (by omega) (by omega); omega
      · exact (inRuns_idx rs _).mpr ⟨0, by omega, Nat.le_refl _, rStart_le_rEnd rs 0⟩
      · intro u _ hu
        apply inRuns_false_idx
        intro i hi
        left
        have := start_mono_le hs (Nat.zero_le i) hi
        omega
    · simp only [e1, if_false]
      by_cases e2 : w = (rs.length : Int) - 1
      · simp only [e2, if_true]
        right
        refine ⟨rfl, fun u hu => ?_⟩
        apply inRuns_false_idx
        intro i hi
        right
        have := hlt i (by omega)
        omega
      · simp only [e2, if_false]
        have hwb : w + 1 = (b : Int) := by omega
        have hbl : b < rs.length := by omega
        rw [hwb]
        simp only [Int.toNat_natCast, Int.ofNat_lt, hbl, if_true]
        left
        refine ⟨rStart rs b, rfl, ?_, ?_, ?_⟩
        · have := h4 b (by omega) hbl; omega
        · exact (inRuns_idx rs _).mpr ⟨b, hbl, Nat.le_refl _, rStart_le_rEnd rs b⟩
        · intro u hxu hu
          apply inRuns_false_idx
          intro i hi
          by_cases e : i < b
          · right; have := hlt i e; omega
          · left; have := start_mono_le hs (show b ≤ i by omega) hi; omega

theorem runPreviousValue_spec (rs : List (Nat × Nat)) (hs : RunSep rs) (hb : ∀ p ∈ rs, p.1 + p.2 ≤ 65535)
    (hne : rs ≠ []) (x : Nat) (hx : x < 65536) : IsPrev (inRuns rs) x (runPreviousValue rs x) := by
  obtain ⟨b, hbn, hw, h3, h4, hc⟩ := runSearch_cases rs hs hb x
  rcases hsr : runSearch rs x with ⟨w, pr⟩
  rw [hsr] at hw hc
  simp only at hw hc
  simp only [runPreviousValue, hsr]
  have hn : ¬ rs.length = 0 := fun h => hne (List.length_eq_zero_iff.mp h)
  simp only [hn, if_false]
  rcases hc with ⟨h1, hb0, hle, hin⟩ | ⟨h1, hlt, hout⟩
  · simp only [h1, if_true]
    left
    exact ⟨x, rfl, Nat.le_refl _, hin, fun u a b => by omega⟩
  · simp only [h1, Bool.false_eq_true, if_false]
    by_cases e1 : w = -1
    · simp only [e1, if_true]
      have hb0 : b = 0 := by omega
      subst hb0
      right
      refine ⟨rfl, fun u hu => ?_⟩
      apply inRuns_false_idx
      intro i hi
      left
      have := h4 i (by omega) hi
      omega
    · simp only [e1, if_false]
      have hwb : w.toNat = b - 1 := by omega
      have hb0 : 0 < b := by omega
      rw [hwb, rLast_eq hb (by omega)]
      left
      refine ⟨rEnd rs (b - 1), rfl, ?_, ?_, ?_⟩
      · have := hlt (b - 1) (by omega); omega
      · exact (inRuns_idx rs _).mpr ⟨b - 1, by omega, rStart_le_rEnd rs _, Nat.le_refl _⟩
      · intro u hu hux
        apply inRuns_false_idx
        intro i hi
        by_cases e : i < b
        · right; have := end_mono_le hs (show i ≤ b - 1 by omega) (by omega); omega
        · left; have := h4 i (by omega) hi; omega

theorem runNextAbsentValue_spec (rs : List (Nat × Nat)) (hs : RunSep rs) (hb : ∀ p ∈ rs, p.1 + p.2 ≤ 65535)
    (x : Nat) (hx : x < 65536) : IsNextAbsent (inRuns rs) x (runNextAbsentValue rs x) := by
  obtain ⟨b, hbn, hw, h3, h4, hc⟩ := runSearch_cases rs hs hb x
  rcases hsr : runSearch rs x with ⟨w, pr⟩
  rw [hsr] at hw hc
  simp only at hw hc
  simp only [runNextAbsentValue, hsr]
  rcases hc with ⟨h1, hb0, hle, hin⟩ | ⟨h1, hlt, hout⟩
  · simp only [h1, Bool.not_true, Bool.false_eq_true, if_false]
    have hwb : w.toNat = b - 1 := by omega
    rw [hwb, rLast_eq hb (by omega)]
    refine ⟨rEnd rs (b - 1) + 1, rfl, by omega, ?_, ?_⟩
    · apply inRuns_false_idx
      intro i hi
      by_cases e : i < b
      · right; have := end_mono_le hs (show i ≤ b - 1 by omega) (by omega); omega
      · left; have := sep_idx hs (show b - 1 < i by omega) hi; omega
    · intro u hxu hu
      exact (inRuns_idx rs _).mpr ⟨b - 1, by omega, by have := h3 (b - 1) (by omega); omega, by omega⟩
  · simp only [h1, Bool.not_false, if_true]
    exact ⟨x, rfl, Nat.le_refl _, hout, fun u a b => by omega⟩

theorem runPreviousAbsentValue_spec (rs : List (Nat × Nat)) (hs : RunSep rs) (hb : ∀ p ∈ rs, p.1 + p.2 ≤ 65535)
    (x : Nat) (hx : x < 65536) : IsPrevAbsent (inRuns rs) x (runPreviousAbsentValue rs x) := by
  obtain ⟨b, hbn, hw, h3, h4, hc⟩ := runSearch_cases rs hs hb x
  rcases hsr : runSearch rs x with ⟨w, pr⟩
  rw [hsr] at hw hc
  simp only at hw hc
  simp only [runPreviousAbsentValue, hsr]
  rcases hc with ⟨h1, hb0, hle, hin⟩ | ⟨h1, hlt, hout⟩
  · simp only [h1, Bool.not_true, Bool.false_eq_true, if_false]
    have hwb : w.toNat = b - 1 := by omega
    rw [hwb]
    have hsx := h3 (b - 1) (by omega)
    by_cases e0 : rStart rs (b - 1) = 0
    · right
      refine ⟨by omega, fun u hu => ?_⟩
      exact (inRuns_idx rs _).mpr ⟨b - 1, by omega, by omega, by omega⟩
    · left
      refine ⟨rStart rs (b - 1) - 1, by omega, by omega, ?_, ?_⟩
      · apply inRuns_false_idx
        intro i hi
        by_cases e : i < b - 1
        · right; have := sep_idx hs e (by omega); omega
        · left; have := start_mono_le hs (show b - 1 ≤ i by omega) hi; omega
      · intro u hu hux
        exact (inRuns_idx rs _).mpr ⟨b - 1, by omega, by omega, by omega⟩
  · simp only [h1, Bool.not_false, if_true]
    left
    exact ⟨x, rfl, Nat.le_refl _, hout, fun u a b => by omega⟩

theorem runMin_spec (rs : List (Nat × Nat)) (hs : RunSep rs) (hb : ∀ p ∈ rs, p.1 + p.2 ≤ 65535)
    (hne : rs ≠ []) : IsMin (inRuns rs) (rStart rs 0 : Int) := by
  have hn : 0 < rs.length := List.length_pos_iff.mpr hne
  refine ⟨rStart rs 0, rfl, ?_, ?_⟩
  · exact (inRuns_idx rs _).mpr ⟨0, hn, Nat.le_refl _, rStart_le_rEnd rs 0⟩
  · intro u hu
    apply inRuns_false_idx
    intro i hi
    left
    have := start_mono_le hs (Nat.zero_le i) hi
    omega

theorem runMax_spec (rs : List (Nat × Nat)) (hs : RunSep rs) (hb : ∀ p ∈ rs, p.1 + p.2 ≤ 65535)
    (hne : rs ≠ []) : IsMax (inRuns rs) (rLast rs (rs.length - 1) : Int) := by
  have hn : 0 < rs.length := List.length_pos_iff.mpr hne
  rw [rLast_eq hb (by omega)]
  refine ⟨rEnd rs (rs.length - 1), rfl, ?_, ?_⟩
  · exact (inRuns_idx rs _).mpr ⟨rs.length - 1, by omega, rStart_le_rEnd rs _, Nat.le_refl _⟩
  · intro u hu
    apply inRuns_false_idx
    intro i hi
    right
    have := end_mono_le hs (show i ≤ rs.length - 1 by omega) (by omega)
    omega

theorem runsCard_eq_cnt (rs : List (Nat × Nat)) (hs : RunSep rs) (hb : ∀ p ∈ rs, p.1 + p.2 ≤ 65535) :
    runsCard rs = cnt (inRuns rs) 65536 := by
  rw [cnt_gap rs hs 65536 rs.length (fun i _ hi => by have := rEnd_bound hb hi; omega) (fun i a b => by omega),
    pc_length]

theorem runRank_spec (rs : List (Nat × Nat)) (hs : RunSep rs) (hb : ∀ p ∈ rs, p.1 + p.2 ≤ 65535)
    (x : Nat) (hx : x < 65536) : IsRank (inRuns rs) x (runRank rs x) := by
  obtain ⟨b, hbn, hw, h3, h4, hc⟩ := runSearch_cases rs hs hb x
  rcases hsr : runSearch rs x with ⟨w, pr⟩
  rw [hsr] at hw hc
  simp only at hw hc
  simp only [runRank, hsr, IsRank]
  rcases hc with ⟨h1, hb0, hle, hin⟩ | ⟨h1, hlt, hout⟩
  · have hwb : w.toNat = b - 1 := by omega
    have hsx := h3 (b - 1) (by omega)
    have hw0 : ¬ w < 0 := by omega
    simp only [h1, hw0, if_false, Bool.not_true, Bool.false_eq_true, false_and, hwb]
    rw [cnt_inside rs hs (x + 1) (b - 1) (by omega) (by omega) (by omega), run_sub16_eq hsx hx]
    unfold pc
    omega
  · simp only [h1, Bool.not_false, true_and, if_true]
    by_cases e0 : w < 0
    · simp only [e0, if_true]
      have : b = 0 := by omega
      subst this
      rw [cnt_gap rs hs (x + 1) 0 (by omega) (fun i a c => by have := h4 i a c; omega), pc_zero]
      rfl
    · simp only [e0, if_false]
      have hcg := cnt_gap rs hs (x + 1) b (fun i a c => by have := hlt i a; omega)
        (fun i a c => by have := h4 i a c; omega)
      rw [hcg]
      by_cases e1 : w = (rs.length : Int) - 1
      · simp only [e1, if_true]
        have : b = rs.length := by omega
        rw [this, pc_length]
      · simp only [e1, if_false]
        have : w.toNat + 1 = b := by omega
        rw [this]; rfl

theorem runSelectFrom_spec (rs : List (Nat × Nat)) (hs : RunSep rs) (offset i : Nat)
    (h1 : offset ≤ i) (h2 : i < offset + runsCard rs) :
    ∃ v : Nat, runSelectFrom rs offset i = (v : Int) ∧ inRuns rs v = true ∧ cnt (inRuns rs) v = i - offset := by
  induction rs generalizing offset with
  | nil => simp [runsCard] at h2; omega
  | cons p t ih =>
    obtain ⟨s, l⟩ := p
    have hp := List.pairwise_cons.mp hs
    rw [runsCard_cons] at h2
    simp only at h2
    simp only [runSelectFrom]
    by_cases hc : offset + (l + 1) > i
    · simp only [hc, if_true]
      refine ⟨s + (i - offset), by omega, ?_, ?_⟩
      · rw [inRuns_cons]; simp; omega
      · rw [cnt_cons _ _ hs, cnt_eq_cr t hp.2, cr_above]
        · simp only; omega
        · intro q hq
          have := hp.1 q hq
          simp only at this
          omega
    · simp only [hc, if_false]
      obtain ⟨v, e1, e2, e3⟩ := ih hp.2 (offset + (l + 1)) (by omega) (by omega)
      refine ⟨v, e1, ?_, ?_⟩
      · rw [inRuns_cons, e2]; simp
      · have := inRuns_tail_gt hs e2
        simp only at this
        rw [cnt_cons _ _ hs, e3]
        simp only; omega

theorem runSelect_spec (rs : List (Nat × Nat)) (hs : RunSep rs) (hb : ∀ p ∈ rs, p.1 + p.2 ≤ 65535)
    (i : Nat) (hi : i < runsCard rs) : IsSelect (inRuns rs) i (runSelectFrom rs 0 i) := by
  obtain ⟨v, e1, e2, e3⟩ := runSelectFrom_spec rs hs 0 i (by omega) (by omega)
  exact ⟨v, e1, e2, by omega⟩

namespace RunQ

theorem runsCard_take_drop (rs : List (Nat × Nat)) (l f : Nat) :
    runsCard ((rs.take l).drop f) = pc rs l - pc rs f := by
  by_cases h : f ≤ l
  · have e : pc rs l = pc rs f + runsCard ((rs.take l).drop f) := by
      unfold pc
      conv => lhs; rw [← List.take_append_drop f (rs.take l)]
      rw [runsCard_append, List.take_take, Nat.min_eq_left h]
    omega
  · have : (rs.take l).drop f = [] := by
      apply List.drop_eq_nil_of_le
      rw [List.length_take]; omega
    rw [this]
    have := pc_mono rs (show l ≤ f by omega)
    simp [runsCard]; omega

/-- everything the range-count needs to know about one `runSearch` -/
theorem search_summary (rs : List (Nat × Nat)) (hs : RunSep rs) (hb : ∀ p ∈ rs, p.1 + p.2 ≤ 65535)
    (x : Nat) (w : Int) (pr : Bool) (hsr : runSearch rs x = (w, pr)) :
    ∃ k : Nat, k ≤ rs.length ∧
      (∀ i, i < k → rEnd rs i < x) ∧ (∀ i, k < i → i < rs.length → x < rStart rs i) ∧
      ((pr = true ∧ w = (k : Int) ∧ k < rs.length ∧ rStart rs k ≤ x ∧ x ≤ rEnd rs k ∧
          cnt (inRuns rs) x = pc rs k + (x - rStart rs k) ∧ cnt (inRuns rs) (x + 1) = pc rs k + (x - rStart rs k) + 1) ∨
       (pr = false ∧ w = (k : Int) - 1 ∧ (k < rs.length → x < rStart rs k) ∧
          cnt (inRuns rs) x = pc rs k ∧ cnt (inRuns rs) (x + 1) = pc rs k)) := by
  obtain ⟨b, hbn, hw, h3, h4, hc⟩ := runSearch_cases rs hs hb x
  rw [hsr] at hw hc
  simp only at hw hc
  rcases hc with ⟨h1, hb0, hle, hin⟩ | ⟨h1, hlt, hout⟩
  · have hsx := h3 (b - 1) (by omega)
    refine ⟨b - 1, by omega, ?_, ?_, Or.inl ⟨h1, by omega, by omega, hsx, hle, ?_, ?_⟩⟩
    · intro i hi
      have := sep_idx hs hi (show b - 1 < rs.length by omega)
      omega
    · intro i hi hin
      exact h4 i (by omega) hin
    · exact cnt_inside rs hs x (b - 1) (by omega) hsx (by omega)
    · rw [cnt_inside rs hs (x + 1) (b - 1) (by omega) (by omega) (by omega)]; omega
  · refine ⟨b, hbn, hlt, fun i hi hin => h4 i (by omega) hin, Or.inr ⟨h1, hw, fun h => h4 b (by omega) h, ?_, ?_⟩⟩
    · exact cnt_gap rs hs x b (fun i a _ => hlt i a) (fun i a c => by have := h4 i a c; omega)
    · exact cnt_gap rs hs (x + 1) b (fun i a _ => by have := hlt i a; omega) (fun i a c => by have := h4 i a c; omega)

end RunQ

set_option maxHeartbeats 400000 in
theorem runCardInRange_spec (rs : List (Nat × Nat)) (hs : RunSep rs) (hb : ∀ p ∈ rs, p.1 + p.2 ≤ 65535)
    (lo hi : Nat) (hlo : lo ≤ 65536) (hhi : hi ≤ 65536) :
    IsCardInRange (inRuns rs) lo hi (runCardInRange rs lo hi) := by
  unfold IsCardInRange
  by_cases h0 : lo ≥ hi ∨ rs.length = 0
  · have : runCardInRange rs lo hi = 0 := by simp only [runCardInRange, h0, if_true]
    rw [this]
    rcases h0 with h | h
    · have := cnt_mono (inRuns rs) h; omega
    · have : rs = [] := List.length_eq_zero_iff.mp h
      subst this
      rw [cnt_eq_cr [] List.Pairwise.nil, cnt_eq_cr [] List.Pairwise.nil]; rfl
  · have hlt : lo < hi := by omega
    have hn : 0 < rs.length := by omega
    rcases hsr1 : runSearch rs lo with ⟨w1, pr1⟩
    rcases hsr2 : runSearch rs (hi - 1) with ⟨w2, pr2⟩
    obtain ⟨k1, hk1n, ha1, hb1, hc1⟩ := search_summary rs hs hb lo w1 pr1 hsr1
    obtain ⟨k2, hk2n, ha2, hb2, hc2⟩ := search_summary rs hs hb (hi - 1) w2 pr2 hsr2
    rw [show hi - 1 + 1 = hi by omega] at hc2
    simp only [runCardInRange, h0, if_false, hsr1, hsr2]
    rcases hc1 with ⟨hp1, hw1, hk1, hs1, he1, hcl, -⟩ | ⟨hp1, hw1, hs1, hcl, -⟩ <;>
    rcases hc2 with ⟨hp2, hw2, hk2, hs2, he2, -, hch⟩ | ⟨hp2, hw2, hs2, -, hch⟩
    · subst hp1 hp2 hw1 hw2
      simp only [Bool.not_true, Bool.false_eq_true, if_false, Int.toNat_natCast]
      have q1 : k2 < k1 → rEnd rs k2 < lo := ha1 k2
      have q3 := pc_succ rs hk1
      have q5 : k1 + 1 ≤ k2 → pc rs (k1 + 1) ≤ pc rs k2 := fun h => pc_mono rs h
      have q6 : k1 < k2 → rEnd rs k1 < hi - 1 := ha2 k1
      rw [rLast_eq hb hk1, runsCard_take_drop, hcl, hch]
      simp only [true_and, if_true]
      by_cases hk : k1 = k2
      · subst hk
        repeat' split
        all_goals omega
      · repeat' split
        all_goals omega
    · subst hp1 hp2 hw1 hw2
      cases k2 with
      | zero =>
        exfalso
        have q1 := ha1 0
        have q2 := rStart_le_rEnd rs 0
        have q3 := hs2 (by omega)
        rcases Nat.eq_zero_or_pos k1 with h | h
        · subst h; omega
        · have := q1 h; omega
      | succ l =>
        simp only [Bool.not_true, Bool.false_eq_true, if_false, Int.toNat_natCast,
          Int.natCast_add, Int.cast_ofNat_Int, Int.add_sub_cancel]
        have hl : l < rs.length := by omega
        have q1 : l + 1 < k1 → rEnd rs (l + 1) < lo := ha1 (l + 1)
        have q2 := rStart_le_rEnd rs (l + 1)
        have q3 := pc_succ rs hk1
        have q4 := pc_succ rs hl
        have q5 : k1 + 1 ≤ l → pc rs (k1 + 1) ≤ pc rs l := fun h => pc_mono rs h
        have q6 : k1 < l + 1 → rEnd rs k1 < hi - 1 := ha2 k1
        have q7 := ha2 l (by omega)
        have q8 := rStart_le_rEnd rs l
        have q9 := rLen_eq rs l
        have q10 := rLen_eq rs k1
        rw [rLast_eq hb hk1, runsCard_take_drop, hcl, hch]
        simp only [true_and, if_true]
        by_cases hk' : k1 = l + 1
        · subst hk'; exfalso; omega
        by_cases hk : k1 = l
        · subst hk
          repeat' split
          all_goals omega
        · repeat' split
          all_goals omega
    · subst hp1 hp2 hw1 hw2
      have hk1 : k1 < rs.length := by
        apply Classical.byContradiction
        intro hc
        have := ha1 k2 (by omega)
        omega
      have hs1 := hs1 hk1
      simp only [Bool.not_false, Bool.false_eq_true, if_true, Int.toNat_natCast, Int.sub_add_cancel]
      have q1 : k2 < k1 → rEnd rs k2 < lo := ha1 k2
      have q3 := pc_succ rs hk1
      have q5 : k1 + 1 ≤ k2 → pc rs (k1 + 1) ≤ pc rs k2 := fun h => pc_mono rs h
      have q6 : k1 < k2 → rEnd rs k1 < hi - 1 := ha2 k1
      have q8 := rStart_le_rEnd rs k1
      have q10 := rLen_eq rs k1
      rw [rLast_eq hb hk1, runsCard_take_drop, hcl, hch]
      simp only [false_and, if_false]
      by_cases hk : k1 = k2
      · subst hk
        repeat' split
        all_goals omega
      · repeat' split
        all_goals omega
    · subst hp1 hp2 hw1 hw2
      rw [hcl, hch]
      have q0 : k2 ≤ k1 → pc rs k2 ≤ pc rs k1 := fun h => pc_mono rs h
      cases k2 with
      | zero =>
        have := q0 (by omega)
        simp only [Bool.not_false, if_true, Int.sub_add_cancel]
        repeat' split
        all_goals omega
      | succ l =>
        simp only [Bool.not_false, Bool.false_eq_true, if_false, if_true, Int.toNat_natCast,
          Int.natCast_add, Int.cast_ofNat_Int, Int.add_sub_cancel, Int.sub_add_cancel]
        have hl : l < rs.length := by omega
        by_cases hk1 : k1 < rs.length
        · have hs1 := hs1 hk1
          have q1 : l + 1 < k1 → rEnd rs (l + 1) < lo := ha1 (l + 1)
          have q2 := rStart_le_rEnd rs (l + 1)
          have q3 := pc_succ rs hk1
          have q4 := pc_succ rs hl
          have q5 : k1 + 1 ≤ l → pc rs (k1 + 1) ≤ pc rs l := fun h => pc_mono rs h
          have q6 : k1 < l + 1 → rEnd rs k1 < hi - 1 := ha2 k1
          have q7 := ha2 l (by omega)
          have q8 := rStart_le_rEnd rs l
          have q9 := rLen_eq rs l
          have q10 := rLen_eq rs k1
          rw [rLast_eq hb hk1, runsCard_take_drop]
          simp only [false_and, if_false]
          by_cases hk : k1 = l
          · subst hk
            repeat' split
            all_goals omega
          · repeat' split
            all_goals omega
        · have := q0 (by omega)
          repeat' split
          all_goals omega

end RModel.Impl
