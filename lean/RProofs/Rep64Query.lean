import RProofs.Rep64Mut
import RProofs.Iter2R64
import RModel.Impl.Rep64Query
/-!
# The read-only drivers of `roaring64` compute the set-level queries

`RModel/Impl/Rep64Query.lean` models `Contains`, `GetCardinality`, `IsEmpty`, `Minimum`, `Maximum`, `Rank`, `Select`, `Equals`,
`AndCardinality`, `OrCardinality`, `Intersects` of `roaring64.Bitmap` as the Go code runs them (binary search over the bucket keys,
loops accumulating bucket cardinalities, first / last bucket, `advanceUntil` walks), delegating inside a bucket to the 32-bit
drivers.  This file proves: for every well-formed `r` (and `s`) — `Rep64.wf` — the model returns the verified `BSet` query on the
abstraction `r.toBSet` over `2^64`; the right-hand sides are literally the expressions the L1 commands `card64 empty64 has64 min64
max64 rank64 sel64 andcard64 orcard64 isect64 eq64` compare Go with.  `Minimum` / `Maximum` return `none` (the Go panic) exactly
on the empty bitmap, `Select` returns `none` (the error) exactly for an index `≥` cardinality, and the walks never reach an
`undef` branch.

| Go (`roaring64`)           | theorem                                   | file            |
|----------------------------|-------------------------------------------|-----------------|
| `Add` / `AddInt`           | `Rep64.toBSet_add`, `Rep64.wf_add`, `Rep64.toBSet_addInt` | Rep64Mut |
| `CheckedAdd`               | `Rep64.checkedAdd_fst` (mutates like `Add`), `Rep64.checkedAdd_snd` (= "was absent") | Rep64Mut |
| `Remove` / `CheckedRemove` | `Rep64.toBSet_remove`, `Rep64.wf_remove`, `Rep64.checkedRemove_fst`, `Rep64.checkedRemove_snd` (= "was present") | Rep64Mut |
| `AddMany`                  | `Rep64.toBSet_addMany` (= fold of `BSet.add`), `Rep64.wf_addMany` | Rep64Mut |
| `Clear`                    | `Rep64.toBSet_cleared`, `Rep64.wf_cleared`, `Rep64.cow_cleared` | Rep64Mut |
| frame / sharing            | `alterAt_frame`, `alterAt_find`, `Rep64.add_frame`, `Rep64.add_bucket`, `Rep64.add_flagged`, `Rep64.remove_frame`, `Rep64.remove_bucket` | Rep64Mut |
| key search                 | `getIndex_post`, `split_of_wf`, `alterAt_eq`, `getContainer64_eq_find` | Rep64Mut, here |
| `GetCardinality`, `IsEmpty`| `Rep64.card_spec`, `Rep64.isEmpty_spec`   | here            |
| `Contains` / `ContainsInt` | `Rep64.contains_spec`, `Rep64.containsInt_spec` | here      |
| `Minimum` / `Maximum`      | `Rep64.minimum_spec`, `Rep64.maximum_spec` (`none` = the Go panic, exactly on the empty bitmap) | here |
| `Rank`                     | `Rep64.rank_spec`                         | here            |
| `Select`                   | `Rep64.select_spec` (`none` = the error result, exactly when `i ≥` cardinality) | here |
| `Equals`                   | `Rep64.equals_spec : x.equals y = (x.toBSet == y.toBSet)` | Rep64QueryPair |
| `AndCardinality` / `OrCardinality` / `Intersects` | `Rep64.andCardinality_spec`, `Rep64.orCardinality_spec`, `Rep64.intersects_spec` | Rep64QueryPair |
| `FastOr` / `FastAnd`       | `Rep64.toBSet_fastOr`, `Rep64.wf_fastOr`, `Rep64.toBSet_fastAnd`, `Rep64.wf_fastAnd`, `…_exact` | Rep64Agg |

Core Lean only; no `native_decide`, `bv_decide`, axioms, `sorry`.
-/
namespace RModel.Impl
open RModel RModel.BSet RModel.Driver ContOps ContQuery RepOps RepQuery R64Ops R64Q

namespace R64Q

/-! ### the membership predicate of a well-formed representation, counted bucket by bucket -/

theorem rep64_facts (r : Rep64) (h : r.wf = true) :
    BucketsWf r.buckets ∧ SInc r.toBSet ∧ Even r.toBSet ∧ (∀ x, mem r.toBSet x = bucketsHas r.buckets x) := by
  have hw := (bucketsWf_iff r).mp h
  exact ⟨hw, sinc_rep64 r, It.even_rep64 r h, mem_rep64_buckets r hw.bounded⟩

theorem bucket_off {k u : Nat} (q : Nat → Bool) (h : u / 4294967296 ≠ k) :
    (k == u / 4294967296 && q (u % 4294967296)) = false := by
  have : (k == u / 4294967296) = false := by rw [nat_beq_decide]; apply decide_eq_false; omega
  simp [this]

theorem bucket_on (k y : Nat) (q : Nat → Bool) (hy : y < 4294967296) :
    (k == (k * 4294967296 + y) / 4294967296 && q ((k * 4294967296 + y) % 4294967296)) = q y := by
  have e1 : (k * 4294967296 + y) / 4294967296 = k := by omega
  have e2 : (k * 4294967296 + y) % 4294967296 = y := by omega
  simp [e1, e2]

/-- the members of one bucket below `n` -/
theorem cnt_bucket (k : Nat) (q : Nat → Bool) (n : Nat) :
    cnt (fun x => k == x / 4294967296 && q (x % 4294967296)) n = cnt q (min (n - k * 4294967296) 4294967296) := by
  have hz : ∀ m, m ≤ k * 4294967296 → cnt (fun x => k == x / 4294967296 && q (x % 4294967296)) m = 0 := by
    intro m hm
    apply cnt_zero_of_none
    intro u hu
    exact bucket_off q (by omega)
  by_cases h1 : n ≤ k * 4294967296
  · rw [show min (n - k * 4294967296) 4294967296 = 0 by omega, cnt_zero, hz n h1]
  · by_cases h2 : n ≤ (k + 1) * 4294967296
    · have hn : n = k * 4294967296 + (n - k * 4294967296) := by omega
      rw [show min (n - k * 4294967296) 4294967296 = n - k * 4294967296 by omega]
      have h3 : n - k * 4294967296 ≤ 4294967296 := by omega
      generalize n - k * 4294967296 = m at hn h3
      subst hn
      rw [cnt_add, hz _ (Nat.le_refl _), Nat.zero_add]
      apply cnt_congr
      intro y hy
      exact bucket_on k y q (by omega)
    · rw [show min (n - k * 4294967296) 4294967296 = 4294967296 by omega]
      have hfull : cnt (fun x => k == x / 4294967296 && q (x % 4294967296)) ((k + 1) * 4294967296) = cnt q 4294967296 := by
        rw [show (k + 1) * 4294967296 = k * 4294967296 + 4294967296 by omega, cnt_add, hz _ (Nat.le_refl _), Nat.zero_add]
        apply cnt_congr
        intro y hy
        exact bucket_on k y q hy
      rw [← hfull]
      apply cnt_eq_of_none _ (by omega)
      intro u hu _
      exact bucket_off q (by omega)

/-- the sum that `cnt (bucketsHas l) n` is -/
def bucketsCnt : List Bucket → Nat → Nat
  | [], _ => 0
  | b :: t, n => cnt (mem b.bm.toBSet) (min (n - b.high * 4294967296) 4294967296) + bucketsCnt t n

theorem cnt_bucketsHas {l : List Bucket} (h : BucketsWf l) (n : Nat) : cnt (bucketsHas l) n = bucketsCnt l n := by
  induction l with
  | nil => exact cnt_zero_of_none _ _ (fun _ _ => rfl)
  | cons s t ih =>
    have e : bucketsHas (s :: t) = fun x => (s.high == x / 4294967296 && mem s.bm.toBSet (x % 4294967296)) || bucketsHas t x :=
      funext fun x => bucketsHas_cons s t x
    rw [e, cnt_or_disjoint, cnt_bucket, ih h.tail, bucketsCnt]
    intro x ⟨h1, h2⟩
    simp only [Bool.and_eq_true, beq_iff_eq] at h1
    have := bucketsHas_gt h.head_lt (x := x) (by omega)
    rw [this] at h2; cases h2

/-- the members of a well-formed 32-bit bitmap below `m`, as the 32-bit drivers count them -/
theorem cnt_mem32 {c : Rep} (hc : c.wf = true) (m : Nat) : cnt (mem c.toBSet) m = rankLt c.toBSet m :=
  (rankLt_eq_cnt (sinc_rep c) (It.even_rep c hc) (fun _ => rfl) m).symm

theorem card32 {c : Rep} (hc : c.wf = true) : c.getCardinality = (cnt (mem c.toBSet) 4294967296 : Int) := by
  rw [Rep.card_spec c hc, card_eq_rankLt 4294967296 _ (It.canon_rep c hc) 4294967296 (Nat.le_refl _), cnt_mem32 hc]

theorem bucketsCnt_zero {l : List Bucket} {n : Nat} (h : ∀ s ∈ l, n ≤ s.high * 4294967296) : bucketsCnt l n = 0 := by
  induction l with
  | nil => rfl
  | cons s t ih =>
    have := h s (by simp)
    rw [bucketsCnt, ih (fun s' hs' => h s' (by simp [hs'])), show min (n - s.high * 4294967296) 4294967296 = 0 by omega,
      cnt_zero]

theorem bucketsCnt_full {l : List Bucket} (h : BucketsWf l) {n : Nat} (hn : 18446744073709551616 ≤ n) :
    (bucketsCnt l n : Int) = cardSum64 l := by
  induction l with
  | nil => rfl
  | cons s t ih =>
    have := h.head.1
    rw [bucketsCnt, cardSum64, Int.natCast_add, ih h.tail, card32 h.head.2.1,
      show min (n - s.high * 4294967296) 4294967296 = 4294967296 by omega]

end R64Q

/-! ### `GetCardinality`, `IsEmpty` -/

theorem Rep64.card_spec (r : Rep64) (h : r.wf = true) : r.getCardinality = (BSet.card r.toBSet : Int) := by
  obtain ⟨hw, hs, he, hm⟩ := rep64_facts r h
  rw [card_eq_rankLt 18446744073709551616 _ (It.canon_rep64 r h) 18446744073709551616 (Nat.le_refl _),
    rankLt_eq_cnt hs he hm, cnt_bucketsHas hw, bucketsCnt_full hw (Nat.le_refl _)]
  rfl

namespace R64Q

theorem exists_bucketsHas_of_ne {l : List Bucket} (h : BucketsWf l) (hne : l ≠ []) : ∃ x, bucketsHas l x = true := by
  cases l with
  | nil => exact absurd rfl hne
  | cons s t =>
    obtain ⟨y, hy⟩ := exists_mem_of_wf h.head.2.1 h.head.2.2
    have hlt := bounded32_of_wf h.head.2.1 y hy
    refine ⟨s.high * 4294967296 + y, ?_⟩
    rw [bucketsHas_cons, bucket_on s.high y (mem s.bm.toBSet) hlt, hy]; rfl

end R64Q

theorem Rep64.isEmpty_spec (r : Rep64) (h : r.wf = true) : r.isEmptyQ = BSet.isEmpty r.toBSet := by
  obtain ⟨hw, hs, he, hm⟩ := rep64_facts r h
  have hiff := BSet.isEmpty_iff r.toBSet hs he
  by_cases hl : r.buckets = []
  · have : BSet.isEmpty r.toBSet = true := by
      rw [hiff]; intro x; rw [hm, hl]; rfl
    rw [this]; simp [Rep64.isEmptyQ, hl]
  · obtain ⟨x, hx⟩ := exists_bucketsHas_of_ne hw hl
    have : BSet.isEmpty r.toBSet = false := by
      cases hc : BSet.isEmpty r.toBSet
      · rfl
      · have := hiff.mp hc x; rw [hm, hx] at this; cases this
    rw [this]
    simp only [Rep64.isEmptyQ, beq_eq_false_iff_ne, ne_eq, List.length_eq_zero_iff]
    exact hl

example : exA.getCardinality = (BSet.card exA.toBSet : Int) := Rep64.card_spec exA wf_exA
example : exA.isEmptyQ = BSet.isEmpty exA.toBSet := Rep64.isEmpty_spec exA wf_exA
example : exA.getCardinality = 8 ∧ exA.isEmptyQ = false := by decide +kernel

/-! ### `Contains` -/

namespace R64Q

/-- `getContainer` (binary search, no last-key shortcut) reaches the bucket stored under the key -/
theorem getContainer64_eq_find {l : List Bucket} (hw : BucketsWf l) (k : Nat) :
    getContainer64 l k = (l.find? (·.high == k)).map (·.bm) := by
  have hp := binarySearch_spec (keys64_sorted hw) k
  have hs := split_of_post hw hp
  have hf := hs.find _ hs.key
  rw [← hs.eq] at hf
  rw [hf]
  unfold getContainer64 midG
  simp only []
  by_cases hg : binarySearch (keys64 l) k < 0
  · rw [if_pos hg, if_neg (by omega)]; rfl
  · rw [if_neg hg, if_pos (by omega)]; rfl

end R64Q

theorem Rep64.contains_spec (r : Rep64) (h : r.wf = true) (x : Nat) : r.contains x = BSet.mem r.toBSet x := by
  have hw := (bucketsWf_iff r).mp h
  rw [mem_rep64 r h, Rep64.contains, getContainer64_eq_find hw, Rep64.has, Rep64.find]
  cases hf : r.buckets.find? (·.high == x / 4294967296) with
  | none => rfl
  | some b =>
    have hmem := List.mem_of_find?_eq_some hf
    simp only [Option.map_some]
    rw [Rep.contains_spec _ (hw.ok b hmem).2.1, mem_rep _ (hw.ok b hmem).2.1]

/-- `ContainsInt(v)` asks for the two's complement of `v` -/
theorem Rep64.containsInt_spec (r : Rep64) (h : r.wf = true) (v : Int) :
    r.containsInt v = BSet.mem r.toBSet (v % 18446744073709551616).toNat :=
  Rep64.contains_spec r h _

example : exA.contains 131086 = mem exA.toBSet 131086 := Rep64.contains_spec exA wf_exA _
example : exA.contains 131086 = true ∧ exA.contains 131087 = false ∧ exA.contains 4294967297 = false ∧
    exA.containsInt (-1) = false := by decide +kernel

/-! ### `Rank` -/

namespace R64Q

theorem rankLoop64_spec {l : List Bucket} (hw : BucketsWf l) (hb lb : Nat) (hlb : lb < 4294967296) :
    rankLoop64 hb lb l = (bucketsCnt l (hb * 4294967296 + lb + 1) : Int) := by
  induction l with
  | nil => rfl
  | cons s t ih =>
    have hh := hw.head
    have hlt := hw.head_lt
    rw [rankLoop64]
    by_cases h1 : s.high > hb
    · rw [if_pos h1, bucketsCnt_zero]
      · rfl
      · intro s' hs'
        rcases List.mem_cons.mp hs' with rfl | h'
        · omega
        · have := hlt s' h'; omega
    · rw [if_neg h1]
      by_cases h2 : s.high < hb
      · rw [if_pos h2, ih hw.tail, bucketsCnt, Int.natCast_add, card32 hh.2.1,
          show min (hb * 4294967296 + lb + 1 - s.high * 4294967296) 4294967296 = 4294967296 by omega]
      · rw [if_neg h2]
        have hk : s.high = hb := by omega
        rw [bucketsCnt, bucketsCnt_zero (l := t),
          show min (hb * 4294967296 + lb + 1 - s.high * 4294967296) 4294967296 = lb + 1 by omega,
          Rep.rank_spec _ hh.2.1, cnt_mem32 hh.2.1]
        · simp
        · intro s' hs'
          have := hlt s' hs'; omega

end R64Q

/-- `Rank(x)` = number of members `≤ x` -/
theorem Rep64.rank_spec (r : Rep64) (h : r.wf = true) (x : Nat) : r.rank x = (BSet.rankLt r.toBSet (x + 1) : Int) := by
  obtain ⟨hw, hs, he, hm⟩ := rep64_facts r h
  rw [rankLt_eq_cnt hs he hm, cnt_bucketsHas hw, Rep64.rank, rankLoop64_spec hw _ _ (Nat.mod_lt _ (by omega))]
  congr 2
  omega

-- `Rank` across the empty buckets 1, 2
example : exA.rank 12884901888 = (BSet.rankLt exA.toBSet (12884901888 + 1) : Int) := Rep64.rank_spec exA wf_exA _
example : exA.rank 0 = 0 ∧ exA.rank 131084 = 5 ∧ exA.rank 12884901888 = 7 ∧ exA.rank 17179869183 = 8 ∧
    exA.rank 18446744073709551615 = 8 := by decide +kernel

/-! ### `Minimum`, `Maximum` -/

namespace R64Q

theorem combine64_nat (k v : Nat) : combine64 k (v : Int) = ((k * 4294967296 + v : Nat) : Int) := by
  simp [combine64]

/-- membership in the bucket of the key, for a list whose other keys are all different -/
theorem bucketsHas_at {l : List Bucket} {b : Bucket} (hb : b ∈ l) {y : Nat} (hy : y < 4294967296)
    (h : mem b.bm.toBSet y = true) : bucketsHas l (b.high * 4294967296 + y) = true := by
  unfold bucketsHas
  rw [List.any_eq_true]
  exact ⟨b, hb, by rw [bucket_on b.high y (mem b.bm.toBSet) hy]; exact h⟩

end R64Q

theorem Rep64.minimum_spec (r : Rep64) (h : r.wf = true) :
    r.minimum = (BSet.minimum r.toBSet).map (fun v => (v : Int)) := by
  obtain ⟨hw, hs, he, hm⟩ := rep64_facts r h
  cases hl : r.buckets with
  | nil =>
    have : BSet.minimum r.toBSet = none := by
      rw [minimum_none r.toBSet hs he]; intro x; rw [hm, hl]; rfl
    rw [this]; simp [Rep64.minimum, hl]
  | cons s t =>
    rw [hl] at hw
    have hh := hw.head
    obtain ⟨y, hy⟩ := exists_mem_of_wf hh.2.1 hh.2.2
    -- the 32-bit minimum of the first bucket
    cases hmin : BSet.minimum s.bm.toBSet with
    | none =>
      have := (minimum_none _ (sinc_rep s.bm) (It.even_rep s.bm hh.2.1)).mp hmin y
      rw [hy] at this; cases this
    | some v =>
      obtain ⟨hv1, hv2⟩ := (minimum_some _ (sinc_rep s.bm) (It.even_rep s.bm hh.2.1) v).mp hmin
      have hvlt := bounded32_of_wf hh.2.1 v hv1
      have hres : BSet.minimum r.toBSet = some (s.high * 4294967296 + v) := by
        rw [minimum_some r.toBSet hs he]
        refine ⟨by rw [hm, hl]; exact bucketsHas_at (by simp) hvlt hv1, ?_⟩
        intro u hu
        rw [hm, hl, bucketsHas_cons]
        by_cases hk : s.high = u / 4294967296
        · rw [bucketsHas_gt hw.head_lt (by omega), hv2 _ (by omega)]; simp
        · rw [beq_false_of_ne' hk, bucketsHas_gt (k := u / 4294967296)]
          · rfl
          · intro s' hs'; have := hw.head_lt s' hs'; omega
          · exact Nat.le_refl _
      rw [hres]
      simp only [Rep64.minimum, hl, List.length_cons, Nat.add_one_ne_zero, if_false, bAt, List.getD_cons_zero]
      rw [Rep.minimum_spec _ hh.2.1, hmin]
      show Option.map _ (some (v : Int)) = _
      rw [Option.map_some, combine64_nat]; rfl

theorem Rep64.maximum_spec (r : Rep64) (h : r.wf = true) :
    r.maximum = (BSet.maximum r.toBSet).map (fun v => (v : Int)) := by
  obtain ⟨hw, hs, he, hm⟩ := rep64_facts r h
  by_cases hl : r.buckets.length = 0
  · have hnil : r.buckets = [] := List.length_eq_zero_iff.mp hl
    have : BSet.maximum r.toBSet = none := by
      rw [maximum_none r.toBSet hs he]; intro x; rw [hm, hnil]; rfl
    rw [this]; simp [Rep64.maximum, hl]
  · have hlast : r.buckets.length - 1 < r.buckets.length := by omega
    have hmemb := bAt_mem hlast
    have hh := hw.ok _ hmemb
    generalize hbdef : bAt r.buckets (r.buckets.length - 1) = s at hmemb hh
    obtain ⟨y, hy⟩ := exists_mem_of_wf hh.2.1 hh.2.2
    cases hmax : BSet.maximum s.bm.toBSet with
    | none =>
      have := (maximum_none _ (sinc_rep s.bm) (It.even_rep s.bm hh.2.1)).mp hmax y
      rw [hy] at this; cases this
    | some v =>
      obtain ⟨hv1, hv2⟩ := (maximum_some _ (sinc_rep s.bm) (It.even_rep s.bm hh.2.1) v).mp hmax
      have hvlt := bounded32_of_wf hh.2.1 v hv1
      have hres : BSet.maximum r.toBSet = some (s.high * 4294967296 + v) := by
        rw [maximum_some r.toBSet hs he]
        refine ⟨by rw [hm]; exact bucketsHas_at hmemb hvlt hv1, ?_⟩
        intro u hu
        rw [hm]
        have hsp := split_at hlast
        rw [hbdef, show r.buckets.length - 1 + 1 = r.buckets.length by omega, List.drop_length] at hsp
        rw [hsp, bucketsHas_append, bucketsHas_cons, bucketsHas_nil, Bool.or_false]
        have hpre := mem_take_lt hw hlast
        rw [hbdef] at hpre
        by_cases hk : s.high = u / 4294967296
        · rw [bucketsHas_lt hpre (by omega), beq_true_of_eq' hk, hv2 _ (by omega)]; rfl
        · rw [beq_false_of_ne' hk, Bool.false_and, Bool.or_false]
          apply bucketsHas_lt hpre
          omega
      rw [hres]
      simp only [Rep64.maximum, hl, if_false, hbdef]
      rw [Rep.maximum_spec _ hh.2.1, hmax]
      show Option.map _ (some (v : Int)) = _
      rw [Option.map_some, combine64_nat]; rfl

example : exA.minimum = (BSet.minimum exA.toBSet).map (fun v => (v : Int)) := Rep64.minimum_spec exA wf_exA
example : exA.maximum = (BSet.maximum exA.toBSet).map (fun v => (v : Int)) := Rep64.maximum_spec exA wf_exA
example : exA.minimum = some 1 ∧ exA.maximum = some 17179869183 := by decide +kernel
-- the empty bitmap: the Go code panics
example : (Rep64.cleared).minimum = none ∧ (Rep64.cleared).maximum = none := by decide +kernel

/-! ### `Select` -/

namespace R64Q

theorem bucket_of_has {l : List Bucket} {v : Nat} (h : bucketsHas l v = true) : ∃ b ∈ l, b.high = v / 4294967296 := by
  unfold bucketsHas at h
  obtain ⟨b, hb, hk⟩ := List.any_eq_true.mp h
  simp only [Bool.and_eq_true, beq_iff_eq] at hk
  exact ⟨b, hb, hk.1⟩

theorem min_full {v sh bh : Nat} (h1 : sh < bh) (hk : bh = v / 4294967296) :
    min (v - sh * 4294967296) 4294967296 = 4294967296 := by omega

theorem min_part {sh w : Nat} (hw : w < 4294967296) : min (sh * 4294967296 + w - sh * 4294967296) 4294967296 = w := by omega

theorem selectLoop64_spec {l : List Bucket} (hw : BucketsWf l) (rem : Nat) :
    (∀ r, selectLoop64 l rem = some r → ∃ v : Nat, r = (v : Int) ∧ bucketsHas l v = true ∧ bucketsCnt l v = rem) ∧
    (selectLoop64 l rem = none → cardSum64 l ≤ (rem : Int)) := by
  induction l generalizing rem with
  | nil =>
    refine ⟨fun r hr => by simp [selectLoop64] at hr, fun _ => ?_⟩
    simp [cardSum64]
  | cons s t ih =>
    have hh := hw.head
    have hc := card32 hh.2.1
    have hcle := cnt_le (mem s.bm.toBSet) 4294967296
    generalize hcdef : cnt (mem s.bm.toBSet) 4294967296 = c at hc hcle
    rw [selectLoop64]
    by_cases hge : (rem : Int) ≥ s.bm.getCardinality
    · rw [if_pos hge]
      have e : s.bm.getCardinality.toNat = c := by rw [hc]; exact Int.toNat_natCast c
      rw [e]
      obtain ⟨i1, i2⟩ := ih hw.tail (rem - c)
      refine ⟨fun r hr => ?_, fun hn => ?_⟩
      · obtain ⟨v, hv, hin, hcn⟩ := i1 r hr
        refine ⟨v, hv, by rw [bucketsHas_cons, hin, Bool.or_true], ?_⟩
        obtain ⟨b, hb, hk⟩ := bucket_of_has hin
        have := hw.head_lt b hb
        rw [bucketsCnt, hcn, min_full this hk, hcdef]
        rw [hc] at hge
        omega
      · have := i2 hn
        rw [cardSum64, hc]
        rw [hc] at hge
        omega
    · rw [if_neg hge]
      rw [hc] at hge
      have hrem : rem % 4294967296 = rem := Nat.mod_eq_of_lt (by omega)
      rw [hrem, Rep.select_spec _ hh.2.1]
      cases hsel : BSet.select s.bm.toBSet rem with
      | none =>
        have := (select_none _ (sinc_rep s.bm) (It.even_rep s.bm hh.2.1) rem).mp hsel
        have hcs := Rep.card_spec _ hh.2.1
        rw [hc] at hcs
        omega
      | some w =>
        obtain ⟨hw1, hw2⟩ := (select_spec _ (sinc_rep s.bm) (It.even_rep s.bm hh.2.1) rem w).mp hsel
        have hwlt := bounded32_of_wf hh.2.1 w hw1
        refine ⟨fun r hr => ?_, fun hn => by simp at hn⟩
        have hr : combine64 s.high (w : Int) = r := by simpa using hr
        refine ⟨s.high * 4294967296 + w, by rw [← hr, combine64_nat], bucketsHas_at (by simp) hwlt hw1, ?_⟩
        rw [bucketsCnt, bucketsCnt_zero (l := t),
          min_part hwlt, cnt_mem32 hh.2.1, hw2]
        · rfl
        · intro s' hs'
          have := hw.head_lt s' hs'; omega

end R64Q

/-- `Select(i)`: the `i`-th member (from 0), or the error result exactly when `i ≥` cardinality -/
theorem Rep64.select_spec (r : Rep64) (h : r.wf = true) (i : Nat) :
    r.select i = (BSet.select r.toBSet i).map (fun v => (v : Int)) := by
  obtain ⟨hw, hs, he, hm⟩ := rep64_facts r h
  obtain ⟨h1, h2⟩ := selectLoop64_spec hw i
  have hcard := Rep64.card_spec r h
  unfold Rep64.select
  by_cases hle : r.getCardinality ≤ (i : Int)
  · rw [if_pos hle]
    have : BSet.select r.toBSet i = none := by
      rw [select_none r.toBSet hs he]; rw [hcard] at hle; omega
    rw [this]; rfl
  · rw [if_neg hle]
    cases hsel : selectLoop64 r.buckets i with
    | some m =>
      obtain ⟨v, hv, hin, hc⟩ := h1 m hsel
      have : IsSelect (bucketsHas r.buckets) i m := ⟨v, hv, hin, by rw [cnt_bucketsHas hw]; exact hc⟩
      obtain ⟨v', hv', hsome⟩ := glue_select hs he hm this
      rw [hsome, hv']; rfl
    | none =>
      have := h2 hsel
      rw [Rep64.getCardinality] at hle
      omega

-- `Select` at cardinality − 1 and at cardinality
example : exA.select 7 = (BSet.select exA.toBSet 7).map (fun v => (v : Int)) := Rep64.select_spec exA wf_exA 7
example : exA.select 0 = some 1 ∧ exA.select 6 = some 131086 ∧ exA.select 7 = some 17179869183 ∧ exA.select 8 = none := by
  decide +kernel

end RModel.Impl
