import RProofs.ContMutLemmas
import RProofs.ContEfficient
/-!
The L2 mutation kernels of `RModel/Impl/ContMut.lean` (the representation-exact model of the Go kernels
`iaddReturnMinimized / iremoveReturnMinimized / iadd / iremove / iaddRange / iremoveRange / not / inot` of the three
container kinds, tied to the Go code by the `kern` correspondence check, verdict `l2Mut`) compute the set operations
`BSet.add / remove / addRange / removeRange / flipRange` and return well-formed (or empty) containers, for a
well-formed receiver and in-domain arguments (`x < 65536`, `hi ≤ 65536`).
-/
set_option linter.unusedSimpArgs false
namespace RModel.Impl
open RModel RModel.BSet RModel.Driver ContOps ContMut

/-! ### single values: membership -/

theorem sorted_single (x : Nat) : RunSorted [(x, 0)] := by simp [RunSorted]
theorem bound_single (x : Nat) (hx : x < 65536) : RunBound 65535 [(x, 0)] := by
  intro p hp; simp only [List.mem_singleton] at hp; subst hp; simp only; omega
theorem sep_single (x : Nat) : RunSep [(x, 0)] := by simp [RunSep]
theorem inRuns_single (x y : Nat) : inRuns [(x, 0)] y = decide (y = x) := by
  simp only [inRuns, List.any_cons, List.any_nil, Bool.or_false]
  by_cases h : y = x
  · subst h; simp
  · simp [h]; omega

theorem inRuns_runAdd (rs : List (Nat × Nat)) (hs : RunSep rs) (x y : Nat) :
    inRuns (runAdd rs x) y = (inRuns rs y || decide (y = x)) := by
  rw [runAdd, inRuns_runUnion _ _ (sorted_of_sep hs) (sorted_single x), inRuns_single]

theorem inRuns_runRemove (rs : List (Nat × Nat)) (hs : RunSep rs) (x y : Nat) :
    inRuns (runRemove rs x) y = (inRuns rs y && !decide (y = x)) := by
  rw [runRemove, inRuns_runDiff _ _ hs (sep_single x), inRuns_single]

theorem bound_runAdd (rs : List (Nat × Nat)) (hb : RunBound 65535 rs) (x : Nat) (hx : x < 65536) :
    RunBound 65535 (runAdd rs x) := bound_runUnion _ _ _ hb (bound_single x hx)

theorem bound_runRemove (rs : List (Nat × Nat)) (hb : RunBound 65535 rs) (x : Nat) :
    RunBound 65535 (runRemove rs x) := bound_runDiff _ _ _ hb

theorem has_bmpAdd (c : Int) (ws : List (BitVec 64)) (hl : ws.length = 1024) (x : Nat) (hx : x < 65536) (y : Nat) :
    (bmpAdd c ws x).1.has y = (testBit ws y || decide (y = x)) := by
  simp only [bmpAdd, has_bmp]
  exact testBit_setBit _ _ _ (by omega)

/-- `iaddReturnMinimized(x)`: the members afterwards -/
theorem has_iaddRM (a : Cont) (ha : a.wf = true) (x : Nat) (hx : x < 65536) (y : Nat) :
    (a.iaddRM x).has y = (a.has y || decide (y = x)) := by
  cases a with
  | arr xs =>
    have hxs := wf_arr ha
    simp only [Cont.iaddRM]
    split
    · rename_i hc
      simp only [has_arr]
      by_cases hyx : y = x
      · subst hyx; rw [hc]; simp
      · simp [hyx]
    · split
      · rw [has_bmpAdd _ _ (length_wordsOfArr xs) x hx, testBit_wordsOfArr _ _ hxs.bound, has_arr]
      · simp only [has_arr, contains_insertVal]
  | bmp c ws =>
    obtain ⟨hl, hc, hgt⟩ := wf_bmp ha
    have hl' : (setBit ws x).length = 1024 := by rw [length_setBit]; exact hl
    have ht := testBit_setBit ws x y (by omega)
    have hcard := wordsCard_setBit ws x hl hx
    simp only [Cont.iaddRM, bmpAddRM]
    generalize hc' : (c + (if testBit ws x = true then (0 : Int) else 1)) = c'
    split
    · rename_i hfull
      have hfull' : wordsCard (setBit ws x) = 65536 := by
        simp only [beq_iff_eq] at hfull
        rw [hcard]
        split at hc' <;> simp_all <;> omega
      rw [has_fullRun, has_bmp, ← ht, testBit_of_full _ hl' hfull']
    · simp only [has_bmp, ht]
  | run rs =>
    have hrs := wf_run ha
    simp only [Cont.iaddRM, has_run]
    rw [has_runToEfficient _ (bound_runAdd rs hrs.bound x hx), inRuns_runAdd rs hrs.sep]

/-- `iadd(x)`: the members afterwards -/
theorem has_iadd (a : Cont) (ha : a.wf = true) (x : Nat) (hx : x < 65536) (y : Nat) :
    (a.iadd x).1.has y = (a.has y || decide (y = x)) := by
  cases a with
  | arr xs => simp only [Cont.iadd, has_arr, contains_insertVal]
  | bmp c ws => exact has_bmpAdd c ws (wf_bmp ha).1 x hx y
  | run rs => simp only [Cont.iadd, has_run, inRuns_runAdd rs (wf_run ha).sep]

/-- `iadd(x)` reports whether the value was new -/
theorem iadd_bool (a : Cont) (x : Nat) : (a.iadd x).2 = !a.has x := by
  cases a <;> rfl

theorem contains_filter_ne (xs : List Nat) (x y : Nat) :
    (xs.filter (· != x)).contains y = (xs.contains y && !decide (y = x)) := by
  rw [has_filter]
  by_cases h : y = x <;> simp [h]

/-- `iremoveReturnMinimized(x)`: the members afterwards -/
theorem has_iremoveRM (a : Cont) (ha : a.wf = true) (x : Nat) (y : Nat) :
    (a.iremoveRM x).has y = (a.has y && !decide (y = x)) := by
  cases a with
  | arr xs => simp only [Cont.iremoveRM, has_arr, contains_filter_ne]
  | bmp c ws =>
    simp only [Cont.iremoveRM, bmpRemoveRM]
    split
    · split
      · simp only [has_arr, has_bmp, contains_valsOfWords, testBit_clearBit]
      · simp only [has_bmp, testBit_clearBit]
    · rename_i hn
      simp only [has_bmp]
      by_cases hyx : y = x
      · subst hyx; simp [hn]
      · simp [hyx]
  | run rs =>
    have hrs := wf_run ha
    simp only [Cont.iremoveRM, has_run]
    rw [has_runToEfficient _ (bound_runRemove rs hrs.bound x), inRuns_runRemove rs hrs.sep]

/-- `iremove(x)`: the members afterwards -/
theorem has_iremove (a : Cont) (ha : a.wf = true) (x : Nat) (y : Nat) :
    (a.iremove x).1.has y = (a.has y && !decide (y = x)) := by
  cases a with
  | arr xs => simp only [Cont.iremove, has_arr, contains_filter_ne]
  | bmp c ws =>
    simp only [Cont.iremove, bmpRemove]
    split
    · simp only [has_bmp, testBit_clearBit]
    · rename_i hn
      simp only [has_bmp]
      by_cases hyx : y = x
      · subst hyx; simp [hn]
      · simp [hyx]
  | run rs => simp only [Cont.iremove, has_run, inRuns_runRemove rs (wf_run ha).sep]

/-- `iremove(x)` reports whether the value was present -/
theorem iremove_bool (a : Cont) (x : Nat) : (a.iremove x).2 = a.has x := by
  cases a with
  | arr xs => rfl
  | bmp c ws => simp only [Cont.iremove, bmpRemove, has_bmp]; split <;> simp_all
  | run rs => rfl

/-! ### single values: the abstraction -/

theorem sinc_add (s : BSet) (hs : SInc s) (v : Nat) : SInc (BSet.add s v) := sinc_union _ _ hs (sinc_single v)
theorem sinc_remove (s : BSet) (hs : SInc s) (v : Nat) : SInc (BSet.remove s v) :=
  sinc_combine _ _ _ _ _ hs (sinc_single v)

theorem mem_iaddRM (a : Cont) (ha : a.wf = true) (x : Nat) (hx : x < 65536) (y : Nat) :
    mem ((a.iaddRM x).toBSet 0) y = (mem (a.toBSet 0) y || decide (y = x)) := by
  rw [mem_toBSet, mem_toBSet, has_iaddRM a ha x hx]

/-- `iaddReturnMinimized(x)` of a well-formed container is `add` -/
theorem toBSet_iaddRM (a : Cont) (ha : a.wf = true) (x : Nat) (hx : x < 65536) :
    (a.iaddRM x).toBSet 0 = BSet.add (a.toBSet 0) x :=
  canon_ext_sinc _ _ (sinc_toBSet _) (sinc_add _ (sinc_toBSet a) x)
    (fun y => by rw [mem_iaddRM a ha x hx, mem_add _ (sinc_toBSet a)])

/-- `iadd(x)` of a well-formed container is `add` -/
theorem toBSet_iadd (a : Cont) (ha : a.wf = true) (x : Nat) (hx : x < 65536) :
    (a.iadd x).1.toBSet 0 = BSet.add (a.toBSet 0) x :=
  canon_ext_sinc _ _ (sinc_toBSet _) (sinc_add _ (sinc_toBSet a) x)
    (fun y => by rw [mem_toBSet, has_iadd a ha x hx, mem_add _ (sinc_toBSet a), mem_toBSet])

/-- the boolean of `iadd` in terms of the abstraction -/
theorem iadd_bool_mem (a : Cont) (x : Nat) : (a.iadd x).2 = !mem (a.toBSet 0) x := by
  rw [iadd_bool, mem_toBSet]

/-- `iremoveReturnMinimized(x)` of a well-formed container is `remove` -/
theorem toBSet_iremoveRM (a : Cont) (ha : a.wf = true) (x : Nat) :
    (a.iremoveRM x).toBSet 0 = BSet.remove (a.toBSet 0) x :=
  canon_ext_sinc _ _ (sinc_toBSet _) (sinc_remove _ (sinc_toBSet a) x)
    (fun y => by rw [mem_toBSet, has_iremoveRM a ha x, mem_remove _ (sinc_toBSet a), mem_toBSet])

/-- `iremove(x)` of a well-formed container is `remove` -/
theorem toBSet_iremove (a : Cont) (ha : a.wf = true) (x : Nat) :
    (a.iremove x).1.toBSet 0 = BSet.remove (a.toBSet 0) x :=
  canon_ext_sinc _ _ (sinc_toBSet _) (sinc_remove _ (sinc_toBSet a) x)
    (fun y => by rw [mem_toBSet, has_iremove a ha x, mem_remove _ (sinc_toBSet a), mem_toBSet])

/-- the boolean of `iremove` in terms of the abstraction -/
theorem iremove_bool_mem (a : Cont) (x : Nat) : (a.iremove x).2 = mem (a.toBSet 0) x := by
  rw [iremove_bool, mem_toBSet]

/-! ### single values: well-formedness of the result (C09 at kernel level) -/

/-- a container without values has no members -/
theorem has_of_card_zero (c : Cont) (h : c.card = 0) (y : Nat) : c.has y = false := by
  cases c with
  | arr xs =>
    simp only [Cont.card] at h
    have : xs = [] := List.eq_nil_of_length_eq_zero h
    subst this; rfl
  | bmp cd ws =>
    simp only [Cont.card] at h
    have h0 : (valsOfWords ws).length = 0 := by rw [length_valsOfWords]; exact h
    have : valsOfWords ws = [] := List.eq_nil_of_length_eq_zero h0
    have hm := mem_valsOfWords ws y
    rw [this] at hm
    simp only [has_bmp]
    cases ht : testBit ws y
    · rfl
    · exact absurd (hm.mpr ht) (by simp)
  | run rs =>
    cases rs with
    | nil => rfl
    | cons p t => simp only [Cont.card, List.map_cons, List.sum_cons] at h; omega

/-- "empty or well-formed" + a member = well-formed -/
theorem wf_of_wfe_has {c : Cont} (h : c.card = 0 ∨ c.wf = true) {y : Nat} (hy : c.has y = true) : c.wf = true := by
  rcases h with h | h
  · rw [has_of_card_zero c h y] at hy; simp at hy
  · exact h

theorem wordsCard_emptyWords : wordsCard emptyWords = 0 := by
  have : valsOfWords emptyWords = [] := by
    apply List.eq_nil_iff_forall_not_mem.mpr
    intro y hy
    have := (mem_valsOfWords _ _).mp hy
    rw [testBit_emptyWords] at this; simp at this
  rw [wordsCard_eq, this]; rfl

theorem wordsCard_wordsOfArr (xs : List Nat) (hxs : ArrWf xs) : wordsCard (wordsOfArr xs) = xs.length := by
  have := card_bmpOrArr emptyWords xs length_emptyWords hxs
  rw [wordsOfArr, this, wordsCard_emptyWords]
  simp [testBit_emptyWords]

/-- the result of `iaddReturnMinimized` is well-formed -/
theorem wf_iaddRM (a : Cont) (ha : a.wf = true) (x : Nat) (hx : x < 65536) : (a.iaddRM x).wf = true := by
  have hmem : (a.iaddRM x).has x = true := by rw [has_iaddRM a ha x hx]; simp
  refine wf_of_wfe_has ?_ hmem
  cases a with
  | arr xs =>
    have hxs := wf_arr ha
    simp only [Cont.iaddRM]
    split
    · right; exact ha
    · rename_i hnc
      split
      · rename_i hlen
        right
        simp only [bmpAdd]
        have hl := length_wordsOfArr xs
        have hcard := wordsCard_setBit (wordsOfArr xs) x hl hx
        have hc0 := wordsCard_wordsOfArr xs hxs
        have htb : testBit (wordsOfArr xs) x = false := by
          rw [testBit_wordsOfArr _ _ hxs.bound]; simpa using hnc
        have hle := hxs.le
        simp only [arrayMax] at hlen
        refine wf_bmp_mk (by rw [length_setBit]; exact hl) ?_ ?_
        · rw [hcard, hc0, htb]; simp
        · rw [hcard, hc0, htb]; simp; omega
      · rename_i hlen
        simp only [arrayMax] at hlen
        apply wfe_arr
        refine ⟨?_, sorted_insertVal x xs hxs.sorted, ?_⟩
        · have := length_insertVal_le x xs; omega
        · intro v hv
          rcases (mem_insertVal x xs v).mp hv with h | h
          · exact hxs.bound v h
          · omega
  | bmp c ws =>
    obtain ⟨hl, hc, hgt⟩ := wf_bmp ha
    have hcard := wordsCard_setBit ws x hl hx
    simp only [Cont.iaddRM, bmpAddRM]
    generalize hc' : (c + (if testBit ws x = true then (0 : Int) else 1)) = c'
    split
    · exact wfe_fullRun
    · right
      refine wf_bmp_mk (by rw [length_setBit]; exact hl) ?_ ?_
      · rw [hcard, ← hc', hc]; split <;> simp
      · rw [hcard]; omega
  | run rs =>
    have hrs := wf_run ha
    exact wfe_runToEfficient _ (sep_runUnion _ _ (sorted_of_sep hrs.sep) (sorted_single x)) (bound_runAdd rs hrs.bound x hx)

/-- the result of `iremoveReturnMinimized` is well-formed or empty -/
theorem wf_iremoveRM (a : Cont) (ha : a.wf = true) (x : Nat) :
    (a.iremoveRM x).card = 0 ∨ (a.iremoveRM x).wf = true := by
  cases a with
  | arr xs => exact wfe_filter (wf_arr ha) _
  | bmp c ws =>
    obtain ⟨hl, hc, hgt⟩ := wf_bmp ha
    have hcard := wordsCard_clearBit ws x
    have hl' : (clearBit ws x).length = 1024 := by rw [length_clearBit]; exact hl
    simp only [Cont.iremoveRM, bmpRemoveRM]
    split
    · rename_i hb
      rw [hb] at hcard
      simp only [if_true] at hcard
      split
      · rename_i h4
        simp only [beq_iff_eq] at h4
        exact wfe_arr (arrOk_valsOfWords hl' (by omega))
      · rename_i h4
        simp only [beq_iff_eq] at h4
        right
        exact wf_bmp_mk hl' (by omega) (by omega)
    · right; exact ha
  | run rs =>
    have hrs := wf_run ha
    exact wfe_runToEfficient _ (sep_runDiff _ _ hrs.sep (sep_single x)) (bound_runRemove rs hrs.bound x)

/-! ### ranges: membership -/

/-- the predicate "y ∈ [lo, hi)" -/
abbrev inRange (lo hi y : Nat) : Bool := decide (lo ≤ y) && decide (y < hi)

theorem inRange_false_of_le {lo hi : Nat} (h : hi ≤ lo) (y : Nat) : inRange lo hi y = false := by
  simp only [inRange]
  by_cases h1 : lo ≤ y <;> by_cases h2 : y < hi <;> simp [h1, h2]; omega

theorem sorted_rangeRuns (lo hi : Nat) : RunSorted (rangeRuns lo hi) := sorted_of_sep (sep_rangeRuns lo hi)

theorem has_bmpAddRange (c : Int) (ws : List (BitVec 64)) (hl : ws.length = 1024) (lo hi : Nat) (hhi : hi ≤ 65536) (y : Nat) :
    (bmpAddRange c ws lo hi).has y = (testBit ws y || inRange lo hi y) := by
  simp only [bmpAddRange, has_bmp, testBit_setRangeW ws lo hi hl hhi]

theorem has_bmpRemoveRange (c : Int) (ws : List (BitVec 64)) (hl : ws.length = 1024) (lo hi : Nat) (hhi : hi ≤ 65536) (y : Nat) :
    (bmpRemoveRange c ws lo hi).has y = (testBit ws y && !inRange lo hi y) := by
  simp only [bmpRemoveRange]
  split
  · simp only [has_arr, contains_valsOfWords, testBit_clearRangeW ws lo hi hl hhi]
  · simp only [has_bmp, testBit_clearRangeW ws lo hi hl hhi]

/-- array when the (claimed) cardinality is `≤ 4096`, else bitmap: the members are the set bits either way -/
theorem has_ofCard (c : Int) (ws : List (BitVec 64)) (y : Nat) :
    (if c ≤ (arrayMax : Int) then Cont.arr (valsOfWords ws) else Cont.bmp c ws).has y = testBit ws y := by
  split
  · simp only [has_arr, contains_valsOfWords]
  · rfl

theorem has_bmpNot (c : Int) (ws : List (BitVec 64)) (hl : ws.length = 1024) (lo hi : Nat) (hhi : hi ≤ 65536) (y : Nat) :
    (bmpNot c ws lo hi).has y = (testBit ws y != inRange lo hi y) := by
  simp only [bmpNot]
  rw [has_ofCard, testBit_flipRangeW ws lo hi hl hhi]

/-- `iaddRange(lo, hi)`: the members afterwards -/
theorem has_iaddRange (a : Cont) (ha : a.wf = true) (lo hi : Nat) (hhi : hi ≤ 65536) (y : Nat) :
    (a.iaddRange lo hi).has y = (a.has y || inRange lo hi y) := by
  cases a with
  | arr xs =>
    have hxs := wf_arr ha
    simp only [Cont.iaddRange, arrAddRange]
    split
    · rename_i hle; rw [inRange_false_of_le hle]; simp
    · rename_i hlt
      split
      · rw [has_bmpAddRange _ _ (length_wordsOfArr xs) lo hi hhi, testBit_wordsOfArr _ _ hxs.bound, has_arr]
      · simp only [has_arr, contains_splice, contains_range' lo hi y (by omega)]
        cases xs.contains y <;> by_cases h1 : y < lo <;> by_cases h2 : hi ≤ y <;> simp [h1, h2] <;> omega
  | bmp c ws => exact has_bmpAddRange c ws (wf_bmp ha).1 lo hi hhi y
  | run rs =>
    simp only [Cont.iaddRange, has_run]
    rw [inRuns_runUnion _ _ (sorted_of_sep (wf_run ha).sep) (sorted_rangeRuns lo hi), inRuns_rangeRuns]

/-- `iremoveRange(lo, hi)`: the members afterwards -/
theorem has_iremoveRange (a : Cont) (ha : a.wf = true) (lo hi : Nat) (hhi : hi ≤ 65536) (y : Nat) :
    (a.iremoveRange lo hi).has y = (a.has y && !inRange lo hi y) := by
  cases a with
  | arr xs =>
    simp only [Cont.iremoveRange, arrRemoveRange, has_arr, has_filter]
    cases xs.contains y <;> by_cases h1 : y < lo <;> by_cases h2 : hi ≤ y <;> simp [h1, h2] <;> omega
  | bmp c ws => exact has_bmpRemoveRange c ws (wf_bmp ha).1 lo hi hhi y
  | run rs =>
    simp only [Cont.iremoveRange, has_run]
    rw [inRuns_runDiff _ _ (wf_run ha).sep (sep_rangeRuns lo hi), inRuns_rangeRuns]

theorem bound_runFlip (rs : List (Nat × Nat)) (hb : RunBound 65535 rs) (lo hi : Nat) (hhi : hi ≤ 65536) :
    RunBound 65535 (runFlip rs lo hi) :=
  bound_runUnion _ _ _ (bound_runDiff _ _ _ (bound_rangeRuns lo hi hhi)) (bound_runDiff _ _ _ hb)

theorem sep_runFlip (rs : List (Nat × Nat)) (hs : RunSep rs) (lo hi : Nat) : RunSep (runFlip rs lo hi) :=
  sep_runUnion _ _ (sorted_of_sep (sep_runDiff _ _ (sep_rangeRuns lo hi) hs)) (sorted_of_sep (sep_runDiff _ _ hs (sep_rangeRuns lo hi)))

theorem inRuns_runFlip (rs : List (Nat × Nat)) (hs : RunSep rs) (lo hi y : Nat) :
    inRuns (runFlip rs lo hi) y = (inRuns rs y != inRange lo hi y) := by
  simp only [runFlip]
  rw [inRuns_runUnion _ _ (sorted_of_sep (sep_runDiff _ _ (sep_rangeRuns lo hi) hs)) (sorted_of_sep (sep_runDiff _ _ hs (sep_rangeRuns lo hi))),
    inRuns_runDiff _ _ (sep_rangeRuns lo hi) hs, inRuns_runDiff _ _ hs (sep_rangeRuns lo hi), inRuns_rangeRuns]
  simp only [inRange]
  cases inRuns rs y <;> cases (decide (lo ≤ y) && decide (y < hi)) <;> rfl

/-- `not(lo, hi)`: the members of the result -/
theorem has_notRange (a : Cont) (ha : a.wf = true) (lo hi : Nat) (hhi : hi ≤ 65536) (y : Nat) :
    (a.notRange lo hi).has y = (a.has y != inRange lo hi y) := by
  cases a with
  | arr xs =>
    have hxs := wf_arr ha
    simp only [Cont.notRange, arrNot]
    split
    · rename_i hle; rw [inRange_false_of_le hle]; simp
    · rename_i hlt
      split
      · rw [has_bmpNot _ _ (length_wordsOfArr xs) lo hi hhi, testBit_wordsOfArr _ _ hxs.bound, has_arr]
      · simp only [has_arr, contains_splice, has_filter, contains_range' lo hi y (by omega)]
        cases xs.contains y <;> by_cases h1 : y < lo <;> by_cases h2 : hi ≤ y <;> simp [h1, h2] <;> omega
  | bmp c ws => exact has_bmpNot c ws (wf_bmp ha).1 lo hi hhi y
  | run rs =>
    have hrs := wf_run ha
    simp only [Cont.notRange, has_run]
    rw [has_runToEfficient _ (bound_runFlip rs hrs.bound lo hi hhi), inRuns_runFlip rs hrs.sep]

/-- `inot(lo, hi)`: the members of the result -/
theorem has_inotRange (a : Cont) (ha : a.wf = true) (lo hi : Nat) (hhi : hi ≤ 65536) (y : Nat) :
    (a.inotRange lo hi).has y = (a.has y != inRange lo hi y) := has_notRange a ha lo hi hhi y

/-! ### ranges: the abstraction -/

theorem sinc_addRange (s : BSet) (hs : SInc s) (lo hi : Nat) : SInc (BSet.addRange s lo hi) :=
  sinc_union _ _ hs (sinc_range lo hi)
theorem sinc_removeRange (s : BSet) (hs : SInc s) (lo hi : Nat) : SInc (BSet.removeRange s lo hi) :=
  sinc_combine _ _ _ _ _ hs (sinc_range lo hi)
theorem sinc_flipRange (s : BSet) (hs : SInc s) (lo hi : Nat) : SInc (BSet.flipRange s lo hi) :=
  sinc_combine _ _ _ _ _ hs (sinc_range lo hi)

/-- `iaddRange(lo, hi)` of a well-formed container is `addRange` -/
theorem toBSet_iaddRange (a : Cont) (ha : a.wf = true) (lo hi : Nat) (hhi : hi ≤ 65536) :
    (a.iaddRange lo hi).toBSet 0 = BSet.addRange (a.toBSet 0) lo hi :=
  canon_ext_sinc _ _ (sinc_toBSet _) (sinc_addRange _ (sinc_toBSet a) lo hi)
    (fun y => by rw [mem_toBSet, has_iaddRange a ha lo hi hhi, mem_addRange _ (sinc_toBSet a), mem_toBSet])

/-- `iremoveRange(lo, hi)` of a well-formed container is `removeRange` -/
theorem toBSet_iremoveRange (a : Cont) (ha : a.wf = true) (lo hi : Nat) (hhi : hi ≤ 65536) :
    (a.iremoveRange lo hi).toBSet 0 = BSet.removeRange (a.toBSet 0) lo hi :=
  canon_ext_sinc _ _ (sinc_toBSet _) (sinc_removeRange _ (sinc_toBSet a) lo hi)
    (fun y => by rw [mem_toBSet, has_iremoveRange a ha lo hi hhi, mem_removeRange _ (sinc_toBSet a), mem_toBSet])

/-- `not(lo, hi)` of a well-formed container is `flipRange` -/
theorem toBSet_notRange (a : Cont) (ha : a.wf = true) (lo hi : Nat) (hhi : hi ≤ 65536) :
    (a.notRange lo hi).toBSet 0 = BSet.flipRange (a.toBSet 0) lo hi :=
  canon_ext_sinc _ _ (sinc_toBSet _) (sinc_flipRange _ (sinc_toBSet a) lo hi)
    (fun y => by rw [mem_toBSet, has_notRange a ha lo hi hhi, mem_flipRange _ (sinc_toBSet a), mem_toBSet])

/-- `inot(lo, hi)` of a well-formed container is `flipRange` -/
theorem toBSet_inotRange (a : Cont) (ha : a.wf = true) (lo hi : Nat) (hhi : hi ≤ 65536) :
    (a.inotRange lo hi).toBSet 0 = BSet.flipRange (a.toBSet 0) lo hi := toBSet_notRange a ha lo hi hhi

/-! ### ranges: well-formedness of the result (C09 at kernel level) -/

/-- complementing all 65536 bits: the cardinalities add up to 65536 -/
theorem wordsCard_flip_full (ws : List (BitVec 64)) (hl : ws.length = 1024) :
    wordsCard (flipRangeW ws 0 65536) + wordsCard ws = 65536 := by
  have hl' := length_flipRangeW ws 0 65536 hl
  have ht := fun y => testBit_flipRangeW ws 0 65536 hl (by omega) y
  rw [wordsCard_eq, wordsCard_eq ws, ← List.length_append]
  have : (valsOfWords (flipRangeW ws 0 65536) ++ valsOfWords ws).length = (List.range 65536).length := by
    apply length_eq_of_mem_iff
    · refine List.nodup_append.mpr ⟨nodup_valsOfWords _, nodup_valsOfWords _, ?_⟩
      intro a ha b hb hab
      subst hab
      have h1 := (mem_valsOfWords _ _).mp ha
      have h2 := (mem_valsOfWords _ _).mp hb
      have h3 := lt_of_mem_valsOfWords _ _ hb
      rw [ht, h2] at h1
      have : (decide (0 ≤ a) && decide (a < 65536)) = true := by simp; omega
      rw [this] at h1; simp at h1
    · exact List.nodup_range
    · intro y
      simp only [List.mem_append, mem_valsOfWords, List.mem_range]
      constructor
      · rintro (h | h)
        · have := lt_of_mem_valsOfWords _ _ ((mem_valsOfWords _ _).mpr h); omega
        · have := lt_of_mem_valsOfWords _ _ ((mem_valsOfWords _ _).mpr h); omega
      · intro hy
        rw [ht]
        have : (decide (0 ≤ y) && decide (y < 65536)) = true := by simp; omega
        rw [this]
        cases testBit ws y <;> simp
  rw [this]; simp

theorem wf_bmpAddRange {c : Int} {ws : List (BitVec 64)} (hl : ws.length = 1024) (hc : c = (wordsCard ws : Int))
    (lo hi : Nat) (hgt : 4096 < wordsCard (setRangeW ws lo hi)) : (bmpAddRange c ws lo hi).wf = true := by
  simp only [bmpAddRange]
  exact wf_bmp_mk (length_setRangeW ws lo hi hl) (by simp only [cardDelta]; omega) hgt

theorem wfe_bmpRemoveRange {c : Int} {ws : List (BitVec 64)} (hl : ws.length = 1024) (hc : c = (wordsCard ws : Int))
    (lo hi : Nat) : (bmpRemoveRange c ws lo hi).card = 0 ∨ (bmpRemoveRange c ws lo hi).wf = true := by
  have hl' := length_clearRangeW ws lo hi hl
  simp only [bmpRemoveRange]
  split <;> rename_i hle
  · exact wfe_arr (arrOk_valsOfWords hl' (by simp only [cardDelta, arrayMax] at hle; omega))
  · right; exact wf_bmp_mk hl' (by simp only [cardDelta]; omega) (by simp only [cardDelta, arrayMax] at hle; omega)

theorem wfe_bmpNot {c : Int} {ws : List (BitVec 64)} (hl : ws.length = 1024) (hc : c = (wordsCard ws : Int))
    (lo hi : Nat) (hlh : lo ≤ hi) (hhi : hi ≤ 65536) : (bmpNot c ws lo hi).card = 0 ∨ (bmpNot c ws lo hi).wf = true := by
  have hl' := length_flipRangeW ws lo hi hl
  simp only [bmpNot]
  generalize hc' : (if ((hi : Int) - (lo : Int) == 65536) = true then 65536 - c
      else if (hi : Int) - (lo : Int) > 32768 then (wordsCard (flipRangeW ws lo hi) : Int)
      else c + cardDelta ws (flipRangeW ws lo hi)) = c'
  have hcc : c' = (wordsCard (flipRangeW ws lo hi) : Int) := by
    rw [← hc']
    split
    · rename_i h
      simp only [beq_iff_eq] at h
      have h0 : lo = 0 := by omega
      have h1 : hi = 65536 := by omega
      subst h0; subst h1
      have := wordsCard_flip_full ws hl
      omega
    · split
      · rfl
      · simp only [cardDelta]; omega
  split <;> rename_i hle
  · exact wfe_arr (arrOk_valsOfWords hl' (by simp only [arrayMax] at hle; omega))
  · right; exact wf_bmp_mk hl' hcc (by simp only [arrayMax] at hle; omega)

/-- well-formedness without the storage-minimality demand on run containers: what the in-place range kernels of run
containers keep (`Bitmap.AddRange/RemoveRange` re-type afterwards) -/
def Cont.wfLoose : Cont → Bool
  | .run rs => !rs.isEmpty && runsOk rs
  | c => c.wf

theorem wfLoose_of_wf {c : Cont} (h : c.wf = true) : c.wfLoose = true := by
  cases c with
  | arr xs => exact h
  | bmp cd ws => exact h
  | run rs =>
    simp only [Cont.wf, Bool.and_eq_true] at h
    simp only [Cont.wfLoose, Bool.and_eq_true]
    exact h.1

theorem wfLoose_run {rs : List (Nat × Nat)} (hs : RunSep rs) (hb : RunBound 65535 rs) :
    (Cont.run rs).card = 0 ∨ (Cont.run rs).wfLoose = true := by
  cases rs with
  | nil => left; rfl
  | cons p t => right; simp only [Cont.wfLoose, Bool.and_eq_true]; exact ⟨by simp, runsOk_of _ hs hb⟩

/-- the result of `iaddRange` is well-formed (run receivers: up to minimality) or empty -/
theorem wf_iaddRange (a : Cont) (ha : a.wf = true) (lo hi : Nat) (hhi : hi ≤ 65536) :
    (a.iaddRange lo hi).card = 0 ∨ (a.iaddRange lo hi).wfLoose = true := by
  cases a with
  | arr xs =>
    have hxs := wf_arr ha
    simp only [Cont.iaddRange, arrAddRange]
    split
    · right; exact ha
    · rename_i hlt
      have hsorted := sorted_splice xs (List.range' lo (hi - lo)) lo hi hxs.sorted (sorted_range' lo (hi - lo))
        (by intro v hv; simp only [List.mem_range'_1] at hv; omega) (by omega)
      split <;> rename_i hcard
      · right
        apply wfLoose_of_wf
        have hl := length_wordsOfArr xs
        have hcnt : wordsCard (setRangeW (wordsOfArr xs) lo hi) =
            (xs.filter (· < lo) ++ List.range' lo (hi - lo) ++ xs.filter (hi ≤ ·)).length := by
          apply wordsCard_eq_length (nodup_of_sorted hsorted)
          intro y
          rw [testBit_setRangeW _ lo hi hl hhi, testBit_wordsOfArr _ _ hxs.bound]
          have := contains_splice xs (List.range' lo (hi - lo)) lo hi y
          rw [contains_range' lo hi y (by omega)] at this
          simp only [List.contains_eq_mem] at this ⊢
          rw [← decide_eq_true_iff (p := y ∈ _ ++ _ ++ _), this]
          by_cases h0 : y ∈ xs <;> by_cases h1 : y < lo <;> by_cases h2 : hi ≤ y <;> simp [h0, h1, h2] <;> omega
        refine wf_bmpAddRange hl (by rw [wordsCard_wordsOfArr xs hxs]) lo hi ?_
        rw [hcnt]
        simp only [List.length_append, List.length_range', arrayMax] at hcard ⊢
        omega
      · apply Or.imp_right wfLoose_of_wf
        apply wfe_arr
        refine ⟨?_, hsorted, ?_⟩
        · simp only [List.length_append, List.length_range', arrayMax] at hcard ⊢; omega
        · intro v hv
          simp only [List.mem_append, List.mem_filter, List.mem_range'_1] at hv
          rcases hv with (hv | hv) | hv
          · exact hxs.bound v hv.1
          · omega
          · exact hxs.bound v hv.1
  | bmp c ws =>
    obtain ⟨hl, hc, hgt⟩ := wf_bmp ha
    right
    apply wfLoose_of_wf
    refine wf_bmpAddRange hl hc lo hi ?_
    have := wordsCard_mono (ws1 := ws) (ws2 := setRangeW ws lo hi) (by
      intro y hy; rw [testBit_setRangeW ws lo hi hl hhi, hy]; rfl)
    omega
  | run rs =>
    have hrs := wf_run ha
    exact wfLoose_run (sep_runUnion _ _ (sorted_of_sep hrs.sep) (sorted_rangeRuns lo hi))
      (bound_runUnion _ _ _ hrs.bound (bound_rangeRuns lo hi hhi))

/-- the result of `iremoveRange` is well-formed (run receivers: up to minimality) or empty -/
theorem wf_iremoveRange (a : Cont) (ha : a.wf = true) (lo hi : Nat) :
    (a.iremoveRange lo hi).card = 0 ∨ (a.iremoveRange lo hi).wfLoose = true := by
  cases a with
  | arr xs => exact Or.imp_right wfLoose_of_wf (wfe_filter (wf_arr ha) _)
  | bmp c ws =>
    obtain ⟨hl, hc, hgt⟩ := wf_bmp ha
    exact Or.imp_right wfLoose_of_wf (wfe_bmpRemoveRange hl hc lo hi)
  | run rs =>
    have hrs := wf_run ha
    exact wfLoose_run (sep_runDiff _ _ hrs.sep (sep_rangeRuns lo hi)) (bound_runDiff _ _ _ hrs.bound)

/-- the result of `not` is well-formed or empty -/
theorem wf_notRange (a : Cont) (ha : a.wf = true) (lo hi : Nat) (hlh : lo ≤ hi) (hhi : hi ≤ 65536) :
    (a.notRange lo hi).card = 0 ∨ (a.notRange lo hi).wf = true := by
  cases a with
  | arr xs =>
    have hxs := wf_arr ha
    simp only [Cont.notRange, arrNot]
    split
    · right; exact ha
    · rename_i hlt
      split <;> rename_i hcard
      · exact wfe_bmpNot (length_wordsOfArr xs) (by rw [wordsCard_wordsOfArr xs hxs]) lo hi hlh hhi
      · apply wfe_arr
        have hmid : ∀ v ∈ (List.range' lo (hi - lo)).filter (fun v => !xs.contains v), lo ≤ v ∧ v < hi := by
          intro v hv; simp only [List.mem_filter, List.mem_range'_1] at hv; omega
        refine ⟨?_, sorted_splice xs _ lo hi hxs.sorted ((sorted_range' lo (hi - lo)).sublist List.filter_sublist) hmid (by omega), ?_⟩
        · have h3 := length_three_way xs lo hi (by omega)
          have h2 := length_filter_split (List.range' lo (hi - lo)) (fun v => xs.contains v)
          have hcur : ((List.range' lo (hi - lo)).filter (fun v => xs.contains v)).length =
              (xs.filter fun v => decide (lo ≤ v) && decide (v < hi)).length := by
            apply length_eq_of_mem_iff (nodup_filter (nodup_of_sorted (sorted_range' _ _)) _)
              (nodup_filter (nodup_of_sorted hxs.sorted) _)
            intro v
            simp only [List.mem_filter, List.mem_range'_1, List.contains_eq_mem, decide_eq_true_eq, Bool.and_eq_true]
            constructor
            · rintro ⟨h1, h2⟩; exact ⟨h2, by omega, by omega⟩
            · rintro ⟨h1, h2, h3⟩; exact ⟨by omega, h1⟩
          simp only [List.length_append, List.length_range', arrayMax] at hcard h2 ⊢
          omega
        · intro v hv
          simp only [List.mem_append] at hv
          rcases hv with (hv | hv) | hv
          · exact hxs.bound v (List.mem_filter.mp hv).1
          · have := hmid v hv; omega
          · exact hxs.bound v (List.mem_filter.mp hv).1
  | bmp c ws =>
    obtain ⟨hl, hc, hgt⟩ := wf_bmp ha
    exact wfe_bmpNot hl hc lo hi hlh hhi
  | run rs =>
    have hrs := wf_run ha
    exact wfe_runToEfficient _ (sep_runFlip rs hrs.sep lo hi) (bound_runFlip rs hrs.bound lo hi hhi)

/-- the result of `inot` is well-formed or empty -/
theorem wf_inotRange (a : Cont) (ha : a.wf = true) (lo hi : Nat) (hlh : lo ≤ hi) (hhi : hi ≤ 65536) :
    (a.inotRange lo hi).card = 0 ∨ (a.inotRange lo hi).wf = true := wf_notRange a ha lo hi hlh hhi

/-! ### the in-place binary kernels: membership -/

theorem has_false_of_ge {c : Cont} (hc : c.wf = true) {x : Nat} (h : ¬ x < 65536) : c.has x = false := by
  cases hx : c.has x
  · rfl
  · exact absurd (has_lt hc hx) h

/-- `iand` of two well-formed containers: the members -/
theorem has_iand2 (a b : Cont) (ha : a.wf = true) (hb : b.wf = true) (x : Nat) :
    (a.iand2 b).has x = (a.has x && b.has x) := by
  cases a with
  | arr xs => cases b <;> exact has_and2 _ _ ha hb x
  | run rs => cases b <;> exact has_and2 _ _ ha hb x
  | bmp c ws =>
    have hws := wf_bmp ha
    cases b with
    | bmp c2 ws2 => exact has_and2 _ _ ha hb x
    | arr ys =>
      simp only [Cont.iand2]
      rw [has_ofWordsAB, testBit_andW _ _ (hws.1.trans (length_wordsOfArr ys).symm), testBit_wordsOfArr _ _ (wf_arr hb).bound]
      simp only [has_bmp, has_arr]
    | run rs =>
      have hrs := wf_run hb
      simp only [Cont.iand2]
      split <;> rename_i hf
      · have := isFullRun_eq hf
        subst this
        simp only [has_run, inRuns_full]
        by_cases h : x < 65536
        · simp [h]
        · simp [h, has_false_of_ge ha h]
      · rw [has_ofWordsAB, testBit_andW _ _ (hws.1.trans (length_wordsOfRuns rs).symm), testBit_wordsOfRuns_wf hrs.bound]
        simp only [has_bmp, has_run]

/-- the `iorRun16` heuristic branch: adding the runs one by one to an array that stays an array -/
theorem fold_iaddRange_arr (rs : List (Nat × Nat)) (hb : RunBound 65535 rs) :
    ∀ (l : List Nat), l.Pairwise (· < ·) → (∀ v ∈ l, v < 65536) → l.length + runsCard rs ≤ 4096 →
      ∃ l', rs.foldl (fun acc p => acc.iaddRange p.1 (p.1 + p.2 + 1)) (Cont.arr l) = Cont.arr l' ∧
        l'.Pairwise (· < ·) ∧ (∀ v ∈ l', v < 65536) ∧ l'.length ≤ l.length + runsCard rs ∧
        ∀ y, l'.contains y = (l.contains y || inRuns rs y) := by
  induction rs with
  | nil => intro l hs hbd _; exact ⟨l, rfl, hs, hbd, by simp [runsCard], by simp [inRuns]⟩
  | cons p t ih =>
    intro l hs hbd hlen
    obtain ⟨s, n⟩ := p
    have hpb := hb (s, n) (by simp)
    simp only at hpb
    have hcard : runsCard ((s, n) :: t) = (n + 1) + runsCard t := by simp [runsCard]
    simp only [List.foldl_cons, Cont.iaddRange, arrAddRange]
    have h1 : ¬ (s + n + 1 ≤ s) := by omega
    have h3 := length_three_way l s (s + n + 1) (by omega)
    have hsub : s + n + 1 - s = n + 1 := by omega
    have h2 : ¬ ((l.filter (· < s)).length + (l.filter (s + n + 1 ≤ ·)).length + (s + n + 1 - s) > arrayMax) := by
      simp only [arrayMax]; omega
    simp only [h1, h2, if_false]
    have hsorted := sorted_splice l (List.range' s (s + n + 1 - s)) s (s + n + 1) hs (sorted_range' _ _)
      (by intro v hv; simp only [List.mem_range'_1] at hv; omega) (by omega)
    obtain ⟨l', he, hs', hb', hl', hc'⟩ := ih (fun q hq => hb q (by simp [hq])) _ hsorted
      (by
        intro v hv
        simp only [List.mem_append, List.mem_filter, List.mem_range'_1] at hv
        rcases hv with (hv | hv) | hv
        · exact hbd v hv.1
        · omega
        · exact hbd v hv.1)
      (by simp only [List.length_append, List.length_range']; omega)
    refine ⟨l', he, hs', hb', ?_, ?_⟩
    · simp only [List.length_append, List.length_range'] at hl'; omega
    · intro y
      rw [hc', contains_splice, contains_range' s (s + n + 1) y (by omega), inRuns_cons]
      simp only
      have e1 : decide (y < s) = !decide (s ≤ y) := by by_cases h : s ≤ y <;> simp [h] <;> omega
      have e2 : decide (s + n + 1 ≤ y) = !decide (y ≤ s + n) := by by_cases h : y ≤ s + n <;> simp [h] <;> omega
      have e3 : decide (y < s + n + 1) = decide (y ≤ s + n) := by by_cases h : y ≤ s + n <;> simp [h] <;> omega
      rw [e1, e2, e3]
      cases l.contains y <;> cases inRuns t y <;> cases decide (s ≤ y) <;> cases decide (y ≤ s + n) <;> rfl

theorem wordsCard_of_cardDelta {c : Int} {ws ws' : List (BitVec 64)} (hc : c = (wordsCard ws : Int)) :
    c + cardDelta ws ws' = (wordsCard ws' : Int) := by
  simp only [cardDelta]; omega

/-- `ior` of two well-formed containers: the members -/
theorem has_ior2 (a b : Cont) (ha : a.wf = true) (hb : b.wf = true) (x : Nat) :
    (a.ior2 b).has x = (a.has x || b.has x) := by
  cases a with
  | run rs => cases b <;> exact has_or2 _ _ ha hb x
  | arr xs =>
    have hxs := wf_arr ha
    cases b with
    | bmp c2 ws2 => exact has_or2 _ _ ha hb x
    | arr ys =>
      have hys := wf_arr hb
      have hbd : ∀ v ∈ ArrayC.union2by2 xs ys, v < 65536 := by
        intro v hv
        rcases (ArrayC.mem_union2by2 xs ys v).mp hv with h | h
        · exact hxs.bound v h
        · exact hys.bound v h
      simp only [Cont.ior2]
      split
      · simp only [has_bmp, has_arr, testBit_wordsOfArr _ _ hbd, List.contains_eq_mem, ArrayC.mem_union2by2, Bool.decide_or]
      · simp only [has_arr, List.contains_eq_mem, ArrayC.mem_union2by2, Bool.decide_or]
    | run rs =>
      have hrs := wf_run hb
      simp only [Cont.ior2]
      split <;> rename_i hf
      · have := isFullRun_eq hf
        subst this
        simp only [has_run, inRuns_full]
        by_cases h : x < 65536
        · simp [h]
        · simp [h, has_false_of_ge ha h]
      · split <;> rename_i hh
        · simp only [Bool.and_eq_true, decide_eq_true_eq] at hh
          obtain ⟨hh1, hh2⟩ := hh
          simp only [arrayMax] at hh2
          obtain ⟨l', he, _, _, _, hc'⟩ := fold_iaddRange_arr rs hrs.bound xs hxs.sorted hxs.bound (by omega)
          rw [he]
          simp only [has_arr, has_run, hc']
        · rw [has_runOrArr rs xs hrs hxs]; simp only [has_arr, has_run, Bool.or_comm]
  | bmp c ws =>
    obtain ⟨hl, hc, hgt⟩ := wf_bmp ha
    cases b with
    | bmp c2 ws2 => exact has_or2 _ _ ha hb x
    | arr ys =>
      have hys := wf_arr hb
      have ht := testBit_foldl_setBit ys ws x (by intro v hv; have := hys.bound v hv; omega)
      simp only [Cont.ior2]
      split <;> rename_i hfull
      · have hcard := card_bmpOrArr ws ys hl hys
        have hfull' : wordsCard (ys.foldl setBit ws) = 65536 := by
          simp only [beq_iff_eq] at hfull; omega
        rw [has_fullRun, ← testBit_of_full _ (by rw [length_foldl_setBit]; exact hl) hfull', ht]
        simp only [has_bmp, has_arr]
      · simp only [has_bmp, has_arr, ht]
    | run rs =>
      have hrs := wf_run hb
      have ht : testBit (orW ws (wordsOfRuns rs)) x = (testBit ws x || inRuns rs x) := by
        rw [testBit_orW _ _ (hl.trans (length_wordsOfRuns rs).symm), testBit_wordsOfRuns_wf hrs.bound]
      simp only [Cont.ior2]
      split <;> rename_i hf
      · have := isFullRun_eq hf
        subst this
        simp only [has_run, inRuns_full]
        by_cases h : x < 65536
        · simp [h]
        · simp [h, has_false_of_ge ha h]
      · rw [wordsCard_of_cardDelta hc]
        split <;> rename_i hfull
        · have hfull' : wordsCard (orW ws (wordsOfRuns rs)) = 65536 := by
            simp only [beq_iff_eq] at hfull; omega
          rw [has_fullRun, ← testBit_of_full _ (length_orW _ _ hl (length_wordsOfRuns rs)) hfull', ht]
          simp only [has_bmp, has_run]
        · simp only [has_bmp, has_run, ht]

theorem testBit_xorW_words (a b : Cont) (ha : a.wf = true) (hb : b.wf = true) (x : Nat) :
    testBit (xorW a.toBitmapWords b.toBitmapWords) x = (a.has x != b.has x) := by
  rw [testBit_xorW _ _ ((length_toBitmapWords ha).trans (length_toBitmapWords hb).symm),
    testBit_toBitmapWords ha, testBit_toBitmapWords hb]

/-- `ixor` of two well-formed containers: the members -/
theorem has_ixor2 (a b : Cont) (ha : a.wf = true) (hb : b.wf = true) (x : Nat) :
    (a.ixor2 b).has x = (a.has x != b.has x) := by
  cases a with
  | arr xs =>
    cases b with
    | arr ys =>
      have : (Cont.arr xs).ixor2 (.arr ys) = (Cont.arr xs).xor2 (.arr ys) := by unfold Cont.ixor2; rfl
      rw [this]; exact has_xor2 _ _ ha hb x
    | bmp c2 ws2 =>
      have : (Cont.arr xs).ixor2 (.bmp c2 ws2) = (Cont.arr xs).xor2 (.bmp c2 ws2) := by unfold Cont.ixor2; rfl
      rw [this]; exact has_xor2 _ _ ha hb x
    | run rs =>
      have : (Cont.arr xs).ixor2 (.run rs) = ofWordsAB (xorW (wordsOfRuns rs) (wordsOfArr xs)) := by
        unfold Cont.ixor2; rfl
      rw [this, has_ofWordsAB, testBit_xorW _ _ ((length_wordsOfRuns rs).trans (length_wordsOfArr xs).symm),
        testBit_wordsOfRuns_wf (wf_run hb).bound, testBit_wordsOfArr _ _ (wf_arr ha).bound]
      simp only [has_arr, has_run]
      cases inRuns rs x <;> cases xs.contains x <;> rfl
  | bmp c ws =>
    have : (Cont.bmp c ws).ixor2 b = ofWordsAB (xorW (Cont.bmp c ws).toBitmapWords b.toBitmapWords) := by
      unfold Cont.ixor2; cases b <;> rfl
    rw [this, has_ofWordsAB]
    exact testBit_xorW_words _ _ ha hb x
  | run rs =>
    cases b with
    | bmp c2 ws2 =>
      have : (Cont.run rs).ixor2 (.bmp c2 ws2) = ofWordsXor (xorW (Cont.run rs).toBitmapWords (Cont.bmp c2 ws2).toBitmapWords) := by
        unfold Cont.ixor2; rfl
      rw [this, has_ofWordsXor _ (length_xorW _ _ (length_toBitmapWords ha) (length_toBitmapWords hb))]
      exact testBit_xorW_words _ _ ha hb x
    | arr ys =>
      have : (Cont.run rs).ixor2 (.arr ys) = ofWordsAB (xorW (Cont.run rs).toBitmapWords (Cont.arr ys).toBitmapWords) := by
        unfold Cont.ixor2; rfl
      rw [this, has_ofWordsAB]
      exact testBit_xorW_words _ _ ha hb x
    | run rs2 =>
      have : (Cont.run rs).ixor2 (.run rs2) = ofWordsAB (xorW (Cont.run rs).toBitmapWords (Cont.run rs2).toBitmapWords) := by
        unfold Cont.ixor2; rfl
      rw [this, has_ofWordsAB]
      exact testBit_xorW_words _ _ ha hb x

def Cont.isRunC : Cont → Bool
  | .run _ => true
  | _ => false

/-- run × array / run × bitmap `iandNot`: both operands as bitmap words, word-wise and-not, then the bitmap
container's `toEfficientContainer` -/
theorem iandNot2_run_words (rs : List (Nat × Nat)) (b : Cont) (hk : b.isRunC = false) :
    (Cont.run rs).iandNot2 b =
      (Cont.bmp (wordsCard (andNotW (Cont.run rs).toBitmapWords b.toBitmapWords))
        (andNotW (Cont.run rs).toBitmapWords b.toBitmapWords)).toEfficient := by
  cases b with
  | run rs2 => simp [Cont.isRunC] at hk
  | arr ys => unfold Cont.iandNot2; rfl
  | bmp c2 ws2 => unfold Cont.iandNot2; rfl

/-- `iandNot` of two well-formed containers: the members -/
theorem has_iandNot2 (a b : Cont) (ha : a.wf = true) (hb : b.wf = true) (x : Nat) :
    (a.iandNot2 b).has x = (a.has x && !b.has x) := by
  cases a with
  | arr xs =>
    cases b with
    | arr ys =>
      have : (Cont.arr xs).iandNot2 (.arr ys) = (Cont.arr xs).andNot2 (.arr ys) := by unfold Cont.iandNot2; rfl
      rw [this]; exact has_andNot2 _ _ ha hb x
    | bmp c2 ws2 =>
      have : (Cont.arr xs).iandNot2 (.bmp c2 ws2) = (Cont.arr xs).andNot2 (.bmp c2 ws2) := by unfold Cont.iandNot2; rfl
      rw [this]; exact has_andNot2 _ _ ha hb x
    | run rs =>
      have : (Cont.arr xs).iandNot2 (.run rs) = .arr (xs.filter fun v => !inRuns rs v) := by unfold Cont.iandNot2; rfl
      rw [this]
      simp only [has_arr, has_run, has_filter]
  | bmp c ws =>
    obtain ⟨hl, hc, hgt⟩ := wf_bmp ha
    cases b with
    | arr ys =>
      have : (Cont.bmp c ws).iandNot2 (.arr ys) = (Cont.bmp c ws).andNot2 (.arr ys) := by unfold Cont.iandNot2; rfl
      rw [this]; exact has_andNot2 _ _ ha hb x
    | bmp c2 ws2 =>
      have : (Cont.bmp c ws).iandNot2 (.bmp c2 ws2) = (Cont.bmp c ws).andNot2 (.bmp c2 ws2) := by unfold Cont.iandNot2; rfl
      rw [this]; exact has_andNot2 _ _ ha hb x
    | run rs =>
      have : (Cont.bmp c ws).iandNot2 (.run rs) =
          (if c + cardDelta ws (andNotW ws (wordsOfRuns rs)) ≤ (arrayMax : Int) then Cont.arr (valsOfWords (andNotW ws (wordsOfRuns rs)))
           else Cont.bmp (c + cardDelta ws (andNotW ws (wordsOfRuns rs))) (andNotW ws (wordsOfRuns rs))) := by
        unfold Cont.iandNot2; rfl
      rw [this, has_ofCard, testBit_andNotW _ _ (hl.trans (length_wordsOfRuns rs).symm), testBit_wordsOfRuns_wf (wf_run hb).bound]
      simp only [has_bmp, has_run]
  | run rs =>
    have hw : ∀ b : Cont, b.wf = true → b.isRunC = false → ((Cont.run rs).iandNot2 b).has x = ((Cont.run rs).has x && !b.has x) := by
      intro b hb hk
      rw [iandNot2_run_words rs b hk, has_toEfficient_bmp,
        testBit_andNotW _ _ ((length_toBitmapWords ha).trans (length_toBitmapWords hb).symm),
        testBit_toBitmapWords ha, testBit_toBitmapWords hb]
    cases b with
    | arr ys => exact hw _ hb rfl
    | bmp c2 ws2 => exact hw _ hb rfl
    | run rs2 =>
      have : (Cont.run rs).iandNot2 (.run rs2) = (Cont.run rs).andNot2 (.run rs2) := by unfold Cont.iandNot2; rfl
      rw [this]; exact has_andNot2 _ _ ha hb x

/-! ### the in-place binary kernels: the abstraction -/

/-- `iand` of two well-formed containers is the intersection -/
theorem toBSet_iand2 (a b : Cont) (ha : a.wf = true) (hb : b.wf = true) :
    (a.iand2 b).toBSet 0 = BSet.inter (a.toBSet 0) (b.toBSet 0) :=
  canon_ext_sinc _ _ (sinc_toBSet _) (sinc_combine _ _ _ _ _ (sinc_toBSet a) (sinc_toBSet b))
    (fun x => by rw [mem_toBSet, has_iand2 a b ha hb, mem_inter _ _ (sinc_toBSet a) (sinc_toBSet b), mem_toBSet, mem_toBSet])

/-- `ior` of two well-formed containers is the union -/
theorem toBSet_ior2 (a b : Cont) (ha : a.wf = true) (hb : b.wf = true) :
    (a.ior2 b).toBSet 0 = BSet.union (a.toBSet 0) (b.toBSet 0) :=
  canon_ext_sinc _ _ (sinc_toBSet _) (sinc_combine _ _ _ _ _ (sinc_toBSet a) (sinc_toBSet b))
    (fun x => by rw [mem_toBSet, has_ior2 a b ha hb, mem_union _ _ (sinc_toBSet a) (sinc_toBSet b), mem_toBSet, mem_toBSet])

/-- `ixor` of two well-formed containers is the symmetric difference -/
theorem toBSet_ixor2 (a b : Cont) (ha : a.wf = true) (hb : b.wf = true) :
    (a.ixor2 b).toBSet 0 = BSet.xor (a.toBSet 0) (b.toBSet 0) :=
  canon_ext_sinc _ _ (sinc_toBSet _) (sinc_combine _ _ _ _ _ (sinc_toBSet a) (sinc_toBSet b))
    (fun x => by rw [mem_toBSet, has_ixor2 a b ha hb, mem_xor _ _ (sinc_toBSet a) (sinc_toBSet b), mem_toBSet, mem_toBSet])

/-- `iandNot` of two well-formed containers is the difference -/
theorem toBSet_iandNot2 (a b : Cont) (ha : a.wf = true) (hb : b.wf = true) :
    (a.iandNot2 b).toBSet 0 = BSet.diff (a.toBSet 0) (b.toBSet 0) :=
  canon_ext_sinc _ _ (sinc_toBSet _) (sinc_combine _ _ _ _ _ (sinc_toBSet a) (sinc_toBSet b))
    (fun x => by rw [mem_toBSet, has_iandNot2 a b ha hb, mem_diff _ _ (sinc_toBSet a) (sinc_toBSet b), mem_toBSet, mem_toBSet])

/-! ### the in-place binary kernels: well-formedness of the result -/

theorem iand2_arr (xs : List Nat) (b : Cont) : (Cont.arr xs).iand2 b = (Cont.arr xs).and2 b := by
  cases b <;> (unfold Cont.iand2; rfl)
theorem iand2_run (rs : List (Nat × Nat)) (b : Cont) : (Cont.run rs).iand2 b = (Cont.run rs).and2 b := by
  cases b <;> (unfold Cont.iand2; rfl)
theorem ior2_run (rs : List (Nat × Nat)) (b : Cont) : (Cont.run rs).ior2 b = (Cont.run rs).or2 b := by
  cases b <;> (unfold Cont.ior2; rfl)

/-- `iand`: well-formed or empty -/
theorem wf_iand2 (a b : Cont) (ha : a.wf = true) (hb : b.wf = true) :
    (a.iand2 b).card = 0 ∨ (a.iand2 b).wf = true := by
  cases a with
  | arr xs => rw [iand2_arr]; exact wf_and2 _ _ ha hb
  | run rs => rw [iand2_run]; exact wf_and2 _ _ ha hb
  | bmp c ws =>
    have hws := wf_bmp ha
    cases b with
    | bmp c2 ws2 => exact wf_and2 _ _ ha hb
    | arr ys =>
      simp only [Cont.iand2]
      exact wfe_ofWordsAB (length_andW _ _ hws.1 (length_wordsOfArr ys))
    | run rs =>
      simp only [Cont.iand2]
      split
      · right; exact ha
      · exact wfe_ofWordsAB (length_andW _ _ hws.1 (length_wordsOfRuns rs))

/-- a sorted list of values below 65536, as bitmap words: as many bits as values (any length) -/
theorem wordsCard_wordsOfArr' (l : List Nat) (hs : l.Pairwise (· < ·)) (hb : ∀ v ∈ l, v < 65536) :
    wordsCard (wordsOfArr l) = l.length :=
  wordsCard_eq_length (nodup_of_sorted hs) (fun x => by rw [testBit_wordsOfArr _ _ hb]; simp)

/-- `ior`: well-formed or empty -/
theorem wf_ior2 (a b : Cont) (ha : a.wf = true) (hb : b.wf = true) :
    (a.ior2 b).card = 0 ∨ (a.ior2 b).wf = true := by
  cases a with
  | run rs => rw [ior2_run]; exact wf_or2 _ _ ha hb
  | arr xs =>
    have hxs := wf_arr ha
    cases b with
    | bmp c2 ws2 => exact wf_or2 _ _ ha hb
    | arr ys =>
      have hys := wf_arr hb
      have hbd : ∀ v ∈ ArrayC.union2by2 xs ys, v < 65536 := by
        intro v hv
        rcases (ArrayC.mem_union2by2 xs ys v).mp hv with h | h
        · exact hxs.bound v h
        · exact hys.bound v h
      have hso := ArrayC.sorted_union2by2 xs ys hxs.sorted hys.sorted
      simp only [Cont.ior2]
      split <;> rename_i hlen
      · right
        simp only [arrayMax] at hlen
        have := wordsCard_wordsOfArr' _ hso hbd
        exact wf_bmp_mk (length_wordsOfArr _) (by rw [this]) (by omega)
      · simp only [arrayMax] at hlen
        exact wfe_arr ⟨by omega, hso, hbd⟩
    | run rs =>
      have hrs := wf_run hb
      simp only [Cont.ior2]
      split
      · right; exact hb
      · split <;> rename_i hh
        · simp only [Bool.and_eq_true, decide_eq_true_eq] at hh
          obtain ⟨hh1, hh2⟩ := hh
          simp only [arrayMax] at hh2
          obtain ⟨l', he, hs', hb', hl', _⟩ := fold_iaddRange_arr rs hrs.bound xs hxs.sorted hxs.bound (by omega)
          rw [he]
          exact wfe_arr ⟨by omega, hs', hb'⟩
        · exact wfe_runOrArr hb ha
  | bmp c ws =>
    obtain ⟨hl, hc, hgt⟩ := wf_bmp ha
    cases b with
    | bmp c2 ws2 => exact wf_or2 _ _ ha hb
    | arr ys =>
      have hys := wf_arr hb
      have hcard := card_bmpOrArr ws ys hl hys
      simp only [Cont.ior2]
      split
      · exact wfe_fullRun
      · right
        exact wf_bmp_mk (by rw [length_foldl_setBit]; exact hl) (by rw [hcard, hc]; omega) (by omega)
    | run rs =>
      have hrs := wf_run hb
      simp only [Cont.ior2]
      split
      · right; exact hb
      · rw [wordsCard_of_cardDelta hc]
        split
        · exact wfe_fullRun
        · right
          have hmono := wordsCard_mono (ws1 := ws) (ws2 := orW ws (wordsOfRuns rs)) (by
            intro y hy; rw [testBit_orW _ _ (hl.trans (length_wordsOfRuns rs).symm), hy]; rfl)
          exact wf_bmp_mk (length_orW _ _ hl (length_wordsOfRuns rs)) rfl (by omega)

/-- `ixor`: well-formed or empty -/
theorem wf_ixor2 (a b : Cont) (ha : a.wf = true) (hb : b.wf = true) :
    (a.ixor2 b).card = 0 ∨ (a.ixor2 b).wf = true := by
  have hla := length_toBitmapWords ha
  have hlb := length_toBitmapWords hb
  cases a with
  | arr xs =>
    cases b with
    | arr ys =>
      have : (Cont.arr xs).ixor2 (.arr ys) = (Cont.arr xs).xor2 (.arr ys) := by unfold Cont.ixor2; rfl
      rw [this]; exact wf_xor2 _ _ ha hb
    | bmp c2 ws2 =>
      have : (Cont.arr xs).ixor2 (.bmp c2 ws2) = (Cont.arr xs).xor2 (.bmp c2 ws2) := by unfold Cont.ixor2; rfl
      rw [this]; exact wf_xor2 _ _ ha hb
    | run rs =>
      have : (Cont.arr xs).ixor2 (.run rs) = ofWordsAB (xorW (wordsOfRuns rs) (wordsOfArr xs)) := by
        unfold Cont.ixor2; rfl
      rw [this]; exact wfe_ofWordsAB (length_xorW _ _ (length_wordsOfRuns rs) (length_wordsOfArr xs))
  | bmp c ws =>
    have : (Cont.bmp c ws).ixor2 b = ofWordsAB (xorW (Cont.bmp c ws).toBitmapWords b.toBitmapWords) := by
      unfold Cont.ixor2; cases b <;> rfl
    rw [this]; exact wfe_ofWordsAB (length_xorW _ _ hla hlb)
  | run rs =>
    cases b with
    | bmp c2 ws2 =>
      have : (Cont.run rs).ixor2 (.bmp c2 ws2) = ofWordsXor (xorW (Cont.run rs).toBitmapWords (Cont.bmp c2 ws2).toBitmapWords) := by
        unfold Cont.ixor2; rfl
      rw [this]; exact wfe_ofWordsXor (length_xorW _ _ hla hlb)
    | arr ys =>
      have : (Cont.run rs).ixor2 (.arr ys) = ofWordsAB (xorW (Cont.run rs).toBitmapWords (Cont.arr ys).toBitmapWords) := by
        unfold Cont.ixor2; rfl
      rw [this]; exact wfe_ofWordsAB (length_xorW _ _ hla hlb)
    | run rs2 =>
      have : (Cont.run rs).ixor2 (.run rs2) = ofWordsAB (xorW (Cont.run rs).toBitmapWords (Cont.run rs2).toBitmapWords) := by
        unfold Cont.ixor2; rfl
      rw [this]; exact wfe_ofWordsAB (length_xorW _ _ hla hlb)

/-- `iandNot`: well-formed or empty -/
theorem wf_iandNot2 (a b : Cont) (ha : a.wf = true) (hb : b.wf = true) :
    (a.iandNot2 b).card = 0 ∨ (a.iandNot2 b).wf = true := by
  cases a with
  | arr xs =>
    cases b with
    | arr ys =>
      have : (Cont.arr xs).iandNot2 (.arr ys) = (Cont.arr xs).andNot2 (.arr ys) := by unfold Cont.iandNot2; rfl
      rw [this]; exact wf_andNot2 _ _ ha hb
    | bmp c2 ws2 =>
      have : (Cont.arr xs).iandNot2 (.bmp c2 ws2) = (Cont.arr xs).andNot2 (.bmp c2 ws2) := by unfold Cont.iandNot2; rfl
      rw [this]; exact wf_andNot2 _ _ ha hb
    | run rs =>
      have : (Cont.arr xs).iandNot2 (.run rs) = .arr (xs.filter fun v => !inRuns rs v) := by unfold Cont.iandNot2; rfl
      rw [this]; exact wfe_filter (wf_arr ha) _
  | bmp c ws =>
    obtain ⟨hl, hc, hgt⟩ := wf_bmp ha
    cases b with
    | arr ys =>
      have : (Cont.bmp c ws).iandNot2 (.arr ys) = (Cont.bmp c ws).andNot2 (.arr ys) := by unfold Cont.iandNot2; rfl
      rw [this]; exact wf_andNot2 _ _ ha hb
    | bmp c2 ws2 =>
      have : (Cont.bmp c ws).iandNot2 (.bmp c2 ws2) = (Cont.bmp c ws).andNot2 (.bmp c2 ws2) := by unfold Cont.iandNot2; rfl
      rw [this]; exact wf_andNot2 _ _ ha hb
    | run rs =>
      have : (Cont.bmp c ws).iandNot2 (.run rs) =
          (if c + cardDelta ws (andNotW ws (wordsOfRuns rs)) ≤ (arrayMax : Int) then Cont.arr (valsOfWords (andNotW ws (wordsOfRuns rs)))
           else Cont.bmp (c + cardDelta ws (andNotW ws (wordsOfRuns rs))) (andNotW ws (wordsOfRuns rs))) := by
        unfold Cont.iandNot2; rfl
      have hl' := length_andNotW _ _ hl (length_wordsOfRuns rs)
      rw [this, wordsCard_of_cardDelta hc]
      split <;> rename_i hle
      · exact wfe_arr (arrOk_valsOfWords hl' (by simp only [arrayMax] at hle; omega))
      · right; exact wf_bmp_mk hl' rfl (by simp only [arrayMax] at hle; omega)
  | run rs =>
    have hw : ∀ b : Cont, b.wf = true → b.isRunC = false →
        ((Cont.run rs).iandNot2 b).card = 0 ∨ ((Cont.run rs).iandNot2 b).wf = true := by
      intro b hb hk
      rw [iandNot2_run_words rs b hk]
      exact wfe_toEfficient_bmp (length_andNotW _ _ (length_toBitmapWords ha) (length_toBitmapWords hb)) rfl
    cases b with
    | arr ys => exact hw _ hb rfl
    | bmp c2 ws2 => exact hw _ hb rfl
    | run rs2 =>
      have : (Cont.run rs).iandNot2 (.run rs2) = (Cont.run rs).andNot2 (.run rs2) := by unfold Cont.iandNot2; rfl
      rw [this]; exact wf_andNot2 _ _ ha hb

/-! ### the bare `iadd` / `iremove` kernels: what they keep

They are only reachable through the `…ReturnMinimized` forms, which guard the two cases in which the bare kernel
leaves the well-formed domain: an array of 4096 values receiving a new value (it becomes a 4097-value array), and a
bitmap of 4097 values losing one (it stays a 4096-value bitmap).  Outside these two cases the receiver stays
well-formed (run receivers: up to minimality). -/

theorem wfLoose_of_wfe_has {c : Cont} (h : c.card = 0 ∨ c.wfLoose = true) {y : Nat} (hy : c.has y = true) :
    c.wfLoose = true := by
  rcases h with h | h
  · rw [has_of_card_zero c h y] at hy; simp at hy
  · exact h

theorem wf_iadd (a : Cont) (ha : a.wf = true) (x : Nat) (hx : x < 65536)
    (hguard : ∀ xs, a = .arr xs → xs.length < 4096 ∨ xs.contains x = true) : (a.iadd x).1.wfLoose = true := by
  have hmem : (a.iadd x).1.has x = true := by rw [has_iadd a ha x hx]; simp
  refine wfLoose_of_wfe_has ?_ hmem
  cases a with
  | arr xs =>
    have hxs := wf_arr ha
    simp only [Cont.iadd]
    apply Or.imp_right wfLoose_of_wf
    rcases hguard xs rfl with h | h
    · apply wfe_arr
      refine ⟨?_, sorted_insertVal x xs hxs.sorted, ?_⟩
      · have := length_insertVal_le x xs; omega
      · intro v hv
        rcases (mem_insertVal x xs v).mp hv with h' | h'
        · exact hxs.bound v h'
        · omega
    · rw [insertVal_of_mem x xs hxs.sorted (by simpa using h)]
      right; exact ha
  | bmp c ws =>
    obtain ⟨hl, hc, hgt⟩ := wf_bmp ha
    have hcard := wordsCard_setBit ws x hl hx
    right
    simp only [Cont.iadd, bmpAdd]
    apply wfLoose_of_wf
    refine wf_bmp_mk (by rw [length_setBit]; exact hl) ?_ (by rw [hcard]; omega)
    rw [hcard, hc]
    cases testBit ws x <;> simp
  | run rs =>
    have hrs := wf_run ha
    exact wfLoose_run (sep_runUnion _ _ (sorted_of_sep hrs.sep) (sorted_single x)) (bound_runAdd rs hrs.bound x hx)

theorem wf_iremove (a : Cont) (ha : a.wf = true) (x : Nat)
    (hguard : ∀ c ws, a = .bmp c ws → c ≠ 4097 ∨ testBit ws x = false) :
    (a.iremove x).1.card = 0 ∨ (a.iremove x).1.wfLoose = true := by
  cases a with
  | arr xs => exact Or.imp_right wfLoose_of_wf (wfe_filter (wf_arr ha) _)
  | bmp c ws =>
    obtain ⟨hl, hc, hgt⟩ := wf_bmp ha
    have hcard := wordsCard_clearBit ws x
    right
    apply wfLoose_of_wf
    simp only [Cont.iremove, bmpRemove]
    split
    · rename_i hb
      rw [hb] at hcard
      simp only [if_true] at hcard
      rcases hguard c ws rfl with h | h
      · exact wf_bmp_mk (by rw [length_clearBit]; exact hl) (by omega) (by omega)
      · rw [hb] at h; simp at h
    · exact ha
  | run rs =>
    have hrs := wf_run ha
    exact wfLoose_run (sep_runDiff _ _ hrs.sep (sep_single x)) (bound_runRemove rs hrs.bound x)

/-- a well-formed container has a member -/
theorem wf_has_member (c : Cont) (h : c.wf = true) : ∃ y, c.has y = true := by
  cases c with
  | arr xs =>
    have hxs := wf_arr h
    cases xs with
    | nil => have := hxs.pos; simp at this
    | cons a t => exact ⟨a, by simp⟩
  | bmp cd ws =>
    obtain ⟨hl, hc, hgt⟩ := wf_bmp h
    cases hv : valsOfWords ws with
    | nil => rw [wordsCard_eq, hv] at hgt; simp at hgt
    | cons a t => exact ⟨a, (mem_valsOfWords ws a).mp (by rw [hv]; simp)⟩
  | run rs =>
    have hrs := wf_run h
    cases rs with
    | nil => exact absurd rfl hrs.ne
    | cons p t => exact ⟨p.1, by simp [inRuns]⟩

/-- the result of `iaddRange` is never empty -/
theorem wf_iaddRange' (a : Cont) (ha : a.wf = true) (lo hi : Nat) (hhi : hi ≤ 65536) :
    (a.iaddRange lo hi).wfLoose = true := by
  obtain ⟨y, hy⟩ := wf_has_member a ha
  exact wfLoose_of_wfe_has (wf_iaddRange a ha lo hi hhi) (by rw [has_iaddRange a ha lo hi hhi, hy]; rfl)

/-- array and bitmap receivers: the result of `iaddRange` is well-formed in the full sense -/
theorem wf_iaddRange_nonrun (a : Cont) (ha : a.wf = true) (hk : a.isRunC = false) (lo hi : Nat) (hhi : hi ≤ 65536) :
    (a.iaddRange lo hi).wf = true := by
  have h := wf_iaddRange' a ha lo hi hhi
  cases a with
  | run rs => simp [Cont.isRunC] at hk
  | bmp c ws => exact h
  | arr xs =>
    simp only [Cont.iaddRange, arrAddRange] at h ⊢
    split
    · exact ha
    · rename_i hlt
      simp only [hlt, if_false] at h
      split <;> rename_i hc
      · simp only [hc, if_true] at h; exact h
      · simp only [hc, if_false] at h; exact h

/-- array and bitmap receivers: the result of `iremoveRange` is well-formed or empty in the full sense -/
theorem wf_iremoveRange_nonrun (a : Cont) (ha : a.wf = true) (hk : a.isRunC = false) (lo hi : Nat) :
    (a.iremoveRange lo hi).card = 0 ∨ (a.iremoveRange lo hi).wf = true := by
  cases a with
  | run rs => simp [Cont.isRunC] at hk
  | arr xs => exact wfe_filter (wf_arr ha) _
  | bmp c ws =>
    obtain ⟨hl, hc, hgt⟩ := wf_bmp ha
    exact wfe_bmpRemoveRange hl hc lo hi

end RModel.Impl
