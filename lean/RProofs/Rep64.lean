import RProofs.RepOps
import RProofs.BSetQuery
import RModel.Impl.Rep64
/-!
Bucket-level (`roaringArray64`) L2 theorems: membership in the abstraction of a stored 64-bit bitmap (`mem_rep64`), set
semantics and well-formedness of the four static operations `roaring64.And / Or / Xor / AndNot` (`Rep64.and2` …) built on
the 32-bit theorems of `RProofs/RepOps.lean`.
Core Lean only; no `native_decide`, `bv_decide`, axioms.
-/
namespace RModel.Impl
open RModel RModel.BSet RModel.Driver ContOps RepOps R64Ops

/-! ### membership in the abstraction -/

theorem sinc_rep64 (r : Rep64) : SInc r.toBSet := by
  unfold Rep64.toBSet
  exact sinc_unionAll _ (by
    intro s hs; simp at hs; obtain ⟨a, _, rfl⟩ := hs; exact sinc_shiftUp _ (sinc_rep _) _)

/-- no hypotheses: a value is in the set iff some bucket covers it -/
theorem mem_rep64_any (r : Rep64) (x : Nat) :
    mem r.toBSet x =
      r.buckets.any (fun b => decide (b.high * 4294967296 ≤ x) && mem b.bm.toBSet (x - b.high * 4294967296)) := by
  unfold Rep64.toBSet
  rw [mem_unionAll _ (by
    intro s hs; simp at hs; obtain ⟨a, _, rfl⟩ := hs; exact sinc_shiftUp _ (sinc_rep _) _)]
  simp only [List.any_map]
  congr 1
  funext b
  simp [Function.comp, mem_shiftUp]

/-- the checker's fast abstraction is the abstraction, provided the 32-bit fast abstraction is (bucket by bucket) -/
theorem Rep64.toBSetFast_eq (r : Rep64) (h : ∀ b ∈ r.buckets, b.bm.toBSetFast = b.bm.toBSet) :
    r.toBSetFast = r.toBSet := by
  unfold Rep64.toBSetFast Rep64.toBSet
  congr 1
  exact List.map_congr_left (fun b hb => by rw [h b hb])

/-- a 32-bit bitmap only holds values below `2^32` -/
def Rep.Bounded32 (r : Rep) : Prop := ∀ y, mem r.toBSet y = true → y < 4294967296

theorem bounded32_of_wf {r : Rep} (h : r.wf = true) : r.Bounded32 := by
  intro y hy
  have hw := (slotsWf_iff r).mp h
  rw [mem_rep_slots r hw.bounded] at hy
  unfold slotsHas at hy
  rw [List.any_eq_true] at hy
  obtain ⟨s, hs, hk⟩ := hy
  have hlt := (hw.ok s hs).1
  simp only [Bool.and_eq_true, beq_iff_eq] at hk
  omega

/-- membership bucket by bucket -/
def bucketsHas (l : List Bucket) (x : Nat) : Bool :=
  l.any (fun b => b.high == x / 4294967296 && mem b.bm.toBSet (x % 4294967296))

theorem bucket_cover {b : Bucket} (hb : b.bm.Bounded32) (x : Nat) :
    (decide (b.high * 4294967296 ≤ x) && mem b.bm.toBSet (x - b.high * 4294967296)) =
      (b.high == x / 4294967296 && mem b.bm.toBSet (x % 4294967296)) := by
  by_cases hk : b.high = x / 4294967296
  · have h1 : b.high * 4294967296 ≤ x := by rw [hk]; omega
    have h2 : x - b.high * 4294967296 = x % 4294967296 := by rw [hk]; omega
    rw [h2, decide_eq_true h1, Bool.true_and, beq_true_of_eq' hk, Bool.true_and]
  · rw [beq_false_of_ne' hk, Bool.false_and]
    by_cases h1 : b.high * 4294967296 ≤ x
    · rw [decide_eq_true h1, Bool.true_and]
      cases hh : mem b.bm.toBSet (x - b.high * 4294967296) with
      | false => rfl
      | true =>
        exfalso
        have := hb _ hh
        omega
    · rw [decide_eq_false h1, Bool.false_and]

theorem mem_rep64_buckets (r : Rep64) (hb : ∀ b ∈ r.buckets, b.bm.Bounded32) (x : Nat) :
    mem r.toBSet x = bucketsHas r.buckets x := by
  rw [mem_rep64_any]
  unfold bucketsHas
  generalize r.buckets = l at hb
  induction l with
  | nil => simp only [List.any_nil]
  | cons b t ih =>
    rw [List.any_cons, List.any_cons, ih (fun b hb' => hb b (List.mem_cons_of_mem _ hb')), bucket_cover (hb b List.mem_cons_self)]

/-! ### well-formed bucket lists -/

/-- `Rep64.wf` as a proposition about the bucket list -/
structure BucketsWf (l : List Bucket) : Prop where
  sorted : l.Pairwise (fun s t => s.high < t.high)
  ok : ∀ b ∈ l, b.high < 4294967296 ∧ b.bm.wf = true ∧ b.bm.isEmptyGo = false

theorem bucketsWf_iff (r : Rep64) : r.wf = true ↔ BucketsWf r.buckets := by
  simp only [Rep64.wf, Bucket.wf, Bool.and_eq_true, List.all_eq_true, decide_eq_true_eq, Bool.not_eq_true']
  constructor
  · rintro ⟨h1, h2⟩
    exact ⟨List.pairwise_map.mp (pairwise_of_strictInc _ h1), fun b hb => ⟨(h2 b hb).1.1, (h2 b hb).1.2, (h2 b hb).2⟩⟩
  · rintro ⟨h1, h2⟩
    exact ⟨strictInc_of_pairwise _ (List.pairwise_map.mpr h1), fun b hb => ⟨⟨(h2 b hb).1, (h2 b hb).2.1⟩, (h2 b hb).2.2⟩⟩

theorem BucketsWf.nil : BucketsWf [] := ⟨List.Pairwise.nil, fun _ h => by cases h⟩

theorem BucketsWf.tail {s : Bucket} {t : List Bucket} (h : BucketsWf (s :: t)) : BucketsWf t :=
  ⟨(List.pairwise_cons.mp h.sorted).2, fun s' hs' => h.ok s' (by simp [hs'])⟩

theorem BucketsWf.head {s : Bucket} {t : List Bucket} (h : BucketsWf (s :: t)) :
    s.high < 4294967296 ∧ s.bm.wf = true ∧ s.bm.isEmptyGo = false :=
  h.ok s (by simp)

theorem BucketsWf.head_lt {s : Bucket} {t : List Bucket} (h : BucketsWf (s :: t)) : ∀ s' ∈ t, s.high < s'.high :=
  (List.pairwise_cons.mp h.sorted).1

theorem BucketsWf.gt_of_lt_head {k : Nat} {s : Bucket} {t : List Bucket} (h : BucketsWf (s :: t)) (hk : k < s.high) :
    ∀ s' ∈ s :: t, k < s'.high := by
  intro s' hs'
  rcases List.mem_cons.mp hs' with rfl | h'
  · exact hk
  · have := h.head_lt s' h'; omega

theorem BucketsWf.cons {s : Bucket} {t : List Bucket}
    (hs : s.high < 4294967296 ∧ s.bm.wf = true ∧ s.bm.isEmptyGo = false) (ht : BucketsWf t)
    (hlt : ∀ s' ∈ t, s.high < s'.high) : BucketsWf (s :: t) :=
  ⟨List.pairwise_cons.mpr ⟨hlt, ht.sorted⟩, fun s' hs' => by
    rcases List.mem_cons.mp hs' with rfl | h'
    · exact hs
    · exact ht.ok s' h'⟩

theorem BucketsWf.bounded {l : List Bucket} (h : BucketsWf l) : ∀ b ∈ l, b.bm.Bounded32 :=
  fun b hb => bounded32_of_wf (h.ok b hb).2.1

/-! ### bucket-wise membership -/

theorem bucketsHas_nil (x : Nat) : bucketsHas [] x = false := rfl

theorem bucketsHas_cons (s : Bucket) (t : List Bucket) (x : Nat) :
    bucketsHas (s :: t) x = ((s.high == x / 4294967296 && mem s.bm.toBSet (x % 4294967296)) || bucketsHas t x) := rfl

theorem bucketsHas_gt {l : List Bucket} {k : Nat} (h : ∀ s ∈ l, k < s.high) {x : Nat} (hx : x / 4294967296 ≤ k) :
    bucketsHas l x = false := by
  induction l with
  | nil => rfl
  | cons s t ih =>
    rw [bucketsHas_cons, ih (fun s' hs' => h s' (by simp [hs']))]
    have := h s (by simp)
    have : (s.high == x / 4294967296) = false := by
      rw [nat_beq_decide]; apply decide_eq_false; omega
    simp [this]

/-- under well-formedness, `Rep64.has` (look the bucket up, ask the 32-bit bitmap) is bucket-wise membership -/
theorem has_eq_bucketsHas (r : Rep64) (h : BucketsWf r.buckets) (x : Nat) : r.has x = bucketsHas r.buckets x := by
  unfold Rep64.has Rep64.find
  generalize r.buckets = l at h
  induction l with
  | nil => rfl
  | cons s t ih =>
    rw [bucketsHas_cons, List.find?_cons]
    by_cases hk : s.high = x / 4294967296
    · have : (s.high == x / 4294967296) = true := by simp [hk]
      rw [this, bucketsHas_gt h.head_lt (by omega)]
      simp [mem_rep s.bm h.head.2.1]
    · have : (s.high == x / 4294967296) = false := by simpa using hk
      rw [this]
      simpa using ih h.tail

/-- **`mem_rep64`**: `x` is in the set a well-formed stored 64-bit bitmap denotes iff the bucket stored under key
`x / 2^32` exists and its 32-bit bitmap contains `x % 2^32` (`Rep.has`: container `(x % 2^32) / 65536` exists and contains
`x % 65536`) -/
theorem mem_rep64 (r : Rep64) (h : r.wf = true) (x : Nat) : mem r.toBSet x = r.has x := by
  have hw := (bucketsWf_iff r).mp h
  rw [mem_rep64_buckets r hw.bounded, has_eq_bucketsHas r hw]

/-- the propositional form: some bucket has key `x / 2^32` and its bitmap contains `x % 2^32` -/
theorem mem_rep64_iff (r : Rep64) (h : r.wf = true) (x : Nat) :
    mem r.toBSet x = true ↔ ∃ b ∈ r.buckets, b.high = x / 4294967296 ∧ b.bm.has (x % 4294967296) = true := by
  have hw := (bucketsWf_iff r).mp h
  rw [mem_rep64_buckets r hw.bounded]
  unfold bucketsHas
  rw [List.any_eq_true]
  constructor
  · rintro ⟨b, hb, hk⟩
    simp only [Bool.and_eq_true, beq_iff_eq] at hk
    exact ⟨b, hb, hk.1, by rw [← mem_rep b.bm (hw.ok b hb).2.1]; exact hk.2⟩
  · rintro ⟨b, hb, hk, hm⟩
    exact ⟨b, hb, by simp only [Bool.and_eq_true, beq_iff_eq]; exact ⟨hk, by rw [mem_rep b.bm (hw.ok b hb).2.1]; exact hm⟩⟩

/-! ### `Clone()` of a 32-bit bitmap: same keys and containers, only flags differ -/

theorem Rep.toBSet_cloneB (r : Rep) : r.cloneB.toBSet = r.toBSet := by
  simp [Rep.cloneB, Rep.toBSet, List.map_map, Function.comp_def]

theorem Rep.wf_cloneB (r : Rep) : r.cloneB.wf = r.wf := by
  simp [Rep.cloneB, Rep.wf, List.map_map, Function.comp_def, List.all_map]

theorem Rep.isEmptyGo_cloneB (r : Rep) : r.cloneB.isEmptyGo = r.isEmptyGo := by
  simp [Rep.cloneB, Rep.isEmptyGo]

theorem Rep.toBSet_cloneSrcB (r : Rep) : r.cloneSrcB.toBSet = r.toBSet := by
  unfold Rep.cloneSrcB
  split
  · simp [Rep.toBSet, List.map_map, Function.comp_def]
  · rfl

theorem Rep.wf_cloneSrcB (r : Rep) : r.cloneSrcB.wf = r.wf := by
  unfold Rep.cloneSrcB
  split
  · simp [Rep.wf, List.map_map, Function.comp_def, List.all_map]
  · rfl

theorem Rep.isEmptyGo_cloneSrcB (r : Rep) : r.cloneSrcB.isEmptyGo = r.isEmptyGo := by
  unfold Rep.cloneSrcB
  split
  · simp [Rep.isEmptyGo]
  · rfl

/-- a 32-bit bitmap without containers has no members -/
theorem mem_of_isEmptyGo {c : Rep} (h : c.isEmptyGo = true) (y : Nat) : mem c.toBSet y = false := by
  have : c.slots = [] := by simpa [Rep.isEmptyGo] using h
  simp [Rep.toBSet, this, unionAll, unionAllFuel]

/-- a well-formed 32-bit bitmap with a container has a member -/
theorem exists_mem_of_wf {c : Rep} (hw : c.wf = true) (hne : c.isEmptyGo = false) : ∃ y, mem c.toBSet y = true := by
  have hs := (slotsWf_iff c).mp hw
  cases hsl : c.slots with
  | nil => simp [Rep.isEmptyGo, hsl] at hne
  | cons s t =>
    have hsm : s ∈ c.slots := by rw [hsl]; simp
    obtain ⟨y, hy⟩ := exists_has_of_wf (hs.ok s hsm).2
    have hlt := has_lt (hs.ok s hsm).2 hy
    refine ⟨s.key * 65536 + y, ?_⟩
    rw [mem_rep_slots c hs.bounded]
    unfold slotsHas
    rw [List.any_eq_true]
    refine ⟨s, hsm, ?_⟩
    have h1 : (s.key * 65536 + y) / 65536 = s.key := by omega
    have h2 : (s.key * 65536 + y) % 65536 = y := by omega
    simp [h1, h2, hy]

theorem copyBucket_high (b : Bucket) : (copyBucket b).high = b.high := rfl

theorem bucketsHas_map_copyBucket (l : List Bucket) (x : Nat) : bucketsHas (l.map copyBucket) x = bucketsHas l x := by
  induction l with
  | nil => rfl
  | cons s t ih =>
    rw [List.map_cons, bucketsHas_cons, bucketsHas_cons, ih]
    simp [copyBucket, Rep.toBSet_cloneB]

theorem bucketsHas_copyBucket_cons (b : Bucket) (t : List Bucket) (x : Nat) :
    bucketsHas (copyBucket b :: t) x =
      ((b.high == x / 4294967296 && mem b.bm.toBSet (x % 4294967296)) || bucketsHas t x) := by
  rw [bucketsHas_cons]; simp [copyBucket, Rep.toBSet_cloneB]

theorem bucketsHas_keep (k : Nat) (c : Rep) (rest : List Bucket) (x : Nat) :
    bucketsHas (R64Ops.keep k c rest) x = ((k == x / 4294967296 && mem c.toBSet (x % 4294967296)) || bucketsHas rest x) := by
  unfold R64Ops.keep
  cases he : c.isEmptyGo with
  | true => simp [mem_of_isEmptyGo he]
  | false => simp [bucketsHas_cons]

/-! ### set semantics of the four walks, bucket-wise -/

theorem has_orBuckets (a b : List Bucket) (ha : BucketsWf a) (hb : BucketsWf b) (x : Nat) :
    bucketsHas (orBuckets a b) x = (bucketsHas a x || bucketsHas b x) := by
  fun_induction orBuckets a b with
  | case1 b => rw [bucketsHas_map_copyBucket, bucketsHas_nil, Bool.false_or]
  | case2 a h => rw [bucketsHas_map_copyBucket, bucketsHas_nil, Bool.or_false]
  | case3 sa ta sb tb hlt ih =>
    rw [bucketsHas_copyBucket_cons, ih ha.tail hb, bucketsHas_cons sa, Bool.or_assoc]
  | case4 sa ta sb tb hlt hlt2 ih =>
    rw [bucketsHas_copyBucket_cons, ih ha hb.tail, bucketsHas_cons sb tb]
    cases (sb.high == x / 4294967296 && mem sb.bm.toBSet (x % 4294967296)) <;> cases bucketsHas (sa :: ta) x <;> simp
  | case5 sa ta sb tb hlt hlt2 ih =>
    have hk : sb.high = sa.high := by omega
    rw [bucketsHas_cons, ih ha.tail hb.tail, bucketsHas_cons sa, bucketsHas_cons sb, hk]
    simp only [Rep.mem_or2 _ _ ha.head.2.1 hb.head.2.1]
    cases (sa.high == x / 4294967296) <;> cases mem sa.bm.toBSet (x % 4294967296) <;>
      cases mem sb.bm.toBSet (x % 4294967296) <;> cases bucketsHas ta x <;> cases bucketsHas tb x <;> rfl

theorem has_xorBuckets (a b : List Bucket) (ha : BucketsWf a) (hb : BucketsWf b) (x : Nat) :
    bucketsHas (xorBuckets a b) x = (bucketsHas a x != bucketsHas b x) := by
  fun_induction xorBuckets a b with
  | case1 b => rw [bucketsHas_map_copyBucket, bucketsHas_nil]; simp
  | case2 a h => rw [bucketsHas_map_copyBucket, bucketsHas_nil]; simp
  | case3 sa ta sb tb hlt ih =>
    rw [bucketsHas_copyBucket_cons, ih ha.tail hb, bucketsHas_cons sa]
    by_cases hk : sa.high = x / 4294967296
    · rw [bucketsHas_gt (hb.gt_of_lt_head hlt) (by omega), bucketsHas_gt ha.head_lt (by omega)]
      simp
    · rw [beq_false_of_ne' hk]; simp
  | case4 sa ta sb tb hlt hlt2 ih =>
    have hlt' : sb.high < sa.high := by omega
    rw [bucketsHas_copyBucket_cons, ih ha hb.tail, bucketsHas_cons sb tb]
    by_cases hk : sb.high = x / 4294967296
    · rw [bucketsHas_gt (ha.gt_of_lt_head hlt') (by omega), bucketsHas_gt hb.head_lt (by omega)]
      simp
    · rw [beq_false_of_ne' hk]; simp
  | case5 sa ta sb tb hlt hlt2 ih =>
    have hk : sb.high = sa.high := by omega
    rw [bucketsHas_keep, ih ha.tail hb.tail, bucketsHas_cons sa, bucketsHas_cons sb, hk,
      Rep.mem_xor2 _ _ ha.head.2.1 hb.head.2.1]
    by_cases hx : sa.high = x / 4294967296
    · rw [bucketsHas_gt ha.head_lt (by omega), bucketsHas_gt hb.head_lt (by omega), beq_true_of_eq' hx]
      simp
    · rw [beq_false_of_ne' hx]; simp

theorem has_andBuckets (a b : List Bucket) (ha : BucketsWf a) (hb : BucketsWf b) (x : Nat) :
    bucketsHas (andBuckets a b) x = (bucketsHas a x && bucketsHas b x) := by
  fun_induction andBuckets a b with
  | case1 b => rw [bucketsHas_nil, Bool.false_and]
  | case2 a h => rw [bucketsHas_nil, Bool.and_false]
  | case3 sa ta sb tb hlt ih =>
    rw [ih ha.tail hb, bucketsHas_cons sa]
    by_cases hk : sa.high = x / 4294967296
    · rw [bucketsHas_gt (hb.gt_of_lt_head hlt) (by omega)]
      simp
    · rw [beq_false_of_ne' hk]; simp
  | case4 sa ta sb tb hlt hlt2 ih =>
    have hlt' : sb.high < sa.high := by omega
    rw [ih ha hb.tail, bucketsHas_cons sb tb]
    by_cases hk : sb.high = x / 4294967296
    · rw [bucketsHas_gt (ha.gt_of_lt_head hlt') (by omega)]
      simp
    · rw [beq_false_of_ne' hk]; simp
  | case5 sa ta sb tb hlt hlt2 ih =>
    have hk : sb.high = sa.high := by omega
    rw [bucketsHas_keep, ih ha.tail hb.tail, bucketsHas_cons sa, bucketsHas_cons sb, hk,
      Rep.mem_and2 _ _ ha.head.2.1 hb.head.2.1]
    by_cases hx : sa.high = x / 4294967296
    · rw [bucketsHas_gt ha.head_lt (by omega), bucketsHas_gt hb.head_lt (by omega), beq_true_of_eq' hx]
      simp
    · rw [beq_false_of_ne' hx]; simp

theorem has_andNotBuckets (a b : List Bucket) (ha : BucketsWf a) (hb : BucketsWf b) (x : Nat) :
    bucketsHas (andNotBuckets a b) x = (bucketsHas a x && !bucketsHas b x) := by
  fun_induction andNotBuckets a b with
  | case1 b => rw [bucketsHas_nil, Bool.false_and]
  | case2 a h => rw [bucketsHas_map_copyBucket, bucketsHas_nil]; simp
  | case3 sa ta sb tb hlt ih =>
    rw [bucketsHas_copyBucket_cons, ih ha.tail hb, bucketsHas_cons sa]
    by_cases hk : sa.high = x / 4294967296
    · rw [bucketsHas_gt (hb.gt_of_lt_head hlt) (by omega), bucketsHas_gt ha.head_lt (by omega)]
      simp
    · rw [beq_false_of_ne' hk]; simp
  | case4 sa ta sb tb hlt hlt2 ih =>
    have hlt' : sb.high < sa.high := by omega
    rw [ih ha hb.tail, bucketsHas_cons sb tb]
    by_cases hk : sb.high = x / 4294967296
    · rw [bucketsHas_gt (ha.gt_of_lt_head hlt') (by omega)]
      simp
    · rw [beq_false_of_ne' hk]; simp
  | case5 sa ta sb tb hlt hlt2 ih =>
    have hk : sb.high = sa.high := by omega
    rw [bucketsHas_keep, ih ha.tail hb.tail, bucketsHas_cons sa, bucketsHas_cons sb, hk,
      Rep.mem_andNot2 _ _ ha.head.2.1 hb.head.2.1]
    by_cases hx : sa.high = x / 4294967296
    · rw [bucketsHas_gt ha.head_lt (by omega), bucketsHas_gt hb.head_lt (by omega), beq_true_of_eq' hx]
      simp
    · rw [beq_false_of_ne' hx]; simp

/-! ### the results are well-formed -/

theorem mem_keep64 {k : Nat} {c : Rep} {rest : List Bucket} {s : Bucket} (h : s ∈ R64Ops.keep k c rest) :
    s.high = k ∨ s ∈ rest := by
  unfold R64Ops.keep at h
  split at h
  · exact Or.inr h
  · rcases List.mem_cons.mp h with rfl | h'
    · exact Or.inl rfl
    · exact Or.inr h'

theorem gt_tail64 {k : Nat} {s : Bucket} {t : List Bucket} (h : ∀ s' ∈ s :: t, k < s'.high) : ∀ s' ∈ t, k < s'.high :=
  fun s' hs' => h s' (by simp [hs'])

theorem gt_map_copyBucket {k : Nat} {l : List Bucket} (h : ∀ s ∈ l, k < s.high) : ∀ s ∈ l.map copyBucket, k < s.high := by
  intro s hs
  obtain ⟨b, hb, rfl⟩ := List.mem_map.mp hs
  exact h b hb

theorem gt_orBuckets (k : Nat) (a b : List Bucket) (ha : ∀ s ∈ a, k < s.high) (hb : ∀ s ∈ b, k < s.high) :
    ∀ s ∈ orBuckets a b, k < s.high := by
  fun_induction orBuckets a b with
  | case1 b => exact gt_map_copyBucket hb
  | case2 a h => exact gt_map_copyBucket ha
  | case3 sa ta sb tb hlt ih =>
    intro s hs
    rcases List.mem_cons.mp hs with h | h'
    · rw [h]; exact ha sa (by simp)
    · exact ih (gt_tail64 ha) hb s h'
  | case4 sa ta sb tb hlt hlt2 ih =>
    intro s hs
    rcases List.mem_cons.mp hs with h | h'
    · rw [h]; exact hb sb (by simp)
    · exact ih ha (gt_tail64 hb) s h'
  | case5 sa ta sb tb hlt hlt2 ih =>
    intro s hs
    rcases List.mem_cons.mp hs with h | h'
    · rw [h]; exact ha sa (by simp)
    · exact ih (gt_tail64 ha) (gt_tail64 hb) s h'

theorem gt_xorBuckets (k : Nat) (a b : List Bucket) (ha : ∀ s ∈ a, k < s.high) (hb : ∀ s ∈ b, k < s.high) :
    ∀ s ∈ xorBuckets a b, k < s.high := by
  fun_induction xorBuckets a b with
  | case1 b => exact gt_map_copyBucket hb
  | case2 a h => exact gt_map_copyBucket ha
  | case3 sa ta sb tb hlt ih =>
    intro s hs
    rcases List.mem_cons.mp hs with h | h'
    · rw [h]; exact ha sa (by simp)
    · exact ih (gt_tail64 ha) hb s h'
  | case4 sa ta sb tb hlt hlt2 ih =>
    intro s hs
    rcases List.mem_cons.mp hs with h | h'
    · rw [h]; exact hb sb (by simp)
    · exact ih ha (gt_tail64 hb) s h'
  | case5 sa ta sb tb hlt hlt2 ih =>
    intro s hs
    rcases mem_keep64 hs with h' | h'
    · rw [h']; exact ha sa (by simp)
    · exact ih (gt_tail64 ha) (gt_tail64 hb) s h'

theorem gt_andBuckets (k : Nat) (a b : List Bucket) (ha : ∀ s ∈ a, k < s.high) :
    ∀ s ∈ andBuckets a b, k < s.high := by
  fun_induction andBuckets a b with
  | case1 b => intro s hs; cases hs
  | case2 a h => intro s hs; cases hs
  | case3 sa ta sb tb hlt ih => exact ih (gt_tail64 ha)
  | case4 sa ta sb tb hlt hlt2 ih => exact ih ha
  | case5 sa ta sb tb hlt hlt2 ih =>
    intro s hs
    rcases mem_keep64 hs with h' | h'
    · rw [h']; exact ha sa (by simp)
    · exact ih (gt_tail64 ha) s h'

theorem gt_andNotBuckets (k : Nat) (a b : List Bucket) (ha : ∀ s ∈ a, k < s.high) :
    ∀ s ∈ andNotBuckets a b, k < s.high := by
  fun_induction andNotBuckets a b with
  | case1 b => intro s hs; cases hs
  | case2 a h => exact gt_map_copyBucket ha
  | case3 sa ta sb tb hlt ih =>
    intro s hs
    rcases List.mem_cons.mp hs with h | h'
    · rw [h]; exact ha sa (by simp)
    · exact ih (gt_tail64 ha) s h'
  | case4 sa ta sb tb hlt hlt2 ih => exact ih ha
  | case5 sa ta sb tb hlt hlt2 ih =>
    intro s hs
    rcases mem_keep64 hs with h' | h'
    · rw [h']; exact ha sa (by simp)
    · exact ih (gt_tail64 ha) s h'

theorem wf_copyBucket {b : Bucket} (h : b.high < 4294967296 ∧ b.bm.wf = true ∧ b.bm.isEmptyGo = false) :
    (copyBucket b).high < 4294967296 ∧ (copyBucket b).bm.wf = true ∧ (copyBucket b).bm.isEmptyGo = false := by
  simp only [copyBucket, Rep.wf_cloneB, Rep.isEmptyGo_cloneB]
  exact h

theorem wf_map_copyBucket {l : List Bucket} (h : BucketsWf l) : BucketsWf (l.map copyBucket) :=
  ⟨List.Pairwise.map _ (fun _ _ h => h) h.sorted, fun s hs => by
    obtain ⟨b, hb, rfl⟩ := List.mem_map.mp hs
    exact wf_copyBucket (h.ok b hb)⟩

theorem wf_keep64 {k : Nat} {c : Rep} {rest : List Bucket} (hk : k < 4294967296) (hc : c.wf = true)
    (hr : BucketsWf rest) (hlt : ∀ s ∈ rest, k < s.high) : BucketsWf (R64Ops.keep k c rest) := by
  unfold R64Ops.keep
  cases he : c.isEmptyGo with
  | true => simpa using hr
  | false => exact BucketsWf.cons ⟨hk, hc, he⟩ hr hlt

/-- the union of two 32-bit bitmaps of which the first has a container has a container -/
theorem orSlots_ne_nil {a b : List Slot} (ha : a ≠ []) : orSlots a b ≠ [] := by
  cases a with
  | nil => exact absurd rfl ha
  | cons sa ta =>
    cases b with
    | nil => simp [orSlots, map_copySlot]
    | cons sb tb =>
      rw [orSlots]
      split
      · simp
      · split <;> simp

theorem isEmptyGo_or2 {a b : Rep} (ha : a.isEmptyGo = false) : (Rep.or2 a b).isEmptyGo = false := by
  have hne : a.slots ≠ [] := by simpa [Rep.isEmptyGo] using ha
  have := orSlots_ne_nil (b := b.slots) hne
  simpa [Rep.isEmptyGo, Rep.or2] using this

theorem wf_orBuckets (a b : List Bucket) (ha : BucketsWf a) (hb : BucketsWf b) : BucketsWf (orBuckets a b) := by
  fun_induction orBuckets a b with
  | case1 b => exact wf_map_copyBucket hb
  | case2 a h => exact wf_map_copyBucket ha
  | case3 sa ta sb tb hlt ih =>
    exact BucketsWf.cons (wf_copyBucket ha.head) (ih ha.tail hb)
      (gt_orBuckets _ _ _ ha.head_lt (hb.gt_of_lt_head hlt))
  | case4 sa ta sb tb hlt hlt2 ih =>
    have hlt' : sb.high < sa.high := by omega
    exact BucketsWf.cons (wf_copyBucket hb.head) (ih ha hb.tail)
      (gt_orBuckets _ _ _ (ha.gt_of_lt_head hlt') hb.head_lt)
  | case5 sa ta sb tb hlt hlt2 ih =>
    have hk : sb.high = sa.high := by omega
    refine BucketsWf.cons ⟨ha.head.1, Rep.wf_or2 _ _ ha.head.2.1 hb.head.2.1, isEmptyGo_or2 ha.head.2.2⟩
      (ih ha.tail hb.tail)
      (gt_orBuckets _ _ _ ha.head_lt (fun s hs => by have := hb.head_lt s hs; simp only; omega))

theorem wf_xorBuckets (a b : List Bucket) (ha : BucketsWf a) (hb : BucketsWf b) : BucketsWf (xorBuckets a b) := by
  fun_induction xorBuckets a b with
  | case1 b => exact wf_map_copyBucket hb
  | case2 a h => exact wf_map_copyBucket ha
  | case3 sa ta sb tb hlt ih =>
    exact BucketsWf.cons (wf_copyBucket ha.head) (ih ha.tail hb)
      (gt_xorBuckets _ _ _ ha.head_lt (hb.gt_of_lt_head hlt))
  | case4 sa ta sb tb hlt hlt2 ih =>
    have hlt' : sb.high < sa.high := by omega
    exact BucketsWf.cons (wf_copyBucket hb.head) (ih ha hb.tail)
      (gt_xorBuckets _ _ _ (ha.gt_of_lt_head hlt') hb.head_lt)
  | case5 sa ta sb tb hlt hlt2 ih =>
    have hk : sb.high = sa.high := by omega
    exact wf_keep64 ha.head.1 (Rep.wf_xor2 _ _ ha.head.2.1 hb.head.2.1) (ih ha.tail hb.tail)
      (gt_xorBuckets _ _ _ ha.head_lt (fun s hs => by have := hb.head_lt s hs; omega))

theorem wf_andBuckets (a b : List Bucket) (ha : BucketsWf a) (hb : BucketsWf b) : BucketsWf (andBuckets a b) := by
  fun_induction andBuckets a b with
  | case1 b => exact BucketsWf.nil
  | case2 a h => exact BucketsWf.nil
  | case3 sa ta sb tb hlt ih => exact ih ha.tail hb
  | case4 sa ta sb tb hlt hlt2 ih => exact ih ha hb.tail
  | case5 sa ta sb tb hlt hlt2 ih =>
    exact wf_keep64 ha.head.1 (Rep.wf_and2 _ _ ha.head.2.1 hb.head.2.1) (ih ha.tail hb.tail)
      (gt_andBuckets _ _ _ ha.head_lt)

theorem wf_andNotBuckets (a b : List Bucket) (ha : BucketsWf a) (hb : BucketsWf b) :
    BucketsWf (andNotBuckets a b) := by
  fun_induction andNotBuckets a b with
  | case1 b => exact BucketsWf.nil
  | case2 a h => exact wf_map_copyBucket ha
  | case3 sa ta sb tb hlt ih =>
    exact BucketsWf.cons (wf_copyBucket ha.head) (ih ha.tail hb) (gt_andNotBuckets _ _ _ ha.head_lt)
  | case4 sa ta sb tb hlt hlt2 ih => exact ih ha hb.tail
  | case5 sa ta sb tb hlt hlt2 ih =>
    exact wf_keep64 ha.head.1 (Rep.wf_andNot2 _ _ ha.head.2.1 hb.head.2.1) (ih ha.tail hb.tail)
      (gt_andNotBuckets _ _ _ ha.head_lt)

/-- the static 64-bit operations return well-formed bitmaps (keys strictly increasing and `< 2^32`, no empty bucket, every
bucket a well-formed 32-bit bitmap) on well-formed operands -/
theorem Rep64.wf_and2 (a b : Rep64) (ha : a.wf = true) (hb : b.wf = true) : (Rep64.and2 a b).wf = true :=
  (bucketsWf_iff _).mpr (wf_andBuckets _ _ ((bucketsWf_iff a).mp ha) ((bucketsWf_iff b).mp hb))
theorem Rep64.wf_or2 (a b : Rep64) (ha : a.wf = true) (hb : b.wf = true) : (Rep64.or2 a b).wf = true :=
  (bucketsWf_iff _).mpr (wf_orBuckets _ _ ((bucketsWf_iff a).mp ha) ((bucketsWf_iff b).mp hb))
theorem Rep64.wf_xor2 (a b : Rep64) (ha : a.wf = true) (hb : b.wf = true) : (Rep64.xor2 a b).wf = true :=
  (bucketsWf_iff _).mpr (wf_xorBuckets _ _ ((bucketsWf_iff a).mp ha) ((bucketsWf_iff b).mp hb))
theorem Rep64.wf_andNot2 (a b : Rep64) (ha : a.wf = true) (hb : b.wf = true) : (Rep64.andNot2 a b).wf = true :=
  (bucketsWf_iff _).mpr (wf_andNotBuckets _ _ ((bucketsWf_iff a).mp ha) ((bucketsWf_iff b).mp hb))

/-! ### set semantics -/

theorem Rep64.mem_and2 (a b : Rep64) (ha : a.wf = true) (hb : b.wf = true) (x : Nat) :
    mem (Rep64.and2 a b).toBSet x = (mem a.toBSet x && mem b.toBSet x) := by
  have hwa := (bucketsWf_iff a).mp ha
  have hwb := (bucketsWf_iff b).mp hb
  rw [mem_rep64_buckets _ (wf_andBuckets _ _ hwa hwb).bounded, mem_rep64_buckets a hwa.bounded,
    mem_rep64_buckets b hwb.bounded]
  exact has_andBuckets _ _ hwa hwb x

theorem Rep64.mem_or2 (a b : Rep64) (ha : a.wf = true) (hb : b.wf = true) (x : Nat) :
    mem (Rep64.or2 a b).toBSet x = (mem a.toBSet x || mem b.toBSet x) := by
  have hwa := (bucketsWf_iff a).mp ha
  have hwb := (bucketsWf_iff b).mp hb
  rw [mem_rep64_buckets _ (wf_orBuckets _ _ hwa hwb).bounded, mem_rep64_buckets a hwa.bounded,
    mem_rep64_buckets b hwb.bounded]
  exact has_orBuckets _ _ hwa hwb x

theorem Rep64.mem_xor2 (a b : Rep64) (ha : a.wf = true) (hb : b.wf = true) (x : Nat) :
    mem (Rep64.xor2 a b).toBSet x = (mem a.toBSet x != mem b.toBSet x) := by
  have hwa := (bucketsWf_iff a).mp ha
  have hwb := (bucketsWf_iff b).mp hb
  rw [mem_rep64_buckets _ (wf_xorBuckets _ _ hwa hwb).bounded, mem_rep64_buckets a hwa.bounded,
    mem_rep64_buckets b hwb.bounded]
  exact has_xorBuckets _ _ hwa hwb x

theorem Rep64.mem_andNot2 (a b : Rep64) (ha : a.wf = true) (hb : b.wf = true) (x : Nat) :
    mem (Rep64.andNot2 a b).toBSet x = (mem a.toBSet x && !mem b.toBSet x) := by
  have hwa := (bucketsWf_iff a).mp ha
  have hwb := (bucketsWf_iff b).mp hb
  rw [mem_rep64_buckets _ (wf_andNotBuckets _ _ hwa hwb).bounded, mem_rep64_buckets a hwa.bounded,
    mem_rep64_buckets b hwb.bounded]
  exact has_andNotBuckets _ _ hwa hwb x

/-- `roaring64.And` of two well-formed bitmaps denotes the intersection (equality of canonical boundary lists) -/
theorem Rep64.toBSet_and2 (a b : Rep64) (ha : a.wf = true) (hb : b.wf = true) :
    (Rep64.and2 a b).toBSet = BSet.inter a.toBSet b.toBSet :=
  canon_ext_sinc _ _ (sinc_rep64 _) (sinc_combine _ _ _ _ _ (sinc_rep64 a) (sinc_rep64 b))
    (fun x => by rw [Rep64.mem_and2 a b ha hb, mem_inter _ _ (sinc_rep64 a) (sinc_rep64 b)])

/-- `roaring64.Or` of two well-formed bitmaps denotes the union -/
theorem Rep64.toBSet_or2 (a b : Rep64) (ha : a.wf = true) (hb : b.wf = true) :
    (Rep64.or2 a b).toBSet = BSet.union a.toBSet b.toBSet :=
  canon_ext_sinc _ _ (sinc_rep64 _) (sinc_combine _ _ _ _ _ (sinc_rep64 a) (sinc_rep64 b))
    (fun x => by rw [Rep64.mem_or2 a b ha hb, mem_union _ _ (sinc_rep64 a) (sinc_rep64 b)])

/-- `roaring64.Xor` of two well-formed bitmaps denotes the symmetric difference -/
theorem Rep64.toBSet_xor2 (a b : Rep64) (ha : a.wf = true) (hb : b.wf = true) :
    (Rep64.xor2 a b).toBSet = BSet.xor a.toBSet b.toBSet :=
  canon_ext_sinc _ _ (sinc_rep64 _) (sinc_combine _ _ _ _ _ (sinc_rep64 a) (sinc_rep64 b))
    (fun x => by rw [Rep64.mem_xor2 a b ha hb, mem_xor _ _ (sinc_rep64 a) (sinc_rep64 b)])

/-- `roaring64.AndNot` of two well-formed bitmaps denotes the difference -/
theorem Rep64.toBSet_andNot2 (a b : Rep64) (ha : a.wf = true) (hb : b.wf = true) :
    (Rep64.andNot2 a b).toBSet = BSet.diff a.toBSet b.toBSet :=
  canon_ext_sinc _ _ (sinc_rep64 _) (sinc_combine _ _ _ _ _ (sinc_rep64 a) (sinc_rep64 b))
    (fun x => by rw [Rep64.mem_andNot2 a b ha hb, mem_diff _ _ (sinc_rep64 a) (sinc_rep64 b)])

/-! ### the operands afterwards: same set, still well-formed (only inner flags may change) -/

theorem bucketsHas_srcAfterLone (a other : List Bucket) (x : Nat) :
    bucketsHas (srcAfterLone a other) x = bucketsHas a x := by
  unfold srcAfterLone
  induction a with
  | nil => rfl
  | cons s t ih =>
    rw [List.map_cons, bucketsHas_cons, bucketsHas_cons, ih]
    split <;> simp [Rep.toBSet_cloneSrcB]

theorem wf_srcAfterLone (a other : List Bucket) (h : BucketsWf a) : BucketsWf (srcAfterLone a other) := by
  unfold srcAfterLone
  refine ⟨List.Pairwise.map _ (fun s t hst => ?_) h.sorted, fun s hs => ?_⟩
  · show (if _ then s else _).high < (if _ then t else _).high
    split <;> split <;> exact hst
  · obtain ⟨b, hb, rfl⟩ := List.mem_map.mp hs
    split
    · exact h.ok b hb
    · simp only [Rep.wf_cloneSrcB, Rep.isEmptyGo_cloneSrcB]; exact h.ok b hb

theorem Rep64.wf_afterStatic (cl : Bool) (a other : Rep64) (ha : a.wf = true) : (Rep64.afterStatic cl a other).wf = true := by
  unfold Rep64.afterStatic
  cases cl with
  | false => exact ha
  | true => exact (bucketsWf_iff _).mpr (wf_srcAfterLone _ _ ((bucketsWf_iff a).mp ha))

/-- a static operation leaves the set each operand denotes unchanged -/
theorem Rep64.toBSet_afterStatic (cl : Bool) (a other : Rep64) (ha : a.wf = true) :
    (Rep64.afterStatic cl a other).toBSet = a.toBSet := by
  cases cl with
  | false => rfl
  | true =>
    have hwa := (bucketsWf_iff a).mp ha
    refine canon_ext_sinc _ _ (sinc_rep64 _) (sinc_rep64 _) (fun x => ?_)
    rw [mem_rep64_buckets _ (wf_srcAfterLone _ other.buckets hwa).bounded, mem_rep64_buckets a hwa.bounded]
    exact bucketsHas_srcAfterLone _ _ x

/-- the answer of a static operation never has copy-on-write switched on -/
theorem Rep64.cow_ops (a b : Rep64) :
    (Rep64.and2 a b).cow = false ∧ (Rep64.or2 a b).cow = false ∧ (Rep64.xor2 a b).cow = false ∧
      (Rep64.andNot2 a b).cow = false :=
  ⟨rfl, rfl, rfl, rfl⟩

end RModel.Impl
