import RProofs.RepOps
import RProofs.ContMut
import RProofs.ContQuery
import RModel.Impl.RepXform

/-!
The whole-bitmap transforms of `RModel/Impl/RepXform.lean` — `AddOffset64`, the static `Flip`, `ToDense` / `DenseSize` /
`FromDense` — denote the verified set-level operations of `BSet` and keep the representation well-formed, for every
well-formed operand (`Rep.wf`).  The model is tied to the Go code by the `l2off / l2sflip / l2dense / l2fromdense`
correspondence check (`Driver/L2Xform.lean`): for a well-formed operand the rendering of the model result is literally the Go
result.

Main statements (namespace `RModel.Impl`):
* `has_addOffset`, `wf_addOffset`      — the two halves of `container.addOffset(off)`: membership, well-formedness;
* `Rep.mem_addOffset64`, `Rep.toBSet_addOffset64 : (a.addOffset64 d).toBSet = BSet.shift U32 a.toBSet d`, `Rep.wf_addOffset64`;
* `Rep.mem_flipStatic`, `Rep.toBSet_flipStatic : … = BSet.flipRange a.toBSet lo hi` (`hi ≤ 2^32`), `Rep.wf_flipStatic`,
  `Rep.toBSet_flipStaticSrc` (the operand keeps its set);
* `Rep.length_toDense`, `Rep.testBit_toDense` (bit `i` of the words ↔ `i` in the set), `Rep.denseSize_spec`;
* `Rep.mem_fromDense`, `Rep.toBSet_fromDense`, `Rep.wf_fromDense`, round trip `Rep.toBSet_fromDense_toDense`,
  `Rep.wf_fromDense_toDense`.
Everything else lives in the auxiliary namespace `RModel.Impl.XformP`.
Core Lean only; no `native_decide`, `bv_decide`, axioms, `sorry`.
-/
namespace RModel.Impl
open RModel RModel.BSet RModel.Driver ContOps ContMut RepOps RepXform

namespace XformP

/-! ### container level: `addOffset` -/

/-- membership in an optional container (`none` = Go `nil` = nothing) -/
def optHas (o : Option Cont) (y : Nat) : Bool :=
  match o with
  | some c => c.has y
  | none => false

/-- an optional container is well-formed when it is there -/
def optWf (o : Option Cont) : Prop := ∀ c, o = some c → c.wf = true

theorem optHas_arr_ite (l : List Nat) (y : Nat) :
    optHas (if l.isEmpty then none else some (.arr l)) y = l.contains y := by
  cases l with
  | nil => rfl
  | cons a t => rfl

theorem optHas_run_ite (l : List (Nat × Nat)) (y : Nat) (hb : RunBound 65535 l) :
    optHas (if l.isEmpty then none else some (runToEfficient l)) y = inRuns l y := by
  cases l with
  | nil => rfl
  | cons a t => simp only [List.isEmpty_cons, Bool.false_eq_true, if_false, optHas]; exact has_runToEfficient _ hb y

theorem contains_arrLo (xs : List Nat) (off y : Nat) :
    ((xs.filter fun v => v + off < 65536).map (· + off)).contains y
      = (decide (off ≤ y) && decide (y < 65536) && xs.contains (y - off)) := by
  rw [Bool.eq_iff_iff]
  simp only [List.contains_iff_mem, List.mem_map, List.mem_filter, decide_eq_true_eq, Bool.and_eq_true]
  constructor
  · rintro ⟨v, ⟨hv, hlt⟩, rfl⟩
    refine ⟨⟨by omega, hlt⟩, ?_⟩
    rw [Nat.add_sub_cancel]; exact hv
  · rintro ⟨⟨h1, h2⟩, h3⟩
    exact ⟨y - off, ⟨h3, by omega⟩, by omega⟩

theorem contains_arrHi (xs : List Nat) (off y : Nat) (hoff : off ≤ 65536) :
    ((xs.filter fun v => !decide (v + off < 65536)).map (· + off - 65536)).contains y
      = xs.contains (y + 65536 - off) := by
  rw [Bool.eq_iff_iff]
  simp only [List.contains_iff_mem, List.mem_map, List.mem_filter, Bool.not_eq_true', decide_eq_false_iff_not]
  constructor
  · rintro ⟨v, ⟨hv, hlt⟩, rfl⟩
    have : v + off - 65536 + 65536 - off = v := by omega
    rw [this]; exact hv
  · intro h
    exact ⟨y + 65536 - off, ⟨h, by omega⟩, by omega⟩

theorem has_arrAddOffset (xs : List Nat) (off y : Nat) (hoff : off ≤ 65536) :
    optHas (arrAddOffset xs off).1 y = (decide (off ≤ y) && decide (y < 65536) && xs.contains (y - off)) ∧
    optHas (arrAddOffset xs off).2 y = xs.contains (y + 65536 - off) := by
  unfold arrAddOffset
  exact ⟨by rw [optHas_arr_ite, contains_arrLo], by rw [optHas_arr_ite, contains_arrHi _ _ _ hoff]⟩

theorem inRuns_runOffLo (rs : List (Nat × Nat)) (off y : Nat) :
    inRuns (runOffLo rs off) y = (decide (off ≤ y) && decide (y < 65536) && inRuns rs (y - off)) := by
  rw [Bool.eq_iff_iff]
  simp only [Bool.and_eq_true, decide_eq_true_eq, inRuns_iff, runOffLo, List.mem_flatMap]
  constructor
  · rintro ⟨p, ⟨q, hq, hp⟩, h1, h2⟩
    obtain ⟨s, l⟩ := q
    simp only at hp
    split at hp
    · simp only [List.mem_singleton] at hp
      subst hp
      simp only at h1 h2
      exact ⟨⟨by omega, by omega⟩, (s, l), hq, by simp only; omega, by simp only; omega⟩
    · simp at hp
  · rintro ⟨⟨h1, h2⟩, q, hq, h3, h4⟩
    obtain ⟨s, l⟩ := q
    simp only at h3 h4
    refine ⟨(s + off, min l (65535 - (s + off))), ⟨(s, l), hq, ?_⟩, by simp only; omega, by simp only; omega⟩
    simp only
    rw [if_pos (by omega)]
    simp

theorem inRuns_runOffHi (rs : List (Nat × Nat)) (off y : Nat) (hoff : off ≤ 65536) (hb : RunBound 65535 rs) :
    inRuns (runOffHi rs off) y = inRuns rs (y + 65536 - off) := by
  rw [Bool.eq_iff_iff]
  simp only [inRuns_iff, runOffHi, List.mem_flatMap]
  constructor
  · rintro ⟨p, ⟨q, hq, hp⟩, h1, h2⟩
    obtain ⟨s, l⟩ := q
    simp only at hp
    refine ⟨(s, l), hq, ?_⟩
    split at hp
    · split at hp
      · simp at hp
      · simp only [List.mem_singleton] at hp
        subst hp
        simp only at h1 h2 ⊢
        omega
    · simp only [List.mem_singleton] at hp
      subst hp
      simp only at h1 h2 ⊢
      omega
  · rintro ⟨q, hq, h3, h4⟩
    obtain ⟨s, l⟩ := q
    have hbq := hb _ hq
    simp only at h3 h4 hbq
    by_cases hc : s + off ≤ 65535
    · refine ⟨(0, s + off + l - 65536), ⟨(s, l), hq, ?_⟩, by simp only; omega, by simp only; omega⟩
      simp only
      rw [if_pos hc, if_neg (by omega)]
      simp
    · refine ⟨(s + off - 65536, l), ⟨(s, l), hq, ?_⟩, by simp only; omega, by simp only; omega⟩
      simp only
      rw [if_neg hc]
      simp

theorem bound_runOffLo (rs : List (Nat × Nat)) (off : Nat) : RunBound 65535 (runOffLo rs off) := by
  intro p hp
  simp only [runOffLo, List.mem_flatMap] at hp
  obtain ⟨⟨s, l⟩, _, hp⟩ := hp
  simp only at hp
  split at hp
  · simp only [List.mem_singleton] at hp
    subst hp
    simp only
    omega
  · simp at hp

theorem bound_runOffHi (rs : List (Nat × Nat)) (off : Nat) (hoff : off ≤ 65536) (hb : RunBound 65535 rs) :
    RunBound 65535 (runOffHi rs off) := by
  intro p hp
  simp only [runOffHi, List.mem_flatMap] at hp
  obtain ⟨⟨s, l⟩, hq, hp⟩ := hp
  have hbq := hb _ hq
  simp only at hp hbq
  split at hp
  · split at hp
    · simp at hp
    · simp only [List.mem_singleton] at hp
      subst hp
      simp only
      omega
  · simp only [List.mem_singleton] at hp
    subst hp
    simp only
    omega

theorem sep_runOffLo (rs : List (Nat × Nat)) (off : Nat) (hs : RunSep rs) : RunSep (runOffLo rs off) := by
  unfold runOffLo RunSep
  rw [List.pairwise_flatMap]
  constructor
  · rintro ⟨s, l⟩ _
    simp only
    split <;> simp
  · refine hs.imp ?_
    rintro ⟨s, l⟩ ⟨s', l'⟩ h x hx y hy
    simp only at hx hy h
    split at hx
    · split at hy
      · simp only [List.mem_singleton] at hx hy
        subst hx; subst hy
        simp only
        omega
      · simp at hy
    · simp at hx

theorem sep_runOffHi (rs : List (Nat × Nat)) (off : Nat) (hs : RunSep rs) (hb : RunBound 65535 rs) :
    RunSep (runOffHi rs off) := by
  unfold runOffHi RunSep
  rw [List.pairwise_flatMap]
  constructor
  · rintro ⟨s, l⟩ _
    simp only
    split
    · split <;> simp
    · simp
  · have hs' : rs.Pairwise (fun p q => p.1 + p.2 + 1 < q.1 ∧ p.1 + p.2 ≤ 65535 ∧ q.1 + q.2 ≤ 65535) := by
      rw [List.pairwise_iff_forall_sublist]
      intro p q hpq
      have h1 := List.pairwise_iff_forall_sublist.mp hs hpq
      exact ⟨h1, hb _ (hpq.subset (by simp)), hb _ (hpq.subset (by simp))⟩
    refine hs'.imp ?_
    rintro ⟨s, l⟩ ⟨s', l'⟩ ⟨h, h1, h2⟩ x hx y hy
    simp only at hx hy h h1 h2
    split at hx
    · split at hx
      · simp at hx
      · simp only [List.mem_singleton] at hx
        subst hx
        split at hy
        · split at hy
          · simp at hy
          · simp only [List.mem_singleton] at hy
            subst hy
            simp only
            omega
        · simp only [List.mem_singleton] at hy
          subst hy
          simp only
          omega
    · simp only [List.mem_singleton] at hx
      subst hx
      split at hy
      · split at hy
        · simp at hy
        · simp only [List.mem_singleton] at hy
          subst hy
          simp only
          omega
      · simp only [List.mem_singleton] at hy
        subst hy
        simp only
        omega

theorem has_runAddOffset (rs : List (Nat × Nat)) (off y : Nat) (hoff : off ≤ 65536) (hb : RunBound 65535 rs) :
    optHas (runAddOffset rs off).1 y = (decide (off ≤ y) && decide (y < 65536) && inRuns rs (y - off)) ∧
    optHas (runAddOffset rs off).2 y = inRuns rs (y + 65536 - off) := by
  unfold runAddOffset
  exact ⟨by rw [optHas_run_ite _ _ (bound_runOffLo rs off), inRuns_runOffLo],
    by rw [optHas_run_ite _ _ (bound_runOffHi rs off hoff hb), inRuns_runOffHi _ _ _ hoff hb]⟩


theorem getD_cons_zero (ws : List (BitVec 64)) (k : Nat) :
    (0#64 :: ws).getD k 0#64 = if k = 0 then 0#64 else ws.getD (k - 1) 0#64 := by
  cases k with
  | zero => rfl
  | succ n => simp

theorem getD_append_zero (ws : List (BitVec 64)) (k : Nat) :
    (ws ++ [0#64]).getD k 0#64 = ws.getD k 0#64 := by
  simp only [List.getD_eq_getElem?_getD, List.getElem?_append]
  split
  · rfl
  · rename_i h
    rw [List.getElem?_eq_none (by omega : ws.length ≤ k)]
    cases hk : k - ws.length with
    | zero => simp
    | succ n => simp

theorem getD_zipWith_shift (ws : List (BitVec 64)) (i k : Nat) :
    (List.zipWith (fun (cur prev : BitVec 64) => (cur <<< i) ||| (prev >>> (64 - i))) (ws ++ [0#64]) (0#64 :: ws)).getD k 0#64
      = (ws.getD k 0#64 <<< i) ||| ((if k = 0 then 0#64 else ws.getD (k - 1) 0#64) >>> (64 - i)) := by
  by_cases hk : k < ws.length + 1
  · have h1 : (ws ++ [0#64])[k]? = some ((ws ++ [0#64]).getD k 0#64) := by
      rw [List.getD_eq_getElem?_getD, List.getElem?_eq_getElem (by simp; omega)]; simp
    have h2 : (0#64 :: ws)[k]? = some ((0#64 :: ws).getD k 0#64) := by
      rw [List.getD_eq_getElem?_getD, List.getElem?_eq_getElem (by simp; omega)]; simp
    rw [List.getD_eq_getElem?_getD, List.getElem?_zipWith, h1, h2]
    simp only [Option.getD_some]
    rw [getD_append_zero, getD_cons_zero]
  · have hz : ws.getD k 0#64 = 0#64 := by
      rw [List.getD_eq_getElem?_getD, List.getElem?_eq_none (by omega)]; rfl
    have hz' : ws.getD (k - 1) 0#64 = 0#64 := by
      rw [List.getD_eq_getElem?_getD, List.getElem?_eq_none (by omega)]; rfl
    rw [List.getD_eq_getElem?_getD, List.getElem?_eq_none (by simp; omega), hz, hz', if_neg (by omega)]
    simp

theorem getD_replicate_zero (n k : Nat) : (List.replicate n 0#64).getD k 0#64 = 0#64 := by
  rw [List.getD_eq_getElem?_getD, List.getElem?_replicate]
  split <;> rfl

theorem getD_append' (a b : List (BitVec 64)) (k : Nat) :
    (a ++ b).getD k 0#64 = if k < a.length then a.getD k 0#64 else b.getD (k - a.length) 0#64 := by
  simp only [List.getD_eq_getElem?_getD, List.getElem?_append]
  split <;> rfl

theorem length_shiftZip (ws : List (BitVec 64)) (i : Nat) :
    (List.zipWith (fun (cur prev : BitVec 64) => (cur <<< i) ||| (prev >>> (64 - i))) (ws ++ [0#64]) (0#64 :: ws)).length
      = ws.length + 1 := by
  simp

theorem getD_shiftedWords (ws : List (BitVec 64)) (off m : Nat) :
    (shiftedWords ws off).getD m 0#64 =
      if m < off / 64 then 0#64
      else (ws.getD (m - off / 64) 0#64 <<< (off % 64)) |||
        ((if m = off / 64 then 0#64 else ws.getD (m - off / 64 - 1) 0#64) >>> (64 - off % 64)) := by
  unfold shiftedWords
  simp only
  rw [List.append_assoc, getD_append', List.length_replicate]
  split
  · exact getD_replicate_zero _ _
  · rename_i h
    rw [getD_append', length_shiftZip]
    split
    · rw [getD_zipWith_shift]
      congr 2
      by_cases hm : m = off / 64
      · simp [hm]
      · rw [if_neg (by omega), if_neg hm]
    · rename_i h2
      rw [getD_replicate_zero]
      have hz : ws.getD (m - off / 64) 0#64 = 0#64 := by
        rw [List.getD_eq_getElem?_getD, List.getElem?_eq_none (by omega)]; rfl
      have hz' : ws.getD (m - off / 64 - 1) 0#64 = 0#64 := by
        rw [List.getD_eq_getElem?_getD, List.getElem?_eq_none (by omega)]; rfl
      rw [hz, hz', if_neg (by omega)]
      simp

theorem length_shiftedWords (ws : List (BitVec 64)) (off : Nat) (hl : ws.length = 1024) (hoff : off < 65536) :
    (shiftedWords ws off).length = 2048 := by
  unfold shiftedWords
  simp only [List.length_append, List.length_replicate, length_shiftZip]
  omega

theorem testBit_shiftedWords (ws : List (BitVec 64)) (off x : Nat) :
    testBit (shiftedWords ws off) x = (decide (off ≤ x) && testBit ws (x - off)) := by
  unfold testBit
  rw [getD_shiftedWords]
  by_cases h1 : x / 64 < off / 64
  · rw [if_pos h1]
    have : ¬ off ≤ x := by omega
    simp [this]
  · rw [if_neg h1]
    simp only [BitVec.getLsbD_or, BitVec.getLsbD_shiftLeft, BitVec.getLsbD_ushiftRight]
    have hj : x % 64 < 64 := Nat.mod_lt _ (by omega)
    by_cases h2 : x % 64 < off % 64
    · -- low bits come from the previous word
      have e1 : (decide (x % 64 < 64) && !decide (x % 64 < off % 64) && (ws.getD (x / 64 - off / 64) 0#64).getLsbD (x % 64 - off % 64)) = false := by
        simp [h2]
      rw [e1, Bool.false_or]
      by_cases h3 : x / 64 = off / 64
      · rw [if_pos h3]
        have : ¬ off ≤ x := by omega
        simp [this]
      · rw [if_neg h3]
        have hle : off ≤ x := by omega
        have e2 : (x - off) / 64 = x / 64 - off / 64 - 1 := by omega
        have e3 : (x - off) % 64 = 64 - off % 64 + x % 64 := by omega
        rw [e2, e3]
        simp [hle]
    · have hle : off ≤ x := by omega
      have e2 : (x - off) / 64 = x / 64 - off / 64 := by omega
      have e3 : (x - off) % 64 = x % 64 - off % 64 := by omega
      rw [e2, e3]
      have e4 : ((if x / 64 = off / 64 then 0#64 else ws.getD (x / 64 - off / 64 - 1) 0#64)).getLsbD (64 - off % 64 + x % 64) = false := by
        apply BitVec.getLsbD_of_ge
        omega
      rw [e4]
      simp [hle, hj, h2]

theorem testBit_take (l : List (BitVec 64)) (n x : Nat) :
    testBit (l.take n) x = (decide (x / 64 < n) && testBit l x) := by
  unfold testBit
  rw [List.getD_eq_getElem?_getD, List.getD_eq_getElem?_getD, List.getElem?_take]
  by_cases h : x / 64 < n
  · simp [h]
  · simp [h]

theorem testBit_drop (l : List (BitVec 64)) (n x : Nat) :
    testBit (l.drop n) x = testBit l (x + 64 * n) := by
  unfold testBit
  rw [List.getD_eq_getElem?_getD, List.getD_eq_getElem?_getD, List.getElem?_drop]
  have e1 : (x + 64 * n) / 64 = n + x / 64 := by omega
  have e2 : (x + 64 * n) % 64 = x % 64 := by omega
  rw [e1, e2]

theorem testBit_shiftLo (ws : List (BitVec 64)) (off y : Nat) :
    testBit ((shiftedWords ws off).take 1024) y = (decide (off ≤ y) && decide (y < 65536) && testBit ws (y - off)) := by
  rw [testBit_take, testBit_shiftedWords]
  have : decide (y / 64 < 1024) = decide (y < 65536) := by
    apply decide_eq_decide.mpr; omega
  rw [this]
  cases decide (off ≤ y) <;> cases decide (y < 65536) <;> simp

theorem testBit_shiftHi (ws : List (BitVec 64)) (off y : Nat) (hoff : off ≤ 65536) :
    testBit ((shiftedWords ws off).drop 1024) y = testBit ws (y + 65536 - off) := by
  rw [testBit_drop, testBit_shiftedWords]
  have : off ≤ y + 64 * 1024 := by omega
  simp [this]

theorem length_shiftLo (ws : List (BitVec 64)) (off : Nat) (hl : ws.length = 1024) (hoff : off < 65536) :
    ((shiftedWords ws off).take 1024).length = 1024 := by
  rw [List.length_take, length_shiftedWords ws off hl hoff]; rfl

theorem length_shiftHi (ws : List (BitVec 64)) (off : Nat) (hl : ws.length = 1024) (hoff : off < 65536) :
    ((shiftedWords ws off).drop 1024).length = 1024 := by
  rw [List.length_drop, length_shiftedWords ws off hl hoff]

/-- the low half holds exactly the values that do not cross the chunk boundary -/
theorem wordsCard_shiftLo (ws : List (BitVec 64)) (off : Nat) :
    wordsCard ((shiftedWords ws off).take 1024) = ((valsOfWords ws).filter fun v => v + off < 65536).length := by
  have := wordsCard_eq_length (ws := (shiftedWords ws off).take 1024)
    (l := ((valsOfWords ws).filter fun v => v + off < 65536).map (· + off))
    (by
      refine nodup_of_sorted ?_
      rw [List.pairwise_map]
      exact ((sorted_valsOfWords ws).filter _).imp (by intro a b h; omega))
    (by
      intro x
      rw [testBit_shiftLo, ← contains_valsOfWords, ← List.contains_iff_mem, contains_arrLo])
  rw [this, List.length_map]

/-- (low half, high half) of a well-formed bitmap container: membership -/
theorem has_bmpAddOffset (c : Int) (ws : List (BitVec 64)) (hw : (Cont.bmp c ws).wf = true) (off y : Nat)
    (hoff : off < 65536) :
    optHas (bmpAddOffset c ws off).1 y = (decide (off ≤ y) && decide (y < 65536) && testBit ws (y - off)) ∧
    optHas (bmpAddOffset c ws off).2 y = testBit ws (y + 65536 - off) := by
  obtain ⟨hl, hc, hgt⟩ := wf_bmp hw
  unfold bmpAddOffset
  have hc0 : (c == 0) = false := by
    rw [hc]; simp only [beq_eq_false_iff_ne, ne_eq]; omega
  rw [hc0]
  simp only [Bool.false_eq_true, if_false]
  split
  · rename_i heq
    refine ⟨by simp only [optHas, Cont.has]; exact testBit_shiftLo ws off y, ?_⟩
    simp only [optHas]
    cases ht : testBit ws (y + 65536 - off) with
    | false => rfl
    | true =>
      exfalso
      have h1 : (wordsCard ((shiftedWords ws off).take 1024) : Int) = c := by simpa using heq
      rw [hc, wordsCard_shiftLo, wordsCard_eq] at h1
      have h2 := List.length_filter_eq_length_iff.mp (Int.ofNat_inj.mp h1) (y + 65536 - off)
        ((mem_valsOfWords ws _).mpr ht)
      simp only [decide_eq_true_eq] at h2
      omega
  · split
    · rename_i _ h0
      have h0' : wordsCard ((shiftedWords ws off).take 1024) = 0 := by simpa using h0
      refine ⟨?_, by simp only [optHas]; rw [has_ofWordsArrArr]; exact testBit_shiftHi ws off y (by omega)⟩
      simp only [optHas]
      rw [← testBit_shiftLo, testBit_false_of_card0 _ h0']
    · exact ⟨by simp only [optHas]; rw [has_ofWordsArrArr]; exact testBit_shiftLo ws off y,
        by simp only [optHas]; rw [has_ofWordsArrArr]; exact testBit_shiftHi ws off y (by omega)⟩


theorem optWf_none : optWf none := fun _ h => by cases h
theorem optWf_some {c : Cont} (h : c.wf = true) : optWf (some c) := fun _ h' => by cases h'; exact h

theorem optWf_arr_ite (l : List Nat) (h : ArrOk l) : optWf (if l.isEmpty then none else some (.arr l)) := by
  cases l with
  | nil => exact optWf_none
  | cons a t =>
    refine optWf_some ?_
    rcases wfe_arr h with h0 | h0
    · simp [Cont.card] at h0
    · exact h0

theorem optWf_run_ite (l : List (Nat × Nat)) (hs : RunSep l) (hb : RunBound 65535 l) :
    optWf (if l.isEmpty then none else some (runToEfficient l)) := by
  cases l with
  | nil => exact optWf_none
  | cons p t =>
    refine optWf_some (wf_of_wfe_has (wfe_runToEfficient _ hs hb) (y := p.1) ?_)
    rw [has_runToEfficient _ hb, inRuns_cons]
    simp

theorem wf_arrAddOffset (xs : List Nat) (hxs : ArrWf xs) (off : Nat) (hoff : off ≤ 65536) :
    optWf (arrAddOffset xs off).1 ∧ optWf (arrAddOffset xs off).2 := by
  unfold arrAddOffset
  constructor
  · apply optWf_arr_ite
    refine ⟨?_, ?_, ?_⟩
    · rw [List.length_map]; exact Nat.le_trans (List.length_filter_le _ _) hxs.le
    · rw [List.pairwise_map]
      exact (hxs.sorted.filter _).imp (by intro a b h; omega)
    · intro v hv
      simp only [List.mem_map, List.mem_filter, decide_eq_true_eq] at hv
      obtain ⟨a, ⟨_, h⟩, rfl⟩ := hv
      exact h
  · apply optWf_arr_ite
    refine ⟨?_, ?_, ?_⟩
    · rw [List.length_map]; exact Nat.le_trans (List.length_filter_le _ _) hxs.le
    · rw [List.pairwise_map]
      have : (xs.filter fun v => !decide (v + off < 65536)).Pairwise (fun a b => a < b ∧ 65536 ≤ a + off) := by
        rw [List.pairwise_iff_forall_sublist]
        intro a b hab
        have h1 := List.pairwise_iff_forall_sublist.mp (hxs.sorted.filter _) hab
        have h2 := hab.subset (List.mem_cons_self)
        simp only [List.mem_filter, Bool.not_eq_true', decide_eq_false_iff_not] at h2
        exact ⟨h1, by omega⟩
      exact this.imp (by intro a b h; omega)
    · intro v hv
      simp only [List.mem_map, List.mem_filter, Bool.not_eq_true', decide_eq_false_iff_not] at hv
      obtain ⟨a, ⟨ha, h⟩, rfl⟩ := hv
      have := hxs.bound a ha
      omega

theorem wf_runAddOffset (rs : List (Nat × Nat)) (hrs : RunWf rs) (off : Nat) (hoff : off ≤ 65536) :
    optWf (runAddOffset rs off).1 ∧ optWf (runAddOffset rs off).2 := by
  unfold runAddOffset
  exact ⟨optWf_run_ite _ (sep_runOffLo rs off hrs.sep) (bound_runOffLo rs off),
    optWf_run_ite _ (sep_runOffHi rs off hrs.sep hrs.bound) (bound_runOffHi rs off hoff hrs.bound)⟩

theorem wf_ofWordsArrArr_of_testBit {ws : List (BitVec 64)} (hl : ws.length = 1024) {y : Nat} (hy : testBit ws y = true) :
    (ofWordsArrArr ws).wf = true :=
  wf_of_wfe_has (wfe_ofWordsArrArr hl) (y := y) (by rw [has_ofWordsArrArr]; exact hy)

theorem wf_bmpAddOffset (c : Int) (ws : List (BitVec 64)) (hw : (Cont.bmp c ws).wf = true) (off : Nat)
    (hoff : off < 65536) :
    optWf (bmpAddOffset c ws off).1 ∧ optWf (bmpAddOffset c ws off).2 := by
  obtain ⟨hl, hc, hgt⟩ := wf_bmp hw
  have hlo := length_shiftLo ws off hl hoff
  have hhi := length_shiftHi ws off hl hoff
  -- when the low half does not hold everything, the high half holds something
  have hwit : wordsCard ((shiftedWords ws off).take 1024) ≠ wordsCard ws →
      ∃ y, testBit ((shiftedWords ws off).drop 1024) y = true := by
    intro hne
    rw [wordsCard_shiftLo, wordsCard_eq] at hne
    have h1 : ∃ z, z ∈ valsOfWords ws ∧ ¬ z + off < 65536 := by
      apply Classical.byContradiction
      intro hcon
      apply hne
      apply List.length_filter_eq_length_iff.mpr
      intro a ha
      simp only [decide_eq_true_eq]
      apply Classical.byContradiction
      intro hh
      exact hcon ⟨a, ha, hh⟩
    obtain ⟨z, hz, hz2⟩ := h1
    refine ⟨z + off - 65536, ?_⟩
    rw [testBit_shiftHi ws off _ (by omega)]
    have : z + off - 65536 + 65536 - off = z := by omega
    rw [this]
    exact (mem_valsOfWords ws z).mp hz
  unfold bmpAddOffset
  have hc0 : (c == 0) = false := by
    rw [hc]; simp only [beq_eq_false_iff_ne, ne_eq]; omega
  rw [hc0]
  simp only [Bool.false_eq_true, if_false]
  split
  · rename_i heq
    have h1 : (wordsCard ((shiftedWords ws off).take 1024) : Int) = c := by simpa using heq
    refine ⟨optWf_some (wf_bmp_mk hlo rfl ?_), optWf_none⟩
    rw [hc] at h1
    have := Int.ofNat_inj.mp h1
    omega
  · rename_i hne
    have hne' : wordsCard ((shiftedWords ws off).take 1024) ≠ wordsCard ws := by
      intro h
      apply hne
      rw [hc, h]
      simp
    obtain ⟨yh, hyh⟩ := hwit hne'
    split
    · exact ⟨optWf_none, optWf_some (wf_ofWordsArrArr_of_testBit hhi hyh)⟩
    · rename_i h0
      have hpos : 0 < wordsCard ((shiftedWords ws off).take 1024) := by
        have : wordsCard ((shiftedWords ws off).take 1024) ≠ 0 := by simpa using h0
        omega
      obtain ⟨yl, hyl⟩ := exists_testBit_of_card_pos hpos
      exact ⟨optWf_some (wf_ofWordsArrArr_of_testBit hlo hyl), optWf_some (wf_ofWordsArrArr_of_testBit hhi hyh)⟩

/-- **membership of the two halves** of `container.addOffset(off)`, `off < 65536`, for a well-formed container:
the low half holds `v + off` for the values with `v + off < 65536`, the high half `v + off - 65536` for the others -/
theorem _root_.RModel.Impl.has_addOffset (c : Cont) (hc : c.wf = true) (off y : Nat) (hoff : off < 65536) :
    optHas (c.addOffset off).1 y = (decide (off ≤ y) && decide (y < 65536) && c.has (y - off)) ∧
    optHas (c.addOffset off).2 y = c.has (y + 65536 - off) := by
  cases c with
  | arr xs => exact has_arrAddOffset xs off y (by omega)
  | bmp k ws => exact has_bmpAddOffset k ws hc off y hoff
  | run rs => exact has_runAddOffset rs off y (by omega) (wf_run hc).bound

/-- the halves that are not `nil` are well-formed containers -/
theorem _root_.RModel.Impl.wf_addOffset (c : Cont) (hc : c.wf = true) (off : Nat) (hoff : off < 65536) :
    optWf (c.addOffset off).1 ∧ optWf (c.addOffset off).2 := by
  cases c with
  | arr xs => exact wf_arrAddOffset xs (wf_arr hc) off (by omega)
  | bmp k ws => exact wf_bmpAddOffset k ws hc off hoff
  | run rs => exact wf_runAddOffset rs (wf_run hc) off (by omega)


/-! ### `AddOffset64` -/

theorem shift_slot_arith (p : Nat → Bool) (hp : ∀ w, p w = true → w < 65536) (key : Nat) (co : Int) (off : Nat)
    (hoff : off < 65536) (x : Nat) :
    ((decide ((key : Int) + co = ((x / 65536 : Nat) : Int)) &&
        (decide (off ≤ x % 65536) && decide (x % 65536 < 65536) && p (x % 65536 - off))) ||
      (decide ((key : Int) + co + 1 = ((x / 65536 : Nat) : Int)) && p (x % 65536 + 65536 - off)))
    = (decide (0 ≤ (x : Int) - (co * 65536 + off)) &&
        ((key == ((x : Int) - (co * 65536 + off)).toNat / 65536) &&
          p (((x : Int) - (co * 65536 + off)).toNat % 65536))) := by
  have hpf : ∀ w, ¬ w < 65536 → p w = false := by
    intro w hw
    cases h : p w with
    | false => rfl
    | true => exact absurd (hp w h) hw
  have hy : x % 65536 < 65536 := Nat.mod_lt _ (by omega)
  generalize hz : ((x : Int) - (co * 65536 + off)).toNat = z
  by_cases h1 : off ≤ x % 65536
  · rw [hpf (x % 65536 + 65536 - off) (by omega)]
    simp only [Bool.and_false, Bool.or_false, h1, hy, decide_true, Bool.true_and]
    by_cases hk : (key : Int) + co = ((x / 65536 : Nat) : Int)
    · have e1 : z / 65536 = key := by omega
      have e2 : z % 65536 = x % 65536 - off := by omega
      have e3 : 0 ≤ (x : Int) - (co * 65536 + off) := by omega
      rw [e1, e2, decide_eq_true hk, decide_eq_true e3]
      simp
    · simp only [hk, decide_false, Bool.false_and]
      by_cases e3 : 0 ≤ (x : Int) - (co * 65536 + off)
      · have e1 : z / 65536 ≠ key := by omega
        have : (key == z / 65536) = false := by
          rw [nat_beq_decide]; exact decide_eq_false (fun h => e1 h.symm)
        rw [this]; simp
      · rw [decide_eq_false e3]; simp
  · simp only [h1, decide_false, Bool.false_and, Bool.and_false, Bool.false_or]
    by_cases hk : (key : Int) + co + 1 = ((x / 65536 : Nat) : Int)
    · have e1 : z / 65536 = key := by omega
      have e2 : z % 65536 = x % 65536 + 65536 - off := by omega
      have e3 : 0 ≤ (x : Int) - (co * 65536 + off) := by omega
      rw [e1, e2, decide_eq_true hk, decide_eq_true e3]
      simp
    · simp only [hk, decide_false, Bool.false_and]
      by_cases e3 : 0 ≤ (x : Int) - (co * 65536 + off)
      · have e1 : z / 65536 ≠ key := by omega
        have : (key == z / 65536) = false := by
          rw [nat_beq_decide]; exact decide_eq_false (fun h => e1 h.symm)
        rw [this]; simp
      · rw [decide_eq_false e3]; simp

theorem slotsHas_append (a b : List Slot) (x : Nat) : slotsHas (a ++ b) x = (slotsHas a x || slotsHas b x) :=
  List.any_append

/-- key in range, container well-formed -/
def SlotOk (s : Slot) : Prop := s.key < 65536 ∧ s.c.wf = true

theorem slotsHas_top {l : List Slot} (h : ∀ s ∈ l, SlotOk s) {x : Nat} (hx : ¬ x < 4294967296) : slotsHas l x = false := by
  induction l with
  | nil => rfl
  | cons s t ih =>
    rw [slotsHas_cons, ih (fun s' hs' => h s' (by simp [hs']))]
    have := (h s (by simp)).1
    have : (s.key == x / 65536) = false := by
      rw [nat_beq_decide]; apply decide_eq_false; omega
    simp [this]

theorem mem_optSlot {k : Int} {o : Option Cont} {p : Slot} (h : p ∈ optSlot k o) :
    o = some p.c ∧ 0 ≤ k ∧ k ≤ 65535 ∧ p.key = k.toNat := by
  cases o with
  | none => simp [optSlot] at h
  | some c =>
    simp only [optSlot] at h
    split at h
    · rename_i hk
      simp only [List.mem_singleton] at h
      subst h
      exact ⟨rfl, hk.1, hk.2, rfl⟩
    · simp at h

theorem slotsHas_optSlot (k : Int) (o : Option Cont) (x : Nat) (hx : x < 4294967296) :
    slotsHas (optSlot k o) x = (decide (k = ((x / 65536 : Nat) : Int)) && optHas o (x % 65536)) := by
  cases o with
  | none => simp [optSlot, slotsHas, optHas]
  | some c =>
    simp only [optSlot]
    split
    · rename_i h
      simp only [slotsHas, List.any_cons, List.any_nil, Bool.or_false, optHas]
      congr 1
      rw [nat_beq_decide]
      apply decide_eq_decide.mpr
      omega
    · rename_i h
      have : ¬ k = ((x / 65536 : Nat) : Int) := by omega
      rw [decide_eq_false this]
      rfl

/-- what one source container contributes: the values `v + d` of its values `v` (inside the universe) -/
theorem slotsHas_offPieces (co : Int) (off : Nat) (hoff : off < 65536) (s : Slot) (hc : s.c.wf = true) (x : Nat)
    (hx : x < 4294967296) :
    slotsHas (offPieces co off s) x =
      (decide (0 ≤ (x : Int) - (co * 65536 + off)) &&
        ((s.key == ((x : Int) - (co * 65536 + off)).toNat / 65536) &&
          s.c.has (((x : Int) - (co * 65536 + off)).toNat % 65536))) := by
  rw [← shift_slot_arith s.c.has (fun w hw => has_lt hc hw) s.key co off hoff x]
  have hy : x % 65536 < 65536 := Nat.mod_lt _ (by omega)
  unfold offPieces
  simp only
  split
  · rename_i h0
    have h0' : off = 0 := by simpa using h0
    subst h0'
    rw [slotsHas_optSlot _ _ _ hx, has_false_of_ge hc (by omega : ¬ x % 65536 + 65536 - 0 < 65536)]
    simp [optHas, hy]
  · rw [slotsHas_append, slotsHas_optSlot _ _ _ hx, slotsHas_optSlot _ _ _ hx,
      (has_addOffset s.c hc off (x % 65536) hoff).1, (has_addOffset s.c hc off (x % 65536) hoff).2]

theorem offPieces_ok (co : Int) (off : Nat) (hoff : off < 65536) (s : Slot) (hc : s.c.wf = true) :
    ∀ p ∈ offPieces co off s, SlotOk p ∧ (s.key : Int) + co ≤ p.key ∧ (p.key : Int) ≤ s.key + co + 1 := by
  intro p hp
  unfold offPieces at hp
  simp only at hp
  split at hp
  · obtain ⟨h1, h2, h3, h4⟩ := mem_optSlot hp
    have : p.c = s.c := (Option.some.inj h1).symm
    exact ⟨⟨by omega, by rw [this]; exact hc⟩, by omega, by omega⟩
  · rw [List.mem_append] at hp
    have hw := wf_addOffset s.c hc off hoff
    rcases hp with hp | hp
    · obtain ⟨h1, h2, h3, h4⟩ := mem_optSlot hp
      exact ⟨⟨by omega, hw.1 _ h1⟩, by omega, by omega⟩
    · obtain ⟨h1, h2, h3, h4⟩ := mem_optSlot hp
      exact ⟨⟨by omega, hw.2 _ h1⟩, by omega, by omega⟩

theorem wf_ior2_ne (a b : Cont) (ha : a.wf = true) (hb : b.wf = true) : (a.ior2 b).wf = true := by
  obtain ⟨y, hy⟩ := exists_has_of_wf ha
  exact wf_of_wfe_has (wf_ior2 a b ha hb) (y := y) (by rw [has_ior2 a b ha hb, hy]; rfl)

theorem consMerge_ok (p : Slot) (rest : List Slot) (hp : SlotOk p) (hr : ∀ s ∈ rest, SlotOk s) :
    ∀ s ∈ consMerge p rest, SlotOk s := by
  unfold consMerge
  cases rest with
  | nil => intro s hs; simp only [List.mem_singleton] at hs; subst hs; exact hp
  | cons h t =>
    simp only
    split
    · intro s hs
      rcases List.mem_cons.mp hs with rfl | hs
      · exact ⟨hp.1, wf_ior2_ne _ _ hp.2 (hr h (by simp)).2⟩
      · exact hr s (by simp [hs])
    · intro s hs
      rcases List.mem_cons.mp hs with rfl | hs
      · exact hp
      · exact hr s hs

theorem slotsHas_consMerge (p : Slot) (rest : List Slot) (hp : SlotOk p) (hr : ∀ s ∈ rest, SlotOk s) (x : Nat) :
    slotsHas (consMerge p rest) x = ((p.key == x / 65536 && p.c.has (x % 65536)) || slotsHas rest x) := by
  unfold consMerge
  cases rest with
  | nil => rfl
  | cons h t =>
    simp only
    split
    · rename_i hk
      have hk' : h.key = p.key := by simpa using Eq.symm (by simpa using hk : p.key = h.key)
      simp only [slotsHas_cons]
      rw [has_ior2 _ _ hp.2 (hr h (by simp)).2, hk']
      cases (p.key == x / 65536)
      · simp
      · simp only [Bool.true_and]
        exact Bool.or_assoc _ _ _
    · rfl

theorem foldr_consMerge_ok (ps rest : List Slot) (hp : ∀ s ∈ ps, SlotOk s) (hr : ∀ s ∈ rest, SlotOk s) :
    ∀ s ∈ ps.foldr consMerge rest, SlotOk s := by
  induction ps with
  | nil => exact hr
  | cons p t ih =>
    rw [List.foldr_cons]
    exact consMerge_ok p _ (hp p (by simp)) (ih (fun s hs => hp s (by simp [hs])))

theorem slotsHas_foldr_consMerge (ps rest : List Slot) (hp : ∀ s ∈ ps, SlotOk s) (hr : ∀ s ∈ rest, SlotOk s) (x : Nat) :
    slotsHas (ps.foldr consMerge rest) x = (slotsHas ps x || slotsHas rest x) := by
  induction ps with
  | nil => simp [slotsHas_nil]
  | cons p t ih =>
    rw [List.foldr_cons, slotsHas_consMerge p _ (hp p (by simp))
      (foldr_consMerge_ok t rest (fun s hs => hp s (by simp [hs])) hr), ih (fun s hs => hp s (by simp [hs])),
      slotsHas_cons, Bool.or_assoc]

theorem offWalk_ok (co : Int) (off : Nat) (hoff : off < 65536) (l : List Slot) (hl : ∀ s ∈ l, s.c.wf = true) :
    ∀ s ∈ offWalk co off l, SlotOk s := by
  induction l with
  | nil => intro s hs; simp [offWalk] at hs
  | cons s t ih =>
    rw [offWalk]
    exact foldr_consMerge_ok _ _ (fun p hp => (offPieces_ok co off hoff s (hl s (by simp)) p hp).1)
      (ih (fun s' hs' => hl s' (by simp [hs'])))

theorem slotsHas_offWalk (co : Int) (off : Nat) (hoff : off < 65536) (l : List Slot) (hl : ∀ s ∈ l, s.c.wf = true)
    (x : Nat) (hx : x < 4294967296) :
    slotsHas (offWalk co off l) x =
      (decide (0 ≤ (x : Int) - (co * 65536 + off)) && slotsHas l ((x : Int) - (co * 65536 + off)).toNat) := by
  induction l with
  | nil => simp [offWalk, slotsHas_nil]
  | cons s t ih =>
    rw [offWalk, slotsHas_foldr_consMerge _ _
      (fun p hp => (offPieces_ok co off hoff s (hl s (by simp)) p hp).1)
      (offWalk_ok co off hoff t (fun s' hs' => hl s' (by simp [hs']))),
      ih (fun s' hs' => hl s' (by simp [hs'])), slotsHas_offPieces co off hoff s (hl s (by simp)) x hx, slotsHas_cons,
      Bool.and_or_distrib_left]

theorem sinc_shift (U : Nat) (s : BSet) (hs : SInc s) (d : Int) : SInc (BSet.shift U s d) := by
  unfold BSet.shift
  split
  · exact sinc_combine _ _ _ _ _ (sinc_shiftUp s hs _) (sinc_range 0 U)
  · exact sinc_combine _ _ _ _ _ (sinc_shiftDown s hs _) (sinc_range 0 U)

theorem bounded_of_ok {l : List Slot} (h : ∀ s ∈ l, SlotOk s) : ∀ s ∈ l, s.c.Bounded :=
  fun s hs => bounded_of_wf (h s hs).2

/-- **membership after `AddOffset64`**: `x` is in the answer iff `x < 2^32`, `x - d ≥ 0` and `x - d` was in the operand -/
theorem _root_.RModel.Impl.Rep.mem_addOffset64 (a : Rep) (ha : a.wf = true) (d : Int) (x : Nat) :
    mem (a.addOffset64 d).toBSet x =
      (decide (x < U32) && decide (0 ≤ (x : Int) - d) && mem a.toBSet ((x : Int) - d).toNat) := by
  have hwa := (slotsWf_iff a).mp ha
  have hok : ∀ s ∈ a.slots, SlotOk s := hwa.ok
  have hwf : ∀ s ∈ a.slots, s.c.wf = true := fun s hs => (hwa.ok s hs).2
  rw [mem_rep_slots a hwa.bounded]
  have hoff : (d % 65536).toNat < 65536 := by omega
  have hd : d = d / 65536 * 65536 + ((d % 65536).toNat : Int) := by omega
  unfold Rep.addOffset64
  simp only
  split
  · rename_i hco
    rw [mem_rep_slots _ (by intro s hs; cases hs)]
    simp only [slotsHas_nil, U32]
    by_cases hx : x < 4294967296
    · by_cases h0 : 0 ≤ (x : Int) - d
      · have : ¬ ((x : Int) - d).toNat < 4294967296 := by omega
        rw [slotsHas_top hok this]; simp
      · rw [decide_eq_false h0]; simp
    · simp [hx]
  · rw [mem_rep_slots _ (bounded_of_ok (offWalk_ok _ _ hoff _ hwf))]
    by_cases hx : x < 4294967296
    · rw [slotsHas_offWalk _ _ hoff _ hwf x hx, ← hd]
      simp [U32, hx]
    · rw [slotsHas_top (offWalk_ok _ _ hoff _ hwf) hx]
      simp [U32, hx]

/-- **`AddOffset64` denotes `BSet.shift`** (equality of canonical boundary lists) -/
theorem _root_.RModel.Impl.Rep.toBSet_addOffset64 (a : Rep) (ha : a.wf = true) (d : Int) :
    (a.addOffset64 d).toBSet = BSet.shift U32 a.toBSet d :=
  canon_ext_sinc _ _ (sinc_rep _) (sinc_shift _ _ (sinc_rep a) d)
    (fun x => by rw [Rep.mem_addOffset64 a ha d x, mem_shift U32 _ (sinc_rep a) d x])


abbrev KeySorted (l : List Slot) : Prop := l.Pairwise (fun s t => s.key < t.key)

theorem consMerge_keys (p : Slot) (rest : List Slot) : ∀ q ∈ consMerge p rest, q.key = p.key ∨ q ∈ rest := by
  unfold consMerge
  cases rest with
  | nil => intro q hq; simp only [List.mem_singleton] at hq; subst hq; exact Or.inl rfl
  | cons h t =>
    simp only
    split
    · intro q hq
      rcases List.mem_cons.mp hq with rfl | hq
      · exact Or.inl rfl
      · exact Or.inr (by simp [hq])
    · intro q hq
      rcases List.mem_cons.mp hq with rfl | hq
      · exact Or.inl rfl
      · exact Or.inr hq

theorem consMerge_sorted (p : Slot) (rest : List Slot) (hs : KeySorted rest) (hle : ∀ r ∈ rest, p.key ≤ r.key) :
    KeySorted (consMerge p rest) := by
  unfold consMerge
  cases rest with
  | nil => simp [KeySorted]
  | cons h t =>
    simp only
    have hht := List.pairwise_cons.mp hs
    split
    · rename_i hk
      have hk' : p.key = h.key := by simpa using hk
      exact List.pairwise_cons.mpr ⟨fun r hr => by have := hht.1 r hr; simp only; omega, hht.2⟩
    · rename_i hk
      have hk' : p.key ≠ h.key := by simpa using hk
      refine List.pairwise_cons.mpr ⟨fun r hr => ?_, hs⟩
      rcases List.mem_cons.mp hr with rfl | hr
      · have := hle r (by simp); omega
      · have := hht.1 r hr; have := hle h (by simp); omega

theorem foldr_consMerge_keys (ps rest : List Slot) :
    ∀ q ∈ ps.foldr consMerge rest, (∃ p ∈ ps, q.key = p.key) ∨ q ∈ rest := by
  induction ps with
  | nil => intro q hq; exact Or.inr hq
  | cons p t ih =>
    intro q hq
    rw [List.foldr_cons] at hq
    rcases consMerge_keys p _ q hq with h | h
    · exact Or.inl ⟨p, by simp, h⟩
    · rcases ih q h with ⟨p', hp', h'⟩ | h'
      · exact Or.inl ⟨p', by simp [hp'], h'⟩
      · exact Or.inr h'

theorem foldr_consMerge_sorted (ps rest : List Slot) (hps : KeySorted ps) (hs : KeySorted rest)
    (hle : ∀ p ∈ ps, ∀ r ∈ rest, p.key ≤ r.key) : KeySorted (ps.foldr consMerge rest) := by
  induction ps with
  | nil => exact hs
  | cons p t ih =>
    rw [List.foldr_cons]
    have hpt := List.pairwise_cons.mp hps
    refine consMerge_sorted p _ (ih hpt.2 (fun p' hp' => hle p' (by simp [hp']))) ?_
    intro r hr
    rcases foldr_consMerge_keys t rest r hr with ⟨p', hp', h'⟩ | h'
    · have := hpt.1 p' hp'; omega
    · exact hle p (by simp) r h'

theorem offPieces_sorted (co : Int) (off : Nat) (s : Slot) : KeySorted (offPieces co off s) := by
  unfold offPieces
  simp only
  split
  · cases h : optSlot ((s.key : Int) + co) (some s.c) with
    | nil => simp [KeySorted]
    | cons a t =>
      simp only [optSlot] at h
      split at h
      · cases h; simp [KeySorted]
      · cases h
  · unfold KeySorted
    rw [List.pairwise_append]
    refine ⟨?_, ?_, ?_⟩
    · cases (s.c.addOffset off).1 with
      | none => simp [optSlot]
      | some c => simp only [optSlot]; split <;> simp
    · cases (s.c.addOffset off).2 with
      | none => simp [optSlot]
      | some c => simp only [optSlot]; split <;> simp
    · intro a ha b hb
      obtain ⟨_, h2, h3, h4⟩ := mem_optSlot ha
      obtain ⟨_, h2', h3', h4'⟩ := mem_optSlot hb
      omega

theorem offWalk_sorted (co : Int) (off : Nat) (hoff : off < 65536) (l : List Slot) (hl : SlotsWf l) :
    KeySorted (offWalk co off l) ∧ ∀ q ∈ offWalk co off l, ∃ s ∈ l, (s.key : Int) + co ≤ q.key := by
  induction l with
  | nil => simp [offWalk, KeySorted]
  | cons s t ih =>
    obtain ⟨ih1, ih2⟩ := ih hl.tail
    have hpk := offPieces_ok co off hoff s hl.head.2
    rw [offWalk]
    constructor
    · refine foldr_consMerge_sorted _ _ (offPieces_sorted co off s) ih1 ?_
      intro p hp r hr
      obtain ⟨s', hs', h'⟩ := ih2 r hr
      have := hl.head_lt s' hs'
      have := (hpk p hp).2.2
      omega
    · intro q hq
      rcases foldr_consMerge_keys _ _ q hq with ⟨p, hp, h⟩ | h
      · exact ⟨s, by simp, by have := (hpk p hp).2.1; omega⟩
      · obtain ⟨s', hs', h'⟩ := ih2 q h
        exact ⟨s', by simp [hs'], h'⟩

/-- **`AddOffset64` of a well-formed bitmap is well-formed** -/
theorem _root_.RModel.Impl.Rep.wf_addOffset64 (a : Rep) (ha : a.wf = true) (d : Int) : (a.addOffset64 d).wf = true := by
  have hwa := (slotsWf_iff a).mp ha
  have hoff : (d % 65536).toNat < 65536 := by omega
  rw [slotsWf_iff]
  unfold Rep.addOffset64
  simp only
  split
  · exact SlotsWf.nil
  · exact ⟨(offWalk_sorted _ _ hoff _ hwa).1, offWalk_ok _ _ hoff _ (fun s hs => (hwa.ok s hs).2)⟩


/-! ### dense conversion -/

theorem testBit_append (a b : List (BitVec 64)) (n x : Nat) (ha : a.length = 1024 * n) :
    testBit (a ++ b) x = if x / 65536 < n then testBit a x else testBit b (x - 65536 * n) := by
  unfold testBit
  rw [getD_append', ha]
  by_cases h : x / 65536 < n
  · rw [if_pos h, if_pos (by omega)]
  · rw [if_neg h, if_neg (by omega)]
    have e1 : (x - 65536 * n) / 64 = x / 64 - 1024 * n := by omega
    have e2 : (x - 65536 * n) % 64 = x % 64 := by omega
    rw [e1, e2]

theorem length_flatMap_blocks (f : Nat → List (BitVec 64)) (hf : ∀ k, (f k).length = 1024) (n : Nat) :
    ((List.range n).flatMap f).length = 1024 * n := by
  induction n with
  | zero => rfl
  | succ n ih =>
    rw [List.range_succ, List.flatMap_append, List.length_append, ih]
    simp [hf]
    omega

theorem testBit_flatMap_blocks (f : Nat → List (BitVec 64)) (hf : ∀ k, (f k).length = 1024) (n x : Nat) :
    testBit ((List.range n).flatMap f) x = (decide (x / 65536 < n) && testBit (f (x / 65536)) (x % 65536)) := by
  induction n with
  | zero => simp [testBit]
  | succ n ih =>
    rw [List.range_succ, List.flatMap_append, testBit_append _ _ n x (length_flatMap_blocks f hf n), ih]
    by_cases h : x / 65536 < n
    · have : x / 65536 < n + 1 := by omega
      simp [h, this]
    · rw [if_neg h]
      simp only [List.flatMap_cons, List.flatMap_nil, List.append_nil]
      by_cases h2 : x / 65536 = n
      · have e : x - 65536 * n = x % 65536 := by omega
        rw [e, ← h2]
        simp
      · have : ¬ x / 65536 < n + 1 := by omega
        rw [decide_eq_false this, Bool.false_and]
        apply testBit_of_ge
        rw [hf]
        omega

/-- the block `toDense` writes for chunk key `k` -/
def denseBlock (a : Rep) (k : Nat) : List (BitVec 64) :=
  match a.find k with
  | some c => c.toBitmapWords
  | none => emptyWords

theorem find_wf (a : Rep) (hw : SlotsWf a.slots) {k : Nat} {c : Cont} (h : a.find k = some c) : c.wf = true := by
  unfold Rep.find at h
  cases hf : a.slots.find? (·.key == k) with
  | none => rw [hf] at h; cases h
  | some s =>
    rw [hf] at h
    have : s.c = c := by simpa using h
    rw [← this]
    exact (hw.ok s (List.mem_of_find?_eq_some hf)).2

theorem length_denseBlock (a : Rep) (hw : SlotsWf a.slots) (k : Nat) : (denseBlock a k).length = 1024 := by
  unfold denseBlock
  cases h : a.find k with
  | none => exact length_emptyWords
  | some c => exact length_toBitmapWords (find_wf a hw h)

theorem testBit_denseBlock (a : Rep) (hw : SlotsWf a.slots) (x : Nat) :
    testBit (denseBlock a (x / 65536)) (x % 65536) = a.has x := by
  unfold denseBlock Rep.has
  cases h : a.find (x / 65536) with
  | none => exact testBit_emptyWords _
  | some c => exact testBit_toBitmapWords (find_wf a hw h) _

theorem toDense_eq (a : Rep) (ys : List Slot) (s : Slot) (h : a.slots = ys ++ [s]) :
    a.toDense = ((List.range (s.key + 1)).flatMap (denseBlock a)).take a.denseSize := by
  unfold Rep.toDense
  rw [h, List.getLast?_append]
  simp only [List.getLast?_singleton, Option.some_or]
  rfl

theorem denseSize_eq (a : Rep) (ys : List Slot) (s : Slot) (h : a.slots = ys ++ [s]) :
    a.denseSize = (s.key * 65536 + s.c.maximumQ.toNat + 1 + 63) / 64 := by
  unfold Rep.denseSize
  rw [h, List.getLast?_append]
  simp

/-- every value of the bitmap lies below `64 · DenseSize()`, and its chunk key is at most the last key -/
theorem has_lt_denseSize (a : Rep) (hw : SlotsWf a.slots) (ys : List Slot) (s : Slot) (h : a.slots = ys ++ [s])
    (x : Nat) (hx : a.has x = true) : x / 65536 ≤ s.key ∧ x / 64 < a.denseSize := by
  rw [has_eq_slotsHas a hw, h, slotsHas_append] at hx
  rw [denseSize_eq a ys s h]
  have hs := hw.sorted
  rw [h, List.pairwise_append] at hs
  have hsok := hw.ok s (by rw [h]; simp)
  obtain ⟨v, hv, hvh, hvmax⟩ := has_max s.c (wfQ_of_wf hsok.2)
  rw [hv]
  simp only [Int.toNat_natCast]
  rcases Bool.or_eq_true _ _ ▸ hx with hx | hx
  · -- in an earlier chunk
    unfold slotsHas at hx
    rw [List.any_eq_true] at hx
    obtain ⟨s', hs', hk⟩ := hx
    simp only [Bool.and_eq_true, beq_iff_eq] at hk
    have := hs.2.2 s' hs' s (by simp)
    omega
  · simp only [slotsHas_cons, slotsHas_nil, Bool.or_false, Bool.and_eq_true, beq_iff_eq] at hx
    have : x % 65536 ≤ v := by
      apply Classical.byContradiction
      intro hcon
      have := hvmax (x % 65536) (by omega)
      rw [this] at hx
      exact absurd hx.2 (by simp)
    omega

theorem slots_snoc_or_nil (l : List Slot) : l = [] ∨ ∃ ys s, l = ys ++ [s] := by
  rcases List.eq_nil_or_concat l with h | ⟨ys, s, h⟩
  · exact Or.inl h
  · exact Or.inr ⟨ys, s, by simpa using h⟩

/-- **`ToDense` has `DenseSize()` words** -/
theorem _root_.RModel.Impl.Rep.length_toDense (a : Rep) (ha : a.wf = true) : a.toDense.length = a.denseSize := by
  have hw := (slotsWf_iff a).mp ha
  rcases slots_snoc_or_nil a.slots with h | ⟨ys, s, h⟩
  · simp [Rep.toDense, Rep.denseSize, h]
  · rw [toDense_eq a ys s h, List.length_take, length_flatMap_blocks _ (length_denseBlock a hw)]
    have hsok := hw.ok s (by rw [h]; simp)
    obtain ⟨v, hv, hvh, _⟩ := has_max s.c (wfQ_of_wf hsok.2)
    have := has_lt hsok.2 hvh
    rw [denseSize_eq a ys s h, hv]
    simp only [Int.toNat_natCast]
    omega

/-- **`ToDense` is the characteristic bit vector**: bit `i` of the word list is set iff `i` is in the set -/
theorem _root_.RModel.Impl.Rep.testBit_toDense (a : Rep) (ha : a.wf = true) (i : Nat) : testBit a.toDense i = mem a.toBSet i := by
  have hw := (slotsWf_iff a).mp ha
  rw [mem_rep a ha]
  rcases slots_snoc_or_nil a.slots with h | ⟨ys, s, h⟩
  · have : a.toDense = [] := by simp [Rep.toDense, h]
    rw [this, has_eq_slotsHas a hw, h]
    simp [testBit, slotsHas]
  · rw [toDense_eq a ys s h, testBit_take, testBit_flatMap_blocks _ (length_denseBlock a hw), testBit_denseBlock a hw]
    cases hx : a.has i with
    | false => simp
    | true =>
      obtain ⟨h1, h2⟩ := has_lt_denseSize a hw ys s h i hx
      have : i / 65536 < s.key + 1 := by omega
      simp [h2, this]

theorem testBit_append_zeros (ws : List (BitVec 64)) (n x : Nat) :
    testBit (ws ++ List.replicate n 0#64) x = testBit ws x := by
  unfold testBit
  rw [getD_append']
  split
  · rfl
  · rename_i h
    rw [getD_replicate_zero, List.getD_eq_getElem?_getD, List.getElem?_eq_none (by omega)]
    rfl

theorem wordsCard_append_zeros (ws : List (BitVec 64)) (n : Nat) :
    wordsCard (ws ++ List.replicate n 0#64) = wordsCard ws := by
  unfold wordsCard
  rw [List.map_append, List.sum_append, List.map_replicate, popcount_zero]
  simp

theorem denseChunk_spec (k : Nat) (words : List (BitVec 64)) (hl : words.length ≤ 1024) (doCopy : Bool) :
    (∀ s ∈ denseChunk k words doCopy, s.key = k ∧ s.c.wf = true) ∧
    ∀ x, slotsHas (denseChunk k words doCopy) x = (k == x / 65536 && testBit words (x % 65536)) := by
  unfold denseChunk
  simp only
  split
  · rename_i hgt
    simp only [arrayMax] at hgt
    split
    · constructor
      · intro s hs
        simp only [List.mem_singleton] at hs
        subst hs
        refine ⟨rfl, wf_bmp_mk ?_ ?_ ?_⟩
        · simp only [List.length_append, List.length_replicate]; omega
        · rw [wordsCard_append_zeros]
        · rw [wordsCard_append_zeros]; exact hgt
      · intro x
        simp only [slotsHas_cons, slotsHas_nil, Bool.or_false, Cont.has, testBit_append_zeros]
    · rename_i hc
      have hlen : words.length = 1024 := by
        simp only [Bool.or_eq_true, decide_eq_true_eq, not_or] at hc
        omega
      constructor
      · intro s hs
        simp only [List.mem_singleton] at hs
        subst hs
        exact ⟨rfl, wf_bmp_mk hlen rfl hgt⟩
      · intro x
        simp only [slotsHas_cons, slotsHas_nil, Bool.or_false, Cont.has]
  · rename_i hle
    simp only [arrayMax] at hle
    split
    · rename_i hpos
      constructor
      · intro s hs
        simp only [List.mem_singleton] at hs
        subst hs
        refine ⟨rfl, ?_⟩
        have hok : ArrOk (valsOfWords words) :=
          ⟨by rw [length_valsOfWords]; omega, sorted_valsOfWords words,
            fun v hv => by have := lt_of_mem_valsOfWords words v hv; omega⟩
        rcases wfe_arr hok with h0 | h0
        · simp only [Cont.card, length_valsOfWords] at h0; omega
        · exact h0
      · intro x
        simp only [slotsHas_cons, slotsHas_nil, Bool.or_false, Cont.has, contains_valsOfWords]
    · rename_i h0
      constructor
      · intro s hs; cases hs
      · intro x
        rw [testBit_false_of_card0 words (by omega)]
        simp [slotsHas_nil]

theorem denseChunks_spec (doCopy : Bool) (fuel : Nat) : ∀ (k : Nat) (ws : List (BitVec 64)), ws.length ≤ fuel →
    (∀ s ∈ denseChunks doCopy fuel k ws, k ≤ s.key ∧ 1024 * s.key < 1024 * k + ws.length ∧ s.c.wf = true) ∧
    (denseChunks doCopy fuel k ws).Pairwise (fun s t => s.key < t.key) ∧
    ∀ x, slotsHas (denseChunks doCopy fuel k ws) x = (decide (k ≤ x / 65536) && testBit ws (x - k * 65536)) := by
  induction fuel with
  | zero =>
    intro k ws hl
    have : ws = [] := List.length_eq_zero_iff.mp (by omega)
    subst this
    simp [denseChunks, slotsHas_nil, testBit]
  | succ fuel ih =>
    intro k ws hl
    by_cases hne : ws = []
    · subst hne
      simp [denseChunks, slotsHas_nil, testBit]
    · rw [denseChunks.eq_3 doCopy k ws fuel (fun h => hne h)]
      have hpos : 0 < ws.length := List.length_pos_iff.mpr hne
      have hlt : (ws.take 1024).length ≤ 1024 := by rw [List.length_take]; omega
      have hld2 : (ws.drop 1024).length = ws.length - 1024 := List.length_drop
      have hld : (ws.drop 1024).length ≤ fuel := by omega
      obtain ⟨c1, c2⟩ := denseChunk_spec k (ws.take 1024) hlt doCopy
      obtain ⟨r1, r2, r3⟩ := ih (k + 1) (ws.drop 1024) hld
      refine ⟨?_, ?_, ?_⟩
      · intro s hs
        rcases List.mem_append.mp hs with hs | hs
        · obtain ⟨h1, h2⟩ := c1 s hs
          exact ⟨by omega, by omega, h2⟩
        · obtain ⟨h1, h2, h3⟩ := r1 s hs
          rw [hld2] at h2
          exact ⟨by omega, by omega, h3⟩
      · rw [List.pairwise_append]
        refine ⟨?_, r2, ?_⟩
        · -- at most one slot
          unfold denseChunk
          simp only
          split
          · split <;> simp
          · split <;> simp
        · intro a ha b hb
          have := (c1 a ha).1
          have := (r1 b hb).1
          omega
      · intro x
        rw [slotsHas_append, c2 x, r3 x, testBit_take, testBit_drop]
        have hy : x % 65536 / 64 < 1024 := by omega
        by_cases h1 : k = x / 65536
        · have e : x - k * 65536 = x % 65536 := by omega
          have h2 : ¬ k + 1 ≤ x / 65536 := by omega
          have h3 : k ≤ x / 65536 := by omega
          have h4 : (k == x / 65536) = true := by rw [nat_beq_decide]; exact decide_eq_true h1
          rw [e, decide_eq_false h2, decide_eq_true hy, decide_eq_true h3, h4]
          simp
        · have : (k == x / 65536) = false := by rw [nat_beq_decide]; exact decide_eq_false h1
          rw [this]
          by_cases h2 : k + 1 ≤ x / 65536
          · have e : x - (k + 1) * 65536 + 64 * 1024 = x - k * 65536 := by omega
            have h3 : k ≤ x / 65536 := by omega
            rw [e, decide_eq_true h2, decide_eq_true h3]
            simp
          · have h3 : ¬ k ≤ x / 65536 := by omega
            rw [decide_eq_false h2, decide_eq_false h3]
            simp

/-- **membership after `FromDense`**: the set bits of the word list -/
theorem _root_.RModel.Impl.Rep.mem_fromDense (ws : List (BitVec 64)) (doCopy : Bool) (x : Nat) :
    mem (Rep.fromDense ws doCopy).toBSet x = testBit ws x := by
  obtain ⟨h1, _, h3⟩ := denseChunks_spec doCopy ws.length 0 ws (Nat.le_refl _)
  rw [mem_rep_slots _ (fun s hs => bounded_of_wf (h1 s hs).2.2)]
  unfold Rep.fromDense
  simp only
  rw [h3 x]
  simp

/-- **`FromDense` denotes the set of the dense words** (`boundsOfBits` of all the bits, the L1 reading of a dense bitmap) -/
theorem _root_.RModel.Impl.Rep.toBSet_fromDense (ws : List (BitVec 64)) (doCopy : Bool) :
    (Rep.fromDense ws doCopy).toBSet = boundsOfBits 0 false (ws.flatMap wordBits) :=
  canon_ext_sinc _ _ (sinc_rep _) (sinc_boundsOfBits 0 false _)
    (fun x => by rw [Rep.mem_fromDense, ← mem_toBSet_bmp 0 ws x]; rfl)

/-- **`FromDense` of at most `65536 · 1024` words is well-formed** -/
theorem _root_.RModel.Impl.Rep.wf_fromDense (ws : List (BitVec 64)) (doCopy : Bool) (hl : ws.length ≤ 65536 * 1024) :
    (Rep.fromDense ws doCopy).wf = true := by
  obtain ⟨h1, h2, _⟩ := denseChunks_spec doCopy ws.length 0 ws (Nat.le_refl _)
  rw [slotsWf_iff]
  exact ⟨h2, fun s hs => ⟨by have := (h1 s hs).2.1; omega, (h1 s hs).2.2⟩⟩

/-- **round trip**: `FromDense(ToDense(a))` denotes the same set as `a` -/
theorem _root_.RModel.Impl.Rep.toBSet_fromDense_toDense (a : Rep) (ha : a.wf = true) (doCopy : Bool) :
    (Rep.fromDense a.toDense doCopy).toBSet = a.toBSet :=
  canon_ext_sinc _ _ (sinc_rep _) (sinc_rep a)
    (fun x => by rw [Rep.mem_fromDense, Rep.testBit_toDense a ha])

/-- `ToDense` never has more than `65536 · 1024` words, so the round trip is well-formed -/
theorem _root_.RModel.Impl.Rep.wf_fromDense_toDense (a : Rep) (ha : a.wf = true) (doCopy : Bool) :
    (Rep.fromDense a.toDense doCopy).wf = true := by
  apply Rep.wf_fromDense
  rw [Rep.length_toDense a ha]
  have hw := (slotsWf_iff a).mp ha
  rcases slots_snoc_or_nil a.slots with h | ⟨ys, s, h⟩
  · simp [Rep.denseSize, h]
  · have hsok := hw.ok s (by rw [h]; simp)
    obtain ⟨v, hv, hvh, _⟩ := has_max s.c (wfQ_of_wf hsok.2)
    have := has_lt hsok.2 hvh
    have := hsok.1
    rw [denseSize_eq a ys s h, hv]
    simp only [Int.toNat_natCast]
    omega


/-! ### static `Flip` -/

theorem cardOk_bmpNot {c : Int} {ws : List (BitVec 64)} (hl : ws.length = 1024) (hc : c = (wordsCard ws : Int))
    (lo hi : Nat) (hlh : lo ≤ hi) (hhi : hi ≤ 65536) : (bmpNot c ws lo hi).CardOk := by
  simp only [bmpNot]
  generalize hc' : (if ((hi : Int) - (lo : Int) == 65536) = true then 65536 - c
      else if (hi : Int) - (lo : Int) > 32768 then (wordsCard (flipRangeW ws lo hi) : Int)
      else c + cardDelta ws (flipRangeW ws lo hi)) = c'
  have hcc : c' = (wordsCard (flipRangeW ws lo hi) : Int) := by
    rw [← hc']
    split
    · rename_i h
      simp only [beq_iff_eq] at h
      have h0 : lo = 0 := by omega
      have h1 : hi = 65536 := by omega
      subst h0; subst h1
      have := wordsCard_flip_full ws hl
      omega
    · split
      · rfl
      · simp only [cardDelta]; omega
  split
  · exact cardOk_arr _
  · exact cardOk_bmp hcc

theorem cardOk_notRange (a : Cont) (ha : a.wf = true) (lo hi : Nat) (hlh : lo ≤ hi) (hhi : hi ≤ 65536) :
    (a.notRange lo hi).CardOk := by
  cases a with
  | arr xs =>
    have hxs := wf_arr ha
    simp only [Cont.notRange, arrNot]
    split
    · exact cardOk_arr _
    · split
      · exact cardOk_bmpNot (length_wordsOfArr xs) (by rw [wordsCard_wordsOfArr xs hxs]) lo hi hlh hhi
      · exact cardOk_arr _
  | bmp c ws =>
    obtain ⟨hl, hc, _⟩ := wf_bmp ha
    exact cardOk_bmpNot hl hc lo hi hlh hhi
  | run rs =>
    have hrs := wf_run ha
    exact cardOk_runToEfficient _ (sep_runFlip rs hrs.sep lo hi) (bound_runFlip rs hrs.bound lo hi hhi)

theorem emptyOrWf_notRange (a : Cont) (ha : a.wf = true) (lo hi : Nat) (hlh : lo ≤ hi) (hhi : hi ≤ 65536) :
    (a.notRange lo hi).EmptyOrWf :=
  emptyOrWf_of (wf_notRange a ha lo hi hlh hhi) (cardOk_notRange a ha lo hi hlh hhi)

theorem slotsHas_filter_key (P : Nat → Bool) (l : List Slot) (x : Nat) :
    slotsHas (l.filter fun s => P s.key) x = (P (x / 65536) && slotsHas l x) := by
  induction l with
  | nil => simp [slotsHas_nil]
  | cons s t ih =>
    rw [List.filter_cons]
    by_cases hk : s.key = x / 65536
    · split
      · rename_i hp
        rw [slotsHas_cons, slotsHas_cons, ih]
        rw [hk] at hp
        simp [hp]
      · rename_i hp
        rw [hk] at hp
        have : P (x / 65536) = false := by simpa using hp
        rw [ih, this]
        simp
    · have hb : (s.key == x / 65536) = false := by rw [nat_beq_decide]; exact decide_eq_false hk
      split
      · rw [slotsHas_cons, slotsHas_cons, ih, hb]
        simp
      · rw [slotsHas_cons, ih, hb]
        simp

theorem slotsHas_of_keys_ne {l : List Slot} {x : Nat} (h : ∀ s ∈ l, s.key ≠ x / 65536) : slotsHas l x = false := by
  induction l with
  | nil => rfl
  | cons s t ih =>
    rw [slotsHas_cons, ih (fun s' hs' => h s' (by simp [hs']))]
    have : (s.key == x / 65536) = false := by rw [nat_beq_decide]; exact decide_eq_false (h s (by simp))
    simp [this]

theorem slotsHas_flatMap_range' (f : Nat → List Slot) (hf : ∀ hb, ∀ p ∈ f hb, p.key = hb) (x : Nat) :
    ∀ (n s : Nat), slotsHas ((List.range' s n).flatMap f) x =
      (decide (s ≤ x / 65536 ∧ x / 65536 < s + n) && slotsHas (f (x / 65536)) x) := by
  intro n
  induction n with
  | zero =>
    intro s
    have : ¬ (s ≤ x / 65536 ∧ x / 65536 < s + 0) := by omega
    rw [decide_eq_false this]
    simp [slotsHas_nil]
  | succ n ih =>
    intro s
    rw [List.range'_succ, List.flatMap_cons, slotsHas_append, ih (s + 1)]
    by_cases h1 : s = x / 65536
    · have h2 : ¬ (s + 1 ≤ x / 65536 ∧ x / 65536 < s + 1 + n) := by omega
      have h3 : s ≤ x / 65536 ∧ x / 65536 < s + (n + 1) := by omega
      rw [decide_eq_false h2, decide_eq_true h3, h1]
      simp
    · rw [slotsHas_of_keys_ne (fun p hp => by rw [hf s p hp]; exact h1)]
      by_cases h2 : s + 1 ≤ x / 65536 ∧ x / 65536 < s + 1 + n
      · have h3 : s ≤ x / 65536 ∧ x / 65536 < s + (n + 1) := by omega
        rw [decide_eq_true h2, decide_eq_true h3]
        simp
      · have h3 : ¬ (s ≤ x / 65536 ∧ x / 65536 < s + (n + 1)) := by omega
        rw [decide_eq_false h2, decide_eq_false h3]
        simp

theorem flipKey_keys (a : Rep) (lo hi hb : Nat) : ∀ p ∈ flipKey a lo hi hb, p.key = hb := by
  intro p hp
  unfold flipKey at hp
  simp only at hp
  split at hp
  · rcases mem_keep hp with h | h
    · exact h
    · cases h
  · simp only [List.mem_singleton] at hp
    subst hp
    rfl

theorem has_rangeOfOnes (s l y : Nat) (h1 : s ≤ l) (h2 : l ≤ 65535) :
    (rangeOfOnes s l).has y = (decide (s ≤ y) && decide (y ≤ l)) := by
  unfold rangeOfOnes
  rw [has_runToEfficient _ (by intro p hp; simp only [List.mem_singleton] at hp; subst hp; simp only; omega)]
  simp only [inRuns, List.any_cons, List.any_nil, Bool.or_false]
  have : s + (l - s) = l := by omega
  rw [this]

theorem wf_rangeOfOnes (s l : Nat) (h1 : s ≤ l) (h2 : l ≤ 65535) : (rangeOfOnes s l).wf = true := by
  have hb : RunBound 65535 [(s, l - s)] := by
    intro p hp; simp only [List.mem_singleton] at hp; subst hp; simp only; omega
  refine wf_of_wfe_has (y := s) ?_ ?_
  · unfold rangeOfOnes
    exact wfe_runToEfficient _ (by simp [RunSep]) hb
  · rw [has_rangeOfOnes s l s h1 h2]; simp [h1]

/-- the bounds of the flipped range inside chunk `q` are the flipped range itself -/
theorem flip_bounds (lo hi x cs cl : Nat) (hlh : lo < hi)
    (h1 : lo / 65536 ≤ x / 65536) (h2 : x / 65536 ≤ (hi - 1) / 65536)
    (hcs : cs = if (x / 65536 == lo / 65536) = true then lo % 65536 else 0)
    (hcl : cl = if (x / 65536 == (hi - 1) / 65536) = true then (hi - 1) % 65536 else 65535) :
    cs ≤ cl + 1 ∧ cl + 1 ≤ 65536 ∧ cs ≤ cl ∧
      inRange cs (cl + 1) (x % 65536) = (decide (lo ≤ x) && decide (x < hi)) := by
  have e : inRange cs (cl + 1) (x % 65536) = (decide (lo ≤ x) && decide (x < hi)) ↔
      ((cs ≤ x % 65536 ∧ x % 65536 < cl + 1) ↔ (lo ≤ x ∧ x < hi)) := by
    simp only [inRange]
    rw [Bool.eq_iff_iff]
    simp only [Bool.and_eq_true, decide_eq_true_eq]
  rw [e]
  split at hcs <;> split at hcl <;> rename_i ha hb
  all_goals simp only [beq_iff_eq] at ha hb
  all_goals subst hcs; subst hcl
  all_goals omega

theorem find_eq_has (a : Rep) (x : Nat) :
    a.has x = (match a.find (x / 65536) with | some c => c.has (x % 65536) | none => false) := rfl

theorem wf_of_mem_keep_nil {k : Nat} {N : Cont} {p : Slot} (he : N.EmptyOrWf) (hp : p ∈ keep k N []) :
    p.c.wf = true := by
  unfold keep at hp
  rcases he with ⟨he1, _⟩ | ⟨he1, he2⟩
  · rw [he1] at hp; simp at hp
  · rw [he1] at hp
    simp only [Bool.false_eq_true, if_false, List.mem_singleton] at hp
    subst hp
    exact he2

/-- what the answer holds under a key of the flipped range -/
theorem slotsHas_flipKey (a : Rep) (hw : SlotsWf a.slots) (lo hi x : Nat) (hlh : lo < hi)
    (h1 : lo / 65536 ≤ x / 65536) (h2 : x / 65536 ≤ (hi - 1) / 65536) :
    slotsHas (flipKey a lo hi (x / 65536)) x = (a.has x != (decide (lo ≤ x) && decide (x < hi))) ∧
    ∀ p ∈ flipKey a lo hi (x / 65536), p.c.wf = true := by
  obtain ⟨b1, b2, b3, b4⟩ := flip_bounds lo hi x _ _ hlh h1 h2 rfl rfl
  rw [find_eq_has]
  unfold flipKey
  simp only
  cases hf : a.find (x / 65536) with
  | some c =>
    have hc := find_wf a hw hf
    have he := emptyOrWf_notRange c hc _ _ b1 b2
    simp only
    constructor
    · rw [slotsHas_keep _ _ _ _ he, has_notRange c hc _ _ b2, b4]
      simp [slotsHas_nil]
    · intro p hp
      exact wf_of_mem_keep_nil he hp
  | none =>
    simp only
    constructor
    · rw [slotsHas_cons, slotsHas_nil, has_rangeOfOnes _ _ _ b3 (by omega), ← b4]
      simp only [inRange, beq_self_eq_true, Bool.true_and, Bool.or_false, Bool.false_bne]
      congr 1
      apply decide_eq_decide.mpr
      omega
    · intro p hp
      simp only [List.mem_singleton] at hp
      subst hp
      exact wf_rangeOfOnes _ _ b3 (by omega)

theorem slotsHas_map_flag (l : List Slot) (b : Bool) (x : Nat) :
    slotsHas (l.map fun s => { s with flag := b }) x = slotsHas l x := by
  induction l with
  | nil => rfl
  | cons s t ih => rw [List.map_cons, slotsHas_cons, slotsHas_cons, ih]

theorem flipStatic_ok (a : Rep) (hw : SlotsWf a.slots) (lo hi : Nat) (hhi : hi ≤ 4294967296) :
    ∀ s ∈ (a.flipStatic lo hi).slots, SlotOk s := by
  unfold Rep.flipStatic
  split
  · split
    · intro s hs
      simp only [List.mem_map] at hs
      obtain ⟨s', hs', rfl⟩ := hs
      exact hw.ok s' hs'
    · intro s hs
      simp only [List.mem_map] at hs
      obtain ⟨s', hs', rfl⟩ := hs
      exact hw.ok s' hs'
  · rename_i hlh
    intro s hs
    simp only [map_copySlot, List.mem_append, List.mem_filter, List.mem_flatMap, List.mem_range'_1] at hs
    rcases hs with (hs | ⟨hb, hhb, hs⟩) | hs
    · exact hw.ok s hs.1
    · have hk := flipKey_keys a lo hi hb s hs
      have hx : (hb * 65536) / 65536 = hb := by omega
      have := (slotsHas_flipKey a hw lo hi (hb * 65536) (by omega) (by rw [hx]; omega) (by rw [hx]; omega)).2 s
        (by rw [hx]; exact hs)
      exact ⟨by omega, this⟩
    · exact hw.ok s hs.1

/-- **membership after the static `Flip`** -/
theorem _root_.RModel.Impl.Rep.mem_flipStatic (a : Rep) (ha : a.wf = true) (lo hi : Nat) (hhi : hi ≤ U32) (x : Nat) :
    mem (a.flipStatic lo hi).toBSet x = (mem a.toBSet x != (decide (lo ≤ x) && decide (x < hi))) := by
  have hw := (slotsWf_iff a).mp ha
  rw [mem_rep_slots _ (bounded_of_ok (flipStatic_ok a hw lo hi hhi)), mem_rep a ha, has_eq_slotsHas a hw]
  unfold Rep.flipStatic
  split
  · rename_i hle
    have : (decide (lo ≤ x) && decide (x < hi)) = false := by
      rw [Bool.and_eq_false_iff]
      by_cases h : lo ≤ x
      · right; exact decide_eq_false (by omega)
      · left; exact decide_eq_false h
    rw [this]
    split <;> simp [slotsHas_map_flag]
  · rename_i hlh
    simp only [map_copySlot]
    rw [slotsHas_append, slotsHas_append, slotsHas_filter_key (fun k => decide (k < lo / 65536)),
      slotsHas_filter_key (fun k => decide ((hi - 1) / 65536 < k)),
      slotsHas_flatMap_range' _ (flipKey_keys a lo hi)]
    by_cases h1 : x / 65536 < lo / 65536
    · have e1 : ¬ (lo / 65536 ≤ x / 65536 ∧ x / 65536 < lo / 65536 + ((hi - 1) / 65536 + 1 - lo / 65536)) := by omega
      have e2 : ¬ (hi - 1) / 65536 < x / 65536 := by omega
      have e3 : ¬ lo ≤ x := by omega
      rw [decide_eq_true h1, decide_eq_false e1, decide_eq_false e2, decide_eq_false e3]
      simp
    · by_cases h2 : (hi - 1) / 65536 < x / 65536
      · have e1 : ¬ (lo / 65536 ≤ x / 65536 ∧ x / 65536 < lo / 65536 + ((hi - 1) / 65536 + 1 - lo / 65536)) := by omega
        have e3 : ¬ x < hi := by omega
        rw [decide_eq_false h1, decide_eq_false e1, decide_eq_true h2, decide_eq_false e3]
        simp
      · have e1 : lo / 65536 ≤ x / 65536 ∧ x / 65536 < lo / 65536 + ((hi - 1) / 65536 + 1 - lo / 65536) := by omega
        rw [decide_eq_false h1, decide_eq_true e1, decide_eq_false h2,
          (slotsHas_flipKey a hw lo hi x (by omega) (by omega) (by omega)).1, has_eq_slotsHas a hw]
        simp

/-- **the static `Flip` denotes `BSet.flipRange`** (for `hi ≤ 2^32`; an empty range gives the operand's set) -/
theorem _root_.RModel.Impl.Rep.toBSet_flipStatic (a : Rep) (ha : a.wf = true) (lo hi : Nat) (hhi : hi ≤ U32) :
    (a.flipStatic lo hi).toBSet = BSet.flipRange a.toBSet lo hi :=
  canon_ext_sinc _ _ (sinc_rep _) (sinc_flipRange _ (sinc_rep a) lo hi)
    (fun x => by rw [Rep.mem_flipStatic a ha lo hi hhi x, mem_flipRange _ (sinc_rep a)])

/-- the operand after the call denotes the same set (only flags change, and only for an empty range under copy-on-write) -/
theorem _root_.RModel.Impl.Rep.toBSet_flipStaticSrc (a : Rep) (lo hi : Nat) : (a.flipStaticSrc lo hi).toBSet = a.toBSet := by
  unfold Rep.flipStaticSrc
  split
  · unfold Rep.toBSet
    simp only [List.map_map]
    rfl
  · rfl


theorem keep_nil_sorted (k : Nat) (N : Cont) : KeySorted (keep k N []) := by
  unfold keep
  split <;> simp [KeySorted]

theorem flipKey_sorted (a : Rep) (lo hi hb : Nat) : KeySorted (flipKey a lo hi hb) := by
  unfold flipKey
  simp only
  cases a.find hb with
  | some c => exact keep_nil_sorted _ _
  | none => simp [KeySorted]

/-- **the static `Flip` of a well-formed bitmap is well-formed** (`hi ≤ 2^32`) -/
theorem _root_.RModel.Impl.Rep.wf_flipStatic (a : Rep) (ha : a.wf = true) (lo hi : Nat) (hhi : hi ≤ U32) :
    (a.flipStatic lo hi).wf = true := by
  have hw := (slotsWf_iff a).mp ha
  rw [slotsWf_iff]
  refine ⟨?_, flipStatic_ok a hw lo hi hhi⟩
  unfold Rep.flipStatic
  split
  · split
    · simp only
      rw [List.pairwise_map]
      exact hw.sorted
    · simp only
      rw [List.pairwise_map]
      exact hw.sorted
  · rename_i hlh
    simp only [map_copySlot]
    rw [List.pairwise_append, List.pairwise_append]
    refine ⟨⟨hw.sorted.filter _, ?_, ?_⟩, hw.sorted.filter _, ?_⟩
    · rw [List.pairwise_flatMap]
      refine ⟨fun hb _ => flipKey_sorted a lo hi hb, ?_⟩
      refine (sorted_range' _ _).imp ?_
      intro h1 h2 hlt p hp q hq
      rw [flipKey_keys a lo hi h1 p hp, flipKey_keys a lo hi h2 q hq]
      exact hlt
    · intro p hp q hq
      simp only [List.mem_filter, decide_eq_true_eq] at hp
      simp only [List.mem_flatMap, List.mem_range'_1] at hq
      obtain ⟨hb, hhb, hq⟩ := hq
      rw [flipKey_keys a lo hi hb q hq]
      omega
    · intro p hp q hq
      simp only [List.mem_filter, decide_eq_true_eq] at hq
      rcases List.mem_append.mp hp with hp | hp
      · simp only [List.mem_filter, decide_eq_true_eq] at hp
        omega
      · simp only [List.mem_flatMap, List.mem_range'_1] at hp
        obtain ⟨hb, hhb, hp⟩ := hp
        rw [flipKey_keys a lo hi hb p hp]
        omega


theorem canon_rep (a : Rep) (ha : a.wf = true) : Canon U32 a.toBSet := by
  have hw := (slotsWf_iff a).mp ha
  apply canon_of_bounded U32 _ (sinc_rep a)
  intro x hx
  rw [mem_rep_slots a hw.bounded]
  exact slotsHas_top hw.ok (by simp only [U32] at hx; omega)

/-- **`DenseSize()` is `⌈(Maximum()+1)/64⌉`**, `0` for the empty bitmap (the L1 reading used by the checker) -/
theorem _root_.RModel.Impl.Rep.denseSize_spec (a : Rep) (ha : a.wf = true) :
    a.denseSize = (match BSet.maximum a.toBSet with | some m => (m + 1 + 63) / 64 | none => 0) := by
  have hw := (slotsWf_iff a).mp ha
  have hc := canon_rep a ha
  rcases slots_snoc_or_nil a.slots with h | ⟨ys, s, h⟩
  · have : BSet.maximum a.toBSet = none := by
      rw [maximum_none _ hc.1 hc.2.2]
      intro x
      rw [mem_rep_slots a hw.bounded, h]
      rfl
    rw [this]
    simp [Rep.denseSize, h]
  · have hsok := hw.ok s (by rw [h]; simp)
    obtain ⟨v, hv, hvh, hvmax⟩ := has_max s.c (wfQ_of_wf hsok.2)
    have hvlt := has_lt hsok.2 hvh
    have : BSet.maximum a.toBSet = some (s.key * 65536 + v) := by
      rw [maximum_some _ hc.1 hc.2.2]
      constructor
      · rw [mem_rep_slots a hw.bounded, h, slotsHas_append, slotsHas_cons]
        have e1 : (s.key * 65536 + v) / 65536 = s.key := by omega
        have e2 : (s.key * 65536 + v) % 65536 = v := by omega
        rw [e1, e2, hvh]
        simp
      · intro u hu
        rw [mem_rep a ha]
        cases hx : a.has u with
        | false => rfl
        | true =>
          exfalso
          have h1 := (has_lt_denseSize a hw ys s h u hx).1
          rw [has_eq_slotsHas a hw, h, slotsHas_append] at hx
          have hs := hw.sorted
          rw [h, List.pairwise_append] at hs
          rcases Bool.or_eq_true _ _ ▸ hx with hx | hx
          · unfold slotsHas at hx
            rw [List.any_eq_true] at hx
            obtain ⟨s', hs', hk⟩ := hx
            simp only [Bool.and_eq_true, beq_iff_eq] at hk
            have := hs.2.2 s' hs' s (by simp)
            omega
          · simp only [slotsHas_cons, slotsHas_nil, Bool.or_false, Bool.and_eq_true, beq_iff_eq] at hx
            have := hvmax (u % 65536) (by omega)
            rw [this] at hx
            exact absurd hx.2 (by simp)
    rw [this, denseSize_eq a ys s h, hv]
    simp only [Int.toNat_natCast]

end XformP

end RModel.Impl
