import RProofs.ByteInputDecode
import RProofs.Serial64
/-!
The 64-bit stream readers over the byte-input layer.

* `readFrom64` is `(*roaring64.Bitmap).ReadFrom(stream io.Reader)` as the Go code does it: `io.ReadFull(stream, sizeBuf)`,
  then per bucket `io.ReadFull(stream, keyBuf)` and `roaring.NewBitmap().ReadFrom(stream)` — a FRESH `ByteInputAdapter`
  (counter 0) over the SAME reader, so every bucket starts wherever the previous adapter left the reader.
* `fromUnsafe64` is `FromUnsafeBytes`: one `ByteBuffer` (`stream.Read(sizeBuf)` = `Next(8)`, `Next(4)` per key) handed to the
  32-bit reader, whose counter is therefore cumulative.

Both are proved equal to the byte-list model `decode64` (the model all C18 theorems are about) — `readFrom64` for EVERY chunk
schedule of the reader.
-/
namespace RModel.Impl.ByteIn
open RModel RModel.Impl RModel.Impl.Serial64

def le64 (bs : Bytes) : Nat := le32 bs + 4294967296 * le32 (bs.drop 4)

/-- the bucket loop of `ReadFrom`; `p` = bytes read so far -/
def bucketsFromReader (P : SerParams) : Nat → Reader → Nat → Option (List Bucket × Nat)
  | 0, _, p => some ([], p)
  | n + 1, r, p =>
    match r.readFull 4 with
    | ((_, some _), _) => none                     -- "could not read key #i"
    | ((kb, none), r1) =>
      match (decodeProg P false).runAdapterS ⟨r1, 0⟩ with
      | none => none                               -- "Could not deserialize bitmap for key #i"
      | some (bm, a') =>
        if a'.getReadBytes = 0 then none else
        match bucketsFromReader P n a'.r (p + 4 + a'.getReadBytes) with
        | none => none
        | some (l, p') => some ({ high := le32 kb, bm := bm, flag := false } :: l, p')

/-- `(*roaring64.Bitmap).ReadFrom` on an `io.Reader`, into a fresh bitmap: the representation and the byte count returned -/
def readFrom64 (P : SerParams) (r : Reader) : Option (Rep64 × Nat) :=
  match r.readFull 8 with
  | ((_, some _), _) => none
  | ((sb, none), r1) =>
    (bucketsFromReader P (le64 sb) r1 8).map fun (l, p) => ({ cow := false, buckets := l }, p)

/-- the bucket loop of `FromUnsafeBytes` on the shared `ByteBuffer` -/
def bucketsFromBuf (P : SerParams) : Nat → Buf → Option (List Bucket × Buf)
  | 0, b => some ([], b)
  | n + 1, b =>
    match b.next 4 with
    | (.error _, _) => none
    | (.ok kb, b1) =>
      match (decodeProg P true).runBufS b1 with
      | none => none
      | some (bm, b2) =>
        if b2.getReadBytes = 0 then none else
        match bucketsFromBuf P n b2 with
        | none => none
        | some (l, b3) => some ({ high := le32 kb, bm := bm, flag := false } :: l, b3)

/-- `(*roaring64.Bitmap).FromUnsafeBytes`, into a fresh bitmap -/
def fromUnsafe64 (P : SerParams) (data : Bytes) : Option (Rep64 × Nat) :=
  match (Buf.mk data 0).next 8 with
  | (.error _, _) => none
  | (.ok sb, b1) =>
    (bucketsFromBuf P (le64 sb) b1).map fun (l, b) => ({ cow := false, buckets := l }, b.getReadBytes)

def report64 : Option (Rep64 × Nat) → Outcome (Rep64 × Nat)
  | some x => .ok x
  | none => .err

/-! ### `io.ReadFull` against the list primitives -/

theorem readFull_takeN (r : Reader) (n : Nat) :
    ∃ s', r.readFull n =
      match takeN n r.rest with
      | some (p, t) => ((p, none), { r with rest := t, sched := s' })
      | none => ((r.rest, some (failErr r.final r.rest.length)), { r with rest := [], sched := s' }) := by
  obtain ⟨s', h⟩ := readFull_spec r n
  refine ⟨s', ?_⟩
  rw [h]
  unfold fullSpec takeN
  by_cases hle : n ≤ r.rest.length
  · simp [hle]
  · have : r.rest.drop n = [] := List.drop_eq_nil_iff.mpr (by omega)
    simp [hle, this]

theorem rd64_eq_takeN (l : Bytes) : rd64 l = (takeN 8 l).map fun (p, t) => (le64 p, t) := by
  unfold rd64
  rw [rd32_eq_takeN]
  unfold takeN
  by_cases h4 : 4 ≤ l.length
  · simp only [h4, if_true, Option.map_some]
    rw [rd32_eq_takeN]
    unfold takeN
    by_cases h8 : 8 ≤ l.length
    · have : 4 ≤ (l.drop 4).length := by simp only [List.length_drop]; omega
      simp only [this, h8, if_true, Option.map_some, le64, List.drop_drop]
      congr 3
      · unfold le32; simp [List.getD_eq_getElem?_getD]
      · unfold le32; simp [List.getD_eq_getElem?_getD, List.getElem?_drop]
    · have : ¬ 4 ≤ l.length - 4 := by omega
      simp [this, h8]
  · have h8 : ¬ 8 ≤ l.length := by omega
    simp [h4, h8]

/-! ### the bucket loops are `readBuckets` -/

/-- the 32-bit decoder client on a fresh adapter over a reader: what `decode` says about the reader's bytes; the reader is left
right behind the bytes consumed and the adapter's counter is the number of bytes consumed -/
theorem decodeProg_runAdapterS (P : SerParams) (r : Reader) :
    match decode P false r.rest with
    | .ok (bm, m) => ∃ a', (decodeProg P false).runAdapterS ⟨r, 0⟩ = some (bm, a') ∧ a'.r.rest = r.rest.drop m ∧
        a'.getReadBytes = m ∧ a'.r.final = r.final ∧ a'.r.eager = r.eager
    | _ => (decodeProg P false).runAdapterS ⟨r, 0⟩ = none := by
  have hsim : Sim ⟨r, 0⟩ (Buf.mk r.rest 0) := ⟨by simp, rfl, Nat.zero_le _⟩
  obtain ⟨hok, hno⟩ := progS_adapter_sim (decodeProg P false) _ _ hsim
  have hb := decodeProg_runBufS P false (Buf.mk r.rest 0) (Nat.zero_le _)
  simp only [Buf.cursor, List.drop_zero] at hb
  cases hd : decode P false r.rest with
  | ok x =>
    obtain ⟨bm, m⟩ := x
    simp only [hd] at hb
    obtain ⟨a', ha, hs⟩ := hok _ _ hb
    refine ⟨a', ha, ?_, ?_, ?_⟩
    · rw [hs.1]; simp
    · simp only [Adapter.getReadBytes, hs.2.1, Nat.zero_add]
    · exact runAdapterS_keeps _ _ _ _ ha
  | err => simp only [hd] at hb; exact hno hb
  | panic => simp only [hd] at hb; exact hno hb
where
  /-- a client never changes the reader's end-of-data behaviour -/
  runAdapterS_keeps {α : Type} (p : Prog α) (a : Adapter) (x : α) (a' : Adapter) (h : p.runAdapterS a = some (x, a')) :
      a'.r.final = a.r.final ∧ a'.r.eager = a.r.eager := by
    induction p generalizing a with
    | ret y =>
      simp only [Prog.runAdapterS, Option.some.injEq, Prod.mk.injEq] at h
      rw [← h.2]; exact ⟨rfl, rfl⟩
    | abort => simp [Prog.runAdapterS] at h
    | op o k ih =>
      simp only [Prog.runAdapterS] at h
      obtain ⟨s', hs⟩ := adapter_step_spec a o
      rw [hs] at h
      by_cases hle : o.size ≤ a.r.rest.length
      · simp only [hle, if_true] at h
        have := ih _ _ h
        simpa using this
      · simp [hle] at h

theorem bucketsFromReader_spec (P : SerParams) (n : Nat) (r : Reader) (p : Nat) :
    bucketsFromReader P n r p =
      match readBuckets P false n r.rest with
      | .ok (l, rest) => some (l, p + (r.rest.length - rest.length))
      | _ => none := by
  induction n generalizing r p with
  | zero => simp [bucketsFromReader, readBuckets]
  | succ n ih =>
    unfold bucketsFromReader readBuckets
    obtain ⟨s', hrf⟩ := readFull_takeN r 4
    rw [hrf, rd32_eq_takeN]
    cases h4 : takeN 4 r.rest with
    | none => simp
    | some pt =>
      obtain ⟨kb, bs1⟩ := pt
      simp only [Option.map_some]
      have hlen1 : bs1.length + 4 = r.rest.length := by
        unfold takeN at h4
        by_cases hle : 4 ≤ r.rest.length
        · simp only [hle, if_true, Option.some.injEq, Prod.mk.injEq] at h4
          rw [← h4.2, List.length_drop]; omega
        · simp [hle] at h4
      have hdec := decodeProg_runAdapterS P { r with rest := bs1, sched := s' }
      cases hd : decode P false bs1 with
      | ok x =>
        obtain ⟨bm, m⟩ := x
        simp only [hd] at hdec
        obtain ⟨a', ha, hrest, hrb, _, _⟩ := hdec
        obtain ⟨hm4, hmle⟩ := decode_consumed P false bs1 bm m hd
        rw [ha]
        have hm0 : ¬ m = 0 := by omega
        simp only [hrb, hm0, if_false, ih, hrest]
        cases hrec : readBuckets P false n (bs1.drop m) with
        | ok y =>
          obtain ⟨l, rest⟩ := y
          have hl := (readBuckets_length hrec).2
          simp only [List.length_drop] at hl ⊢
          simp only [Option.some.injEq, Prod.mk.injEq, true_and]
          omega
        | err => rfl
        | panic => rfl
      | err => simp only [hd] at hdec; rw [hdec]
      | panic => simp only [hd] at hdec; rw [hdec]

theorem bucketsFromBuf_spec (P : SerParams) (n : Nat) (b : Buf) (hw : b.wf) :
    bucketsFromBuf P n b =
      match readBuckets P true n b.cursor with
      | .ok (l, rest) => some (l, { b with off := b.data.length - rest.length })
      | _ => none := by
  induction n generalizing b with
  | zero =>
    unfold Buf.wf at hw
    simp only [bucketsFromBuf, readBuckets, Buf.cursor, List.length_drop]
    have : b.data.length - (b.data.length - b.off) = b.off := by omega
    rw [this]
  | succ n ih =>
    unfold bucketsFromBuf readBuckets
    obtain ⟨hok, hno⟩ := takeN_buf b 4
    rw [rd32_eq_takeN]
    cases h4 : takeN 4 b.cursor with
    | none =>
      have := (hno h4).1
      cases hn : b.next 4 with
      | mk res b1 => rw [hn] at this; simp only at this; subst this; rfl
    | some pt =>
      obtain ⟨kb, bs1⟩ := pt
      obtain ⟨h1, h2, h3, _, _⟩ := hok kb bs1 h4
      cases hn : b.next 4 with
      | mk res b1 =>
        rw [hn] at h1 h2 h3
        simp only at h1 h2 h3
        subst h1
        simp only [Option.map_some]
        have hlen1 : bs1.length + 4 = b.cursor.length := by
          unfold takeN at h4
          by_cases hle : 4 ≤ b.cursor.length
          · simp only [hle, if_true, Option.some.injEq, Prod.mk.injEq] at h4
            rw [← h4.2, List.length_drop]; omega
          · simp [hle] at h4
        have hclen : b.cursor.length = b.data.length - b.off := by simp [Buf.cursor]
        have hd1 : b1.data = b.data := by
          have : (b.next 4).2.data = b.data := by unfold Buf.next; split <;> rfl
          rw [hn] at this; exact this
        have hw1 : b1.wf := by
          unfold Buf.wf at *; rw [h3, hd1]; omega
        rw [decodeProg_runBufS P true b1 hw1, h2]
        cases hd : decode P true bs1 with
        | ok x =>
          obtain ⟨bm, m⟩ := x
          obtain ⟨hm4, hmle⟩ := decode_consumed P true bs1 bm m hd
          simp only [Buf.getReadBytes]
          have hm0 : ¬ b1.off + m = 0 := by omega
          have hm0' : ¬ m = 0 := by omega
          have hw2 : ({ b1 with off := b1.off + m } : Buf).wf := by
            unfold Buf.wf at *; simp only; rw [hd1, h3]; omega
          have hc2 : ({ b1 with off := b1.off + m } : Buf).cursor = bs1.drop m := by
            simp only [Buf.cursor] at h2 ⊢
            rw [← h2, List.drop_drop]
          simp only [hm0, hm0', if_false]
          rw [ih _ hw2, hc2]
          cases hrec : readBuckets P true n (bs1.drop m) with
          | ok y => obtain ⟨l, rest⟩ := y; simp only [hd1]
          | err => rfl
          | panic => rfl
        | err => rfl
        | panic => rfl

/-! ### the 64-bit readers are `decode64` -/

/-- **`roaring64.ReadFrom` on a stream delivered in arbitrary chunk sizes** is the byte-list model `decode64` (fresh adapters per
bucket over one reader, `io.ReadFull` for the count and the keys): same buckets, same byte count, error in the same cases -/
theorem readFrom64_eq_decode64 (P : SerParams) (bs : Bytes) (sched : List Nat) (eager : Bool) :
    report64 (readFrom64 P (Reader.ofData bs sched none eager)) = decode64 P false bs := by
  unfold readFrom64 decode64
  obtain ⟨s', hrf⟩ := readFull_takeN (Reader.ofData bs sched none eager) 8
  have hrest : (Reader.ofData bs sched none eager).rest = bs := by simp [Reader.ofData]
  rw [hrf, rd64_eq_takeN, hrest]
  cases h8 : takeN 8 bs with
  | none => simp [report64]
  | some pt =>
    obtain ⟨sb, bs1⟩ := pt
    have hlen1 : bs1.length + 8 = bs.length := by
      unfold takeN at h8
      by_cases hle : 8 ≤ bs.length
      · simp only [hle, if_true, Option.some.injEq, Prod.mk.injEq] at h8
        rw [← h8.2, List.length_drop]; omega
      · simp [hle] at h8
    simp only [Option.map_some, bucketsFromReader_spec]
    cases hrec : readBuckets P false (le64 sb) bs1 with
    | ok y =>
      obtain ⟨l, rest⟩ := y
      have hl := (readBuckets_length hrec).2
      simp only [Option.map_some, report64, Outcome.ok.injEq, Prod.mk.injEq, true_and]
      omega
    | err => rfl
    | panic => exact absurd hrec (readBuckets_no_panic P false _ _)

/-- **`roaring64.FromUnsafeBytes`** (one shared `ByteBuffer`) is `decode64` with zero-copy containers -/
theorem fromUnsafe64_eq_decode64 (P : SerParams) (bs : Bytes) :
    report64 (fromUnsafe64 P bs) = decode64 P true bs := by
  unfold fromUnsafe64 decode64
  obtain ⟨hok, hno⟩ := takeN_buf (Buf.mk bs 0) 8
  simp only [Buf.cursor, List.drop_zero] at hok hno
  rw [rd64_eq_takeN]
  cases h8 : takeN 8 bs with
  | none =>
    have := (hno h8).1
    cases hn : (Buf.mk bs 0).next 8 with
    | mk res b1 => rw [hn] at this; simp only at this; subst this; rfl
  | some pt =>
    obtain ⟨sb, bs1⟩ := pt
    obtain ⟨h1, h2, h3, _, _⟩ := hok sb bs1 h8
    cases hn : (Buf.mk bs 0).next 8 with
    | mk res b1 =>
      rw [hn] at h1 h2 h3
      simp only at h1 h2 h3
      subst h1
      have hlen1 : bs1.length + 8 = bs.length := by
        unfold takeN at h8
        by_cases hle : 8 ≤ bs.length
        · simp only [hle, if_true, Option.some.injEq, Prod.mk.injEq] at h8
          rw [← h8.2, List.length_drop]; omega
        · simp [hle] at h8
      have hd1 : b1.data = bs := by
        have : ((Buf.mk bs 0).next 8).2.data = bs := by unfold Buf.next; split <;> rfl
        rw [hn] at this; exact this
      have hw1 : b1.wf := by unfold Buf.wf; rw [h3, hd1]; omega
      simp only [Option.map_some]
      rw [bucketsFromBuf_spec P _ b1 hw1]
      simp only [Buf.cursor, h2]
      cases hrec : readBuckets P true (le64 sb) bs1 with
      | ok y =>
        obtain ⟨l, rest⟩ := y
        simp only [Option.map_some, report64, Buf.getReadBytes, hd1]
      | err => rfl
      | panic => exact absurd hrec (readBuckets_no_panic P true _ _)

/-- non-vacuity: one bucket (key 7) holding {1, 2, 3}, the reader delivering 5, 1, 5, 1 … bytes: both `io.ReadFull` calls and
the inner adapter are cut by the schedule; 34 bytes are consumed, the trailing byte is not touched -/
example :
    readFrom64 ⟨12347, 12346, 4, 4096⟩
      (Reader.ofData ([1, 0, 0, 0, 0, 0, 0, 0, 7, 0, 0, 0] ++
        [0x3a, 0x30, 0, 0, 1, 0, 0, 0, 0, 0, 2, 0, 16, 0, 0, 0, 1, 0, 2, 0, 3, 0] ++ [0xEE]) [5, 1] none) =
    some ({ cow := false, buckets := [{ high := 7, bm := { cow := false, slots := [{ key := 0, c := .arr [1, 2, 3], flag := false }] },
                                        flag := false }] }, 34) := by
  rfl

end RModel.Impl.ByteIn
