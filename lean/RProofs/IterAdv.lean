import RProofs.Iter
/-!
Iteration protocols, part 5: `intIterator.AdvanceIfNeeded` at the bitmap level.

`IntIt.advanceIfNeeded_spec` : on a state with remaining values `rem`, `AdvanceIfNeeded(m)` (`m < 2^32`) leaves a valid
state whose remaining values are `rem.dropWhile (· < m)` — the members `≥ max cursor m`, positioned on the least one.
-/
namespace RModel.Impl.It
open RModel RModel.Impl RModel.Impl.ContOps RModel.Impl.ContQuery

/-- `minval & 0xffff0000` keeps the chunk key -/
theorem and_hi_mask (m : Nat) (hm : m < 4294967296) : m &&& 0xffff0000 = m / 65536 * 65536 := by
  have e : (0xffff0000 : Nat) = (2 ^ 16 - 1) <<< 16 := by decide
  rw [e]
  have e2 : m / 65536 * 65536 = (m >>> 16) <<< 16 := by
    rw [Nat.shiftLeft_eq, Nat.shiftRight_eq_div_pow]
  rw [e2]
  apply Nat.eq_of_testBit_eq
  intro i
  rw [Nat.testBit_and, Nat.testBit_shiftLeft, Nat.testBit_shiftLeft, Nat.testBit_shiftRight, Nat.testBit_two_pow_sub_one]
  by_cases h : 16 ≤ i
  · simp only [h, decide_true, Bool.true_and]
    by_cases h2 : i - 16 < 16
    · simp [h2]; congr 1; omega
    · simp only [h2, decide_false, Bool.and_false]
      have : 16 + (i - 16) = i := by omega
      rw [this]
      symm
      apply Nat.testBit_lt_two_pow
      calc m < 2 ^ 32 := hm
        _ ≤ 2 ^ i := Nat.pow_le_pow_right (by omega) (by omega)
  · simp [h]

/-! ### list facts about `dropWhile` -/

theorem dropWhile_dropWhile_of_imp {p q : Nat → Bool} (h : ∀ x, p x = true → q x = true) :
    ∀ l : List Nat, (l.dropWhile p).dropWhile q = l.dropWhile q
  | [] => rfl
  | a :: t => by
    by_cases hp : p a = true
    · rw [List.dropWhile_cons_of_pos hp, List.dropWhile_cons_of_pos (h a hp)]
      exact dropWhile_dropWhile_of_imp h t
    · rw [List.dropWhile_cons_of_neg hp]

theorem dropWhile_eq_self_of_all_neg {p : Nat → Bool} {l : List Nat} (h : ∀ x ∈ l, p x = false) : l.dropWhile p = l := by
  cases l with
  | nil => rfl
  | cons a t => exact List.dropWhile_cons_of_neg (by rw [h a (by simp)]; simp)

/-! ### values of later slots are above the current chunk -/

theorem later_slots_ge {slots : List Slot} (hw : SlotsWf slots) {i : Nat} (hi : i < slots.length) {x : Nat}
    (hx : x ∈ (slots.drop (i + 1)).flatMap slotVals) : ((slotAt slots i).key + 1) * 65536 ≤ x := by
  obtain ⟨s, hs, hxs⟩ := List.mem_flatMap.mp hx
  obtain ⟨j, hj, rfl⟩ := List.mem_iff_getElem.mp hs
  simp only [List.length_drop] at hj
  rw [List.getElem_drop] at hxs
  have hlt : (slotAt slots i).key < slots[i + 1 + j].key := by
    rw [slotAt_eq hi]
    exact List.pairwise_iff_getElem.mp hw.sorted i (i + 1 + j) hi (by omega) (by omega)
  have hwf := (hw.ok _ (List.getElem_mem (show i + 1 + j < slots.length by omega))).2
  have := ((mem_slotVals hwf x).mp hxs).1
  have : slots[i + 1 + j].key * 65536 ≤ x := by omega
  calc ((slotAt slots i).key + 1) * 65536 ≤ slots[i + 1 + j].key * 65536 := Nat.mul_le_mul_right _ (by omega)
    _ ≤ x := this

namespace IntIt

/-- the values of the current container lie in its chunk -/
theorem cur_range {ii : IntIt} (hi : ii.Inv) (hl : ii.pos < ii.slots.length) {x : Nat}
    (hx : x ∈ ii.iter.rem.map (ii.hs + ·)) : ii.hs ≤ x ∧ x < ii.hs + 65536 := by
  obtain ⟨v, hv, rfl⟩ := List.mem_map.mp hx
  have := CIt.rem_lt (hi.2 hl).2.1 hv
  omega

/-- every remaining value is `≥ hs` -/
theorem rem_ge {ii : IntIt} (hi : ii.Inv) {x : Nat} (hx : x ∈ ii.rem) : ii.pos < ii.slots.length ∧ ii.hs ≤ x := by
  have hl : ii.pos < ii.slots.length := by
    apply Classical.byContradiction; intro hc
    simp only [rem, hc, if_false] at hx; cases hx
  refine ⟨hl, ?_⟩
  simp only [rem, hl, if_true, List.mem_append] at hx
  rcases hx with h | h
  · exact (cur_range hi hl h).1
  · have := later_slots_ge hi.1 hl h
    have e := (hi.2 hl).1
    omega

/-- the loop `for ii.HasNext() && ii.hs < to { ii.pos++; ii.init() }` -/
theorem skipTo_spec (to : Nat) (hto : to % 65536 = 0) : ∀ (ii : IntIt), ii.Inv →
    (ii.skipTo to).Inv ∧ (ii.skipTo to).rem = ii.rem.dropWhile (fun x => decide (x < to)) ∧
      ((ii.skipTo to).pos < (ii.skipTo to).slots.length → to ≤ (ii.skipTo to).hs) := by
  intro ii
  fun_induction skipTo ii to with
  | case1 ii hc ih =>
    intro hi
    obtain ⟨hl, hlt⟩ := hc
    obtain ⟨i1, i2, i3, i4⟩ := init_spec { ii with pos := ii.pos + 1 } hi.1
    obtain ⟨r1, r2, r3⟩ := ih i1
    refine ⟨r1, ?_, r3⟩
    rw [r2, i2]
    simp only [rem, hl, if_true]
    rw [List.dropWhile_append_of_pos]
    intro a ha
    have := cur_range hi hl ha
    have e := (hi.2 hl).1
    simp only [decide_eq_true_eq]
    omega
  | case2 ii hc =>
    intro hi
    refine ⟨hi, ?_, ?_⟩
    · symm
      apply dropWhile_eq_self_of_all_neg
      intro x hx
      obtain ⟨hl, hge⟩ := rem_ge hi hx
      simp only [decide_eq_false_iff_not]
      have : ¬ ii.hs < to := fun h => hc ⟨hl, h⟩
      omega
    · intro hl
      have : ¬ ii.hs < to := fun h => hc ⟨hl, h⟩
      omega

/-- **(b)** `AdvanceIfNeeded(m)`: exactly the remaining members `≥ m` stay, the iterator stands on the least of them -/
theorem advanceIfNeeded_spec {ii : IntIt} (hi : ii.Inv) (m : Nat) (hm : m < 4294967296) :
    (ii.advanceIfNeeded m).Inv ∧ (ii.advanceIfNeeded m).rem = ii.rem.dropWhile (fun x => decide (x < m)) := by
  have hto := and_hi_mask m hm
  have hto0 : (m / 65536 * 65536) % 65536 = 0 := by omega
  unfold advanceIfNeeded
  simp only []
  rw [hto]
  obtain ⟨s1, s2, s3⟩ := skipTo_spec (m / 65536 * 65536) hto0 ii hi
  generalize ii.skipTo (m / 65536 * 65536) = jj at s1 s2 s3
  have hdd : ii.rem.dropWhile (fun x => decide (x < m)) = jj.rem.dropWhile (fun x => decide (x < m)) := by
    rw [s2, dropWhile_dropWhile_of_imp]
    intro x hx
    simp only [decide_eq_true_eq] at hx ⊢
    omega
  rw [hdd]
  by_cases hc : (jj.hasNext && jj.hs == m / 65536 * 65536) = true
  · rw [if_pos hc]
    simp only [Bool.and_eq_true, beq_iff_eq, hasNext, decide_eq_true_eq] at hc
    obtain ⟨hl, hhs⟩ := hc
    obtain ⟨e1, e2, e3⟩ := s1.2 hl
    obtain ⟨a1, a2⟩ := CIt.advanceIfNeeded_spec e2 (m % 65536) (by omega)
    -- the current container's part of the list after the container-level advance
    have hmap : (jj.iter.rem.map (jj.hs + ·)).dropWhile (fun x => decide (x < m)) =
        (jj.iter.advanceIfNeeded (m % 65536)).rem.map (jj.hs + ·) := by
      rw [List.dropWhile_map, a2]
      congr 2
      funext x
      simp only [Function.comp, decide_eq_decide]
      omega
    have hlater : ∀ x ∈ (jj.slots.drop (jj.pos + 1)).flatMap slotVals, decide (x < m) = false := by
      intro x hx
      have := later_slots_ge s1.1 hl hx
      simp only [decide_eq_false_iff_not]
      omega
    by_cases hn : (jj.iter.advanceIfNeeded (m % 65536)).hasNext = true
    · have hne := (CIt.hasNext_iff a1).mp hn
      simp only [hn, Bool.not_true, Bool.false_eq_true, if_false]
      refine ⟨⟨s1.1, fun _ => ⟨e1, a1, hne⟩⟩, ?_⟩
      simp only [rem, hl, if_true]
      rw [List.dropWhile_append, hmap]
      rw [if_neg]
      simpa using hne
    · have hn' : (jj.iter.advanceIfNeeded (m % 65536)).hasNext = false := by simpa using hn
      have hnil : (jj.iter.advanceIfNeeded (m % 65536)).rem = [] := by
        apply Classical.byContradiction; intro hc
        exact hn ((CIt.hasNext_iff a1).mpr hc)
      simp only [hn', Bool.not_false, if_true]
      obtain ⟨i1, i2, -, -⟩ := init_spec { jj with iter := jj.iter.advanceIfNeeded (m % 65536), pos := jj.pos + 1 } s1.1
      refine ⟨i1, ?_⟩
      rw [i2]
      simp only [rem, hl, if_true]
      rw [List.dropWhile_append, hmap, hnil]
      simp only [List.map_nil, List.isEmpty_nil, if_true]
      exact (dropWhile_eq_self_of_all_neg hlater).symm
  · rw [if_neg hc]
    refine ⟨s1, ?_⟩
    symm
    apply dropWhile_eq_self_of_all_neg
    intro x hx
    obtain ⟨hl, hge⟩ := rem_ge s1 hx
    have h3 := s3 hl
    simp only [Bool.and_eq_true, beq_iff_eq, hasNext, decide_eq_true_eq, not_and] at hc
    have hne := hc hl
    have e := (s1.2 hl).1
    simp only [decide_eq_false_iff_not]
    omega

/-- **(b)** in cursor form: a state that represents "the members `≥ c`" goes to the state that represents
"the members `≥ max c m`" -/
theorem advance_from_cursor {ii : IntIt} (hi : ii.Inv) (r : Rep) (hr : r.wf = true) (c m : Nat) (hm : m < 4294967296)
    (h : ii.rem = remFrom (BSet.toList r.toBSet) c) :
    (ii.advanceIfNeeded m).Inv ∧ (ii.advanceIfNeeded m).rem = remFrom (BSet.toList r.toBSet) (max c m) := by
  obtain ⟨h1, h2⟩ := advanceIfNeeded_spec hi m hm
  refine ⟨h1, ?_⟩
  rw [h2, h]
  have hs := sinc_rep r
  have he : BSet.Even r.toBSet := (canon_rep r hr).2.2
  exact remFrom_dropWhile (BSet.toList_sorted _ hs he) c m

/-- a fresh iterator represents "the members `≥ 0`" -/
theorem create_from_cursor (r : Rep) (hr : r.wf = true) : (create r).rem = remFrom (BSet.toList r.toBSet) 0 := by
  rw [(create_spec r hr).2, valsOfRep_eq_toList r hr, remFrom_zero]

end IntIt

/-! ### the set-level cursor of the L1 checker (`BSet.nextValue`) -/

/-- the head of "the members `≥ c`" is `BSet.nextValue s c` — the cursor semantics `Driver/Iter.lean` checks Go against -/
theorem remFrom_toList_head (s : BSet) (hs : BSet.SInc s) (he : BSet.Even s) (c : Nat) :
    (remFrom (BSet.toList s) c).head? = BSet.nextValue s c := by
  have hsorted := BSet.toList_sorted s hs he
  cases hr : remFrom (BSet.toList s) c with
  | nil =>
    symm
    rw [List.head?_nil, BSet.nextValue_none s hs he]
    intro u hu
    cases hm : BSet.mem s u
    · rfl
    · exact absurd hr (remFrom_ne_nil ((BSet.mem_toList s hs he u).mpr hm) hu)
  | cons v t =>
    obtain ⟨h1, h2, h3, -⟩ := remFrom_head hsorted hr
    symm
    rw [List.head?_cons, BSet.nextValue_some s hs he]
    refine ⟨h2, (BSet.mem_toList s hs he v).mp h1, ?_⟩
    intro u hu huv
    cases hm : BSet.mem s u
    · rfl
    · have := h3 u ((BSet.mem_toList s hs he u).mpr hm) hu
      omega

/-- `HasNext` / `PeekNext` of a state representing "the members `≥ c`" are the set-level answers -/
theorem IntIt.peek_eq_nextValue {ii : IntIt} (hi : ii.Inv) (r : Rep) (hr : r.wf = true) (c : Nat)
    (h : ii.rem = remFrom (BSet.toList r.toBSet) c) :
    (if ii.hasNext then some ii.peekNext else none) = BSet.nextValue r.toBSet c := by
  have hs := sinc_rep r
  have he : BSet.Even r.toBSet := (canon_rep r hr).2.2
  rw [← remFrom_toList_head _ hs he c, ← h]
  cases hrem : ii.rem with
  | nil =>
    have : ii.hasNext = false := by
      cases hh : ii.hasNext
      · rfl
      · exact absurd hrem ((IntIt.hasNext_iff hi).mp hh)
    simp [this]
  | cons v t =>
    have hh : ii.hasNext = true := (IntIt.hasNext_iff hi).mpr (by rw [hrem]; simp)
    rw [if_pos hh, IntIt.peekNext_spec hi hrem]
    rfl

end RModel.Impl.It
