import RProofs.Iter
import RProofs.IterRunMore
/-!
Iteration protocols, part 6: the reverse iterators — the interface field `iter` of `intReverseIterator` (`RIt`) over the
three container kinds, and the bitmap-level `IntRevIt`.

* `RIt.Inv`, `RIt.rem` (ascending list of the values still to be delivered; they come out LAST first) with
  `hasNext_iff`, `next_spec`, `ofCont_spec`, `drain_ofCont` (drain = reverse of the member list);
* `IntRevIt.Inv`, `IntRevIt.rem` with `hasNext_iff`, `next_spec`, `create_spec`, `reinit_spec`, `drain_spec`;
* `IntRevIt.drain_create` : draining `IntRevIt.create r` yields `(BSet.toList r.toBSet).reverse`.
-/
namespace RModel.Impl.It
open RModel RModel.Impl RModel.Impl.ContOps RModel.Impl.ContQuery

/-- a list is empty or ends in a last element -/
theorem eq_nil_or_snoc (l : List Nat) : l = [] ∨ ∃ t v, l = t ++ [v] := by
  rcases List.eq_nil_or_concat l with h | ⟨t, v, h⟩
  · exact Or.inl h
  · exact Or.inr ⟨t, v, by rw [h, List.concat_eq_append]⟩

namespace RIt

def Inv : RIt → Prop
  | .none => True
  | .arr a => a.locP ≤ a.slice.length ∧ ∀ v ∈ a.slice, v < 65536
  | .run r => r.Inv
  | .bmp b => b.Inv

/-- the values still to be delivered, ascending (they come out last first) -/
def rem : RIt → List Nat
  | .none => []
  | .arr a => a.rem
  | .run r => r.rem
  | .bmp b => b.rem

theorem hasNext_iff {it : RIt} (hi : it.Inv) : it.hasNext = true ↔ it.rem ≠ [] := by
  cases it with
  | none => simp [hasNext, rem]
  | arr a => exact ArrRevIt.hasNext_iff a hi.1
  | run r => exact RunRevIt.hasNext_iff hi
  | bmp b => exact BmpRevIt.hasNext_iff hi

theorem next_spec {it : RIt} (hi : it.Inv) {v : Nat} {t : List Nat} (h : it.rem = t ++ [v]) :
    it.next.1 = v ∧ it.next.2.Inv ∧ it.next.2.rem = t := by
  cases it with
  | none =>
    have := congrArg List.length h
    simp [rem] at this
  | arr a =>
    obtain ⟨h1, h2, h3⟩ := ArrRevIt.next_spec hi.1 h
    exact ⟨h1, ⟨h3, hi.2⟩, h2⟩
  | run r =>
    obtain ⟨h1, h2, h3, -⟩ := RunRevIt.next_spec hi h
    exact ⟨h1, h2, h3⟩
  | bmp b =>
    obtain ⟨h1, h2, h3, -⟩ := BmpRevIt.next_spec hi h
    exact ⟨h1, h2, h3⟩

/-- the iterator `init()` installs on a well-formed container holds all its members -/
theorem ofCont_spec {c : Cont} (h : c.wf = true) : (ofCont c).Inv ∧ (ofCont c).rem = valsOfCont c := by
  cases c with
  | arr xs =>
    have hw := wf_arr h
    refine ⟨⟨Nat.le_refl _, hw.bound⟩, ?_⟩
    show xs.take xs.length = xs
    exact List.take_length
  | run rs =>
    have hw := wf_run h
    obtain ⟨h1, h2, -⟩ := RunRevIt.init_spec rs hw.sep hw.bound
    exact ⟨h1, h2⟩
  | bmp k ws =>
    obtain ⟨hl, hc, -⟩ := wf_bmp h
    obtain ⟨h1, h2, -⟩ := BmpRevIt.init_spec k ws hl hc
    exact ⟨h1, h2⟩

theorem rem_lt {it : RIt} (hi : it.Inv) {v : Nat} (hv : v ∈ it.rem) : v < 65536 := by
  cases it with
  | none => cases hv
  | arr a => exact hi.2 v (List.mem_of_mem_take hv)
  | run r => exact lt_of_inRuns hi.2.1 ((mem_expandRuns _ _).mp (mem_remBelow.mp hv).1)
  | bmp b =>
    have := (mem_remBelow.mp hv).1
    have := lt_of_mem_valsOfWords _ _ this
    have hl : b.ws.length = 1024 := hi.1
    omega

/-- draining delivers exactly the remaining values, largest first -/
theorem drain_spec : ∀ (fuel : Nat) (it : RIt), it.Inv → it.rem.length ≤ fuel → it.drain fuel = it.rem.reverse
  | 0, it, _, hf => by
    have : it.rem = [] := List.length_eq_zero_iff.mp (by omega)
    rw [this]; rfl
  | fuel + 1, it, hi, hf => by
    unfold drain
    rcases eq_nil_or_snoc it.rem with hr | ⟨t, v, hr⟩
    · have : it.hasNext = false := by
        cases hh : it.hasNext
        · rfl
        · exact absurd hr ((hasNext_iff hi).mp hh)
      simp [this, hr]
    · have hh : it.hasNext = true := (hasNext_iff hi).mpr (by rw [hr]; simp)
      obtain ⟨h1, h2, h3⟩ := next_spec hi hr
      rw [if_pos hh]
      simp only []
      rw [h1, drain_spec fuel it.next.2 h2 (by rw [h3]; rw [hr] at hf; simp at hf; omega), h3, hr]
      simp

/-- draining a fresh reverse container iterator yields the sorted member list reversed — for every container kind -/
theorem drain_ofCont {c : Cont} (h : c.wf = true) (fuel : Nat) (hf : (valsOfCont c).length ≤ fuel) :
    (ofCont c).drain fuel = (valsOfCont c).reverse := by
  obtain ⟨h1, h2⟩ := ofCont_spec h
  rw [drain_spec fuel _ h1 (by rw [h2]; exact hf), h2]

end RIt

theorem take_slots {slots : List Slot} {k : Nat} (h : k < slots.length) :
    slots.take (k + 1) = slots.take k ++ [slotAt slots k] := by
  rw [slotAt_eq h]; exact List.take_succ_eq_append_getElem h

namespace IntRevIt

def Inv (ii : IntRevIt) : Prop :=
  SlotsWf ii.slots ∧ ii.posP ≤ ii.slots.length ∧
    (0 < ii.posP → ii.hs = (slotAt ii.slots (ii.posP - 1)).key * 65536 ∧ ii.iter.Inv ∧ ii.iter.rem ≠ [])

/-- the values still to be delivered, ascending: all earlier containers, then the rest of the current one -/
def rem (ii : IntRevIt) : List Nat :=
  if 0 < ii.posP then
    (ii.slots.take (ii.posP - 1)).flatMap slotVals ++ ii.iter.rem.map (ii.hs + ·)
  else []

theorem hasNext_iff {ii : IntRevIt} (hi : ii.Inv) : ii.hasNext = true ↔ ii.rem ≠ [] := by
  unfold hasNext rem
  by_cases h : 0 < ii.posP
  · have := (hi.2.2 h).2.2
    simp [h, this]
  · simp [h]

/-- `init()` at a position: the iterator stands at the last value of container `posP - 1` -/
theorem init_spec (ii : IntRevIt) (hw : SlotsWf ii.slots) (hp : ii.posP ≤ ii.slots.length) :
    ii.init.Inv ∧ ii.init.rem = (ii.slots.take ii.posP).flatMap slotVals ∧ ii.init.slots = ii.slots ∧
      ii.init.posP = ii.posP := by
  unfold init
  by_cases h : 0 < ii.posP
  · rw [if_pos h]
    have hk : ii.posP - 1 < ii.slots.length := by omega
    have hm := hw.ok _ (slotAt_mem hk)
    obtain ⟨c1, c2⟩ := RIt.ofCont_spec hm.2
    have e : ii.slots.take ii.posP = ii.slots.take (ii.posP - 1) ++ [slotAt ii.slots (ii.posP - 1)] := by
      have := take_slots hk
      rwa [show ii.posP - 1 + 1 = ii.posP by omega] at this
    refine ⟨⟨hw, hp, fun _ => ⟨shl16 _, c1, ?_⟩⟩, ?_, rfl, rfl⟩
    · show (RIt.ofCont (slotAt ii.slots (ii.posP - 1)).c).rem ≠ []
      rw [c2]; exact valsOfCont_ne_nil hm.2
    · simp only [rem]
      rw [if_pos (by exact h), c2, shl16, e, List.flatMap_append, List.flatMap_cons, List.flatMap_nil,
        List.append_nil]
      rfl
  · rw [if_neg h]
    refine ⟨⟨hw, hp, fun h' => absurd h' h⟩, ?_, rfl, rfl⟩
    have h0 : ii.posP = 0 := by omega
    simp only [rem]
    rw [if_neg (by exact h), h0]
    rfl

theorem create_spec (r : Rep) (h : r.wf = true) : (create r).Inv ∧ (create r).rem = valsOfRep r := by
  have hw := (slotsWf_iff r).mp h
  obtain ⟨h1, h2, -, -⟩ := init_spec { ({} : IntRevIt) with slots := r.slots, posP := r.slots.length } hw
    (Nat.le_refl _)
  refine ⟨h1, ?_⟩
  rw [valsOfRep_eq]
  refine h2.trans ?_
  show (r.slots.take r.slots.length).flatMap slotVals = _
  rw [List.take_length]

/-- `Initialize(b)` on a USED iterator object (whatever state it is in) starts the enumeration of `b` -/
theorem reinit_spec (ii : IntRevIt) (r : Rep) (h : r.wf = true) :
    (ii.reinit r).Inv ∧ (ii.reinit r).rem = valsOfRep r := by
  have hw := (slotsWf_iff r).mp h
  obtain ⟨h1, h2, -, -⟩ := init_spec { ii with slots := r.slots, posP := r.slots.length } hw (Nat.le_refl _)
  refine ⟨h1, ?_⟩
  rw [valsOfRep_eq]
  refine h2.trans ?_
  show (r.slots.take r.slots.length).flatMap slotVals = _
  rw [List.take_length]

theorem next_spec {ii : IntRevIt} (hi : ii.Inv) {v : Nat} {t : List Nat} (h : ii.rem = t ++ [v]) :
    ii.next.1 = v ∧ ii.next.2.Inv ∧ ii.next.2.rem = t ∧ ii.next.2.slots = ii.slots := by
  have hp : 0 < ii.posP := by
    apply Classical.byContradiction; intro hc
    simp only [rem, hc, if_false] at h
    have := congrArg List.length h
    simp at this
  obtain ⟨e1, e2, e3⟩ := hi.2.2 hp
  rcases eq_nil_or_snoc ii.iter.rem with hr | ⟨t0, v0, hr⟩
  · exact absurd hr e3
  have hrem : ii.rem =
      ((ii.slots.take (ii.posP - 1)).flatMap slotVals ++ t0.map (ii.hs + ·)) ++ [ii.hs + v0] := by
    simp only [rem]
    rw [if_pos hp, hr, List.map_append, List.append_assoc]
    rfl
  rw [hrem] at h
  have hh := List.append_inj' h (by simp)
  have hv : v = ii.hs + v0 := by
    have := hh.2
    simp at this
    exact this.symm
  have ht := hh.1
  have hlt : v0 < 65536 := RIt.rem_lt e2 (by rw [hr]; simp)
  have hhs : ii.hs % 65536 = 0 := by omega
  obtain ⟨n1, n2, n3⟩ := RIt.next_spec e2 hr
  have hval : ii.iter.next.1 ||| ii.hs = v := by rw [n1, hv]; exact or_hs_eq_add hlt hhs
  unfold next
  simp only []
  by_cases hn : ii.iter.next.2.hasNext = true
  · have hne : ii.iter.next.2.rem ≠ [] := (RIt.hasNext_iff n2).mp hn
    simp only [hn, Bool.not_true, Bool.false_eq_true, if_false]
    refine ⟨hval, ⟨hi.1, hi.2.1, fun _ => ⟨e1, n2, hne⟩⟩, ?_, by first | rfl | trivial⟩
    simp only [rem]
    rw [if_pos hp, n3]
    exact ht
  · have hnil : ii.iter.next.2.rem = [] := by
      apply Classical.byContradiction; intro hc
      exact hn ((RIt.hasNext_iff n2).mpr hc)
    have hn' : ii.iter.next.2.hasNext = false := by simpa using hn
    simp only [hn', Bool.not_false, if_true]
    have hle : ii.posP - 1 ≤ ii.slots.length := by have := hi.2.1; omega
    obtain ⟨i1, i2, i3, -⟩ := init_spec { ii with iter := ii.iter.next.2, posP := ii.posP - 1 } hi.1 hle
    refine ⟨hval, i1, ?_, i3⟩
    rw [i2, ← ht]
    rw [n3] at hnil
    rw [hnil]
    simp

/-- draining delivers exactly the remaining values, largest first -/
theorem drain_spec : ∀ (fuel : Nat) (ii : IntRevIt), ii.Inv → ii.rem.length ≤ fuel →
    (ii.drain fuel).1 = ii.rem.reverse
  | 0, ii, _, hf => by
    have : ii.rem = [] := List.length_eq_zero_iff.mp (by omega)
    rw [this]; rfl
  | fuel + 1, ii, hi, hf => by
    unfold drain
    rcases eq_nil_or_snoc ii.rem with hr | ⟨t, v, hr⟩
    · have : ii.hasNext = false := by
        cases hh : ii.hasNext
        · rfl
        · exact absurd hr ((hasNext_iff hi).mp hh)
      simp [this, hr]
    · have hh : ii.hasNext = true := (hasNext_iff hi).mpr (by rw [hr]; simp)
      obtain ⟨h1, h2, h3, -⟩ := next_spec hi hr
      rw [if_pos hh]
      simp only []
      rw [h1, drain_spec fuel ii.next.2 h2 (by rw [h3]; rw [hr] at hf; simp at hf; omega), h3, hr]
      simp

/-- **(c, reverse)** draining a fresh bitmap-level reverse iterator yields the members of the denoted set, each once,
in decreasing order -/
theorem drain_create (r : Rep) (h : r.wf = true) (fuel : Nat) (hf : BSet.card r.toBSet ≤ fuel) :
    ((create r).drain fuel).1 = (BSet.toList r.toBSet).reverse := by
  obtain ⟨h1, h2⟩ := create_spec r h
  have e := valsOfRep_eq_toList r h
  rw [drain_spec fuel _ h1 (by rw [h2, e, BSet.toList_length]; exact hf), h2, e]

end IntRevIt

end RModel.Impl.It
