import RProofs.ContQueryGlue
import RProofs.ContQueryArr
import RProofs.ContQueryRun
import RProofs.ContQueryBmpScan
import RProofs.ContQueryBmpCount
/-!
The container-level query kernels of `RModel/Impl/ContQuery.lean` — models of the Go ALGORITHMS (`binarySearch` and the
`binarySearchUntil/Past` searches with the pigeon-hole bisections over the sorted array, word scans with
`TrailingZeros64 / LeadingZeros64 / OnesCount64` and shift masks over the bitmap words, `searchRange` bisection over the
run list), tied to the real Go kernels by the `kern` correspondence check — compute the verified set-level queries of
`BSet` on the abstraction `c.toBSet 0`, for every receiver `c` with `c.wfQ` — every well-formed container (`wfQ_of_wf`), and
also run containers that are not storage-minimal — and in-domain arguments (`x < 65536`).

The right-hand sides are literally the expressions `kernSem` (`Driver/Kern.lean`) compares the Go scalars with.
Per kind: `ContQueryArr.lean`, `ContQueryRun.lean`, `ContQueryBmpScan.lean`, `ContQueryBmpCount.lean`; kind-independent
glue: `ContQueryGlue.lean`.  Core Lean only; no `native_decide`, `bv_decide`, axioms, `sorry`.
-/
namespace RModel.Impl
open RModel RModel.BSet ContOps ContQuery

/-! ### the domain: `Cont.wfQ` = well-formed, except that run containers need not be storage-minimal -/

theorem wfQ_arr {xs : List Nat} : (Cont.arr xs).wfQ = (Cont.arr xs).wf := rfl
theorem wfQ_bmp {cd : Int} {ws : List (BitVec 64)} : (Cont.bmp cd ws).wfQ = (Cont.bmp cd ws).wf := rfl

/-- every well-formed container is in the domain `wfQ` of the query theorems -/
theorem wfQ_of_wf {c : Cont} (h : c.wf = true) : c.wfQ = true := by
  cases c with
  | arr xs => exact h
  | bmp cd ws => exact h
  | run rs =>
    simp only [Cont.wf, Bool.and_eq_true] at h
    simp only [Cont.wfQ, Bool.and_eq_true]
    exact h.1

theorem wfQ_run {rs : List (Nat × Nat)} (h : (Cont.run rs).wfQ = true) :
    rs ≠ [] ∧ RunSep rs ∧ ∀ p ∈ rs, p.1 + p.2 ≤ 65535 := by
  simp only [Cont.wfQ, Bool.and_eq_true, Bool.not_eq_true', List.isEmpty_eq_false_iff] at h
  have := runsOk_spec rs h.2
  exact ⟨h.1, this.1, this.2⟩

theorem has_lt_q {c : Cont} (hq : c.wfQ = true) {x : Nat} (h : c.has x = true) : x < 65536 := by
  cases c with
  | arr xs => exact has_lt (c := .arr xs) hq h
  | bmp cd ws => exact has_lt (c := .bmp cd ws) hq h
  | run rs => exact lt_of_inRuns (wfQ_run hq).2.2 h

theorem canon_toBSet_q {c : Cont} (hq : c.wfQ = true) : Canon 65536 (c.toBSet 0) := by
  apply canon_of_bounded 65536 _ (sinc_toBSet c)
  intro x hx
  rw [mem_toBSet]
  cases h : c.has x
  · rfl
  · have := has_lt_q hq h; omega
theorem even_toBSet_q {c : Cont} (hq : c.wfQ = true) : Even (c.toBSet 0) := (canon_toBSet_q hq).2.2

/-! ### every kind satisfies the membership-level characterisations (for `c.has`) -/

theorem exists_testBit_of_card_pos {ws : List (BitVec 64)} (h : 0 < wordsCard ws) : ∃ x, testBit ws x = true := by
  rw [wordsCard_eq] at h
  match hv : valsOfWords ws with
  | [] => rw [hv] at h; simp at h
  | v :: _ =>
    exact ⟨v, (mem_valsOfWords ws v).mp (by rw [hv]; simp)⟩

theorem has_contains (c : Cont) (hc : c.wfQ = true) (x : Nat) (hx : x < 65536) : c.containsQ x = c.has x := by
  cases c with
  | arr xs => exact arrContains_spec (wf_arr hc).sorted x
  | bmp cd ws => exact bmpContains_spec ws x
  | run rs => exact runContains_spec rs (wfQ_run hc).2.1 (wfQ_run hc).2.2 x hx

theorem has_rank (c : Cont) (hc : c.wfQ = true) (x : Nat) (hx : x < 65536) : IsRank c.has x (c.rankQ x) := by
  cases c with
  | arr xs => exact arrRank_spec (wf_arr hc).sorted x
  | bmp cd ws => exact bmpRank_spec ws (wf_bmp hc).1 x hx
  | run rs => exact runRank_spec rs (wfQ_run hc).2.1 (wfQ_run hc).2.2 x hx

theorem has_select (c : Cont) (hc : c.wfQ = true) (i : Nat) (hi : i < c.card) : IsSelect c.has i (c.selectQ i) := by
  cases c with
  | arr xs => exact arrSelect_spec (wf_arr hc).sorted i hi
  | bmp cd ws => exact bmpSelect_spec ws (wf_bmp hc).1 i hi
  | run rs => exact runSelect_spec rs (wfQ_run hc).2.1 (wfQ_run hc).2.2 i hi

theorem has_min (c : Cont) (hc : c.wfQ = true) : IsMin c.has c.minimumQ := by
  cases c with
  | arr xs => exact arrMin_spec (wf_arr hc).sorted (wf_arr hc).pos
  | bmp cd ws => exact bmpMin_spec ws (wf_bmp hc).1 (exists_testBit_of_card_pos (by have := (wf_bmp hc).2.2; omega))
  | run rs =>
    have hne := (wfQ_run hc).1
    have hpos : 0 < rs.length := List.length_pos_iff.mpr hne
    simp only [Cont.minimumQ, hpos, if_true]
    exact runMin_spec rs (wfQ_run hc).2.1 (wfQ_run hc).2.2 hne

theorem has_max (c : Cont) (hc : c.wfQ = true) : IsMax c.has c.maximumQ := by
  cases c with
  | arr xs => exact arrMax_spec (wf_arr hc).sorted (wf_arr hc).pos
  | bmp cd ws => exact bmpMax_spec ws (wf_bmp hc).1 (exists_testBit_of_card_pos (by have := (wf_bmp hc).2.2; omega))
  | run rs =>
    have hne := (wfQ_run hc).1
    have hpos : 0 < rs.length := List.length_pos_iff.mpr hne
    simp only [Cont.maximumQ, hpos, if_true]
    exact runMax_spec rs (wfQ_run hc).2.1 (wfQ_run hc).2.2 hne

theorem bmp_card_ne_zero {cd : Int} {ws : List (BitVec 64)} (hc : (Cont.bmp cd ws).wfQ = true) : ¬ cd = 0 := by
  have := wf_bmp hc; omega

theorem has_next (c : Cont) (hc : c.wfQ = true) (x : Nat) (hx : x < 65536) : IsNext c.has x (c.nextValueQ x) := by
  cases c with
  | arr xs => exact arrNextValue_spec (wf_arr hc).sorted (wf_arr hc).pos x
  | bmp cd ws =>
    simp only [Cont.nextValueQ, bmp_card_ne_zero hc, if_false]
    exact bmpNextSetBit_spec ws (wf_bmp hc).1 x hx
  | run rs => exact runNextValue_spec rs (wfQ_run hc).2.1 (wfQ_run hc).2.2 x hx

theorem has_prev (c : Cont) (hc : c.wfQ = true) (x : Nat) (hx : x < 65536) : IsPrev c.has x (c.previousValueQ x) := by
  cases c with
  | arr xs => exact arrPreviousValue_spec (wf_arr hc).sorted (wf_arr hc).pos x
  | bmp cd ws =>
    simp only [Cont.previousValueQ, bmp_card_ne_zero hc, if_false]
    exact bmpPrevSetBit_spec ws (wf_bmp hc).1 x hx
  | run rs => exact runPreviousValue_spec rs (wfQ_run hc).2.1 (wfQ_run hc).2.2 (wfQ_run hc).1 x hx

theorem has_nextAbsent (c : Cont) (hc : c.wfQ = true) (x : Nat) (hx : x < 65536) :
    IsNextAbsent c.has x (c.nextAbsentValueQ x) := by
  cases c with
  | arr xs => exact arrNextAbsentValue_spec (wf_arr hc) x hx
  | bmp cd ws => exact bmpNextUnsetBit_spec ws (wf_bmp hc).1 x hx
  | run rs => exact runNextAbsentValue_spec rs (wfQ_run hc).2.1 (wfQ_run hc).2.2 x hx

theorem has_prevAbsent (c : Cont) (hc : c.wfQ = true) (x : Nat) (hx : x < 65536) :
    IsPrevAbsent c.has x (c.previousAbsentValueQ x) := by
  cases c with
  | arr xs => exact arrPreviousAbsentValue_spec (wf_arr hc) x hx
  | bmp cd ws => exact bmpPreviousAbsentValue_spec ws (wf_bmp hc).1 x hx
  | run rs => exact runPreviousAbsentValue_spec rs (wfQ_run hc).2.1 (wfQ_run hc).2.2 x hx

theorem has_cardInRange (c : Cont) (hc : c.wfQ = true) (lo hi : Nat) (hlo : lo ≤ 65536) (hhi : hi ≤ 65536) :
    IsCardInRange c.has lo hi (c.cardInRangeQ lo hi) := by
  cases c with
  | arr xs => exact arrCardInRange_spec (wf_arr hc).sorted (wf_arr hc).bound lo hi hlo hhi
  | bmp cd ws => exact bmpCardInRange_spec ws (wf_bmp hc).1 lo hi hlo hhi
  | run rs => exact runCardInRange_spec rs (wfQ_run hc).2.1 (wfQ_run hc).2.2 lo hi hlo hhi

theorem has_card (c : Cont) (hc : c.wfQ = true) : c.getCardinalityQ = (cnt c.has 65536 : Int) := by
  cases c with
  | arr xs =>
    have e : (Cont.arr xs).has = xs.contains := funext fun _ => rfl
    rw [e, cnt_arr_all (wf_arr hc).sorted 65536 (wf_arr hc).bound]; rfl
  | bmp cd ws =>
    obtain ⟨hl, hcd, _⟩ := wf_bmp hc
    have e : (Cont.bmp cd ws).has = testBit ws := funext fun _ => rfl
    rw [e, show (65536 : Nat) = 64 * ws.length by omega, ← wordsCard_eq_cnt ws]; exact hcd
  | run rs =>
    have e : (Cont.run rs).has = inRuns rs := funext fun _ => rfl
    rw [e, ← runsCard_eq_cnt rs (wfQ_run hc).2.1 (wfQ_run hc).2.2]; rfl

/-! ### the theorems: the Go algorithms compute the set-level answers -/

section
variable (c : Cont) (hc : c.wfQ = true)
include hc

theorem containsQ_spec (x : Nat) (hx : x < 65536) : c.containsQ x = BSet.mem (c.toBSet 0) x := by
  rw [mem_toBSet]; exact has_contains c hc x hx

/-- `rank(x)` = number of members `≤ x` -/
theorem rankQ_spec (x : Nat) (hx : x < 65536) : c.rankQ x = (BSet.rankLt (c.toBSet 0) (x + 1) : Int) :=
  glue_rank (sinc_toBSet c) (even_toBSet_q hc) (mem_toBSet c) (has_rank c hc x hx)

/-- `selectInt(i)` is the `i`-th smallest member, for `i` below the cardinality -/
theorem selectQ_spec (i : Nat) (hi : i < c.card) :
    ∃ v : Nat, c.selectQ i = (v : Int) ∧ BSet.select (c.toBSet 0) i = some v :=
  glue_select (sinc_toBSet c) (even_toBSet_q hc) (mem_toBSet c) (has_select c hc i hi)

theorem minimumQ_spec : ∃ v : Nat, c.minimumQ = (v : Int) ∧ BSet.minimum (c.toBSet 0) = some v :=
  glue_min (sinc_toBSet c) (even_toBSet_q hc) (mem_toBSet c) (has_min c hc)

theorem maximumQ_spec : ∃ v : Nat, c.maximumQ = (v : Int) ∧ BSet.maximum (c.toBSet 0) = some v :=
  glue_max (sinc_toBSet c) (even_toBSet_q hc) (mem_toBSet c) (has_max c hc)

/-- least member `≥ x`, `-1` if there is none -/
theorem nextValueQ_spec (x : Nat) (hx : x < 65536) :
    c.nextValueQ x = (match BSet.nextValue (c.toBSet 0) x with | some v => (v : Int) | none => -1) :=
  glue_next (sinc_toBSet c) (even_toBSet_q hc) (mem_toBSet c) (has_next c hc x hx)

/-- greatest member `≤ x`, `-1` if there is none -/
theorem previousValueQ_spec (x : Nat) (hx : x < 65536) :
    c.previousValueQ x = (match BSet.prevValue (c.toBSet 0) x with | some v => (v : Int) | none => -1) :=
  glue_prev (sinc_toBSet c) (even_toBSet_q hc) (mem_toBSet c) (has_prev c hc x hx)

/-- least non-member `≥ x`; `65536` when every value from `x` on is present (the convention of `kernSem`) -/
theorem nextAbsentValueQ_spec (x : Nat) (hx : x < 65536) :
    c.nextAbsentValueQ x = ((min (BSet.nextAbsent (c.toBSet 0) x) 65536 : Nat) : Int) := by
  refine glue_nextAbsent (U := 65536) (sinc_toBSet c) (even_toBSet_q hc) (mem_toBSet c) ?_ (by omega)
    (has_nextAbsent c hc x hx)
  intro u hu
  cases h : c.has u
  · rfl
  · have := has_lt_q hc h; omega

/-- greatest non-member `≤ x`, `-1` when every value up to `x` is present -/
theorem previousAbsentValueQ_spec (x : Nat) (hx : x < 65536) :
    c.previousAbsentValueQ x = (match BSet.prevAbsent (c.toBSet 0) x with | some v => (v : Int) | none => -1) :=
  glue_prevAbsent (sinc_toBSet c) (even_toBSet_q hc) (mem_toBSet c) (has_prevAbsent c hc x hx)

/-- `getCardinalityInRange(lo, hi)`: number of members in `[lo, hi)` (0 when `hi ≤ lo`) -/
theorem cardInRangeQ_spec (lo hi : Nat) (hlo : lo ≤ 65536) (hhi : hi ≤ 65536) :
    c.cardInRangeQ lo hi = (BSet.cardInRange (c.toBSet 0) lo hi : Int) :=
  glue_cardInRange (sinc_toBSet c) (even_toBSet_q hc) (mem_toBSet c) (has_cardInRange c hc lo hi hlo hhi)

theorem getCardinalityQ_spec : c.getCardinalityQ = (BSet.card (c.toBSet 0) : Int) := by
  rw [has_card c hc, card_eq_rankLt 65536 _ (canon_toBSet_q hc) 65536 (Nat.le_refl _),
    rankLt_eq_cnt (sinc_toBSet c) (even_toBSet_q hc) (mem_toBSet c)]

end

end RModel.Impl
