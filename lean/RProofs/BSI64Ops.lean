import RModel.Impl.BSI64Ops
import RProofs.BSI
import RProofs.BSI32
/-!
Theorems about the second half of the plane-level model of `roaring64.BSI` (`RModel/Impl/BSI64Ops.lean`): `ParOr`,
`Add` / `Increment`, `BatchEqual` (cube and trie path), `MarshalBinary`/`UnmarshalBinary`, `WriteTo`/`ReadFrom`,
`SetBigMany`, `Retain`, `Transpose` / `IntersectAndTranspose`, `TransposeWithCounts` (one batch).

Semantic backbone (from `RProofs/BSI.lean`): `col planes c : List Bool` is the column word (plane 0 first, sign plane last),
`dec` its two's complement reading, `encN` its unsigned reading; `getValue b c = some (dec (col b.planes c))` on the existence
set (`getValue_eq`), `value b c` is that number, `0` for an absent column (`value_eq_dec`).

Main results (all fully proved, core tactics only, axioms `propext`, `Classical.choice`, `Quot.sound`):
* ripple carry: `addCarry_dec` — on ≥ 2 planes `addCarry` adds the indicator of the digit to the value of EVERY column, the
  negative ones included, also when the carry reaches the sign plane (the index then widens by one plane);
  `addDigit_dec` (digit `i` adds `2^i` unless it lands on the top plane), `addLoop_spec`
* `get_addIndex`: `Add(other)` is the column-wise sum of the two maps whenever `other` holds no negative value (`b` may);
  `get_increment`: `Increment(foundSet)` adds `1` on the found set, exact integers, widening; `wf_addIndex`, `wf_increment`
  (no domain restriction)
* `get_parOr`: `ParOr` of participants that agree on shared columns (in particular: disjoint columns,
  `get_parOr_disjoint`) is the union of the maps — whatever the widths and signs (sign extension of the target and of narrower
  participants: `col_parOr` = bitwise OR of the sign-extended words); `wf_parOr`
* `get_stream` / `stream_planes` (the stream round trip keeps every plane), `get_marshal_gen` (the `MarshalBinary` round trip
  into any receiver loses EXACTLY the sign plane: `v ↦ v mod 2^BitCount`), `get_marshal` (non-negative values survive),
  `get_marshal_neg` (a negative value comes back as `v + 2^BitCount`), `wf_unmarshalFrom`
* `batchEqual_spec`: `BatchEqual` on an index with `BitCount ≤ 63` — `matchCube_spec` (the value list is a full sub-cube:
  pigeonhole `cube_pigeon`), `matchTrie_spec` (via the 32-bit trie theorem, `matchTrie_eq32`), value list `mem_batchVals`
* `get_setMany`, `wf_setMany`, `get_retain`, `wf_retain`, `transpose_spec`, `get_transposeWithCounts1` (histogram),
  `wf_transposeWithCounts1`
* concrete examples at the end (`decide +kernel`: kernel evaluation, no extra axioms).
-/
namespace RModel.BSI
open RModel.BSet
open RModel.BSI32 (good_xor forall_take forall_drop encN_append getD_eq_nil_of_le)

/-! ### column words: small facts -/

theorem dec_cons (b : Bool) : ∀ (l : List Bool), l ≠ [] → dec (b :: l) = (if b then 1 else 0) + 2 * dec l
  | [], h => by simp at h
  | _ :: _, _ => rfl

theorem col_append (ps qs : List BSet) (c : Nat) : col (ps ++ qs) c = col ps c ++ col qs c := by
  simp [col]

/-- a word read in two parts: the low part unsigned, the (non-empty) high part signed -/
theorem dec_append : ∀ (lo hi : List Bool), hi ≠ [] → dec (lo ++ hi) = (encN lo : Int) + (2 : Int) ^ lo.length * dec hi
  | [], hi, _ => by simp [encN]
  | b :: lo, hi, h => by
    have hne : lo ++ hi ≠ [] := by simp [h]
    rw [List.cons_append, dec_cons b _ hne, dec_append lo hi h, encN, List.length_cons, Int.pow_succ]
    cases b <;> simp <;> grind

theorem good_isEmpty_false (s : BSet) (h : isEmpty s = true) (x : Nat) : mem s x = false := by
  rw [(isEmpty_eq s).mp h]; rfl

/-! ### `addCarry`: exact two's complement addition as long as the digit does not land on the top plane -/

theorem addCarry_length : ∀ (ps : List BSet) (f : BSet), ps.length ≤ (addCarry ps f).length ∧ 1 ≤ (addCarry ps f).length
  | [], f => by simp [addCarry]
  | [p], f => by simp only [addCarry]; split <;> simp
  | [p, s], f => by simp only [addCarry]; split <;> simp
  | p :: q :: r :: rest, f => by
    have := addCarry_length (q :: r :: rest) (inter p f)
    simp only [addCarry]; split <;> simp at * <;> omega

/-- **ripple carry**: on a plane list with at least two planes (the last one being the sign plane) `addCarry` adds the
indicator of `f` to the two's complement value of EVERY column — negative ones included, also when the carry reaches the
sign plane (then the index is widened by one plane). -/
theorem addCarry_dec (c : Nat) : ∀ (ps : List BSet) (f : BSet), (∀ p ∈ ps, Good p) → Good f → 2 ≤ ps.length →
    dec (col (addCarry ps f) c) = dec (col ps c) + (if mem f c then 1 else 0)
  | [], _, _, _, h => by simp at h
  | [_], _, _, _, h => by simp at h
  | [p, s], f, h, hf, _ => by
    have hp := h p (by simp)
    have hs := h s (by simp)
    have hc := good_inter p f hp hf
    simp only [addCarry]
    split
    · simp only [col_cons, col_nil, dec, mem_xor _ _ hp.1 hf.1, mem_xor _ _ hs.1 hc.1, mem_diff _ _ hs.1 hc.1,
        mem_inter _ _ hp.1 hf.1]
      cases mem p c <;> cases mem f c <;> cases mem s c <;> simp
    · rename_i he
      have he' : isEmpty (inter p f) = true := by simpa using he
      have : (mem p c && mem f c) = false := by
        rw [← mem_inter _ _ hp.1 hf.1]; exact good_isEmpty_false _ he' c
      simp only [col_cons, col_nil, dec, mem_xor _ _ hp.1 hf.1]
      cases hm : mem p c <;> cases hf' : mem f c <;> cases mem s c <;> simp [hm, hf'] at this ⊢
  | p :: q :: r :: rest, f, h, hf, _ => by
    have hp := h p (by simp)
    have hc := good_inter p f hp hf
    have e1 : col (p :: q :: r :: rest) c = mem p c :: col (q :: r :: rest) c := rfl
    have hT : col (q :: r :: rest) c ≠ [] := by simp
    rw [e1, dec_cons _ _ hT]
    simp only [addCarry]
    split
    · have ih := addCarry_dec c (q :: r :: rest) (inter p f) (fun x hx => h x (by simp [hx])) hc (by simp)
      have hne : col (addCarry (q :: r :: rest) (inter p f)) c ≠ [] := by
        intro e
        have := congrArg List.length e
        have hl := (addCarry_length (q :: r :: rest) (inter p f)).2
        simp only [col_length, List.length_nil] at this
        omega
      rw [col_cons, dec_cons _ _ hne, ih, mem_xor _ _ hp.1 hf.1, mem_inter _ _ hp.1 hf.1]
      generalize dec (col (q :: r :: rest) c) = D
      cases mem p c <;> cases mem f c <;> simp <;> omega
    · rename_i he
      have he' : isEmpty (inter p f) = true := by simpa using he
      have : (mem p c && mem f c) = false := by
        rw [← mem_inter _ _ hp.1 hf.1]; exact good_isEmpty_false _ he' c
      rw [col_cons, dec_cons _ _ hT, mem_xor _ _ hp.1 hf.1]
      generalize dec (col (q :: r :: rest) c) = D
      cases hm : mem p c <;> cases hf' : mem f c <;> simp [hm, hf'] at this ⊢ <;> omega

/-! ### invariant carrier: every plane canonical and inside a bounding set -/

/-- `p` is a canonical finite set contained in `E` -/
def Sub (E p : BSet) : Prop := Good p ∧ ∀ x, mem p x = true → mem E x = true

/-- every plane of `ps` is canonical and contained in `E` -/
def Inside (E : BSet) (ps : List BSet) : Prop := ∀ p ∈ ps, Sub E p

theorem sub_nil (E : BSet) : Sub E [] := ⟨good_nil, by simp⟩

theorem sub_xor (E a b : BSet) (ha : Sub E a) (hb : Sub E b) : Sub E (xor a b) := by
  refine ⟨good_xor _ _ ha.1 hb.1, ?_⟩
  intro x hx
  rw [mem_xor _ _ ha.1.1 hb.1.1] at hx
  cases hm : mem a x
  · simp [hm] at hx; exact hb.2 x hx
  · exact ha.2 x hm

theorem sub_inter (E a b : BSet) (ha : Sub E a) (hb : Good b) : Sub E (inter a b) := by
  refine ⟨good_inter _ _ ha.1 hb, ?_⟩
  intro x hx
  rw [mem_inter _ _ ha.1.1 hb.1] at hx
  simp only [Bool.and_eq_true] at hx
  exact ha.2 x hx.1

theorem sub_inter_right (E a b : BSet) (ha : Good a) (hb : Sub E b) : Sub E (inter a b) := by
  refine ⟨good_inter _ _ ha hb.1, ?_⟩
  intro x hx
  rw [mem_inter _ _ ha.1 hb.1.1] at hx
  simp only [Bool.and_eq_true] at hx
  exact hb.2 x hx.2

theorem sub_diff (E a b : BSet) (ha : Sub E a) (hb : Good b) : Sub E (diff a b) := by
  refine ⟨good_diff _ _ ha.1 hb, ?_⟩
  intro x hx
  rw [mem_diff _ _ ha.1.1 hb.1] at hx
  simp only [Bool.and_eq_true] at hx
  exact ha.2 x hx.1

theorem sub_union (E a b : BSet) (ha : Sub E a) (hb : Sub E b) : Sub E (union a b) := by
  refine ⟨good_union _ _ ha.1 hb.1, ?_⟩
  intro x hx
  rw [mem_union _ _ ha.1.1 hb.1.1] at hx
  simp only [Bool.or_eq_true] at hx
  rcases hx with hx | hx
  · exact ha.2 x hx
  · exact hb.2 x hx

theorem sub_mono (E E' p : BSet) (h : Sub E p) (hE : ∀ x, mem E x = true → mem E' x = true) : Sub E' p :=
  ⟨h.1, fun x hx => hE x (h.2 x hx)⟩

theorem inside_mono (E E' : BSet) (ps : List BSet) (h : Inside E ps) (hE : ∀ x, mem E x = true → mem E' x = true) :
    Inside E' ps := fun p hp => sub_mono E E' p (h p hp) hE

theorem WF.inside {b : BSI} (h : WF b) : Inside b.ebm b.planes := fun p hp => ⟨h.planes p hp, h.sub p hp⟩

theorem wf_of_inside (b : BSI) (he : Good b.ebm) (h : Inside b.ebm b.planes) (hl : 1 ≤ b.planes.length) : WF b :=
  ⟨he, fun p hp => (h p hp).1, fun p hp => (h p hp).2, hl⟩

theorem inside_cons (E p : BSet) (ps : List BSet) : Inside E (p :: ps) ↔ Sub E p ∧ Inside E ps := by
  simp [Inside]

theorem inside_append (E : BSet) (ps qs : List BSet) : Inside E (ps ++ qs) ↔ Inside E ps ∧ Inside E qs := by
  simp only [Inside, List.mem_append]
  constructor
  · intro h; exact ⟨fun p hp => h p (Or.inl hp), fun p hp => h p (Or.inr hp)⟩
  · rintro ⟨h1, h2⟩ p (hp | hp)
    · exact h1 p hp
    · exact h2 p hp

theorem inside_addCarry (E : BSet) : ∀ (ps : List BSet) (f : BSet), Inside E ps → Sub E f → Inside E (addCarry ps f)
  | [], f, _, hf => by
    simp only [addCarry, inside_cons]
    exact ⟨sub_xor _ _ _ (sub_nil E) hf, fun _ h => by simp at h⟩
  | [p], f, h, hf => by
    have hp := h p (by simp)
    have hc := sub_inter_right E p f hp.1 hf
    simp only [addCarry]
    split
    · simp only [inside_cons]
      exact ⟨sub_xor _ _ _ hp hf, sub_xor _ _ _ (sub_nil E) hc, fun _ h => by simp at h⟩
    · simp only [inside_cons]
      exact ⟨sub_xor _ _ _ hp hf, fun _ h => by simp at h⟩
  | [p, s], f, h, hf => by
    have hp := h p (by simp)
    have hs := h s (by simp)
    have hc := sub_inter_right E p f hp.1 hf
    simp only [addCarry]
    split
    · simp only [inside_cons]
      exact ⟨sub_xor _ _ _ hp hf, sub_xor _ _ _ hs hc, sub_diff _ _ _ hs hc.1, fun _ h => by simp at h⟩
    · simp only [inside_cons]
      exact ⟨sub_xor _ _ _ hp hf, hs, fun _ h => by simp at h⟩
  | p :: q :: r :: rest, f, h, hf => by
    have hp := h p (by simp)
    have hrest : Inside E (q :: r :: rest) := fun x hx => h x (by simp [hx])
    have hc := sub_inter_right E p f hp.1 hf
    simp only [addCarry]
    split
    · rw [inside_cons]
      exact ⟨sub_xor _ _ _ hp hf, inside_addCarry E _ _ hrest hc⟩
    · rw [inside_cons]
      exact ⟨sub_xor _ _ _ hp hf, hrest⟩

/-- adding an empty digit changes no column word (and no plane count) -/
theorem addCarry_nil (c : Nat) : ∀ (ps : List BSet), (∀ p ∈ ps, Good p) → ps ≠ [] →
    col (addCarry ps []) c = col ps c
  | [], _, h => by simp at h
  | p :: ps, h, _ => by
    have hp := h p (by simp)
    have he : isEmpty (inter p []) = true := by
      rw [isEmpty_eq]
      apply good_eq_nil _ (good_inter _ _ hp good_nil)
      intro x
      rw [mem_inter _ _ hp.1 List.Pairwise.nil]; simp
    have hx : mem (xor p []) c = mem p c := by rw [mem_xor _ _ hp.1 List.Pairwise.nil]; simp
    match ps with
    | [] => simp [addCarry, he, hx]
    | [s] => simp [addCarry, he, hx]
    | q :: r :: rest => simp [addCarry, he, hx]

theorem addDigit_entry (ps : List BSet) (f : BSet) (i : Nat) (hi : i < ps.length) (h2 : 2 ≤ ps.length) :
    addDigit ps f i = ps.take i ++ addCarry (ps.drop i) f := by
  have : (decide (i ≥ ps.length) || ps.length == 1) = false := by
    simp only [Bool.or_eq_false_iff, decide_eq_false_iff_not, beq_eq_false_iff_ne]
    omega
  simp only [addDigit, this]
  rfl

theorem addDigit_length_ge (ps : List BSet) (f : BSet) (i : Nat) (hi : i ≤ ps.length) :
    ps.length ≤ (addDigit ps f i).length := by
  simp only [addDigit]
  split
  · have := (addCarry_length ((ps ++ [[]]).drop i) f).1
    simp only [List.length_append, List.length_take, List.length_drop, List.length_cons, List.length_nil] at *
    omega
  · have := (addCarry_length (ps.drop i) f).1
    simp only [List.length_append, List.length_take, List.length_drop] at *
    omega

theorem inside_addDigit (E : BSet) (ps : List BSet) (f : BSet) (i : Nat) (h : Inside E ps) (hf : Sub E f) :
    Inside E (addDigit ps f i) := by
  simp only [addDigit]
  have h' : Inside E (if (decide (i ≥ ps.length) || ps.length == 1) = true then ps ++ [[]] else ps) := by
    split
    · rw [inside_append]; exact ⟨h, fun p hp => by simp at hp; rw [hp]; exact sub_nil E⟩
    · exact h
  generalize (if (decide (i ≥ ps.length) || ps.length == 1) = true then ps ++ [[]] else ps) = qs at h'
  rw [inside_append]
  exact ⟨fun p hp => h' p (List.mem_of_mem_take hp), inside_addCarry E _ f (fun p hp => h' p (List.mem_of_mem_drop hp)) hf⟩

/-- `addDigit(f, i)` adds `2^i` to the value of every column of `f`, provided plane `i` is not the top plane -/
theorem addDigit_dec (c : Nat) (ps : List BSet) (f : BSet) (i : Nat) (hi : i + 2 ≤ ps.length)
    (h : ∀ p ∈ ps, Good p) (hf : Good f) :
    dec (col (addDigit ps f i) c) = dec (col ps c) + (2 : Int) ^ i * (if mem f c then 1 else 0) := by
  rw [addDigit_entry ps f i (by omega) (by omega), col_append]
  have hd : 2 ≤ (ps.drop i).length := by simp; omega
  have hne : col (addCarry (ps.drop i) f) c ≠ [] := by
    intro e
    have := congrArg List.length e
    have hl := (addCarry_length (ps.drop i) f).2
    simp only [col_length, List.length_nil] at this
    omega
  have hne' : col (ps.drop i) c ≠ [] := by
    intro e
    have := congrArg List.length e
    simp only [col_length, List.length_nil] at this
    omega
  have e : col ps c = col (ps.take i) c ++ col (ps.drop i) c := by
    rw [← col_append, List.take_append_drop]
  have hl : (col (ps.take i) c).length = i := by simp; omega
  rw [dec_append _ _ hne, addCarry_dec c _ f (forall_drop _ _ _ h) hf hd, e, dec_append _ _ hne', hl]
  grind

/-- an empty digit changes no column word -/
theorem addDigit_nil (c : Nat) (ps : List BSet) (i : Nat) (hi : i < ps.length) (h2 : 2 ≤ ps.length)
    (h : ∀ p ∈ ps, Good p) : col (addDigit ps [] i) c = col ps c := by
  rw [addDigit_entry ps [] i hi h2, col_append, addCarry_nil c _ (forall_drop _ _ _ h) (by
    intro e
    have := congrArg List.length e
    simp at this; omega), ← col_append, List.take_append_drop]

theorem encN_col_nil_last (c : Nat) : encN (col [[]] c) = 0 := by simp [encN]

/-- **the digit loop of `Add`**: when the planes of `other` (`qs`, the last one — its sign plane — empty) are added
into an index that is at least as wide, every column value grows by the unsigned word of `other`. -/
theorem addLoop_spec (E : BSet) (c : Nat) : ∀ (qs ps : List BSet) (i : Nat), Inside E ps → Inside E qs →
    2 ≤ ps.length → i + qs.length ≤ ps.length → (∀ q, qs.getLast? = some q → q = []) →
    Inside E (addLoop ps qs i) ∧ ps.length ≤ (addLoop ps qs i).length ∧
    dec (col (addLoop ps qs i) c) = dec (col ps c) + (2 : Int) ^ i * (encN (col qs c) : Int)
  | [], ps, i, h, _, _, _, _ => by simp [addLoop, h, encN]
  | [q], ps, i, h, hq, h2, hi, hl => by
    have : q = [] := hl q (by simp)
    subst this
    simp only [addLoop]
    refine ⟨inside_addDigit E ps [] i h (sub_nil E), addDigit_length_ge ps [] i (by simp at hi; omega), ?_⟩
    rw [addDigit_nil c ps i (by simp at hi; omega) h2 (fun p hp => (h p hp).1), encN_col_nil_last]
    simp
  | q :: q' :: qs, ps, i, h, hq, h2, hi, hl => by
    have hq0 := hq q (by simp)
    have h1 := inside_addDigit E ps q i h hq0
    have hlen := addDigit_length_ge ps q i (by simp at hi; omega)
    have hd := addDigit_dec c ps q i (by simp at hi; omega) (fun p hp => (h p hp).1) hq0.1
    have ih := addLoop_spec E c (q' :: qs) (addDigit ps q i) (i + 1) h1 (fun r hr => hq r (by simp [hr]))
      (by omega) (by simp at hi ⊢; omega) (fun r hr => hl r (by simpa [List.getLast?_cons_cons] using hr))
    have e : (encN (col (q :: q' :: qs) c) : Int) = (if mem q c then 1 else 0) + 2 * (encN (col (q' :: qs) c) : Int) := by
      rw [col_cons, encN]
      cases mem q c <;> simp
    refine ⟨ih.1, Nat.le_trans hlen ih.2.1, ?_⟩
    rw [addLoop, ih.2.2, hd, e, Int.pow_succ]
    generalize (encN (col (q' :: qs) c) : Int) = A
    generalize dec (col ps c) = D
    generalize (2 : Int) ^ i = P
    cases mem q c <;> simp <;> grind

/-! ### values of a well-formed index -/

theorem col_absent (b : BSI) (h : WF b) (c : Nat) (hc : mem b.ebm c = false) :
    col b.planes c = List.replicate b.planes.length false := by
  rw [List.eq_replicate_iff]
  refine ⟨by simp, ?_⟩
  intro x hx
  simp only [col, List.mem_map] at hx
  obtain ⟨p, hp, rfl⟩ := hx
  cases hm : mem p c
  · rfl
  · rw [h.sub p hp c hm] at hc; cases hc

theorem dec_absent (b : BSI) (h : WF b) (c : Nat) (hc : mem b.ebm c = false) : dec (col b.planes c) = 0 := by
  rw [col_absent b h c hc]
  obtain ⟨k, hk⟩ : ∃ k, b.planes.length = k + 1 := ⟨b.planes.length - 1, by have := h.len; omega⟩
  rw [hk, dec_replicate]; rfl

/-- the value of a column (`0` for a column without value) is the two's complement reading of its word -/
theorem value_eq_dec (b : BSI) (h : WF b) (c : Nat) : b.value c = dec (col b.planes c) := by
  cases hc : mem b.ebm c
  · rw [dec_absent b h c hc]
    simp [value, getValue_eq, hc]
  · exact value_eq b c hc

theorem col_ne_nil (b : BSI) (h : WF b) (c : Nat) : col b.planes c ≠ [] := by
  intro e
  have := congrArg List.length e
  have hl := h.len
  simp only [col_length, List.length_nil] at this
  omega

/-- an index without negative values has an empty sign plane -/
theorem sign_plane_nil (o : BSI) (ho : WF o) (hneg : ∀ c, o.isNegative c = false) :
    ∀ q, o.planes.getLast? = some q → q = [] := by
  intro q hq
  have hm : q ∈ o.planes := List.mem_of_getLast? hq
  apply good_eq_nil q (ho.planes q hm)
  intro x
  have := hneg x
  simpa only [isNegative, hq] using this

/-- the value of a non-negative column is the unsigned reading of its word -/
theorem dec_nonneg (o : BSI) (ho : WF o) (c : Nat) (hneg : o.isNegative c = false) :
    dec (col o.planes c) = (encN (col o.planes c) : Int) := by
  rw [dec_eq _ (col_ne_nil o ho c), ← isNegative_eq, hneg]
  simp

/-! ### `Add` -/

theorem inside_addLoop (E : BSet) : ∀ (qs ps : List BSet) (i : Nat), Inside E ps → Inside E qs → 1 ≤ ps.length →
    Inside E (addLoop ps qs i) ∧ 1 ≤ (addLoop ps qs i).length
  | [], ps, i, h, _, hl => ⟨h, hl⟩
  | q :: qs, ps, i, h, hq, _ => by
    have h1 := inside_addDigit E ps q i h (hq q (by simp))
    have hl : 1 ≤ (addDigit ps q i).length := by
      simp only [addDigit, List.length_append]
      have := (addCarry_length (List.drop i (if (decide (i ≥ ps.length) || ps.length == 1) = true then ps ++ [[]] else ps)) q).2
      omega
    exact inside_addLoop E qs _ (i + 1) h1 (fun r hr => hq r (by simp [hr])) hl

theorem mem_union_ebm (b o : BSI) (h : WF b) (ho : WF o) (x : Nat) :
    mem (union b.ebm o.ebm) x = (mem b.ebm x || mem o.ebm x) := mem_union _ _ h.ebm.1 ho.ebm.1 x

theorem inside_widen (E : BSet) (ps : List BSet) (m : Nat) (h : Inside E ps) : Inside E (widen ps m) := by
  intro p hp
  rcases widen_mem _ _ _ hp with h' | h'
  · exact h p h'
  · subst h'
    rcases getLastD_mem_or ps with h'' | h''
    · exact sub_union _ _ _ (sub_nil E) (h _ h'')
    · rw [h'']; exact sub_union _ _ _ (sub_nil E) (sub_nil E)

/-- **`wf_addIndex`** (no domain restriction) -/
theorem wf_addIndex (b o : BSI) (h : WF b) (ho : WF o) : WF (b.addIndex o) := by
  have hu := mem_union_ebm b o h ho
  have hb : Inside (union b.ebm o.ebm) b.planes := inside_mono _ _ _ h.inside (fun x hx => by rw [hu]; simp [hx])
  have hq : Inside (union b.ebm o.ebm) o.planes := inside_mono _ _ _ ho.inside (fun x hx => by rw [hu]; simp [hx])
  have hl := h.len
  have := inside_addLoop (union b.ebm o.ebm) o.planes
    (if 0 < b.planes.length then widen b.planes o.planes.length else b.planes) 0
    (by split; exact inside_widen _ _ _ hb; exact hb)
    hq (by split; rw [widen_length]; omega; omega)
  exact wf_of_inside _ (good_union _ _ h.ebm ho.ebm) this.1 this.2

/-- the planes after `Add`: column words add up -/
theorem dec_addIndex (b o : BSI) (h : WF b) (ho : WF o) (hneg : ∀ c, o.isNegative c = false)
    (hb : 2 ≤ b.planes.length ∨ 2 ≤ o.planes.length ∨ ∀ c, b.isNegative c = false) (c : Nat) :
    dec (col (b.addIndex o).planes c) = dec (col b.planes c) + dec (col o.planes c) := by
  have hu := mem_union_ebm b o h ho
  have hbi : Inside (union b.ebm o.ebm) b.planes := inside_mono _ _ _ h.inside (fun x hx => by rw [hu]; simp [hx])
  have hq : Inside (union b.ebm o.ebm) o.planes := inside_mono _ _ _ ho.inside (fun x hx => by rw [hu]; simp [hx])
  have hl := h.len
  have hlo := ho.len
  have hsign := sign_plane_nil o ho hneg
  show dec (col (addLoop (if 0 < b.planes.length then widen b.planes o.planes.length else b.planes) o.planes 0) c) = _
  rw [if_pos (by omega), dec_nonneg o ho c (hneg c)]
  by_cases h2 : 2 ≤ b.planes.length ∨ 2 ≤ o.planes.length
  · have hw : 2 ≤ (widen b.planes o.planes.length).length := by rw [widen_length]; omega
    have := (addLoop_spec (union b.ebm o.ebm) c o.planes (widen b.planes o.planes.length) 0
      (inside_widen _ _ _ hbi) hq hw (by rw [widen_length]; omega) hsign).2.2
    rw [this, col_widen _ _ _ (fun p hp => (h.planes p hp).1), dec_sign_extend _ _ (col_ne_nil b h c)]
    simp
  · -- both indexes have exactly one plane: the entry block of `addDigit` appends an empty sign plane
    have hnn : ∀ c, b.isNegative c = false := by
      rcases hb with hb | hb | hb
      · exact absurd (Or.inl hb) h2
      · exact absurd (Or.inr hb) h2
      · exact hb
    obtain ⟨p, hp⟩ : ∃ p, b.planes = [p] := by
      match hbp : b.planes with
      | [] => rw [hbp] at hl; simp at hl
      | [p] => exact ⟨p, rfl⟩
      | _ :: _ :: _ => rw [hbp] at h2; simp at h2
    obtain ⟨q, hq'⟩ : ∃ q, o.planes = [q] := by
      match hop : o.planes with
      | [] => rw [hop] at hlo; simp at hlo
      | [q] => exact ⟨q, rfl⟩
      | _ :: _ :: _ => rw [hop] at h2; simp at h2
    have hq0 : q = [] := hsign q (by rw [hq']; rfl)
    subst hq0
    have hpm : mem p c = false := by
      have := hnn c
      simpa [isNegative, hp] using this
    have hgp : ∀ x ∈ [p, ([] : BSet)], Good x := by
      intro x hx
      simp only [List.mem_cons, List.not_mem_nil, or_false] at hx
      rcases hx with rfl | rfl
      · exact h.planes _ (by rw [hp]; simp)
      · exact good_nil
    have e : addLoop (widen b.planes o.planes.length) o.planes 0 = addCarry [p, []] [] := by
      rw [hp, hq']
      simp [widen, addLoop, addDigit]
    rw [e, addCarry_nil c _ hgp (by simp), hp, hq']
    simp [col, dec, encN, hpm]

/-- **`get_addIndex`**: `b.Add(other)` adds the two maps column-wise (exact integers; a column missing on one side counts
as `0`) whenever `other` holds no negative value.  The values of `b` may be negative; the only exception is the
degenerate case of two one-plane indexes (fresh, never written), where `b` must not hold `-1`. -/
theorem get_addIndex (b o : BSI) (h : WF b) (ho : WF o) (hneg : ∀ c, o.isNegative c = false)
    (hb : 2 ≤ b.planes.length ∨ 2 ≤ o.planes.length ∨ ∀ c, b.isNegative c = false) (c : Nat) :
    (b.addIndex o).getValue c = if mem b.ebm c || mem o.ebm c then some (b.value c + o.value c) else none := by
  rw [getValue_eq]
  have he : mem (b.addIndex o).ebm c = (mem b.ebm c || mem o.ebm c) := mem_union_ebm b o h ho c
  rw [he, dec_addIndex b o h ho hneg hb c, value_eq_dec b h, value_eq_dec o ho]

/-! ### `Increment` -/

theorem good_found (b : BSI) (h : WF b) (found : Option BSet) (hf : ∀ f, found = some f → Good f) :
    Good (found.getD b.ebm) := by
  cases found with
  | none => exact h.ebm
  | some f => exact hf f rfl

theorem addDigit_length_pos (ps : List BSet) (f : BSet) (i : Nat) : 1 ≤ (addDigit ps f i).length := by
  simp only [addDigit, List.length_append]
  have := (addCarry_length (List.drop i (if (decide (i ≥ ps.length) || ps.length == 1) = true then ps ++ [[]] else ps)) f).2
  omega

/-- **`wf_increment`** (no domain restriction) -/
theorem wf_increment (b : BSI) (h : WF b) (found : Option BSet) (hf : ∀ f, found = some f → Good f) :
    WF (b.increment found) := by
  have hg := good_found b h found hf
  have hu : ∀ x, mem (union b.ebm (found.getD b.ebm)) x = (mem b.ebm x || mem (found.getD b.ebm) x) :=
    mem_union _ _ h.ebm.1 hg.1
  apply wf_of_inside _ (good_union _ _ h.ebm hg)
  · show Inside (union b.ebm (found.getD b.ebm)) (addDigit b.planes (found.getD b.ebm) 0)
    exact inside_addDigit _ _ _ 0 (inside_mono _ _ _ h.inside (fun x hx => by rw [hu]; simp [hx]))
      ⟨hg, fun x hx => by rw [hu]; simp [hx]⟩
  · exact addDigit_length_pos _ _ _

/-- column words after `Increment` -/
theorem dec_increment (b : BSI) (h : WF b) (found : Option BSet) (hf : ∀ f, found = some f → Good f)
    (hb : 2 ≤ b.planes.length ∨ ∀ c, b.isNegative c = false) (c : Nat) :
    dec (col (b.increment found).planes c) = dec (col b.planes c) + (if mem (found.getD b.ebm) c then 1 else 0) := by
  have hg := good_found b h found hf
  show dec (col (addDigit b.planes (found.getD b.ebm) 0) c) = _
  by_cases h2 : 2 ≤ b.planes.length
  · have := addDigit_dec c b.planes (found.getD b.ebm) 0 (by omega) h.planes hg
    simpa using this
  · have hnn : ∀ c, b.isNegative c = false := by
      rcases hb with hb | hb
      · exact absurd hb h2
      · exact hb
    have hl := h.len
    obtain ⟨p, hp⟩ : ∃ p, b.planes = [p] := by
      match hbp : b.planes with
      | [] => rw [hbp] at hl; simp at hl
      | [p] => exact ⟨p, rfl⟩
      | _ :: _ :: _ => rw [hbp] at h2; simp at h2
    have hpm : mem p c = false := by
      have := hnn c
      simpa [isNegative, hp] using this
    have hgp : ∀ x ∈ [p, ([] : BSet)], Good x := by
      intro x hx
      simp only [List.mem_cons, List.not_mem_nil, or_false] at hx
      rcases hx with rfl | rfl
      · exact h.planes _ (by rw [hp]; simp)
      · exact good_nil
    have e : addDigit b.planes (found.getD b.ebm) 0 = addCarry [p, []] (found.getD b.ebm) := by
      rw [hp]; simp [addDigit]
    rw [e, addCarry_dec c _ _ hgp hg (by simp), hp]
    simp [col, dec, hpm]

/-- **`get_increment`**: the columns of the found set (all existing columns when nil) are incremented — exact integers,
negative values included, widening by one plane when the carry reaches the sign plane; a column of the found set without
value becomes `1`; every other column is unchanged.  (Degenerate case of a one-plane index, i.e. a fresh one: it must not
hold `-1`.) -/
theorem get_increment (b : BSI) (h : WF b) (found : Option BSet) (hf : ∀ f, found = some f → Good f)
    (hb : 2 ≤ b.planes.length ∨ ∀ c, b.isNegative c = false) (c : Nat) :
    (b.increment found).getValue c =
      if mem (found.getD b.ebm) c then some (b.value c + 1) else b.getValue c := by
  have hg := good_found b h found hf
  rw [getValue_eq]
  have he : mem (b.increment found).ebm c = (mem b.ebm c || mem (found.getD b.ebm) c) :=
    mem_union _ _ h.ebm.1 hg.1 c
  rw [he, dec_increment b h found hf hb c, value_eq_dec b h]
  cases hm : mem (found.getD b.ebm) c
  · simp [getValue_eq]
  · simp

/-! ### `WriteTo` / `ReadFrom` -/

/-- **`get_stream`**: the stream round trip into ANY receiver reproduces the index plane by plane (sign plane included) -/
theorem stream_planes (r b : BSI) : (streamFrom r b).planes = b.planes ∧ (streamFrom r b).ebm = b.ebm := ⟨rfl, rfl⟩

theorem get_stream (r b : BSI) (c : Nat) : (streamFrom r b).getValue c = b.getValue c := rfl

theorem wf_stream (r b : BSI) (h : WF b) : WF (streamFrom r b) := h

/-! ### `MarshalBinary` / `UnmarshalBinary`: the sign plane is lost -/

/-- value planes and sign bit of a word -/
theorem dec_split (l : List Bool) (hl : l ≠ []) :
    dec l = (encN l.dropLast : Int) - (if signBit l then (2 : Int) ^ (l.length - 1) else 0) := by
  have e : l = l.dropLast ++ [l.getLast hl] := (List.dropLast_concat_getLast hl).symm
  have hs : signBit l = l.getLast hl := by
    simp [signBit, List.getLast?_eq_some_getLast hl]
  have hlen : l.dropLast.length = l.length - 1 := by simp
  rw [hs]
  conv => lhs; rw [e]
  rw [dec_append _ _ (by simp), hlen]
  cases l.getLast hl <;> simp [dec]
  omega

theorem col_dropLast (ps : List BSet) (c : Nat) : col ps.dropLast c = (col ps c).dropLast := by
  simp [col, List.map_dropLast]

theorem dec_append_false (lo : List Bool) (k : Nat) : dec (lo ++ List.replicate (k + 1) false) = (encN lo : Int) := by
  rw [dec_append _ _ (by simp), dec_replicate]
  simp

theorem wf_unmarshalFrom (r b : BSI) (h : WF b) (hr : 1 ≤ r.planes.length) : WF (unmarshalFrom r b) := by
  have hn := h.len
  refine ⟨h.ebm, ?_, ?_, ?_⟩
  · intro p hp
    simp only [unmarshalFrom] at hp
    split at hp
    · simp only [List.mem_map] at hp
      obtain ⟨_, _, rfl⟩ := hp
      exact good_nil
    · rcases List.mem_append.mp hp with hp | hp
      · exact h.planes p (List.dropLast_subset _ hp)
      · rw [(List.mem_replicate.mp hp).2]; exact good_nil
  · intro p hp x hx
    simp only [unmarshalFrom] at hp
    split at hp
    · simp only [List.mem_map] at hp
      obtain ⟨_, _, rfl⟩ := hp
      simp at hx
    · rcases List.mem_append.mp hp with hp | hp
      · exact h.sub p (List.dropLast_subset _ hp) x hx
      · rw [(List.mem_replicate.mp hp).2] at hx; simp at hx
  · simp only [unmarshalFrom]
    split
    · simpa using hr
    · simp only [List.length_append, List.length_dropLast, List.length_replicate]
      split <;> omega

/-- the column word after the `MarshalBinary` / `UnmarshalBinary` round trip: the value planes of the source followed by
empty planes -/
theorem col_unmarshalFrom (r b : BSI) (h : WF b) (hr : 1 ≤ r.planes.length) (c : Nat) :
    ∃ k, col (unmarshalFrom r b).planes c = (col b.planes c).dropLast ++ List.replicate (k + 1) false := by
  have hn := h.len
  simp only [unmarshalFrom]
  split
  · rename_i h1
    have hb1 : b.planes.length = 1 := by omega
    refine ⟨r.planes.length - 1, ?_⟩
    have : (col b.planes c).dropLast = [] := by
      apply List.eq_nil_of_length_eq_zero
      simp [hb1]
    rw [this, List.nil_append, show r.planes.length - 1 + 1 = r.planes.length by omega]
    rw [List.eq_replicate_iff]
    refine ⟨by simp, ?_⟩
    intro x hx
    simp only [col, List.map_map, List.mem_map] at hx
    obtain ⟨_, _, rfl⟩ := hx
    rfl
  · rename_i h1
    refine ⟨(if r.planes.length > b.planes.length then r.planes.length else b.planes.length) - (b.planes.length - 1) - 1, ?_⟩
    have hk : (if r.planes.length > b.planes.length then r.planes.length else b.planes.length) - (b.planes.length - 1) - 1 + 1 =
        (if r.planes.length > b.planes.length then r.planes.length else b.planes.length) - (b.planes.length - 1) := by
      split <;> omega
    rw [hk, col_append, col_dropLast]
    congr 1
    simp [col]

/-- **`get_marshal_gen`**: what the `MarshalBinary` / `UnmarshalBinary` round trip (into ANY receiver) does to a value:
it loses exactly the sign plane — the column keeps the residue of its value modulo `2^BitCount()`, i.e. a non-negative
value survives, a negative value `v` comes back as `v + 2^BitCount()`. -/
theorem get_marshal_gen (r b : BSI) (h : WF b) (hr : 1 ≤ r.planes.length) (c : Nat) :
    (unmarshalFrom r b).getValue c = if mem b.ebm c then some (b.value c % (2 : Int) ^ b.bitCount) else none := by
  rw [getValue_eq]
  show (if mem b.ebm c = true then _ else _) = _
  cases he : mem b.ebm c
  · simp
  · simp only [if_true, Option.some.injEq]
    obtain ⟨k, hk⟩ := col_unmarshalFrom r b h hr c
    rw [hk, dec_append_false, value_eq_dec b h, dec_split _ (col_ne_nil b h c)]
    have hlt := encN_lt (col b.planes c).dropLast
    have hl : (col b.planes c).dropLast.length = b.bitCount := by simp [bitCount]
    rw [hl] at hlt
    have hlt' : ((encN (col b.planes c).dropLast : Nat) : Int) < (2 : Int) ^ b.bitCount := by
      have : ((2 ^ b.bitCount : Nat) : Int) = (2 : Int) ^ b.bitCount := by simp
      omega
    have hcl : (col b.planes c).length - 1 = b.bitCount := by simp [bitCount]
    rw [hcl]
    have hL : (0 : Int) ≤ (encN (col b.planes c).dropLast : Int) := Int.natCast_nonneg _
    generalize (encN (col b.planes c).dropLast : Int) = L at *
    cases signBit (col b.planes c)
    · simp only [Bool.false_eq_true, if_false, Int.sub_zero]
      exact (Int.emod_eq_of_lt hL hlt').symm
    · simp only [if_true]
      have : L - (2 : Int) ^ b.bitCount = L + (-1) * (2 : Int) ^ b.bitCount := by omega
      rw [this, Int.add_mul_emod_self_right]
      exact (Int.emod_eq_of_lt hL hlt').symm

/-- **`get_marshal`**: an index without negative values survives the `MarshalBinary` / `UnmarshalBinary` round trip
(into any receiver, fresh or previously used, narrower or wider). -/
theorem get_marshal (r b : BSI) (h : WF b) (hr : 1 ≤ r.planes.length) (hneg : ∀ c, b.isNegative c = false) (c : Nat) :
    (unmarshalFrom r b).getValue c = b.getValue c := by
  rw [get_marshal_gen r b h hr c, getValue_eq]
  cases he : mem b.ebm c
  · simp
  · simp only [if_true, Option.some.injEq]
    rw [value_eq_dec b h]
    have h1 := dec_nonneg b h c (hneg c)
    have h2 := (dec_range (col b.planes c) (col_ne_nil b h c)).2
    have hcl : (col b.planes c).length - 1 = b.bitCount := by simp [bitCount]
    rw [hcl] at h2
    exact Int.emod_eq_of_lt (by omega) h2

/-- a negative value does NOT survive: it comes back shifted by `2^BitCount()` -/
theorem get_marshal_neg (r b : BSI) (h : WF b) (hr : 1 ≤ r.planes.length) (c : Nat) (hc : mem b.ebm c = true)
    (hneg : b.isNegative c = true) :
    (unmarshalFrom r b).getValue c = some (b.value c + (2 : Int) ^ b.bitCount) := by
  rw [get_marshal_gen r b h hr c, hc, if_pos rfl, value_eq_dec b h]
  congr 1
  have h0 := dec_range (col b.planes c) (col_ne_nil b h c)
  have hcl : (col b.planes c).length - 1 = b.bitCount := by simp [bitCount]
  rw [hcl] at h0
  have hs := dec_eq _ (col_ne_nil b h c)
  rw [← isNegative_eq, hneg, if_pos rfl] at hs
  have hlt := encN_lt (col b.planes c)
  have hl : (col b.planes c).length = b.bitCount + 1 := by
    have := h.len
    simp [bitCount]; omega
  rw [hl] at hlt hs
  have : ((2 ^ (b.bitCount + 1) : Nat) : Int) = (2 : Int) ^ (b.bitCount + 1) := by simp
  have hp : (2 : Int) ^ (b.bitCount + 1) = 2 * (2 : Int) ^ b.bitCount := by rw [Int.pow_succ]; omega
  have hneg' : dec (col b.planes c) < 0 := by omega
  have e : dec (col b.planes c) = (dec (col b.planes c) + (2 : Int) ^ b.bitCount) + (-1) * (2 : Int) ^ b.bitCount := by omega
  conv => lhs; rw [e, Int.add_mul_emod_self_right]
  exact Int.emod_eq_of_lt (by omega) (by omega)

/-! ### `ParOr` -/

/-- the sign extension of a word to `n` bits -/
def ext (n : Nat) (l : List Bool) : List Bool := l ++ List.replicate (n - l.length) (signBit l)

theorem ext_length (n : Nat) (l : List Bool) (h : l.length ≤ n) : (ext n l).length = n := by
  simp [ext]; omega

theorem dec_ext (n : Nat) (l : List Bool) (h : l ≠ []) : dec (ext n l) = dec l := dec_sign_extend l _ h

/-- two's complement reading is injective on words of the same length -/
theorem dec_inj : ∀ (l l' : List Bool), l.length = l'.length → dec l = dec l' → l = l'
  | [], [], _, _ => rfl
  | [], _ :: _, h, _ => by simp at h
  | _ :: _, [], h, _ => by simp at h
  | [s], [s'], _, h => by cases s <;> cases s' <;> simp [dec] at h ⊢
  | [_], _ :: _ :: _, h, _ => by simp at h
  | _ :: _ :: _, [_], h, _ => by simp at h
  | b :: q :: r, b' :: q' :: r', hl, h => by
    rw [dec_cons b _ (by simp), dec_cons b' _ (by simp)] at h
    have hd : dec (q :: r) = dec (q' :: r') := by
      cases b <;> cases b' <;> simp at h <;> omega
    have hb : b = b' := by
      cases b <;> cases b' <;> simp at h ⊢ <;> omega
    rw [hb, dec_inj (q :: r) (q' :: r') (by simpa using hl) hd]

theorem ext_getD_lt (n : Nat) (l : List Bool) (k : Nat) (hk : k < l.length) : (ext n l).getD k false = l.getD k false := by
  simp only [ext, List.getD_eq_getElem?_getD]
  rw [List.getElem?_append_left hk]

theorem ext_getD_ge (n : Nat) (l : List Bool) (k : Nat) (hk : l.length ≤ k) (hn : k < n) :
    (ext n l).getD k false = signBit l := by
  simp only [ext, List.getD_eq_getElem?_getD]
  rw [List.getElem?_append_right hk, List.getElem?_replicate]
  rw [if_pos (by omega)]
  rfl

theorem list_ext_getD : ∀ (l l' : List Bool), l.length = l'.length → (∀ k, l.getD k false = l'.getD k false) → l = l'
  | [], [], _, _ => rfl
  | [], _ :: _, h, _ => by simp at h
  | _ :: _, [], h, _ => by simp at h
  | a :: l, a' :: l', hl, h => by
    have h0 := h 0
    simp only [List.getD_cons_zero] at h0
    rw [h0, list_ext_getD l l' (by simpa using hl) (fun k => by simpa using h (k + 1))]

/-- the bit participant `x` contributes to plane `j` of the result, for column `c` -/
def extBit (x : BSI) (j c : Nat) : Bool :=
  match extPlane x j with
  | some q => mem q c
  | none => false

theorem signBit_col (ps : List BSet) (c : Nat) : signBit (col ps c) = mem (ps.getLastD []) c := by
  simp only [signBit, col, List.getLast?_map, List.getLastD_eq_getLast?]
  cases ps.getLast? <;> simp

/-- a participant contributes its sign-extended column word -/
theorem extBit_eq (x : BSI) (hx : WF x) (n j c : Nat) (hj : j < n) :
    extBit x j c = (ext n (col x.planes c)).getD j false := by
  have hl := hx.len
  simp only [extBit, extPlane]
  by_cases h1 : x.planes.length > j
  · rw [if_pos h1, ext_getD_lt _ _ _ (by simpa using h1), getD_col]
  · rw [if_neg h1, if_pos (by omega), ext_getD_ge _ _ _ (by simp; omega) hj, signBit_col]

theorem extPlane_sub (x : BSI) (hx : WF x) (j : Nat) (q : BSet) (h : extPlane x j = some q) : Sub x.ebm q := by
  simp only [extPlane] at h
  split at h
  · cases h
    rw [List.getD_eq_getElem?_getD]
    cases hi : x.planes[j]? with
    | none => exact sub_nil _
    | some p => exact hx.inside p (List.mem_of_getElem? hi)
  · split at h
    · cases h
      rcases getLastD_mem_or x.planes with h' | h'
      · exact hx.inside _ h'
      · rw [h']; exact sub_nil _
    · cases h

/-- one plane of `ParOr`: the union of the plane with what the participants contribute to it -/
theorem fold_plane (j c : Nat) : ∀ (bs : List BSI), (∀ x ∈ bs, WF x) → ∀ (acc : BSet), Good acc →
    Good (bs.foldl (orExt j) acc) ∧
    mem (bs.foldl (orExt j) acc) c =
      (mem acc c || bs.any (fun x => extBit x j c))
  | [], _, acc, ha => by simp [ha]
  | x :: bs, h, acc, ha => by
    have hx := h x (by simp)
    simp only [List.foldl_cons, List.any_cons, extBit, orExt]
    cases he : extPlane x j with
    | none =>
      have ih := fold_plane j c bs (fun y hy => h y (by simp [hy])) acc ha
      refine ⟨ih.1, ?_⟩
      rw [ih.2]
      simp [extBit]
    | some q =>
      have hq := (extPlane_sub x hx j q he).1
      have ih := fold_plane j c bs (fun y hy => h y (by simp [hy])) (union acc q) (good_union _ _ ha hq)
      refine ⟨ih.1, ?_⟩
      rw [ih.2, mem_union _ _ ha.1 hq.1, Bool.or_assoc]
      simp [extBit]

theorem fold_ebm (c : Nat) : ∀ (bs : List BSI), (∀ x ∈ bs, WF x) → ∀ (acc : BSet), Good acc →
    Good (bs.foldl (fun acc x => union acc x.ebm) acc) ∧
    mem (bs.foldl (fun acc x => union acc x.ebm) acc) c = (mem acc c || bs.any (fun x => mem x.ebm c))
  | [], _, acc, ha => by simp [ha]
  | x :: bs, h, acc, ha => by
    have hx := h x (by simp)
    have ih := fold_ebm c bs (fun y hy => h y (by simp [hy])) (union acc x.ebm) (good_union _ _ ha hx.ebm)
    simp only [List.foldl_cons, List.any_cons]
    refine ⟨ih.1, ?_⟩
    rw [ih.2, mem_union _ _ ha.1 hx.ebm.1, Bool.or_assoc]

theorem parOrPlanes_length (bs : List BSI) : ∀ (ps : List BSet) (j : Nat), (parOrPlanes bs ps j).length = ps.length
  | [], _ => rfl
  | p :: ps, j => by simp [parOrPlanes, parOrPlanes_length bs ps (j + 1)]

theorem parOrPlanes_mem (bs : List BSI) : ∀ (ps : List BSet) (j : Nat) (q : BSet), q ∈ parOrPlanes bs ps j →
    ∃ p ∈ ps, ∃ k, q = bs.foldl (orExt k) p
  | [], _, q, h => by simp [parOrPlanes] at h
  | p :: ps, j, q, h => by
    simp only [parOrPlanes, List.mem_cons] at h
    rcases h with h | h
    · exact ⟨p, by simp, j, h⟩
    · obtain ⟨p', hp', k, e⟩ := parOrPlanes_mem bs ps (j + 1) q h
      exact ⟨p', by simp [hp'], k, e⟩

theorem getD_parOrPlanes (bs : List BSI) (hb : ∀ x ∈ bs, WF x) (c : Nat) : ∀ (ps : List BSet) (j k : Nat),
    (∀ p ∈ ps, Good p) → k < ps.length →
    mem ((parOrPlanes bs ps j).getD k []) c = (mem (ps.getD k []) c || bs.any (fun x => extBit x (j + k) c))
  | [], j, k, _, hk => by simp at hk
  | p :: ps, j, 0, h, _ => by
    simp only [parOrPlanes, List.getD_cons_zero, Nat.add_zero]
    rw [(fold_plane j c bs hb p (h p (by simp))).2]
  | p :: ps, j, k + 1, h, hk => by
    simp only [parOrPlanes, List.getD_cons_succ]
    rw [getD_parOrPlanes bs hb c ps (j + 1) k (fun q hq => h q (by simp [hq])) (by simpa using hk)]
    have e : j + 1 + k = j + (k + 1) := by omega
    rw [e]

theorem bits_ge (bs : List BSI) : ∀ (m : Nat),
    m ≤ bs.foldl (fun m x => if x.planes.length > m then x.planes.length else m) m ∧
    ∀ x ∈ bs, x.planes.length ≤ bs.foldl (fun m x => if x.planes.length > m then x.planes.length else m) m := by
  induction bs with
  | nil => intro m; simp
  | cons y bs ih =>
    intro m
    simp only [List.foldl_cons]
    have := ih (if y.planes.length > m then y.planes.length else m)
    have hm : m ≤ (if y.planes.length > m then y.planes.length else m) ∧
        y.planes.length ≤ (if y.planes.length > m then y.planes.length else m) := by
      split <;> omega
    refine ⟨by omega, ?_⟩
    intro x hx
    rcases List.mem_cons.mp hx with rfl | hx
    · omega
    · exact this.2 x hx

/-- the width of the result of `ParOr` -/
def parBits (b : BSI) (bs : List BSI) : Nat :=
  bs.foldl (fun m x => if x.planes.length > m then x.planes.length else m) b.planes.length

theorem parOr_length (b : BSI) (bs : List BSI) : (b.parOr bs).planes.length = parBits b bs := by
  have := (bits_ge bs b.planes.length).1
  show (parOrPlanes bs (widen b.planes (parBits b bs)) 0).length = _
  rw [parOrPlanes_length, widen_length]
  simp only [parBits]
  omega

theorem mem_parOr_ebm (b : BSI) (h : WF b) (bs : List BSI) (hb : ∀ x ∈ bs, WF x) (c : Nat) :
    mem (b.parOr bs).ebm c = (mem b.ebm c || bs.any (fun x => mem x.ebm c)) :=
  (fold_ebm c bs hb b.ebm h.ebm).2

/-- **`wf_parOr`** -/
theorem wf_parOr (b : BSI) (h : WF b) (bs : List BSI) (hb : ∀ x ∈ bs, WF x) : WF (b.parOr bs) := by
  refine ⟨(fold_ebm 0 bs hb b.ebm h.ebm).1, ?_, ?_, ?_⟩
  · intro q hq
    obtain ⟨p, hp, k, rfl⟩ := parOrPlanes_mem bs _ _ q hq
    exact (fold_plane k 0 bs hb p (inside_widen _ _ _ h.inside p hp).1).1
  · intro q hq c hc
    obtain ⟨p, hp, k, rfl⟩ := parOrPlanes_mem bs _ _ q hq
    have hg := inside_widen _ _ _ h.inside p hp
    rw [(fold_plane k c bs hb p hg.1).2] at hc
    rw [mem_parOr_ebm b h bs hb]
    simp only [Bool.or_eq_true, List.any_eq_true] at hc ⊢
    rcases hc with hc | ⟨x, hx, hc⟩
    · exact Or.inl (hg.2 c hc)
    · refine Or.inr ⟨x, hx, ?_⟩
      simp only [extBit] at hc
      cases he : extPlane x k with
      | none => rw [he] at hc; cases hc
      | some q => rw [he] at hc; exact (extPlane_sub x (hb x hx) k q he).2 c hc
  · rw [parOr_length]
    have := (bits_ge bs b.planes.length).1
    have := h.len
    simp only [parBits]
    omega

theorem any_congr' {α : Type} : ∀ (l : List α) (f g : α → Bool), (∀ x ∈ l, f x = g x) → l.any f = l.any g
  | [], _, _, _ => rfl
  | a :: l, f, g, h => by
    simp only [List.any_cons, h a (by simp), any_congr' l f g (fun x hx => h x (by simp [hx]))]

theorem getD_all_false (l : List Bool) (h : ∀ x ∈ l, x = false) (k : Nat) : l.getD k false = false := by
  rw [List.getD_eq_getElem?_getD]
  cases hk : l[k]? with
  | none => rfl
  | some a => exact h a (List.mem_of_getElem? hk)

/-- **bitwise OR**: the column word after `ParOr` is the bitwise OR of the sign-extended words of the target and of every
participant -/
theorem col_parOr (b : BSI) (h : WF b) (bs : List BSI) (hb : ∀ x ∈ bs, WF x) (c k : Nat) :
    (col (b.parOr bs).planes c).getD k false =
      ((ext (parBits b bs) (col b.planes c)).getD k false ||
        bs.any (fun x => (ext (parBits b bs) (col x.planes c)).getD k false)) := by
  have hbits := bits_ge bs b.planes.length
  have hlen := parOr_length b bs
  by_cases hk : k < parBits b bs
  · rw [getD_col]
    show mem ((parOrPlanes bs (widen b.planes (parBits b bs)) 0).getD k []) c = _
    have hwl : (widen b.planes (parBits b bs)).length = parBits b bs := by
      rw [widen_length]; simp only [parBits]; omega
    rw [getD_parOrPlanes bs hb c _ 0 k (fun p hp => (inside_widen _ _ _ h.inside p hp).1) (by omega), Nat.zero_add,
      ← getD_col, col_widen _ _ _ (fun p hp => (h.planes p hp).1)]
    have e1 : max b.planes.length (parBits b bs) - b.planes.length = parBits b bs - (col b.planes c).length := by
      simp only [parBits, col_length]; omega
    rw [e1]
    congr 1
    apply any_congr'
    intro x hx
    exact extBit_eq x (hb x hx) (parBits b bs) k c hk
  · have hk' : parBits b bs ≤ k := by omega
    have e0 : ∀ (l : List Bool), l.length = parBits b bs → l.getD k false = false := by
      intro l hl
      rw [List.getD_eq_getElem?_getD, List.getElem?_eq_none (by omega)]; rfl
    rw [e0 _ (by rw [col_length, hlen]), e0 _ (ext_length _ _ (by simp only [col_length, parBits]; omega))]
    symm
    rw [Bool.false_or, List.any_eq_false]
    intro x hx
    rw [e0 _ (ext_length _ _ (by have := hbits.2 x hx; simp only [col_length, parBits]; omega))]
    simp

theorem any_const (t : Bool) {α : Type} (l : List α) (g : α → Bool) (h : ∀ y ∈ l, g y = t ∨ g y = false)
    (hex : ∃ y ∈ l, g y = t) : l.any g = t := by
  cases t
  · rw [List.any_eq_false]
    intro y hy
    rcases h y hy with h' | h' <;> simp [h']
  · exact List.any_eq_true.mpr hex

/-- **`get_parOr`** ("concatenation; overlapping columns must carry identical values"): when every participant (target
included) that has column `c` stores the same value `v`, the result stores `v` — whatever the widths and the signs (narrower
participants and the target are sign extended); a column nobody has stays absent. -/
theorem get_parOr (b : BSI) (h : WF b) (bs : List BSI) (hb : ∀ x ∈ bs, WF x) (c : Nat) (v : Int)
    (hv : ∀ x ∈ b :: bs, mem x.ebm c = true → x.getValue c = some v) :
    (b.parOr bs).getValue c = if mem b.ebm c || bs.any (fun x => mem x.ebm c) then some v else none := by
  rw [getValue_eq, mem_parOr_ebm b h bs hb]
  have hbits := bits_ge bs b.planes.length
  have hw : ∀ x ∈ b :: bs, WF x := by
    intro x hx
    rcases List.mem_cons.mp hx with rfl | hx
    · exact h
    · exact hb x hx
  have hlenx : ∀ x ∈ b :: bs, (col x.planes c).length ≤ parBits b bs := by
    intro x hx
    rcases List.mem_cons.mp hx with rfl | hx
    · simp only [col_length, parBits]; omega
    · have := hbits.2 x hx; simp only [col_length, parBits]; omega
  cases hany : (mem b.ebm c || bs.any (fun x => mem x.ebm c))
  · simp
  · simp only [if_true, Option.some.injEq]
    -- some participant `y0` has the column; its sign-extended word is the word of the result
    obtain ⟨y0, hy0, hm0⟩ : ∃ y ∈ b :: bs, mem y.ebm c = true := by
      simp only [Bool.or_eq_true, List.any_eq_true] at hany
      rcases hany with hm | ⟨x, hx, hm⟩
      · exact ⟨b, by simp, hm⟩
      · exact ⟨x, by simp [hx], hm⟩
    have hdec : ∀ x ∈ b :: bs, mem x.ebm c = true → dec (col x.planes c) = v := by
      intro x hx hm
      have := hv x hx hm
      rw [getValue_eq, hm, if_pos rfl] at this
      exact Option.some.inj this
    -- every participant's extended word is the word of `y0` or all zeros
    have hword : ∀ x ∈ b :: bs, ∀ k,
        (ext (parBits b bs) (col x.planes c)).getD k false = (ext (parBits b bs) (col y0.planes c)).getD k false ∨
        (ext (parBits b bs) (col x.planes c)).getD k false = false := by
      intro x hx k
      cases hm : mem x.ebm c
      · right
        have hwx := hw x hx
        rw [col_absent x hwx c hm]
        have hs : signBit (List.replicate x.planes.length false) = false := by
          simp only [signBit, List.getLast?_replicate]
          split <;> rfl
        apply getD_all_false
        intro y hy
        simp only [ext, hs, List.mem_append, List.mem_replicate] at hy
        rcases hy with hy | hy <;> exact hy.2
      · left
        have e : ext (parBits b bs) (col x.planes c) = ext (parBits b bs) (col y0.planes c) := by
          apply dec_inj
          · rw [ext_length _ _ (hlenx x hx), ext_length _ _ (hlenx y0 hy0)]
          · rw [dec_ext _ _ (col_ne_nil x (hw x hx) c), dec_ext _ _ (col_ne_nil y0 (hw y0 hy0) c),
              hdec x hx hm, hdec y0 hy0 hm0]
        rw [e]
    have hW : col (b.parOr bs).planes c = ext (parBits b bs) (col y0.planes c) := by
      apply list_ext_getD
      · rw [col_length, parOr_length, ext_length _ _ (hlenx y0 hy0)]
      · intro k
        rw [col_parOr b h bs hb c k]
        have := any_const ((ext (parBits b bs) (col y0.planes c)).getD k false) (b :: bs)
          (fun x => (ext (parBits b bs) (col x.planes c)).getD k false) (fun x hx => hword x hx k) ⟨y0, hy0, rfl⟩
        simpa only [List.any_cons] using this
    rw [hW, dec_ext _ _ (col_ne_nil y0 (hw y0 hy0) c), hdec y0 hy0 hm0]

/-! ### `BatchEqual` -/

open RModel.BSI32 (insertU insertU_spec DistinctMod pigeon distinct_filter length_filter_split filter_not_eq filter_pos_eq
  mod_succ_testBit)

theorem batchVals_spec (bc : Nat) : ∀ (values : List Int) (acc : List Nat), acc.Pairwise (· < ·) →
    (values.foldl (fun acc v => if fitsBitCount v bc then insertU (encodeValue v bc) acc else acc) acc).Pairwise (· < ·) ∧
    ∀ z, z ∈ values.foldl (fun acc v => if fitsBitCount v bc then insertU (encodeValue v bc) acc else acc) acc ↔
      z ∈ acc ∨ ∃ v ∈ values, fitsBitCount v bc = true ∧ encodeValue v bc = z
  | [], acc, h => by simp [h]
  | v :: vs, acc, h => by
    simp only [List.foldl_cons]
    by_cases hd : fitsBitCount v bc = true
    · rw [if_pos hd]
      have hi := insertU_spec (encodeValue v bc) acc h
      have ih := batchVals_spec bc vs (insertU (encodeValue v bc) acc) hi.1
      refine ⟨ih.1, ?_⟩
      intro z
      rw [ih.2 z, hi.2 z]
      constructor
      · rintro ((h1 | h1) | ⟨w, hw, h2⟩)
        · exact Or.inr ⟨v, by simp, hd, h1.symm⟩
        · exact Or.inl h1
        · exact Or.inr ⟨w, by simp [hw], h2⟩
      · rintro (h1 | ⟨w, hw, h2⟩)
        · exact Or.inl (Or.inr h1)
        · rcases List.mem_cons.mp hw with rfl | hw
          · exact Or.inl (Or.inl h2.2.symm)
          · exact Or.inr ⟨w, hw, h2⟩
    · rw [if_neg hd]
      have ih := batchVals_spec bc vs acc h
      refine ⟨ih.1, ?_⟩
      intro z
      rw [ih.2 z]
      constructor
      · rintro (h1 | ⟨w, hw, h2⟩)
        · exact Or.inl h1
        · exact Or.inr ⟨w, by simp [hw], h2⟩
      · rintro (h1 | ⟨w, hw, h2⟩)
        · exact Or.inl h1
        · rcases List.mem_cons.mp hw with rfl | hw
          · exact absurd h2.1 hd
          · exact Or.inr ⟨w, hw, h2⟩

theorem batchVals_sorted (bc : Nat) (values : List Int) : (batchVals bc values).Pairwise (· < ·) :=
  (batchVals_spec bc values [] List.Pairwise.nil).1

theorem mem_batchVals (bc : Nat) (values : List Int) (z : Nat) :
    z ∈ batchVals bc values ↔ ∃ v ∈ values, fitsBitCount v bc = true ∧ encodeValue v bc = z := by
  have := (batchVals_spec bc values [] List.Pairwise.nil).2 z
  simpa [batchVals] using this

theorem batchVals_lt (bc : Nat) (values : List Int) (z : Nat) (hz : z ∈ batchVals bc values) : z < 2 ^ (bc + 1) := by
  obtain ⟨v, _, _, rfl⟩ := (mem_batchVals bc values z).mp hz
  exact encodeValue_lt v bc

theorem distinct_batchVals (bc : Nat) (values : List Int) : DistinctMod (bc + 1) (batchVals bc values) := by
  apply List.Pairwise.imp_of_mem _ (batchVals_sorted bc values)
  intro v w hv hw hlt
  rw [Nat.mod_eq_of_lt (batchVals_lt bc values v hv), Nat.mod_eq_of_lt (batchVals_lt bc values w hw)]
  omega

/-- the unsigned column word IS the encoding of the stored value -/
theorem word_eq_encode (b : BSI) (h : WF b) (k : Int) (hk : Fits k b.bitCount) (c : Nat) (hc : mem b.ebm c = true) :
    encN (col b.planes c) = encodeValue k b.bitCount ↔ b.value c = k := by
  have hlen : b.planes.length = b.bitCount + 1 := by have := h.len; simp only [bitCount]; omega
  rw [value_eq b c hc]
  have hne := col_ne_nil b h c
  have h1 := encN_lt (col b.planes c)
  have h2 := signBit_iff _ hne
  have h3 := dec_eq _ hne
  have h4 := encodeValue_eq k _ hk.1 hk.2
  have hk1 : -(2 : Int) ^ b.bitCount ≤ k := hk.1
  have hk2 : k < (2 : Int) ^ b.bitCount := hk.2
  rw [col_length, hlen] at h1 h3
  rw [col_length, hlen, Nat.add_sub_cancel] at h2
  have hp : (2 : Int) ^ (b.bitCount + 1) = 2 * 2 ^ b.bitCount := by rw [Int.pow_succ]; omega
  have hq : ((2 ^ b.bitCount : Nat) : Int) = (2 : Int) ^ b.bitCount := by simp
  have hq' : ((2 ^ (b.bitCount + 1) : Nat) : Int) = (2 : Int) ^ (b.bitCount + 1) := by simp
  rw [h3]
  cases hs : signBit (col b.planes c)
  · have : ¬ 2 ^ b.bitCount ≤ encN (col b.planes c) := by rw [← h2]; simp [hs]
    simp only [Bool.false_eq_true, if_false]
    split at h4 <;> omega
  · have : 2 ^ b.bitCount ≤ encN (col b.planes c) := h2.mp hs
    simp only [if_true]
    split at h4 <;> omega

/-- "the word of column `c` is one of the encoded values" = "the value of column `c` is one of the given values" -/
theorem word_mem_batchVals (b : BSI) (h : WF b) (values : List Int) (c : Nat) (hc : mem b.ebm c = true) :
    encN (col b.planes c) ∈ batchVals b.bitCount values ↔ ∃ v ∈ values, b.getValue c = some v := by
  rw [mem_batchVals]
  have hg : b.getValue c = some (b.value c) := by simp [value, getValue_eq, hc]
  constructor
  · rintro ⟨v, hv, hf, e⟩
    refine ⟨v, hv, ?_⟩
    rw [hg, (word_eq_encode b h v ((fitsBitCount_iff _ _).mp hf) c hc).mp e.symm]
  · rintro ⟨v, hv, e⟩
    rw [hg] at e
    have e' : b.value c = v := Option.some.inj e
    have hf : Fits v b.bitCount := by rw [← e']; exact value_fits b h c hc
    exact ⟨v, hv, (fitsBitCount_iff _ _).mpr hf, ((word_eq_encode b h v hf c hc).mpr e').symm⟩

/-- the 64-bit match trie is the match trie of `BitSliceIndexing` run on the planes (sign plane = top bit) -/
theorem matchTrie_eq32 (b : BSI) : ∀ (n : Nat) (vals : List Nat) (pre : BSet),
    matchTrie b n vals pre = BSI32.matchTrie ⟨b.planes, b.ebm, 0, 0⟩ n vals pre
  | 0, _, _ => rfl
  | p + 1, vals, pre => by
    simp only [matchTrie, BSI32.matchTrie, matchTrie_eq32 b p]

/-- **the trie path** -/
theorem matchTrie_spec (b : BSI) (h : WF b) (vals : List Nat) (hne : vals ≠ [])
    (hd : DistinctMod b.planes.length vals) (hlt : ∀ v ∈ vals, v < 2 ^ b.planes.length) (c : Nat) :
    mem (matchTrie b b.planes.length vals b.ebm) c = (mem b.ebm c && decide (encN (col b.planes c) ∈ vals)) := by
  rw [matchTrie_eq32]
  rw [(BSI32.matchTrie_spec ⟨b.planes, b.ebm, 0, 0⟩ h.planes c b.planes.length vals b.ebm hne hd h.ebm).2]
  congr 1
  have hw : BSI32.word b.planes c < 2 ^ b.planes.length := by
    have := encN_lt (col b.planes c)
    simpa [BSI32.word] using this
  rw [Bool.eq_iff_iff, List.any_eq_true, decide_eq_true_iff]
  constructor
  · rintro ⟨v, hv, e⟩
    simp only [beq_iff_eq, Nat.mod_eq_of_lt (hlt v hv), Nat.mod_eq_of_lt hw] at e
    rw [show encN (col b.planes c) = v from e.symm]; exact hv
  · intro hv
    exact ⟨_, hv, by simp [BSI32.word]⟩

/-! #### the cube path: a value list that is a full sub-cube -/

theorem popCount_succ (n M : Nat) : popCount (n + 1) M = popCount n M + (M.testBit n).toNat := by
  simp only [popCount, List.range_succ, List.filter_append, List.length_append]
  cases hm : M.testBit n <;> simp [hm]

/-- `v` carries the fixed pattern `pat` on the bits below `n` that are not variable (`M` = variable mask) -/
def Agree (n M pat v : Nat) : Prop := ∀ i, i < n → M.testBit i = false → v.testBit i = pat.testBit i

theorem agree_mono (n M pat v : Nat) (h : Agree (n + 1) M pat v) : Agree n M pat v :=
  fun i hi hm => h i (by omega) hm

theorem agree_mod (n M pat v : Nat) (h : Agree (n + 1) M pat v) : Agree n M pat (v % 2 ^ n) := by
  intro i hi hm
  rw [Nat.testBit_mod_two_pow, h i (by omega) hm]
  simp [hi]

/-- pigeonhole on a sub-cube: values with distinct residues that all carry the fixed pattern are at most
`2^(number of variable bits)`, and that many of them cover the whole sub-cube -/
theorem cube_pigeon : ∀ (n M pat : Nat) (vals : List Nat), DistinctMod n vals → (∀ v ∈ vals, Agree n M pat v) →
    vals.length ≤ 2 ^ popCount n M ∧
    (vals.length = 2 ^ popCount n M → ∀ r, r < 2 ^ n → Agree n M pat r → ∃ v ∈ vals, v % 2 ^ n = r)
  | 0, M, pat, [], _, _ => by simp [popCount]
  | 0, M, pat, [a], _, _ => by
    refine ⟨by simp [popCount], ?_⟩
    intro _ r hr _
    exact ⟨a, by simp, by simp at hr; simp [Nat.mod_one, hr]⟩
  | 0, M, pat, a :: b :: t, h, _ => by
    have := (List.pairwise_cons.mp h).1 b (by simp)
    simp [Nat.mod_one] at this
  | p + 1, M, pat, vals, h, ha => by
    have hlo := cube_pigeon p M pat _ (distinct_filter p false vals h)
      (fun v hv => agree_mono _ _ _ _ (ha v (List.mem_filter.mp hv).1))
    have hhi := cube_pigeon p M pat _ (distinct_filter p true vals h)
      (fun v hv => agree_mono _ _ _ _ (ha v (List.mem_filter.mp hv).1))
    have hlen := length_filter_split (fun v => v.testBit p) vals
    rw [filter_not_eq, filter_pos_eq] at hlen
    have hpop := popCount_succ p M
    -- a fixed top bit: one half is empty
    have hfix : M.testBit p = false →
        (pat.testBit p = false → (vals.filter (fun v => v.testBit p == true)).length = 0) ∧
        (pat.testBit p = true → (vals.filter (fun v => v.testBit p == false)).length = 0) := by
      intro hm
      constructor
      · intro ht
        rw [List.length_eq_zero_iff, List.filter_eq_nil_iff]
        intro v hv
        rw [ha v hv p (by omega) hm, ht]; simp
      · intro ht
        rw [List.length_eq_zero_iff, List.filter_eq_nil_iff]
        intro v hv
        rw [ha v hv p (by omega) hm, ht]; simp
    have hp2 : 2 ^ (popCount p M + 1) = 2 ^ popCount p M + 2 ^ popCount p M := by rw [Nat.pow_succ]; omega
    refine ⟨?_, ?_⟩
    · cases hm : M.testBit p
      · rw [hpop, hm]
        have := hfix hm
        cases ht : pat.testBit p
        · have := this.1 ht; simp only [Bool.toNat_false, Nat.add_zero]; omega
        · have := this.2 ht; simp only [Bool.toNat_false, Nat.add_zero]; omega
      · rw [hpop, hm]; simp only [Bool.toNat_true]; omega
    · intro he r hr hra
      -- the half that carries the top bit of `r` is full
      have hhalf : (vals.filter (fun v => v.testBit p == r.testBit p)).length = 2 ^ popCount p M := by
        cases hm : M.testBit p
        · rw [hpop, hm] at he
          simp only [Bool.toNat_false, Nat.add_zero] at he
          have hrp : r.testBit p = pat.testBit p := hra p (by omega) hm
          have := hfix hm
          rw [hrp]
          cases ht : pat.testBit p
          · have := this.1 ht; omega
          · have := this.2 ht; omega
        · rw [hpop, hm] at he
          simp only [Bool.toNat_true] at he
          cases r.testBit p <;> omega
      have hcov : ∃ v ∈ vals.filter (fun v => v.testBit p == r.testBit p), v % 2 ^ p = r % 2 ^ p := by
        cases hrb : r.testBit p
        · rw [hrb] at hhalf
          exact hlo.2 hhalf (r % 2 ^ p) (Nat.mod_lt _ (Nat.two_pow_pos p)) (agree_mod _ _ _ _ hra)
        · rw [hrb] at hhalf
          exact hhi.2 hhalf (r % 2 ^ p) (Nat.mod_lt _ (Nat.two_pow_pos p)) (agree_mod _ _ _ _ hra)
      obtain ⟨v, hv, e⟩ := hcov
      have hv' := List.mem_filter.mp hv
      refine ⟨v, hv'.1, ?_⟩
      have hb := hv'.2
      simp only [beq_iff_eq] at hb
      rw [mod_succ_testBit, hb, e, ← mod_succ_testBit, Nat.mod_eq_of_lt hr]

theorem foldl_and_testBit (i : Nat) : ∀ (vals : List Nat) (m : Nat),
    (vals.foldl (fun m v => m &&& v) m).testBit i = (m.testBit i && vals.all (fun v => v.testBit i))
  | [], m => by simp
  | v :: vals, m => by
    simp only [List.foldl_cons, List.all_cons, foldl_and_testBit i vals, Nat.testBit_and, Bool.and_assoc]

theorem foldl_andn_testBit (K i : Nat) : ∀ (vals : List Nat) (m : Nat),
    (vals.foldl (fun m v => m &&& (K ^^^ (v &&& K))) m).testBit i =
      (m.testBit i && vals.all (fun v => K.testBit i != (v.testBit i && K.testBit i)))
  | [], m => by simp
  | v :: vals, m => by
    simp only [List.foldl_cons, List.all_cons, foldl_andn_testBit K i vals, Nat.testBit_and, Nat.testBit_xor,
      Bool.and_assoc]

/-- the masks of `matchInt64Cube`, bit by bit -/
theorem cubeMasks_testBit (W : Nat) (vals : List Nat) (i : Nat) (hi : i < W) :
    (cubeMasks W vals).1.testBit i = vals.all (fun v => v.testBit i) ∧
    (cubeMasks W vals).2.testBit i =
      !(vals.all (fun v => v.testBit i) || vals.all (fun v => !v.testBit i)) := by
  have hk : (2 ^ W - 1).testBit i = true := by rw [Nat.testBit_two_pow_sub_one]; simp [hi]
  simp only [cubeMasks, Nat.testBit_xor, Nat.testBit_or, foldl_and_testBit, foldl_andn_testBit, hk, Bool.true_and,
    Bool.and_true]
  refine ⟨trivial, ?_⟩
  have : (vals.all fun v => true != v.testBit i) = vals.all (fun v => !v.testBit i) := by
    congr 1; funext v; cases v.testBit i <;> rfl
  rw [this]
  cases (vals.all fun v => v.testBit i || false) <;> simp

/-- every value carries the fixed bits -/
theorem cube_agree (W : Nat) (vals : List Nat) (v : Nat) (hv : v ∈ vals) :
    Agree W (cubeMasks W vals).2 (cubeMasks W vals).1 v := by
  intro i hi hm
  have hk := cubeMasks_testBit W vals i hi
  rw [hk.2] at hm
  rw [hk.1]
  simp only [Bool.not_eq_false', Bool.or_eq_true, List.all_eq_true] at hm
  cases ho : vals.all (fun v => v.testBit i)
  · rcases hm with hm | hm
    · have := List.all_eq_true.mpr hm; rw [ho] at this; cases this
    · have := hm v hv; simpa using this
  · exact List.all_eq_true.mp ho v hv

theorem cubeLoopG_spec (ones var : Nat) : ∀ (ps : List BSet) (i : Nat) (r : BSet), Good r → (∀ p ∈ ps, Good p) →
    Good (cubeLoopG ones var ps i r) ∧
    ∀ c, mem (cubeLoopG ones var ps i r) c = true ↔
      mem r c = true ∧ ∀ j, j < ps.length → var.testBit (i + j) = false → mem (ps.getD j []) c = ones.testBit (i + j)
  | [], i, r, hr, _ => by simp [cubeLoopG, hr]
  | p :: ps, i, r, hr, hps => by
    have hp := hps p (by simp)
    have hrest : ∀ q ∈ ps, Good q := fun q hq => hps q (by simp [hq])
    -- the conditions on planes `1..` re-indexed
    have hshift : ∀ (c : Nat), (∀ j, j < (p :: ps).length → var.testBit (i + j) = false →
          mem ((p :: ps).getD j []) c = ones.testBit (i + j)) ↔
        ((var.testBit i = false → mem p c = ones.testBit i) ∧
          ∀ j, j < ps.length → var.testBit (i + 1 + j) = false → mem (ps.getD j []) c = ones.testBit (i + 1 + j)) := by
      intro c
      constructor
      · intro h2
        refine ⟨by simpa using h2 0 (by simp), ?_⟩
        intro j hj hv
        have e : i + 1 + j = i + (j + 1) := by omega
        rw [e] at hv ⊢
        simpa using h2 (j + 1) (by simp; omega) hv
      · intro ⟨h0, h2⟩ j hj hv
        cases j with
        | zero => simpa using h0 (by simpa using hv)
        | succ j =>
          have e : i + 1 + j = i + (j + 1) := by omega
          rw [List.getD_cons_succ, ← e]
          exact h2 j (by simp at hj; omega) (by rw [e]; exact hv)
    simp only [cubeLoopG]
    split
    · rename_i hv
      have ih := cubeLoopG_spec ones var ps (i + 1) r hr hrest
      refine ⟨ih.1, ?_⟩
      intro c
      rw [ih.2 c, hshift c]
      simp [hv]
    · rename_i hv
      have hv' : var.testBit i = false := by simpa using hv
      have hr' : Good (if ones.testBit i then inter r p else diff r p) := by
        split
        · exact good_inter _ _ hr hp
        · exact good_diff _ _ hr hp
      have hm : ∀ c, mem (if ones.testBit i then inter r p else diff r p) c = true ↔
          (mem r c = true ∧ mem p c = ones.testBit i) := by
        intro c
        split
        · rename_i ho
          rw [mem_inter _ _ hr.1 hp.1, ho]; simp
        · rename_i ho
          have ho' : ones.testBit i = false := by simpa using ho
          rw [mem_diff _ _ hr.1 hp.1, ho']; simp
      have ih := cubeLoopG_spec ones var ps (i + 1) _ hr' hrest
      generalize (if ones.testBit i = true then inter r p else diff r p) = R at hr' hm ih ⊢
      split
      · rename_i he
        refine ⟨hr', ?_⟩
        intro c
        have hf := good_isEmpty_false _ he c
        rw [hshift c]
        constructor
        · intro hc; rw [hf] at hc; cases hc
        · intro ⟨h1, h0, _⟩
          have := (hm c).mpr ⟨h1, h0 hv'⟩
          rw [hf] at this; cases this
      · refine ⟨ih.1, ?_⟩
        intro c
        rw [ih.2 c, hm c, hshift c]
        constructor
        · intro ⟨⟨h1, h0⟩, h2⟩; exact ⟨h1, fun _ => h0, h2⟩
        · intro ⟨h1, h0, h2⟩; exact ⟨⟨h1, h0 hv'⟩, h2⟩

/-- **the cube path**: when `matchInt64Cube` accepts, its result is the set of existing columns whose word is one of the
values (the value list is then the full sub-cube spanned by its variable bits) -/
theorem matchCube_spec (b : BSI) (h : WF b) (vals : List Nat) (hd : DistinctMod b.planes.length vals)
    (hlt : ∀ v ∈ vals, v < 2 ^ b.planes.length) (r : BSet) (hr : b.matchCube vals = some r) (c : Nat) :
    mem r c = true ↔ (mem b.ebm c = true ∧ encN (col b.planes c) ∈ vals) := by
  have hlen : b.bitCount + 1 = b.planes.length := by have := h.len; simp only [bitCount]; omega
  simp only [matchCube] at hr
  split at hr
  · cases hr
  · split at hr
    · cases hr
    · rename_i hcnt
      have hcnt' : vals.length = 2 ^ popCount b.planes.length (cubeMasks b.planes.length vals).2 := by
        rw [← hlen]; simpa using hcnt
      cases hr
      rw [(cubeLoopG_spec _ _ b.planes 0 b.ebm h.ebm h.planes).2 c, hlen]
      have hw : encN (col b.planes c) < 2 ^ b.planes.length := by
        have := encN_lt (col b.planes c); simpa using this
      have hag : (∀ j, j < b.planes.length → (cubeMasks b.planes.length vals).2.testBit (0 + j) = false →
            mem (b.planes.getD j []) c = (cubeMasks b.planes.length vals).1.testBit (0 + j)) ↔
          Agree b.planes.length (cubeMasks b.planes.length vals).2 (cubeMasks b.planes.length vals).1 (encN (col b.planes c)) := by
        simp only [Agree, Nat.zero_add, mem_plane]
      rw [hag]
      constructor
      · intro ⟨h1, h2⟩
        refine ⟨h1, ?_⟩
        obtain ⟨v, hv, e⟩ := (cube_pigeon _ _ _ vals hd (fun v hv => cube_agree _ vals v hv)).2 hcnt' _ hw h2
        rw [Nat.mod_eq_of_lt (hlt v hv)] at e
        rw [← e]; exact hv
      · intro ⟨h1, h2⟩
        exact ⟨h1, cube_agree _ vals _ h2⟩

/-- **`batchEqual_spec`**: on an index with at most 64 planes (`BitCount() ≤ 63`; wider indexes are answered by the
per-column path and give `none` here) `BatchEqual(values)` — cube path and trie path, dense-range shortcut included —
returns exactly the existing columns whose value is one of the given integers. -/
theorem batchEqual_spec (b : BSI) (h : WF b) (values : List Int) (r : BSet) (hr : b.batchEqual values = some r) (c : Nat) :
    mem r c = true ↔ ∃ v ∈ values, b.getValue c = some v := by
  have hlen : b.bitCount + 1 = b.planes.length := by have := h.len; simp only [bitCount]; omega
  have hd : DistinctMod b.planes.length (batchVals b.bitCount values) := by
    rw [← hlen]; exact distinct_batchVals _ _
  have hlt : ∀ v ∈ batchVals b.bitCount values, v < 2 ^ b.planes.length := by
    rw [← hlen]; exact batchVals_lt _ _
  -- a column without value is never returned by the specification side
  have hspec : (mem b.ebm c = true ∧ encN (col b.planes c) ∈ batchVals b.bitCount values) ↔
      ∃ v ∈ values, b.getValue c = some v := by
    constructor
    · intro ⟨h1, h2⟩; exact (word_mem_batchVals b h values c h1).mp h2
    · intro hex
      have h1 : mem b.ebm c = true := by
        obtain ⟨v, _, e⟩ := hex
        rw [getValue_eq] at e
        split at e
        · assumption
        · cases e
      exact ⟨h1, (word_mem_batchVals b h values c h1).mpr hex⟩
  simp only [batchEqual] at hr
  split at hr
  · rename_i he
    cases hr
    simp only [mem_nil, Bool.false_eq_true, false_iff]
    intro hex
    have hs := hspec.mpr hex
    rw [Bool.or_eq_true] at he
    rcases he with he | he
    · rw [good_isEmpty_false _ he c] at hs; exact absurd hs.1 (by simp)
    · have : values = [] := by simpa using he
      obtain ⟨v, hv, _⟩ := hex
      rw [this] at hv; simp at hv
  · split at hr
    · cases hr
    · split at hr
      · rename_i hve
        cases hr
        simp only [mem_nil, Bool.false_eq_true, false_iff]
        intro hex
        have hs := hspec.mpr hex
        have hnil : batchVals b.bitCount values = [] := by simpa using hve
        rw [hnil] at hs
        simp at hs
      · rename_i hvne
        have hne : batchVals b.bitCount values ≠ [] := by
          intro e; apply hvne; simp [e]
        split at hr
        · rename_i r' hcube
          cases hr
          rw [matchCube_spec b h _ hd hlt r hcube c]
          exact hspec
        · cases hr
          rw [hlen, matchTrie_spec b h _ hne hd hlt c, Bool.and_eq_true, decide_eq_true_iff]
          exact hspec

/-! ### `SetBigMany` / `SetMany` -/

theorem writeMany_length (f : BSet) (v : Int) : ∀ (ps : List BSet) (i : Nat), (writeMany f v ps i).length = ps.length
  | [], _ => rfl
  | p :: ps, i => by simp [writeMany, writeMany_length f v ps]

theorem inside_writeMany (E f : BSet) (hf : Sub E f) (v : Int) : ∀ (ps : List BSet) (i : Nat), Inside E ps →
    Inside E (writeMany f v ps i)
  | [], _, _ => by simp [writeMany, Inside]
  | p :: ps, i, h => by
    have hp := h p (by simp)
    simp only [writeMany]
    rw [inside_cons]
    refine ⟨?_, inside_writeMany E f hf v ps (i + 1) (fun q hq => h q (by simp [hq]))⟩
    split
    · exact sub_union _ _ _ hp hf
    · exact sub_diff _ _ _ hp hf.1

theorem col_writeMany (f : BSet) (hf : Good f) (v : Int) (c : Nat) : ∀ (ps : List BSet) (i : Nat), (∀ p ∈ ps, Good p) →
    col (writeMany f v ps i) c = if mem f c then twosBits v i ps.length else col ps c
  | [], _, _ => by simp [writeMany, twosBits]
  | p :: ps, i, h => by
    have hp := h p (by simp)
    have ih := col_writeMany f hf v c ps (i + 1) (fun q hq => h q (by simp [hq]))
    simp only [writeMany, col_cons, ih, List.length_cons, twosBits]
    cases hm : mem f c <;> cases ht : twosBit v i <;>
      simp [mem_union _ _ hp.1 hf.1, mem_diff _ _ hp.1 hf.1, hm]

theorem wf_setMany (b : BSI) (h : WF b) (f : BSet) (hf : Good f) (v : Int) : WF (b.setMany f v) := by
  have hu : ∀ x, mem (union b.ebm f) x = (mem b.ebm x || mem f x) := mem_union _ _ h.ebm.1 hf.1
  apply wf_of_inside _ (good_union _ _ h.ebm hf)
  · show Inside (union b.ebm f) (writeMany f v (widen b.planes (minBits v)) 0)
    exact inside_writeMany _ f ⟨hf, fun x hx => by rw [hu]; simp [hx]⟩ v _ 0
      (inside_widen _ _ _ (inside_mono _ _ _ h.inside (fun x hx => by rw [hu]; simp [hx])))
  · show 1 ≤ (writeMany f v (widen b.planes (minBits v)) 0).length
    rw [writeMany_length, widen_length]
    have := h.len; omega

theorem wf_setManyFixed (b : BSI) (h : WF b) (f : BSet) (hf : Good f) (v : Int) : WF (b.setManyFixed f v) := by
  have hu : ∀ x, mem (union b.ebm f) x = (mem b.ebm x || mem f x) := mem_union _ _ h.ebm.1 hf.1
  apply wf_of_inside _ (good_union _ _ h.ebm hf)
  · show Inside (union b.ebm f) (writeMany f v b.planes 0)
    exact inside_writeMany _ f ⟨hf, fun x hx => by rw [hu]; simp [hx]⟩ v _ 0
      (inside_mono _ _ _ h.inside (fun x hx => by rw [hu]; simp [hx]))
  · show 1 ≤ (writeMany f v b.planes 0).length
    rw [writeMany_length]; exact h.len

/-- **`get_setMany`**: every column of the found set holds `v` (any integer, the index widens as needed); every other
column keeps its value (sign extension). -/
theorem get_setMany (b : BSI) (h : WF b) (f : BSet) (hf : Good f) (v : Int) (c : Nat) :
    (b.setMany f v).getValue c = if mem f c then some v else b.getValue c := by
  rw [getValue_eq]
  have he : mem (b.setMany f v).ebm c = (mem b.ebm c || mem f c) := mem_union _ _ h.ebm.1 hf.1 c
  have hcol : col (b.setMany f v).planes c =
      if mem f c then twosBits v 0 (widen b.planes (minBits v)).length else col (widen b.planes (minBits v)) c :=
    col_writeMany f hf v c _ 0 (fun p hp => (wf_widen b h _ p hp).1)
  rw [he, hcol]
  cases hm : mem f c
  · simp only [Bool.or_false, Bool.false_eq_true, if_false]
    rw [col_widen _ _ _ (fun p hp => (h.planes p hp).1), dec_sign_extend _ _ (col_ne_nil b h c), getValue_eq]
  · simp only [Bool.or_true, if_true, Option.some.injEq]
    rw [widen_length]
    have h2 := two_le_minBits v
    obtain ⟨n, hn⟩ : ∃ n, max b.planes.length (minBits v) = n + 1 := ⟨max b.planes.length (minBits v) - 1, by omega⟩
    rw [hn]
    have := fits_of_minBits v n (by omega)
    rw [dec_twosBits n v this.1 this.2]

/-! ### `Retain` -/

/-- **`get_retain`**: the in-place `Retain` keeps exactly the columns of the given set, with their values -/
theorem get_retain (b : BSI) (h : WF b) (r : BSet) (hr : Good r) (c : Nat) :
    (b.retain r).getValue c = if mem r c then b.getValue c else none := by
  rw [getValue_eq, getValue_eq]
  simp only [retain]
  split
  · simp only [mem_inter _ _ h.ebm.1 hr.1]
    cases mem b.ebm c <;> cases mem r c <;> simp
  · simp only [mem_inter _ _ h.ebm.1 hr.1]
    cases hm : mem r c
    · simp
    · have : col (b.planes.map (fun p => inter p r)) c = col b.planes c := by
        apply col_map_of_mem_eq
        intro p hp
        rw [mem_inter _ _ (h.planes p hp).1 hr.1, hm]; simp
      simp [this]

/-- `Retain` may skip the planes when nothing was dropped: then the existence set is inside the retained set -/
theorem retain_nothing_dropped (e r : BSet) (he : Good e) (hr : Good r) (h0 : card e - card (inter e r) = 0) (x : Nat)
    (hx : mem e x = true) : mem r x = true := by
  have h1 := card_inter_eq_countP e r he hr
  have h2 := toList_length e
  have h3 : (toList e).countP (fun c => mem r c) ≤ (toList e).length := List.countP_le_length
  have h4 : (toList e).countP (fun c => mem r c) = (toList e).length := by omega
  have := (List.countP_eq_length.mp h4) x ((mem_toList e he.1 he.2 x).mpr hx)
  simpa using this

theorem wf_retain (b : BSI) (h : WF b) (r : BSet) (hr : Good r) : WF (b.retain r) := by
  simp only [retain]
  split
  · rename_i h0
    refine ⟨good_inter _ _ h.ebm hr, h.planes, ?_, h.len⟩
    intro p hp x hx
    have hxe := h.sub p hp x hx
    show mem (inter b.ebm r) x = true
    rw [mem_inter _ _ h.ebm.1 hr.1, hxe, retain_nothing_dropped b.ebm r h.ebm hr h0 x hxe]
    rfl
  · refine ⟨good_inter _ _ h.ebm hr, ?_, ?_, by simpa using h.len⟩
    · intro q hq
      simp only [List.mem_map] at hq
      obtain ⟨p, hp, rfl⟩ := hq
      exact good_inter _ _ (h.planes p hp) hr
    · intro q hq x hx
      simp only [List.mem_map] at hq
      obtain ⟨p, hp, rfl⟩ := hq
      rw [mem_inter _ _ (h.planes p hp).1 hr.1] at hx
      simp only [Bool.and_eq_true] at hx
      show mem (inter b.ebm r) x = true
      rw [mem_inter _ _ h.ebm.1 hr.1, h.sub p hp x hx.1, hx.2]
      rfl

/-! ### `Transpose` / `IntersectAndTranspose` -/

theorem foldl_add_spec (k : Nat) : ∀ (l : List Nat) (acc : BSet), Good acc →
    Good (l.foldl add acc) ∧ (mem (l.foldl add acc) k = true ↔ mem acc k = true ∨ k ∈ l)
  | [], acc, h => by simp [h]
  | a :: l, acc, h => by
    have ih := foldl_add_spec k l (add acc a) (good_add _ _ h)
    simp only [List.foldl_cons]
    refine ⟨ih.1, ?_⟩
    rw [ih.2, mem_add _ h.1, List.mem_cons]
    simp only [Bool.or_eq_true, decide_eq_true_eq]
    constructor
    · rintro ((h1 | h1) | h1)
      · exact Or.inl h1
      · exact Or.inr (Or.inl h1)
      · exact Or.inr (Or.inr h1)
    · rintro (h1 | h1 | h1)
      · exact Or.inl (Or.inl h1)
      · exact Or.inl (Or.inr h1)
      · exact Or.inr h1

theorem mem_ofList (l : List Nat) (k : Nat) : Good (ofList l) ∧ (mem (ofList l) k = true ↔ k ∈ l) := by
  have := foldl_add_spec k l [] good_nil
  exact ⟨this.1, by simpa [ofList] using this.2⟩

/-- the columns a transpose visits: the existing columns of the found set -/
theorem mem_visited (b : BSI) (h : WF b) (found : Option BSet) (hf : ∀ f, found = some f → Good f) (c : Nat) :
    c ∈ b.visited found ↔ (mem b.ebm c = true ∧ inFound found c) := by
  cases found with
  | none => simp [visited, inFound, mem_toList _ h.ebm.1 h.ebm.2]
  | some f =>
    have hg := hf f rfl
    have hi := good_inter f b.ebm hg h.ebm
    simp only [visited, inFound, mem_toList _ hi.1 hi.2, mem_inter _ _ hg.1 h.ebm.1, Bool.and_eq_true]
    exact And.comm

/-- **`transpose_spec`**: `IntersectAndTranspose(foundSet)` (`Transpose()` for nil) is the set of the values (as `uint64`)
held by the existing columns of the found set -/
theorem transpose_spec (b : BSI) (h : WF b) (found : Option BSet) (hf : ∀ f, found = some f → Good f) (r : BSet)
    (hr : b.transpose found = some r) (k : Nat) :
    mem r k = true ↔ ∃ c v, inFound found c ∧ b.getValue c = some v ∧ u64OfInt v = k := by
  simp only [transpose] at hr
  split at hr
  · cases hr
    rw [(mem_ofList _ k).2, List.mem_map]
    constructor
    · rintro ⟨v, hv, e⟩
      obtain ⟨c, hc, hg⟩ := List.mem_filterMap.mp hv
      exact ⟨c, v, ((mem_visited b h found hf c).mp hc).2, hg, e⟩
    · rintro ⟨c, v, hfc, hg, e⟩
      refine ⟨v, List.mem_filterMap.mpr ⟨c, ?_, hg⟩, e⟩
      rw [mem_visited b h found hf c]
      refine ⟨?_, hfc⟩
      rw [getValue_eq] at hg
      split at hg
      · assumption
      · cases hg
  · cases hr

/-! ### `TransposeWithCounts` (one batch) -/

theorem wf_twcStep (input : BSI) (filterSet : BSet) (res : BSI) (h : WF res) (c : Nat) :
    WF (twcStep input filterSet res c) := by
  simp only [twcStep]
  cases input.getValue c with
  | none => exact h
  | some v =>
    simp only
    split
    · exact h
    · cases res.getValue (u64OfInt v) with
      | none => exact wf_setValue _ h _ _
      | some n => exact wf_setValue _ h _ _

theorem wf_foldl_twcStep (input : BSI) (filterSet : BSet) : ∀ (cols : List Nat) (res : BSI), WF res →
    WF (cols.foldl (twcStep input filterSet) res)
  | [], _, h => h
  | c :: cols, res, h => wf_foldl_twcStep input filterSet cols _ (wf_twcStep input filterSet res h c)

theorem wf_twcBatch (input : BSI) (filterSet : BSet) (cols : List Nat) : WF (twcBatch input filterSet cols) :=
  wf_foldl_twcStep input filterSet cols _ (wf_new 0 0)

theorem wf_transposeWithCounts1 (b : BSI) (found filt : Option BSet) (r : BSI)
    (hr : b.transposeWithCounts1 found filt = some r) : WF r := by
  simp only [transposeWithCounts1] at hr
  split at hr
  · cases hr
    exact wf_addIndex _ _ (wf_new 0 0) (wf_twcBatch b _ _)
  · cases hr

/-- does column `c` count for the key `k`? -/
def hits (input : BSI) (filterSet : BSet) (k c : Nat) : Bool :=
  match input.getValue c with
  | some v => u64OfInt v == k && filterSet.mem k
  | none => false

/-- how many of the visited columns hold (as `uint64`) the value `k`, when `k` passes the filter -/
def countOf (input : BSI) (filterSet : BSet) (cols : List Nat) (k : Nat) : Nat := (cols.filter (hits input filterSet k)).length

/-- a histogram cell: absent when the count is `0` -/
def cell (n : Nat) : Option Int := if n = 0 then none else some (n : Int)

theorem set_cell (res : BSI) (h : WF res) (N : Nat → Nat) (hN : ∀ k, res.getValue k = cell (N k)) (k0 k : Nat) :
    (res.setValue k0 ((N k0 : Int) + 1)).getValue k = cell (N k + (k0 == k).toNat) := by
  by_cases e : k = k0
  · subst e
    rw [get_set_same _ h]
    simp [cell]
  · rw [get_set_other _ h _ _ e, hN k]
    have : (k0 == k) = false := by simp; exact fun h' => e h'.symm
    simp [this]

/-- one step of the worker: the cell of the visited column's value grows by one -/
theorem twcStep_spec (input : BSI) (filterSet : BSet) (res : BSI) (N : Nat → Nat) (h : WF res)
    (hN : ∀ k, res.getValue k = cell (N k)) (c k : Nat) :
    (twcStep input filterSet res c).getValue k = cell (N k + (hits input filterSet k c).toNat) := by
  simp only [twcStep, hits]
  cases hg : input.getValue c with
  | none => simp [hN k]
  | some v =>
    simp only
    by_cases hfm : filterSet.mem (u64OfInt v) = true
    · rw [if_neg (by simp [hfm])]
      have hcell := hN (u64OfInt v)
      have hk : (u64OfInt v == k && filterSet.mem k) = (u64OfInt v == k) := by
        by_cases e : u64OfInt v = k
        · subst e; simp [hfm]
        · simp [e]
      rw [hk]
      cases hgv : res.getValue (u64OfInt v) with
      | none =>
        simp only
        have h0 : N (u64OfInt v) = 0 := by
          rw [hgv] at hcell
          simp only [cell] at hcell
          split at hcell
          · assumption
          · cases hcell
        have := set_cell res h N hN (u64OfInt v) k
        rw [h0] at this
        simpa using this
      | some n =>
        simp only
        have hn : n = (N (u64OfInt v) : Int) := by
          rw [hgv] at hcell
          simp only [cell] at hcell
          split at hcell
          · cases hcell
          · exact Option.some.inj hcell
        rw [hn]
        exact set_cell res h N hN (u64OfInt v) k
    · have hfm' : filterSet.mem (u64OfInt v) = false := by simpa using hfm
      rw [if_pos (by simp [hfm']), hN k]
      by_cases e : u64OfInt v = k
      · subst e; simp [hfm']
      · have : (u64OfInt v == k) = false := by simpa using e
        simp [this]

theorem foldl_twcStep_spec (input : BSI) (filterSet : BSet) : ∀ (cols : List Nat) (res : BSI) (N : Nat → Nat), WF res →
    (∀ k, res.getValue k = cell (N k)) →
    ∀ k, (cols.foldl (twcStep input filterSet) res).getValue k = cell (N k + countOf input filterSet cols k)
  | [], res, N, _, hN, k => by simp [countOf, hN k]
  | c :: cols, res, N, h, hN, k => by
    simp only [List.foldl_cons]
    rw [foldl_twcStep_spec input filterSet cols _ (fun k => N k + (hits input filterSet k c).toNat)
      (wf_twcStep input filterSet res h c) (twcStep_spec input filterSet res N h hN c) k]
    congr 1
    simp only [countOf, List.filter_cons]
    cases hits input filterSet k c <;> simp <;> omega

theorem isNegative_of_nonneg (b : BSI) (h : WF b) (c : Nat) (hv : 0 ≤ b.value c) : b.isNegative c = false := by
  rw [value_eq_dec b h, dec_eq _ (col_ne_nil b h c)] at hv
  rw [isNegative_eq]
  have h1 := encN_lt (col b.planes c)
  have : ((2 ^ (col b.planes c).length : Nat) : Int) = (2 : Int) ^ (col b.planes c).length := by simp
  cases hs : signBit (col b.planes c)
  · rfl
  · rw [hs] at hv; simp only [if_true] at hv; omega

/-- **`get_transposeWithCounts1`**: `TransposeWithCounts(1, foundSet, filterSet)` is the histogram of the values (as
`uint64` column ids, restricted to the filter set — the existence bitmap when nil) over the existing columns of the found
set: the new index holds, for every such value, the number of columns holding it. -/
theorem get_transposeWithCounts1 (b : BSI) (found filt : Option BSet) (r : BSI)
    (hr : b.transposeWithCounts1 found filt = some r) (k : Nat) :
    r.getValue k = cell (countOf b (filt.getD b.ebm) (b.visited found) k) := by
  simp only [transposeWithCounts1] at hr
  split at hr
  · cases hr
    have hw := wf_twcBatch b (filt.getD b.ebm) (b.visited found)
    have hs : ∀ k, (twcBatch b (filt.getD b.ebm) (b.visited found)).getValue k =
        cell (countOf b (filt.getD b.ebm) (b.visited found) k) := by
      intro k
      have := foldl_twcStep_spec b (filt.getD b.ebm) (b.visited found) _ (fun _ => 0) (wf_new 0 0)
        (fun k => by rw [getValue_new]; rfl) k
      simpa [twcBatch] using this
    have hneg : ∀ c, (twcBatch b (filt.getD b.ebm) (b.visited found)).isNegative c = false := by
      intro c
      apply isNegative_of_nonneg _ hw
      rw [value, hs c, cell]
      split <;> simp
    rw [get_addIndex _ _ (wf_new 0 0) hw hneg (Or.inr (Or.inr (fun c => by
      simp only [isNegative, BSI.new]
      split
      · rfl
      · rename_i s hs
        have := List.mem_of_getLast? hs
        rw [(List.mem_replicate.mp this).2]; rfl)))]
    have hv0 : (BSI.new 0 0).value k = 0 := by simp [value, getValue_new]
    have he0 : mem (BSI.new 0 0).ebm k = false := rfl
    rw [hv0, he0, Bool.false_or, Int.zero_add]
    have hsk := hs k
    rw [getValue_eq] at hsk
    cases hm : mem (twcBatch b (filt.getD b.ebm) (b.visited found)).ebm k
    · rw [hm] at hsk; simpa using hsk
    · rw [hm] at hsk
      rw [if_pos rfl, ← hsk, value_eq_dec _ hw]
      rfl
  · cases hr

/-! ### corollary: `ParOr` as concatenation of maps with disjoint columns -/

/-- **`get_parOr_disjoint`**: when column `c` occurs in at most one of the target and the participants, the result holds
exactly what that one holds. -/
theorem get_parOr_disjoint (b : BSI) (h : WF b) (bs : List BSI) (hb : ∀ x ∈ bs, WF x) (c : Nat) (y : BSI)
    (hy : y ∈ b :: bs) (hc : mem y.ebm c = true)
    (hdis : ∀ x ∈ b :: bs, mem x.ebm c = true → x.getValue c = y.getValue c) :
    (b.parOr bs).getValue c = y.getValue c := by
  have hyv : y.getValue c = some (y.value c) := by simp [value, getValue_eq, hc]
  rw [get_parOr b h bs hb c (y.value c) (fun x hx hm => by rw [hdis x hx hm, hyv]), hyv]
  have : (mem b.ebm c || bs.any (fun x => mem x.ebm c)) = true := by
    rcases List.mem_cons.mp hy with rfl | hy
    · simp [hc]
    · simp only [Bool.or_eq_true, List.any_eq_true]
      exact Or.inr ⟨y, hy, hc⟩
  rw [this]; rfl

/-! ### non-vacuity: concrete indexes -/

/-- values 5, −3, 7 (4 planes) -/
def exA : BSI := (((BSI.new 0 0).setValue 1 5).setValue 2 (-3)).setValue 3 7
/-- values 70000 at column 9, 2 at column 1, 1 at column 3 (18 planes, no negative value) -/
def exB : BSI := (((BSI.new 0 0).setValue 9 70000).setValue 1 2).setValue 3 1
/-- a narrow participant holding a negative value: −1 at column 20 (2 planes) -/
def exC : BSI := (BSI.new 0 0).setValue 20 (-1)

theorem wf_exA : WF exA := by
  unfold exA
  repeat apply wf_setValue
  exact wf_new 0 0
theorem wf_exB : WF exB := by
  unfold exB
  repeat apply wf_setValue
  exact wf_new 0 0

-- Add: widening of `exA` (4 → 18 planes) by sign extension, carries; −3 + 0 stays −3, 7 + 1 = 8 carries through three planes
example : (exA.addIndex exB).planes.length = 18 ∧
    [1, 2, 3, 9, 4].map (exA.addIndex exB).getValue = [some 7, some (-3), some 8, some 70000, none] := by decide +kernel
-- … and the same from the theorem
example : (exA.addIndex exB).getValue 3 = some (exA.value 3 + exB.value 3) := by
  have e : exB.planes.getLast? = some [] := by decide +kernel
  have hm : mem exA.ebm 3 = true := by decide +kernel
  have := get_addIndex exA exB wf_exA wf_exB (by intro c; simp [isNegative, e]) (Or.inl (by decide +kernel)) 3
  simpa [hm] using this
-- Increment: 7 → 8 carries into the sign plane, the index widens from 4 to 5 planes; −3 → −2, 5 → 6; an absent column becomes 1
example : (exA.increment none).planes.length = 5 ∧
    [1, 2, 3].map (exA.increment none).getValue = [some 6, some (-2), some 8] ∧
    [1, 2, 3, 4].map (exA.increment (some [3, 5])).getValue = [some 5, some (-3), some 8, some 1] := by decide +kernel
-- −1 + 1 = 0: the carry out of the sign is dropped
example : (exC.increment none).getValue 20 = some 0 ∧ (exC.increment none).planes.length = 3 := by decide +kernel
-- ParOr: the narrow negative participant and the target are sign extended to 18 planes
example : (exA.parOr [exB.retainSet [9, 10], exC]).planes.length = 18 ∧
    [1, 2, 3, 9, 20].map (exA.parOr [exB.retainSet [9, 10], exC]).getValue =
      [some 5, some (-3), some 7, some 70000, some (-1)] := by decide +kernel
-- the stream round trip keeps the planes; the marshal round trip drops the sign plane: −3 comes back as −3 + 2^3 = 5
example : (streamFrom (BSI.new 0 0) exA) = exA := by decide +kernel
example : [1, 2, 3].map (unmarshalFrom (BSI.new 0 0) exA).getValue = [some 5, some 5, some 7] ∧
    [1, 3, 9].map (unmarshalFrom exA exB).getValue = [some 2, some 1, some 70000] := by decide +kernel
-- the recorded finding KF-C19 ({1:-5} reads back as 3 = −5 + 2^3), from the model and from the theorem
example : (unmarshalFrom (BSI.new 0 0) ((BSI.new 0 0).setValue 1 (-5))).getValue 1 = some 3 := by decide +kernel
example : (unmarshalFrom (BSI.new 0 0) ((BSI.new 0 0).setValue 1 (-5))).getValue 1 =
    some (((BSI.new 0 0).setValue 1 (-5)).value 1 + (2 : Int) ^ ((BSI.new 0 0).setValue 1 (-5)).bitCount) :=
  get_marshal_neg _ _ (wf_setValue _ (wf_new 0 0) 1 (-5)) (by decide +kernel) 1 (by decide +kernel) (by decide +kernel)
-- BatchEqual: cube path ({4,5,6,7}: bits 0,1 variable; {5,−3} = {0101, 1101}: bit 3 variable), trie path ({5,7,−3} is no
-- cube), a value that does not fit (100) is ignored
example : exA.batchEqual [5, -3] = some [1, 3] ∧ exA.batchEqual [4, 5, 6, 7] = some [1, 2, 3, 4] ∧
    exA.matchCube (batchVals exA.bitCount [4, 5, 6, 7]) = some [1, 2, 3, 4] ∧
    exA.matchCube (batchVals exA.bitCount [5, 7, -3]) = none ∧ exA.batchEqual [5, 7, -3] = some [1, 4] ∧
    exA.batchEqual [100, 7] = some [3, 4] := by decide +kernel
-- SetMany / Retain / Transpose / TransposeWithCounts
example : [1, 2, 3, 8].map (exA.setMany [2, 3, 8, 9] 70000).getValue = [some 5, some 70000, some 7, some 70000] ∧
    [1, 2, 3].map (exA.retain [2, 4]).getValue = [none, some (-3), some 7] := by decide +kernel
example : exB.transpose none = some [1, 3, 70000, 70001] ∧ exB.transpose (some [1, 2]) = some [2, 3] := by decide +kernel
example : ((exB.setValue 4 2).transposeWithCounts1 none (some [0, 100])).map (fun r => [1, 2, 70000].map r.getValue) =
    some [some 1, some 2, none] := by decide +kernel

end RModel.BSI

section Axioms
open RModel.BSI
/-- info: 'RModel.BSI.get_addIndex' depends on axioms: [propext, Classical.choice, Quot.sound] -/
#guard_msgs in #print axioms get_addIndex
/-- info: 'RModel.BSI.get_increment' depends on axioms: [propext, Classical.choice, Quot.sound] -/
#guard_msgs in #print axioms get_increment
/-- info: 'RModel.BSI.get_parOr' depends on axioms: [propext, Classical.choice, Quot.sound] -/
#guard_msgs in #print axioms get_parOr
/-- info: 'RModel.BSI.batchEqual_spec' depends on axioms: [propext, Classical.choice, Quot.sound] -/
#guard_msgs in #print axioms batchEqual_spec
/-- info: 'RModel.BSI.get_marshal_gen' depends on axioms: [propext, Classical.choice, Quot.sound] -/
#guard_msgs in #print axioms get_marshal_gen
/-- info: 'RModel.BSI.get_transposeWithCounts1' depends on axioms: [propext, Classical.choice, Quot.sound] -/
#guard_msgs in #print axioms get_transposeWithCounts1
end Axioms
