import RProofs.ContQuery
import RProofs.RepOps
import RModel.Impl.RepQuery
/-!
The container kernel `intersects` (`Cont.intersectsQ`, `RModel/Impl/RepQuery.lean`) on well-formed operands:
it answers "the two containers have a common member", and it is "the intersection container is not empty" for every
one of the 3×3 pairings.  The array × array pairing (`arrIntersects`: galloping / two-pointer walks) is proved elsewhere
and enters as the hypothesis `harr`.
Core Lean only; no `native_decide`, `bv_decide`, axioms, `sorry`.
-/
namespace RModel.Impl
open RModel RModel.BSet ContOps ContQuery RepQuery

/-! ### "some word is not zero" is "some bit is set" -/

theorem exists_getLsbD_of_ne_zero (w : BitVec 64) (h : w ≠ 0#64) : ∃ j, j < 64 ∧ w.getLsbD j = true := by
  apply Classical.byContradiction
  intro hn
  apply h
  apply BitVec.eq_of_getLsbD_eq
  intro j hj
  cases hw : w.getLsbD j with
  | false => simp
  | true => exact absurd ⟨j, hj, hw⟩ hn

theorem any_ne_zero_iff_testBit (ws : List (BitVec 64)) :
    ws.any (· ≠ 0#64) = true ↔ ∃ x, testBit ws x = true := by
  constructor
  · intro h
    simp only [List.any_eq_true, decide_eq_true_eq] at h
    obtain ⟨w, hw, hne⟩ := h
    obtain ⟨i, hi, hwi⟩ := List.getElem_of_mem hw
    obtain ⟨j, hj, hb⟩ := exists_getLsbD_of_ne_zero w hne
    refine ⟨64 * i + j, ?_⟩
    have h1 : (64 * i + j) / 64 = i := by omega
    have h2 : (64 * i + j) % 64 = j := by omega
    simp only [testBit, h1, h2, List.getD_eq_getElem?_getD, List.getElem?_eq_getElem hi, Option.getD_some, hwi, hb]
  · intro ⟨x, hx⟩
    simp only [List.any_eq_true, decide_eq_true_eq]
    simp only [testBit, List.getD_eq_getElem?_getD] at hx
    by_cases hlt : x / 64 < ws.length
    · refine ⟨ws[x / 64], List.getElem_mem hlt, ?_⟩
      intro h0
      simp only [List.getElem?_eq_getElem hlt, Option.getD_some, h0] at hx
      simp at hx
    · have : ws[x / 64]? = none := by simp; omega
      simp [this] at hx

/-! ### emptiness of the intersection container -/

theorem isEmptyGo_and2_iff (a b : Cont) (ha : a.wf = true) (hb : b.wf = true) :
    (a.and2 b).isEmptyGo = false ↔ ∃ x, a.has x = true ∧ b.has x = true := by
  have he := emptyOrWf_and2 a b ha hb
  constructor
  · intro h
    rcases he with ⟨h1, _⟩ | ⟨_, hw⟩
    · rw [h1] at h; cases h
    · obtain ⟨y, hy⟩ := exists_has_of_wf hw
      rw [has_and2 a b ha hb, Bool.and_eq_true] at hy
      exact ⟨y, hy⟩
  · intro ⟨x, hxa, hxb⟩
    rcases he with ⟨_, h2⟩ | ⟨h1, _⟩
    · have := h2 x
      rw [has_and2 a b ha hb, hxa, hxb] at this
      cases this
    · exact h1

theorem not_isEmptyGo_and2_iff (a b : Cont) (ha : a.wf = true) (hb : b.wf = true) :
    (!(a.and2 b).isEmptyGo) = true ↔ ∃ x, a.has x = true ∧ b.has x = true := by
  rw [← isEmptyGo_and2_iff a b ha hb]
  cases (a.and2 b).isEmptyGo <;> simp

/-! ### array × bitmap -/

theorem any_containsQ_iff (xs : List Nat) (c : Cont) (hxs : (Cont.arr xs).wf = true) (hc : c.wf = true) :
    xs.any c.containsQ = true ↔ ∃ x, (Cont.arr xs).has x = true ∧ c.has x = true := by
  have hb := (wf_arr hxs).bound
  simp only [List.any_eq_true, has_arr, List.contains_eq_mem, decide_eq_true_eq]
  constructor
  · intro ⟨x, hx, hq⟩
    exact ⟨x, hx, by rw [← has_contains c (wfQ_of_wf hc) x (hb x hx)]; exact hq⟩
  · intro ⟨x, hx, hq⟩
    exact ⟨x, hx, by rw [has_contains c (wfQ_of_wf hc) x (hb x hx)]; exact hq⟩

/-! ### the theorems -/

/-- the array × array case is proved elsewhere and passed in as `harr` -/
theorem Cont.intersectsQ_has_of
    (harr : ∀ xs ys : List Nat, xs.Pairwise (· < ·) → ys.Pairwise (· < ·) →
      (arrIntersects xs ys = true ↔ ∃ x, xs.contains x = true ∧ ys.contains x = true))
    (a b : Cont) (ha : a.wf = true) (hb : b.wf = true) :
    a.intersectsQ b = true ↔ ∃ x, a.has x = true ∧ b.has x = true := by
  have hswap : ∀ (p q : Cont), (∃ x, p.has x = true ∧ q.has x = true) ↔ ∃ x, q.has x = true ∧ p.has x = true :=
    fun p q => ⟨fun ⟨x, h1, h2⟩ => ⟨x, h2, h1⟩, fun ⟨x, h1, h2⟩ => ⟨x, h2, h1⟩⟩
  cases a with
  | arr xs =>
    cases b with
    | arr ys => exact harr xs ys (wf_arr ha).sorted (wf_arr hb).sorted
    | bmp c ws => exact any_containsQ_iff xs (.bmp c ws) ha hb
    | run rs =>
      simp only [Cont.intersectsQ]
      rw [not_isEmptyGo_and2_iff _ _ hb ha]
      exact hswap _ _
  | bmp c ws =>
    cases b with
    | arr ys =>
      simp only [Cont.intersectsQ]
      rw [any_containsQ_iff ys (.bmp c ws) hb ha]
      exact hswap _ _
    | bmp c2 w2 =>
      simp only [Cont.intersectsQ, has_bmp]
      rw [any_ne_zero_iff_testBit]
      have hl : ws.length = w2.length := by rw [(wf_bmp ha).1, (wf_bmp hb).1]
      simp only [testBit_andW ws w2 hl, Bool.and_eq_true]
    | run rs =>
      simp only [Cont.intersectsQ]
      rw [not_isEmptyGo_and2_iff _ _ hb ha]
      exact hswap _ _
  | run rs =>
    simp only [Cont.intersectsQ]
    exact not_isEmptyGo_and2_iff _ _ ha hb

/-- on well-formed operands `intersects` is "the intersection container is not empty" for EVERY pairing -/
theorem Cont.intersectsQ_eq_and2_of
    (harr : ∀ xs ys : List Nat, xs.Pairwise (· < ·) → ys.Pairwise (· < ·) →
      (arrIntersects xs ys = true ↔ ∃ x, xs.contains x = true ∧ ys.contains x = true))
    (a b : Cont) (ha : a.wf = true) (hb : b.wf = true) :
    a.intersectsQ b = !(a.and2 b).isEmptyGo := by
  have h1 := Cont.intersectsQ_has_of harr a b ha hb
  have h2 := not_isEmptyGo_and2_iff a b ha hb
  rw [← h2] at h1
  cases hq : a.intersectsQ b <;> cases he : (!(a.and2 b).isEmptyGo) <;> simp_all

end RModel.Impl
