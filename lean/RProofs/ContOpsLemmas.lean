import RModel.Impl.ContOps
import RProofs.BSet
import RProofs.DriverGlue
import RProofs.ArrayC
/-!
Supporting lemmas for `RProofs/ContOps.lean`:
* `unionAll` (the pairwise-merging n-ary union of the driver) is the union;
* per-kind membership of the abstraction `Cont.toBSet`: a value list, a bit of the word list, a run;
* bit-level meaning of the word kernels (`setBit`, `flipBit`, `clearBit`, word-wise and/or/xor/and-not, range masks);
* `valsOfWords` (the `fillArray` family) lists exactly the set bits, in strictly increasing order.
Core Lean only; no `native_decide`, `bv_decide`, axioms.
-/
namespace RModel.Impl
open RModel RModel.BSet RModel.Driver

/-! ### `unionAll` -/

theorem sinc_union (a b : BSet) (ha : SInc a) (hb : SInc b) : SInc (union a b) :=
  sinc_combine _ a b false false ha hb

theorem sinc_foldl_union (l : List BSet) (acc : BSet) (hacc : SInc acc) (hl : ∀ s ∈ l, SInc s) :
    SInc (l.foldl union acc) := by
  induction l generalizing acc with
  | nil => simpa using hacc
  | cons a t ih =>
    simp only [List.foldl_cons]
    exact ih _ (sinc_union _ _ hacc (hl a (by simp))) (fun s hs => hl s (by simp [hs]))

theorem mem_foldl_union (l : List BSet) (acc : BSet) (hacc : SInc acc) (hl : ∀ s ∈ l, SInc s) (x : Nat) :
    mem (l.foldl union acc) x = (mem acc x || l.any (mem · x)) := by
  induction l generalizing acc with
  | nil => simp
  | cons a t ih =>
    simp only [List.foldl_cons, List.any_cons]
    rw [ih _ (sinc_union _ _ hacc (hl a (by simp))) (fun s hs => hl s (by simp [hs])),
      mem_union _ _ hacc (hl a (by simp))]
    simp [Bool.or_assoc]


/-! ### per-kind membership of the abstraction -/

theorem nat_beq_decide (a b : Nat) : (a == b) = decide (a = b) := by
  by_cases h : a = b <;> simp [h]

theorem sinc_single (v : Nat) : SInc (single v) := by simp [single, SInc]

/-- array container: `x` is a member iff it is one of the values (no well-formedness needed) -/
theorem mem_toBSet_arr (base : Nat) (vals : List Nat) (x : Nat) :
    mem ((Cont.arr vals).toBSet base) x = vals.any (fun v => x == base + v) := by
  simp only [Cont.toBSet]
  rw [mem_unionAll _ (by intro s hs; simp at hs; obtain ⟨v, _, rfl⟩ := hs; exact sinc_single _)]
  simp only [List.any_map]
  congr 1
  funext v
  simp [Function.comp, mem_single, nat_beq_decide]

theorem sinc_toBSet_arr (base : Nat) (vals : List Nat) : SInc ((Cont.arr vals).toBSet base) := by
  simp only [Cont.toBSet]
  exact sinc_unionAll _ (by intro s hs; simp at hs; obtain ⟨v, _, rfl⟩ := hs; exact sinc_single _)

theorem mem_pair (a b x : Nat) : mem [a, b] x = (decide (a ≤ x) && decide (x < b)) := by
  simp only [mem]
  by_cases h1 : x < a <;> by_cases h2 : x < b <;> simp [h1, h2] <;> omega

/-- run container: `x` is a member iff some run covers it (no well-formedness needed) -/
theorem mem_toBSet_run (base : Nat) (runs : List (Nat × Nat)) (x : Nat) :
    mem ((Cont.run runs).toBSet base) x = runs.any (fun p => decide (base + p.1 ≤ x) && decide (x ≤ base + p.1 + p.2)) := by
  simp only [Cont.toBSet]
  rw [mem_unionAll _ (by intro s hs; simp at hs; obtain ⟨a, b, _, rfl⟩ := hs; simp [SInc]; omega)]
  simp only [List.any_map]
  congr 1
  funext p
  obtain ⟨s, l⟩ := p
  simp only [Function.comp, mem_pair]
  congr 1
  simp; omega

theorem sinc_toBSet_run (base : Nat) (runs : List (Nat × Nat)) : SInc ((Cont.run runs).toBSet base) := by
  simp only [Cont.toBSet]
  exact sinc_unionAll _ (by intro s hs; simp at hs; obtain ⟨a, b, _, rfl⟩ := hs; simp [SInc]; omega)

/-- boundaries of a bit list: all `≥ pos`, strictly increasing -/
theorem boundsOfBits_lb (pos : Nat) (prev : Bool) (bits : List Bool) : ∀ z ∈ boundsOfBits pos prev bits, pos ≤ z := by
  induction bits generalizing pos prev with
  | nil => intro z hz; simp [boundsOfBits] at hz; omega
  | cons b t ih =>
    intro z hz
    simp only [boundsOfBits] at hz
    split at hz
    · rcases List.mem_cons.mp hz with h | h
      · omega
      · have := ih _ _ z h; omega
    · have := ih _ _ z hz; omega

theorem sinc_boundsOfBits (pos : Nat) (prev : Bool) (bits : List Bool) : SInc (boundsOfBits pos prev bits) := by
  induction bits generalizing pos prev with
  | nil => simp [boundsOfBits, SInc]; split <;> simp
  | cons b t ih =>
    simp only [boundsOfBits]
    split
    · refine List.pairwise_cons.mpr ⟨?_, ih _ _⟩
      intro z hz
      have := boundsOfBits_lb _ _ _ z hz; omega
    · exact ih _ _

/-- membership in the boundary list of a bit list = the bit (relative to the entry state `prev`) -/
theorem mem_boundsOfBits (pos : Nat) (prev : Bool) (bits : List Bool) (x : Nat) :
    mem (boundsOfBits pos prev bits) x = (decide (pos ≤ x) && (bits.getD (x - pos) false != prev)) := by
  induction bits generalizing pos prev with
  | nil =>
    simp only [boundsOfBits]
    split <;> rename_i hp
    · by_cases h : x < pos <;> simp [mem, h, hp] <;> omega
    · simp [mem]; intro _; simpa using hp
  | cons b t ih =>
    simp only [boundsOfBits]
    by_cases hx : x < pos
    · have hl : ∀ z ∈ (if (b != prev) = true then pos :: boundsOfBits (pos + 1) b t else boundsOfBits (pos + 1) prev t), x < z := by
        intro z hz
        split at hz
        · rcases List.mem_cons.mp hz with h | h
          · omega
          · have := boundsOfBits_lb _ _ _ z h; omega
        · have := boundsOfBits_lb _ _ _ z hz; omega
      rw [mem_of_lt_all _ _ hl]
      simp; omega
    · by_cases hx0 : x = pos
      · subst hx0
        have hl : ∀ p, mem (boundsOfBits (x + 1) p t) x = false :=
          fun p => mem_of_lt_all _ _ (fun z hz => by have := boundsOfBits_lb _ _ _ z hz; omega)
        split <;> rename_i hb
        · simp [mem, hl, hb]
        · rw [hl]; simp at hb; simp [hb]
      · have hd : x - pos = (x - (pos + 1)) + 1 := by omega
        split <;> rename_i hb
        · simp only [mem, hx, if_false, ih]
          rw [hd, List.getD_cons_succ]
          have : pos + 1 ≤ x := by omega
          have h2 : pos ≤ x := by omega
          simp [this, h2]
          cases b <;> cases prev <;> simp_all
        · rw [ih, hd, List.getD_cons_succ]
          have : pos + 1 ≤ x := by omega
          have h2 : pos ≤ x := by omega
          simp [this, h2]

theorem wordBits_length (w : BitVec 64) : (wordBits w).length = 64 := by simp [wordBits]

theorem wordBits_getD (w : BitVec 64) (j : Nat) : (wordBits w).getD j false = w.getLsbD j := by
  simp only [wordBits, List.getD_eq_getElem?_getD, List.getElem?_map]
  by_cases h : j < 64
  · simp [List.getElem?_range h]
  · have : (List.range 64)[j]? = none := by simp; omega
    rw [this]
    simp
    exact BitVec.getLsbD_of_ge w j (by omega)

theorem flatMap_wordBits_getD (ws : List (BitVec 64)) (x : Nat) :
    (ws.flatMap wordBits).getD x false = ContOps.testBit ws x := by
  induction ws generalizing x with
  | nil => simp [ContOps.testBit]
  | cons w t ih =>
    simp only [List.flatMap_cons, List.getD_eq_getElem?_getD]
    by_cases h : x < 64
    · rw [List.getElem?_append_left (by simp [wordBits_length]; exact h)]
      have := wordBits_getD w x
      simp only [List.getD_eq_getElem?_getD] at this
      rw [this]
      simp [ContOps.testBit, Nat.div_eq_of_lt h, Nat.mod_eq_of_lt h]
    · rw [List.getElem?_append_right (by simp [wordBits_length]; omega)]
      have := ih (x - 64)
      simp only [List.getD_eq_getElem?_getD, wordBits_length] at this ⊢
      rw [this]
      have h1 : x / 64 = (x - 64) / 64 + 1 := by omega
      have h2 : x % 64 = (x - 64) % 64 := by omega
      simp [ContOps.testBit, h1, h2]

/-- bitmap container: `x` is a member iff bit `x` of the word list is set (no well-formedness needed) -/
theorem mem_toBSet_bmp (c : Int) (ws : List (BitVec 64)) (x : Nat) :
    mem ((Cont.bmp c ws).toBSet 0) x = ContOps.testBit ws x := by
  simp only [Cont.toBSet, mem_boundsOfBits, flatMap_wordBits_getD]
  simp

theorem sinc_toBSet (c : Cont) : SInc (c.toBSet 0) := by
  cases c with
  | arr v => exact sinc_toBSet_arr 0 v
  | bmp c ws => exact sinc_boundsOfBits _ _ _
  | run rs => exact sinc_toBSet_run 0 rs

/-- the three membership lemmas as one statement: the abstraction has exactly the members each kind's `contains` reports -/
theorem mem_toBSet (c : Cont) (x : Nat) : mem (c.toBSet 0) x = c.has x := by
  cases c with
  | arr v =>
    rw [mem_toBSet_arr]
    simp only [Cont.has, Nat.zero_add]
    induction v with
    | nil => simp
    | cons a t ih => rw [List.any_cons, ih]; simp [nat_beq_decide]
  | bmp c ws => exact mem_toBSet_bmp c ws x
  | run rs =>
    rw [mem_toBSet_run]
    simp only [Cont.has, ContOps.inRuns, Nat.zero_add]

/-! ### bit-level meaning of the word kernels -/

open ContOps

theorem getLsbD_bitMask (v j : Nat) (hj : j < 64) : (bitMask v).getLsbD j = decide (j = v % 64) := by
  have hv : v % 64 < 64 := Nat.mod_lt _ (by omega)
  simp only [bitMask, BitVec.getLsbD_shiftLeft, BitVec.getLsbD_one]
  by_cases h : j = v % 64
  · subst h; simp [hv]
  · simp [h, hj]; omega

theorem testBit_modify (ws : List (BitVec 64)) (i : Nat) (f : BitVec 64 → BitVec 64) (x : Nat) :
    testBit (ws.modify i f) x =
      if i = x / 64 then ((ws[x / 64]?.map f).getD 0#64).getLsbD (x % 64) else testBit ws x := by
  simp only [testBit, List.getD_eq_getElem?_getD, List.getElem?_modify]
  split <;> rename_i h
  · cases ws[x / 64]? <;> simp
  · cases ws[x / 64]? <;> simp

theorem eq_iff_divmod (x v : Nat) : x = v ↔ (x / 64 = v / 64 ∧ x % 64 = v % 64) := by omega

theorem testBit_setBit (ws : List (BitVec 64)) (v x : Nat) (hv : v / 64 < ws.length) :
    testBit (setBit ws v) x = (testBit ws x || decide (x = v)) := by
  have hx : x % 64 < 64 := Nat.mod_lt _ (by omega)
  rw [setBit, testBit_modify]
  split <;> rename_i h
  · have hxl : x / 64 < ws.length := h ▸ hv
    have hiff : (x = v) ↔ x % 64 = v % 64 := by omega
    simp [testBit, List.getD_eq_getElem?_getD, List.getElem?_eq_getElem hxl, getLsbD_bitMask _ _ hx, hiff]
  · have : ¬ x = v := fun e => h (by rw [e])
    simp [this]

theorem testBit_flipBit (ws : List (BitVec 64)) (v x : Nat) (hv : v / 64 < ws.length) :
    testBit (flipBit ws v) x = (testBit ws x ^^ decide (x = v)) := by
  have hx : x % 64 < 64 := Nat.mod_lt _ (by omega)
  rw [flipBit, testBit_modify]
  split <;> rename_i h
  · have hxl : x / 64 < ws.length := h ▸ hv
    have hiff : (x = v) ↔ x % 64 = v % 64 := by omega
    simp [testBit, List.getD_eq_getElem?_getD, List.getElem?_eq_getElem hxl, getLsbD_bitMask _ _ hx, hiff]
  · have : ¬ x = v := fun e => h (by rw [e])
    simp [this]

theorem testBit_clearBit (ws : List (BitVec 64)) (v x : Nat) :
    testBit (clearBit ws v) x = (testBit ws x && !decide (x = v)) := by
  have hx : x % 64 < 64 := Nat.mod_lt _ (by omega)
  rw [clearBit, testBit_modify]
  split <;> rename_i h
  · have hiff : (x = v) ↔ x % 64 = v % 64 := by omega
    simp only [testBit, List.getD_eq_getElem?_getD]
    cases hw : ws[x / 64]? with
    | none => simp
    | some w =>
      simp only [Option.map_some, Option.getD_some, BitVec.getLsbD_and, BitVec.getLsbD_not, getLsbD_bitMask _ _ hx, hiff]
      simp [hx]
  · have : ¬ x = v := fun e => h (by rw [e])
    simp [this]

theorem length_emptyWords : emptyWords.length = 1024 := by
  simp only [emptyWords, List.length_replicate]

theorem length_setBit (ws : List (BitVec 64)) (v : Nat) : (setBit ws v).length = ws.length := by simp [setBit]
theorem length_flipBit (ws : List (BitVec 64)) (v : Nat) : (flipBit ws v).length = ws.length := by simp [flipBit]
theorem length_clearBit (ws : List (BitVec 64)) (v : Nat) : (clearBit ws v).length = ws.length := by simp [clearBit]

theorem length_foldl_setBit (vs : List Nat) (ws : List (BitVec 64)) : (vs.foldl setBit ws).length = ws.length := by
  induction vs generalizing ws with
  | nil => rfl
  | cons v t ih => simp [ih, length_setBit]
theorem length_foldl_flipBit (vs : List Nat) (ws : List (BitVec 64)) : (vs.foldl flipBit ws).length = ws.length := by
  induction vs generalizing ws with
  | nil => rfl
  | cons v t ih => simp [ih, length_flipBit]
theorem length_foldl_clearBit (vs : List Nat) (ws : List (BitVec 64)) : (vs.foldl clearBit ws).length = ws.length := by
  induction vs generalizing ws with
  | nil => rfl
  | cons v t ih => simp [ih, length_clearBit]

/-- setting the bits of a value list: the old bits plus the listed values -/
theorem testBit_foldl_setBit (vs : List Nat) (ws : List (BitVec 64)) (x : Nat) (hv : ∀ v ∈ vs, v / 64 < ws.length) :
    testBit (vs.foldl setBit ws) x = (testBit ws x || vs.contains x) := by
  induction vs generalizing ws with
  | nil => simp
  | cons v t ih =>
    simp only [List.foldl_cons]
    rw [ih _ (by intro u hu; rw [length_setBit]; exact hv u (by simp [hu])), testBit_setBit _ _ _ (hv v (by simp))]
    simp [Bool.or_assoc]

/-- clearing the bits of a value list -/
theorem testBit_foldl_clearBit (vs : List Nat) (ws : List (BitVec 64)) (x : Nat) :
    testBit (vs.foldl clearBit ws) x = (testBit ws x && !vs.contains x) := by
  induction vs generalizing ws with
  | nil => simp
  | cons v t ih =>
    simp only [List.foldl_cons]
    rw [ih, testBit_clearBit]
    simp [Bool.and_assoc]

/-- toggling the bits of a duplicate-free value list -/
theorem testBit_foldl_flipBit (vs : List Nat) (ws : List (BitVec 64)) (x : Nat) (hv : ∀ v ∈ vs, v / 64 < ws.length)
    (hd : vs.Nodup) : testBit (vs.foldl flipBit ws) x = (testBit ws x ^^ vs.contains x) := by
  induction vs generalizing ws with
  | nil => simp
  | cons v t ih =>
    simp only [List.foldl_cons]
    have hd' := List.nodup_cons.mp hd
    rw [ih _ (by intro u hu; rw [length_flipBit]; exact hv u (by simp [hu])) hd'.2,
      testBit_flipBit _ _ _ (hv v (by simp))]
    by_cases hxv : x = v
    · subst hxv; simp [hd'.1]
    · simp [hxv]

theorem testBit_emptyWords (x : Nat) : testBit emptyWords x = false := by
  simp only [testBit, emptyWords, List.getD_eq_getElem?_getD, List.getElem?_replicate]
  split <;> simp

theorem testBit_of_ge (ws : List (BitVec 64)) (x : Nat) (h : 64 * ws.length ≤ x) : testBit ws x = false := by
  have : ws[x / 64]? = none := by simp; omega
  simp [testBit, List.getD_eq_getElem?_getD, this]

theorem testBit_wordsOfArr (vs : List Nat) (x : Nat) (hv : ∀ v ∈ vs, v < 65536) :
    testBit (wordsOfArr vs) x = vs.contains x := by
  rw [wordsOfArr, testBit_foldl_setBit _ _ _ (by intro v h; have := hv v h; rw [length_emptyWords]; omega), testBit_emptyWords]
  simp

theorem length_wordsOfArr (vs : List Nat) : (wordsOfArr vs).length = 1024 := by
  rw [wordsOfArr, length_foldl_setBit, length_emptyWords]

/-- word-wise kernels, bit by bit (equal lengths as in two bitmap containers) -/
theorem testBit_zipWith (f : BitVec 64 → BitVec 64 → BitVec 64) (g : Bool → Bool → Bool)
    (hfg : ∀ a b j, (f a b).getLsbD j = g (a.getLsbD j) (b.getLsbD j)) (hg : g false false = false)
    (a b : List (BitVec 64)) (hl : a.length = b.length) (x : Nat) :
    testBit (List.zipWith f a b) x = g (testBit a x) (testBit b x) := by
  simp only [testBit, List.getD_eq_getElem?_getD, List.getElem?_zipWith]
  by_cases h : x / 64 < a.length
  · rw [List.getElem?_eq_getElem h, List.getElem?_eq_getElem (hl ▸ h)]
    simp [hfg]
  · have h1 : a[x / 64]? = none := by simp; omega
    have h2 : b[x / 64]? = none := by simp; omega
    simp [h1, h2, hg]

theorem testBit_andW (a b : List (BitVec 64)) (hl : a.length = b.length) (x : Nat) :
    testBit (andW a b) x = (testBit a x && testBit b x) :=
  testBit_zipWith _ (· && ·) (by intros; simp) rfl a b hl x
theorem testBit_orW (a b : List (BitVec 64)) (hl : a.length = b.length) (x : Nat) :
    testBit (orW a b) x = (testBit a x || testBit b x) :=
  testBit_zipWith _ (· || ·) (by intros; simp) rfl a b hl x
theorem testBit_xorW (a b : List (BitVec 64)) (hl : a.length = b.length) (x : Nat) :
    testBit (xorW a b) x = (testBit a x ^^ testBit b x) :=
  testBit_zipWith _ (· ^^ ·) (by intros; simp) rfl a b hl x
theorem testBit_andNotW (a b : List (BitVec 64)) (hl : a.length = b.length) (x : Nat) :
    testBit (andNotW a b) x = (testBit a x && !testBit b x) := by
  simp only [testBit, andNotW, List.getD_eq_getElem?_getD, List.getElem?_zipWith]
  by_cases h : x / 64 < a.length
  · rw [List.getElem?_eq_getElem h, List.getElem?_eq_getElem (hl ▸ h)]
    have : x % 64 < 64 := Nat.mod_lt _ (by omega)
    simp [this]
  · have h1 : a[x / 64]? = none := by simp; omega
    have h2 : b[x / 64]? = none := by simp; omega
    simp [h1, h2]

theorem length_zipWith_same (f : BitVec 64 → BitVec 64 → BitVec 64) (a b : List (BitVec 64))
    (ha : a.length = 1024) (hb : b.length = 1024) : (List.zipWith f a b).length = 1024 := by
  simp [ha, hb]

/-! ### run lists as bitmap words -/

theorem getLsbD_rangeMask (base lo hi j : Nat) (hj : j < 64) :
    (rangeMask base lo hi).getLsbD j = (decide (lo ≤ base + j) && decide (base + j < hi)) := by
  unfold rangeMask
  split <;> rename_i hc
  · simp only [Bool.or_eq_true, decide_eq_true_eq] at hc
    have : ¬ (lo ≤ base + j ∧ base + j < hi) := by omega
    simp only [BitVec.getLsbD_zero]
    by_cases h1 : lo ≤ base + j <;> by_cases h2 : base + j < hi <;> simp [h1, h2] <;> omega
  · simp only [Bool.or_eq_true, decide_eq_true_eq, not_or, Nat.not_le] at hc
    simp only [BitVec.getLsbD_and, BitVec.getLsbD_shiftLeft, BitVec.getLsbD_ushiftRight, BitVec.getLsbD_allOnes]
    by_cases h1 : lo ≤ base + j <;> by_cases h2 : base + j < hi <;> simp [h1, h2, hj] <;> omega

theorem getLsbD_wordOfRuns_aux (base : Nat) (rs : List (Nat × Nat)) (w : BitVec 64) (j : Nat) (hj : j < 64) :
    (rs.foldl (fun w (p : Nat × Nat) => w ||| rangeMask base p.1 (p.1 + p.2 + 1)) w).getLsbD j =
      (w.getLsbD j || inRuns rs (base + j)) := by
  induction rs generalizing w with
  | nil => simp [inRuns]
  | cons p t ih =>
    simp only [List.foldl_cons]
    rw [ih, BitVec.getLsbD_or, getLsbD_rangeMask _ _ _ _ hj]
    obtain ⟨s, l⟩ := p
    simp only [inRuns, List.any_cons, Bool.or_assoc]
    congr 2
    by_cases h1 : s ≤ base + j <;> by_cases h2 : base + j ≤ s + l <;> simp [h1, h2] <;> omega

theorem testBit_wordsOfRuns (rs : List (Nat × Nat)) (x : Nat) :
    testBit (wordsOfRuns rs) x = (inRuns rs x && decide (x < 65536)) := by
  simp only [testBit, wordsOfRuns, List.getD_eq_getElem?_getD, List.getElem?_map]
  have hx : x % 64 < 64 := Nat.mod_lt _ (by omega)
  by_cases h : x < 65536
  · have h1 : x / 64 < 1024 := by omega
    rw [List.getElem?_range h1]
    simp only [Option.map_some, Option.getD_some, wordOfRuns]
    have := getLsbD_wordOfRuns_aux (64 * (x / 64)) rs 0#64 (x % 64) hx
    have e : 64 * (x / 64) + x % 64 = x := by omega
    rw [e] at this
    simp only [BitVec.getLsbD_zero, Bool.false_or] at this
    simp [h]
    exact this
  · have : (List.range 1024)[x / 64]? = none := by simp; omega
    simp [this, h]

theorem length_wordsOfRuns (rs : List (Nat × Nat)) : (wordsOfRuns rs).length = 1024 := by
  simp [wordsOfRuns]

/-! ### `valsOfWords` (`fillArray`): the set bits, strictly increasing, `popcount` many -/

theorem filter_getLsbD_zero : (List.range 64).filter (0#64).getLsbD = [] := by
  simp

theorem mem_wordVals (base : Nat) (w : BitVec 64) (y : Nat) :
    y ∈ wordVals base w ↔ (base ≤ y ∧ y < base + 64 ∧ w.getLsbD (y - base) = true) := by
  unfold wordVals
  split <;> rename_i h
  · have : w = 0#64 := by simpa using h
    subst this; simp
  · simp only [List.mem_map, List.mem_filter, List.mem_range]
    constructor
    · rintro ⟨j, ⟨hj, hb⟩, rfl⟩
      refine ⟨by omega, by omega, ?_⟩
      rw [Nat.add_sub_cancel_left]; exact hb
    · rintro ⟨h1, h2, h3⟩
      exact ⟨y - base, ⟨by omega, h3⟩, by omega⟩

theorem sorted_wordVals (base : Nat) (w : BitVec 64) : (wordVals base w).Pairwise (· < ·) := by
  unfold wordVals
  split
  · simp
  · rw [List.pairwise_map]
    have : (List.range 64).Pairwise (· < ·) := List.pairwise_lt_range
    exact (this.filter _).imp (by intro a b h; omega)

theorem length_wordVals (base : Nat) (w : BitVec 64) : (wordVals base w).length = popcount w := by
  unfold wordVals popcount
  split <;> rename_i h
  · have : w = 0#64 := by simpa using h
    subst this; rw [filter_getLsbD_zero]
  · simp

theorem mem_valsOfWordsFrom (base : Nat) (ws : List (BitVec 64)) (y : Nat) :
    y ∈ valsOfWordsFrom base ws ↔ (base ≤ y ∧ testBit ws (y - base) = true) := by
  induction ws generalizing base with
  | nil => simp [valsOfWordsFrom, testBit]
  | cons w t ih =>
    simp only [valsOfWordsFrom, List.mem_append, mem_wordVals, ih]
    by_cases h : y < base + 64
    · have h1 : (y - base) / 64 = 0 := by omega
      have h2 : (y - base) % 64 = y - base := by omega
      simp [testBit, h1, h2]
      constructor
      · rintro (⟨a, _, c⟩ | ⟨a, _⟩)
        · exact ⟨a, c⟩
        · omega
      · rintro ⟨a, c⟩; exact Or.inl ⟨a, h, c⟩
    · have h1 : (y - base) / 64 = (y - (base + 64)) / 64 + 1 := by omega
      have h2 : (y - base) % 64 = (y - (base + 64)) % 64 := by omega
      simp [testBit, h1, h2]
      constructor
      · rintro (⟨_, a, _⟩ | ⟨a, c⟩)
        · omega
        · exact ⟨by omega, c⟩
      · rintro ⟨a, c⟩; exact Or.inr ⟨by omega, c⟩

theorem sorted_valsOfWordsFrom (base : Nat) (ws : List (BitVec 64)) : (valsOfWordsFrom base ws).Pairwise (· < ·) := by
  induction ws generalizing base with
  | nil => simp [valsOfWordsFrom]
  | cons w t ih =>
    simp only [valsOfWordsFrom]
    rw [List.pairwise_append]
    refine ⟨sorted_wordVals _ _, ih _, ?_⟩
    intro a ha b hb
    have := (mem_wordVals _ _ _).mp ha
    have := (mem_valsOfWordsFrom _ _ _).mp hb
    omega

theorem length_valsOfWordsFrom (base : Nat) (ws : List (BitVec 64)) : (valsOfWordsFrom base ws).length = wordsCard ws := by
  induction ws generalizing base with
  | nil => simp [valsOfWordsFrom, wordsCard]
  | cons w t ih => simp [valsOfWordsFrom, wordsCard, length_wordVals, ih] at *

theorem mem_valsOfWords (ws : List (BitVec 64)) (y : Nat) : y ∈ valsOfWords ws ↔ testBit ws y = true := by
  simp [valsOfWords, mem_valsOfWordsFrom]

theorem contains_valsOfWords (ws : List (BitVec 64)) (y : Nat) : (valsOfWords ws).contains y = testBit ws y := by
  have := mem_valsOfWords ws y
  by_cases h : testBit ws y = true
  · simp [h, this.mpr h]
  · have h' : y ∉ valsOfWords ws := fun hm => h (this.mp hm)
    simp [h']; simpa using h

theorem sorted_valsOfWords (ws : List (BitVec 64)) : (valsOfWords ws).Pairwise (· < ·) := sorted_valsOfWordsFrom 0 ws

theorem length_valsOfWords (ws : List (BitVec 64)) : (valsOfWords ws).length = wordsCard ws := length_valsOfWordsFrom 0 ws

theorem lt_of_mem_valsOfWords (ws : List (BitVec 64)) (y : Nat) (h : y ∈ valsOfWords ws) : y < 64 * ws.length := by
  have := (mem_valsOfWords ws y).mp h
  by_cases hy : y < 64 * ws.length
  · exact hy
  · rw [testBit_of_ge ws y (by omega)] at this; simp at this

end RModel.Impl
