import RProofs.ContMutLemmas
/-!
`toEfficientContainer` of a BITMAP container (`Cont.toEfficient (.bmp c ws)`): the run extraction `runsOfWords`
(computed word-wise by the fast abstraction `wordsBoundsFast`) yields the maximal runs of the set bits, so the re-typed
container has the same members and is well-formed (or empty).
Used by the in-place kernels `runContainer16.iandNotArray / iandNotBitmap` (`Cont.iandNot2`, run × array / bitmap).
Core Lean only; no `native_decide`, `bv_decide`, axioms.
-/
set_option linter.unusedSimpArgs false
namespace RModel.Impl
open RModel RModel.BSet RModel.Driver ContOps ContMut

/-! ### the boundary list of a bit list, without the closing boundary -/

/-- boundaries inside a bit list and the membership state after it -/
def boundsOpen : Nat → Bool → List Bool → List Nat × Bool
  | _, prev, [] => ([], prev)
  | pos, prev, b :: t =>
    ((if b != prev then pos :: (boundsOpen (pos + 1) b t).1 else (boundsOpen (pos + 1) b t).1), (boundsOpen (pos + 1) b t).2)

theorem boundsOfBits_append (pos : Nat) (prev : Bool) (l1 l2 : List Bool) :
    boundsOfBits pos prev (l1 ++ l2) =
      (boundsOpen pos prev l1).1 ++ boundsOfBits (pos + l1.length) (boundsOpen pos prev l1).2 l2 := by
  induction l1 generalizing pos prev with
  | nil => simp [boundsOpen]
  | cons b t ih =>
    simp only [List.cons_append, boundsOfBits, boundsOpen, List.length_cons]
    have e : pos + (t.length + 1) = pos + 1 + t.length := by omega
    split
    · rw [ih, e]; simp
    · rename_i hb
      have : b = prev := by cases b <;> cases prev <;> simp_all
      subst this
      rw [ih, e]

theorem boundsOpen_replicate_false (pos : Nat) (prev : Bool) (n : Nat) :
    boundsOpen pos prev (List.replicate (n + 1) false) = ((if prev then [pos] else []), false) := by
  induction n generalizing pos prev with
  | zero => cases prev <;> simp [boundsOpen]
  | succ k ih =>
    rw [List.replicate_succ]
    simp only [boundsOpen, ih]
    cases prev <;> simp

theorem boundsOpen_replicate_true (pos : Nat) (prev : Bool) (n : Nat) :
    boundsOpen pos prev (List.replicate (n + 1) true) = ((if prev then [] else [pos]), true) := by
  induction n generalizing pos prev with
  | zero => cases prev <;> simp [boundsOpen]
  | succ k ih =>
    rw [List.replicate_succ]
    simp only [boundsOpen, ih]
    cases prev <;> simp

theorem go_eq (pos : Nat) (w : BitVec 64) (fuel : Nat) : ∀ (i : Nat) (prev : Bool) (acc : List Nat),
    wordBoundsFast.go pos w i fuel prev acc =
      (acc.reverse ++ (boundsOpen (pos + i) prev ((List.range' i fuel).map w.getLsbD)).1,
        (boundsOpen (pos + i) prev ((List.range' i fuel).map w.getLsbD)).2) := by
  induction fuel with
  | zero => intro i prev acc; simp [wordBoundsFast.go, boundsOpen]
  | succ k ih =>
    intro i prev acc
    rw [wordBoundsFast.go, ih, List.range'_succ, List.map_cons]
    simp only [boundsOpen]
    have e : pos + (i + 1) = pos + i + 1 := by omega
    rw [e]
    split <;> simp

theorem wordBits_zero : wordBits 0#64 = List.replicate 64 false := by
  rw [List.eq_replicate_iff]
  refine ⟨wordBits_length _, ?_⟩
  intro b hb
  simp only [wordBits, List.mem_map, List.mem_range] at hb
  obtain ⟨j, _, rfl⟩ := hb
  exact BitVec.getLsbD_zero

theorem wordBits_allOnes : wordBits (BitVec.allOnes 64) = List.replicate 64 true := by
  rw [List.eq_replicate_iff]
  refine ⟨wordBits_length _, ?_⟩
  intro b hb
  simp only [wordBits, List.mem_map, List.mem_range] at hb
  obtain ⟨j, hj, rfl⟩ := hb
  rw [BitVec.getLsbD_allOnes]
  simpa using hj

theorem wordBoundsFast_eq (pos : Nat) (prev : Bool) (w : BitVec 64) :
    wordBoundsFast pos prev w = boundsOpen pos prev (wordBits w) := by
  unfold wordBoundsFast
  split <;> rename_i h0
  · have : w = 0#64 := by simpa using h0
    subst this
    rw [wordBits_zero, boundsOpen_replicate_false pos prev 63]
  · split <;> rename_i h1
    · have : w = BitVec.allOnes 64 := by simpa using h1
      subst this
      rw [wordBits_allOnes, boundsOpen_replicate_true pos prev 63]
    · rw [go_eq]
      simp only [List.reverse_nil, List.nil_append, Nat.add_zero, wordBits, List.range_eq_range']

theorem wordsBoundsFast_flatten (ws : List (BitVec 64)) : ∀ (pos : Nat) (prev : Bool) (acc : List (List Nat)),
    (wordsBoundsFast pos prev ws acc).flatten = acc.reverse.flatten ++ boundsOfBits pos prev (ws.flatMap wordBits) := by
  induction ws with
  | nil =>
    intro pos prev acc
    simp only [wordsBoundsFast, List.reverse_cons, List.flatten_append, List.flatMap_nil, boundsOfBits]
    simp
  | cons w t ih =>
    intro pos prev acc
    simp only [wordsBoundsFast, List.flatMap_cons]
    rw [wordBoundsFast_eq, boundsOfBits_append, wordBits_length, ih]
    split <;> rename_i he
    · have : (boundsOpen pos prev (wordBits w)).1 = [] := List.isEmpty_iff.mp he
      rw [this]; simp
    · simp

/-- the run extraction works on the abstraction of the bitmap container -/
theorem runsOfWords_eq (c : Int) (ws : List (BitVec 64)) : runsOfWords ws = runsOfBounds ((Cont.bmp c ws).toBSet 0) := by
  simp only [runsOfWords, Cont.toBSet, wordsBoundsFast_flatten]
  simp

/-! ### runs of a boundary list -/

theorem boundsOfBits_ub (pos : Nat) (prev : Bool) (bits : List Bool) :
    ∀ z ∈ boundsOfBits pos prev bits, z ≤ pos + bits.length := by
  induction bits generalizing pos prev with
  | nil => intro z hz; simp only [boundsOfBits] at hz; split at hz <;> simp at hz; omega
  | cons b t ih =>
    intro z hz
    simp only [boundsOfBits] at hz
    simp only [List.length_cons]
    split at hz
    · rcases List.mem_cons.mp hz with h | h
      · omega
      · have := ih _ _ z h; omega
    · have := ih _ _ z hz; omega

theorem boundsOfBits_parity (pos : Nat) (prev : Bool) (bits : List Bool) :
    ((boundsOfBits pos prev bits).length + (if prev then 1 else 0)) % 2 = 0 := by
  induction bits generalizing pos prev with
  | nil => cases prev <;> simp [boundsOfBits]
  | cons b t ih =>
    simp only [boundsOfBits]
    split <;> rename_i hb
    · have h1 := ih (pos + 1) b
      have hf : (if b = true then 1 else 0) + (if prev = true then 1 else 0) = 1 := by
        cases b <;> cases prev <;> simp_all
      simp only [List.length_cons]
      generalize (if b = true then 1 else 0) = fb at *
      generalize (if prev = true then 1 else 0) = fp at *
      omega
    · exact ih (pos + 1) prev

theorem inRuns_runsOfBounds : ∀ (s : BSet), SInc s → s.length % 2 = 0 → ∀ x, inRuns (runsOfBounds s) x = mem s x
  | [], _, _, x => by simp [runsOfBounds, inRuns]
  | [a], _, h, _ => by simp at h
  | lo :: hi :: t, hs, he, x => by
    have hp := List.pairwise_cons.mp hs
    have hp2 := List.pairwise_cons.mp hp.2
    have hlh : lo < hi := hp.1 hi (by simp)
    have ih := inRuns_runsOfBounds t hp2.2 (by simp only [List.length_cons] at he; omega) x
    simp only [runsOfBounds, inRuns_cons, ih, mem_cons]
    by_cases h1 : x < lo
    · have : mem t x = false := mem_of_lt_all t x (fun b hb => by
        have := hp2.1 b hb; omega)
      simp [h1, this]; omega
    · by_cases h2 : x < hi
      · have : mem t x = false := mem_of_lt_all t x (fun b hb => by
          have := hp2.1 b hb; omega)
        simp [h1, h2, this]; omega
      · simp [h1, h2]
        intro _ h3; omega

theorem runsOfBounds_lb : ∀ (s : BSet) (m : Nat), SInc s → (∀ b ∈ s, m < b) → ∀ q ∈ runsOfBounds s, m < q.1
  | [], _, _, _, q, hq => by simp [runsOfBounds] at hq
  | [a], _, _, _, q, hq => by simp [runsOfBounds] at hq
  | lo :: hi :: t, m, hs, hm, q, hq => by
    have hp := List.pairwise_cons.mp hs
    have hp2 := List.pairwise_cons.mp hp.2
    simp only [runsOfBounds, List.mem_cons] at hq
    rcases hq with rfl | hq
    · exact hm lo (by simp)
    · exact runsOfBounds_lb t m hp2.2 (fun b hb => hm b (by simp [hb])) q hq

theorem sep_runsOfBounds : ∀ (s : BSet), SInc s → RunSep (runsOfBounds s)
  | [], _ => by simp [runsOfBounds, RunSep]
  | [a], _ => by simp [runsOfBounds, RunSep]
  | lo :: hi :: t, hs => by
    have hp := List.pairwise_cons.mp hs
    have hp2 := List.pairwise_cons.mp hp.2
    have hlh : lo < hi := hp.1 hi (by simp)
    simp only [runsOfBounds]
    refine List.pairwise_cons.mpr ⟨?_, sep_runsOfBounds t hp2.2⟩
    intro q hq
    have := runsOfBounds_lb t hi hp2.2 hp2.1 q hq
    simp only; omega

theorem bound_runsOfBounds : ∀ (s : BSet), SInc s → (∀ b ∈ s, b ≤ 65536) → RunBound 65535 (runsOfBounds s)
  | [], _, _ => by intro p hp; simp [runsOfBounds] at hp
  | [a], _, _ => by intro p hp; simp [runsOfBounds] at hp
  | lo :: hi :: t, hs, hb => by
    have hp := List.pairwise_cons.mp hs
    have hp2 := List.pairwise_cons.mp hp.2
    have hlh : lo < hi := hp.1 hi (by simp)
    have hhi := hb hi (by simp)
    intro p hpm
    simp only [runsOfBounds, List.mem_cons] at hpm
    rcases hpm with rfl | hpm
    · simp only; omega
    · exact bound_runsOfBounds t hp2.2 (fun b hb' => hb b (by simp [hb'])) p hpm

/-! ### the runs of a word list -/

theorem flatMap_wordBits_length (ws : List (BitVec 64)) : (ws.flatMap wordBits).length = 64 * ws.length := by
  induction ws with
  | nil => rfl
  | cons w t ih => simp only [List.flatMap_cons, List.length_append, wordBits_length, ih, List.length_cons]; omega

theorem inRuns_runsOfWords (ws : List (BitVec 64)) (x : Nat) : inRuns (runsOfWords ws) x = testBit ws x := by
  rw [runsOfWords_eq 0 ws, inRuns_runsOfBounds _ (sinc_toBSet _) ?_, mem_toBSet_bmp]
  have := boundsOfBits_parity 0 false (ws.flatMap wordBits)
  simpa [Cont.toBSet] using this

theorem sep_runsOfWords (ws : List (BitVec 64)) : RunSep (runsOfWords ws) := by
  rw [runsOfWords_eq 0 ws]; exact sep_runsOfBounds _ (sinc_toBSet _)

theorem bound_runsOfWords (ws : List (BitVec 64)) (hl : ws.length = 1024) : RunBound 65535 (runsOfWords ws) := by
  rw [runsOfWords_eq 0 ws]
  apply bound_runsOfBounds _ (sinc_toBSet _)
  intro b hb
  have := boundsOfBits_ub 0 false (ws.flatMap wordBits) b hb
  rw [flatMap_wordBits_length, hl] at this
  omega

theorem runsCard_runsOfWords (ws : List (BitVec 64)) (hl : ws.length = 1024) : runsCard (runsOfWords ws) = wordsCard ws := by
  rw [← wordsCard_wordsOfRuns _ (sep_runsOfWords ws) (bound_runsOfWords ws hl)]
  have h : ∀ x, testBit (wordsOfRuns (runsOfWords ws)) x = testBit ws x := by
    intro x; rw [testBit_wordsOfRuns_wf (bound_runsOfWords ws hl), inRuns_runsOfWords]
  exact Nat.le_antisymm (wordsCard_mono (fun x hx => by rw [← h]; exact hx)) (wordsCard_mono (fun x hx => by rw [h]; exact hx))

/-! ### `bitmapContainer.toEfficientContainer` -/

/-- `toEfficientContainer` of a bitmap container keeps the members -/
theorem has_toEfficient_bmp (c : Int) (ws : List (BitVec 64)) (y : Nat) :
    ((Cont.bmp c ws).toEfficient).has y = testBit ws y := by
  simp only [Cont.toEfficient]
  split
  · simp only [has_run, inRuns_runsOfWords]
  · split
    · simp only [has_arr, contains_valsOfWords]
    · rfl

/-- `toEfficientContainer` of a bitmap container with a correct cached cardinality is well-formed or empty -/
theorem wfe_toEfficient_bmp {c : Int} {ws : List (BitVec 64)} (hl : ws.length = 1024) (hc : c = (wordsCard ws : Int)) :
    ((Cont.bmp c ws).toEfficient).card = 0 ∨ ((Cont.bmp c ws).toEfficient).wf = true := by
  simp only [Cont.toEfficient]
  split <;> rename_i hmin
  · right
    have hcard := runsCard_runsOfWords ws hl
    have hne : runsOfWords ws ≠ [] := by
      intro h
      rw [h] at hcard hmin
      simp only [runsCard, List.map_nil, List.sum_nil] at hcard
      simp only [List.length_nil] at hmin
      omega
    simp only [Cont.wf, Bool.and_eq_true, Bool.not_eq_true', List.isEmpty_eq_false_iff, runMinimal, decide_eq_true_eq]
    refine ⟨⟨hne, runsOk_of _ (sep_runsOfWords ws) (bound_runsOfWords ws hl)⟩, ?_⟩
    rw [runsCard_eq, hcard]
    omega
  · split <;> rename_i hle
    · exact wfe_arr (arrOk_valsOfWords hl (by simp only [arrayMax] at hle; omega))
    · right; exact wf_bmp_mk hl hc (by simp only [arrayMax] at hle; omega)

/-- `toEfficientContainer` of a well-formed bitmap container is the same set -/
theorem toBSet_toEfficient_bmp (c : Int) (ws : List (BitVec 64)) :
    ((Cont.bmp c ws).toEfficient).toBSet 0 = (Cont.bmp c ws).toBSet 0 :=
  canon_ext_sinc _ _ (sinc_toBSet _) (sinc_toBSet _)
    (fun x => by rw [mem_toBSet, mem_toBSet, has_toEfficient_bmp, has_bmp])

end RModel.Impl
