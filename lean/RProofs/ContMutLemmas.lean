import RModel.Impl.ContMut
import RProofs.ContOps
/-!
Supporting lemmas for `RProofs/ContMut.lean`: sorted insertion, the range `[lo,hi)` as a run list / as bitmap words
(`setRangeW / clearRangeW / flipRangeW`), single-bit cardinality bookkeeping, and the membership / cardinality of the
spliced array lists used by the array range kernels.
Core Lean only; no `native_decide`, `bv_decide`, axioms.
-/
set_option linter.unusedSimpArgs false
namespace RModel.Impl
open RModel RModel.BSet RModel.Driver ContOps ContMut

/-! ### sorted insertion -/

theorem mem_insertVal (x : Nat) (xs : List Nat) (y : Nat) : y ∈ insertVal x xs ↔ (y ∈ xs ∨ y = x) := by
  induction xs with
  | nil => simp [insertVal]
  | cons a t ih =>
    simp only [insertVal]
    split
    · simp only [List.mem_cons]; constructor
      · rintro (h | h | h) <;> simp [h]
      · rintro ((h | h) | h) <;> simp [h]
    · split
      · rename_i h; subst h; simp only [List.mem_cons]; constructor
        · intro h; exact Or.inl h
        · rintro (h | h)
          · exact h
          · exact Or.inl h
      · simp only [List.mem_cons, ih]; constructor
        · rintro (h | h | h) <;> simp [h]
        · rintro ((h | h) | h) <;> simp [h]

theorem contains_insertVal (x : Nat) (xs : List Nat) (y : Nat) :
    (insertVal x xs).contains y = (xs.contains y || decide (y = x)) := by
  have := mem_insertVal x xs y
  by_cases h1 : y ∈ xs <;> by_cases h2 : y = x <;> simp_all

theorem sorted_insertVal (x : Nat) (xs : List Nat) (h : xs.Pairwise (· < ·)) : (insertVal x xs).Pairwise (· < ·) := by
  induction xs with
  | nil => simp [insertVal]
  | cons a t ih =>
    have hp := List.pairwise_cons.mp h
    simp only [insertVal]
    split <;> rename_i h1
    · refine List.pairwise_cons.mpr ⟨?_, h⟩
      intro z hz
      rcases List.mem_cons.mp hz with rfl | hz'
      · exact h1
      · have := hp.1 z hz'; omega
    · split <;> rename_i h2
      · exact h
      · refine List.pairwise_cons.mpr ⟨?_, ih hp.2⟩
        intro z hz
        rcases (mem_insertVal x t z).mp hz with hz' | rfl
        · exact hp.1 z hz'
        · omega

theorem length_insertVal_le (x : Nat) (xs : List Nat) : (insertVal x xs).length ≤ xs.length + 1 := by
  induction xs with
  | nil => simp [insertVal]
  | cons a t ih =>
    simp only [insertVal]
    split
    · simp
    · split
      · simp
      · simp only [List.length_cons]; omega

theorem length_insertVal_pos (x : Nat) (xs : List Nat) : 0 < (insertVal x xs).length := by
  cases xs with
  | nil => simp [insertVal]
  | cons a t =>
    simp only [insertVal]
    split
    · simp
    · split <;> simp

/-- inserting a present value into a sorted list changes nothing -/
theorem insertVal_of_mem (x : Nat) (xs : List Nat) (h : xs.Pairwise (· < ·)) (hx : x ∈ xs) : insertVal x xs = xs := by
  induction xs with
  | nil => simp at hx
  | cons a t ih =>
    have hp := List.pairwise_cons.mp h
    simp only [insertVal]
    rcases List.mem_cons.mp hx with rfl | hx'
    · simp
    · have := hp.1 x hx'
      have h1 : ¬ x < a := by omega
      have h2 : ¬ x = a := by omega
      simp [h1, h2, ih hp.2 hx']

/-! ### the range `[lo,hi)` as a run list and as bitmap words -/

theorem inRuns_rangeRuns (lo hi x : Nat) : inRuns (rangeRuns lo hi) x = (decide (lo ≤ x) && decide (x < hi)) := by
  unfold rangeRuns
  split <;> rename_i h
  · simp only [inRuns, List.any_cons, List.any_nil, Bool.or_false]
    by_cases h1 : lo ≤ x <;> by_cases h2 : x < hi <;> simp [h1, h2] <;> omega
  · simp only [inRuns, List.any_nil]
    by_cases h1 : lo ≤ x <;> by_cases h2 : x < hi <;> simp [h1, h2]; omega

theorem sep_rangeRuns (lo hi : Nat) : RunSep (rangeRuns lo hi) := by
  unfold rangeRuns; split <;> simp [RunSep]

theorem bound_rangeRuns (lo hi : Nat) (h : hi ≤ 65536) : RunBound 65535 (rangeRuns lo hi) := by
  unfold rangeRuns
  split <;> rename_i hlt
  · intro p hp
    simp only [List.mem_singleton] at hp
    subst hp; simp only; omega
  · intro p hp; simp at hp

theorem testBit_rangeWords (lo hi : Nat) (h : hi ≤ 65536) (x : Nat) :
    testBit (wordsOfRuns (rangeRuns lo hi)) x = (decide (lo ≤ x) && decide (x < hi)) := by
  rw [testBit_wordsOfRuns_wf (bound_rangeRuns lo hi h), inRuns_rangeRuns]

theorem length_setRangeW (ws : List (BitVec 64)) (lo hi : Nat) (hl : ws.length = 1024) : (setRangeW ws lo hi).length = 1024 :=
  length_orW _ _ hl (length_wordsOfRuns _)
theorem length_clearRangeW (ws : List (BitVec 64)) (lo hi : Nat) (hl : ws.length = 1024) : (clearRangeW ws lo hi).length = 1024 :=
  length_andNotW _ _ hl (length_wordsOfRuns _)
theorem length_flipRangeW (ws : List (BitVec 64)) (lo hi : Nat) (hl : ws.length = 1024) : (flipRangeW ws lo hi).length = 1024 :=
  length_xorW _ _ hl (length_wordsOfRuns _)

theorem testBit_setRangeW (ws : List (BitVec 64)) (lo hi : Nat) (hl : ws.length = 1024) (h : hi ≤ 65536) (x : Nat) :
    testBit (setRangeW ws lo hi) x = (testBit ws x || (decide (lo ≤ x) && decide (x < hi))) := by
  rw [setRangeW, testBit_orW _ _ (by rw [hl, length_wordsOfRuns]), testBit_rangeWords lo hi h]

theorem testBit_clearRangeW (ws : List (BitVec 64)) (lo hi : Nat) (hl : ws.length = 1024) (h : hi ≤ 65536) (x : Nat) :
    testBit (clearRangeW ws lo hi) x = (testBit ws x && !(decide (lo ≤ x) && decide (x < hi))) := by
  rw [clearRangeW, testBit_andNotW _ _ (by rw [hl, length_wordsOfRuns]), testBit_rangeWords lo hi h]

theorem testBit_flipRangeW (ws : List (BitVec 64)) (lo hi : Nat) (hl : ws.length = 1024) (h : hi ≤ 65536) (x : Nat) :
    testBit (flipRangeW ws lo hi) x = (testBit ws x != (decide (lo ≤ x) && decide (x < hi))) := by
  rw [flipRangeW, testBit_xorW _ _ (by rw [hl, length_wordsOfRuns]), testBit_rangeWords lo hi h]

/-! ### one bit: cardinality bookkeeping -/

theorem wordsCard_setBit (ws : List (BitVec 64)) (x : Nat) (hl : ws.length = 1024) (hx : x < 65536) :
    wordsCard (setBit ws x) = wordsCard ws + (if testBit ws x then 0 else 1) := by
  have hw : ArrWf [x] := ⟨by simp, by simp, by simp, by simpa using hx⟩
  have := card_bmpOrArr ws [x] hl hw
  simp only [List.foldl_cons, List.foldl_nil] at this
  rw [this]
  cases h : testBit ws x <;> simp [h]

theorem wordsCard_clearBit (ws : List (BitVec 64)) (x : Nat) :
    wordsCard (clearBit ws x) + (if testBit ws x then 1 else 0) = wordsCard ws := by
  have := card_bmpAndNotArr ws [x] (by simp)
  simp only [List.foldl_cons, List.foldl_nil] at this
  rw [← this]
  cases h : testBit ws x <;> simp [h]

/-! ### the spliced lists of the array range kernels: `{v ∈ xs | v < lo} ++ m ++ {v ∈ xs | hi ≤ v}` -/

theorem contains_splice (xs m : List Nat) (lo hi y : Nat) :
    (xs.filter (· < lo) ++ m ++ xs.filter (hi ≤ ·)).contains y =
      ((xs.contains y && (decide (y < lo) || decide (hi ≤ y))) || m.contains y) := by
  simp only [List.contains_eq_mem, List.mem_append, List.mem_filter, decide_eq_true_eq]
  by_cases h1 : y ∈ xs <;> by_cases h2 : y < lo <;> by_cases h3 : hi ≤ y <;> by_cases h4 : y ∈ m <;> simp [h1, h2, h3, h4]

theorem sorted_splice (xs m : List Nat) (lo hi : Nat) (hxs : xs.Pairwise (· < ·)) (hm : m.Pairwise (· < ·))
    (hmb : ∀ v ∈ m, lo ≤ v ∧ v < hi) (hlh : lo ≤ hi) :
    (xs.filter (· < lo) ++ m ++ xs.filter (hi ≤ ·)).Pairwise (· < ·) := by
  rw [List.pairwise_append, List.pairwise_append]
  refine ⟨⟨hxs.sublist List.filter_sublist, hm, ?_⟩, hxs.sublist List.filter_sublist, ?_⟩
  · intro a ha b hb
    simp only [List.mem_filter, decide_eq_true_eq] at ha
    have := hmb b hb; omega
  · intro a ha b hb
    simp only [List.mem_filter, decide_eq_true_eq] at hb
    rcases List.mem_append.mp ha with ha | ha
    · simp only [List.mem_filter, decide_eq_true_eq] at ha; omega
    · have := hmb a ha; omega

theorem sorted_range' (lo n : Nat) : (List.range' lo n).Pairwise (· < ·) := by
  induction n generalizing lo with
  | zero => simp
  | succ k ih =>
    rw [List.range'_succ]
    refine List.pairwise_cons.mpr ⟨?_, ih (lo + 1)⟩
    intro z hz
    simp only [List.mem_range'_1] at hz; omega

theorem contains_range' (lo hi y : Nat) (h : lo ≤ hi) :
    (List.range' lo (hi - lo)).contains y = (decide (lo ≤ y) && decide (y < hi)) := by
  simp only [List.contains_eq_mem, List.mem_range'_1]
  by_cases h1 : lo ≤ y <;> by_cases h2 : y < hi <;> simp [h1, h2] <;> omega

/-- three-way partition of a list by position relative to `[lo, hi)` -/
theorem length_three_way (xs : List Nat) (lo hi : Nat) (h : lo ≤ hi) :
    xs.length = (xs.filter (· < lo)).length + (xs.filter fun v => lo ≤ v && v < hi).length + (xs.filter (hi ≤ ·)).length := by
  induction xs with
  | nil => rfl
  | cons a t ih =>
    simp only [List.filter_cons, List.length_cons]
    by_cases h1 : a < lo <;> by_cases h2 : hi ≤ a <;> by_cases h3 : lo ≤ a ∧ a < hi <;> simp [h1, h2, h3] <;> omega

theorem length_filter_split (l : List Nat) (p : Nat → Bool) :
    l.length = (l.filter p).length + (l.filter fun v => !p v).length := by
  induction l with
  | nil => rfl
  | cons a t ih =>
    simp only [List.filter_cons, List.length_cons]
    cases p a <;> simp <;> omega

end RModel.Impl
