import RProofs.Iter2RangesBase
import RProofs.ContQueryBmpScan
/-!
`Bitmap.Ranges()`, part 2: the candidate ranges of a BITMAP container (`bmpRangesFrom`, the nested word loops of iter.go).

* `bmpRangesFrom_spec` : from a state (`pos`, `w`) whose word `w` is word `pos` with the bits below the reporting cursor
  `cur` cleared, and with enough fuel (`(len*64 - cur) + (len - pos)`), the result is separated, lies in `[cur, len*64]`
  and has exactly the set bits `≥ cur` as members;
* `bmpRanges_spec`     : for a 1024-word bitmap the fuel `66560` suffices: `bmpRanges ws` is separated, bounded by `65536`
  and has the members `testBit ws`.
Core Lean only; no `native_decide`, `bv_decide`, axioms.
-/
namespace RModel.Impl.It
open RModel RModel.Impl RModel.Impl.ContOps RModel.Impl.ContQuery

/-! ### one word -/

/-- `tz` without the non-zero hypothesis -/
theorem tz_spec' (v : BitVec 64) :
    tz v ≤ 64 ∧ (tz v < 64 → v.getLsbD (tz v) = true) ∧ ∀ j, j < tz v → v.getLsbD j = false := by
  obtain ⟨_, b, c, d⟩ := tzFrom_spec v 64 0
  unfold tz
  exact ⟨by omega, fun h => c (by omega), fun j hj => d j (by omega) hj⟩

theorem getLsbD_clearLow (n j : Nat) (hn : n < 64) (hj : j < 64) : (clearLow n).getLsbD j = decide (n ≤ j) := by
  have hp : 2 ^ n < 2 ^ 64 := Nat.pow_lt_pow_right (by omega) hn
  have hp1 : 1 ≤ 2 ^ n := Nat.one_le_two_pow
  have e : ((1#64 <<< n) - 1#64).toNat = 2 ^ n - 1 := by
    rw [BitVec.toNat_sub, BitVec.toNat_shiftLeft]
    simp only [BitVec.toNat_ofNat, Nat.shiftLeft_eq]
    have e0 : 1 % 2 ^ 64 = 1 := Nat.mod_eq_of_lt (by omega)
    have e1 : 2 ^ n % 2 ^ 64 = 2 ^ n := Nat.mod_eq_of_lt hp
    rw [e0, Nat.one_mul, e1]
    generalize 2 ^ n = p at hp hp1
    omega
  unfold clearLow
  rw [BitVec.getLsbD_not, BitVec.getLsbD, e, Nat.testBit_two_pow_sub_one]
  by_cases c : n ≤ j
  · simp [c, hj]
  · simp [c, hj]; omega

theorem eq_allOnes_of_bits (w : BitVec 64) (h : ∀ j, j < 64 → w.getLsbD j = true) : w = allOnes := by
  apply BitVec.eq_of_getLsbD_eq
  intro i hi
  unfold allOnes
  rw [h i hi, BitVec.getLsbD_allOnes]
  simp [hi]

theorem getLsbD_allOnes' (j : Nat) (hj : j < 64) : allOnes.getLsbD j = true := by
  unfold allOnes; rw [BitVec.getLsbD_allOnes]; simp [hj]

/-- the first run of ones of a non-zero word: `lo = tz w`, `ones = tz (^(w >> lo))` -/
theorem ones_spec (w : BitVec 64) (hw : w ≠ 0#64) :
    tz w < 64 ∧ 1 ≤ tz (~~~ (w >>> tz w)) ∧ tz w + tz (~~~ (w >>> tz w)) ≤ 64 ∧
    (∀ j, j < tz w → w.getLsbD j = false) ∧
    (∀ j, tz w ≤ j → j < tz w + tz (~~~ (w >>> tz w)) → w.getLsbD j = true) ∧
    (tz w + tz (~~~ (w >>> tz w)) < 64 → w.getLsbD (tz w + tz (~~~ (w >>> tz w))) = false) := by
  obtain ⟨h1, h2, h3⟩ := tz_spec w hw
  obtain ⟨g1, g2, g3⟩ := tz_spec' (~~~ (w >>> tz w))
  generalize tz (~~~ (w >>> tz w)) = ones at g1 g2 g3 ⊢
  generalize tz w = lo at h1 h2 h3 g2 g3 ⊢
  have bit : ∀ j, j < 64 → (~~~ (w >>> lo)).getLsbD j = !(w.getLsbD (lo + j)) := by
    intro j hj
    rw [BitVec.getLsbD_not, BitVec.getLsbD_ushiftRight]
    simp [hj]
  have hset : ∀ j, j < ones → w.getLsbD (lo + j) = true := by
    intro j hj
    have := g3 j hj
    rw [bit j (by omega)] at this
    simpa using this
  have hones : 1 ≤ ones := by
    apply Classical.byContradiction
    intro hc
    have e : ones = 0 := by omega
    have := g2 (by omega)
    rw [e, bit 0 (by omega), Nat.add_zero, h2] at this
    cases this
  have hle : lo + ones ≤ 64 := by
    apply Classical.byContradiction
    intro hc
    have := hset (64 - lo) (by omega)
    rw [BitVec.getLsbD_of_ge _ _ (by omega)] at this
    cases this
  refine ⟨h1, hones, hle, h3, ?_, ?_⟩
  · intro j hj1 hj2
    have := hset (j - lo) (by omega)
    rwa [show lo + (j - lo) = j by omega] at this
  · intro hlt
    have := g2 (by omega)
    rw [bit ones (by omega)] at this
    simpa using this

/-! ### the words -/

theorem testBit_eq (ws : List (BitVec 64)) (x : Nat) : testBit ws x = (word ws (x / 64)).getLsbD (x % 64) := rfl

theorem testBit_word (ws : List (BitVec 64)) (pos j : Nat) (hj : j < 64) :
    testBit ws (pos * 64 + j) = (word ws pos).getLsbD j := by
  rw [testBit_eq, show (pos * 64 + j) / 64 = pos by omega, show (pos * 64 + j) % 64 = j by omega]

theorem skipFullWords_spec (ws : List (BitVec 64)) (pos : Nat) (h : pos ≤ ws.length) :
    pos ≤ skipFullWords ws pos ∧ skipFullWords ws pos ≤ ws.length ∧
    (∀ i, pos ≤ i → i < skipFullWords ws pos → word ws i = allOnes) ∧
    (skipFullWords ws pos < ws.length → word ws (skipFullWords ws pos) ≠ allOnes) := by
  fun_induction skipFullWords ws pos with
  | case1 pos hc ih =>
    obtain ⟨a, b, c, d⟩ := ih (by omega)
    refine ⟨by omega, b, ?_, d⟩
    intro i h1 h2
    by_cases e : i = pos
    · subst e; exact hc.2
    · exact c i (by omega) h2
  | case2 pos hc =>
    refine ⟨Nat.le_refl _, h, fun i h1 h2 => by omega, ?_⟩
    intro hlt he
    exact hc ⟨hlt, he⟩

/-! ### the loop -/

/-- the state (`pos`, `w`) with the reporting cursor `cur` (absolute bit position) -/
structure BmpInv (ws : List (BitVec 64)) (pos cur : Nat) (w : BitVec 64) : Prop where
  pos_lt : pos < ws.length
  lo : pos * 64 ≤ cur
  hi : cur ≤ pos * 64 + 64
  bits : ∀ j, j < 64 → w.getLsbD j = (testBit ws (pos * 64 + j) && decide (cur ≤ pos * 64 + j))

/-- what the loop delivers from cursor `cur` on -/
abbrev BmpPost (ws : List (BitVec 64)) (cur : Nat) (L : List (Nat × Nat)) : Prop :=
  Sep L ∧ (∀ q ∈ L, cur ≤ q.1 ∧ q.2 ≤ ws.length * 64) ∧ ∀ x, memPairs L x = (testBit ws x && decide (cur ≤ x))

theorem BmpInv.bit_true {ws : List (BitVec 64)} {pos cur : Nat} {w : BitVec 64} (h : BmpInv ws pos cur w) {j : Nat}
    (hj : j < 64) (hb : w.getLsbD j = true) : testBit ws (pos * 64 + j) = true ∧ cur ≤ pos * 64 + j := by
  have := h.bits j hj
  rw [hb] at this
  simpa using this.symm

theorem BmpInv.bit_false {ws : List (BitVec 64)} {pos cur : Nat} {w : BitVec 64} (h : BmpInv ws pos cur w) {j : Nat}
    (hj : j < 64) (hb : w.getLsbD j = false) (hc : cur ≤ pos * 64 + j) : testBit ws (pos * 64 + j) = false := by
  have := h.bits j hj
  rw [hb] at this
  simpa [hc] using this.symm

theorem bmpPost_nil (ws : List (BitVec 64)) : BmpPost ws (ws.length * 64) [] := by
  refine ⟨Sep.nil, fun _ h => (nomatch h), ?_⟩
  intro x
  rw [memPairs_nil]
  by_cases c : ws.length * 64 ≤ x
  · rw [testBit_of_ge ws x (by omega)]; rfl
  · simp [c]

/-- move the cursor over clear bits -/
theorem bmpPost_skip {ws : List (BitVec 64)} {cur cur' : Nat} {L : List (Nat × Nat)} (hle : cur ≤ cur')
    (hgap : ∀ x, cur ≤ x → x < cur' → testBit ws x = false) (h : BmpPost ws cur' L) : BmpPost ws cur L := by
  obtain ⟨h1, h2, h3⟩ := h
  refine ⟨h1, fun q hq => ⟨by have := (h2 q hq).1; omega, (h2 q hq).2⟩, ?_⟩
  intro x
  rw [h3 x]
  by_cases c1 : cur' ≤ x
  · simp [c1, show cur ≤ x by omega]
  · by_cases c2 : cur ≤ x
    · simp [c1, c2, hgap x c2 (by omega)]
    · simp [c1, c2]

/-- report the range `[s, e)` -/
theorem bmpPost_cons {ws : List (BitVec 64)} {cur s e : Nat} {L : List (Nat × Nat)} (hcs : cur ≤ s) (hse : s < e)
    (hel : e ≤ ws.length * 64)
    (hgap : ∀ x, cur ≤ x → x < s → testBit ws x = false)
    (hrun : ∀ x, s ≤ x → x < e → testBit ws x = true)
    (hend : testBit ws e = false)
    (h : BmpPost ws e L) : BmpPost ws cur ((s, e) :: L) := by
  obtain ⟨h1, h2, h3⟩ := h
  have hlt : ∀ q ∈ L, e < q.1 := by
    intro q hq
    have a := (h2 q hq).1
    have b := memPairs_start hq (h1.1 q hq)
    rw [h3 q.1] at b
    simp only [Bool.and_eq_true, decide_eq_true_eq] at b
    have : q.1 ≠ e := by
      intro e'
      rw [e', hend] at b
      cases b.1
    omega
  have hsep : Sep ((s, e) :: L) := Sep.cons hse hlt h1
  refine ⟨hsep, ?_, ?_⟩
  · intro q hq
    rcases List.mem_cons.mp hq with rfl | h'
    · exact ⟨hcs, hel⟩
    · have := h2 q h'; omega
  · intro x
    rw [memPairs_cons_sep hsep, h3 x]
    simp only []
    by_cases c1 : x < s
    · rw [if_pos c1]
      by_cases c2 : cur ≤ x
      · simp [hgap x c2 c1]
      · simp [c2]
    · rw [if_neg c1]
      by_cases c2 : x < e
      · rw [if_pos c2, hrun x (by omega) c2]; simp; omega
      · rw [if_neg c2]; simp [show e ≤ x by omega, show cur ≤ x by omega]

theorem bmpRangesFrom_spec (ws : List (BitVec 64)) : ∀ (fuel pos cur : Nat) (w : BitVec 64), BmpInv ws pos cur w →
    (ws.length * 64 - cur) + (ws.length - pos) ≤ fuel → BmpPost ws cur (bmpRangesFrom ws fuel pos w)
  | 0, pos, cur, w, hi, hf => by have := hi.pos_lt; omega
  | fuel + 1, pos, cur, w, hi, hf => by
    have hpl := hi.pos_lt
    have hlo := hi.lo
    have hhi := hi.hi
    simp only [bmpRangesFrom]
    by_cases hw : w = 0#64
    · rw [if_pos hw]
      -- the rest of word `pos` is clear
      have hgap : ∀ x, cur ≤ x → x < (pos + 1) * 64 → testBit ws x = false := by
        intro x h1 h2
        have := hi.bit_false (j := x - pos * 64) (by omega) (by rw [hw]; simp) (by omega)
        rwa [show pos * 64 + (x - pos * 64) = x by omega] at this
      by_cases hn : pos + 1 < ws.length
      · rw [if_pos hn]
        apply bmpPost_skip (cur' := (pos + 1) * 64) (by omega) hgap
        apply bmpRangesFrom_spec ws fuel (pos + 1) ((pos + 1) * 64) _ _ (by omega)
        refine ⟨hn, Nat.le_refl _, by omega, ?_⟩
        intro j hj
        rw [testBit_word ws (pos + 1) j hj]
        simp
      · rw [if_neg hn]
        have e : ws.length = pos + 1 := by omega
        apply bmpPost_skip (cur' := ws.length * 64) (by omega) (by rw [e]; exact hgap)
        exact bmpPost_nil ws
    · rw [if_neg hw]
      obtain ⟨o1, o2, o3, o4, o5, o6⟩ := ones_spec w hw
      generalize tz (~~~ (w >>> tz w)) = ones at o2 o3 o5 o6 ⊢
      generalize tz w = lo at o1 o3 o4 o5 o6 ⊢
      have hcs : cur ≤ pos * 64 + lo := (hi.bit_true o1 (o5 lo (Nat.le_refl _) (by omega))).2
      have hgap : ∀ x, cur ≤ x → x < pos * 64 + lo → testBit ws x = false := by
        intro x h1 h2
        have := hi.bit_false (j := x - pos * 64) (by omega) (o4 _ (by omega)) (by omega)
        rwa [show pos * 64 + (x - pos * 64) = x by omega] at this
      have hrun0 : ∀ x, pos * 64 + lo ≤ x → x < pos * 64 + lo + ones → testBit ws x = true := by
        intro x h1 h2
        have := (hi.bit_true (j := x - pos * 64) (by omega) (o5 _ (by omega) (by omega))).1
        rwa [show pos * 64 + (x - pos * 64) = x by omega] at this
      by_cases hlt : lo + ones < 64
      · rw [if_pos hlt]
        apply bmpPost_cons hcs (by omega) (by omega) hgap hrun0
        · have := hi.bit_false (j := lo + ones) hlt (o6 hlt) (by omega)
          rwa [show pos * 64 + (lo + ones) = pos * 64 + lo + ones by omega] at this
        · apply bmpRangesFrom_spec ws fuel pos (pos * 64 + lo + ones) _ _ (by omega)
          refine ⟨hpl, by omega, by omega, ?_⟩
          intro j hj
          rw [BitVec.getLsbD_and, getLsbD_clearLow _ _ hlt hj, hi.bits j hj, Bool.and_assoc]
          congr 1
          rw [← Bool.decide_and, decide_eq_decide]
          omega
      · rw [if_neg hlt]
        have hfull : lo + ones = 64 := by omega
        obtain ⟨s1, s2, s3, s4⟩ := skipFullWords_spec ws (pos + 1) (by omega)
        generalize skipFullWords ws (pos + 1) = pos' at s1 s2 s3 s4 ⊢
        -- all bits from the start up to word `pos'` are set
        have hrun1 : ∀ x, pos * 64 + lo ≤ x → x < pos' * 64 → testBit ws x = true := by
          intro x h1 h2
          by_cases c : x < pos * 64 + 64
          · exact hrun0 x h1 (by omega)
          · rw [testBit_eq, s3 (x / 64) (by omega) (by omega)]
            exact getLsbD_allOnes' _ (Nat.mod_lt _ (by omega))
        by_cases hp' : pos' < ws.length
        · rw [if_pos hp']
          have hne := s4 hp'
          obtain ⟨t1, t2, t3⟩ := tz_spec' (~~~ word ws pos')
          generalize tz (~~~ word ws pos') = tr at t1 t2 t3 ⊢
          have bit : ∀ j, j < 64 → (~~~ word ws pos').getLsbD j = !((word ws pos').getLsbD j) := by
            intro j hj
            rw [BitVec.getLsbD_not]
            simp [hj]
          have hset : ∀ j, j < tr → (word ws pos').getLsbD j = true := by
            intro j hj
            have := t3 j hj
            rw [bit j (by omega)] at this
            simpa using this
          have htr : tr < 64 := by
            apply Classical.byContradiction
            intro hc
            exact hne (eq_allOnes_of_bits _ (fun j hj => hset j (by omega)))
          have hclr : (word ws pos').getLsbD tr = false := by
            have := t2 htr
            rw [bit tr htr] at this
            simpa using this
          apply bmpPost_cons hcs (by omega) (by omega) hgap
          · intro x h1 h2
            by_cases c : x < pos' * 64
            · exact hrun1 x h1 c
            · have := hset (x - pos' * 64) (by omega)
              rw [← testBit_word ws pos' _ (by omega)] at this
              rwa [show pos' * 64 + (x - pos' * 64) = x by omega] at this
          · rw [testBit_word ws pos' tr htr]; exact hclr
          · apply bmpRangesFrom_spec ws fuel pos' (pos' * 64 + tr) _ _ (by omega)
            refine ⟨hp', by omega, by omega, ?_⟩
            intro j hj
            rw [BitVec.getLsbD_and, getLsbD_clearLow _ _ htr hj, testBit_word ws pos' j hj]
            congr 1
            rw [decide_eq_decide]
            omega
        · rw [if_neg hp']
          have e : pos' = ws.length := by omega
          rw [e] at hrun1
          exact bmpPost_cons hcs (by omega) (Nat.le_refl _) hgap hrun1 (testBit_of_ge ws _ (by omega)) (bmpPost_nil ws)

/-- **bitmap container**: the candidate ranges are separated, lie in `[0, 65536]` and have the set bits as members -/
theorem bmpRanges_spec (ws : List (BitVec 64)) (hl : ws.length = 1024) :
    Sep (bmpRanges ws) ∧ (∀ q ∈ bmpRanges ws, q.2 ≤ 65536) ∧ ∀ x, memPairs (bmpRanges ws) x = testBit ws x := by
  unfold bmpRanges
  rw [if_pos (by omega)]
  have hi : BmpInv ws 0 0 (word ws 0) := by
    refine ⟨by omega, Nat.le_refl _, by omega, ?_⟩
    intro j hj
    rw [testBit_word ws 0 j hj]
    simp
  obtain ⟨h1, h2, h3⟩ := bmpRangesFrom_spec ws 66560 0 0 (word ws 0) hi (by omega)
  refine ⟨h1, fun q hq => by have := (h2 q hq).2; omega, ?_⟩
  intro x
  rw [h3 x]
  simp

end RModel.Impl.It
