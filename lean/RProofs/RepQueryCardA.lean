import RProofs.ContQuery
import RProofs.RepOps
import RProofs.IterAdv
import RModel.Impl.RepQuery
/-!
Container kernels of `RModel/Impl/RepQuery.lean`, part A: `advFrom` (= `advanceUntil` with `lower = pos + 1`), and the
`andCardinality` / `intersects` kernels on ARRAY × ARRAY (galloping and two-pointer), BITMAP × ARRAY, BITMAP × BITMAP, as
counts / existence over the membership predicates.  Core Lean only; no `native_decide`, `bv_decide`, axioms, `sorry`.
-/
namespace RModel.Impl
open RModel RModel.BSet ContOps ContQuery RepQuery It

/-- `advFrom` on a strictly increasing slice: the first index `≥ lower` whose value is `≥ min`, else `xs.length` -/
theorem advFrom_spec {xs : List Nat} (hs : xs.Pairwise (· < ·)) (lower min : Nat) (r : Nat)
    (hr : r = advFrom xs lower xs.length min) :
    lower ≤ r ∧ (lower ≤ xs.length → r ≤ xs.length) ∧ (∀ j, lower ≤ j → j < r → xs.getD j 0 < min) ∧
      (r < xs.length → min ≤ xs.getD r 0) := by
  unfold advFrom at hr
  simp only [] at hr
  by_cases h1 : lower ≥ xs.length ∨ xs.getD lower 0 ≥ min
  · rw [if_pos h1] at hr
    subst hr
    refine ⟨by omega, fun h => h, fun j a b => by omega, ?_⟩
    intro hlt
    rcases h1 with h | h
    · omega
    · exact h
  · rw [if_neg h1] at hr
    have h1' : lower < xs.length ∧ xs.getD lower 0 < min := by omega
    obtain ⟨g1, g2, g3⟩ := gallop_spec xs lower xs.length min 1 (by omega) (by simpa using h1')
    generalize gallop xs lower xs.length min 1 = s at hr g1 g2 g3
    -- all indices up to an index with a value < min are < min
    have below : ∀ k, k < xs.length → xs.getD k 0 < min → ∀ j, j ≤ k → xs.getD j 0 < min := by
      intro k hk hv j hj
      have := getD_le_of_sorted hs hj hk
      omega
    by_cases h2 : lower + s < xs.length
    · rw [if_pos h2] at hr
      have hup : min ≤ xs.getD (lower + s) 0 := by
        apply Classical.byContradiction; intro hc; exact g3 ⟨h2, by omega⟩
      by_cases h3 : xs.getD (lower + s) 0 = min
      · rw [if_pos h3] at hr
        subst hr
        refine ⟨by omega, fun _ => by omega, ?_, fun _ => by omega⟩
        intro j _ hj
        have := getD_lt_of_sorted hs hj h2
        omega
      · rw [if_neg h3, if_neg (by omega)] at hr
        have hlu : lower + s / 2 < lower + s := by omega
        obtain ⟨b1, b2, b3, b4⟩ := bisect_spec hs min (lower + s / 2) (lower + s) hlu h2 g2.2 hup
        rw [← hr] at b1 b2 b3 b4
        refine ⟨by omega, fun _ => by omega, ?_, fun _ => b3⟩
        intro j _ hj
        exact below (r - 1) (by omega) b4 j (by omega)
    · rw [if_neg h2] at hr
      by_cases h3 : xs.getD (xs.length - 1) 0 = min
      · rw [if_pos h3] at hr
        subst hr
        refine ⟨by omega, fun _ => by omega, ?_, fun _ => by omega⟩
        intro j _ hj
        have := getD_lt_of_sorted hs hj (show xs.length - 1 < xs.length by omega)
        omega
      · rw [if_neg h3] at hr
        by_cases h4 : xs.getD (xs.length - 1) 0 < min
        · rw [if_pos h4] at hr
          subst hr
          refine ⟨by omega, fun _ => by omega, ?_, fun h => by omega⟩
          intro j _ hj
          exact below (xs.length - 1) (by omega) h4 j (by omega)
        · rw [if_neg h4] at hr
          have hlu : lower + s / 2 < xs.length - 1 := by
            apply idx_lt_of_getD_lt hs g2.1
            omega
          obtain ⟨b1, b2, b3, b4⟩ := bisect_spec hs min (lower + s / 2) (xs.length - 1) hlu (by omega) g2.2 (by omega)
          rw [← hr] at b1 b2 b3 b4
          refine ⟨by omega, fun _ => by omega, ?_, fun _ => b3⟩
          intro j _ hj
          exact below (r - 1) (by omega) b4 j (by omega)

/-! ### BITMAP × ARRAY, BITMAP × BITMAP -/

namespace RepQuery

theorem bitValue_eq (ws : List (BitVec 64)) (v : Nat) : bitValue ws v = if testBit ws v then 1 else 0 := by
  unfold bitValue testBit word
  rw [toNat_bit]

theorem bmpArrCard_eq_countP (ws : List (BitVec 64)) (xs : List Nat) : bmpArrCard ws xs = xs.countP (testBit ws) := by
  induction xs with
  | nil => rfl
  | cons v t ih => rw [bmpArrCard, ih, bitValue_eq, List.countP_cons]; omega

/-- counting the members of a strictly increasing bounded list that satisfy `q` -/
theorem countP_eq_cnt {xs : List Nat} (hx : xs.Pairwise (· < ·)) (n : Nat) (hbx : ∀ v ∈ xs, v < n) (q : Nat → Bool) :
    xs.countP q = cnt (fun x => xs.contains x && q x) n := by
  rw [List.countP_eq_length_filter]
  symm
  apply cnt_eq_length (List.Pairwise.filter _ hx)
  intro x
  rw [List.mem_filter, Bool.and_eq_true, List.contains_iff_mem]
  constructor
  · rintro ⟨h1, h2⟩; exact ⟨hbx x h1, h1, h2⟩
  · rintro ⟨_, h1, h2⟩; exact ⟨h1, h2⟩

end RepQuery

theorem bmpArrCard_spec (ws : List (BitVec 64)) {xs : List Nat} (hx : xs.Pairwise (· < ·)) (hbx : ∀ v ∈ xs, v < 65536) :
    bmpArrCard ws xs = cnt (fun x => xs.contains x && testBit ws x) 65536 := by
  rw [bmpArrCard_eq_countP, countP_eq_cnt hx 65536 hbx]

theorem bmpBmpCard_spec (w1 w2 : List (BitVec 64)) (h1 : w1.length = 1024) (h2 : w2.length = 1024) :
    wordsCard (andW w1 w2) = cnt (fun x => testBit w1 x && testBit w2 x) 65536 := by
  rw [wordsCard_eq_cnt, length_andW _ _ h1 h2]
  apply cnt_congr
  intro x _
  exact testBit_andW _ _ (h1.trans h2.symm) x

/-! ### ARRAY × ARRAY -/

namespace RepQuery

theorem contains_drop_iff (large : List Nat) (k x : Nat) :
    (large.drop k).contains x = true ↔ ∃ j, k ≤ j ∧ j < large.length ∧ large.getD j 0 = x := by
  rw [contains_iff_getD]
  constructor
  · rintro ⟨i, hi, e⟩
    rw [List.length_drop] at hi
    refine ⟨k + i, by omega, by omega, ?_⟩
    rw [← e]
    simp [List.getD_eq_getElem?_getD]
  · rintro ⟨j, hk, hj, e⟩
    refine ⟨j - k, by rw [List.length_drop]; omega, ?_⟩
    rw [← e]
    simp only [List.getD_eq_getElem?_getD, List.getElem?_drop]
    congr 2; omega

/-- moving the cursor over a stretch of values `< m` does not change membership of values `≥ m` -/
theorem contains_drop_shift {large : List Nat} {k k' m x : Nat} (hk : k ≤ k')
    (hlt : ∀ j, k ≤ j → j < k' → large.getD j 0 < m) (hx : m ≤ x) :
    (large.drop k).contains x = (large.drop k').contains x := by
  rw [Bool.eq_iff_iff, contains_drop_iff, contains_drop_iff]
  constructor
  · rintro ⟨j, h1, h2, h3⟩
    refine ⟨j, ?_, h2, h3⟩
    apply Classical.byContradiction; intro hc
    have := hlt j h1 (by omega)
    omega
  · rintro ⟨j, h1, h2, h3⟩
    exact ⟨j, by omega, h2, h3⟩

theorem contains_drop_of_ge {large : List Nat} {k : Nat} (hk : large.length ≤ k) (x : Nat) :
    (large.drop k).contains x = false := by
  rw [List.drop_eq_nil_of_le hk]; rfl

theorem contains_drop_skip {large : List Nat} (hl : large.Pairwise (· < ·)) {k k' s : Nat}
    (hlt : ∀ j, k ≤ j → j < k' → large.getD j 0 < s) (_hk' : k' < large.length) (hgt : s < large.getD k' 0) :
    (large.drop k).contains s = false := by
  cases hc : (large.drop k).contains s
  · rfl
  · obtain ⟨j, h1, h2, h3⟩ := (contains_drop_iff _ _ _).mp hc
    by_cases hj : j < k'
    · have := hlt j h1 hj; omega
    · have := getD_le_of_sorted hl (show k' ≤ j by omega) h2
      omega

/-- the cursor step `if s1 < s2 { k1 = advanceUntil(largeset, k1, len, s2) }` -/
theorem gallopStep {large : List Nat} (hl : large.Pairwise (· < ·)) (k1 s2 : Nat) (k1a : Nat)
    (hk : k1a = if large.getD k1 0 < s2 then advFrom large (k1 + 1) large.length s2 else k1) :
    k1 ≤ k1a ∧ (∀ j, k1 ≤ j → j < k1a → large.getD j 0 < s2) ∧ (k1a < large.length → s2 ≤ large.getD k1a 0) := by
  by_cases h : large.getD k1 0 < s2
  · rw [if_pos h] at hk
    obtain ⟨a, _, c, d⟩ := advFrom_spec hl (k1 + 1) s2 k1a hk
    refine ⟨by omega, ?_, d⟩
    intro j h1 h2
    by_cases e : j = k1
    · subst e; exact h
    · exact c j (by omega) h2
  · rw [if_neg h] at hk
    subst hk
    exact ⟨Nat.le_refl _, fun j a b => by omega, fun _ => by omega⟩

theorem gallopCard_eq {large : List Nat} (hl : large.Pairwise (· < ·)) : ∀ (small : List Nat), small.Pairwise (· < ·) →
    ∀ k1, gallopCard large small k1 = small.countP (fun x => (large.drop k1).contains x)
  | [], _, _ => rfl
  | s2 :: rest, hsm, k1 => by
    have hp := List.pairwise_cons.mp hsm
    rw [gallopCard.eq_def]
    simp only []
    generalize hk : (if large.getD k1 0 < s2 then advFrom large (k1 + 1) large.length s2 else k1) = k1a
    obtain ⟨g1, g2, g3⟩ := gallopStep hl k1 s2 k1a hk.symm
    by_cases c1 : k1a ≥ large.length
    · rw [if_pos c1]
      symm
      rw [List.countP_eq_zero]
      intro x hx
      have hx' : s2 ≤ x := by
        rcases List.mem_cons.mp hx with e | e
        · omega
        · exact Nat.le_of_lt (hp.1 x e)
      rw [contains_drop_shift g1 g2 hx', contains_drop_of_ge c1]
      simp
    · rw [if_neg c1]
      have c1' : k1a < large.length := by omega
      have g3' := g3 c1'
      rw [List.countP_cons]
      by_cases c2 : s2 < large.getD k1a 0
      · rw [if_pos c2, contains_drop_skip hl g2 c1' c2, gallopCard_eq hl rest hp.2 k1a]
        simp only [Bool.false_eq_true, if_false, Nat.add_zero]
        apply List.countP_congr
        intro x hx
        rw [contains_drop_shift g1 g2 (Nat.le_of_lt (hp.1 x hx))]
      · rw [if_neg c2]
        have e : large.getD k1a 0 = s2 := by omega
        have hin : (large.drop k1).contains s2 = true := (contains_drop_iff _ _ _).mpr ⟨k1a, g1, c1', e⟩
        rw [hin, if_pos rfl]
        match rest, hp with
        | [], _ => rfl
        | s2' :: rest', hp =>
          simp only []
          have hp2 := List.pairwise_cons.mp hp.2
          have hlt2 : s2 < s2' := hp.1 s2' (by simp)
          obtain ⟨a, _, c, d⟩ := advFrom_spec hl (k1a + 1) s2' _ rfl
          generalize advFrom large (k1a + 1) large.length s2' = k1b at a c d
          have hall : ∀ j, k1 ≤ j → j < k1b → large.getD j 0 < s2' := by
            intro j h1 h2
            by_cases hj : j ≤ k1a
            · have := getD_le_of_sorted hl hj c1'; omega
            · exact c j (by omega) h2
          have hshift : (s2' :: rest').countP (fun x => (large.drop k1).contains x) =
              (s2' :: rest').countP (fun x => (large.drop k1b).contains x) := by
            apply List.countP_congr
            intro x hx
            have hx' : s2' ≤ x := by
              rcases List.mem_cons.mp hx with e | e
              · omega
              · exact Nat.le_of_lt (hp2.1 x e)
            rw [contains_drop_shift (by omega) hall hx']
          rw [hshift]
          by_cases c3 : k1b ≥ large.length
          · rw [if_pos c3]
            have : (s2' :: rest').countP (fun x => (large.drop k1b).contains x) = 0 := by
              rw [List.countP_eq_zero]
              intro x _
              rw [contains_drop_of_ge c3]; simp
            omega
          · rw [if_neg c3, gallopCard_eq hl (s2' :: rest') hp.2 k1b]
            omega

theorem gallopBool_iff {large : List Nat} (hl : large.Pairwise (· < ·)) : ∀ (small : List Nat), small.Pairwise (· < ·) →
    ∀ k1, gallopBool large small k1 = true ↔ ∃ x, x ∈ small ∧ (large.drop k1).contains x = true
  | [], _, _ => by simp [gallopBool]
  | s2 :: rest, hsm, k1 => by
    have hp := List.pairwise_cons.mp hsm
    rw [gallopBool]
    generalize hk : (if large.getD k1 0 < s2 then advFrom large (k1 + 1) large.length s2 else k1) = k1a
    obtain ⟨g1, g2, g3⟩ := gallopStep hl k1 s2 k1a hk.symm
    by_cases c1 : k1a ≥ large.length
    · rw [if_pos c1]
      constructor
      · intro h; cases h
      · rintro ⟨x, hx, hc⟩
        have hx' : s2 ≤ x := by
          rcases List.mem_cons.mp hx with e | e
          · omega
          · exact Nat.le_of_lt (hp.1 x e)
        rw [contains_drop_shift g1 g2 hx', contains_drop_of_ge c1] at hc
        cases hc
    · rw [if_neg c1]
      have c1' : k1a < large.length := by omega
      have g3' := g3 c1'
      by_cases c2 : s2 < large.getD k1a 0
      · rw [if_pos c2, gallopBool_iff hl rest hp.2 k1a]
        constructor
        · rintro ⟨x, hx, hc⟩
          refine ⟨x, List.mem_cons_of_mem _ hx, ?_⟩
          rw [contains_drop_shift g1 g2 (Nat.le_of_lt (hp.1 x hx))]; exact hc
        · rintro ⟨x, hx, hc⟩
          rcases List.mem_cons.mp hx with e | e
          · subst e
            rw [contains_drop_skip hl g2 c1' c2] at hc; cases hc
          · refine ⟨x, e, ?_⟩
            rw [← contains_drop_shift g1 g2 (Nat.le_of_lt (hp.1 x e))]; exact hc
      · rw [if_neg c2]
        have e : large.getD k1a 0 = s2 := by omega
        have hin : (large.drop k1).contains s2 = true := (contains_drop_iff _ _ _).mpr ⟨k1a, g1, c1', e⟩
        constructor
        · intro _; exact ⟨s2, by simp, hin⟩
        · intro _; rfl

end RepQuery

theorem arrAndCard_spec {xs ys : List Nat} (hx : xs.Pairwise (· < ·)) (hy : ys.Pairwise (· < ·)) (hbx : ∀ v ∈ xs, v < 65536) :
    arrAndCard xs ys = cnt (fun x => xs.contains x && ys.contains x) 65536 := by
  have hgen : xs.countP ys.contains = cnt (fun x => xs.contains x && ys.contains x) 65536 := countP_eq_cnt hx 65536 hbx _
  unfold arrAndCard
  split
  · split
    · next h0 =>
      have : xs = [] := List.eq_nil_of_length_eq_zero h0
      subst this
      rw [← hgen]; rfl
    · rw [gallopCard_eq hy xs hx 0, ← hgen]; rfl
  · split
    · split
      · next h0 =>
        have : ys = [] := List.eq_nil_of_length_eq_zero h0
        subst this
        symm
        rw [← cnt_zero (fun x => xs.contains x && ([] : List Nat).contains x)]
        apply cnt_eq_of_none _ (Nat.zero_le _)
        intro u _ _; simp
      · rw [gallopCard_eq hx ys hy 0]
        simp only [List.drop_zero]
        rw [List.countP_eq_length_filter]
        symm
        apply cnt_eq_length (List.Pairwise.filter _ hy)
        intro x
        rw [List.mem_filter, Bool.and_eq_true, List.contains_iff_mem, List.contains_iff_mem]
        constructor
        · rintro ⟨h1, h2⟩; exact ⟨hbx x h2, h2, h1⟩
        · rintro ⟨_, h1, h2⟩; exact ⟨h2, h1⟩
    · rw [ArrayC.inter_card]
      symm
      apply cnt_eq_length (ArrayC.sorted_intersection2by2 xs ys hx hy)
      intro x
      rw [ArrayC.mem_intersection2by2 xs ys hx hy, Bool.and_eq_true, List.contains_iff_mem, List.contains_iff_mem]
      constructor
      · rintro ⟨h1, h2⟩; exact ⟨hbx x h1, h1, h2⟩
      · rintro ⟨_, h1, h2⟩; exact ⟨h1, h2⟩

theorem arrIntersects_spec {xs ys : List Nat} (hx : xs.Pairwise (· < ·)) (hy : ys.Pairwise (· < ·)) :
    arrIntersects xs ys = true ↔ ∃ x, xs.contains x = true ∧ ys.contains x = true := by
  unfold arrIntersects
  split
  · next h0 =>
    constructor
    · intro h; cases h
    · rintro ⟨x, h1, h2⟩
      rw [List.contains_iff_mem] at h1 h2
      rcases h0 with h0 | h0
      · rw [List.eq_nil_of_length_eq_zero h0] at h1; cases h1
      · rw [List.eq_nil_of_length_eq_zero h0] at h2; cases h2
  · split
    · rw [gallopBool_iff hy xs hx 0]
      simp only [List.drop_zero, List.contains_iff_mem]
    · split
      · rw [gallopBool_iff hx ys hy 0]
        simp only [List.drop_zero, List.contains_iff_mem]
        constructor
        · rintro ⟨x, h1, h2⟩; exact ⟨x, h2, h1⟩
        · rintro ⟨x, h1, h2⟩; exact ⟨x, h2, h1⟩
      · rw [ArrayC.intersects2by2_iff xs ys hx hy]
        simp only [List.contains_iff_mem]

end RModel.Impl
