import RProofs.RepOps
import RProofs.Agg
import RProofs.LazyOps
import RModel.Impl.ParData
import RProofs.ParHeap
/-!
The DATA model of the parallel aggregates (`RModel/Impl/ParData.lean`, tied to `/repo/parallel.go` by the `l2par` correspondence
check) computes the set-level folds and returns well-formed bitmaps for well-formed inputs and EVERY worker count `w ≥ 1`.

* the chunk grid of `ParOr` partitions the key interval `[lKey, hKey]`: no `uint16` conversion wraps (`chunk_start_le`,
  `chunkRange_eq`), the invariant checked by the Go code holds (`chunk_grid`), chunk 0 starts at `lKey` (`chunkRange_first`), every
  chunk starts right after its predecessor ends (`chunkRange_succ`), the last chunk ends at `hKey` (`chunkRange_last`), no chunk
  is empty (`chunkRange_nonempty`), later chunks lie above earlier ones (`chunkRange_lt`) and a key of `[lKey, hKey]` lies in
  chunk `i` iff `i = (k − lKey) / chunkSize` (`chunk_partition`) — also at the top of the key space (`hKey = 65535`) and for `4·w`
  larger than the key span;
* container level: the temporaries of `getFastContainerAtIndex` (`toBitmapFast`), the chunk invariant `ParOk` (a bitmap container
  with a deferred OR an exact cardinality of any size), the function `repairAfterLazy` (`repairContPar`);
* one chunk (`orChunk_spec`), the assembly (`parOrSlots_spec`), and
  `Rep.toBSet_parOr`, `Rep.wf_parOr`, `Rep.parOr_worker_independent` (the SET does not depend on `w`; the representation does:
  whether a container copied from a later operand is shared-and-flagged or cloned depends on the chunk it falls in);
* `ParHeapOr` / `ParAnd`: with the heap theorems of `RProofs/ParHeap.lean` (work items come out with strictly increasing keys, each
  carries exactly the containers stored under its key — as a multiset — and no key is lost) the workers' reductions are
  order-independent at the level of members (`reduceOr_spec`, `reduceAnd_spec`), hence
  `Rep.toBSet_parHeapOr`, `Rep.wf_parHeapOr`, `Rep.toBSet_parAnd` (`= BSet.interL`, the empty list included), `Rep.wf_parAnd`;
  the worker count does not enter their data at all (`Rep.parHeapOr_worker_independent`, `Rep.parAnd_worker_independent`, by `rfl`).
-/
set_option linter.unusedSimpArgs false
set_option linter.unusedVariables false
namespace RModel.Impl
open RModel RModel.BSet RModel.Driver ContOps RepOps LazyOps

namespace ParData

/-! ### the chunk grid -/

theorem chunkSize_pos (lKey hKey w : Nat) (hlh : lKey ≤ hKey) (hw : 1 ≤ w) : 0 < parOrChunkSize lKey hKey w := by
  unfold parOrChunkSize
  simp only []
  split
  · omega
  · rename_i h
    apply Nat.div_pos <;> omega

/-- `⌈a / b⌉ · b` brackets `a` -/
theorem ceil_div_bounds (a b : Nat) (hb : 0 < b) :
    a ≤ (a + b - 1) / b * b ∧ (a + b - 1) / b * b < a + b := by
  have h1 : (a + b - 1) / b * b ≤ a + b - 1 := Nat.div_mul_le_self _ _
  have h2 : a + b - 1 < ((a + b - 1) / b + 1) * b := by
    have := Nat.lt_div_mul_add (a := a + b - 1) hb
    rw [Nat.add_mul, Nat.one_mul]; exact this
  rw [Nat.add_mul, Nat.one_mul] at h2
  omega

/-- the invariant `ParOr` checks before it starts (`chunkCount * chunkSize >= keyRange`), and every chunk starts inside the key
range -/
theorem chunk_grid (lKey hKey w : Nat) (hlh : lKey ≤ hKey) (hw : 1 ≤ w) :
    hKey + 1 - lKey ≤ parOrChunkCount lKey hKey w * parOrChunkSize lKey hKey w ∧
      parOrChunkCount lKey hKey w * parOrChunkSize lKey hKey w < hKey + 1 - lKey + parOrChunkSize lKey hKey w := by
  have hpos := chunkSize_pos lKey hKey w hlh hw
  unfold parOrChunkCount
  simp only []
  split
  · rename_i h
    have : parOrChunkSize lKey hKey w = 1 := by unfold parOrChunkSize; simp only []; rw [if_pos h]
    rw [this]; omega
  · exact ceil_div_bounds _ _ hpos

theorem chunkCount_pos (lKey hKey w : Nat) (hlh : lKey ≤ hKey) (hw : 1 ≤ w) : 0 < parOrChunkCount lKey hKey w := by
  have h := (chunk_grid lKey hKey w hlh hw).1
  rcases Nat.eq_zero_or_pos (parOrChunkCount lKey hKey w) with h0 | h0
  · rw [h0] at h; omega
  · exact h0

/-- never more chunks than `4·w` work items, never more than keys -/
theorem chunkCount_le (lKey hKey w : Nat) (hlh : lKey ≤ hKey) (hw : 1 ≤ w) :
    parOrChunkCount lKey hKey w ≤ hKey + 1 - lKey := by
  have hpos := chunkSize_pos lKey hKey w hlh hw
  have h := (chunk_grid lKey hKey w hlh hw).2
  have : parOrChunkCount lKey hKey w * 1 ≤ parOrChunkCount lKey hKey w * parOrChunkSize lKey hKey w :=
    Nat.mul_le_mul_left _ hpos
  by_cases hc : parOrChunkCount lKey hKey w ≤ hKey + 1 - lKey
  · exact hc
  · exfalso
    -- count ≥ range + 1 ⇒ count·size ≥ range·size + size ≥ range + size
    have h1 : (hKey + 1 - lKey + 1) * parOrChunkSize lKey hKey w ≤
        parOrChunkCount lKey hKey w * parOrChunkSize lKey hKey w := Nat.mul_le_mul_right _ (by omega)
    have h2 : (hKey + 1 - lKey) * 1 ≤ (hKey + 1 - lKey) * parOrChunkSize lKey hKey w := Nat.mul_le_mul_left _ hpos
    rw [Nat.add_mul, Nat.one_mul] at h1
    omega

/-- product monotonicity used below: chunk `i < count` starts no later than the last chunk -/
theorem mul_size_le (lKey hKey w i : Nat) (hi : i < parOrChunkCount lKey hKey w) :
    (i + 1) * parOrChunkSize lKey hKey w ≤ parOrChunkCount lKey hKey w * parOrChunkSize lKey hKey w :=
  Nat.mul_le_mul_right _ hi

/-- chunk `i` starts inside `[lKey, hKey]` — so `uint16(int(lKey) + i*chunkSize)` does not wrap -/
theorem chunk_start_le (lKey hKey w i : Nat) (hlh : lKey ≤ hKey) (hw : 1 ≤ w) (hi : i < parOrChunkCount lKey hKey w) :
    lKey + i * parOrChunkSize lKey hKey w ≤ hKey := by
  have h := (chunk_grid lKey hKey w hlh hw).2
  have hm := mul_size_le lKey hKey w i hi
  rw [Nat.add_mul, Nat.one_mul] at hm
  omega

/-- `chunkRange` without the `uint16` conversions (they are the identity on the values that occur) -/
theorem chunkRange_eq (lKey hKey w i : Nat) (hlh : lKey ≤ hKey) (hh : hKey ≤ 65535) (hw : 1 ≤ w)
    (hi : i < parOrChunkCount lKey hKey w) :
    chunkRange lKey hKey w i =
      (lKey + i * parOrChunkSize lKey hKey w, min (lKey + (i + 1) * parOrChunkSize lKey hKey w - 1) hKey) := by
  have hs := chunk_start_le lKey hKey w i hlh hw hi
  unfold chunkRange u16
  simp only []
  rw [Nat.mod_eq_of_lt (by omega), Nat.mod_eq_of_lt (by omega)]

/-- no chunk is empty -/
theorem chunkRange_nonempty (lKey hKey w i : Nat) (hlh : lKey ≤ hKey) (hh : hKey ≤ 65535) (hw : 1 ≤ w)
    (hi : i < parOrChunkCount lKey hKey w) : (chunkRange lKey hKey w i).1 ≤ (chunkRange lKey hKey w i).2 := by
  have hs := chunk_start_le lKey hKey w i hlh hw hi
  have hpos := chunkSize_pos lKey hKey w hlh hw
  rw [chunkRange_eq lKey hKey w i hlh hh hw hi]
  simp only []
  rw [Nat.add_mul, Nat.one_mul]
  omega

/-- the first chunk starts at `lKey` -/
theorem chunkRange_first (lKey hKey w : Nat) (hlh : lKey ≤ hKey) (hh : hKey ≤ 65535) (hw : 1 ≤ w) :
    (chunkRange lKey hKey w 0).1 = lKey := by
  rw [chunkRange_eq lKey hKey w 0 hlh hh hw (chunkCount_pos lKey hKey w hlh hw)]
  simp

/-- every chunk starts right after its predecessor ends -/
theorem chunkRange_succ (lKey hKey w i : Nat) (hlh : lKey ≤ hKey) (hh : hKey ≤ 65535) (hw : 1 ≤ w)
    (hi : i + 1 < parOrChunkCount lKey hKey w) :
    (chunkRange lKey hKey w (i + 1)).1 = (chunkRange lKey hKey w i).2 + 1 := by
  have hs := chunk_start_le lKey hKey w (i + 1) hlh hw hi
  have hpos := chunkSize_pos lKey hKey w hlh hw
  rw [chunkRange_eq lKey hKey w (i + 1) hlh hh hw hi, chunkRange_eq lKey hKey w i hlh hh hw (by omega)]
  simp only []
  rw [Nat.add_mul, Nat.one_mul] at hs ⊢
  omega

/-- the last chunk ends at `hKey` -/
theorem chunkRange_last (lKey hKey w : Nat) (hlh : lKey ≤ hKey) (hh : hKey ≤ 65535) (hw : 1 ≤ w) :
    (chunkRange lKey hKey w (parOrChunkCount lKey hKey w - 1)).2 = hKey := by
  have hc := chunkCount_pos lKey hKey w hlh hw
  have hg := (chunk_grid lKey hKey w hlh hw).1
  rw [chunkRange_eq lKey hKey w _ hlh hh hw (by omega)]
  simp only []
  have : parOrChunkCount lKey hKey w - 1 + 1 = parOrChunkCount lKey hKey w := by omega
  rw [this]
  omega

/-- chunk ranges are ordered: a later chunk lies entirely above an earlier one -/
theorem chunkRange_lt (lKey hKey w i j : Nat) (hlh : lKey ≤ hKey) (hh : hKey ≤ 65535) (hw : 1 ≤ w)
    (hij : i < j) (hj : j < parOrChunkCount lKey hKey w) :
    (chunkRange lKey hKey w i).2 < (chunkRange lKey hKey w j).1 := by
  have hpos := chunkSize_pos lKey hKey w hlh hw
  have hsj := chunk_start_le lKey hKey w j hlh hw hj
  rw [chunkRange_eq lKey hKey w j hlh hh hw hj, chunkRange_eq lKey hKey w i hlh hh hw (by omega)]
  simp only []
  have hm : (i + 1) * parOrChunkSize lKey hKey w ≤ j * parOrChunkSize lKey hKey w := Nat.mul_le_mul_right _ hij
  rw [Nat.add_mul, Nat.one_mul] at hm ⊢
  omega

/-- the index of the chunk that holds key `k` -/
def chunkOf (lKey hKey w k : Nat) : Nat := (k - lKey) / parOrChunkSize lKey hKey w

theorem chunkOf_lt (lKey hKey w k : Nat) (hlh : lKey ≤ hKey) (hw : 1 ≤ w) (hk1 : lKey ≤ k) (hk2 : k ≤ hKey) :
    chunkOf lKey hKey w k < parOrChunkCount lKey hKey w := by
  have hpos := chunkSize_pos lKey hKey w hlh hw
  have hg := (chunk_grid lKey hKey w hlh hw).1
  unfold chunkOf
  rw [Nat.div_lt_iff_lt_mul hpos]
  omega

/-- **the chunk grid covers `[lKey, hKey]` exactly once**: for every worker count `w ≥ 1` (whatever its size relative to the key
span) and every key range (up to `hKey = 65535`), a key `k ∈ [lKey, hKey]` lies in the range of chunk `i < chunkCount` iff
`i = (k − lKey) / chunkSize`, and that index IS below `chunkCount` -/
theorem chunk_partition (lKey hKey w k : Nat) (hlh : lKey ≤ hKey) (hh : hKey ≤ 65535) (hw : 1 ≤ w)
    (hk1 : lKey ≤ k) (hk2 : k ≤ hKey) :
    chunkOf lKey hKey w k < parOrChunkCount lKey hKey w ∧
      ∀ i, i < parOrChunkCount lKey hKey w →
        (((chunkRange lKey hKey w i).1 ≤ k ∧ k ≤ (chunkRange lKey hKey w i).2) ↔ i = chunkOf lKey hKey w k) := by
  refine ⟨chunkOf_lt lKey hKey w k hlh hw hk1 hk2, fun i hi => ?_⟩
  have hpos := chunkSize_pos lKey hKey w hlh hw
  rw [chunkRange_eq lKey hKey w i hlh hh hw hi]
  simp only []
  unfold chunkOf
  constructor
  · rintro ⟨h1, h2⟩
    symm
    rw [Nat.div_eq_iff hpos]
    rw [Nat.add_mul, Nat.one_mul] at h2
    omega
  · intro h
    have := (Nat.div_eq_iff hpos).mp h.symm
    rw [Nat.add_mul, Nat.one_mul]
    omega

/-- the ranges of the chunks lie inside `[lKey, hKey]` -/
theorem chunkRange_within (lKey hKey w i : Nat) (hlh : lKey ≤ hKey) (hh : hKey ≤ 65535) (hw : 1 ≤ w)
    (hi : i < parOrChunkCount lKey hKey w) :
    lKey ≤ (chunkRange lKey hKey w i).1 ∧ (chunkRange lKey hKey w i).2 ≤ hKey := by
  rw [chunkRange_eq lKey hKey w i hlh hh hw hi]
  simp only []
  omega

/-! ### container level -/

/-- the invariant of a container of a chunk between the lazy steps: array and run containers are well-formed; a bitmap container
has its 1024 words, is non-empty, and its cached cardinality is DEFERRED (−1) or EXACT — of any size: `bitmap.lazyOR(run)` is
not lazy and may return an exact bitmap container with few values, which the FUNCTION `repairAfterLazy` re-types -/
def ParOk : Cont → Prop
  | .bmp c ws => ws.length = 1024 ∧ 0 < wordsCard ws ∧ (c = invalidCard ∨ c = (wordsCard ws : Int))
  | c => c.wf = true

theorem parOk_of_lazyOk {c : Cont} (h : c.lazyOk = true) : ParOk c := by
  cases c with
  | arr vs => exact h
  | run rs => exact h
  | bmp k ws =>
    obtain ⟨hl, h2⟩ := lazyOk_bmp_iff.mp h
    rcases h2 with ⟨hk, hp⟩ | ⟨hk, hp⟩
    · exact ⟨hl, hp, Or.inl hk⟩
    · exact ⟨hl, by omega, Or.inr hk⟩

theorem parOk_of_wf {c : Cont} (h : c.wf = true) : ParOk c := parOk_of_lazyOk (lazyOk_of_wf h)

theorem bounded_of_parOk {c : Cont} (h : ParOk c) : c.Bounded := by
  cases c with
  | arr vs => exact bounded_of_wf h
  | run rs => exact bounded_of_wf h
  | bmp k ws => intro y hy; exact testBit_lt h.1 hy

theorem has_toBitmapFast (c : Cont) (h : ParOk c) (x : Nat) : (toBitmapFast c).has x = c.has x := by
  cases c with
  | arr vs =>
    simp only [toBitmapFast, has_bmp, has_arr]
    exact testBit_wordsOfArr vs x (wf_arr h).bound
  | bmp k ws => rfl
  | run rs =>
    simp only [toBitmapFast]
    split
    · rfl
    · simp only [runToBitmapTemp, has_bmp, has_run, testBit_wordsOfRuns]
      exact bool_and_bound (fun hx => has_lt (c := .run rs) h hx)

theorem lazyRecv_toBitmapFast (c : Cont) (h : ParOk c) : (toBitmapFast c).LazyRecv := by
  cases c with
  | arr vs =>
    obtain ⟨y, hy⟩ := exists_has_of_wf (c := .arr vs) h
    rw [← has_toBitmapFast _ h] at hy
    exact Or.inr ⟨_, _, rfl, length_wordsOfArr vs, wordsCard_pos hy⟩
  | bmp k ws => exact Or.inr ⟨k, ws, rfl, h.1, h.2.1⟩
  | run rs =>
    obtain ⟨y, hy⟩ := exists_has_of_wf (c := .run rs) h
    rw [← has_toBitmapFast _ h] at hy
    simp only [toBitmapFast] at hy ⊢
    split <;> rename_i hf
    · exact Or.inl (lazyOk_of_wf h)
    · rw [if_neg hf] at hy
      exact Or.inr ⟨_, _, rfl, length_wordsOfRuns rs, wordsCard_pos hy⟩

/-- `bitmap.lazyOR(c)` for ANY cached cardinality of the receiver (the temporaries of `getFastContainerAtIndex`) -/
theorem has_bmp_lazyOR2 (k : Int) (ws : List (BitVec 64)) (hl : ws.length = 1024) (b : Cont) (hb : b.wf = true) (x : Nat) :
    ((Cont.bmp k ws).lazyOR2 b).has x = (testBit ws x || b.has x) := by
  cases b with
  | arr ys =>
    have hys := wf_arr hb
    simp only [Cont.lazyOR2, has_bmp, has_arr]
    exact testBit_foldl_setBit ys ws x (by intro v hv; have := hys.bound v hv; omega)
  | bmp c2 ws2 =>
    have hws2 := wf_bmp hb
    simp only [Cont.lazyOR2, has_bmp]
    exact testBit_orW _ _ (hl.trans hws2.1.symm) x
  | run rs =>
    simp only [Cont.lazyOR2]
    split <;> rename_i hf
    · have hfull : ∀ y, inRuns rs y = decide (y < 65536) := by
        intro y
        match rs, hf with
        | [(s, l)], hf =>
          simp only [isFullRun, Bool.and_eq_true, beq_iff_eq] at hf
          simp only [inRuns, List.any_cons, List.any_nil, Bool.or_false]
          obtain ⟨h1, h2⟩ := hf
          subst h1
          simp only [Nat.zero_add] at h2
          subst h2
          simp only [Nat.zero_le, decide_true, Bool.true_and, Nat.zero_add]
          congr 1
          exact propext (by omega)
      simp only [has_run, hfull]
      by_cases hx : x < 65536
      · simp [hx]
      · simp [hx, testBit_of_ge ws x (by omega)]
    · rw [has_ofWordsOr _ (length_orW _ _ (length_wordsOfRuns rs) hl),
        testBit_orW _ _ ((length_wordsOfRuns rs).trans hl.symm), testBit_wordsOfRuns, has_run,
        bool_and_bound (p := inRuns rs x) (fun hx => has_lt (c := .run rs) hb hx), Bool.or_comm]

theorem parOk_bmp_lazyOR2 (k : Int) (ws : List (BitVec 64)) (hl : ws.length = 1024) (b : Cont) (hb : b.wf = true) :
    ParOk ((Cont.bmp k ws).lazyOR2 b) := by
  obtain ⟨y, hy⟩ := exists_has_of_wf hb
  have hmem : ((Cont.bmp k ws).lazyOR2 b).has y = true := by rw [has_bmp_lazyOR2 k ws hl b hb, hy, Bool.or_true]
  cases b with
  | arr ys =>
    simp only [Cont.lazyOR2] at hmem ⊢
    exact ⟨by rw [length_foldl_setBit]; exact hl, wordsCard_pos hmem, Or.inl rfl⟩
  | bmp c2 ws2 =>
    simp only [Cont.lazyOR2] at hmem ⊢
    exact ⟨length_orW _ _ hl (wf_bmp hb).1, wordsCard_pos hmem, Or.inl rfl⟩
  | run rs =>
    simp only [Cont.lazyOR2] at hmem ⊢
    split <;> rename_i hf
    · exact hb
    · have hlen := length_orW _ _ (length_wordsOfRuns rs) hl
      rw [if_neg hf, has_ofWordsOr _ hlen] at hmem
      generalize orW (wordsOfRuns rs) ws = w' at hlen hmem ⊢
      simp only [ofWordsOr]
      by_cases hc : (wordsCard w' == 65536) = true
      · rw [if_pos hc]
        show fullRun.wf = true
        decide
      · rw [if_neg hc]
        exact ⟨hlen, wordsCard_pos hmem, Or.inr rfl⟩

/-- the equal-key step of `lazyOrOnRange`: `getFastContainerAtIndex(i, false).lazyOR(c2)` -/
theorem has_parOrStep (a b : Cont) (ha : a.wf = true) (hb : b.wf = true) (x : Nat) :
    ((toBitmapFast a).lazyOR2 b).has x = (a.has x || b.has x) := by
  have hpa := parOk_of_wf ha
  rw [← has_toBitmapFast a hpa x]
  cases a with
  | arr vs => exact has_bmp_lazyOR2 _ _ (length_wordsOfArr vs) b hb x
  | bmp k ws => exact has_bmp_lazyOR2 _ _ (wf_bmp ha).1 b hb x
  | run rs =>
    simp only [toBitmapFast]
    split
    · exact has_lazyOR2 _ _ ha hb x
    · exact has_bmp_lazyOR2 _ _ (length_wordsOfRuns rs) b hb x

theorem parOk_parOrStep (a b : Cont) (ha : a.wf = true) (hb : b.wf = true) : ParOk ((toBitmapFast a).lazyOR2 b) := by
  cases a with
  | arr vs => exact parOk_bmp_lazyOR2 _ _ (length_wordsOfArr vs) b hb
  | bmp k ws => exact parOk_bmp_lazyOR2 _ _ (wf_bmp ha).1 b hb
  | run rs =>
    simp only [toBitmapFast]
    split
    · exact parOk_of_lazyOk (lazyOk_lazyOR2 _ _ ha hb)
    · exact parOk_bmp_lazyOR2 _ _ (length_wordsOfRuns rs) b hb

/-- the equal-key step of `lazyIOrOnRange`: `getFastContainerAtIndex(i, true).lazyIOR(c2)` -/
theorem has_parIorStep (a b : Cont) (ha : ParOk a) (hb : b.wf = true) (x : Nat) :
    ((toBitmapFast a).lazyIOR2 b).has x = (a.has x || b.has x) := by
  rw [has_lazyIOR2 _ _ (lazyRecv_toBitmapFast a ha) hb, has_toBitmapFast a ha]

theorem parOk_parIorStep (a b : Cont) (ha : ParOk a) (hb : b.wf = true) : ParOk ((toBitmapFast a).lazyIOR2 b) :=
  parOk_of_lazyOk (lazyOk_lazyIOR2 _ _ (lazyRecv_toBitmapFast a ha) hb)

/-- on a container that satisfies the chunk invariant the function `repairAfterLazy` of `parallel.go` recounts and re-types -/
theorem repairContPar_bmp (k : Int) (ws : List (BitVec 64)) (h : ParOk (.bmp k ws)) :
    repairContPar (.bmp k ws) = repairWords ws := by
  obtain ⟨hl, hp, hk⟩ := h
  have hk' : (if k == invalidCard then (wordsCard ws : Int) else k) = (wordsCard ws : Int) := by
    rcases hk with hk | hk
    · rw [hk]; rfl
    · rw [hk]; split <;> rfl
  have e1 : ((wordsCard ws : Int) ≤ (arrayMax : Int)) ↔ wordsCard ws ≤ arrayMax := Int.ofNat_le
  have e2 : ((wordsCard ws : Int) == 65536) = (wordsCard ws == 65536) := by
    rw [Bool.eq_iff_iff]; simp only [beq_iff_eq]; omega
  simp only [repairContPar, repairWords, hk', e2]
  by_cases h1 : wordsCard ws ≤ arrayMax
  · rw [if_pos h1, if_pos (e1.mpr h1)]
  · rw [if_neg h1, if_neg (fun hc => h1 (e1.mp hc))]

theorem has_repairContPar (c : Cont) (h : ParOk c) (x : Nat) : (repairContPar c).has x = c.has x := by
  cases c with
  | arr vs => rfl
  | run rs => rfl
  | bmp k ws => rw [repairContPar_bmp k ws h, has_repairWords ws h.1]; rfl

theorem wf_repairContPar (c : Cont) (h : ParOk c) : (repairContPar c).wf = true := by
  cases c with
  | arr vs => exact h
  | run rs => exact h
  | bmp k ws => rw [repairContPar_bmp k ws h]; exact wf_repairWords ws h.1 h.2.1

/-! ### slot lists of one chunk -/

/-- the invariant of a chunk between the lazy steps -/
structure SlotsPar (l : List Slot) : Prop where
  sorted : l.Pairwise (fun s t => s.key < t.key)
  ok : ∀ s ∈ l, s.key < 65536 ∧ ParOk s.c

theorem slotsPar_of_wf {l : List Slot} (h : SlotsWf l) : SlotsPar l :=
  ⟨h.sorted, fun s hs => ⟨(h.ok s hs).1, parOk_of_wf (h.ok s hs).2⟩⟩

theorem SlotsPar.tail {s : Slot} {t : List Slot} (h : SlotsPar (s :: t)) : SlotsPar t :=
  ⟨(List.pairwise_cons.mp h.sorted).2, fun s' hs' => h.ok s' (by simp [hs'])⟩

theorem SlotsPar.head {s : Slot} {t : List Slot} (h : SlotsPar (s :: t)) : s.key < 65536 ∧ ParOk s.c :=
  h.ok s (by simp)

theorem SlotsPar.head_lt {s : Slot} {t : List Slot} (h : SlotsPar (s :: t)) : ∀ s' ∈ t, s.key < s'.key :=
  (List.pairwise_cons.mp h.sorted).1

theorem SlotsPar.gt_of_lt_head {k : Nat} {s : Slot} {t : List Slot} (h : SlotsPar (s :: t)) (hk : k < s.key) :
    ∀ s' ∈ s :: t, k < s'.key := by
  intro s' hs'
  rcases List.mem_cons.mp hs' with rfl | h'
  · exact hk
  · have := h.head_lt s' h'; omega

theorem SlotsPar.cons {s : Slot} {t : List Slot} (hs : s.key < 65536 ∧ ParOk s.c) (ht : SlotsPar t)
    (hlt : ∀ s' ∈ t, s.key < s'.key) : SlotsPar (s :: t) :=
  ⟨List.pairwise_cons.mpr ⟨hlt, ht.sorted⟩, fun s' hs' => by
    rcases List.mem_cons.mp hs' with rfl | h'
    · exact hs
    · exact ht.ok s' h'⟩

theorem SlotsPar.bounded {l : List Slot} (h : SlotsPar l) : ∀ s ∈ l, s.c.Bounded :=
  fun s hs => bounded_of_parOk (h.ok s hs).2

/-! #### the slots in range -/

def inKeyRange (start last : Nat) (s : Slot) : Bool := decide (start ≤ s.key) && decide (s.key ≤ last)

theorem takeWhile_eq_filter (start last : Nat) (l : List Slot) (hs : l.Pairwise (fun s t => s.key < t.key))
    (hge : ∀ s ∈ l, start ≤ s.key) :
    l.takeWhile (fun s => decide (s.key ≤ last)) = l.filter (inKeyRange start last) := by
  induction l with
  | nil => rfl
  | cons u v ih =>
    have hu := hge u (by simp)
    have hv := (List.pairwise_cons.mp hs)
    by_cases h : u.key ≤ last
    · rw [List.takeWhile_cons_of_pos (by simpa using h), List.filter_cons_of_pos (by simp [inKeyRange, hu, h]),
        ih hv.2 (fun s hs' => hge s (by simp [hs']))]
    · rw [List.takeWhile_cons_of_neg (by simpa using h), List.filter_cons_of_neg (by simp [inKeyRange, h])]
      symm
      rw [List.filter_eq_nil_iff]
      intro s hs'
      have := hv.1 s hs'
      simp [inKeyRange]; omega

/-- on a sorted slot list the slots `lazyOrOnRange` looks at are exactly those whose key lies in `[start, last]` -/
theorem rangeSlots_eq_filter (start last : Nat) (l : List Slot) (hs : l.Pairwise (fun s t => s.key < t.key)) :
    rangeSlots start last l = l.filter (inKeyRange start last) := by
  induction l with
  | nil => rfl
  | cons u v ih =>
    have hv := (List.pairwise_cons.mp hs)
    unfold rangeSlots at ih ⊢
    by_cases h : u.key < start
    · rw [List.dropWhile_cons_of_pos (by simpa using h), List.filter_cons_of_neg (by simp [inKeyRange]; omega)]
      exact ih hv.2
    · rw [List.dropWhile_cons_of_neg (by simpa using h)]
      exact takeWhile_eq_filter start last (u :: v) hs (fun s hs' => by
        rcases List.mem_cons.mp hs' with rfl | h'
        · omega
        · have := hv.1 s h'; omega)

theorem slotsHas_filter_range (start last : Nat) (l : List Slot) (x : Nat) :
    slotsHas (l.filter (inKeyRange start last)) x =
      (slotsHas l x && (decide (start ≤ x / 65536) && decide (x / 65536 ≤ last))) := by
  induction l with
  | nil => rfl
  | cons u v ih =>
    by_cases h : inKeyRange start last u = true
    · rw [List.filter_cons_of_pos h, slotsHas_cons, slotsHas_cons, ih]
      by_cases hk : u.key = x / 65536
      · simp only [inKeyRange, hk] at h
        simp only [hk, h, beq_self_eq_true, Bool.true_and, Bool.and_true]
      · simp only [beq_false_of_ne' hk, Bool.false_and, Bool.false_or]
    · rw [List.filter_cons_of_neg h, slotsHas_cons, ih]
      by_cases hk : u.key = x / 65536
      · have : (decide (start ≤ x / 65536) && decide (x / 65536 ≤ last)) = false := by
          simp only [inKeyRange, hk] at h; simpa using h
        simp only [this, Bool.and_false]
      · simp only [beq_false_of_ne' hk, Bool.false_and, Bool.false_or]

theorem wf_filter {l : List Slot} (h : SlotsWf l) (p : Slot → Bool) : SlotsWf (l.filter p) :=
  ⟨h.sorted.sublist List.filter_sublist, fun s hs => h.ok s (List.mem_filter.mp hs).1⟩

theorem wf_rangeSlots (start last : Nat) {l : List Slot} (h : SlotsWf l) : SlotsWf (rangeSlots start last l) := by
  rw [rangeSlots_eq_filter start last l h.sorted]; exact wf_filter h _

theorem keys_rangeSlots (start last : Nat) {l : List Slot} (h : SlotsWf l) :
    ∀ s ∈ rangeSlots start last l, start ≤ s.key ∧ s.key ≤ last := by
  rw [rangeSlots_eq_filter start last l h.sorted]
  intro s hs
  have := (List.mem_filter.mp hs).2
  simpa [inKeyRange] using this

theorem has_rangeSlots (start last : Nat) {l : List Slot} (h : SlotsWf l) (x : Nat) :
    slotsHas (rangeSlots start last l) x =
      (slotsHas l x && (decide (start ≤ x / 65536) && decide (x / 65536 ≤ last))) := by
  rw [rangeSlots_eq_filter start last l h.sorted]; exact slotsHas_filter_range start last l x

/-! #### `lazyOrOnRange` -/

theorem has_parLazyOrSlots (a b : List Slot) (ha : ∀ s ∈ a, s.c.wf = true) (hb : ∀ s ∈ b, s.c.wf = true) (x : Nat) :
    slotsHas (parLazyOrSlots a b) x = (slotsHas a x || slotsHas b x) := by
  fun_induction parLazyOrSlots a b with
  | case1 b => rw [map_copySlot, slotsHas_nil, Bool.false_or]
  | case2 a h => rw [map_copySlot, slotsHas_nil, Bool.or_false]
  | case3 sa ta sb tb hlt ih =>
    rw [copySlot_eq, slotsHas_cons, ih (fun s hs => ha s (by simp [hs])) hb, slotsHas_cons sa, Bool.or_assoc]
  | case4 sa ta sb tb hlt hlt2 ih =>
    rw [copySlot_eq, slotsHas_cons, ih ha (fun s hs => hb s (by simp [hs])), slotsHas_cons sb tb]
    cases (sb.key == x / 65536 && sb.c.has (x % 65536)) <;> cases slotsHas (sa :: ta) x <;> simp
  | case5 sa ta sb tb hlt hlt2 ih =>
    have hk : sb.key = sa.key := by omega
    rw [slotsHas_cons, ih (fun s hs => ha s (by simp [hs])) (fun s hs => hb s (by simp [hs])),
      slotsHas_cons sa, slotsHas_cons sb, hk]
    simp only [has_parOrStep _ _ (ha sa (by simp)) (hb sb (by simp))]
    cases (sa.key == x / 65536) <;> cases sa.c.has (x % 65536) <;> cases sb.c.has (x % 65536) <;>
      cases slotsHas ta x <;> cases slotsHas tb x <;> rfl

/-- every key of the merge comes from one of the two sides -/
theorem keys_parLazyOrSlots (P : Nat → Prop) (a b : List Slot) (ha : ∀ s ∈ a, P s.key) (hb : ∀ s ∈ b, P s.key) :
    ∀ s ∈ parLazyOrSlots a b, P s.key := by
  fun_induction parLazyOrSlots a b with
  | case1 b => rw [map_copySlot]; exact hb
  | case2 a h => rw [map_copySlot]; exact ha
  | case3 sa ta sb tb hlt ih =>
    intro s hs
    rcases List.mem_cons.mp hs with h | h'
    · rw [h]; exact ha sa (by simp)
    · exact ih (fun s hs => ha s (by simp [hs])) hb s h'
  | case4 sa ta sb tb hlt hlt2 ih =>
    intro s hs
    rcases List.mem_cons.mp hs with h | h'
    · rw [h]; exact hb sb (by simp)
    · exact ih ha (fun s hs => hb s (by simp [hs])) s h'
  | case5 sa ta sb tb hlt hlt2 ih =>
    intro s hs
    rcases List.mem_cons.mp hs with h | h'
    · rw [h]; exact ha sa (by simp)
    · exact ih (fun s hs => ha s (by simp [hs])) (fun s hs => hb s (by simp [hs])) s h'

theorem par_parLazyOrSlots (a b : List Slot) (ha : SlotsWf a) (hb : SlotsWf b) : SlotsPar (parLazyOrSlots a b) := by
  fun_induction parLazyOrSlots a b with
  | case1 b => rw [map_copySlot]; exact slotsPar_of_wf hb
  | case2 a h => rw [map_copySlot]; exact slotsPar_of_wf ha
  | case3 sa ta sb tb hlt ih =>
    exact SlotsPar.cons ⟨ha.head.1, parOk_of_wf ha.head.2⟩ (ih ha.tail hb)
      (keys_parLazyOrSlots (sa.key < ·) _ _ ha.head_lt (hb.gt_of_lt_head hlt))
  | case4 sa ta sb tb hlt hlt2 ih =>
    have hlt' : sb.key < sa.key := by omega
    exact SlotsPar.cons ⟨hb.head.1, parOk_of_wf hb.head.2⟩ (ih ha hb.tail)
      (keys_parLazyOrSlots (sb.key < ·) _ _ (ha.gt_of_lt_head hlt') hb.head_lt)
  | case5 sa ta sb tb hlt hlt2 ih =>
    have hk : sb.key = sa.key := by omega
    refine SlotsPar.cons ⟨ha.head.1, parOk_parOrStep _ _ ha.head.2 hb.head.2⟩ (ih ha.tail hb.tail)
      (keys_parLazyOrSlots (sa.key < ·) _ _ ha.head_lt (fun s hs => by have := hb.head_lt s hs; omega))

/-! #### `lazyIOrOnRange` -/

theorem has_parLazyIorSlots (a b : List Slot) (ha : ∀ s ∈ a, ParOk s.c) (hb : ∀ s ∈ b, s.c.wf = true) (x : Nat) :
    slotsHas (parLazyIorSlots a b) x = (slotsHas a x || slotsHas b x) := by
  fun_induction parLazyIorSlots a b with
  | case1 b => rw [map_copySlot, slotsHas_nil, Bool.false_or]
  | case2 a h => rw [slotsHas_nil, Bool.or_false]
  | case3 sa ta sb tb hlt ih =>
    rw [slotsHas_cons, ih (fun s hs => ha s (by simp [hs])) hb, slotsHas_cons sa, Bool.or_assoc]
  | case4 sa ta sb tb hlt hlt2 ih =>
    rw [slotsHas_cons, ih ha (fun s hs => hb s (by simp [hs])), slotsHas_cons sb tb]
    simp only
    cases (sb.key == x / 65536 && sb.c.has (x % 65536)) <;> cases slotsHas (sa :: ta) x <;> simp
  | case5 sa ta sb tb hlt hlt2 ih =>
    have hk : sb.key = sa.key := by omega
    rw [slotsHas_cons, ih (fun s hs => ha s (by simp [hs])) (fun s hs => hb s (by simp [hs])),
      slotsHas_cons sa, slotsHas_cons sb, hk]
    simp only [has_parIorStep _ _ (ha sa (by simp)) (hb sb (by simp))]
    cases (sa.key == x / 65536) <;> cases sa.c.has (x % 65536) <;> cases sb.c.has (x % 65536) <;>
      cases slotsHas ta x <;> cases slotsHas tb x <;> rfl

theorem keys_parLazyIorSlots (P : Nat → Prop) (a b : List Slot) (ha : ∀ s ∈ a, P s.key) (hb : ∀ s ∈ b, P s.key) :
    ∀ s ∈ parLazyIorSlots a b, P s.key := by
  fun_induction parLazyIorSlots a b with
  | case1 b => rw [map_copySlot]; exact hb
  | case2 a h => exact ha
  | case3 sa ta sb tb hlt ih =>
    intro s hs
    rcases List.mem_cons.mp hs with h | h'
    · rw [h]; exact ha sa (by simp)
    · exact ih (fun s hs => ha s (by simp [hs])) hb s h'
  | case4 sa ta sb tb hlt hlt2 ih =>
    intro s hs
    rcases List.mem_cons.mp hs with h | h'
    · rw [h]; exact hb sb (by simp)
    · exact ih ha (fun s hs => hb s (by simp [hs])) s h'
  | case5 sa ta sb tb hlt hlt2 ih =>
    intro s hs
    rcases List.mem_cons.mp hs with h | h'
    · rw [h]; exact ha sa (by simp)
    · exact ih (fun s hs => ha s (by simp [hs])) (fun s hs => hb s (by simp [hs])) s h'

theorem par_parLazyIorSlots (a b : List Slot) (ha : SlotsPar a) (hb : SlotsWf b) : SlotsPar (parLazyIorSlots a b) := by
  fun_induction parLazyIorSlots a b with
  | case1 b => rw [map_copySlot]; exact slotsPar_of_wf hb
  | case2 a h => exact ha
  | case3 sa ta sb tb hlt ih =>
    exact SlotsPar.cons ha.head (ih ha.tail hb)
      (keys_parLazyIorSlots (sa.key < ·) _ _ ha.head_lt (hb.gt_of_lt_head hlt))
  | case4 sa ta sb tb hlt hlt2 ih =>
    have hlt' : sb.key < sa.key := by omega
    exact SlotsPar.cons ⟨hb.head.1, parOk_of_wf hb.head.2⟩ (ih ha hb.tail)
      (keys_parLazyIorSlots (sb.key < ·) _ _ (ha.gt_of_lt_head hlt') hb.head_lt)
  | case5 sa ta sb tb hlt hlt2 ih =>
    have hk : sb.key = sa.key := by omega
    refine SlotsPar.cons ⟨ha.head.1, parOk_parIorStep _ _ ha.head.2 hb.head.2⟩ (ih ha.tail hb.tail)
      (keys_parLazyIorSlots (sa.key < ·) _ _ ha.head_lt (fun s hs => by have := hb.head_lt s hs; omega))

/-! #### the function `repairAfterLazy`, slot by slot -/

theorem has_repairSlotsPar (l : List Slot) (h : ∀ s ∈ l, ParOk s.c) (x : Nat) :
    slotsHas (l.map repairSlotPar) x = slotsHas l x := by
  induction l with
  | nil => rfl
  | cons s t ih =>
    rw [List.map_cons, slotsHas_cons, slotsHas_cons, ih (fun s' hs' => h s' (by simp [hs']))]
    simp only [repairSlotPar, has_repairContPar s.c (h s (by simp))]

theorem wf_repairSlotsPar (l : List Slot) (h : SlotsPar l) : SlotsWf (l.map repairSlotPar) := by
  refine ⟨?_, ?_⟩
  · exact List.Pairwise.map _ (fun s t hst => hst) h.sorted
  · intro s hs
    obtain ⟨s0, hs0, rfl⟩ := List.mem_map.mp hs
    exact ⟨(h.ok s0 hs0).1, wf_repairContPar s0.c (h.ok s0 hs0).2⟩

theorem keys_repairSlotsPar (P : Nat → Prop) (l : List Slot) (h : ∀ s ∈ l, P s.key) :
    ∀ s ∈ l.map repairSlotPar, P s.key := by
  intro s hs
  obtain ⟨s0, hs0, rfl⟩ := List.mem_map.mp hs
  exact h s0 hs0

/-! ### one chunk -/

theorem all_congr_mem {α : Type} {l : List α} {f g : α → Bool} (h : ∀ a ∈ l, f a = g a) : l.all f = l.all g := by
  induction l with
  | nil => rfl
  | cons a t ih =>
    rw [List.all_cons, List.all_cons, h a (by simp), ih (fun a' ha' => h a' (by simp [ha']))]

theorem any_and_const {α : Type} (l : List α) (f : α → Bool) (c : Bool) : l.any (fun a => f a && c) = (l.any f && c) := by
  induction l with
  | nil => simp
  | cons a t ih => rw [List.any_cons, List.any_cons, ih]; cases f a <;> cases c <;> simp

theorem foldl_chunk (start last : Nat) (t : List (List Slot)) (ht : ∀ c ∈ t, SlotsWf c) (acc : List Slot)
    (hacc : SlotsPar acc) (hk : ∀ s ∈ acc, start ≤ s.key ∧ s.key ≤ last) :
    SlotsPar (t.foldl (fun acc c => parLazyIorSlots acc (rangeSlots start last c)) acc) ∧
      (∀ s ∈ t.foldl (fun acc c => parLazyIorSlots acc (rangeSlots start last c)) acc, start ≤ s.key ∧ s.key ≤ last) ∧
      ∀ x, slotsHas (t.foldl (fun acc c => parLazyIorSlots acc (rangeSlots start last c)) acc) x =
        (slotsHas acc x || t.any (fun c => slotsHas (rangeSlots start last c) x)) := by
  induction t generalizing acc with
  | nil => exact ⟨hacc, hk, fun x => by simp⟩
  | cons c t ih =>
    have hc := ht c (by simp)
    have hr := wf_rangeSlots start last hc
    have h1 := par_parLazyIorSlots acc _ hacc hr
    have h2 := keys_parLazyIorSlots (fun k => start ≤ k ∧ k ≤ last) acc _ hk (keys_rangeSlots start last hc)
    obtain ⟨i1, i2, i3⟩ := ih (fun c' hc' => ht c' (by simp [hc'])) _ h1 h2
    refine ⟨i1, i2, fun x => ?_⟩
    rw [List.foldl_cons, i3 x, has_parLazyIorSlots acc _ (fun s hs => (hacc.ok s hs).2) (fun s hs => (hr.ok s hs).2),
      List.any_cons, Bool.or_assoc]

/-- what one worker computes for one chunk spec: a well-formed slot list with keys in `[start, last]` holding exactly the members
of the operands whose key is in that range -/
theorem orChunk_spec (start last : Nat) (a b : List Slot) (t : List (List Slot)) (ha : SlotsWf a) (hb : SlotsWf b)
    (ht : ∀ c ∈ t, SlotsWf c) :
    SlotsWf (orChunk a b t start last) ∧ (∀ s ∈ orChunk a b t start last, start ≤ s.key ∧ s.key ≤ last) ∧
      ∀ x, slotsHas (orChunk a b t start last) x =
        ((slotsHas a x || slotsHas b x || t.any (fun c => slotsHas c x)) &&
          (decide (start ≤ x / 65536) && decide (x / 65536 ≤ last))) := by
  have hra := wf_rangeSlots start last ha
  have hrb := wf_rangeSlots start last hb
  have h1 := par_parLazyOrSlots _ _ hra hrb
  have h2 := keys_parLazyOrSlots (fun k => start ≤ k ∧ k ≤ last) _ _ (keys_rangeSlots start last ha)
    (keys_rangeSlots start last hb)
  obtain ⟨i1, i2, i3⟩ := foldl_chunk start last t ht _ h1 h2
  unfold orChunk
  refine ⟨wf_repairSlotsPar _ i1, keys_repairSlotsPar (fun k => start ≤ k ∧ k ≤ last) _ i2, fun x => ?_⟩
  rw [has_repairSlotsPar _ (fun s hs => (i1.ok s hs).2), i3 x,
    has_parLazyOrSlots _ _ (fun s hs => (hra.ok s hs).2) (fun s hs => (hrb.ok s hs).2),
    has_rangeSlots start last ha, has_rangeSlots start last hb]
  have : t.any (fun c => slotsHas (rangeSlots start last c) x) =
      t.any (fun c => slotsHas c x && (decide (start ≤ x / 65536) && decide (x / 65536 ≤ last))) :=
    any_congr_mem (fun c hc => has_rangeSlots start last (ht c hc) x)
  rw [this, any_and_const]
  cases slotsHas a x <;> cases slotsHas b x <;> cases t.any (fun c => slotsHas c x) <;>
    cases (decide (start ≤ x / 65536) && decide (x / 65536 ≤ last)) <;> rfl

/-! ### `lKey`, `hKey` -/

theorem foldl_min_le (l : List Rep) (m : Nat) :
    l.foldl (fun m r => min m (firstKey r)) m ≤ m ∧ ∀ r ∈ l, l.foldl (fun m r => min m (firstKey r)) m ≤ firstKey r := by
  induction l generalizing m with
  | nil => exact ⟨Nat.le_refl _, fun _ h => by cases h⟩
  | cons a t ih =>
    obtain ⟨h1, h2⟩ := ih (min m (firstKey a))
    simp only [List.foldl_cons]
    refine ⟨by omega, fun r hr => ?_⟩
    rcases List.mem_cons.mp hr with rfl | h'
    · omega
    · exact h2 r h'

theorem foldl_max_ge (l : List Rep) (m : Nat) :
    m ≤ l.foldl (fun m r => max m (lastKey r)) m ∧ ∀ r ∈ l, lastKey r ≤ l.foldl (fun m r => max m (lastKey r)) m := by
  induction l generalizing m with
  | nil => exact ⟨Nat.le_refl _, fun _ h => by cases h⟩
  | cons a t ih =>
    obtain ⟨h1, h2⟩ := ih (max m (lastKey a))
    simp only [List.foldl_cons]
    refine ⟨by omega, fun r hr => ?_⟩
    rcases List.mem_cons.mp hr with rfl | h'
    · omega
    · exact h2 r h'

theorem foldl_max_le (l : List Rep) (m B : Nat) (hm : m ≤ B) (hl : ∀ r ∈ l, lastKey r ≤ B) :
    l.foldl (fun m r => max m (lastKey r)) m ≤ B := by
  induction l generalizing m with
  | nil => exact hm
  | cons a t ih =>
    simp only [List.foldl_cons]
    exact ih _ (by have := hl a (by simp); omega) (fun r hr => hl r (by simp [hr]))

theorem firstKey_le {r : Rep} (h : SlotsWf r.slots) : ∀ s ∈ r.slots, firstKey r ≤ s.key := by
  unfold firstKey
  cases hs : r.slots with
  | nil => intro s h'; cases h'
  | cons u v =>
    rw [hs] at h
    intro s h'
    simp only [List.head?_cons, Option.map_some, Option.getD_some]
    rcases List.mem_cons.mp h' with rfl | h''
    · exact Nat.le_refl _
    · exact Nat.le_of_lt (h.head_lt s h'')

theorem le_lastKey {r : Rep} (h : SlotsWf r.slots) : ∀ s ∈ r.slots, s.key ≤ lastKey r := by
  unfold lastKey
  intro s hs
  have hne : r.slots ≠ [] := by intro h0; rw [h0] at hs; cases hs
  obtain ⟨ys, hys⟩ := List.getLast?_eq_some_iff.mp (List.getLast?_eq_some_getLast hne)
  rw [List.getLast?_eq_some_getLast hne]
  simp only [Option.map_some, Option.getD_some]
  have hp := h.sorted
  rw [hys] at hp hs
  rcases List.mem_append.mp hs with h1 | h1
  · exact Nat.le_of_lt ((List.pairwise_append.mp hp).2.2 s h1 _ (by simp))
  · rw [List.mem_singleton.mp h1]; exact Nat.le_refl _

theorem lastKey_lt {r : Rep} (h : SlotsWf r.slots) : lastKey r ≤ 65535 := by
  unfold lastKey
  cases hl : r.slots.getLast? with
  | none => simp
  | some a =>
    have := (h.ok a (List.mem_of_getLast? hl)).1
    simp only [Option.map_some, Option.getD_some]; omega

/-- every key of every operand lies in `[lKey, hKey]`, and `hKey ≤ 65535` -/
theorem keys_between (l : List Rep) (hl : ∀ r ∈ l, SlotsWf r.slots) :
    highKey l ≤ 65535 ∧ ∀ r ∈ l, ∀ s ∈ r.slots, lowKey l ≤ s.key ∧ s.key ≤ highKey l := by
  refine ⟨foldl_max_le l 0 65535 (by omega) (fun r hr => lastKey_lt (hl r hr)), fun r hr s hs => ⟨?_, ?_⟩⟩
  · exact Nat.le_trans ((foldl_min_le l 65535).2 r hr) (firstKey_le (hl r hr) s hs)
  · exact Nat.le_trans (le_lastKey (hl r hr) s hs) ((foldl_max_ge l 0).2 r hr)

/-! ### assembling the chunks -/

theorem slotsHas_flatMap {α : Type} (l : List α) (f : α → List Slot) (x : Nat) :
    slotsHas (l.flatMap f) x = l.any (fun i => slotsHas (f i) x) := by
  simp only [slotsHas, List.any_flatMap]

theorem wf_flatMap_range (n : Nat) (f : Nat → List Slot) (hwf : ∀ i, i < n → SlotsWf (f i))
    (hord : ∀ i j, i < j → j < n → ∀ s ∈ f i, ∀ t ∈ f j, s.key < t.key) : SlotsWf ((List.range n).flatMap f) := by
  refine ⟨?_, ?_⟩
  · rw [List.pairwise_flatMap]
    refine ⟨fun i hi => (hwf i (List.mem_range.mp hi)).sorted, ?_⟩
    exact List.Pairwise.imp_of_mem (fun {i j} hi hj hij => hord i j hij (List.mem_range.mp hj)) List.pairwise_lt_range
  · intro s hs
    obtain ⟨i, hi, hsi⟩ := List.mem_flatMap.mp hs
    exact (hwf i (List.mem_range.mp hi)).ok s hsi

/-- **the assembled result of `ParOr`** (at least two non-empty operands): well-formed, and it holds exactly the members of the
operands — for every worker count `w ≥ 1` -/
theorem parOrSlots_spec (w : Nat) (hw : 1 ≤ w) (a b : Rep) (t : List Rep) (hl : ∀ r ∈ a :: b :: t, SlotsWf r.slots)
    (hne : a.slots ≠ []) :
    SlotsWf (parOrSlots w a b t) ∧
      ∀ x, slotsHas (parOrSlots w a b t) x = (a :: b :: t).any (fun r => slotsHas r.slots x) := by
  obtain ⟨hh, hkeys⟩ := keys_between (a :: b :: t) hl
  have hlh : lowKey (a :: b :: t) ≤ highKey (a :: b :: t) := by
    cases hs : a.slots with
    | nil => exact absurd hs hne
    | cons u v => have := hkeys a (by simp) u (by rw [hs]; simp); omega
  have ha := hl a (by simp)
  have hb := hl b (by simp)
  have ht : ∀ c ∈ t.map (·.slots), SlotsWf c := by
    intro c hc
    obtain ⟨r, hr, rfl⟩ := List.mem_map.mp hc
    exact hl r (by simp [hr])
  unfold parOrSlots
  simp only []
  generalize hlk : lowKey (a :: b :: t) = lKey at *
  generalize hhk : highKey (a :: b :: t) = hKey at *
  have hspec := fun i => orChunk_spec (chunkRange lKey hKey w i).1 (chunkRange lKey hKey w i).2 a.slots b.slots
    (t.map (·.slots)) ha hb ht
  refine ⟨?_, fun x => ?_⟩
  · refine wf_flatMap_range _ _ (fun i _ => (hspec i).1) ?_
    intro i j hij hj s hs u hu
    have h1 := ((hspec i).2.1 s hs).2
    have h2 := ((hspec j).2.1 u hu).1
    have := chunkRange_lt lKey hKey w i j hlh hh hw hij hj
    omega
  · rw [slotsHas_flatMap]
    have hU : (slotsHas a.slots x || slotsHas b.slots x || (t.map (·.slots)).any (fun c => slotsHas c x)) =
        (a :: b :: t).any (fun r => slotsHas r.slots x) := by
      simp only [List.any_cons, List.any_map, Bool.or_assoc]; rfl
    have : (List.range (parOrChunkCount lKey hKey w)).any (fun i =>
          slotsHas (orChunk a.slots b.slots (t.map (·.slots)) (chunkRange lKey hKey w i).1 (chunkRange lKey hKey w i).2) x) =
        (List.range (parOrChunkCount lKey hKey w)).any (fun i =>
          (decide ((chunkRange lKey hKey w i).1 ≤ x / 65536) && decide (x / 65536 ≤ (chunkRange lKey hKey w i).2)) &&
            (a :: b :: t).any (fun r => slotsHas r.slots x)) :=
      any_congr_mem (fun i _ => by rw [(hspec i).2.2 x, hU, Bool.and_comm])
    rw [this, any_and_const]
    cases hany : (a :: b :: t).any (fun r => slotsHas r.slots x) with
    | false => simp
    | true =>
      rw [Bool.and_true]
      obtain ⟨r, hr, hrx⟩ := List.any_eq_true.mp hany
      obtain ⟨s, hs, hsx⟩ := List.any_eq_true.mp (show r.slots.any _ = true from hrx)
      have hk : s.key = x / 65536 := by
        simp only [Bool.and_eq_true, beq_iff_eq] at hsx; exact hsx.1
      have hb' := hkeys r hr s hs
      rw [hk] at hb'
      obtain ⟨hlt, hiff⟩ := chunk_partition lKey hKey w (x / 65536) hlh hh hw hb'.1 hb'.2
      rw [List.any_eq_true]
      refine ⟨chunkOf lKey hKey w (x / 65536), List.mem_range.mpr hlt, ?_⟩
      have := (hiff _ hlt).mpr rfl
      simp only [Bool.and_eq_true, decide_eq_true_eq]
      exact this

theorem any_filter_nonempty (l : List Rep) (x : Nat) :
    (l.filter (fun r => !r.slots.isEmpty)).any (fun r => slotsHas r.slots x) = l.any (fun r => slotsHas r.slots x) := by
  induction l with
  | nil => rfl
  | cons a t ih =>
    by_cases h : a.slots.isEmpty = true
    · rw [List.filter_cons_of_neg (by simp [h]), List.any_cons, ih]
      have : a.slots = [] := List.isEmpty_iff.mp h
      rw [this, slotsHas_nil, Bool.false_or]
    · rw [List.filter_cons_of_pos (by simpa using h), List.any_cons, List.any_cons, ih]

theorem any_mem_eq_any_slots (l : List Rep) (hl : ∀ r ∈ l, r.wf = true) (x : Nat) :
    l.any (fun r => mem r.toBSet x) = l.any (fun r => slotsHas r.slots x) :=
  any_congr_mem (fun r hr => mem_rep_slots r ((slotsWf_iff r).mp (hl r hr)).bounded x)

end ParData

open ParData

/-- `ParOr` on well-formed operands, for every effective worker count `w ≥ 1`: a well-formed result holding exactly the members
of the operands -/
theorem Rep.parOr_spec (w : Nat) (hw : 1 ≤ w) (l : List Rep) (hl : ∀ r ∈ l, r.wf = true) :
    (Rep.parOr w l).wf = true ∧ ∀ x, mem (Rep.parOr w l).toBSet x = l.any (fun r => mem r.toBSet x) := by
  have hkey : ∀ x, l.any (fun r => mem r.toBSet x) =
      (l.filter (fun r => !r.slots.isEmpty)).any (fun r => slotsHas r.slots x) := by
    intro x; rw [any_mem_eq_any_slots l hl x, any_filter_nonempty]
  have hsub : ∀ r ∈ l.filter (fun r => !r.slots.isEmpty), r.wf = true ∧ r.slots ≠ [] := by
    intro r hr
    obtain ⟨h1, h2⟩ := List.mem_filter.mp hr
    refine ⟨hl r h1, ?_⟩
    intro h0; rw [h0] at h2; simp at h2
  unfold Rep.parOr
  generalize l.filter (fun r => !r.slots.isEmpty) = l' at hkey hsub
  match l', hkey, hsub with
  | [], hkey, _ => exact ⟨rfl, fun x => by rw [hkey x]; rfl⟩
  | [a], hkey, hsub =>
    have ha := (hsub a (by simp)).1
    refine ⟨by simp only []; rw [Rep.wf_clone]; exact ha, fun x => ?_⟩
    simp only []
    rw [Rep.toBSet_clone, hkey x, List.any_cons, List.any_nil, Bool.or_false]
    exact mem_rep_slots a ((slotsWf_iff a).mp ha).bounded x
  | a :: b :: t, hkey, hsub =>
    have hwf : ∀ r ∈ a :: b :: t, r.wf = true := fun r hr => (hsub r hr).1
    simp only []
    split
    · refine ⟨Rep.wf_fastOr _ hwf, fun x => ?_⟩
      have hs : ∀ s ∈ (a :: b :: t).map Rep.toBSet, SInc s := by
        intro s hs
        obtain ⟨r, _, rfl⟩ := List.mem_map.mp hs
        exact sinc_rep r
      rw [Rep.toBSet_fastOr _ hwf, mem_unionL_sinc _ hs, List.any_map, hkey x]
      exact any_mem_eq_any_slots _ hwf x
    · obtain ⟨h1, h2⟩ := parOrSlots_spec w hw a b t (fun r hr => (slotsWf_iff r).mp (hwf r hr)) (hsub a (by simp)).2
      refine ⟨(slotsWf_iff _).mpr h1, fun x => ?_⟩
      rw [mem_rep_slots _ h1.bounded, hkey x]
      exact h2 x

/-- **`ParOr` computes the union**, whatever the worker count: for well-formed inputs and every effective worker count `w ≥ 1` the
representation returned by the modelled `ParOr` (empty operands filtered out; `Clone` / `FastOr` shortcuts; the chunk grid built
from `w`; per chunk the lazy union on the key range with the temporaries of `getFastContainerAtIndex` and the function
`repairAfterLazy`; chunks concatenated in order) denotes `BSet.unionL` of the inputs' sets -/
theorem Rep.toBSet_parOr (w : Nat) (hw : 1 ≤ w) (l : List Rep) (hl : ∀ r ∈ l, r.wf = true) :
    (Rep.parOr w l).toBSet = BSet.unionL (l.map Rep.toBSet) := by
  have hs : ∀ s ∈ l.map Rep.toBSet, SInc s := by
    intro s hs
    obtain ⟨r, _, rfl⟩ := List.mem_map.mp hs
    exact sinc_rep r
  refine canon_ext_sinc _ _ (sinc_rep _) (sinc_unionL _ hs) (fun x => ?_)
  rw [(Rep.parOr_spec w hw l hl).2 x, mem_unionL_sinc _ hs, List.any_map]
  rfl

/-- **`ParOr` returns a well-formed bitmap** for every worker count: keys strictly increasing across the chunk boundaries, no
deferred cardinality and no mis-typed container survives the per-chunk repair -/
theorem Rep.wf_parOr (w : Nat) (hw : 1 ≤ w) (l : List Rep) (hl : ∀ r ∈ l, r.wf = true) : (Rep.parOr w l).wf = true :=
  (Rep.parOr_spec w hw l hl).1

/-- **the set computed by `ParOr` does not depend on the worker count** (nor, by the protocol theorems of `RProofs/Par.lean`, on
the schedule): any two worker counts give representations of the same set -/
theorem Rep.parOr_worker_independent (w w' : Nat) (hw : 1 ≤ w) (hw' : 1 ≤ w') (l : List Rep) (hl : ∀ r ∈ l, r.wf = true) :
    (Rep.parOr w l).toBSet = (Rep.parOr w' l).toBSet := by
  rw [Rep.toBSet_parOr w hw l hl, Rep.toBSet_parOr w' hw' l hl]

/-! ## `ParHeapOr` and `ParAnd` -/

namespace ParData

theorem sinc_inter (a b : BSet) (ha : SInc a) (hb : SInc b) : SInc (BSet.inter a b) :=
  sinc_combine _ a b false false ha hb

theorem sinc_foldl_inter (l : List BSet) (acc : BSet) (hacc : SInc acc) (hl : ∀ s ∈ l, SInc s) :
    SInc (l.foldl BSet.inter acc) := by
  induction l generalizing acc with
  | nil => simpa using hacc
  | cons a t ih =>
    simp only [List.foldl_cons]
    exact ih _ (sinc_inter _ _ hacc (hl a (by simp))) (fun s hs => hl s (by simp [hs]))

theorem mem_foldl_inter_sinc (l : List BSet) (acc : BSet) (hacc : SInc acc) (hl : ∀ s ∈ l, SInc s) (x : Nat) :
    mem (l.foldl BSet.inter acc) x = (mem acc x && l.all (mem · x)) := by
  induction l generalizing acc with
  | nil => simp
  | cons a t ih =>
    simp only [List.foldl_cons, List.all_cons]
    rw [ih _ (sinc_inter _ _ hacc (hl a (by simp))) (fun s hs => hl s (by simp [hs])),
      mem_inter _ _ hacc (hl a (by simp))]
    simp [Bool.and_assoc]

/-! ### the workers -/

theorem lazyRecv_of_parOk {c : Cont} (h : ParOk c) : c.LazyRecv := by
  cases c with
  | arr vs => exact Or.inl (lazyOk_of_wf h)
  | run rs => exact Or.inl (lazyOk_of_wf h)
  | bmp k ws => exact Or.inr ⟨k, ws, rfl, h.1, h.2.1⟩

theorem foldl_lazyIOR2_spec (rest : List Cont) (c : Cont) (hc : ParOk c) (hr : ∀ d ∈ rest, d.wf = true) :
    ParOk (rest.foldl Cont.lazyIOR2 c) ∧
      ∀ x, (rest.foldl Cont.lazyIOR2 c).has x = (c.has x || rest.any (·.has x)) := by
  induction rest generalizing c with
  | nil => exact ⟨hc, fun x => by simp⟩
  | cons d t ih =>
    have hd := hr d (by simp)
    have h1 : ParOk (c.lazyIOR2 d) := parOk_of_lazyOk (lazyOk_lazyIOR2 c d (lazyRecv_of_parOk hc) hd)
    obtain ⟨i1, i2⟩ := ih (c.lazyIOR2 d) h1 (fun d' hd' => hr d' (by simp [hd']))
    refine ⟨i1, fun x => ?_⟩
    rw [List.foldl_cons, i2 x, has_lazyIOR2 c d (lazyRecv_of_parOk hc) hd, List.any_cons, Bool.or_assoc]

/-- `orFunc` of `ParHeapOr` (and the `clone()` of a single container): a well-formed container holding the union — in whatever
order the heap delivered the containers -/
theorem reduceOr_spec (cs : List Cont) (hne : cs ≠ []) (hcs : ∀ c ∈ cs, c.wf = true) :
    (reduceOr cs).wf = true ∧ ∀ x, (reduceOr cs).has x = cs.any (·.has x) := by
  match cs, hne, hcs with
  | [], hne, _ => exact absurd rfl hne
  | [c], _, hcs => exact ⟨hcs c (by simp), fun x => by simp [reduceOr]⟩
  | c0 :: c1 :: rest, _, hcs =>
    have h0 := hcs c0 (by simp)
    have h1 := hcs c1 (by simp)
    obtain ⟨i1, i2⟩ := foldl_lazyIOR2_spec rest _ (parOk_parOrStep c0 c1 h0 h1) (fun d hd => hcs d (by simp [hd]))
    refine ⟨wf_repairContPar _ i1, fun x => ?_⟩
    simp only [reduceOr]
    rw [has_repairContPar _ i1, i2 x, has_parOrStep c0 c1 h0 h1, List.any_cons, List.any_cons, Bool.or_assoc]

theorem andLoop_spec (rest : List Cont) (c : Cont) (hc : c.EmptyOrWf) (hr : ∀ d ∈ rest, d.wf = true) :
    (andLoop c rest).EmptyOrWf ∧ ∀ x, (andLoop c rest).has x = (c.has x && rest.all (·.has x)) := by
  induction rest generalizing c with
  | nil => exact ⟨hc, fun x => by simp [andLoop]⟩
  | cons d t ih =>
    simp only [andLoop]
    rcases hc with ⟨he, hno⟩ | ⟨he, hw⟩
    · rw [if_pos he]
      exact ⟨Or.inl ⟨he, hno⟩, fun x => by rw [hno x, Bool.false_and]⟩
    · rw [if_neg (by rw [he]; simp)]
      have hd := hr d (by simp)
      obtain ⟨i1, i2⟩ := ih (c.aggIand2 d) (emptyOrWf_aggIand2 c d hw hd) (fun d' hd' => hr d' (by simp [hd']))
      refine ⟨i1, fun x => ?_⟩
      rw [i2 x, has_aggIand2 c d hw hd, List.all_cons, Bool.and_assoc]

/-- `andFunc` of `ParAnd`: `nil` exactly when the intersection is empty, else a well-formed container holding it -/
theorem reduceAnd_spec (cs : List Cont) (hlen : 2 ≤ cs.length) (hcs : ∀ c ∈ cs, c.wf = true) :
    match reduceAnd cs with
    | none => ∀ x, cs.all (·.has x) = false
    | some c => c.wf = true ∧ ∀ x, c.has x = cs.all (·.has x) := by
  match cs, hlen, hcs with
  | [], hlen, _ => simp at hlen
  | [_], hlen, _ => simp at hlen
  | c0 :: c1 :: rest, _, hcs =>
    have h0 := hcs c0 (by simp)
    have h1 := hcs c1 (by simp)
    obtain ⟨i1, i2⟩ := andLoop_spec rest (c0.and2 c1) (emptyOrWf_and2 c0 c1 h0 h1) (fun d hd => hcs d (by simp [hd]))
    have hall : ∀ x, (andLoop (c0.and2 c1) rest).has x = (c0 :: c1 :: rest).all (·.has x) := by
      intro x; rw [i2 x, has_and2 c0 c1 h0 h1, List.all_cons, List.all_cons, Bool.and_assoc]
    simp only [reduceAnd]
    rcases i1 with ⟨he, hno⟩ | ⟨he, hw⟩
    · rw [if_pos he]
      exact fun x => by rw [← hall x, hno x]
    · rw [if_neg (by rw [he]; simp)]
      exact ⟨hw, hall⟩

/-! ### the work items, seen from the operands -/

theorem keysSorted_of_wf {r : Rep} (h : r.wf = true) : KeysSorted r := ((slotsWf_iff r).mp h).sorted

theorem group_conts (l : List Rep) (g : Nat × List Cont) :
    (l.filterMap fun r => findCont g.1 r.slots) = (l.map (·.slots)).filterMap (findCont g.1) := by
  rw [List.filterMap_map]; rfl

theorem slotsWf_map (l : List Rep) (hl : ∀ r ∈ l, r.wf = true) : ∀ b ∈ l.map (·.slots), SlotsWf b := by
  intro b hb
  obtain ⟨r, hr, rfl⟩ := List.mem_map.mp hb
  exact (slotsWf_iff r).mp (hl r hr)

/-- the containers of a work item are well-formed and its key is a chunk key -/
theorem group_wf (l : List Rep) (hl : ∀ r ∈ l, r.wf = true) (g : Nat × List Cont) (hg : g ∈ workItems l) :
    g.2 ≠ [] ∧ (∀ c ∈ g.2, c.wf = true) ∧ g.1 < 65536 := by
  obtain ⟨hne, hp⟩ := workItems_perm l (fun r hr => keysSorted_of_wf (hl r hr)) g hg
  rw [group_conts] at hp
  refine ⟨hne, fun c hc => wf_of_mem_filterMap (slotsWf_map l hl) c (hp.mem_iff.mp hc), ?_⟩
  cases hg2 : g.2 with
  | nil => exact absurd hg2 hne
  | cons c t =>
    have hc : c ∈ (l.map (·.slots)).filterMap (findCont g.1) := hp.mem_iff.mp (by rw [hg2]; simp)
    obtain ⟨b, hb, hfc⟩ := List.mem_filterMap.mp hc
    unfold findCont at hfc
    cases hf : b.find? (·.key == g.1) with
    | none => rw [hf] at hfc; cases hfc
    | some s =>
      have hk : s.key = g.1 := by have := List.find?_some hf; simpa using this
      have := ((slotsWf_map l hl b hb).ok s (List.mem_of_find?_eq_some hf)).1
      omega

/-- a work item holds, for the values of its chunk, what the operands hold -/
theorem group_any (l : List Rep) (hl : ∀ r ∈ l, r.wf = true) (g : Nat × List Cont) (hg : g ∈ workItems l) (x : Nat)
    (hk : g.1 = x / 65536) : g.2.any (·.has (x % 65536)) = l.any (fun r => slotsHas r.slots x) := by
  obtain ⟨_, hp⟩ := workItems_perm l (fun r hr => keysSorted_of_wf (hl r hr)) g hg
  rw [group_conts, hk] at hp
  rw [hp.any_eq, any_findCont _ (slotsWf_map l hl) x, List.any_map]
  rfl

theorem all_findCont (bs : List (List Slot)) (hbs : ∀ b ∈ bs, SlotsWf b) (x : Nat)
    (hlen : (bs.filterMap (findCont (x / 65536))).length = bs.length) :
    (bs.filterMap (findCont (x / 65536))).all (·.has (x % 65536)) = bs.all (slotsHas · x) := by
  induction bs with
  | nil => rfl
  | cons b t ih =>
    have hb := hbs b (by simp)
    rw [List.all_cons, slotsHas_eq_findCont b hb x]
    rw [List.filterMap_cons] at hlen ⊢
    cases hf : findCont (x / 65536) b with
    | none =>
      rw [hf] at hlen
      have := List.length_filterMap_le (findCont (x / 65536)) t
      simp only [List.length_cons] at hlen
      omega
    | some c =>
      rw [hf] at hlen
      simp only [List.length_cons, Nat.add_right_cancel_iff] at hlen
      simp only [List.all_cons, ih (fun b' hb' => hbs b' (by simp [hb'])) hlen]

theorem all_false_of_length_ne (bs : List (List Slot)) (hbs : ∀ b ∈ bs, SlotsWf b) (x : Nat)
    (hlen : (bs.filterMap (findCont (x / 65536))).length ≠ bs.length) : bs.all (slotsHas · x) = false := by
  induction bs with
  | nil => simp at hlen
  | cons b t ih =>
    have hb := hbs b (by simp)
    rw [List.all_cons, slotsHas_eq_findCont b hb x]
    rw [List.filterMap_cons] at hlen
    cases hf : findCont (x / 65536) b with
    | none => simp
    | some c =>
      rw [hf] at hlen
      simp only [List.length_cons, ne_eq, Nat.add_right_cancel_iff] at hlen
      rw [ih (fun b' hb' => hbs b' (by simp [hb'])) hlen, Bool.and_false]

/-- a slot of an operand shows up as a work item -/
theorem exists_group (l : List Rep) (hl : ∀ r ∈ l, r.wf = true) (x : Nat) {r : Rep} (hr : r ∈ l)
    (hx : slotsHas r.slots x = true) : ∃ g ∈ workItems l, g.1 = x / 65536 := by
  obtain ⟨s, hs, hsx⟩ := List.any_eq_true.mp (show r.slots.any _ = true from hx)
  have hk : s.key = x / 65536 := by simp only [Bool.and_eq_true, beq_iff_eq] at hsx; exact hsx.1
  obtain ⟨g, hg, hgk⟩ := workItems_complete l (fun r hr => keysSorted_of_wf (hl r hr)) r hr s hs
  exact ⟨g, hg, hgk.trans hk⟩

theorem slotsHas_map {α : Type} (L : List α) (f : α → Slot) (x : Nat) :
    slotsHas (L.map f) x = L.any (fun g => (f g).key == x / 65536 && (f g).c.has (x % 65536)) := by
  simp only [slotsHas, List.any_map]; rfl

/-- **the result of `ParHeapOr`** (two or more operands) -/
theorem parHeapOrSlots_spec (l : List Rep) (hl : ∀ r ∈ l, r.wf = true) :
    SlotsWf ((workItems l).map fun g => ({ key := g.1, c := reduceOr g.2, flag := false } : Slot)) ∧
      ∀ x, slotsHas ((workItems l).map fun g => ({ key := g.1, c := reduceOr g.2, flag := false } : Slot)) x =
        l.any (fun r => slotsHas r.slots x) := by
  refine ⟨⟨?_, ?_⟩, fun x => ?_⟩
  · exact List.Pairwise.map _ (fun a b hab => hab) (workItems_sorted l (fun r hr => keysSorted_of_wf (hl r hr)))
  · intro s hs
    obtain ⟨g, hg, rfl⟩ := List.mem_map.mp hs
    obtain ⟨hne, hw, hk⟩ := group_wf l hl g hg
    exact ⟨hk, (reduceOr_spec g.2 hne hw).1⟩
  · have : (workItems l).any (fun g => (g.1 == x / 65536 && (reduceOr g.2).has (x % 65536))) =
        (workItems l).any (fun g => (g.1 == x / 65536) && l.any (fun r => slotsHas r.slots x)) := by
      refine any_congr_mem (fun g hg => ?_)
      by_cases hk : g.1 = x / 65536
      · obtain ⟨hne, hw, _⟩ := group_wf l hl g hg
        rw [(reduceOr_spec g.2 hne hw).2, group_any l hl g hg x hk]
      · simp only [beq_false_of_ne' hk, Bool.false_and]
    rw [slotsHas_map]
    simp only []
    rw [this, any_and_const]
    cases hany : l.any (fun r => slotsHas r.slots x) with
    | false => simp
    | true =>
      rw [Bool.and_true]
      obtain ⟨r, hr, hrx⟩ := List.any_eq_true.mp hany
      obtain ⟨g, hg, hgk⟩ := exists_group l hl x hr hrx
      exact List.any_eq_true.mpr ⟨g, hg, by simp [hgk]⟩

/-- the slots `ParAnd` assembles -/
def parAndSlots (l : List Rep) : List Slot :=
  (workItems l).filterMap fun g =>
    if g.2.length == l.length then (reduceAnd g.2).map fun c => ({ key := g.1, c := c, flag := false } : Slot) else none

theorem mem_parAndSlots {l : List Rep} {s : Slot} (h : s ∈ parAndSlots l) :
    ∃ g ∈ workItems l, g.2.length = l.length ∧ reduceAnd g.2 = some s.c ∧ s.key = g.1 := by
  obtain ⟨g, hg, hfg⟩ := List.mem_filterMap.mp h
  refine ⟨g, hg, ?_⟩
  by_cases hlen : (g.2.length == l.length) = true
  · rw [if_pos hlen] at hfg
    cases hr : reduceAnd g.2 with
    | none => rw [hr] at hfg; cases hfg
    | some c =>
      rw [hr] at hfg
      simp only [Option.map_some, Option.some.injEq] at hfg
      subst hfg
      exact ⟨by simpa using hlen, rfl, rfl⟩
  · rw [if_neg hlen] at hfg; cases hfg

/-- **the result of `ParAnd`** (two or more operands) -/
theorem parAndSlots_spec (l : List Rep) (hl : ∀ r ∈ l, r.wf = true) (h2 : 2 ≤ l.length) :
    SlotsWf (parAndSlots l) ∧ ∀ x, slotsHas (parAndSlots l) x = l.all (fun r => slotsHas r.slots x) := by
  have hks := fun r hr => keysSorted_of_wf (hl r hr)
  have hbs := slotsWf_map l hl
  refine ⟨⟨?_, ?_⟩, fun x => ?_⟩
  · refine List.Pairwise.filterMap _ ?_ (workItems_sorted l hks)
    intro g g' hgg s hs s' hs'
    by_cases h1 : (g.2.length == l.length) = true
    · by_cases h1' : (g'.2.length == l.length) = true
      · rw [if_pos h1] at hs
        rw [if_pos h1'] at hs'
        cases hr : reduceAnd g.2 with
        | none => rw [hr] at hs; cases hs
        | some c =>
          cases hr' : reduceAnd g'.2 with
          | none => rw [hr'] at hs'; cases hs'
          | some c' =>
            rw [hr] at hs; rw [hr'] at hs'
            simp only [Option.map_some, Option.some.injEq] at hs hs'
            subst hs; subst hs'
            exact hgg
      · rw [if_neg h1'] at hs'; cases hs'
    · rw [if_neg h1] at hs; cases hs
  · intro s hs
    obtain ⟨g, hg, hlen, hred, hk⟩ := mem_parAndSlots hs
    obtain ⟨hne, hw, hkk⟩ := group_wf l hl g hg
    have := reduceAnd_spec g.2 (by omega) hw
    rw [hred] at this
    exact ⟨by omega, this.1⟩
  · rw [Bool.eq_iff_iff]
    constructor
    · intro hx
      obtain ⟨s, hs, hsx⟩ := List.any_eq_true.mp (show (parAndSlots l).any _ = true from hx)
      simp only [Bool.and_eq_true, beq_iff_eq] at hsx
      obtain ⟨g, hg, hlen, hred, hk⟩ := mem_parAndSlots hs
      obtain ⟨hne, hw, _⟩ := group_wf l hl g hg
      obtain ⟨_, hp⟩ := workItems_perm l hks g hg
      have hgk : g.1 = x / 65536 := by omega
      rw [group_conts, hgk] at hp
      have hsp := reduceAnd_spec g.2 (by omega) hw
      rw [hred] at hsp
      have hall : g.2.all (·.has (x % 65536)) = true := by rw [← hsp.2]; exact hsx.2
      rw [hp.all_eq, all_findCont _ hbs x (by rw [← hp.length_eq, hlen, List.length_map]), List.all_map] at hall
      exact hall
    · intro hV
      have hV' : (l.map (·.slots)).all (slotsHas · x) = true := by rw [List.all_map]; exact hV
      obtain ⟨r, hr⟩ : ∃ r, r ∈ l := by
        cases l with
        | nil => simp at h2
        | cons a t => exact ⟨a, by simp⟩
      have hrx : slotsHas r.slots x = true := by
        have := List.all_eq_true.mp hV r hr; exact this
      obtain ⟨g, hg, hgk⟩ := exists_group l hl x hr hrx
      obtain ⟨hne, hw, _⟩ := group_wf l hl g hg
      obtain ⟨_, hp⟩ := workItems_perm l hks g hg
      rw [group_conts, hgk] at hp
      have hlenF : ((l.map (·.slots)).filterMap (findCont (x / 65536))).length = (l.map (·.slots)).length := by
        by_cases h : ((l.map (·.slots)).filterMap (findCont (x / 65536))).length = (l.map (·.slots)).length
        · exact h
        · rw [all_false_of_length_ne _ hbs x h] at hV'; cases hV'
      have hlen : g.2.length = l.length := by rw [hp.length_eq, hlenF, List.length_map]
      have hall : g.2.all (·.has (x % 65536)) = true := by rw [hp.all_eq, all_findCont _ hbs x hlenF]; exact hV'
      have hsp := reduceAnd_spec g.2 (by omega) hw
      cases hred : reduceAnd g.2 with
      | none => rw [hred] at hsp; rw [hsp (x % 65536)] at hall; cases hall
      | some c =>
        rw [hred] at hsp
        have hmem : ({ key := g.1, c := c, flag := false } : Slot) ∈ parAndSlots l := by
          refine List.mem_filterMap.mpr ⟨g, hg, ?_⟩
          rw [if_pos (by simpa using hlen), hred]; rfl
        refine List.any_eq_true.mpr ⟨_, hmem, ?_⟩
        simp only [Bool.and_eq_true, beq_iff_eq]
        exact ⟨hgk, by rw [hsp.2]; exact hall⟩

end ParData

open ParData

/-- `ParHeapOr` on well-formed operands: a well-formed result holding exactly the members of the operands -/
theorem Rep.parHeapOr_spec (w : Nat) (l : List Rep) (hl : ∀ r ∈ l, r.wf = true) :
    (Rep.parHeapOr w l).wf = true ∧ ∀ x, mem (Rep.parHeapOr w l).toBSet x = l.any (fun r => mem r.toBSet x) := by
  match l, hl with
  | [], _ => exact ⟨rfl, fun x => rfl⟩
  | [a], hl =>
    have ha := hl a (by simp)
    refine ⟨by simp only [Rep.parHeapOr]; rw [Rep.wf_clone]; exact ha, fun x => ?_⟩
    simp only [Rep.parHeapOr, Rep.toBSet_clone, List.any_cons, List.any_nil, Bool.or_false]
  | a :: b :: t, hl =>
    obtain ⟨h1, h2⟩ := parHeapOrSlots_spec (a :: b :: t) hl
    refine ⟨(slotsWf_iff _).mpr h1, fun x => ?_⟩
    simp only [Rep.parHeapOr]
    rw [mem_rep_slots _ h1.bounded, any_mem_eq_any_slots _ hl x]
    exact h2 x

/-- **`ParHeapOr` computes the union** for well-formed inputs — whatever order the container heap hands the containers of a key
out in, and whatever the worker count -/
theorem Rep.toBSet_parHeapOr (w : Nat) (l : List Rep) (hl : ∀ r ∈ l, r.wf = true) :
    (Rep.parHeapOr w l).toBSet = BSet.unionL (l.map Rep.toBSet) := by
  have hs : ∀ s ∈ l.map Rep.toBSet, SInc s := by
    intro s hs
    obtain ⟨r, _, rfl⟩ := List.mem_map.mp hs
    exact sinc_rep r
  refine canon_ext_sinc _ _ (sinc_rep _) (sinc_unionL _ hs) (fun x => ?_)
  rw [(Rep.parHeapOr_spec w l hl).2 x, mem_unionL_sinc _ hs, List.any_map]
  rfl

/-- **`ParHeapOr` returns a well-formed bitmap** -/
theorem Rep.wf_parHeapOr (w : Nat) (l : List Rep) (hl : ∀ r ∈ l, r.wf = true) : (Rep.parHeapOr w l).wf = true :=
  (Rep.parHeapOr_spec w l hl).1

/-- the worker count does not even enter the DATA of `ParHeapOr`: the representation itself is the same -/
theorem Rep.parHeapOr_worker_independent (w w' : Nat) (l : List Rep) : Rep.parHeapOr w l = Rep.parHeapOr w' l := by
  match l with
  | [] => rfl
  | [_] => rfl
  | _ :: _ :: _ => rfl

/-- `ParAnd` on well-formed operands -/
theorem Rep.parAnd_spec (w : Nat) (l : List Rep) (hl : ∀ r ∈ l, r.wf = true) :
    (Rep.parAnd w l).wf = true ∧
      ∀ x, mem (Rep.parAnd w l).toBSet x = (!l.isEmpty && l.all (fun r => mem r.toBSet x)) := by
  match l, hl with
  | [], _ => exact ⟨rfl, fun x => rfl⟩
  | [a], hl =>
    have ha := hl a (by simp)
    refine ⟨by simp only [Rep.parAnd]; rw [Rep.wf_clone]; exact ha, fun x => ?_⟩
    simp only [Rep.parAnd, Rep.toBSet_clone, List.all_cons, List.all_nil, Bool.and_true, List.isEmpty_cons, Bool.not_false,
      Bool.true_and]
  | a :: b :: t, hl =>
    obtain ⟨h1, h2⟩ := parAndSlots_spec (a :: b :: t) hl (by simp)
    refine ⟨(slotsWf_iff _).mpr h1, fun x => ?_⟩
    simp only [Rep.parAnd]
    rw [mem_rep_slots _ h1.bounded]
    show slotsHas (parAndSlots (a :: b :: t)) x = _
    rw [h2 x]
    simp only [List.isEmpty_cons, Bool.not_false, Bool.true_and]
    symm
    refine all_congr_mem (fun r hr => mem_rep_slots r ((slotsWf_iff r).mp (hl r hr)).bounded x)

/-- **`ParAnd` computes the intersection** for well-formed inputs (`BSet.interL`: the empty list gives the empty bitmap, which is
what `ParAnd(w)` returns) — whatever order the container heap hands the containers of a key out in, and whatever the worker count -/
theorem Rep.toBSet_parAnd (w : Nat) (l : List Rep) (hl : ∀ r ∈ l, r.wf = true) :
    (Rep.parAnd w l).toBSet = BSet.interL (l.map Rep.toBSet) := by
  match l, hl with
  | [], _ => rfl
  | a :: t, hl =>
    have hs : ∀ s ∈ t.map Rep.toBSet, SInc s := by
      intro s hs
      obtain ⟨r, _, rfl⟩ := List.mem_map.mp hs
      exact sinc_rep r
    refine canon_ext_sinc _ _ (sinc_rep _) ?_ (fun x => ?_)
    · exact sinc_foldl_inter _ _ (sinc_rep a) hs
    · rw [(Rep.parAnd_spec w (a :: t) hl).2 x]
      simp only [BSet.interL, List.map_cons]
      rw [mem_foldl_inter_sinc _ _ (sinc_rep a) hs, List.all_map]
      simp only [List.isEmpty_cons, Bool.not_false, Bool.true_and, List.all_cons]
      rfl

/-- **`ParAnd` returns a well-formed bitmap** -/
theorem Rep.wf_parAnd (w : Nat) (l : List Rep) (hl : ∀ r ∈ l, r.wf = true) : (Rep.parAnd w l).wf = true :=
  (Rep.parAnd_spec w l hl).1

/-- the worker count does not enter the DATA of `ParAnd` -/
theorem Rep.parAnd_worker_independent (w w' : Nat) (l : List Rep) : Rep.parAnd w l = Rep.parAnd w' l := by
  match l with
  | [] => rfl
  | [_] => rfl
  | _ :: _ :: _ => rfl

end RModel.Impl
