import RProofs.Iter
import RProofs.IterRev
import RProofs.Iter2R64
import RProofs.Iter2Unset
import RModel.Impl.Iter2
/-!
Iteration protocols, part 8: `Bitmap.Iterate(cb)` (model: `iterateRep` in `RModel/Impl/Iter2.lean`).

The specification of a callback enumeration with early termination is the early-terminating fold `foldUntil` over the
sorted member list:

* `CIt.iterate_spec`   : the per-container loop `for it.hasNext() { if !cb(it.next()) { return false } }` is `foldUntil` over
                         the remaining values of the container iterator;
* `iterateCont_spec`   : `arrayContainer/bitmapContainer/runContainer16.iterate(cb)` = `foldUntil cb (valsOfCont c)`;
* `iterateRep_spec`    : `Iterate(cb)` = `foldUntil cb (BSet.toList r.toBSet)` for ANY state-transforming callback: the
                         callback is handed the members in increasing order, each once, until it answers `false`;
* `iterateSeen_spec`   : with the recording callback that answers `false` on its `k`-th call the values seen are the first
                         `max k 1` members (`take`), all of them for `k = none`;
* `valuesRep_spec`, `backwardRep_spec` : the range-over-func forms `Values(b)` / `Backward(b)` are `foldUntil` over the member
                         list / the reversed member list (`valuesSeen_spec`, `backwardSeen_spec` for the recording callback);
* `unsetRep_spec`      : `Unset(b, min, max)` is `foldUntil` over the values of `[min, max]` that are not in the bitmap.
-/
namespace RModel.Impl.It
open RModel RModel.Impl RModel.Impl.ContOps RModel.Impl.ContQuery

/-- hand the values of a list to a state-transforming callback until it answers `false`:
(did it run to the end?, final state) -/
def foldUntil {σ : Type} (cb : σ → Nat → Bool × σ) : List Nat → σ → Bool × σ
  | [], s => (true, s)
  | v :: vs, s => if (cb s v).1 then foldUntil cb vs (cb s v).2 else (false, (cb s v).2)

theorem foldUntil_append {σ : Type} (cb : σ → Nat → Bool × σ) : ∀ (l1 l2 : List Nat) (s : σ),
    foldUntil cb (l1 ++ l2) s =
      if (foldUntil cb l1 s).1 then foldUntil cb l2 (foldUntil cb l1 s).2 else (false, (foldUntil cb l1 s).2)
  | [], l2, s => by simp [foldUntil]
  | v :: t, l2, s => by
    simp only [List.cons_append, foldUntil]
    by_cases h : (cb s v).1 = true
    · simp only [h, if_true]; exact foldUntil_append cb t l2 _
    · simp [h]

theorem foldUntil_map {σ : Type} (cb : σ → Nat → Bool × σ) (f : Nat → Nat) : ∀ (l : List Nat) (s : σ),
    foldUntil cb (l.map f) s = foldUntil (fun s x => cb s (f x)) l s
  | [], s => rfl
  | v :: t, s => by
    simp only [List.map_cons, foldUntil]
    by_cases h : (cb s (f v)).1 = true
    · simp only [h, if_true]; exact foldUntil_map cb f t _
    · simp [h]

theorem foldUntil_congr {σ : Type} {cb cb' : σ → Nat → Bool × σ} : ∀ (l : List Nat) (s : σ),
    (∀ s, ∀ x ∈ l, cb s x = cb' s x) → foldUntil cb l s = foldUntil cb' l s
  | [], _, _ => rfl
  | v :: t, s, h => by
    simp only [foldUntil]
    rw [h s v (by simp)]
    by_cases hc : (cb' s v).1 = true
    · simp only [hc, if_true]
      exact foldUntil_congr t _ (fun s x hx => h s x (by simp [hx]))
    · simp [hc]

/-- a strictly increasing list of naturals in `[a, n)` has at most `n - a` elements -/
theorem sorted_length_le : ∀ (l : List Nat) (a n : Nat), l.Pairwise (· < ·) → (∀ x ∈ l, a ≤ x ∧ x < n) → l.length ≤ n - a
  | [], _, _, _, _ => by simp
  | v :: t, a, n, hs, hb => by
    have hv := hb v (by simp)
    have ht := sorted_length_le t (v + 1) n (List.Pairwise.of_cons hs) (fun x hx => by
      have h1 := List.rel_of_pairwise_cons hs hx
      have h2 := hb x (by simp [hx])
      omega)
    simp only [List.length_cons]
    omega

namespace CIt

/-- the loop of the three `iterate` methods on a container iterator -/
theorem iterate_spec {σ : Type} (cb : σ → Nat → Bool × σ) : ∀ (fuel : Nat) (it : CIt) (s : σ), it.Inv →
    it.rem.length ≤ fuel → CIt.iterate cb fuel it s = foldUntil cb it.rem s
  | 0, it, s, _, hf => by
    have : it.rem = [] := List.length_eq_zero_iff.mp (by omega)
    rw [this]; rfl
  | fuel + 1, it, s, hi, hf => by
    unfold CIt.iterate
    cases hr : it.rem with
    | nil =>
      have : it.hasNext = false := by
        cases hh : it.hasNext
        · rfl
        · exact absurd hr ((hasNext_iff hi).mp hh)
      simp [this, foldUntil]
    | cons v t =>
      have hh : it.hasNext = true := (hasNext_iff hi).mpr (by rw [hr]; simp)
      obtain ⟨h1, h2, h3⟩ := next_spec hi hr
      rw [if_pos hh]
      simp only [foldUntil]
      rw [h1]
      by_cases hc : (cb s v).1 = true
      · simp only [hc, if_true]
        rw [iterate_spec cb fuel it.next.2 _ h2 (by rw [h3]; rw [hr] at hf; simpa using hf), h3]
      · simp [hc]

end CIt

/-- `c.iterate(cb)` for a well-formed container of any of the three kinds -/
theorem iterateCont_spec {σ : Type} {c : Cont} (h : c.wf = true) (cb : σ → Nat → Bool × σ) (s : σ) :
    iterateCont c cb s = foldUntil cb (valsOfCont c) s := by
  obtain ⟨c1, c2⟩ := CIt.ofCont_spec h
  unfold iterateCont
  rw [CIt.iterate_spec cb 65536 _ s c1, c2]
  rw [c2]
  have := sorted_length_le (valsOfCont c) 0 65536 (sorted_valsOfCont h)
    (fun x hx => ⟨Nat.zero_le _, valsOfCont_lt h hx⟩)
  omega

theorem iterateSlots_spec {σ : Type} (cb : σ → Nat → Bool × σ) : ∀ (l : List Slot), SlotsWf l → ∀ (s : σ),
    iterateSlots cb l s = (foldUntil cb (l.flatMap slotVals) s).2
  | [], _, s => rfl
  | sl :: t, hw, s => by
    have hm := hw.ok sl (by simp)
    have ht : SlotsWf t := ⟨List.Pairwise.of_cons hw.sorted, fun s hs => hw.ok s (by simp [hs])⟩
    simp only [iterateSlots, List.flatMap_cons]
    rw [iterateCont_spec hm.2, foldUntil_append]
    have hmap : foldUntil cb (slotVals sl) s =
        foldUntil (fun s x => cb s (x ||| sl.key <<< 16)) (valsOfCont sl.c) s := by
      unfold slotVals
      rw [foldUntil_map]
      apply foldUntil_congr
      intro s' x hx
      have hx' := valsOfCont_lt hm.2 hx
      rw [shl16, or_hs_eq_add hx' (by omega)]
    rw [hmap]
    by_cases hc : (foldUntil (fun s x => cb s (x ||| sl.key <<< 16)) (valsOfCont sl.c) s).1 = true
    · simp only [hc, if_true]
      exact iterateSlots_spec cb t ht _
    · simp [hc]

/-- **`Iterate(cb)`**: whatever the callback does with its state, it is handed the members of the denoted set in
increasing order, each once, until it answers `false` (the member it refuses is the last one it sees) -/
theorem iterateRep_spec {σ : Type} (r : Rep) (h : r.wf = true) (cb : σ → Nat → Bool × σ) (s : σ) :
    iterateRep r cb s = (foldUntil cb (BSet.toList r.toBSet) s).2 := by
  unfold iterateRep
  rw [iterateSlots_spec cb r.slots ((slotsWf_iff r).mp h), ← valsOfRep_eq_toList r h, valsOfRep_eq]

/-! ### the recording callback -/

/-- the recording callback that never stops sees everything -/
theorem foldUntil_seen_none : ∀ (l : List Nat) (n : Nat) (acc : List Nat),
    foldUntil (seenCb none) l (n, acc) = (true, (n + l.length, l.reverse ++ acc))
  | [], n, acc => by simp [foldUntil]
  | v :: t, n, acc => by
    simp only [foldUntil, seenCb, ↓reduceIte]
    rw [foldUntil_seen_none t (n + 1) (v :: acc)]
    simp only [List.length_cons, List.reverse_cons, List.append_assoc, List.singleton_append]
    congr 2
    omega

/-- the recording callback that answers `false` on call number `k` (counting from `n` calls already made) sees the next
`k - n` values (at least one, if there is one) -/
theorem foldUntil_seen_some (k : Nat) : ∀ (l : List Nat) (n : Nat) (acc : List Nat),
    (foldUntil (seenCb (some k)) l (n, acc)).2.2 = (l.take (max (k - n) 1)).reverse ++ acc
  | [], n, acc => by simp [foldUntil]
  | v :: t, n, acc => by
    simp only [foldUntil, seenCb]
    by_cases hc : n + 1 < k
    · simp only [hc, decide_true, ↓reduceIte]
      rw [foldUntil_seen_some k t (n + 1) (v :: acc)]
      have e : max (k - n) 1 = max (k - (n + 1)) 1 + 1 := by omega
      rw [e, List.take_succ_cons]
      simp
    · simp only [hc, decide_false, Bool.false_eq_true, ↓reduceIte]
      have e : max (k - n) 1 = 0 + 1 := by omega
      rw [e, List.take_succ_cons]
      simp

/-- **`Iterate` with a callback that stops on its `k`-th call**: the values seen are exactly the first `max k 1` members in
increasing order (all members when there are fewer, or when the callback never stops) -/
theorem iterateSeen_spec (r : Rep) (h : r.wf = true) (k : Option Nat) :
    iterateSeen r k =
      match k with
      | none => BSet.toList r.toBSet
      | some k => (BSet.toList r.toBSet).take (max k 1) := by
  unfold iterateSeen
  rw [iterateRep_spec r h]
  cases k with
  | none => simp [foldUntil_seen_none]
  | some k =>
    rw [foldUntil_seen_some k _ 0 []]
    simp

/-! ### `Values(b)` and `Backward(b)` -/

theorem IntIt.forEach_spec {σ : Type} (cb : σ → Nat → Bool × σ) : ∀ (fuel : Nat) (ii : IntIt) (s : σ), ii.Inv →
    ii.rem.length ≤ fuel → IntIt.forEach cb fuel ii s = (foldUntil cb ii.rem s).2
  | 0, ii, s, _, hf => by
    have : ii.rem = [] := List.length_eq_zero_iff.mp (by omega)
    rw [this]; rfl
  | fuel + 1, ii, s, hi, hf => by
    unfold IntIt.forEach
    cases hr : ii.rem with
    | nil =>
      have : ii.hasNext = false := by
        cases hh : ii.hasNext
        · rfl
        · exact absurd hr ((IntIt.hasNext_iff hi).mp hh)
      simp [this, foldUntil]
    | cons v t =>
      have hh : ii.hasNext = true := (IntIt.hasNext_iff hi).mpr (by rw [hr]; simp)
      obtain ⟨h1, h2, h3, -⟩ := IntIt.next_spec hi hr
      rw [if_pos hh]
      simp only [foldUntil]
      rw [h1]
      by_cases hc : (cb s v).1 = true
      · simp only [hc, if_true]
        rw [IntIt.forEach_spec cb fuel ii.next.2 _ h2 (by rw [h3]; rw [hr] at hf; simpa using hf), h3]
      · simp [hc]

theorem valsOfRep_length_le {r : Rep} (h : r.wf = true) : (valsOfRep r).length ≤ 4294967296 := by
  have := sorted_length_le (valsOfRep r) 0 4294967296 (sorted_valsOfRep h)
    (fun x hx => ⟨Nat.zero_le _, valsOfRep_lt h hx⟩)
  omega

/-- **`Values(b)`**: the yield function is handed the members in increasing order until it answers `false` -/
theorem valuesRep_spec {σ : Type} (r : Rep) (h : r.wf = true) (cb : σ → Nat → Bool × σ) (s : σ) :
    valuesRep r cb s = (foldUntil cb (BSet.toList r.toBSet) s).2 := by
  obtain ⟨c1, c2⟩ := IntIt.create_spec r h
  unfold valuesRep
  rw [IntIt.forEach_spec cb _ _ s c1 (by rw [c2]; exact valsOfRep_length_le h), c2, valsOfRep_eq_toList r h]

theorem IntRevIt.forEach_spec {σ : Type} (cb : σ → Nat → Bool × σ) : ∀ (fuel : Nat) (ii : IntRevIt) (s : σ), ii.Inv →
    ii.rem.length ≤ fuel → IntRevIt.forEach cb fuel ii s = (foldUntil cb ii.rem.reverse s).2
  | 0, ii, s, _, hf => by
    have : ii.rem = [] := List.length_eq_zero_iff.mp (by omega)
    rw [this]; rfl
  | fuel + 1, ii, s, hi, hf => by
    unfold IntRevIt.forEach
    rcases eq_nil_or_snoc ii.rem with hr | ⟨t, v, hr⟩
    · have : ii.hasNext = false := by
        cases hh : ii.hasNext
        · rfl
        · exact absurd hr ((IntRevIt.hasNext_iff hi).mp hh)
      simp [this, hr, foldUntil]
    · have hh : ii.hasNext = true := (IntRevIt.hasNext_iff hi).mpr (by rw [hr]; simp)
      obtain ⟨h1, h2, h3, -⟩ := IntRevIt.next_spec hi hr
      rw [if_pos hh, hr]
      simp only [List.reverse_append, List.reverse_cons, List.reverse_nil, List.nil_append, List.cons_append, foldUntil]
      rw [h1]
      by_cases hc : (cb s v).1 = true
      · simp only [hc, if_true]
        rw [IntRevIt.forEach_spec cb fuel ii.next.2 _ h2 (by rw [h3]; rw [hr] at hf; simp at hf; omega), h3]
      · simp [hc]

/-- **`Backward(b)`**: the members in decreasing order until the yield function answers `false` -/
theorem backwardRep_spec {σ : Type} (r : Rep) (h : r.wf = true) (cb : σ → Nat → Bool × σ) (s : σ) :
    backwardRep r cb s = (foldUntil cb (BSet.toList r.toBSet).reverse s).2 := by
  obtain ⟨c1, c2⟩ := IntRevIt.create_spec r h
  unfold backwardRep
  rw [IntRevIt.forEach_spec cb _ _ s c1 (by rw [c2]; exact valsOfRep_length_le h), c2, valsOfRep_eq_toList r h]

/-- what the recording callback sees in an early-terminating fold -/
theorem foldUntil_seen (k : Option Nat) (l : List Nat) :
    (foldUntil (seenCb k) l (0, [])).2.2.reverse =
      match k with
      | none => l
      | some k => l.take (max k 1) := by
  cases k with
  | none => simp [foldUntil_seen_none]
  | some k =>
    rw [foldUntil_seen_some k _ 0 []]
    simp

theorem valuesSeen_spec (r : Rep) (h : r.wf = true) (k : Option Nat) :
    valuesSeen r k =
      match k with
      | none => BSet.toList r.toBSet
      | some k => (BSet.toList r.toBSet).take (max k 1) := by
  unfold valuesSeen
  rw [valuesRep_spec r h]
  exact foldUntil_seen k _

theorem backwardSeen_spec (r : Rep) (h : r.wf = true) (k : Option Nat) :
    backwardSeen r k =
      match k with
      | none => (BSet.toList r.toBSet).reverse
      | some k => (BSet.toList r.toBSet).reverse.take (max k 1) := by
  unfold backwardSeen
  rw [backwardRep_spec r h]
  exact foldUntil_seen k _

/-! ### `Unset(b, min, max)` -/

theorem UnsetIt.forEach_spec {σ : Type} (cb : σ → Nat → Bool × σ) : ∀ (fuel : Nat) (iui : UnsetIt) (s : σ), iui.Inv →
    iui.rem.length ≤ fuel → UnsetIt.forEach cb fuel iui s = (foldUntil cb iui.rem s).2
  | 0, iui, s, _, hf => by
    have : iui.rem = [] := List.length_eq_zero_iff.mp (by omega)
    rw [this]; rfl
  | fuel + 1, iui, s, hi, hf => by
    obtain ⟨j1, j2, j3⟩ := UnsetIt.hasNext_spec hi
    unfold UnsetIt.forEach
    simp only []
    cases hr : iui.rem with
    | nil =>
      have : (UnsetIt.hasNext iui).1 = false := by
        cases hh : (UnsetIt.hasNext iui).1
        · rfl
        · exact absurd hr (j3.mp hh)
      simp [this, foldUntil]
    | cons v t =>
      have hh : (UnsetIt.hasNext iui).1 = true := j3.mpr (by rw [hr]; simp)
      obtain ⟨h1, h2, h3⟩ := UnsetIt.next_spec j1 (j2.trans hr)
      rw [if_pos hh]
      simp only [foldUntil]
      rw [h1]
      by_cases hc : (cb s v).1 = true
      · simp only [hc, if_true]
        rw [UnsetIt.forEach_spec cb fuel _ _ h2 (by rw [h3]; rw [hr] at hf; simpa using hf), h3]
      · simp [hc]

theorem absVals_length_le (r : Rep) (a b : Nat) : (absVals r a b).length ≤ b - a := by
  unfold absVals
  exact Nat.le_trans (List.length_filter_le _ _) (by simp)

/-- **`Unset(b, min, max)`**: the yield function is handed the values of `[min, max]` that are NOT in the bitmap, in
increasing order, until it answers `false` -/
theorem unsetRep_spec {σ : Type} (r : Rep) (h : r.wf = true) (min max : Nat) (hmax : max < 4294967296)
    (cb : σ → Nat → Bool × σ) (s : σ) :
    unsetRep r min max cb s = (foldUntil cb (absVals r min (max + 1)) s).2 := by
  obtain ⟨c1, c2⟩ := UnsetIt.create_spec r h min (max + 1) (by omega)
  unfold unsetRep
  rw [UnsetIt.forEach_spec cb _ _ s c1 (by rw [c2]; have := absVals_length_le r min (max + 1); omega), c2]

theorem unsetSeen_spec (r : Rep) (h : r.wf = true) (min max : Nat) (hmax : max < 4294967296) (k : Option Nat) :
    unsetSeen r min max k =
      match k with
      | none => absVals r min (max + 1)
      | some k => (absVals r min (max + 1)).take (Nat.max k 1) := by
  unfold unsetSeen
  rw [unsetRep_spec r h min max hmax]
  exact foldUntil_seen k _

end RModel.Impl.It
