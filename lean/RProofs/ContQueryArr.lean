import RProofs.ContQueryGlue
namespace RModel.Impl
open RModel RModel.BSet ContOps ContQuery

theorem getD_eq_getElem' (xs : List Nat) (i : Nat) (hi : i < xs.length) : xs.getD i 0 = xs[i] := by
  simp [List.getD_eq_getElem?_getD, hi]

/-- strictly increasing lists are strictly monotone in the index -/
theorem getD_lt_of_sorted {xs : List Nat} (h : xs.Pairwise (· < ·)) {i j : Nat} (hij : i < j) (hj : j < xs.length) :
    xs.getD i 0 < xs.getD j 0 := by
  have hi : i < xs.length := by omega
  rw [getD_eq_getElem' _ _ hi, getD_eq_getElem' _ _ hj]
  exact List.pairwise_iff_getElem.mp h i j hi hj hij

theorem getD_le_of_sorted {xs : List Nat} (h : xs.Pairwise (· < ·)) {i j : Nat} (hij : i ≤ j) (hj : j < xs.length) :
    xs.getD i 0 ≤ xs.getD j 0 := by
  by_cases e : i = j
  · subst e; exact Nat.le_refl _
  · exact Nat.le_of_lt (getD_lt_of_sorted h (by omega) hj)

theorem idx_lt_of_getD_lt {xs : List Nat} (h : xs.Pairwise (· < ·)) {i j : Nat} (hi : i < xs.length)
    (hlt : xs.getD i 0 < xs.getD j 0) : i < j := by
  apply Classical.byContradiction; intro hc
  have := getD_le_of_sorted h (show j ≤ i by omega) hi
  omega

theorem contains_iff_getD (xs : List Nat) (x : Nat) : xs.contains x = true ↔ ∃ i, i < xs.length ∧ xs.getD i 0 = x := by
  rw [List.contains_iff_mem, List.mem_iff_getElem]
  constructor
  · rintro ⟨i, hi, e⟩; exact ⟨i, hi, by rw [getD_eq_getElem' _ _ hi]; exact e⟩
  · rintro ⟨i, hi, e⟩; exact ⟨i, hi, by rw [getD_eq_getElem' _ _ hi] at e; exact e⟩

theorem contains_getD (xs : List Nat) {i : Nat} (hi : i < xs.length) : xs.contains (xs.getD i 0) = true :=
  (contains_iff_getD xs _).mpr ⟨i, hi, rfl⟩

/-- no member strictly between two consecutive elements -/
theorem not_contains_between {xs : List Nat} (h : xs.Pairwise (· < ·)) {i : Nat} {u : Nat}
    (h1 : xs.getD i 0 < u) (h2 : i + 1 < xs.length → u < xs.getD (i + 1) 0) (hi : i < xs.length) : xs.contains u = false := by
  cases hc : xs.contains u
  · rfl
  · obtain ⟨j, hj, e⟩ := (contains_iff_getD xs u).mp hc
    subst e
    have hij : i < j := idx_lt_of_getD_lt h hi h1
    by_cases hl : i + 1 < xs.length
    · have := h2 hl
      have := idx_lt_of_getD_lt h hj this
      omega
    · omega

/-- the count below `n` is the index at which the list splits into `< n` and `≥ n` -/
theorem cnt_arr_split {xs : List Nat} (h : xs.Pairwise (· < ·)) (n ip : Nat) (hip : ip ≤ xs.length)
    (h1 : ∀ i, i < ip → xs.getD i 0 < n) (h2 : ∀ i, ip ≤ i → i < xs.length → n ≤ xs.getD i 0) :
    cnt xs.contains n = ip := by
  have := cnt_eq_length (p := xs.contains) (l := xs.take ip) (List.Pairwise.sublist (List.take_sublist _ _) h) n ?_
  · rw [this, List.length_take]; omega
  · intro x
    rw [List.mem_take_iff_getElem]
    constructor
    · rintro ⟨i, hi, e⟩
      have hi' : i < xs.length := by omega
      have hlt : i < ip := by omega
      have := h1 i hlt
      rw [getD_eq_getElem' _ _ hi'] at this
      refine ⟨by omega, ?_⟩
      rw [← e]
      have := contains_getD xs hi'
      rwa [getD_eq_getElem' _ _ hi'] at this
    · rintro ⟨hx, hc⟩
      obtain ⟨i, hi, e⟩ := (contains_iff_getD xs x).mp hc
      have : i < ip := by
        apply Classical.byContradiction; intro hcc
        have := h2 i (by omega) hi
        omega
      refine ⟨i, by omega, ?_⟩
      rw [getD_eq_getElem' _ _ hi] at e; exact e

/-! ### `binarySearch` -/

/-- what `binarySearch` promises: the index of the key, or `-(insertion point) - 1` -/
def BsPost (xs : List Nat) (key : Nat) (r : Int) : Prop :=
  (0 ≤ r ∧ r.toNat < xs.length ∧ xs.getD r.toNat 0 = key) ∨
  (r < 0 ∧ (-r - 1).toNat ≤ xs.length ∧ (∀ i, i < (-r - 1).toNat → xs.getD i 0 < key) ∧
    (∀ i, (-r - 1).toNat ≤ i → i < xs.length → key < xs.getD i 0))

theorem bsLinear_spec {xs : List Nat} (h : xs.Pairwise (· < ·)) (key low hiX : Nat) (hlh : low ≤ hiX) (hh : hiX ≤ xs.length)
    (hA : ∀ i, i < low → xs.getD i 0 < key) (hB : ∀ i, hiX ≤ i → i < xs.length → key < xs.getD i 0) :
    BsPost xs key (bsLinear xs key low hiX) := by
  fun_induction bsLinear xs key low hiX with
  | case1 low hlt v hge heq =>
    left; exact ⟨by omega, by omega, by simp only [Int.toNat_natCast]; exact heq⟩
  | case2 low hlt v hge hne =>
    right
    refine ⟨by omega, by omega, fun i hi => hA i (by omega), ?_⟩
    intro i hi hil
    have := getD_le_of_sorted h (show low ≤ i by omega) hil
    have hv : v = xs.getD low 0 := rfl
    omega
  | case3 low hlt v hnge ih =>
    apply ih (by omega)
    intro i hi
    by_cases e : i = low
    · subst e; have hv : v = xs.getD i 0 := rfl; omega
    · exact hA i (by omega)
  | case4 low hnlt =>
    right
    refine ⟨by omega, by omega, fun i hi => hA i (by omega), fun i hi hil => hB i (by omega) hil⟩

theorem bsLoop_spec {xs : List Nat} (h : xs.Pairwise (· < ·)) (key low hiX : Nat) (hlh : low ≤ hiX) (hh : hiX ≤ xs.length)
    (hA : ∀ i, i < low → xs.getD i 0 < key) (hB : ∀ i, hiX ≤ i → i < xs.length → key < xs.getD i 0) :
    BsPost xs key (bsLoop xs key low hiX) := by
  fun_induction bsLoop xs key low hiX with
  | case1 low hiX hlt mid mv hlt' ih =>
    apply ih (by omega) hh _ hB
    intro i hi
    have := getD_le_of_sorted h (show i ≤ mid by omega) (by omega)
    have hv : mv = xs.getD mid 0 := rfl
    omega
  | case2 low hiX hlt mid mv hnlt hgt ih =>
    apply ih (by omega) (by omega) hA
    intro i hi hil
    have := getD_le_of_sorted h (show mid ≤ i by omega) hil
    have hv : mv = xs.getD mid 0 := rfl
    omega
  | case3 low hiX hlt mid mv hnlt hngt =>
    left
    have hv : mv = xs.getD mid 0 := rfl
    exact ⟨by omega, by omega, by simp only [Int.toNat_natCast]; omega⟩
  | case4 low hiX hn => exact bsLinear_spec h key low hiX hlh hh hA hB

theorem binarySearch_spec {xs : List Nat} (h : xs.Pairwise (· < ·)) (key : Nat) : BsPost xs key (binarySearch xs key) :=
  bsLoop_spec h key 0 xs.length (Nat.zero_le _) (Nat.le_refl _) (fun i hi => by omega) (fun i hi hil => by omega)


theorem contains_of_bs {xs : List Nat} {key : Nat} {r : Int} (hp : BsPost xs key r) :
    xs.contains key = decide (0 ≤ r) := by
  rcases hp with ⟨h0, hl, he⟩ | ⟨h0, hl, hA, hB⟩
  · rw [(contains_iff_getD xs key).mpr ⟨_, hl, he⟩]; simp [h0]
  · cases hc : xs.contains key
    · simp; omega
    · obtain ⟨j, hj, e⟩ := (contains_iff_getD xs key).mp hc
      by_cases hji : j < (-r - 1).toNat
      · have := hA j hji; omega
      · have := hB j (by omega) hj; omega

/-- the number of elements below the key is the position reported by `binarySearch` -/
theorem cnt_of_bs {xs : List Nat} (h : xs.Pairwise (· < ·)) {key : Nat} {r : Int} (hp : BsPost xs key r) :
    (cnt xs.contains key : Int) = if r < 0 then -r - 1 else r := by
  rcases hp with ⟨h0, hl, he⟩ | ⟨h0, hl, hA, hB⟩
  · rw [cnt_arr_split h key r.toNat (by omega)]
    · rw [if_neg (by omega)]; omega
    · intro i hi; have := getD_lt_of_sorted h hi hl; omega
    · intro i hi hil; have := getD_le_of_sorted h hi hil; omega
  · rw [cnt_arr_split h key (-r - 1).toNat hl hA (fun i hi hil => Nat.le_of_lt (hB i hi hil))]
    rw [if_pos h0]; omega

theorem arrContains_spec {xs : List Nat} (h : xs.Pairwise (· < ·)) (x : Nat) : arrContains xs x = xs.contains x := by
  unfold arrContains
  rw [contains_of_bs (binarySearch_spec h x)]

theorem arrRank_spec {xs : List Nat} (h : xs.Pairwise (· < ·)) (x : Nat) : IsRank xs.contains x (arrRank xs x) := by
  unfold IsRank arrRank
  have hp := binarySearch_spec h x
  have h1 := cnt_of_bs h hp
  have h2 := contains_of_bs hp
  rw [cnt_succ, h2]
  simp only
  by_cases h0 : 0 ≤ binarySearch xs x
  · simp only [h0, decide_true, if_true]
    rw [if_neg (by omega)] at h1
    omega
  · simp only [h0, decide_false, if_false]
    rw [if_pos (by omega)] at h1
    simp; omega

theorem cnt_arr_all {xs : List Nat} (h : xs.Pairwise (· < ·)) (n : Nat) (hb : ∀ v ∈ xs, v < n) : cnt xs.contains n = xs.length := by
  apply cnt_arr_split h n xs.length (Nat.le_refl _)
  · intro i hi
    apply hb
    rw [getD_eq_getElem' _ _ hi]; exact List.getElem_mem hi
  · intro i hi hil; omega

theorem arrCardInRange_spec {xs : List Nat} (h : xs.Pairwise (· < ·)) (hb : ∀ v ∈ xs, v < 65536) (lo hi : Nat)
    (hlo : lo ≤ 65536) (hhi : hi ≤ 65536) : IsCardInRange xs.contains lo hi (arrCardInRange xs lo hi) := by
  unfold IsCardInRange arrCardInRange
  by_cases hge : lo ≥ hi
  · rw [if_pos hge]
    have := cnt_mono xs.contains hge
    omega
  · rw [if_neg hge]
    have hm := cnt_mono xs.contains (show lo ≤ hi by omega)
    have h1 := cnt_of_bs h (binarySearch_spec h (lo % 65536))
    rw [show lo % 65536 = lo by omega] at h1 ⊢
    by_cases he : hi > 65535
    · simp only [he, if_true]
      have : hi = 65536 := by omega
      subst this
      rw [cnt_arr_all h 65536 hb] at hm ⊢
      generalize binarySearch xs lo = a at h1 ⊢
      by_cases ha : a < 0 <;> simp only [ha, if_true, if_false] at h1 ⊢ <;> omega
    · simp only [he, if_false]
      have h2 := cnt_of_bs h (binarySearch_spec h (hi % 65536))
      rw [show hi % 65536 = hi by omega] at h2 ⊢
      generalize binarySearch xs lo = a at h1 ⊢
      generalize binarySearch xs hi = b at h2 ⊢
      by_cases ha : a < 0 <;> by_cases hb : b < 0 <;> simp only [ha, hb, if_true, if_false] at h1 h2 ⊢ <;> omega

theorem arrSelect_spec {xs : List Nat} (h : xs.Pairwise (· < ·)) (i : Nat) (hi : i < xs.length) :
    IsSelect xs.contains i (arrSelect xs i) := by
  unfold IsSelect arrSelect
  rw [if_pos hi]
  refine ⟨xs.getD i 0, rfl, contains_getD xs hi, ?_⟩
  apply cnt_arr_split h _ i (by omega)
  · intro j hj; exact getD_lt_of_sorted h hj hi
  · intro j hj hjl; exact getD_le_of_sorted h hj hjl

theorem arrMin_spec {xs : List Nat} (h : xs.Pairwise (· < ·)) (hpos : 0 < xs.length) : IsMin xs.contains (arrMinimum xs) := by
  unfold IsMin arrMinimum
  rw [if_pos hpos]
  refine ⟨xs.getD 0 0, rfl, contains_getD xs hpos, ?_⟩
  intro u hu
  cases hc : xs.contains u
  · rfl
  · obtain ⟨j, hj, e⟩ := (contains_iff_getD xs u).mp hc
    have := getD_le_of_sorted h (Nat.zero_le j) hj
    omega

theorem arrMax_spec {xs : List Nat} (h : xs.Pairwise (· < ·)) (hpos : 0 < xs.length) : IsMax xs.contains (arrMaximum xs) := by
  unfold IsMax arrMaximum
  rw [if_pos hpos]
  refine ⟨xs.getD (xs.length - 1) 0, rfl, contains_getD xs (by omega), ?_⟩
  intro u hu
  cases hc : xs.contains u
  · rfl
  · obtain ⟨j, hj, e⟩ := (contains_iff_getD xs u).mp hc
    have := getD_le_of_sorted h (show j ≤ xs.length - 1 by omega) (by omega)
    omega


/-! ### `binarySearchUntil` / `binarySearchPast` -/

/-- what the two searches promise when the target lies between the first and the last element -/
def SrPost (past : Bool) (xs : List Nat) (target : Nat) (R : SR) : Prop :=
  (R.exact = true ∧ ∃ i, i < xs.length ∧ R.index = (i : Int) ∧ xs.getD i 0 = target ∧ R.value = target) ∨
  (R.exact = false ∧ ∃ i, i + 1 < xs.length ∧ xs.getD i 0 < target ∧ target < xs.getD (i + 1) 0 ∧
    (if past then R.index = (i : Int) + 1 ∧ R.value = xs.getD (i + 1) 0 else R.index = (i : Int) ∧ R.value = xs.getD i 0))

theorem srLoop_spec {xs : List Nat} (past : Bool) (target maxIndex low high : Nat)
    (hmax : maxIndex = xs.length - 1) (hlh : low ≤ high) (hh : high < xs.length)
    (h1 : xs.getD low 0 ≤ target) (h2 : target ≤ xs.getD high 0) :
    ∃ R, srLoop past xs target maxIndex low high = some R ∧ SrPost past xs target R := by
  fun_induction srLoop past xs target maxIndex low high with
  | case1 low high hle mid mv heq =>
    exact ⟨_, rfl, Or.inl ⟨rfl, mid, by omega, rfl, heq, heq⟩⟩
  | case2 low high hle mid mv hne hlt hc hp =>
    refine ⟨_, rfl, Or.inr ⟨rfl, mid - 1, by omega, hc.2, ?_, ?_⟩⟩
    · rw [show mid - 1 + 1 = mid by omega]; exact hlt
    · rw [show mid - 1 + 1 = mid by omega, if_pos hp]
      exact ⟨by show (mid : Int) = ((mid - 1 : Nat) : Int) + 1; omega, rfl⟩
  | case3 low high hle mid mv hne hlt hc hp =>
    refine ⟨_, rfl, Or.inr ⟨rfl, mid - 1, by omega, hc.2, ?_, ?_⟩⟩
    · rw [show mid - 1 + 1 = mid by omega]; exact hlt
    · rw [if_neg hp]
      exact ⟨by show (mid : Int) - 1 = ((mid - 1 : Nat) : Int); omega, rfl⟩
  | case4 low high hle mid mv hne hlt hc hlh' ih =>
    apply ih (by omega) (by omega) h1
    exact Nat.le_of_lt hlt
  | case5 low high hle mid mv hne hlt hc hlh' =>
    exfalso
    have : low = high := by omega
    subst this
    have : mid = low := by omega
    have hv : mv = xs.getD mid 0 := rfl
    rw [this] at hv
    omega
  | case6 low high hle mid mv hne hnlt hc hp =>
    refine ⟨_, rfl, Or.inr ⟨rfl, mid, by omega, ?_, hc.2, ?_⟩⟩
    · have hv : mv = xs.getD mid 0 := rfl; omega
    · rw [if_pos hp]; exact ⟨rfl, rfl⟩
  | case7 low high hle mid mv hne hnlt hc hp =>
    refine ⟨_, rfl, Or.inr ⟨rfl, mid, by omega, ?_, hc.2, ?_⟩⟩
    · have hv : mv = xs.getD mid 0 := rfl; omega
    · rw [if_neg hp]; exact ⟨rfl, rfl⟩
  | case8 low high hle mid mv hne hnlt hc ih =>
    have hv : mv = xs.getD mid 0 := rfl
    have hmh : mid < high := by
      apply Classical.byContradiction; intro hcc
      have : mid = high := by omega
      rw [this] at hv; omega
    apply ih (by omega) hh _ h2
    have : ¬ target < xs.getD (mid + 1) 0 := fun hx => hc ⟨by omega, hx⟩
    omega
  | case9 low high hnle => omega

/-- the three outcomes of `binarySearchUntil` (`past = false`) / `binarySearchPast` (`past = true`) on a non-empty
strictly increasing array -/
theorem srSearch_spec {xs : List Nat} (hpos : 0 < xs.length) (past : Bool) (target : Nat) :
    (target < xs.getD 0 0 ∧ srSearch past xs target = some ⟨0, -1, false⟩) ∨
    (xs.getD (xs.length - 1) 0 < target ∧ srSearch past xs target = some ⟨0, xs.length, false⟩) ∨
    (xs.getD 0 0 ≤ target ∧ target ≤ xs.getD (xs.length - 1) 0 ∧
      ∃ R, srSearch past xs target = some R ∧ SrPost past xs target R) := by
  unfold srSearch
  rw [if_neg (by omega)]
  by_cases h1 : target < xs.getD 0 0
  · left; exact ⟨h1, by rw [if_pos h1]⟩
  · rw [if_neg h1]
    by_cases h2 : target > xs.getD (xs.length - 1) 0
    · right; left; exact ⟨h2, by rw [if_pos h2]⟩
    · rw [if_neg h2]
      right; right
      exact ⟨by omega, by omega, srLoop_spec past target _ 0 _ rfl (by omega) (by omega) (by omega) (by omega)⟩


theorem not_contains_lt_first {xs : List Nat} (h : xs.Pairwise (· < ·)) {u : Nat} (hu : u < xs.getD 0 0) :
    xs.contains u = false := by
  cases hc : xs.contains u
  · rfl
  · obtain ⟨j, hj, e⟩ := (contains_iff_getD xs u).mp hc
    have := getD_le_of_sorted h (Nat.zero_le j) hj
    omega

theorem not_contains_gt_last {xs : List Nat} (h : xs.Pairwise (· < ·)) {u : Nat} (hu : xs.getD (xs.length - 1) 0 < u) :
    xs.contains u = false := by
  cases hc : xs.contains u
  · rfl
  · obtain ⟨j, hj, e⟩ := (contains_iff_getD xs u).mp hc
    have := getD_le_of_sorted h (show j ≤ xs.length - 1 by omega) (by omega)
    omega

theorem arrPreviousValue_spec {xs : List Nat} (h : xs.Pairwise (· < ·)) (hpos : 0 < xs.length) (t : Nat) :
    IsPrev xs.contains t (arrPreviousValue xs t) := by
  unfold arrPreviousValue
  rcases srSearch_spec hpos false t with ⟨h1, e⟩ | ⟨h1, e⟩ | ⟨h1, h2, R, e, hR⟩
  · rw [e]
    simp only
    rw [if_neg (by omega), if_pos (by omega)]
    right
    exact ⟨rfl, fun u hu => not_contains_lt_first h (by omega)⟩
  · rw [e]
    simp only [if_true]
    left
    refine ⟨_, rfl, by omega, contains_getD xs (by omega), ?_⟩
    intro u hu1 hu2
    exact not_contains_gt_last h hu1
  · rw [e]
    simp only
    rcases hR with ⟨hex, i, hi, hidx, hv, hval⟩ | ⟨hex, i, hi, hlt, hgt, hrest⟩
    · rw [if_neg (by omega), if_neg (by omega), hval]
      left
      refine ⟨t, rfl, Nat.le_refl _, ?_, fun u a b => by omega⟩
      rw [← hv]; exact contains_getD xs hi
    · simp only [Bool.false_eq_true, if_false] at hrest
      rw [if_neg (by omega), if_neg (by omega), hrest.2]
      left
      refine ⟨_, rfl, by omega, contains_getD xs (by omega), ?_⟩
      intro u hu1 hu2
      exact not_contains_between h hu1 (fun _ => by omega) (by omega)

theorem arrNextValue_spec {xs : List Nat} (h : xs.Pairwise (· < ·)) (hpos : 0 < xs.length) (t : Nat) :
    IsNext xs.contains t (arrNextValue xs t) := by
  unfold arrNextValue
  rw [if_neg (by omega)]
  rcases srSearch_spec hpos false t with ⟨h1, e⟩ | ⟨h1, e⟩ | ⟨h1, h2, R, e, hR⟩
  · rw [e]
    simp only [Bool.false_eq_true, if_false, if_true]
    left
    refine ⟨_, rfl, by omega, contains_getD xs hpos, ?_⟩
    intro u hu1 hu2
    exact not_contains_lt_first h hu2
  · rw [e]
    simp only [Bool.false_eq_true, if_false]
    rw [if_neg (by omega), if_neg (by omega), if_neg (by omega)]
    right
    exact ⟨rfl, fun u hu => not_contains_gt_last h (by omega)⟩
  · rw [e]
    simp only
    rcases hR with ⟨hex, i, hi, hidx, hv, hval⟩ | ⟨hex, i, hi, hlt, hgt, hrest⟩
    · rw [if_pos hex, hval]
      left
      refine ⟨t, rfl, Nat.le_refl _, ?_, fun u a b => by omega⟩
      rw [← hv]; exact contains_getD xs hi
    · simp only [Bool.false_eq_true, if_false] at hrest
      rw [hex]
      simp only [Bool.false_eq_true, if_false]
      rw [if_neg (by omega), if_neg (by omega), if_pos (by omega), hrest.1]
      rw [show ((i : Int) + 1).toNat = i + 1 by omega]
      left
      refine ⟨_, rfl, by omega, contains_getD xs (by omega), ?_⟩
      intro u hu1 hu2
      exact not_contains_between h (show xs.getD i 0 < u by omega) (fun _ => hu2) (by omega)


/-! ### the pigeon-hole bisections of `previousAbsentValue` / `nextAbsentValue` -/

theorem sub16_eq {a b : Nat} (hb : b ≤ a) (ha : a < 65536) : sub16 a b = a - b := by
  unfold sub16; omega

theorem add16_eq {a b : Nat} (h : a + b < 65536) : add16 a b = a + b := by
  unfold add16; omega

/-- values grow at least as fast as indices -/
theorem sorted_gap {xs : List Nat} (h : xs.Pairwise (· < ·)) {i j : Nat} (hij : i ≤ j) (hj : j < xs.length) :
    xs.getD i 0 + (j - i) ≤ xs.getD j 0 := by
  induction j with
  | zero => have : i = 0 := by omega
            subst this; simp
  | succ j ih =>
    by_cases e : i = j + 1
    · subst e; simp
    · have := ih (by omega) (by omega)
      have := getD_lt_of_sorted h (show j < j + 1 by omega) hj
      omega

/-- a stretch of the array without gaps contains every value between its ends -/
theorem contains_of_contig {xs : List Nat} (h : xs.Pairwise (· < ·)) {m idx : Nat} (hm : m ≤ idx) (hidx : idx < xs.length)
    (hc : xs.getD m 0 + (idx - m) = xs.getD idx 0) {u : Nat} (h1 : xs.getD m 0 ≤ u) (h2 : u ≤ xs.getD idx 0) :
    xs.contains u = true := by
  have hk : m + (u - xs.getD m 0) ≤ idx := by omega
  have g1 := sorted_gap h (show m ≤ m + (u - xs.getD m 0) by omega) (by omega)
  have g2 := sorted_gap h hk hidx
  rw [(contains_iff_getD xs u)]
  exact ⟨m + (u - xs.getD m 0), by omega, by omega⟩

theorem paLoop_spec {xs : List Nat} (h : xs.Pairwise (· < ·)) (hb : ∀ v ∈ xs, v < 65536) (t idx : Nat) (hidx : idx < xs.length)
    (ht : xs.getD idx 0 = t) (lowP high : Nat) (hlh : lowP ≤ high) (hhi : high ≤ idx)
    (hc : xs.getD high 0 + (idx - high) = t) (hn : 0 < lowP → xs.getD (lowP - 1) 0 + (idx - (lowP - 1)) < t) :
    paLoop xs t idx lowP high ≤ idx ∧
      xs.getD (paLoop xs t idx lowP high) 0 + (idx - paLoop xs t idx lowP high) = t ∧
      (0 < paLoop xs t idx lowP high →
        xs.getD (paLoop xs t idx lowP high - 1) 0 + (idx - (paLoop xs t idx lowP high - 1)) < t) := by
  have ht65 : t < 65536 := by
    rw [← ht, getD_eq_getElem' _ _ hidx]; exact hb _ (List.getElem_mem hidx)
  fun_induction paLoop xs t idx lowP high with
  | case1 lowP high hlt mid idiff vdiff hcmp ih =>
    have hmid : lowP ≤ mid ∧ mid < high := by omega
    have hle : xs.getD mid 0 ≤ t := by rw [← ht]; exact getD_le_of_sorted h (by omega) hidx
    have hv : vdiff = t - xs.getD mid 0 := sub16_eq hle ht65
    have hi : idiff = (idx : Int) - mid := rfl
    apply ih (by omega) hhi hc
    intro _
    rw [show mid + 1 - 1 = mid by omega]
    omega
  | case2 lowP high hlt mid idiff vdiff hcmp ih =>
    have hmid : lowP ≤ mid ∧ mid < high := by omega
    have hle : xs.getD mid 0 ≤ t := by rw [← ht]; exact getD_le_of_sorted h (by omega) hidx
    have hv : vdiff = t - xs.getD mid 0 := sub16_eq hle ht65
    have hi : idiff = (idx : Int) - mid := rfl
    have hg := sorted_gap h (show mid ≤ idx by omega) hidx
    apply ih (by omega) (by omega) _ hn
    omega
  | case3 lowP high hn' =>
    have : lowP = high := by omega
    subst this
    exact ⟨hhi, hc, hn⟩

theorem naLoop_spec {xs : List Nat} (h : xs.Pairwise (· < ·)) (hb : ∀ v ∈ xs, v < 65536) (t idx : Nat)
    (ht : xs.getD idx 0 = t) (low high : Nat) (hil : idx ≤ low) (hlh : low < high) (hhi : high ≤ xs.length)
    (hc : t + (low - idx) = xs.getD low 0) (hn : high < xs.length → t + (high - idx) < xs.getD high 0) :
    idx ≤ naLoop xs t idx low high ∧ naLoop xs t idx low high < xs.length ∧
      t + (naLoop xs t idx low high - idx) = xs.getD (naLoop xs t idx low high) 0 ∧
      (naLoop xs t idx low high + 1 < xs.length →
        t + (naLoop xs t idx low high + 1 - idx) < xs.getD (naLoop xs t idx low high + 1) 0) := by
  fun_induction naLoop xs t idx low high with
  | case1 low high hlt mid idiff vdiff hcmp ih =>
    have hmid : low < mid ∧ mid < high := by omega
    have hml : mid < xs.length := by omega
    have hle : t ≤ xs.getD mid 0 := by rw [← ht]; exact getD_le_of_sorted h (by omega) hml
    have h65 : xs.getD mid 0 < 65536 := by
      rw [getD_eq_getElem' _ _ hml]; exact hb _ (List.getElem_mem hml)
    have hv : vdiff = xs.getD mid 0 - t := sub16_eq hle h65
    have hi : idiff = (mid : Int) - idx := rfl
    apply ih hil (by omega) (by omega) hc
    intro _
    omega
  | case2 low high hlt mid idiff vdiff hcmp ih =>
    have hmid : low < mid ∧ mid < high := by omega
    have hml : mid < xs.length := by omega
    have hle : t ≤ xs.getD mid 0 := by rw [← ht]; exact getD_le_of_sorted h (by omega) hml
    have h65 : xs.getD mid 0 < 65536 := by
      rw [getD_eq_getElem' _ _ hml]; exact hb _ (List.getElem_mem hml)
    have hv : vdiff = xs.getD mid 0 - t := sub16_eq hle h65
    have hi : idiff = (mid : Int) - idx := rfl
    have hg := sorted_gap h (show idx ≤ mid by omega) hml
    rw [ht] at hg
    apply ih (by omega) (by omega) hhi _ hn
    omega
  | case3 low high hn' =>
    have : high = low + 1 := by omega
    subst this
    exact ⟨hil, by omega, hc, hn⟩


theorem arrPreviousAbsentValue_spec {xs : List Nat} (hw : ArrWf xs) (t : Nat) (ht : t < 65536) :
    IsPrevAbsent xs.contains t (arrPreviousAbsentValue xs t) := by
  have h := hw.sorted
  have hpos := hw.pos
  unfold arrPreviousAbsentValue
  rw [if_neg (by omega)]
  by_cases hmax : t > xs.getD (xs.length - 1) 0
  · rw [if_pos hmax]
    left
    exact ⟨t, rfl, Nat.le_refl _, not_contains_gt_last h hmax, fun u a b => by omega⟩
  rw [if_neg hmax]
  rcases srSearch_spec hpos true t with ⟨h1, e⟩ | ⟨h1, e⟩ | ⟨h1, h2, R, e, hR⟩
  · rw [e]
    left
    exact ⟨t, rfl, Nat.le_refl _, not_contains_lt_first h h1, fun u a b => by omega⟩
  · omega
  · rw [e]
    simp only
    rcases hR with ⟨hex, i, hi, hidx, hv, hval⟩ | ⟨hex, i, hi, hlt, hgt, hrest⟩
    · rw [hex, hidx, hval]
      simp only [Bool.not_true, Bool.false_eq_true, if_false, Int.toNat_natCast]
      have hmem : xs.contains t = true := by rw [← hv]; exact contains_getD xs hi
      by_cases hsp : (i : Int) = 1 ∧ xs.getD 0 0 ≠ sub16 t 1
      · rw [if_pos hsp]
        have hi1 : i = 1 := by omega
        subst hi1
        have h01 := getD_lt_of_sorted h (show 0 < 1 by omega) hi
        have hs : sub16 t 1 = t - 1 := sub16_eq (by omega) ht
        rw [hs] at hsp ⊢
        left
        refine ⟨t - 1, rfl, by omega, ?_, ?_⟩
        · exact not_contains_between h (show xs.getD 0 0 < t - 1 by omega) (fun _ => by show t - 1 < xs.getD 1 0; omega) (by omega)
        · intro u hu1 hu2
          have : u = t := by omega
          subst this; exact hmem
      · rw [if_neg hsp]
        obtain ⟨p1, p2, p3⟩ := paLoop_spec h hw.bound t i hi hv 0 i (Nat.zero_le _) (Nat.le_refl _) (by omega)
          (fun hc => by omega)
        generalize paLoop xs t i 0 i = H at p1 p2 p3 ⊢
        by_cases hH : H = 0
        · subst hH
          rw [if_pos rfl]
          have hall : ∀ u, xs.getD 0 0 ≤ u → u ≤ t → xs.contains u = true := fun u a b =>
            contains_of_contig h (Nat.zero_le i) hi (by omega) a (by omega)
          by_cases h0 : xs.getD 0 0 = 0
          · right
            exact ⟨by omega, fun u hu => hall u (by omega) hu⟩
          · left
            refine ⟨xs.getD 0 0 - 1, by omega, by omega, not_contains_lt_first h (by omega), ?_⟩
            intro u hu1 hu2
            exact hall u (by omega) hu2
        · rw [if_neg hH]
          have hn := p3 (by omega)
          have hHl : H < xs.length := by omega
          have hlt' := getD_lt_of_sorted h (show H - 1 < H by omega) hHl
          have h65 : xs.getD H 0 < 65536 := by
            rw [getD_eq_getElem' _ _ hHl]; exact hw.bound _ (List.getElem_mem hHl)
          rw [sub16_eq (show 1 ≤ xs.getD H 0 by omega) h65]
          left
          refine ⟨xs.getD H 0 - 1, rfl, by omega, ?_, ?_⟩
          · apply not_contains_between h (i := H - 1) (by omega) _ (by omega)
            intro _
            rw [show H - 1 + 1 = H by omega]; omega
          · intro u hu1 hu2
            exact contains_of_contig h p1 hi (by omega) (by omega) (by omega)
    · rw [hex]
      simp only [Bool.not_false, if_true]
      left
      refine ⟨t, rfl, Nat.le_refl _, ?_, fun u a b => by omega⟩
      exact not_contains_between h hlt (fun _ => hgt) (by omega)

theorem arrNextAbsentValue_spec {xs : List Nat} (hw : ArrWf xs) (t : Nat) (ht : t < 65536) :
    IsNextAbsent xs.contains t (arrNextAbsentValue xs t) := by
  have h := hw.sorted
  have hpos := hw.pos
  unfold arrNextAbsentValue
  rw [if_neg (by omega)]
  by_cases hmin : t < xs.getD 0 0
  · rw [if_pos hmin]
    exact ⟨t, rfl, Nat.le_refl _, not_contains_lt_first h hmin, fun u a b => by omega⟩
  rw [if_neg hmin]
  rcases srSearch_spec hpos true t with ⟨h1, e⟩ | ⟨h1, e⟩ | ⟨h1, h2, R, e, hR⟩
  · omega
  · rw [e]
    exact ⟨t, rfl, Nat.le_refl _, not_contains_gt_last h h1, fun u a b => by omega⟩
  · rw [e]
    simp only
    rcases hR with ⟨hex, i, hi, hidx, hv, hval⟩ | ⟨hex, i, hi, hlt, hgt, hrest⟩
    · rw [hex, hidx, hval]
      simp only [Bool.not_true, Bool.false_eq_true, if_false, Int.toNat_natCast]
      have hmem : xs.contains t = true := by rw [← hv]; exact contains_getD xs hi
      have hlast65 : xs.getD (xs.length - 1) 0 < 65536 := by
        rw [getD_eq_getElem' _ _ (show xs.length - 1 < xs.length by omega)]
        exact hw.bound _ (List.getElem_mem _)
      by_cases hsp : (i : Int) = (xs.length : Int) - 2 ∧ xs.getD (xs.length - 1) 0 ≠ add16 t 1
      · rw [if_pos hsp]
        have hi1 : i + 1 = xs.length - 1 := by omega
        have h01 := getD_lt_of_sorted h (show i < i + 1 by omega) (by omega)
        rw [hi1, hv] at h01
        have hs : add16 t 1 = t + 1 := add16_eq (by omega)
        rw [hs] at hsp ⊢
        refine ⟨t + 1, rfl, by omega, ?_, ?_⟩
        · apply not_contains_between h (i := i) (by omega) _ hi
          intro _; rw [hi1]; omega
        · intro u hu1 hu2
          have : u = t := by omega
          subst this; exact hmem
      · rw [if_neg hsp]
        obtain ⟨p1, p2, p3, p4⟩ := naLoop_spec h hw.bound t i hv i xs.length (Nat.le_refl _) hi (Nat.le_refl _) (by omega)
          (fun hc => by omega)
        generalize naLoop xs t i i xs.length = L at p1 p2 p3 p4 ⊢
        have hres : (if L = xs.length - 1 then (xs.getD (xs.length - 1) 0 : Int) + 1 else (xs.getD L 0 : Int) + 1)
            = ((xs.getD L 0 + 1 : Nat) : Int) := by
          split
          · next hl => rw [← hl]; omega
          · omega
        rw [hres]
        refine ⟨_, rfl, by omega, ?_, ?_⟩
        · by_cases hl : L + 1 < xs.length
          · exact not_contains_between h (show xs.getD L 0 < xs.getD L 0 + 1 by omega) (fun _ => by have := p4 hl; omega) p2
          · apply not_contains_gt_last h
            rw [show xs.length - 1 = L by omega]; omega
        · intro u hu1 hu2
          exact contains_of_contig h p1 p2 (by omega) (by omega) (by omega)
    · rw [hex]
      simp only [Bool.not_false, if_true]
      refine ⟨t, rfl, Nat.le_refl _, ?_, fun u a b => by omega⟩
      exact not_contains_between h hlt (fun _ => hgt) (by omega)

end RModel.Impl
