import RProofs.IterBase
import RProofs.ContQueryRun
/-!
Iteration protocols, part 2: the RUN container iterators (`runIterator16`, `runReverseIterator16`).

`RunIt.cursor` = `iv[curIndex].start + curPosInIndex` (65536 when `curIndex` has run off the list); the values still to be
delivered are the members `≥ cursor` of `expandRuns rs`.
-/
namespace RModel.Impl.It
open RModel RModel.Impl RModel.Impl.ContOps RModel.Impl.ContQuery RModel.Impl.RunQ

theorem rEnd_eq (rs : List (Nat × Nat)) (i : Nat) : rEnd rs i = rStart rs i + rLenF rs i := rfl

/-- a member above the end of run `i` lies in a later run -/
theorem mem_after_run {rs : List (Nat × Nat)} (hs : RunSep rs) {i x : Nat} (hx : inRuns rs x = true)
    (hgt : rEnd rs i < x) (hi : i < rs.length) : i + 1 < rs.length ∧ rStart rs (i + 1) ≤ x := by
  obtain ⟨j, hj, h1, h2⟩ := (inRuns_idx rs x).mp hx
  have hij : i < j := by
    apply Classical.byContradiction; intro hc
    have := end_mono_le hs (show j ≤ i by omega) hi
    omega
  have := start_mono_le hs (show i + 1 ≤ j by omega) hj
  exact ⟨by omega, by omega⟩

/-- a member that is `≥ m` where every run before `b` ends below `m` lies in run `b` or later -/
theorem mem_from_run {rs : List (Nat × Nat)} (hs : RunSep rs) {b x m : Nat} (hx : inRuns rs x = true)
    (hm : m ≤ x) (hlow : ∀ i, i < b → rEnd rs i < m) : b < rs.length ∧ rStart rs b ≤ x := by
  obtain ⟨j, hj, h1, h2⟩ := (inRuns_idx rs x).mp hx
  have hbj : b ≤ j := by
    apply Classical.byContradiction; intro hc
    have := hlow j (by omega)
    omega
  have := start_mono_le hs hbj hj
  exact ⟨by omega, by omega⟩

/-! ### `searchRange` started at `curIndex` -/

theorem runSearchFrom_eq (rs : List (Nat × Nat)) (hs : RunSep rs) (x i : Nat) (hi : i ≤ rs.length)
    (hlow : ∀ k, k < i → rStart rs k ≤ x) : runSearchFrom rs x i = runSearch rs x := by
  obtain ⟨-, a2, a3, a4⟩ := runSearchLoop_spec rs hs x 0 rs.length (by omega) (by omega) (by omega) (by omega)
  obtain ⟨-, b2, b3, b4⟩ := runSearchLoop_spec rs hs x i rs.length hi (by omega) hlow (by omega)
  have e : runSearchLoop rs x i rs.length = runSearchLoop rs x 0 rs.length := by
    generalize runSearchLoop rs x i rs.length = b1 at b2 b3 b4
    generalize runSearchLoop rs x 0 rs.length = b0 at a2 a3 a4
    apply Classical.byContradiction; intro hne
    by_cases h : b1 < b0
    · have := a3 b1 h
      have := b4 b1 (by omega) (by omega)
      omega
    · have := b3 b0 (by omega)
      have := a4 b0 (by omega) (by omega)
      omega
  simp only [runSearchFrom, runSearch, e]

namespace RunIt

def cursor (it : RunIt) : Nat :=
  if it.curIndex < it.rs.length then rStart it.rs it.curIndex + it.curPosInIndex else 65536

def Inv (it : RunIt) : Prop :=
  RunSep it.rs ∧ (∀ p ∈ it.rs, p.1 + p.2 ≤ 65535) ∧
    (it.curIndex < it.rs.length → it.curPosInIndex ≤ rLenF it.rs it.curIndex)

def rem (it : RunIt) : List Nat := remFrom (expandRuns it.rs) it.cursor

theorem cursor_mem {it : RunIt} (hi : it.Inv) (hl : it.curIndex < it.rs.length) :
    it.cursor ∈ expandRuns it.rs ∧ it.cursor ≤ 65535 ∧ it.cursor ≤ rEnd it.rs it.curIndex := by
  obtain ⟨hs, hb, hp⟩ := hi
  have := hp hl
  have hb' := rEnd_bound hb hl
  rw [rEnd_eq] at hb'
  refine ⟨?_, ?_, ?_⟩
  · rw [mem_expandRuns, inRuns_idx]
    refine ⟨it.curIndex, hl, ?_, ?_⟩ <;> simp only [cursor, hl, if_true, rEnd_eq] <;> omega
  · simp only [cursor, hl, if_true]; omega
  · simp only [cursor, hl, if_true, rEnd_eq]; omega

theorem mem_lt {it : RunIt} (hi : it.Inv) {x : Nat} (hx : x ∈ expandRuns it.rs) : x < 65536 :=
  lt_of_inRuns hi.2.1 ((mem_expandRuns _ _).mp hx)

theorem rem_nil_of_exhausted {it : RunIt} (hi : it.Inv) (hl : ¬ it.curIndex < it.rs.length) : it.rem = [] := by
  apply remFrom_nil
  intro x hx
  simp only [cursor, hl, if_false]
  exact mem_lt hi hx

theorem hasNext_iff {it : RunIt} (hi : it.Inv) : it.hasNext = true ↔ it.rem ≠ [] := by
  by_cases hl : it.curIndex < it.rs.length
  · have hp := hi.2.2 hl
    constructor
    · intro _
      exact remFrom_ne_nil (cursor_mem hi hl).1 (Nat.le_refl _)
    · intro _
      simp only [hasNext, Bool.or_eq_true, Bool.and_eq_true, decide_eq_true_eq, beq_iff_eq]
      omega
  · rw [rem_nil_of_exhausted hi hl]
    simp only [hasNext, Bool.or_eq_true, Bool.and_eq_true, decide_eq_true_eq, beq_iff_eq]
    constructor
    · intro h; omega
    · intro h; exact absurd rfl h

/-- a non-empty remaining list starts at the cursor -/
theorem rem_cons {it : RunIt} (hi : it.Inv) {v : Nat} {t : List Nat} (h : it.rem = v :: t) :
    it.curIndex < it.rs.length ∧ v = it.cursor ∧ t = remFrom (expandRuns it.rs) (it.cursor + 1) := by
  have hl : it.curIndex < it.rs.length := by
    apply Classical.byContradiction; intro hc
    rw [rem_nil_of_exhausted hi hc] at h; cases h
  have hsorted := sorted_expandRuns it.rs hi.1
  obtain ⟨h1, h2, h3, h4⟩ := remFrom_head hsorted h
  have hc := cursor_mem hi hl
  have := h3 _ hc.1 (Nat.le_refl _)
  have hv : v = it.cursor := by omega
  subst hv
  exact ⟨hl, rfl, h4⟩

theorem peekNext_spec {it : RunIt} (hi : it.Inv) {v : Nat} {t : List Nat} (h : it.rem = v :: t) : it.peekNext = v := by
  obtain ⟨hl, hv, -⟩ := rem_cons hi h
  have hc := cursor_mem hi hl
  subst hv
  simp only [peekNext, cursor, hl, if_true] at hc ⊢
  exact run_add16_eq (by omega)

theorem next_spec {it : RunIt} (hi : it.Inv) {v : Nat} {t : List Nat} (h : it.rem = v :: t) :
    it.next.1 = v ∧ it.next.2.Inv ∧ it.next.2.rem = t ∧ it.next.2.rs = it.rs := by
  obtain ⟨hl, hv, ht⟩ := rem_cons hi h
  have hpk := peekNext_spec hi h
  have hc := cursor_mem hi hl
  obtain ⟨hs, hb, hp⟩ := hi
  have hp' := hp hl
  have hend := rEnd_bound hb hl
  rw [rEnd_eq] at hend
  have hcur : it.cursor = rStart it.rs it.curIndex + it.curPosInIndex := by simp only [cursor, hl, if_true]
  unfold next
  simp only []
  by_cases hlast : it.curPosInIndex = rLenF it.rs it.curIndex
  · rw [if_pos hlast]
    refine ⟨hpk, ⟨hs, hb, fun _ => Nat.zero_le _⟩, ?_, rfl⟩
    rw [ht, hcur]
    simp only [rem]
    apply remFrom_congr
    intro x hx
    have hxr := (mem_expandRuns _ _).mp hx
    refine Iff.symm ?_
    simp only [cursor]
    by_cases hl2 : it.curIndex + 1 < it.rs.length
    · rw [if_pos hl2]
      have hsep := sep_idx hs (show it.curIndex < it.curIndex + 1 by omega) hl2
      rw [rEnd_eq] at hsep
      constructor
      · intro hge
        have := mem_after_run hs hxr (by rw [rEnd_eq]; omega) hl
        omega
      · intro hge; omega
    · rw [if_neg hl2]
      constructor
      · intro hge
        have := mem_after_run hs hxr (by rw [rEnd_eq]; omega) hl
        omega
      · intro hge
        have := lt_of_inRuns hb hxr
        omega
  · rw [if_neg hlast]
    have ha : add16 it.curPosInIndex 1 = it.curPosInIndex + 1 := run_add16_eq (by omega)
    refine ⟨hpk, ⟨hs, hb, fun _ => ?_⟩, ?_, rfl⟩
    · simp only [ha]; omega
    · rw [ht]
      simp only [rem, cursor, hl, if_true, ha]
      congr 1 <;> omega

theorem init_spec (rs : List (Nat × Nat)) (hs : RunSep rs) (hb : ∀ p ∈ rs, p.1 + p.2 ≤ 65535) :
    let it : RunIt := { rs := rs, curIndex := 0, curPosInIndex := 0 }
    it.Inv ∧ it.rem = expandRuns rs := by
  refine ⟨⟨hs, hb, fun _ => Nat.zero_le _⟩, ?_⟩
  simp only [rem]
  conv => rhs; rw [← remFrom_zero (expandRuns rs)]
  apply remFrom_congr
  intro x hx
  have hxr := (mem_expandRuns _ _).mp hx
  refine Iff.symm ?_
  simp only [cursor]
  constructor
  · intro _
    have := mem_from_run hs hxr (Nat.zero_le x) (b := 0) (by intro i hi; omega)
    rw [if_pos this.1]
    omega
  · intro _; omega

theorem advanceIfNeeded_spec {it : RunIt} (hi : it.Inv) (m : Nat) (hm : m < 65536) :
    (it.advanceIfNeeded m).Inv ∧ (it.advanceIfNeeded m).rem = it.rem.dropWhile (fun x => decide (x < m)) ∧
      (it.advanceIfNeeded m).rs = it.rs := by
  have hsorted := sorted_expandRuns it.rs hi.1
  have hdw : it.rem.dropWhile (fun x => decide (x < m)) = remFrom (expandRuns it.rs) (max it.cursor m) :=
    remFrom_dropWhile hsorted _ _
  rw [hdw]
  unfold advanceIfNeeded
  by_cases hstay : (!it.hasNext || decide (it.peekNext ≥ m)) = true
  · rw [if_pos hstay]
    refine ⟨hi, ?_, rfl⟩
    simp only [rem]
    congr 1
    by_cases hl : it.curIndex < it.rs.length
    · have hn : it.hasNext = true := (hasNext_iff hi).mpr (remFrom_ne_nil (cursor_mem hi hl).1 (Nat.le_refl _))
      have hc := cursor_mem hi hl
      simp only [hn, Bool.not_true, Bool.false_or, peekNext] at hstay
      have hstay := of_decide_eq_true hstay
      have hcur : it.cursor = rStart it.rs it.curIndex + it.curPosInIndex := by simp only [cursor, hl, if_true]
      have e16 : add16 (rStart it.rs it.curIndex) it.curPosInIndex = rStart it.rs it.curIndex + it.curPosInIndex :=
        run_add16_eq (by omega)
      rw [e16] at hstay
      omega
    · simp only [cursor, hl, if_false]; omega
  · rw [if_neg hstay]
    simp only [Bool.or_eq_true, Bool.not_eq_true', decide_eq_true_eq, not_or, Bool.not_eq_false] at hstay
    obtain ⟨hn, hlt⟩ := hstay
    have hl : it.curIndex < it.rs.length := by
      apply Classical.byContradiction; intro hc
      have := (hasNext_iff hi).mp hn
      exact this (rem_nil_of_exhausted hi hc)
    have hc := cursor_mem hi hl
    have hcur : it.cursor = rStart it.rs it.curIndex + it.curPosInIndex := by simp only [cursor, hl, if_true]
    simp only [peekNext] at hlt
    have e16 : add16 (rStart it.rs it.curIndex) it.curPosInIndex = rStart it.rs it.curIndex + it.curPosInIndex :=
      run_add16_eq (by omega)
    simp only [e16] at hlt
    obtain ⟨hs, hb, hp⟩ := hi
    have hfrom : runSearchFrom it.rs m it.curIndex = runSearch it.rs m := by
      apply runSearchFrom_eq it.rs hs m it.curIndex (by omega)
      intro k hk
      have := start_mono_le hs (show k ≤ it.curIndex by omega) hl
      omega
    obtain ⟨b, hbl, hw, hlo, hhi, hcase⟩ := runSearch_cases it.rs hs hb m
    rw [hfrom]
    have hmax : max it.cursor m = m := by omega
    rw [hmax]
    rcases hcase with ⟨hpres, hb0, hle, hin⟩ | ⟨hpres, hlow, hnin⟩
    · -- present: land inside run b-1
      have hwn : (runSearch it.rs m).1.toNat = b - 1 := by rw [hw]; omega
      have hst := hlo (b - 1) (by omega)
      have hsub : sub16 m (rStart it.rs (b - 1)) = m - rStart it.rs (b - 1) := run_sub16_eq hst hm
      generalize runSearch it.rs m = sr at hw hpres hwn
      obtain ⟨w, p⟩ := sr
      simp only at hw hpres hwn ⊢
      subst hpres
      simp only [if_true, hwn, hsub]
      refine ⟨⟨hs, hb, fun _ => ?_⟩, ?_, ?_⟩
      rotate_left 2
      · first | rfl | trivial
      · simp only
        rw [rEnd_eq] at hle
        omega
      · simp only [rem, cursor]
        rw [if_pos (by omega)]
        congr 1
        omega
    · -- absent: go to the start of run b
      have hwn : ((runSearch it.rs m).1 + 1).toNat = b := by rw [hw]; omega
      generalize runSearch it.rs m = sr at hw hpres hwn
      obtain ⟨w, p⟩ := sr
      simp only at hw hpres hwn ⊢
      subst hpres
      simp only [Bool.false_eq_true, if_false, hwn]
      refine ⟨⟨hs, hb, fun _ => Nat.zero_le _⟩, ?_, ?_⟩
      rotate_left 1
      · first | rfl | trivial
      simp only [rem]
      apply remFrom_congr
      intro x hx
      have hxr := (mem_expandRuns _ _).mp hx
      refine Iff.symm ?_
      simp only [cursor]
      constructor
      · intro hge
        have := mem_from_run hs hxr hge hlow
        rw [if_pos this.1]
        omega
      · intro hge
        by_cases hbl2 : b < it.rs.length
        · rw [if_pos hbl2] at hge
          have := hhi b (Nat.le_refl _) hbl2
          omega
        · rw [if_neg hbl2] at hge
          have := lt_of_inRuns hb hxr
          omega

end RunIt

end RModel.Impl.It
