import RProofs.RepMut
import RProofs.ContEfficient
import RProofs.Rep64
import RProofs.DriverGlue
import RProofs.Agg
import RModel.Driver.R64
import RModel.Driver.L2Xform
import RModel.Driver.Iter
/-!
The FAST functions of the compiled checker are the verified reference functions.

The compiled checker (`rdriver`) evaluates the abstraction of a stored representation with the one-pass functions
`Cont.toBSetFast` / `Rep.toBSetFast` / `Rep64.toBSetFast` (`RModel/Impl/Repr.lean`, `RModel/Impl/Rep64.lean`); the theorems of
`RProofs` are about the reference functions `Cont.toBSet` / `Rep.toBSet` / `Rep64.toBSet`.  This file proves the two families
EQUAL — for every container, every base, every representation, well-formed or not (no side condition is needed) — so the
fast functions leave the trusted base (DESIGN.md §2.8).

Also here: the other fast / reference pairs of the checker
* `Driver.unionAll` (pairwise merging) = `BSet.unionL` (the left fold the C11 theorems are about) on canonical operands,
* `Driver.interAll` = `BSet.interL` (literally the same equations),
* `Driver.l2WordsSet` = the abstraction of a bitmap container,
* `sortedValsBounds 0 v none []` (used by `renderL2` / `renderMany` of `Driver/Iter.lean`) = `Driver.ofVals v` for strictly
  increasing `v`,
* `Cont.toBSetFast.strictIncFast` = `strictInc`.

Core Lean only; no `native_decide`, `bv_decide`, axioms.
-/
namespace RModel.Impl
open RModel RModel.BSet RModel.Driver ContOps RepMut

/-! ### the array container: one pass over strictly increasing values -/

/-- the local copy of `strictInc` inside `Cont.toBSetFast` is `strictInc` -/
theorem strictIncFast_eq : ∀ (l : List Nat), Cont.toBSetFast.strictIncFast l = strictInc l
  | [] => rfl
  | [_] => rfl
  | a :: b :: t => by
    simp only [Cont.toBSetFast.strictIncFast, strictInc]
    rw [strictIncFast_eq (b :: t)]

/-- `sortedValsBounds` from the initial state is the abstraction of the array container, at every base -/
theorem svb_none_base (base : Nat) (vals : List Nat) (hs : vals.Pairwise (· < ·)) :
    sortedValsBounds base vals none [] = (Cont.arr vals).toBSet base := by
  cases vals with
  | nil => simp [sortedValsBounds, Cont.toBSet, unionAll, unionAllFuel]
  | cons v t =>
    have hst := List.pairwise_cons.mp hs
    simp only [sortedValsBounds]
    obtain ⟨h1, _, h3⟩ := svb_some base t (base + v) (base + v + 1) (by omega) hst.2
      (fun a ha => by have := hst.1 a ha; omega)
    refine canon_ext_sinc _ _ h1 (sinc_toBSet_arr base _) (fun x => ?_)
    rw [h3 x, mem_toBSet_arr, List.any_cons]
    congr 1
    rw [nat_beq_decide, ← Bool.decide_and]
    apply decide_eq_decide.mpr; omega

/-! ### the three container kinds -/

theorem Cont.toBSetFast_arr (base : Nat) (vals : List Nat) :
    (Cont.arr vals).toBSetFast base = (Cont.arr vals).toBSet base := by
  simp only [Cont.toBSetFast]
  split
  · rename_i h
    rw [strictIncFast_eq] at h
    exact svb_none_base base vals (pairwise_of_strictInc vals h)
  · rfl

theorem Cont.toBSetFast_bmp (base : Nat) (card : Int) (words : List (BitVec 64)) :
    (Cont.bmp card words).toBSetFast base = (Cont.bmp card words).toBSet base := by
  simp only [Cont.toBSetFast, Cont.toBSet, wordsBoundsFast_flatten]
  simp

theorem Cont.toBSetFast_run (base : Nat) (runs : List (Nat × Nat)) :
    (Cont.run runs).toBSetFast base = (Cont.run runs).toBSet base := rfl

/-- **The fast abstraction of a container is the abstraction**: every container (any length of the word list, values in any
order, any runs), every base.  No hypothesis. -/
theorem Cont.toBSetFast_eq (base : Nat) (c : Cont) : c.toBSetFast base = c.toBSet base := by
  cases c with
  | arr vals => exact Cont.toBSetFast_arr base vals
  | bmp card words => exact Cont.toBSetFast_bmp base card words
  | run runs => exact Cont.toBSetFast_run base runs

/-- as a function -/
theorem Cont.toBSetFast_eq_fun : Cont.toBSetFast = Cont.toBSet := by
  funext base c; exact Cont.toBSetFast_eq base c

/-- the instance used by `Rep.toBSetFast` -/
theorem Cont.toBSetFast_eq_key (key : Nat) (c : Cont) : c.toBSetFast (key * 65536) = c.toBSet (key * 65536) :=
  Cont.toBSetFast_eq _ c

/-! ### 32-bit and 64-bit representations -/

/-- **The fast abstraction of a 32-bit representation is the abstraction.**  No hypothesis. -/
theorem Rep.toBSetFast_eq (r : Rep) : r.toBSetFast = r.toBSet := by
  unfold Rep.toBSetFast Rep.toBSet
  congr 1
  exact List.map_congr_left (fun s _ => Cont.toBSetFast_eq _ s.c)

theorem Rep.toBSetFast_eq_fun : Rep.toBSetFast = Rep.toBSet := funext Rep.toBSetFast_eq

/-- **The fast abstraction of a 64-bit representation is the abstraction** (closed form of `Rep64.toBSetFast_eq`).
No hypothesis. -/
theorem Rep64.toBSetFast_eq' (r : Rep64) : r.toBSetFast = r.toBSet :=
  Rep64.toBSetFast_eq r (fun b _ => Rep.toBSetFast_eq b.bm)

theorem Rep64.toBSetFast_eq_fun : Rep64.toBSetFast = Rep64.toBSet := funext Rep64.toBSetFast_eq'

/-! ### further uses of the fast functions in the checker -/

/-- `l2WordsSet` (`Driver/L2Xform.lean`, the set of a dense word list) is the abstraction of a bitmap container -/
theorem l2WordsSet_eq (c : Int) (ws : List (BitVec 64)) : l2WordsSet ws = (Cont.bmp c ws).toBSet 0 := by
  unfold l2WordsSet
  exact Cont.toBSetFast_bmp 0 c ws

/-- the abstraction of an array container at base 0 is `ofVals` -/
theorem toBSet_arr_zero (vals : List Nat) : (Cont.arr vals).toBSet 0 = ofVals vals := by
  simp only [Cont.toBSet, ofVals, Nat.zero_add]

/-- the boundary list `renderL2` / `renderMany` (`Driver/Iter.lean`) digest is the set of the values -/
theorem svb_eq_ofVals (vals : List Nat) (h : Cont.toBSetFast.strictIncFast vals = true) :
    sortedValsBounds 0 vals none [] = ofVals vals := by
  rw [strictIncFast_eq] at h
  rw [svb_none_base 0 vals (pairwise_of_strictInc vals h), toBSet_arr_zero]

theorem renderMany_eq (vals : List Nat) :
    renderMany vals = if strictInc vals then countDigest vals.length (ofVals vals) else "unsorted" := by
  unfold renderMany
  rw [strictIncFast_eq]
  split
  · rename_i h; rw [svb_eq_ofVals vals (by rw [strictIncFast_eq]; exact h)]
  · rfl

theorem renderL2_eq (vals : List Nat) (desc : Bool) :
    renderL2 vals desc =
      (let v := if desc then vals.reverse else vals
       if strictInc v then countDigest v.length (ofVals v) else "unord " ++ toString v.length) := by
  unfold renderL2
  simp only [strictIncFast_eq]
  generalize (if desc = true then vals.reverse else vals) = v
  split
  · rename_i h; rw [svb_eq_ofVals _ (by rw [strictIncFast_eq]; exact h)]
  · rfl

end RModel.Impl

/-! ### the n-ary glue: pairwise merging = left fold -/
namespace RModel.Driver
open RModel RModel.BSet

/-- `unionAll` (balanced pairwise merging, what the checker runs for `fastor64`, `ofVals`, the abstraction functions) is the
left fold `unionL` (what the C11 theorems are about) when the operands are boundary lists (strictly increasing).
The hypothesis is needed: `union` of unsorted lists is not associative. -/
theorem unionAll_eq_unionL (l : List BSet) (hl : ∀ s ∈ l, SInc s) : unionAll l = unionL l := by
  have hnil : SInc ([] : BSet) := List.Pairwise.nil
  refine canon_ext_sinc _ _ (sinc_unionAll l hl) (sinc_foldl_union l [] hnil hl) (fun x => ?_)
  rw [mem_unionAll l hl x]
  unfold unionL
  rw [mem_foldl_union l [] hnil hl x]
  simp [mem]

/-- `interAll` (`Driver/R64.lean`) is `interL` -/
theorem interAll_eq_interL : ∀ (l : List BSet), interAll l = interL l
  | [] => rfl
  | _ :: _ => rfl

end RModel.Driver
