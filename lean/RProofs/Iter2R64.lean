import RProofs.Iter
import RProofs.IterAdv
import RProofs.IterRev
import RProofs.IterMany
import RProofs.Rep64
import RModel.Impl.Iter2
/-!
Iteration protocols, part (c): the `roaring64` iterators `IntIt64`, `IntRevIt64`, `ManyIt64` — built from the 32-bit
iterators `IntIt / IntRevIt / ManyIt` exactly the way those are built from the container iterators.

* `IntIt64.Inv`, `IntIt64.rem` with `hasNext_iff`, `init_spec`, `create_spec`, `reinit_spec`, `peekNext_spec`, `next_spec`,
  `drain_spec`, `skipTo_spec`, `advanceIfNeeded_spec`, `advance_from_cursor`, `peek_eq_nextValue`;
* `valsOfRep64_eq_toList` : the bucket-by-bucket member list is `BSet.toList r.toBSet`;
* `IntRevIt64.Inv`, `IntRevIt64.rem` with `hasNext_iff`, `init_spec`, `create_spec`, `reinit_spec`, `next_spec`, `drain_spec`;
* `ManyIt64.Inv`, `ManyIt64.rem` with `init_spec`, `create_spec`, `reinit_spec`, `step_spec`, `loop_spec`, `nextMany_spec`,
  `nextManySeq_spec`;
* `IntIt64.drain_create`, `IntRevIt64.drain_create`, `ManyIt64.nextManySeq_create`.
Core Lean only; no `native_decide`, `bv_decide`, axioms.
-/
namespace RModel.Impl.It
open RModel RModel.Impl RModel.Impl.ContOps RModel.Impl.ContQuery

/-! ### 32-bit facts needed one level up -/

theorem even_rep (r : Rep) (h : r.wf = true) : BSet.Even r.toBSet := (canon_rep r h).2.2

theorem mem_valsOfRep_iff_mem (r : Rep) (h : r.wf = true) (x : Nat) : x ∈ valsOfRep r ↔ BSet.mem r.toBSet x = true := by
  rw [valsOfRep_eq_toList r h, BSet.mem_toList _ (sinc_rep r) (even_rep r h)]

theorem valsOfRep_lt {r : Rep} (h : r.wf = true) {x : Nat} (hx : x ∈ valsOfRep r) : x < 4294967296 :=
  bounded32_of_wf h x ((mem_valsOfRep_iff_mem r h x).mp hx)

theorem valsOfRep_ne_nil {r : Rep} (h : r.wf = true) (hne : r.isEmptyGo = false) : valsOfRep r ≠ [] := by
  obtain ⟨y, hy⟩ := exists_mem_of_wf h hne
  intro e
  have := (mem_valsOfRep_iff_mem r h y).mpr hy
  rw [e] at this
  cases this

theorem sorted_valsOfRep {r : Rep} (h : r.wf = true) : (valsOfRep r).Pairwise (· < ·) := by
  rw [valsOfRep_eq]; exact sorted_flatMap_slotVals r.slots ((slotsWf_iff r).mp h)

/-- every value a valid 32-bit forward iterator still has to deliver is a 32-bit value -/
theorem IntIt.rem_lt32 {ii : IntIt} (hi : ii.Inv) {x : Nat} (hx : x ∈ ii.rem) : x < 4294967296 := by
  have hl : ii.pos < ii.slots.length := (IntIt.rem_ge hi hx).1
  simp only [IntIt.rem, hl, if_true, List.mem_append] at hx
  have hk := (hi.1.ok _ (slotAt_mem hl)).1
  rcases hx with h | h
  · have := IntIt.cur_range hi hl h
    have e := (hi.2 hl).1
    omega
  · obtain ⟨s, hs, hxs⟩ := List.mem_flatMap.mp h
    have hs' := List.mem_of_mem_drop hs
    have := ((mem_slotVals (hi.1.ok s hs').2 x).mp hxs).1
    have := (hi.1.ok s hs').1
    omega

/-! ### buckets -/

theorem bucketAt_eq {bs : List Bucket} {i : Nat} (h : i < bs.length) : bucketAt bs i = bs[i] := by
  simp [bucketAt, List.getD_eq_getElem?_getD, h]

theorem bucketAt_mem {bs : List Bucket} {i : Nat} (h : i < bs.length) : bucketAt bs i ∈ bs := by
  rw [bucketAt_eq h]; exact List.getElem_mem h

theorem drop_buckets {bs : List Bucket} {i : Nat} (h : i < bs.length) :
    bs.drop i = bucketAt bs i :: bs.drop (i + 1) := by
  rw [bucketAt_eq h]; exact List.drop_eq_getElem_cons h

theorem take_buckets {bs : List Bucket} {k : Nat} (h : k < bs.length) :
    bs.take (k + 1) = bs.take k ++ [bucketAt bs k] := by
  rw [bucketAt_eq h]; exact List.take_succ_eq_append_getElem h

theorem shl32 (k : Nat) : k <<< 32 = k * 4294967296 := by
  rw [Nat.shiftLeft_eq]

theorem shr32 (k : Nat) : k >>> 32 = k / 4294967296 := by
  rw [Nat.shiftRight_eq_div_pow]

theorem valsOfRep64_eq (r : Rep64) : valsOfRep64 r = r.buckets.flatMap bucketVals := rfl

theorem mem_bucketVals {b : Bucket} (hw : b.bm.wf = true) (x : Nat) :
    x ∈ bucketVals b ↔ (x / 4294967296 = b.high ∧ BSet.mem b.bm.toBSet (x % 4294967296) = true) := by
  simp only [bucketVals, List.mem_map]
  constructor
  · rintro ⟨v, hv, rfl⟩
    have := valsOfRep_lt hw hv
    have e1 : (b.high * 4294967296 + v) / 4294967296 = b.high := by omega
    have e2 : (b.high * 4294967296 + v) % 4294967296 = v := by omega
    rw [e1, e2]; exact ⟨rfl, (mem_valsOfRep_iff_mem _ hw v).mp hv⟩
  · rintro ⟨h1, h2⟩
    exact ⟨x % 4294967296, (mem_valsOfRep_iff_mem _ hw _).mpr h2, by omega⟩

theorem sorted_bucketVals {b : Bucket} (hw : b.bm.wf = true) : (bucketVals b).Pairwise (· < ·) := by
  unfold bucketVals
  rw [List.pairwise_map]
  exact List.Pairwise.imp (fun h => by omega) (sorted_valsOfRep hw)

theorem sorted_flatMap_bucketVals : ∀ (l : List Bucket), BucketsWf l → (l.flatMap bucketVals).Pairwise (· < ·)
  | [], _ => by simp
  | s :: t, hw => by
    rw [List.flatMap_cons, List.pairwise_append]
    refine ⟨sorted_bucketVals hw.head.2.1, sorted_flatMap_bucketVals t hw.tail, ?_⟩
    intro a ha b hb
    obtain ⟨s', hs', hb'⟩ := List.mem_flatMap.mp hb
    have k1 := (mem_bucketVals hw.head.2.1 a).mp ha
    have k2 := (mem_bucketVals (hw.tail.ok s' hs').2.1 b).mp hb'
    have := hw.head_lt s' hs'
    have e1 := k1.1
    have e2 := k2.1
    omega

theorem mem_valsOfRep64 (r : Rep64) (h : r.wf = true) (x : Nat) : x ∈ valsOfRep64 r ↔ BSet.mem r.toBSet x = true := by
  have hw := (bucketsWf_iff r).mp h
  rw [mem_rep64_iff r h, valsOfRep64_eq, List.mem_flatMap]
  constructor
  · rintro ⟨b, hb, hx⟩
    have := (mem_bucketVals (hw.ok b hb).2.1 x).mp hx
    exact ⟨b, hb, this.1.symm, by rw [← mem_rep b.bm (hw.ok b hb).2.1]; exact this.2⟩
  · rintro ⟨b, hb, h1, h2⟩
    exact ⟨b, hb, (mem_bucketVals (hw.ok b hb).2.1 x).mpr ⟨h1.symm, by rw [mem_rep b.bm (hw.ok b hb).2.1]; exact h2⟩⟩

/-- the abstraction of a well-formed 64-bit representation is canonical in the 64-bit universe -/
theorem canon_rep64 (r : Rep64) (h : r.wf = true) : BSet.Canon 18446744073709551616 r.toBSet := by
  have hw := (bucketsWf_iff r).mp h
  apply BSet.canon_of_bounded _ _ (sinc_rep64 r)
  intro x hx
  cases hh : BSet.mem r.toBSet x
  · rfl
  · obtain ⟨b, hb, h1, -⟩ := (mem_rep64_iff r h x).mp hh
    have := (hw.ok b hb).1
    omega

theorem even_rep64 (r : Rep64) (h : r.wf = true) : BSet.Even r.toBSet := (canon_rep64 r h).2.2

/-- the bucket-by-bucket member list is the enumeration of the denoted set -/
theorem valsOfRep64_eq_toList (r : Rep64) (h : r.wf = true) : valsOfRep64 r = BSet.toList r.toBSet := by
  have hw := (bucketsWf_iff r).mp h
  have hs := sinc_rep64 r
  have he := even_rep64 r h
  apply sorted_ext _ _ (sorted_flatMap_bucketVals r.buckets hw) (BSet.toList_sorted _ hs he)
  intro x
  rw [← valsOfRep64_eq, mem_valsOfRep64 r h, BSet.mem_toList _ hs he]

/-- values of later buckets are above the current bucket's range -/
theorem later_buckets_ge {bs : List Bucket} (hw : BucketsWf bs) {i : Nat} (hi : i < bs.length) {x : Nat}
    (hx : x ∈ (bs.drop (i + 1)).flatMap bucketVals) : ((bucketAt bs i).high + 1) * 4294967296 ≤ x := by
  obtain ⟨s, hs, hxs⟩ := List.mem_flatMap.mp hx
  obtain ⟨j, hj, rfl⟩ := List.mem_iff_getElem.mp hs
  simp only [List.length_drop] at hj
  rw [List.getElem_drop] at hxs
  have hlt : (bucketAt bs i).high < bs[i + 1 + j].high := by
    rw [bucketAt_eq hi]
    exact List.pairwise_iff_getElem.mp hw.sorted i (i + 1 + j) hi (by omega) (by omega)
  have hwf := (hw.ok _ (List.getElem_mem (show i + 1 + j < bs.length by omega))).2.1
  have := ((mem_bucketVals hwf x).mp hxs).1
  have : bs[i + 1 + j].high * 4294967296 ≤ x := by omega
  calc ((bucketAt bs i).high + 1) * 4294967296 ≤ bs[i + 1 + j].high * 4294967296 := Nat.mul_le_mul_right _ (by omega)
    _ ≤ x := this

/-! ## the forward iterator -/

namespace IntIt64

def Inv (ii : IntIt64) : Prop :=
  BucketsWf ii.buckets ∧
    (ii.pos < ii.buckets.length →
      ii.hs = (bucketAt ii.buckets ii.pos).high * 4294967296 ∧ ii.bitmapIter.Inv ∧ ii.bitmapIter.rem ≠ [])

/-- the values still to be delivered: the rest of the current bucket, then all later buckets -/
def rem (ii : IntIt64) : List Nat :=
  if ii.pos < ii.buckets.length then
    ii.bitmapIter.rem.map (ii.hs + ·) ++ (ii.buckets.drop (ii.pos + 1)).flatMap bucketVals
  else []

theorem hasNext_iff {ii : IntIt64} (hi : ii.Inv) : ii.hasNext = true ↔ ii.rem ≠ [] := by
  unfold hasNext rem
  by_cases h : ii.pos < ii.buckets.length
  · have := (hi.2 h).2.2
    simp [h, this]
  · simp [h]

/-- `init()` at a position: the iterator stands at the first value of bucket `pos` (whatever `bitmapIter` held before) -/
theorem init_spec (ii : IntIt64) (hw : BucketsWf ii.buckets) :
    ii.init.Inv ∧ ii.init.rem = (ii.buckets.drop ii.pos).flatMap bucketVals ∧ ii.init.buckets = ii.buckets ∧
      ii.init.pos = ii.pos := by
  unfold init
  by_cases h : ii.buckets.length > ii.pos
  · rw [if_pos h]
    have hm := hw.ok _ (bucketAt_mem h)
    obtain ⟨c1, c2⟩ := IntIt.reinit_spec ii.bitmapIter (bucketAt ii.buckets ii.pos).bm hm.2.1
    refine ⟨⟨hw, fun _ => ⟨shl32 _, c1, ?_⟩⟩, ?_, rfl, rfl⟩
    · show (ii.bitmapIter.reinit (bucketAt ii.buckets ii.pos).bm).rem ≠ []
      rw [c2]; exact valsOfRep_ne_nil hm.2.1 hm.2.2
    · simp only [rem]
      rw [if_pos (by exact h), drop_buckets h, List.flatMap_cons, c2, shl32]
      rfl
  · rw [if_neg h]
    refine ⟨⟨hw, fun h' => absurd h' (by omega)⟩, ?_, rfl, rfl⟩
    simp only [rem]
    rw [if_neg (by omega), List.drop_eq_nil_iff.mpr (by omega)]
    rfl

theorem create_spec (r : Rep64) (h : r.wf = true) : (create r).Inv ∧ (create r).rem = valsOfRep64 r := by
  have hw := (bucketsWf_iff r).mp h
  obtain ⟨h1, h2, -, -⟩ := init_spec { ({} : IntIt64) with pos := 0, buckets := r.buckets } hw
  exact ⟨h1, h2⟩

/-- `Initialize(b)` on a USED iterator object (whatever state it is in) starts the enumeration of `b` -/
theorem reinit_spec (ii : IntIt64) (r : Rep64) (h : r.wf = true) :
    (ii.reinit r).Inv ∧ (ii.reinit r).rem = valsOfRep64 r := by
  have hw := (bucketsWf_iff r).mp h
  obtain ⟨h1, h2, -, -⟩ := init_spec { ii with pos := 0, buckets := r.buckets } hw
  exact ⟨h1, h2⟩

/-- the parts of a non-empty remaining list -/
theorem rem_cons {ii : IntIt64} (hi : ii.Inv) {v : Nat} {t : List Nat} (h : ii.rem = v :: t) :
    ii.pos < ii.buckets.length ∧ ∃ v0 t0, ii.bitmapIter.rem = v0 :: t0 ∧ v = ii.hs + v0 ∧ v0 < 4294967296 ∧
      ii.hs % 4294967296 = 0 ∧
      t = t0.map (ii.hs + ·) ++ (ii.buckets.drop (ii.pos + 1)).flatMap bucketVals := by
  have hl : ii.pos < ii.buckets.length := by
    apply Classical.byContradiction; intro hc
    simp only [rem, hc, if_false] at h; cases h
  obtain ⟨e1, e2, e3⟩ := hi.2 hl
  refine ⟨hl, ?_⟩
  cases hr : ii.bitmapIter.rem with
  | nil => exact absurd hr e3
  | cons v0 t0 =>
    simp only [rem, hl, if_true, hr, List.map_cons, List.cons_append] at h
    injection h with h1 h2
    refine ⟨v0, t0, rfl, h1.symm, IntIt.rem_lt32 e2 (by rw [hr]; simp), by omega, h2.symm⟩

theorem peekNext_spec {ii : IntIt64} (hi : ii.Inv) {v : Nat} {t : List Nat} (h : ii.rem = v :: t) :
    ii.peekNext = v := by
  obtain ⟨hl, v0, t0, hr, hv, hlt, hhs, -⟩ := rem_cons hi h
  have := IntIt.peekNext_spec (hi.2 hl).2.1 hr
  unfold peekNext
  rw [this, hv]
  have : v0 &&& 0xFFFFFFFF = v0 := by
    have := Nat.and_two_pow_sub_one_eq_mod v0 32
    simp only [Nat.reducePow, Nat.reduceSub] at this
    rw [this]; omega
  rw [this]
  exact or_hs64_eq_add hlt hhs

theorem next_spec {ii : IntIt64} (hi : ii.Inv) {v : Nat} {t : List Nat} (h : ii.rem = v :: t) :
    ii.next.1 = v ∧ ii.next.2.Inv ∧ ii.next.2.rem = t ∧ ii.next.2.buckets = ii.buckets := by
  obtain ⟨hl, v0, t0, hr, hv, hlt, hhs, ht⟩ := rem_cons hi h
  obtain ⟨e1, e2, e3⟩ := hi.2 hl
  obtain ⟨n1, n2, n3, -⟩ := IntIt.next_spec e2 hr
  have hval : ii.bitmapIter.next.1 ||| ii.hs = v := by rw [n1, hv]; exact or_hs64_eq_add hlt hhs
  unfold next
  simp only []
  by_cases hn : ii.bitmapIter.next.2.hasNext = true
  · have hne : ii.bitmapIter.next.2.rem ≠ [] := (IntIt.hasNext_iff n2).mp hn
    simp only [hn, Bool.not_true, Bool.false_eq_true, if_false]
    refine ⟨hval, ⟨hi.1, fun _ => ⟨e1, n2, hne⟩⟩, ?_, by first | rfl | trivial⟩
    simp only [rem]
    rw [if_pos hl, n3, ht]
  · have hnil : ii.bitmapIter.next.2.rem = [] := by
      apply Classical.byContradiction; intro hc
      exact hn ((IntIt.hasNext_iff n2).mpr hc)
    have hn' : ii.bitmapIter.next.2.hasNext = false := by simpa using hn
    simp only [hn', Bool.not_false, if_true]
    obtain ⟨i1, i2, i3, -⟩ := init_spec { ii with bitmapIter := ii.bitmapIter.next.2, pos := ii.pos + 1 } hi.1
    refine ⟨hval, i1, ?_, i3⟩
    rw [i2, ht]
    rw [n3] at hnil
    rw [hnil]
    rfl

/-- draining delivers exactly the remaining values, in order -/
theorem drain_spec : ∀ (fuel : Nat) (ii : IntIt64), ii.Inv → ii.rem.length ≤ fuel → (ii.drain fuel).1 = ii.rem
  | 0, ii, _, hf => by
    have : ii.rem = [] := List.length_eq_zero_iff.mp (by omega)
    rw [this]; rfl
  | fuel + 1, ii, hi, hf => by
    unfold drain
    cases hr : ii.rem with
    | nil =>
      have : ii.hasNext = false := by
        cases hh : ii.hasNext
        · rfl
        · exact absurd hr ((hasNext_iff hi).mp hh)
      simp [this]
    | cons v t =>
      have hh : ii.hasNext = true := (hasNext_iff hi).mpr (by rw [hr]; simp)
      obtain ⟨h1, h2, h3, -⟩ := next_spec hi hr
      rw [if_pos hh]
      simp only []
      rw [h1, drain_spec fuel ii.next.2 h2 (by rw [h3]; rw [hr] at hf; simpa using hf), h3]

/-! ### `AdvanceIfNeeded` -/

/-- the values of the current bucket lie in its range -/
theorem cur_range {ii : IntIt64} (hi : ii.Inv) (hl : ii.pos < ii.buckets.length) {x : Nat}
    (hx : x ∈ ii.bitmapIter.rem.map (ii.hs + ·)) : ii.hs ≤ x ∧ x < ii.hs + 4294967296 := by
  obtain ⟨v, hv, rfl⟩ := List.mem_map.mp hx
  have := IntIt.rem_lt32 (hi.2 hl).2.1 hv
  omega

/-- every remaining value is `≥ hs` -/
theorem rem_ge {ii : IntIt64} (hi : ii.Inv) {x : Nat} (hx : x ∈ ii.rem) : ii.pos < ii.buckets.length ∧ ii.hs ≤ x := by
  have hl : ii.pos < ii.buckets.length := by
    apply Classical.byContradiction; intro hc
    simp only [rem, hc, if_false] at hx; cases hx
  refine ⟨hl, ?_⟩
  simp only [rem, hl, if_true, List.mem_append] at hx
  rcases hx with h | h
  · exact (cur_range hi hl h).1
  · have := later_buckets_ge hi.1 hl h
    have e := (hi.2 hl).1
    omega

/-- the loop `for ii.HasNext() && (ii.hs>>32) < to { ii.pos++; ii.init() }` -/
theorem skipTo_spec (to : Nat) : ∀ (ii : IntIt64), ii.Inv →
    (ii.skipTo to).Inv ∧ (ii.skipTo to).rem = ii.rem.dropWhile (fun x => decide (x < to * 4294967296)) ∧
      ((ii.skipTo to).pos < (ii.skipTo to).buckets.length → to * 4294967296 ≤ (ii.skipTo to).hs) := by
  intro ii
  fun_induction skipTo ii to with
  | case1 ii hc ih =>
    intro hi
    obtain ⟨hl, hlt⟩ := hc
    rw [shr32] at hlt
    obtain ⟨i1, i2, i3, i4⟩ := init_spec { ii with pos := ii.pos + 1 } hi.1
    obtain ⟨r1, r2, r3⟩ := ih i1
    refine ⟨r1, ?_, r3⟩
    rw [r2, i2]
    simp only [rem, hl, if_true]
    rw [List.dropWhile_append_of_pos]
    intro a ha
    have := cur_range hi hl ha
    have e := (hi.2 hl).1
    simp only [decide_eq_true_eq]
    omega
  | case2 ii hc =>
    intro hi
    rw [shr32] at hc
    refine ⟨hi, ?_, ?_⟩
    · symm
      apply dropWhile_eq_self_of_all_neg
      intro x hx
      obtain ⟨hl, hge⟩ := rem_ge hi hx
      simp only [decide_eq_false_iff_not]
      have : ¬ ii.hs / 4294967296 < to := fun h => hc ⟨hl, h⟩
      omega
    · intro hl
      have : ¬ ii.hs / 4294967296 < to := fun h => hc ⟨hl, h⟩
      omega

/-- `AdvanceIfNeeded(m)` for ANY `m`: exactly the remaining members `≥ m` stay, the iterator stands on the least of them -/
theorem advanceIfNeeded_spec_any {ii : IntIt64} (hi : ii.Inv) (m : Nat) :
    (ii.advanceIfNeeded m).Inv ∧ (ii.advanceIfNeeded m).rem = ii.rem.dropWhile (fun x => decide (x < m)) := by
  unfold advanceIfNeeded
  simp only [shr32]
  obtain ⟨s1, s2, s3⟩ := skipTo_spec (m / 4294967296) ii hi
  generalize ii.skipTo (m / 4294967296) = jj at s1 s2 s3
  have hdd : ii.rem.dropWhile (fun x => decide (x < m)) = jj.rem.dropWhile (fun x => decide (x < m)) := by
    rw [s2, dropWhile_dropWhile_of_imp]
    intro x hx
    simp only [decide_eq_true_eq] at hx ⊢
    omega
  rw [hdd]
  by_cases hc : (jj.hasNext && jj.hs / 4294967296 == m / 4294967296) = true
  · rw [if_pos hc]
    simp only [Bool.and_eq_true, beq_iff_eq, hasNext, decide_eq_true_eq] at hc
    obtain ⟨hl, hhs⟩ := hc
    obtain ⟨e1, e2, e3⟩ := s1.2 hl
    obtain ⟨a1, a2⟩ := IntIt.advanceIfNeeded_spec e2 (m % 4294967296) (by omega)
    -- the current bucket's part of the list after the 32-bit advance
    have hmap : (jj.bitmapIter.rem.map (jj.hs + ·)).dropWhile (fun x => decide (x < m)) =
        (jj.bitmapIter.advanceIfNeeded (m % 4294967296)).rem.map (jj.hs + ·) := by
      rw [List.dropWhile_map, a2]
      congr 2
      funext x
      simp only [Function.comp, decide_eq_decide]
      omega
    have hlater : ∀ x ∈ (jj.buckets.drop (jj.pos + 1)).flatMap bucketVals, decide (x < m) = false := by
      intro x hx
      have := later_buckets_ge s1.1 hl hx
      simp only [decide_eq_false_iff_not]
      omega
    by_cases hn : (jj.bitmapIter.advanceIfNeeded (m % 4294967296)).hasNext = true
    · have hne := (IntIt.hasNext_iff a1).mp hn
      simp only [hn, Bool.not_true, Bool.false_eq_true, if_false]
      refine ⟨⟨s1.1, fun _ => ⟨e1, a1, hne⟩⟩, ?_⟩
      simp only [rem, hl, if_true]
      rw [List.dropWhile_append, hmap]
      rw [if_neg]
      simpa using hne
    · have hn' : (jj.bitmapIter.advanceIfNeeded (m % 4294967296)).hasNext = false := by simpa using hn
      have hnil : (jj.bitmapIter.advanceIfNeeded (m % 4294967296)).rem = [] := by
        apply Classical.byContradiction; intro hc
        exact hn ((IntIt.hasNext_iff a1).mpr hc)
      simp only [hn', Bool.not_false, if_true]
      obtain ⟨i1, i2, -, -⟩ :=
        init_spec { jj with bitmapIter := jj.bitmapIter.advanceIfNeeded (m % 4294967296), pos := jj.pos + 1 } s1.1
      refine ⟨i1, ?_⟩
      rw [i2]
      simp only [rem, hl, if_true]
      rw [List.dropWhile_append, hmap, hnil]
      simp only [List.map_nil, List.isEmpty_nil, if_true]
      exact (dropWhile_eq_self_of_all_neg hlater).symm
  · rw [if_neg hc]
    refine ⟨s1, ?_⟩
    symm
    apply dropWhile_eq_self_of_all_neg
    intro x hx
    obtain ⟨hl, hge⟩ := rem_ge s1 hx
    have h3 := s3 hl
    simp only [Bool.and_eq_true, beq_iff_eq, hasNext, decide_eq_true_eq, not_and] at hc
    have hne := hc hl
    have e := (s1.2 hl).1
    simp only [decide_eq_false_iff_not]
    omega

/-- **(b, 64)** `AdvanceIfNeeded(m)`: exactly the remaining members `≥ m` stay, the iterator stands on the least of them -/
theorem advanceIfNeeded_spec {ii : IntIt64} (hi : ii.Inv) (m : Nat) (_hm : m < 18446744073709551616) :
    (ii.advanceIfNeeded m).Inv ∧ (ii.advanceIfNeeded m).rem = ii.rem.dropWhile (fun x => decide (x < m)) :=
  advanceIfNeeded_spec_any hi m

/-- **(b, 64)** in cursor form: a state that represents "the members `≥ c`" goes to the state that represents
"the members `≥ max c m`" -/
theorem advance_from_cursor {ii : IntIt64} (hi : ii.Inv) (r : Rep64) (hr : r.wf = true) (c m : Nat)
    (hm : m < 18446744073709551616) (h : ii.rem = remFrom (BSet.toList r.toBSet) c) :
    (ii.advanceIfNeeded m).Inv ∧ (ii.advanceIfNeeded m).rem = remFrom (BSet.toList r.toBSet) (max c m) := by
  obtain ⟨h1, h2⟩ := advanceIfNeeded_spec hi m hm
  refine ⟨h1, ?_⟩
  rw [h2, h]
  exact remFrom_dropWhile (BSet.toList_sorted _ (sinc_rep64 r) (even_rep64 r hr)) c m

/-- a fresh iterator represents "the members `≥ 0`" -/
theorem create_from_cursor (r : Rep64) (hr : r.wf = true) : (create r).rem = remFrom (BSet.toList r.toBSet) 0 := by
  rw [(create_spec r hr).2, valsOfRep64_eq_toList r hr, remFrom_zero]

/-- `HasNext` / `PeekNext` of a state representing "the members `≥ c`" are the set-level answers -/
theorem peek_eq_nextValue {ii : IntIt64} (hi : ii.Inv) (r : Rep64) (hr : r.wf = true) (c : Nat)
    (h : ii.rem = remFrom (BSet.toList r.toBSet) c) :
    (if ii.hasNext then some ii.peekNext else none) = BSet.nextValue r.toBSet c := by
  have hs := sinc_rep64 r
  have he := even_rep64 r hr
  rw [← remFrom_toList_head _ hs he c, ← h]
  cases hrem : ii.rem with
  | nil =>
    have : ii.hasNext = false := by
      cases hh : ii.hasNext
      · rfl
      · exact absurd hrem ((hasNext_iff hi).mp hh)
    simp [this]
  | cons v t =>
    have hh : ii.hasNext = true := (hasNext_iff hi).mpr (by rw [hrem]; simp)
    rw [if_pos hh, peekNext_spec hi hrem]
    rfl

end IntIt64

/-- **(c, 64)** draining a fresh `roaring64` iterator yields the members of the denoted set, each once, in increasing
order -/
theorem IntIt64.drain_create (r : Rep64) (h : r.wf = true) (fuel : Nat) (hf : BSet.card r.toBSet ≤ fuel) :
    ((IntIt64.create r).drain fuel).1 = BSet.toList r.toBSet := by
  obtain ⟨h1, h2⟩ := IntIt64.create_spec r h
  have e := valsOfRep64_eq_toList r h
  rw [IntIt64.drain_spec fuel _ h1 (by rw [h2, e, BSet.toList_length]; exact hf), h2, e]

/-! ## the reverse iterator -/

/-- every value a valid 32-bit reverse iterator still has to deliver is a 32-bit value -/
theorem IntRevIt.rem_lt32 {ii : IntRevIt} (hi : ii.Inv) {x : Nat} (hx : x ∈ ii.rem) : x < 4294967296 := by
  have hp : 0 < ii.posP := by
    apply Classical.byContradiction; intro hc
    simp only [IntRevIt.rem, hc, if_false] at hx; cases hx
  simp only [IntRevIt.rem, hp, if_true, List.mem_append] at hx
  rcases hx with h | h
  · obtain ⟨s, hs, hxs⟩ := List.mem_flatMap.mp h
    have hs' := List.mem_of_mem_take hs
    have := ((mem_slotVals (hi.1.ok s hs').2 x).mp hxs).1
    have := (hi.1.ok s hs').1
    omega
  · obtain ⟨v, hv, rfl⟩ := List.mem_map.mp h
    obtain ⟨e1, e2, e3⟩ := hi.2.2 hp
    have := RIt.rem_lt e2 hv
    have hk := (hi.1.ok _ (slotAt_mem (show ii.posP - 1 < ii.slots.length by have := hi.2.1; omega))).1
    omega

namespace IntRevIt64

def Inv (ii : IntRevIt64) : Prop :=
  BucketsWf ii.buckets ∧ ii.posP ≤ ii.buckets.length ∧
    (0 < ii.posP →
      ii.hs = (bucketAt ii.buckets (ii.posP - 1)).high * 4294967296 ∧ ii.bitmapIter.Inv ∧ ii.bitmapIter.rem ≠ [])

/-- the values still to be delivered, ascending (they come out last first): all earlier buckets, then the rest of the
current one -/
def rem (ii : IntRevIt64) : List Nat :=
  if 0 < ii.posP then
    (ii.buckets.take (ii.posP - 1)).flatMap bucketVals ++ ii.bitmapIter.rem.map (ii.hs + ·)
  else []

theorem hasNext_iff {ii : IntRevIt64} (hi : ii.Inv) : ii.hasNext = true ↔ ii.rem ≠ [] := by
  unfold hasNext rem
  by_cases h : 0 < ii.posP
  · have := (hi.2.2 h).2.2
    simp [h, this]
  · simp [h]

/-- `init()` at a position: the iterator stands at the last value of bucket `posP - 1` -/
theorem init_spec (ii : IntRevIt64) (hw : BucketsWf ii.buckets) (hp : ii.posP ≤ ii.buckets.length) :
    ii.init.Inv ∧ ii.init.rem = (ii.buckets.take ii.posP).flatMap bucketVals ∧ ii.init.buckets = ii.buckets ∧
      ii.init.posP = ii.posP := by
  unfold init
  by_cases h : 0 < ii.posP
  · rw [if_pos h]
    have hk : ii.posP - 1 < ii.buckets.length := by omega
    have hm := hw.ok _ (bucketAt_mem hk)
    obtain ⟨c1, c2⟩ := IntRevIt.reinit_spec ii.bitmapIter (bucketAt ii.buckets (ii.posP - 1)).bm hm.2.1
    have e : ii.buckets.take ii.posP = ii.buckets.take (ii.posP - 1) ++ [bucketAt ii.buckets (ii.posP - 1)] := by
      have := take_buckets hk
      rwa [show ii.posP - 1 + 1 = ii.posP by omega] at this
    refine ⟨⟨hw, hp, fun _ => ⟨shl32 _, c1, ?_⟩⟩, ?_, rfl, rfl⟩
    · show (ii.bitmapIter.reinit (bucketAt ii.buckets (ii.posP - 1)).bm).rem ≠ []
      rw [c2]; exact valsOfRep_ne_nil hm.2.1 hm.2.2
    · simp only [rem]
      rw [if_pos (by exact h), c2, shl32, e, List.flatMap_append, List.flatMap_cons, List.flatMap_nil,
        List.append_nil]
      rfl
  · rw [if_neg h]
    refine ⟨⟨hw, hp, fun h' => absurd h' h⟩, ?_, rfl, rfl⟩
    have h0 : ii.posP = 0 := by omega
    simp only [rem]
    rw [if_neg (by exact h), h0]
    rfl

theorem create_spec (r : Rep64) (h : r.wf = true) : (create r).Inv ∧ (create r).rem = valsOfRep64 r := by
  have hw := (bucketsWf_iff r).mp h
  obtain ⟨h1, h2, -, -⟩ := init_spec { ({} : IntRevIt64) with buckets := r.buckets, posP := r.buckets.length } hw
    (Nat.le_refl _)
  refine ⟨h1, ?_⟩
  rw [valsOfRep64_eq]
  refine h2.trans ?_
  show (r.buckets.take r.buckets.length).flatMap bucketVals = _
  rw [List.take_length]

/-- `Initialize(b)` on a USED iterator object (whatever state it is in) starts the enumeration of `b` -/
theorem reinit_spec (ii : IntRevIt64) (r : Rep64) (h : r.wf = true) :
    (ii.reinit r).Inv ∧ (ii.reinit r).rem = valsOfRep64 r := by
  have hw := (bucketsWf_iff r).mp h
  obtain ⟨h1, h2, -, -⟩ := init_spec { ii with buckets := r.buckets, posP := r.buckets.length } hw (Nat.le_refl _)
  refine ⟨h1, ?_⟩
  rw [valsOfRep64_eq]
  refine h2.trans ?_
  show (r.buckets.take r.buckets.length).flatMap bucketVals = _
  rw [List.take_length]

theorem next_spec {ii : IntRevIt64} (hi : ii.Inv) {v : Nat} {t : List Nat} (h : ii.rem = t ++ [v]) :
    ii.next.1 = v ∧ ii.next.2.Inv ∧ ii.next.2.rem = t ∧ ii.next.2.buckets = ii.buckets := by
  have hp : 0 < ii.posP := by
    apply Classical.byContradiction; intro hc
    simp only [rem, hc, if_false] at h
    have := congrArg List.length h
    simp at this
  obtain ⟨e1, e2, e3⟩ := hi.2.2 hp
  rcases eq_nil_or_snoc ii.bitmapIter.rem with hr | ⟨t0, v0, hr⟩
  · exact absurd hr e3
  have hrem : ii.rem =
      ((ii.buckets.take (ii.posP - 1)).flatMap bucketVals ++ t0.map (ii.hs + ·)) ++ [ii.hs + v0] := by
    simp only [rem]
    rw [if_pos hp, hr, List.map_append, List.append_assoc]
    rfl
  rw [hrem] at h
  have hh := List.append_inj' h (by simp)
  have hv : v = ii.hs + v0 := by
    have := hh.2
    simp at this
    exact this.symm
  have ht := hh.1
  have hlt : v0 < 4294967296 := IntRevIt.rem_lt32 e2 (by rw [hr]; simp)
  have hhs : ii.hs % 4294967296 = 0 := by omega
  obtain ⟨n1, n2, n3, -⟩ := IntRevIt.next_spec e2 hr
  have hval : ii.bitmapIter.next.1 ||| ii.hs = v := by rw [n1, hv]; exact or_hs64_eq_add hlt hhs
  unfold next
  simp only []
  by_cases hn : ii.bitmapIter.next.2.hasNext = true
  · have hne : ii.bitmapIter.next.2.rem ≠ [] := (IntRevIt.hasNext_iff n2).mp hn
    simp only [hn, Bool.not_true, Bool.false_eq_true, if_false]
    refine ⟨hval, ⟨hi.1, hi.2.1, fun _ => ⟨e1, n2, hne⟩⟩, ?_, by first | rfl | trivial⟩
    simp only [rem]
    rw [if_pos hp, n3]
    exact ht
  · have hnil : ii.bitmapIter.next.2.rem = [] := by
      apply Classical.byContradiction; intro hc
      exact hn ((IntRevIt.hasNext_iff n2).mpr hc)
    have hn' : ii.bitmapIter.next.2.hasNext = false := by simpa using hn
    simp only [hn', Bool.not_false, if_true]
    have hle : ii.posP - 1 ≤ ii.buckets.length := by have := hi.2.1; omega
    obtain ⟨i1, i2, i3, -⟩ :=
      init_spec { ii with bitmapIter := ii.bitmapIter.next.2, posP := ii.posP - 1 } hi.1 hle
    refine ⟨hval, i1, ?_, i3⟩
    rw [i2, ← ht]
    rw [n3] at hnil
    rw [hnil]
    simp

/-- draining delivers exactly the remaining values, largest first -/
theorem drain_spec : ∀ (fuel : Nat) (ii : IntRevIt64), ii.Inv → ii.rem.length ≤ fuel →
    (ii.drain fuel).1 = ii.rem.reverse
  | 0, ii, _, hf => by
    have : ii.rem = [] := List.length_eq_zero_iff.mp (by omega)
    rw [this]; rfl
  | fuel + 1, ii, hi, hf => by
    unfold drain
    rcases eq_nil_or_snoc ii.rem with hr | ⟨t, v, hr⟩
    · have : ii.hasNext = false := by
        cases hh : ii.hasNext
        · rfl
        · exact absurd hr ((hasNext_iff hi).mp hh)
      simp [this, hr]
    · have hh : ii.hasNext = true := (hasNext_iff hi).mpr (by rw [hr]; simp)
      obtain ⟨h1, h2, h3, -⟩ := next_spec hi hr
      rw [if_pos hh]
      simp only []
      rw [h1, drain_spec fuel ii.next.2 h2 (by rw [h3]; rw [hr] at hf; simp at hf; omega), h3, hr]
      simp

/-- **(c, 64, reverse)** draining a fresh `roaring64` reverse iterator yields the members of the denoted set, each once,
in decreasing order -/
theorem drain_create (r : Rep64) (h : r.wf = true) (fuel : Nat) (hf : BSet.card r.toBSet ≤ fuel) :
    ((create r).drain fuel).1 = (BSet.toList r.toBSet).reverse := by
  obtain ⟨h1, h2⟩ := create_spec r h
  have e := valsOfRep64_eq_toList r h
  rw [drain_spec fuel _ h1 (by rw [h2, e, BSet.toList_length]; exact hf), h2, e]

end IntRevIt64

/-! ## the many-iterator -/

namespace ManyIt64

/-- like `ManyIt.Inv`: a many-iterator may rest on an exhausted bucket (the next call moves on); `iter = nil`
(`iterSet = false`) iff it is past the last bucket -/
def Inv (ii : ManyIt64) : Prop :=
  BucketsWf ii.buckets ∧
    (ii.pos < ii.buckets.length →
      ii.hs = (bucketAt ii.buckets ii.pos).high * 4294967296 ∧ ii.bitmapIter.Inv ∧ ii.iterSet = true) ∧
    (¬ ii.pos < ii.buckets.length → ii.iterSet = false)

def rem (ii : ManyIt64) : List Nat :=
  if ii.pos < ii.buckets.length then
    ii.bitmapIter.rem.map (ii.hs + ·) ++ (ii.buckets.drop (ii.pos + 1)).flatMap bucketVals
  else []

theorem init_spec (ii : ManyIt64) (hw : BucketsWf ii.buckets) :
    ii.init.Inv ∧ ii.init.rem = (ii.buckets.drop ii.pos).flatMap bucketVals ∧ ii.init.buckets = ii.buckets ∧
      ii.init.pos = ii.pos := by
  unfold init
  by_cases h : ii.buckets.length > ii.pos
  · rw [if_pos h]
    have hm := hw.ok _ (bucketAt_mem h)
    obtain ⟨c1, c2⟩ := ManyIt.reinit_spec ii.bitmapIter (bucketAt ii.buckets ii.pos).bm hm.2.1
    refine ⟨⟨hw, fun _ => ⟨shl32 _, c1, rfl⟩, fun h' => absurd h h'⟩, ?_, rfl, rfl⟩
    simp only [rem]
    rw [if_pos (by exact h), drop_buckets h, List.flatMap_cons, c2, shl32]
    rfl
  · rw [if_neg h]
    refine ⟨⟨hw, fun h' => absurd h' (by omega), fun _ => rfl⟩, ?_, rfl, rfl⟩
    simp only [rem]
    rw [if_neg (by omega), List.drop_eq_nil_iff.mpr (by omega)]
    rfl

theorem create_spec (r : Rep64) (h : r.wf = true) : (create r).Inv ∧ (create r).rem = valsOfRep64 r := by
  have hw := (bucketsWf_iff r).mp h
  obtain ⟨h1, h2, -, -⟩ := init_spec { ({} : ManyIt64) with pos := 0, buckets := r.buckets } hw
  exact ⟨h1, h2⟩

theorem reinit_spec (ii : ManyIt64) (r : Rep64) (h : r.wf = true) :
    (ii.reinit r).Inv ∧ (ii.reinit r).rem = valsOfRep64 r := by
  have hw := (bucketsWf_iff r).mp h
  obtain ⟨h1, h2, -, -⟩ := init_spec { ii with pos := 0, buckets := r.buckets } hw
  exact ⟨h1, h2⟩

/-- one 32-bit `NextMany64` call inside the loop of `NextMany`, on a state whose `iter` is not nil -/
theorem step_spec {ii : ManyIt64} (hi : ii.Inv) (hset : ii.iterSet = true) (room : Nat) {got : List Nat} {it' : ManyIt}
    (hr : ii.bitmapIter.nextMany64 ii.hs room = (got, it')) :
    ii.pos < ii.buckets.length ∧
      got = (ii.bitmapIter.rem.map (ii.hs + ·)).take room ∧
      ii.rem = ii.bitmapIter.rem.map (ii.hs + ·) ++ (ii.buckets.drop (ii.pos + 1)).flatMap bucketVals ∧
      ({ ii with bitmapIter := it' } : ManyIt64).Inv ∧
      ({ ii with bitmapIter := it' } : ManyIt64).rem =
        (ii.bitmapIter.rem.map (ii.hs + ·)).drop room ++ (ii.buckets.drop (ii.pos + 1)).flatMap bucketVals := by
  have hl : ii.pos < ii.buckets.length := by
    apply Classical.byContradiction; intro hc
    have := hi.2.2 hc
    rw [hset] at this
    cases this
  obtain ⟨e1, e2, e3⟩ := hi.2.1 hl
  have hmod : ii.hs % 4294967296 = 0 := by omega
  obtain ⟨n1, n2, n3⟩ := ManyIt.nextMany64_spec e2 ii.hs room hmod
  rw [hr] at n1 n2 n3
  simp only [] at n1 n2 n3
  refine ⟨hl, ?_, ?_, ⟨hi.1, fun _ => ⟨e1, n2, e3⟩, fun h' => absurd hl h'⟩, ?_⟩
  · rw [n1, List.map_take]
  · simp only [rem]; rw [if_pos hl]
  · simp only [rem]; rw [if_pos hl, n3, List.map_drop]

/-- the loop of `NextMany(buf)` with `len(buf) = room` -/
theorem loop_spec : ∀ (room : Nat) (ii : ManyIt64), ii.Inv →
    (loop room ii).1 = ii.rem.take room ∧ (loop room ii).2.Inv ∧ (loop room ii).2.rem = ii.rem.drop room := by
  intro room ii
  fun_induction ManyIt64.loop room ii with
  | case1 ii => intro hi; exact ⟨rfl, hi, rfl⟩
  | case2 room ii hr0 hn =>
    intro hi
    have hset : ii.iterSet = false := by simpa using hn
    have hl : ¬ ii.pos < ii.buckets.length := fun hl => by
      have := (hi.2.1 hl).2.2
      rw [hset] at this
      cases this
    have : ii.rem = [] := by simp only [rem]; rw [if_neg hl]
    rw [this]
    exact ⟨by simp, hi, by simp⟩
  | case3 room ii hr0 hn got it' hr hg hl ih =>
    intro hi
    have hset : ii.iterSet = true := by simpa using hn
    obtain ⟨-, s2, s3, s4, s5⟩ := step_spec hi hset room hr
    obtain ⟨i1, i2, -, -⟩ := init_spec { ii with bitmapIter := it', pos := ii.pos + 1 } hi.1
    have hA : ii.bitmapIter.rem.map (ii.hs + ·) = [] := by
      have := congrArg List.length s2
      rw [hg, List.length_take] at this
      apply List.eq_nil_of_length_eq_zero
      omega
    rw [hA] at s3
    have : ii.rem = ({ ii with bitmapIter := it', pos := ii.pos + 1 } : ManyIt64).init.rem := by
      rw [s3, i2]; rfl
    rw [this]
    exact ih i1
  | case4 room ii hr0 hn got it' hr hg hl =>
    intro hi
    have hset : ii.iterSet = true := by simpa using hn
    exact absurd (step_spec hi hset room hr).1 hl
  | case5 room ii hr0 hn got it' hr hg hge =>
    intro hi
    have hset : ii.iterSet = true := by simpa using hn
    obtain ⟨-, s2, s3, s4, s5⟩ := step_spec hi hset room hr
    have hlen : room ≤ (ii.bitmapIter.rem.map (ii.hs + ·)).length := by
      have := congrArg List.length s2
      rw [List.length_take] at this
      omega
    refine ⟨?_, s4, ?_⟩
    · show got = _
      rw [s2, s3, List.take_append_of_le_length hlen]
    · show ({ ii with bitmapIter := it' } : ManyIt64).rem = _
      rw [s5, s3, List.drop_append_of_le_length hlen]
  | case6 room ii hr0 hn got it' hr hg hge r ih =>
    intro hi
    have hset : ii.iterSet = true := by simpa using hn
    obtain ⟨-, s2, s3, s4, s5⟩ := step_spec hi hset room hr
    have hlen : got.length = (ii.bitmapIter.rem.map (ii.hs + ·)).length := by
      have := congrArg List.length s2
      rw [List.length_take] at this
      omega
    have hlt : (ii.bitmapIter.rem.map (ii.hs + ·)).length ≤ room := by omega
    obtain ⟨j1, j2, j3⟩ := ih s4
    rw [List.drop_of_length_le hlt, List.nil_append] at s5
    rw [s5] at j1 j3
    rw [List.take_of_length_le hlt] at s2
    refine ⟨?_, j2, ?_⟩
    · show got ++ (loop (room - got.length) { ii with bitmapIter := it' }).1 = _
      rw [j1, s3, List.take_append, List.take_of_length_le hlt, ← s2]
    · show (loop (room - got.length) { ii with bitmapIter := it' }).2.rem = _
      rw [j3, s3, List.drop_append, List.drop_of_length_le hlt, List.nil_append, hlen]

/-- **`NextMany(buf)`**: the next `min len(buf) |rem|` values, in order -/
theorem nextMany_spec {ii : ManyIt64} (hi : ii.Inv) (cap : Nat) :
    (ii.nextMany cap).1 = ii.rem.take cap ∧ (ii.nextMany cap).2.Inv ∧ (ii.nextMany cap).2.rem = ii.rem.drop cap :=
  loop_spec cap ii hi

/-- any sequence of buffer lengths: the calls concatenate to the first `caps.sum` remaining values -/
theorem nextManySeq_spec : ∀ (caps : List Nat) (ii : ManyIt64), ii.Inv →
    (ii.nextManySeq caps).1 = ii.rem.take caps.sum ∧ (ii.nextManySeq caps).2.Inv ∧
      (ii.nextManySeq caps).2.rem = ii.rem.drop caps.sum
  | [], ii, hi => by
    simp only [nextManySeq, List.sum_nil, List.take_zero, List.drop_zero]
    exact ⟨trivial, hi, trivial⟩
  | cap :: caps, ii, hi => by
    obtain ⟨h1, h2, h3⟩ := nextMany_spec hi cap
    obtain ⟨k1, k2, k3⟩ := nextManySeq_spec caps (ii.nextMany cap).2 h2
    simp only [nextManySeq, List.sum_cons]
    refine ⟨?_, k2, ?_⟩
    · show (ii.nextMany cap).1 ++ ((ii.nextMany cap).2.nextManySeq caps).1 = _
      rw [h1, k1, h3, List.take_add]
    · rw [k3, h3, List.drop_drop]

/-- **(c, 64, many)** `NextMany` with ANY sequence of buffer lengths of sufficient total capacity concatenates to the
members of the denoted set, each once, in increasing order -/
theorem nextManySeq_create (r : Rep64) (h : r.wf = true) (caps : List Nat) (hc : BSet.card r.toBSet ≤ caps.sum) :
    ((create r).nextManySeq caps).1 = BSet.toList r.toBSet := by
  obtain ⟨h1, h2⟩ := create_spec r h
  obtain ⟨k1, -, -⟩ := nextManySeq_spec caps _ h1
  have e := valsOfRep64_eq_toList r h
  rw [k1, h2, e]
  apply List.take_of_length_le
  rw [BSet.toList_length]; exact hc

end ManyIt64

end RModel.Impl.It
