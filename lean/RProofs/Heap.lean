import RModel.Impl.Heap
import RModel.Impl.HeapOps
/-!
The copy-on-write discipline preserves the sharing invariant `Safe` (C07 / C08).
-/
namespace RModel.Impl

/-! ## 1. `Safe` in terms of the observation functions `slotAt` / `hdrAt` -/

theorem mem_enumFrom {α : Type} (l : List α) (k n : Nat) (a : α) :
    (n, a) ∈ enumFrom k l ↔ k ≤ n ∧ l[n - k]? = some a := by
  induction l generalizing k with
  | nil => simp [enumFrom]
  | cons x t ih =>
    simp only [enumFrom, List.mem_cons, Prod.mk.injEq, ih]
    constructor
    · rintro (⟨rfl, rfl⟩ | ⟨h1, h2⟩)
      · simp
      · refine ⟨by omega, ?_⟩
        have : n - k = (n - (k + 1)) + 1 := by omega
        rw [this]; simpa using h2
    · rintro ⟨h1, h2⟩
      by_cases hk : n = k
      · subst hk; simp at h2; exact Or.inl ⟨rfl, h2.symm⟩
      · right
        refine ⟨by omega, ?_⟩
        have : n - k = (n - (k + 1)) + 1 := by omega
        rw [this] at h2; simpa using h2

theorem mem_places (h : Heap) (p : Place) : p ∈ h.places ↔ h.slotAt p.b p.i = some p.s := by
  simp only [Heap.places, List.mem_flatMap, List.mem_map, Prod.exists, mem_enumFrom, Heap.slotAt]
  constructor
  · rintro ⟨b, bm, ⟨-, hb⟩, i, s, ⟨-, hi⟩, rfl⟩
    simp at hb hi
    simp [hb, hi]
  · intro hp
    cases hb : h[p.b]? with
    | none => simp [hb] at hp
    | some bm =>
      simp [hb] at hp
      exact ⟨p.b, bm, ⟨by omega, by simpa using hb⟩, p.i, p.s, ⟨by omega, by simpa using hp⟩, rfl⟩

theorem mem_metas (h : Heap) (b r : Nat) (a : ArrId) : (b, r, a) ∈ h.metas ↔ h.hdrAt b r = some a := by
  simp only [Heap.metas, List.mem_flatMap, List.mem_map, Prod.exists, mem_enumFrom, Heap.hdrAt]
  constructor
  · rintro ⟨b', bm, ⟨-, hb⟩, r', a', ⟨-, hi⟩, heq⟩
    simp at hb hi heq
    obtain ⟨rfl, rfl, rfl⟩ := heq
    simp [hb, hi]
  · intro hp
    cases hb : h[b]? with
    | none => simp [hb] at hp
    | some bm =>
      simp [hb] at hp
      exact ⟨b, bm, ⟨by omega, by simpa using hb⟩, r, a, ⟨by omega, by simpa using hp⟩, rfl⟩

/-- the invariant, as a proposition about `slotAt` / `hdrAt` -/
def SafeP (h : Heap) : Prop :=
  (∀ b i s, h.slotAt b i = some s → s.flag = false →
      s.backing.foreign = false ∧
      ∀ b' i' s', h.slotAt b' i' = some s' → (b ≠ b' ∨ i ≠ i') →
        s.cell ≠ s'.cell ∧ (s.backing.id ≠ 0 → s.backing.id ≠ s'.backing.id)) ∧
  (∀ b r a, h.hdrAt b r = some a → a.id ≠ 0 →
      a.foreign = false ∧
      (∀ b' r' a', h.hdrAt b' r' = some a' → (b ≠ b' ∨ r ≠ r') → a'.id ≠ a.id) ∧
      (∀ b' i' s', h.slotAt b' i' = some s' → s'.backing.id ≠ a.id))

theorem safe_iff_safeP (h : Heap) : Safe h = true ↔ SafeP h := by
  rw [safe_iff, SafeP]
  constructor
  · rintro ⟨h1, h2⟩
    constructor
    · intro b i s hs hf
      have := h1 ⟨b, i, s⟩ ((mem_places _ _).2 hs)
      simp [Place.ok, hf, Place.mustFlag] at this
      refine ⟨this.1, ?_⟩
      intro b' i' s' hs' hne
      have h3 := this.2 ⟨b', i', s'⟩ ((mem_places _ _).2 hs')
      simp [Place.same, Place.sharesWith, ArrId.isNil] at h3
      grind
    · intro b r a ha hnz
      have := h2 (b, r, a) ((mem_metas _ _ _ _).2 ha)
      simp [metaOk, ArrId.isNil, hnz] at this
      refine ⟨this.1.1, ?_, ?_⟩
      · intro b' r' a' ha' hne
        have := this.1.2 b' r' a' ((mem_metas _ _ _ _).2 ha')
        grind
      · intro b' i' s' hs'
        exact this.2 ⟨b', i', s'⟩ ((mem_places _ _).2 hs')
  · rintro ⟨h1, h2⟩
    constructor
    · intro p hp
      rw [mem_places] at hp
      cases hf : p.s.flag with
      | true => simp [Place.ok, hf]
      | false =>
        have := h1 _ _ _ hp hf
        simp [Place.ok, hf, Place.mustFlag, this.1]
        intro q hq
        rw [mem_places] at hq
        have h3 := this.2 _ _ _ hq
        simp [Place.same, Place.sharesWith, ArrId.isNil]
        grind
    · rintro ⟨b, r, a⟩ hm
      rw [mem_metas] at hm
      simp only [metaOk, ArrId.isNil]
      by_cases hnz : a.id = 0
      · simp [hnz]
      · have := h2 _ _ _ hm hnz
        simp [hnz, this.1]
        constructor
        · intro b' r' a' hm'
          rw [mem_metas] at hm'
          have := this.2.1 _ _ _ hm'
          grind
        · intro p hp
          rw [mem_places] at hp
          exact this.2.2 _ _ _ hp


theorem Safe.safeP {h : Heap} (hs : Safe h = true) : SafeP h := (safe_iff_safeP h).1 hs

/-! ## 2. freshness in terms of `slotAt` / `hdrAt` -/

theorem slotAt_eq_some {h : Heap} {b i : Nat} {s : HSlot} :
    h.slotAt b i = some s ↔ ∃ bm, h[b]? = some bm ∧ bm.slots[i]? = some s := by
  simp only [Heap.slotAt]; cases h[b]? <;> simp

theorem hdrAt_eq_some {h : Heap} {b r : Nat} {a : ArrId} :
    h.hdrAt b r = some a ↔ ∃ bm, h[b]? = some bm ∧ bm.hdr[r]? = some a := by
  simp only [Heap.hdrAt]; cases h[b]? <;> simp

theorem mem_cellIds {h : Heap} {c : Nat} : c ∈ h.cellIds ↔ ∃ b i s, h.slotAt b i = some s ∧ s.cell = c := by
  simp only [Heap.cellIds, HBitmap.cellIds, List.mem_flatMap, List.mem_map]
  simp only [slotAt_eq_some, List.mem_iff_getElem?]
  constructor
  · rintro ⟨bm, ⟨b, hb⟩, s, ⟨i, hi⟩, rfl⟩; exact ⟨b, i, s, ⟨bm, hb, hi⟩, rfl⟩
  · rintro ⟨b, i, s, ⟨bm, hb, hi⟩, rfl⟩; exact ⟨bm, ⟨b, hb⟩, s, ⟨i, hi⟩, rfl⟩

theorem mem_arrIds {h : Heap} {a : Nat} :
    a ∈ h.arrIds ↔ (∃ b i s, h.slotAt b i = some s ∧ s.backing.id = a) ∨ (∃ b r x, h.hdrAt b r = some x ∧ x.id = a) := by
  simp only [Heap.arrIds, HBitmap.arrIds, List.mem_flatMap, List.mem_map, List.mem_append]
  simp only [slotAt_eq_some, hdrAt_eq_some, List.mem_iff_getElem?]
  constructor
  · rintro ⟨bm, ⟨b, hb⟩, (⟨s, ⟨i, hi⟩, rfl⟩ | ⟨x, ⟨r, hr⟩, rfl⟩)⟩
    · exact Or.inl ⟨b, i, s, ⟨bm, hb, hi⟩, rfl⟩
    · exact Or.inr ⟨b, r, x, ⟨bm, hb, hr⟩, rfl⟩
  · rintro (⟨b, i, s, ⟨bm, hb, hi⟩, rfl⟩ | ⟨b, r, x, ⟨bm, hb, hr⟩, rfl⟩)
    · exact ⟨bm, ⟨b, hb⟩, Or.inl ⟨s, ⟨i, hi⟩, rfl⟩⟩
    · exact ⟨bm, ⟨b, hb⟩, Or.inr ⟨x, ⟨r, hr⟩, rfl⟩⟩

theorem mem_privArrIds {h : Heap} {a : Nat} :
    a ∈ h.privArrIds ↔ (∃ b i s, h.slotAt b i = some s ∧ s.flag = false ∧ s.backing.id = a) ∨
      (∃ b r x, h.hdrAt b r = some x ∧ x.id = a) := by
  simp only [Heap.privArrIds, HBitmap.privArrIds, List.mem_flatMap, List.mem_map, List.mem_append, List.mem_filter]
  simp only [slotAt_eq_some, hdrAt_eq_some, List.mem_iff_getElem?]
  constructor
  · rintro ⟨bm, ⟨b, hb⟩, (⟨s, ⟨⟨i, hi⟩, hf⟩, rfl⟩ | ⟨x, ⟨r, hr⟩, rfl⟩)⟩
    · exact Or.inl ⟨b, i, s, ⟨bm, hb, hi⟩, by simpa using hf, rfl⟩
    · exact Or.inr ⟨b, r, x, ⟨bm, hb, hr⟩, rfl⟩
  · rintro (⟨b, i, s, ⟨bm, hb, hi⟩, hf, rfl⟩ | ⟨b, r, x, ⟨bm, hb, hr⟩, rfl⟩)
    · exact ⟨bm, ⟨b, hb⟩, Or.inl ⟨s, ⟨⟨i, hi⟩, by simpa using hf⟩, rfl⟩⟩
    · exact ⟨bm, ⟨b, hb⟩, Or.inr ⟨x, ⟨r, hr⟩, rfl⟩⟩

theorem not_mem_cellIds {h : Heap} {c : Nat} :
    c ∉ h.cellIds ↔ ∀ b i s, h.slotAt b i = some s → s.cell ≠ c := by
  simp [mem_cellIds]

theorem not_mem_arrIds {h : Heap} {a : Nat} :
    a ∉ h.arrIds ↔ (∀ b i s, h.slotAt b i = some s → s.backing.id ≠ a) ∧ (∀ b r x, h.hdrAt b r = some x → x.id ≠ a) := by
  simp [mem_arrIds]

theorem not_mem_privArrIds {h : Heap} {a : Nat} :
    a ∉ h.privArrIds ↔ (∀ b i s, h.slotAt b i = some s → s.flag = false → s.backing.id ≠ a) ∧
      (∀ b r x, h.hdrAt b r = some x → x.id ≠ a) := by
  simp [mem_privArrIds]

/-! ## 3. observation of the primitive heap updates -/

theorem slotAt_modify (h : Heap) (b : Nat) (f : HBitmap → HBitmap) (b' i : Nat) :
    Heap.slotAt (h.modify b f) b' i = if b = b' then h[b']?.bind (fun bm => (f bm).slots[i]?) else h.slotAt b' i := by
  simp only [Heap.slotAt, List.getElem?_modify]
  split <;> cases h[b']? <;> simp_all

theorem hdrAt_modify (h : Heap) (b : Nat) (f : HBitmap → HBitmap) (b' r : Nat) :
    Heap.hdrAt (h.modify b f) b' r = if b = b' then h[b']?.bind (fun bm => (f bm).hdr[r]?) else h.hdrAt b' r := by
  simp only [Heap.hdrAt, List.getElem?_modify]
  split <;> cases h[b']? <;> simp_all

theorem hdrAt_modify_same (h : Heap) (b : Nat) (f : HBitmap → HBitmap) (hf : ∀ bm, (f bm).hdr = bm.hdr) (b' r : Nat) :
    Heap.hdrAt (h.modify b f) b' r = h.hdrAt b' r := by
  rw [hdrAt_modify]; split <;> simp [Heap.hdrAt, hf]

/-! ## 4. `gate` -/

theorem slotAt_gate (h : Heap) (b i c a b' i' : Nat) (s' : HSlot) :
    (gate h b i c a).slotAt b' i' = some s' ↔
      ∃ s, h.slotAt b' i' = some s ∧ s' = if b' = b ∧ i' = i then s.gate c a else s := by
  simp only [gate, HBitmap.modSlot, List.getElem?_modify, Heap.slotAt]
  cases h[b']? <;> simp <;> grind

theorem hdrAt_gate (h : Heap) (b i c a b' r : Nat) : (gate h b i c a).hdrAt b' r = h.hdrAt b' r := by
  unfold gate; apply hdrAt_modify_same; intro bm; rfl

theorem safeP_gate {h : Heap} (hs : SafeP h) {b i c a : Nat} (hf : Fresh h c a) : SafeP (gate h b i c a) := by
  obtain ⟨hc, ha⟩ := hf
  rw [not_mem_cellIds] at hc
  rw [not_mem_arrIds] at ha
  obtain ⟨h1, h2⟩ := hs
  simp only [SafeP, slotAt_gate, hdrAt_gate, HSlot.gate, HSlot.fresh]
  constructor
  · grind
  · grind


theorem safe_gate {h : Heap} (hs : Safe h = true) {b i c a : Nat} (hf : Fresh h c a) :
    Safe (gate h b i c a) = true :=
  (safe_iff_safeP _).2 (safeP_gate (Safe.safeP hs) hf)

/-! ## 5. freshness of id lists, by position -/

theorem pairwise_iff_getElem? {α : Type} {R : α → α → Prop} (hsymm : ∀ x y, R x y → R y x) (l : List α) :
    l.Pairwise R ↔ ∀ (k k' : Nat) x y, l[k]? = some x → l[k']? = some y → k ≠ k' → R x y := by
  rw [List.pairwise_iff_getElem]
  constructor
  · intro hp k k' x y hx hy hne
    obtain ⟨hk, rfl⟩ := List.getElem?_eq_some_iff.1 hx
    obtain ⟨hk', rfl⟩ := List.getElem?_eq_some_iff.1 hy
    rcases Nat.lt_or_gt_of_ne hne with hlt | hlt
    · exact hp k k' hk hk' hlt
    · exact hsymm _ _ (hp k' k hk' hk hlt)
  · intro hp i j hi hj hlt
    exact hp i j _ _ (List.getElem?_eq_getElem hi) (List.getElem?_eq_getElem hj) (by omega)

theorem freshCells_iff (h : Heap) (cs : List Nat) :
    FreshCells h cs ↔
      (∀ (k : Nat) c, cs[k]? = some c → ∀ b i s, h.slotAt b i = some s → s.cell ≠ c) ∧
      (∀ (k k' : Nat) c c', cs[k]? = some c → cs[k']? = some c' → k ≠ k' → c ≠ c') := by
  unfold FreshCells
  rw [pairwise_iff_getElem? (fun x y hxy => Ne.symm hxy)]
  simp only [not_mem_cellIds]
  simp only [List.mem_iff_getElem?]
  grind

theorem freshArrs_iff (h : Heap) (as : List Nat) :
    FreshArrs h as ↔
      (∀ (k : Nat) a, as[k]? = some a → a ≠ 0 →
        (∀ b i s, h.slotAt b i = some s → s.backing.id ≠ a) ∧ (∀ b r x, h.hdrAt b r = some x → x.id ≠ a)) ∧
      (∀ (k k' : Nat) a a', as[k]? = some a → as[k']? = some a' → k ≠ k' → a ≠ 0 → a ≠ a') := by
  unfold FreshArrs
  rw [pairwise_iff_getElem? (R := fun x y => x ≠ y ∨ x = 0) (by grind)]
  simp only [not_mem_arrIds]
  constructor
  · rintro ⟨h1, h2⟩
    refine ⟨fun k a hk hnz => ?_, fun k k' a a' hk hk' hne hnz heq => ?_⟩
    · rcases h1 a (List.mem_iff_getElem?.2 ⟨k, hk⟩) with h0 | h0
      · exact absurd h0 hnz
      · exact h0
    · rcases h2 k k' a a' hk hk' hne with h0 | h0
      · exact h0 heq
      · exact hnz h0
  · rintro ⟨h1, h2⟩
    refine ⟨fun a ha => ?_, fun k k' a a' hk hk' hne => ?_⟩
    · obtain ⟨k, hk⟩ := List.mem_iff_getElem?.1 ha
      by_cases hnz : a = 0
      · exact Or.inl hnz
      · exact Or.inr (h1 k a hk hnz)
    · by_cases hnz : a = 0
      · exact Or.inr hnz
      · exact Or.inl (h2 k k' a a' hk hk' hne hnz)

theorem FreshArrs.append_left {h : Heap} {as hs : List Nat} (hf : FreshArrs h (as ++ hs)) : FreshArrs h as := by
  refine ⟨fun a ha => hf.1 a (List.mem_append_left _ ha), (List.pairwise_append.1 hf.2).1⟩

theorem FreshArrs.append_right {h : Heap} {as hs : List Nat} (hf : FreshArrs h (as ++ hs)) : FreshArrs h hs := by
  refine ⟨fun a ha => hf.1 a (List.mem_append_right _ ha), (List.pairwise_append.1 hf.2).2.1⟩

theorem FreshArrs.append_cross {h : Heap} {as hs : List Nat} (hf : FreshArrs h (as ++ hs)) :
    ∀ (k r : Nat) a x, as[k]? = some a → hs[r]? = some x → (a ≠ 0 ∨ x ≠ 0) → a ≠ x := by
  intro k r a x ha hx hnz
  have := (List.pairwise_append.1 hf.2).2.2 a (List.mem_iff_getElem?.2 ⟨k, ha⟩) x (List.mem_iff_getElem?.2 ⟨r, hx⟩)
  grind

theorem getElem?_zipFresh (f : HSlot → Nat → Nat → HSlot) (ss : List HSlot) (cs as : List Nat) (i : Nat) (s' : HSlot) :
    (zipFresh f ss cs as)[i]? = some s' ↔
      ∃ s c a, ss[i]? = some s ∧ cs[i]? = some c ∧ as[i]? = some a ∧ s' = f s c a := by
  simp only [zipFresh, List.getElem?_map, Option.map_eq_some_iff, List.getElem?_zip_eq_some, Prod.exists]
  grind

theorem getElem?_mkHdr (hs : List Nat) (r : Nat) (x : ArrId) :
    (mkHdr hs)[r]? = some x ↔ ∃ a, hs[r]? = some a ∧ x = ⟨a, false⟩ := by
  simp only [mkHdr, List.getElem?_map, Option.map_eq_some_iff]
  grind

/-! ## 6. observation of append / erase -/

theorem slotAt_append (h : Heap) (bm : HBitmap) (b i : Nat) :
    Heap.slotAt (h ++ [bm]) b i = if b < h.length then h.slotAt b i else if b = h.length then bm.slots[i]? else none := by
  simp only [Heap.slotAt, List.getElem?_append]
  split
  · rfl
  · split
    · simp_all
    · have : b - h.length ≠ 0 := by omega
      cases hk : b - h.length with
      | zero => omega
      | succ n => simp

theorem hdrAt_append (h : Heap) (bm : HBitmap) (b r : Nat) :
    Heap.hdrAt (h ++ [bm]) b r = if b < h.length then h.hdrAt b r else if b = h.length then bm.hdr[r]? else none := by
  simp only [Heap.hdrAt, List.getElem?_append]
  split
  · rfl
  · split
    · simp_all
    · have : b - h.length ≠ 0 := by omega
      cases hk : b - h.length with
      | zero => omega
      | succ n => simp

theorem slotAt_lt {h : Heap} {b i : Nat} {s : HSlot} (hs : h.slotAt b i = some s) : b < h.length := by
  obtain ⟨bm, hb, -⟩ := slotAt_eq_some.1 hs
  exact (List.getElem?_eq_some_iff.1 hb).1

theorem hdrAt_lt {h : Heap} {b r : Nat} {a : ArrId} (hs : h.hdrAt b r = some a) : b < h.length := by
  obtain ⟨bm, hb, -⟩ := hdrAt_eq_some.1 hs
  exact (List.getElem?_eq_some_iff.1 hb).1

theorem slotAt_append_eq_some (h : Heap) (bm : HBitmap) (b i : Nat) (s : HSlot) :
    Heap.slotAt (h ++ [bm]) b i = some s ↔ h.slotAt b i = some s ∨ (b = h.length ∧ bm.slots[i]? = some s) := by
  rw [slotAt_append]
  have := @slotAt_lt h b i s
  grind

theorem hdrAt_append_eq_some (h : Heap) (bm : HBitmap) (b r : Nat) (a : ArrId) :
    Heap.hdrAt (h ++ [bm]) b r = some a ↔ h.hdrAt b r = some a ∨ (b = h.length ∧ bm.hdr[r]? = some a) := by
  rw [hdrAt_append]
  have := @hdrAt_lt h b r a
  grind


/-! ## 7. observation of the bitmap-local updates -/

theorem slotAt_mapSlots (h : Heap) (b : Nat) (f : HSlot → HSlot) (b' i' : Nat) (s' : HSlot) :
    Heap.slotAt (h.modify b (·.mapSlots f)) b' i' = some s' ↔
      ∃ s, h.slotAt b' i' = some s ∧ s' = if b' = b then f s else s := by
  simp only [HBitmap.mapSlots, List.getElem?_modify, Heap.slotAt]
  cases h[b']? <;> simp <;> grind

theorem slotAt_modSlot (h : Heap) (b i : Nat) (f : HSlot → HSlot) (b' i' : Nat) (s' : HSlot) :
    Heap.slotAt (h.modify b (·.modSlot i f)) b' i' = some s' ↔
      ∃ s, h.slotAt b' i' = some s ∧ s' = if b' = b ∧ i' = i then f s else s := by
  simp only [HBitmap.modSlot, List.getElem?_modify, Heap.slotAt]
  cases h[b']? <;> simp <;> grind

theorem slotAt_lt_nslots {h : Heap} {b i : Nat} {s : HSlot} (hs : h.slotAt b i = some s) : i < h.nslots b := by
  obtain ⟨bm, hb, hi⟩ := slotAt_eq_some.1 hs
  simp [Heap.nslots, hb, (List.getElem?_eq_some_iff.1 hi).1]

theorem slotAt_pushSlot (h : Heap) (b : Nat) (x : HSlot) (b' i' : Nat) (s' : HSlot) :
    Heap.slotAt (h.modify b (·.pushSlot x)) b' i' = some s' ↔
      h.slotAt b' i' = some s' ∨ (b' = b ∧ b < h.length ∧ i' = h.nslots b ∧ s' = x) := by
  simp only [HBitmap.pushSlot, List.getElem?_modify, Heap.slotAt, Heap.nslots]
  by_cases hb : b = b'
  · subst hb
    cases hbm : h[b]? with
    | none => simp; grind
    | some bm =>
      have : b < h.length := (List.getElem?_eq_some_iff.1 hbm).1
      simp [List.getElem?_append]
      grind
  · cases h[b']? <;> simp [hb] <;> grind

theorem length_modify' (h : Heap) (b : Nat) (f : HBitmap → HBitmap) : (h.modify b f).length = h.length := by simp

theorem nslots_modify_of_ne (h : Heap) (b b' : Nat) (f : HBitmap → HBitmap) (hne : b ≠ b') :
    Heap.nslots (h.modify b f) b' = h.nslots b' := by
  simp [Heap.nslots, hne]


/-! ## 8. `cloneBitmap` -/

theorem safeP_clone {h : Heap} (hs : SafeP h) {b : Nat} {name' : String} {cs as hs' : List Nat}
    (hc : FreshCells h cs) (ha : FreshArrs h (as ++ hs')) : SafeP (cloneBitmap h b name' cs as hs') := by
  have ha1 := (freshArrs_iff _ _).1 ha.append_left
  have ha2 := (freshArrs_iff _ _).1 ha.append_right
  have ha3 := ha.append_cross
  rw [freshCells_iff] at hc
  obtain ⟨hc1, hc2⟩ := hc
  obtain ⟨ha11, ha12⟩ := ha1
  obtain ⟨ha21, ha22⟩ := ha2
  unfold cloneBitmap
  cases hb : h[b]? with
  | none => exact hs
  | some bm =>
    have hbm : ∀ i s, bm.slots[i]? = some s ↔ h.slotAt b i = some s := by
      intro i s; simp [Heap.slotAt, hb]
    have hlt := @slotAt_lt h
    have hlt' := @hdrAt_lt h
    obtain ⟨h1, h2⟩ := hs
    simp only
    split
    · simp only [SafeP, slotAt_append_eq_some, hdrAt_append_eq_some, slotAt_mapSlots, List.length_modify,
        hdrAt_modify_same _ _ _ (fun bm => rfl : ∀ bm : HBitmap, (bm.mapSlots HSlot.mark).hdr = bm.hdr),
        List.getElem?_map, Option.map_eq_some_iff, hbm, getElem?_mkHdr, HSlot.mark]
      constructor
      · grind
      · grind
    · simp only [SafeP, slotAt_append_eq_some, hdrAt_append_eq_some, getElem?_zipFresh, hbm, getElem?_mkHdr, HSlot.fresh]
      refine ⟨fun b1 i1 s1 hs1 hf1 => ⟨?_, fun b2 i2 s2 hs2 hne => ?_⟩,
        fun b1 r1 a1 hr1 hnz => ⟨?_, fun b2 r2 a2 hr2 hne => ?_, fun b2 i2 s2 hs2 => ?_⟩⟩
      · rcases hs1 with hs1 | ⟨rfl, s0, c0, a0, h01, h02, h03, rfl⟩
        · exact (h1 _ _ _ hs1 hf1).1
        · rfl
      · rcases hs1 with hs1 | ⟨rfl, s0, c0, a0, h01, h02, h03, rfl⟩ <;>
        rcases hs2 with hs2 | ⟨rfl, s0', c0', a0', h01', h02', h03', rfl⟩
        · exact (h1 _ _ _ hs1 hf1).2 _ _ _ hs2 hne
        · grind
        · grind
        · grind
      · rcases hr1 with hr1 | ⟨rfl, a0, h01, rfl⟩
        · exact (h2 _ _ _ hr1 hnz).1
        · rfl
      · rcases hr1 with hr1 | ⟨rfl, a0, h01, rfl⟩ <;> rcases hr2 with hr2 | ⟨rfl, a0', h01', rfl⟩
        · exact (h2 _ _ _ hr1 hnz).2.1 _ _ _ hr2 hne
        · grind
        · grind
        · grind
      · rcases hr1 with hr1 | ⟨rfl, a0, h01, rfl⟩ <;>
        rcases hs2 with hs2 | ⟨rfl, s0', c0', a0', h01', h02', h03', rfl⟩
        · exact (h2 _ _ _ hr1 hnz).2.2 _ _ _ hs2
        · grind
        · grind
        · grind


/-! ## 9. `appendFresh`, `appendCopy` -/

theorem nslots_modSlot (h : Heap) (b i : Nat) (f : HSlot → HSlot) (b' : Nat) :
    Heap.nslots (h.modify b (·.modSlot i f)) b' = h.nslots b' := by
  simp only [Heap.nslots, List.getElem?_modify, HBitmap.modSlot]
  cases h[b']? <;> simp
  split <;> simp

theorem safeP_pushFresh {h : Heap} (hs : SafeP h) {b key c a : Nat} (hf : Fresh h c a) :
    SafeP (h.modify b (·.pushSlot { key := key, cell := c, backing := ⟨a, false⟩, flag := false })) := by
  obtain ⟨hc, ha⟩ := hf
  rw [not_mem_cellIds] at hc
  rw [not_mem_arrIds] at ha
  obtain ⟨h1, h2⟩ := hs
  have hn := @slotAt_lt_nslots h
  simp only [SafeP, slotAt_pushSlot, hdrAt_modify_same _ _ _ (fun bm => rfl : ∀ bm : HBitmap, (bm.pushSlot _).hdr = bm.hdr)]
  refine ⟨fun b1 i1 s1 hs1 hf1 => ⟨?_, fun b2 i2 s2 hs2 hne => ?_⟩,
    fun b1 r1 a1 hr1 hnz => ⟨?_, fun b2 r2 a2 hr2 hne => ?_, fun b2 i2 s2 hs2 => ?_⟩⟩
  · rcases hs1 with hs1 | ⟨rfl, -, rfl, rfl⟩
    · exact (h1 _ _ _ hs1 hf1).1
    · rfl
  · rcases hs1 with hs1 | ⟨rfl, -, rfl, rfl⟩ <;> rcases hs2 with hs2 | ⟨rfl, -, rfl, rfl⟩
    · exact (h1 _ _ _ hs1 hf1).2 _ _ _ hs2 hne
    · grind
    · grind
    · grind
  · exact (h2 _ _ _ hr1 hnz).1
  · exact (h2 _ _ _ hr1 hnz).2.1 _ _ _ hr2 hne
  · rcases hs2 with hs2 | ⟨rfl, -, rfl, rfl⟩
    · exact (h2 _ _ _ hr1 hnz).2.2 _ _ _ hs2
    · grind

theorem safeP_appendFresh {h : Heap} (hs : SafeP h) {b key c a : Nat} (hf : Fresh h c a) :
    SafeP (appendFresh h b key c a) := safeP_pushFresh hs hf

theorem safeP_appendCopy {h : Heap} (hs : SafeP h) {dst src i c a : Nat} (hf : Fresh h c a) :
    SafeP (appendCopy h dst src i c a) := by
  unfold appendCopy
  split
  · rename_i d sb s hd hsb hsi
    split
    · obtain ⟨h1, h2⟩ := hs
      have hn := @slotAt_lt_nslots h
      simp only [SafeP, slotAt_pushSlot, slotAt_modSlot, nslots_modSlot, List.length_modify,
        hdrAt_modify_same _ _ _ (fun bm => rfl : ∀ bm : HBitmap, (bm.pushSlot _).hdr = bm.hdr),
        hdrAt_modify_same _ _ _ (fun bm => rfl : ∀ bm : HBitmap, (bm.modSlot _ _).hdr = bm.hdr)]
      refine ⟨fun b1 i1 s1 hs1 hf1 => ⟨?_, fun b2 i2 s2 hs2 hne => ?_⟩,
        fun b1 r1 a1 hr1 hnz => ⟨?_, fun b2 r2 a2 hr2 hne => ?_, fun b2 i2 s2 hs2 => ?_⟩⟩
      · rcases hs1 with ⟨s0, hs1, rfl⟩ | ⟨rfl, -, rfl, rfl⟩
        · grind [HSlot.mark]
        · simp [HSlot.mark] at hf1
      · rcases hs1 with ⟨s0, hs1, rfl⟩ | ⟨rfl, -, rfl, rfl⟩ <;> rcases hs2 with ⟨s0', hs2, rfl⟩ | ⟨rfl, -, rfl, rfl⟩
        · grind [HSlot.mark]
        · grind [HSlot.mark]
        · simp [HSlot.mark] at hf1
        · simp [HSlot.mark] at hf1
      · exact (h2 _ _ _ hr1 hnz).1
      · exact (h2 _ _ _ hr1 hnz).2.1 _ _ _ hr2 hne
      · rcases hs2 with ⟨s0', hs2, rfl⟩ | ⟨rfl, -, rfl, rfl⟩
        · grind [HSlot.mark]
        · grind [HSlot.mark]
    · exact safeP_pushFresh hs hf
  · exact hs


/-! ## 10. removing things: the embedding lemma, `removeSlot`, `dropBitmap`, `insertFresh`, `setCow` -/

/-- if the places / header arrays of `h'` map injectively to places / header arrays of `h` that reach the same cell and
array and are not more flagged, then `h'` is safe when `h` is -/
theorem safeP_embed {h h' : Heap} (hs : SafeP h) (φ ψ : Nat → Nat → Nat × Nat)
    (hφ : ∀ b i s', h'.slotAt b i = some s' → ∃ s, h.slotAt (φ b i).1 (φ b i).2 = some s ∧
      s.cell = s'.cell ∧ s.backing = s'.backing ∧ (s.flag = true → s'.flag = true))
    (hφi : ∀ b i b' i' s s', h'.slotAt b i = some s → h'.slotAt b' i' = some s' → φ b i = φ b' i' → b = b' ∧ i = i')
    (hψ : ∀ b r a, h'.hdrAt b r = some a → h.hdrAt (ψ b r).1 (ψ b r).2 = some a)
    (hψi : ∀ b r b' r' a a', h'.hdrAt b r = some a → h'.hdrAt b' r' = some a' → ψ b r = ψ b' r' → b = b' ∧ r = r') :
    SafeP h' := by
  obtain ⟨h1, h2⟩ := hs
  refine ⟨fun b1 i1 s1 hs1 hf1 => ?_, fun b1 r1 a1 hr1 hnz => ?_⟩
  · obtain ⟨t1, ht1, hc1, hb1, hfl1⟩ := hφ _ _ _ hs1
    have hft : t1.flag = false := by
      cases hq : t1.flag with
      | false => rfl
      | true => exact absurd (hfl1 hq) (by simp [hf1])
    have := h1 _ _ _ ht1 hft
    refine ⟨by rw [← hb1]; exact this.1, fun b2 i2 s2 hs2 hne => ?_⟩
    obtain ⟨t2, ht2, hc2, hb2, -⟩ := hφ _ _ _ hs2
    have hne' : (φ b1 i1).1 ≠ (φ b2 i2).1 ∨ (φ b1 i1).2 ≠ (φ b2 i2).2 := by
      have := hφi _ _ _ _ _ _ hs1 hs2
      grind
    have := this.2 _ _ _ ht2 hne'
    grind
  · have hr := hψ _ _ _ hr1
    have := h2 _ _ _ hr hnz
    refine ⟨this.1, fun b2 r2 a2 hr2 hne => ?_, fun b2 i2 s2 hs2 => ?_⟩
    · have hne' : (ψ b1 r1).1 ≠ (ψ b2 r2).1 ∨ (ψ b1 r1).2 ≠ (ψ b2 r2).2 := by
        have := hψi _ _ _ _ _ _ hr1 hr2
        grind
      exact this.2.1 _ _ _ (hψ _ _ _ hr2) hne'
    · obtain ⟨t2, ht2, hc2, hb2, -⟩ := hφ _ _ _ hs2
      have := this.2.2 _ _ _ ht2
      grind

theorem hdrAt_removeSlot (h : Heap) (b i b' r : Nat) : (removeSlot h b i).hdrAt b' r = h.hdrAt b' r := by
  unfold removeSlot; apply hdrAt_modify_same; intro bm; rfl

theorem hdrAt_setCow (h : Heap) (b : Nat) (v : Bool) (b' r : Nat) : (setCow h b v).hdrAt b' r = h.hdrAt b' r := by
  unfold setCow; apply hdrAt_modify_same; intro bm; rfl

theorem hdrAt_insertFresh (h : Heap) (b pos key c a b' r : Nat) :
    (insertFresh h b pos key c a).hdrAt b' r = h.hdrAt b' r := by
  unfold insertFresh; apply hdrAt_modify_same; intro bm; rfl

theorem hdrAt_appendFresh (h : Heap) (b key c a b' r : Nat) :
    (appendFresh h b key c a).hdrAt b' r = h.hdrAt b' r := by
  unfold appendFresh; apply hdrAt_modify_same; intro bm; rfl

theorem slotAt_removeSlot (h : Heap) (b i b' i' : Nat) :
    (removeSlot h b i).slotAt b' i' = h.slotAt b' (if b' = b ∧ i ≤ i' then i' + 1 else i') := by
  simp only [removeSlot, Heap.slotAt, List.getElem?_modify]
  cases h[b']? with
  | none => simp
  | some bm => simp; grind

theorem safeP_removeSlot {h : Heap} (hs : SafeP h) (b i : Nat) : SafeP (removeSlot h b i) := by
  apply safeP_embed hs (fun b' i' => (b', if b' = b ∧ i ≤ i' then i' + 1 else i')) (fun b' r => (b', r))
  · intro b' i' s' hs'; rw [slotAt_removeSlot] at hs'; exact ⟨s', hs', rfl, rfl, id⟩
  · intros; grind
  · intro b' r a ha
    rw [hdrAt_removeSlot] at ha; exact ha
  · intros; grind

theorem slotAt_dropBitmap (h : Heap) (b b' i' : Nat) :
    (dropBitmap h b).slotAt b' i' = h.slotAt (if b' < b then b' else b' + 1) i' := by
  simp only [dropBitmap, Heap.slotAt, List.getElem?_eraseIdx]; split <;> rfl

theorem hdrAt_dropBitmap (h : Heap) (b b' r : Nat) :
    (dropBitmap h b).hdrAt b' r = h.hdrAt (if b' < b then b' else b' + 1) r := by
  simp only [dropBitmap, Heap.hdrAt, List.getElem?_eraseIdx]; split <;> rfl

theorem safeP_dropBitmap {h : Heap} (hs : SafeP h) (b : Nat) : SafeP (dropBitmap h b) := by
  apply safeP_embed hs (fun b' i' => (if b' < b then b' else b' + 1, i')) (fun b' r => (if b' < b then b' else b' + 1, r))
  · intro b' i' s' hs'; rw [slotAt_dropBitmap] at hs'; exact ⟨s', hs', rfl, rfl, id⟩
  · intros; grind
  · intro b' r a ha; rw [hdrAt_dropBitmap] at ha; exact ha
  · intros; grind

theorem safeP_setCow {h : Heap} (hs : SafeP h) (b : Nat) (v : Bool) : SafeP (setCow h b v) := by
  apply safeP_embed hs (fun b' i' => (b', i')) (fun b' r => (b', r))
  · intro b' i' s' hs'
    refine ⟨s', ?_, rfl, rfl, id⟩
    simp only [setCow, Heap.slotAt, List.getElem?_modify] at hs' ⊢
    cases hb : h[b']? <;> simp_all
    grind
  · intros; grind
  · intro b' r a ha
    rw [hdrAt_setCow] at ha; exact ha
  · intros; grind

theorem safeP_insertFresh {h : Heap} (hs : SafeP h) {b pos key c a : Nat} (hf : Fresh h c a) :
    SafeP (insertFresh h b pos key c a) := by
  have hn := @slotAt_lt_nslots h
  apply safeP_embed (safeP_appendFresh hs (b := b) (key := key) hf)
    (fun b' i' => (b', if b' = b then (if i' < pos then i' else if i' = pos then h.nslots b else i' - 1) else i'))
    (fun b' r => (b', r))
  · intro b' i' s' hs'
    refine ⟨s', ?_, rfl, rfl, id⟩
    simp only [appendFresh, slotAt_pushSlot]
    simp only [insertFresh, Heap.slotAt, List.getElem?_modify] at hs'
    simp only [Heap.slotAt, Heap.nslots]
    cases hb : h[b']? with
    | none => simp [hb] at hs'
    | some bm =>
      have : b' < h.length := (List.getElem?_eq_some_iff.1 hb).1
      simp [hb] at hs' ⊢
      by_cases hbb : b = b'
      · subst hbb
        simp only [if_true, hb, Option.map_some, Option.getD_some, true_and] at hs' ⊢
        rw [List.getElem?_insertIdx] at hs'
        by_cases h1 : i' < pos
        · simp [h1] at hs' ⊢; exact Or.inl hs'
        · by_cases h2 : i' = pos
          · subst h2
            simp at hs' ⊢
            grind
          · simp [h1, h2] at hs' ⊢; exact Or.inl hs'
      · simp [hbb] at hs'
        grind
  · intro b1 i1 b2 i2 s1 s2 h1 h2 heq
    simp only [insertFresh, Heap.slotAt, List.getElem?_modify] at h1 h2
    simp only [Heap.nslots] at heq
    cases hb1 : h[b1]? with
    | none => simp [hb1] at h1
    | some bm1 =>
      cases hb2 : h[b2]? with
      | none => simp [hb2] at h2
      | some bm2 =>
        simp [hb1] at h1
        simp [hb2] at h2
        simp at heq
        obtain ⟨rfl, heq⟩ := heq
        refine ⟨rfl, ?_⟩
        by_cases hbb : b = b1
        · subst hbb
          have e1 := (List.getElem?_eq_some_iff.1 h1).1
          have e2 := (List.getElem?_eq_some_iff.1 h2).1
          simp [hb1] at heq hb2 e1 e2
          simp [List.length_insertIdx] at e1 e2
          grind
        · have : ¬ b1 = b := fun h => hbb h.symm
          simpa [this] using heq
  · intro b' r a ha
    rw [hdrAt_insertFresh] at ha; rw [hdrAt_appendFresh]; exact ha
  · intros; grind


/-! ## 11. `detach`, `addZeroCopy` -/

theorem slotAt_detach (h : Heap) (b : Nat) (cs as : List Nat) (b' i' : Nat) (s' : HSlot) :
    (detach h b cs as).slotAt b' i' = some s' ↔
      (b' ≠ b ∧ h.slotAt b' i' = some s') ∨
      (b' = b ∧ ∃ s c a, h.slotAt b i' = some s ∧ cs[i']? = some c ∧ as[i']? = some a ∧ s' = s.gate c a) := by
  simp only [detach, Heap.slotAt, List.getElem?_modify]
  cases hb : h[b']? with
  | none => simp; grind
  | some bm =>
    by_cases hbb : b = b'
    · subst hbb; simp [hb, getElem?_zipFresh]
    · have : ¬ b' = b := fun h => hbb h.symm
      simp [hbb, this]

theorem hdrAt_detach (h : Heap) (b : Nat) (cs as : List Nat) (b' r : Nat) :
    (detach h b cs as).hdrAt b' r = h.hdrAt b' r := by
  unfold detach; apply hdrAt_modify_same; intro bm; rfl

theorem slotAt_detach_inv {h : Heap} {b : Nat} {cs as : List Nat} {b' i' : Nat} {s' : HSlot}
    (hs : (detach h b cs as).slotAt b' i' = some s') :
      (b' ≠ b ∧ h.slotAt b' i' = some s') ∨
      (b' = b ∧ h.slotAt b i' = some s' ∧ s'.flag = false) ∨
      (b' = b ∧ ∃ s c a, h.slotAt b i' = some s ∧ s.flag = true ∧ cs[i']? = some c ∧ as[i']? = some a ∧
        s' = { key := s.key, cell := c, backing := ⟨a, false⟩, flag := false }) := by
  rw [slotAt_detach] at hs
  rcases hs with hs | ⟨rfl, s, c, a, h1, h2, h3, rfl⟩
  · exact Or.inl hs
  · cases hf : s.flag with
    | false => right; left; simp [HSlot.gate, hf, h1]
    | true => right; right; exact ⟨rfl, s, c, a, h1, hf, h2, h3, by simp [HSlot.gate, hf, HSlot.fresh]⟩

theorem safeP_detach {h : Heap} (hs : SafeP h) {b : Nat} {cs as : List Nat}
    (hc : FreshCells h cs) (ha : FreshArrs h as) : SafeP (detach h b cs as) := by
  rw [freshCells_iff] at hc
  rw [freshArrs_iff] at ha
  obtain ⟨hc1, hc2⟩ := hc
  obtain ⟨ha1, ha2⟩ := ha
  obtain ⟨h1, h2⟩ := hs
  simp only [SafeP, hdrAt_detach]
  refine ⟨fun b1 i1 s1 hs1 hf1 => ⟨?_, fun b2 i2 s2 hs2 hne => ?_⟩,
    fun b1 r1 a1 hr1 hnz => ⟨?_, fun b2 r2 a2 hr2 hne => ?_, fun b2 i2 s2 hs2 => ?_⟩⟩
  · rcases slotAt_detach_inv hs1 with ⟨hb1, p1⟩ | ⟨rfl, p1, -⟩ | ⟨rfl, s0, c0, a0, h01, hfl, h02, h03, rfl⟩
    · exact (h1 _ _ _ p1 hf1).1
    · exact (h1 _ _ _ p1 hf1).1
    · rfl
  · rcases slotAt_detach_inv hs1 with ⟨hb1, p1⟩ | ⟨rfl, p1, -⟩ | ⟨rfl, s0, c0, a0, h01, hfl, h02, h03, rfl⟩ <;>
    rcases slotAt_detach_inv hs2 with ⟨hb2, p2⟩ | ⟨rfl, p2, -⟩ | ⟨rfl, s0', c0', a0', h01', hfl', h02', h03', rfl⟩
    · exact (h1 _ _ _ p1 hf1).2 _ _ _ p2 hne
    · exact (h1 _ _ _ p1 hf1).2 _ _ _ p2 hne
    · grind
    · exact (h1 _ _ _ p1 hf1).2 _ _ _ p2 hne
    · exact (h1 _ _ _ p1 hf1).2 _ _ _ p2 hne
    · grind
    · grind
    · grind
    · grind
  · exact (h2 _ _ _ hr1 hnz).1
  · exact (h2 _ _ _ hr1 hnz).2.1 _ _ _ hr2 hne
  · rcases slotAt_detach_inv hs2 with ⟨hb2, p2⟩ | ⟨rfl, p2, -⟩ | ⟨rfl, s0', c0', a0', h01', hfl', h02', h03', rfl⟩
    · exact (h2 _ _ _ hr1 hnz).2.2 _ _ _ p2
    · exact (h2 _ _ _ hr1 hnz).2.2 _ _ _ p2
    · grind

theorem zeroCopyOk_iff (h : Heap) (slots : List HSlot) (hs : List Nat) :
    ZeroCopyOk h slots hs →
      (∀ (i : Nat) s, slots[i]? = some s → s.flag = true ∧
        (∀ b' i' s', h.slotAt b' i' = some s' → s'.cell ≠ s.cell) ∧
        (s.backing.id ≠ 0 → (∀ b' i' s', h.slotAt b' i' = some s' → s'.flag = false → s'.backing.id ≠ s.backing.id) ∧
          (∀ b' r x, h.hdrAt b' r = some x → x.id ≠ s.backing.id))) ∧
      FreshArrs h hs ∧
      (∀ (i r : Nat) s a, slots[i]? = some s → hs[r]? = some a → a ≠ 0 → s.backing.id ≠ a) := by
  rintro ⟨h1, h2, h3⟩
  refine ⟨fun i s hi => ?_, h2, fun i r s a hi hr hnz => ?_⟩
  · obtain ⟨hf, hc, ha⟩ := h1 s (List.mem_iff_getElem?.2 ⟨i, hi⟩)
    rw [not_mem_cellIds] at hc
    rw [not_mem_privArrIds] at ha
    refine ⟨hf, hc, fun hnz => ?_⟩
    rcases ha with ha | ha
    · exact absurd ha hnz
    · exact ha
  · rcases h3 s (List.mem_iff_getElem?.2 ⟨i, hi⟩) a (List.mem_iff_getElem?.2 ⟨r, hr⟩) with h0 | h0
    · exact absurd h0 hnz
    · exact h0

theorem safeP_addZeroCopy {h : Heap} (hs : SafeP h) {name : String} {cow : Bool} {slots : List HSlot} {hs' : List Nat}
    (hz : ZeroCopyOk h slots hs') : SafeP (addZeroCopy h name cow slots hs') := by
  obtain ⟨hz1, hz2, hz3⟩ := zeroCopyOk_iff _ _ _ hz
  rw [freshArrs_iff] at hz2
  obtain ⟨ha1, ha2⟩ := hz2
  obtain ⟨h1, h2⟩ := hs
  have hlt := @slotAt_lt h
  have hlt' := @hdrAt_lt h
  simp only [SafeP, addZeroCopy, slotAt_append_eq_some, hdrAt_append_eq_some, getElem?_mkHdr]
  refine ⟨fun b1 i1 s1 hs1 hf1 => ⟨?_, fun b2 i2 s2 hs2 hne => ?_⟩,
    fun b1 r1 a1 hr1 hnz => ⟨?_, fun b2 r2 a2 hr2 hne => ?_, fun b2 i2 s2 hs2 => ?_⟩⟩
  · rcases hs1 with hs1 | ⟨rfl, hs1⟩
    · exact (h1 _ _ _ hs1 hf1).1
    · grind
  · rcases hs1 with hs1 | ⟨rfl, hs1⟩ <;> rcases hs2 with hs2 | ⟨rfl, hs2⟩
    · exact (h1 _ _ _ hs1 hf1).2 _ _ _ hs2 hne
    · grind
    · grind
    · grind
  · rcases hr1 with hr1 | ⟨rfl, a0, h01, rfl⟩
    · exact (h2 _ _ _ hr1 hnz).1
    · rfl
  · rcases hr1 with hr1 | ⟨rfl, a0, h01, rfl⟩ <;> rcases hr2 with hr2 | ⟨rfl, a0', h01', rfl⟩
    · exact (h2 _ _ _ hr1 hnz).2.1 _ _ _ hr2 hne
    · grind
    · grind
    · grind
  · rcases hr1 with hr1 | ⟨rfl, a0, h01, rfl⟩ <;> rcases hs2 with hs2 | ⟨rfl, hs2⟩
    · exact (h2 _ _ _ hr1 hnz).2.2 _ _ _ hs2
    · grind
    · grind
    · grind


/-! ## 12. the `Safe`-level theorems, one per operation -/

theorem safe_cloneBitmap {h : Heap} (hs : Safe h = true) {b : Nat} {name' : String} {cs as hs' : List Nat}
    (hc : FreshCells h cs) (ha : FreshArrs h (as ++ hs')) : Safe (cloneBitmap h b name' cs as hs') = true :=
  (safe_iff_safeP _).2 (safeP_clone (Safe.safeP hs) hc ha)

theorem safe_appendCopy {h : Heap} (hs : Safe h = true) {dst src i c a : Nat} (hf : Fresh h c a) :
    Safe (appendCopy h dst src i c a) = true :=
  (safe_iff_safeP _).2 (safeP_appendCopy (Safe.safeP hs) hf)

theorem safe_appendFresh {h : Heap} (hs : Safe h = true) {b key c a : Nat} (hf : Fresh h c a) :
    Safe (appendFresh h b key c a) = true :=
  (safe_iff_safeP _).2 (safeP_appendFresh (Safe.safeP hs) hf)

theorem safe_insertFresh {h : Heap} (hs : Safe h = true) {b pos key c a : Nat} (hf : Fresh h c a) :
    Safe (insertFresh h b pos key c a) = true :=
  (safe_iff_safeP _).2 (safeP_insertFresh (Safe.safeP hs) hf)

theorem safe_removeSlot {h : Heap} (hs : Safe h = true) (b i : Nat) : Safe (removeSlot h b i) = true :=
  (safe_iff_safeP _).2 (safeP_removeSlot (Safe.safeP hs) b i)

theorem safe_detach {h : Heap} (hs : Safe h = true) {b : Nat} {cs as : List Nat}
    (hc : FreshCells h cs) (ha : FreshArrs h as) : Safe (detach h b cs as) = true :=
  (safe_iff_safeP _).2 (safeP_detach (Safe.safeP hs) hc ha)

theorem safe_addZeroCopy {h : Heap} (hs : Safe h = true) {name : String} {cow : Bool} {slots : List HSlot}
    {hs' : List Nat} (hz : ZeroCopyOk h slots hs') : Safe (addZeroCopy h name cow slots hs') = true :=
  (safe_iff_safeP _).2 (safeP_addZeroCopy (Safe.safeP hs) hz)

theorem safe_addEmpty {h : Heap} (hs : Safe h = true) {name : String} {cow : Bool} {hs' : List Nat}
    (hf : FreshArrs h hs') : Safe (addEmpty h name cow hs') = true :=
  safe_addZeroCopy hs ⟨by simp, hf, by simp⟩

theorem safe_dropBitmap {h : Heap} (hs : Safe h = true) (b : Nat) : Safe (dropBitmap h b) = true :=
  (safe_iff_safeP _).2 (safeP_dropBitmap (Safe.safeP hs) b)

theorem safe_setCow {h : Heap} (hs : Safe h = true) (b : Nat) (v : Bool) : Safe (setCow h b v) = true :=
  (safe_iff_safeP _).2 (safeP_setCow (Safe.safeP hs) b v)

/-! ## 13. the write frame: what `gate` returns is private and local -/

theorem Place.sharesWith_symm_false {p q : Place} (h : p.sharesWith q = false) : q.sharesWith p = false := by
  simp only [Place.sharesWith, ArrId.isNil] at h ⊢
  grind

/-- every place other than `(b, i)` is untouched by `gate` -/
theorem gate_frame (h : Heap) (b i c a : Nat) (q : Place) (hq : ¬(q.b = b ∧ q.i = i)) :
    q ∈ (gate h b i c a).places ↔ q ∈ h.places := by
  simp only [mem_places, slotAt_gate, hq, if_false]
  grind

/-- the place `(b, i)` still exists after `gate`, with the same key -/
theorem gate_place_exists {h : Heap} {b i : Nat} {s : HSlot} (c a : Nat) (hs : h.slotAt b i = some s) :
    ∃ p ∈ (gate h b i c a).places, p.b = b ∧ p.i = i ∧ p.s.key = s.key := by
  refine ⟨⟨b, i, s.gate c a⟩, (mem_places _ _).2 ((slotAt_gate _ _ _ _ _ _ _ _).2 ⟨s, hs, by simp⟩), rfl, rfl, ?_⟩
  simp only [HSlot.gate, HSlot.fresh]; split <;> rfl

/-- **Write frame.**  After `getWritableContainerAtIndex(i)` on bitmap `b` of a safe heap, the slot `(b, i)` is unflagged,
its array is not caller memory, and NO other place of the heap reaches its cell or its array (in either direction);
all other places are what they were before. -/
theorem gate_private {h : Heap} (hs : Safe h = true) {b i c a : Nat} (hf : Fresh h c a)
    (p : Place) (hp : p ∈ (gate h b i c a).places) (hb : p.b = b) (hi : p.i = i) :
    p.s.flag = false ∧ p.s.backing.foreign = false ∧
    ∀ q ∈ (gate h b i c a).places, p.same q = false →
      p.sharesWith q = false ∧ q.sharesWith p = false ∧ q ∈ h.places := by
  have hs' := safe_gate (b := b) (i := i) hs hf
  have hflag : p.s.flag = false := by
    rw [mem_places, slotAt_gate] at hp
    obtain ⟨s, -, hps⟩ := hp
    simp only [hb, hi, and_self, if_true] at hps
    rw [hps]; simp only [HSlot.gate, HSlot.fresh]
    cases hfl : s.flag <;> simp [hfl]
  refine ⟨hflag, safe_unflagged_not_foreign _ hs' p hp hflag, fun q hq hne => ?_⟩
  have hsh := safe_unflagged_private _ hs' p q hp hq hflag hne
  refine ⟨hsh, Place.sharesWith_symm_false hsh, (gate_frame h b i c a q ?_).1 hq⟩
  simp only [Place.same] at hne
  grind

/-- **Caller memory is never written**: the array of the slot returned by `gate` is not foreign -/
theorem gate_not_foreign {h : Heap} (hs : Safe h = true) {b i c a : Nat} (hf : Fresh h c a) (s : HSlot)
    (hsl : (gate h b i c a).slotAt b i = some s) : s.flag = false ∧ s.backing.foreign = false := by
  have := gate_private hs hf ⟨b, i, s⟩ ((mem_places _ _).2 hsl) rfl rfl
  exact ⟨this.1, this.2.1⟩

/-! ## 14. `detach` leaves no reference to caller memory -/

/-- nil header arrays are not marked foreign (holds for every heap built by the operations, see `hdrLocal_step`) -/
def HdrLocal (h : Heap) : Prop := ∀ b r a, h.hdrAt b r = some a → a.foreign = false

theorem getElem?_detach (h : Heap) (b : Nat) (cs as : List Nat) :
    (detach h b cs as)[b]? = h[b]?.map fun bm => { bm with slots := zipFresh HSlot.gate bm.slots cs as } := by
  simp [detach]

/-- after `cloneCopyOnWriteContainers` on a safe heap the bitmap references no caller memory.
The hypothesis on nil header arrays is needed: `Safe` ignores the `foreign` bit of a nil array (see the counterexample below). -/
theorem detach_no_foreign {h : Heap} (hs : Safe h = true) {b : Nat} {bm : HBitmap} (cs as : List Nat)
    (hb : h[b]? = some bm) (hnil : ∀ a ∈ bm.hdr, a.id = 0 → a.foreign = false) :
    ∃ bm', (detach h b cs as)[b]? = some bm' ∧ bm'.foreignRefs = 0 := by
  obtain ⟨h1, h2⟩ := Safe.safeP hs
  refine ⟨_, by rw [getElem?_detach, hb]; rfl, ?_⟩
  simp only [HBitmap.foreignRefs, Nat.add_eq_zero_iff, List.length_eq_zero_iff, List.filter_eq_nil_iff]
  constructor
  · intro s' hs'
    obtain ⟨i, hi⟩ := List.mem_iff_getElem?.1 hs'
    obtain ⟨s, c, a, hsi, -, -, rfl⟩ := (getElem?_zipFresh _ _ _ _ _ _).1 hi
    cases hfl : s.flag with
    | true => simp [HSlot.gate, hfl, HSlot.fresh]
    | false =>
      have := (h1 b i s (by simp [Heap.slotAt, hb, hsi]) hfl).1
      simp [HSlot.gate, hfl, this]
  · intro a ha
    obtain ⟨r, hr⟩ := List.mem_iff_getElem?.1 ha
    by_cases hnz : a.id = 0
    · simp [hnil a ha hnz]
    · simp [(h2 b r a (by simp [Heap.hdrAt, hb, hr]) hnz).1]

theorem detach_no_foreign' {h : Heap} (hs : Safe h = true) (hl : HdrLocal h) {b : Nat} {bm : HBitmap} (cs as : List Nat)
    (hb : h[b]? = some bm) : ∃ bm', (detach h b cs as)[b]? = some bm' ∧ bm'.foreignRefs = 0 := by
  apply detach_no_foreign hs cs as hb
  intro a ha _
  obtain ⟨r, hr⟩ := List.mem_iff_getElem?.1 ha
  exact hl b r a (by simp [Heap.hdrAt, hb, hr])

/-- `Safe` alone does not give `detach_no_foreign`: a nil header array may carry the foreign bit -/
example :
    let h : Heap := [{ name := "x", cow := false, hdr := [⟨0, true⟩], slots := [] }]
    Safe h = true ∧ (detach h 0 [] [])[0]?.map (·.foreignRefs) = some 1 := by decide


/-! ## 15. reachability closure: every heap built by the operations is safe -/

theorem hdrAt_appendCopy (h : Heap) (dst src i c a b' r : Nat) :
    (appendCopy h dst src i c a).hdrAt b' r = h.hdrAt b' r := by
  unfold appendCopy
  split
  · split
    · rw [hdrAt_modify_same _ _ _ (fun bm => rfl : ∀ bm : HBitmap, (bm.pushSlot _).hdr = bm.hdr),
        hdrAt_modify_same _ _ _ (fun bm => rfl : ∀ bm : HBitmap, (bm.modSlot _ _).hdr = bm.hdr)]
    · rw [hdrAt_modify_same _ _ _ (fun bm => rfl : ∀ bm : HBitmap, (bm.pushSlot _).hdr = bm.hdr)]
  · rfl

theorem hdrAt_cloneBitmap_inv {h : Heap} {b : Nat} {name' : String} {cs as hs : List Nat} {b' r : Nat} {x : ArrId}
    (hx : (cloneBitmap h b name' cs as hs).hdrAt b' r = some x) : h.hdrAt b' r = some x ∨ x.foreign = false := by
  unfold cloneBitmap at hx
  split at hx
  · exact Or.inl hx
  · split at hx
    · rw [hdrAt_append_eq_some,
        hdrAt_modify_same _ _ _ (fun bm => rfl : ∀ bm : HBitmap, (bm.mapSlots HSlot.mark).hdr = bm.hdr)] at hx
      rcases hx with hx | ⟨-, hx⟩
      · exact Or.inl hx
      · obtain ⟨a, -, rfl⟩ := (getElem?_mkHdr _ _ _).1 hx; exact Or.inr rfl
    · rw [hdrAt_append_eq_some] at hx
      rcases hx with hx | ⟨-, hx⟩
      · exact Or.inl hx
      · obtain ⟨a, -, rfl⟩ := (getElem?_mkHdr _ _ _).1 hx; exact Or.inr rfl

/-- the operations never create a header array marked foreign -/
theorem hdrLocal_step {h : Heap} (hl : HdrLocal h) (op : Op) : HdrLocal (step h op) := by
  intro b' r x hx
  cases op with
  | gate b i c a => rw [step, hdrAt_gate] at hx; exact hl _ _ _ hx
  | clone b n cs as hs =>
    rcases hdrAt_cloneBitmap_inv hx with hx | hx
    · exact hl _ _ _ hx
    · exact hx
  | appendCopy d s i c a => rw [step, hdrAt_appendCopy] at hx; exact hl _ _ _ hx
  | appendFresh b k c a => rw [step, hdrAt_appendFresh] at hx; exact hl _ _ _ hx
  | insertFresh b p k c a => rw [step, hdrAt_insertFresh] at hx; exact hl _ _ _ hx
  | removeSlot b i => rw [step, hdrAt_removeSlot] at hx; exact hl _ _ _ hx
  | detach b cs as => rw [step, hdrAt_detach] at hx; exact hl _ _ _ hx
  | zeroCopy n cow sl hs =>
    rw [step, addZeroCopy, hdrAt_append_eq_some] at hx
    rcases hx with hx | ⟨-, hx⟩
    · exact hl _ _ _ hx
    · obtain ⟨a, -, rfl⟩ := (getElem?_mkHdr _ _ _).1 hx; rfl
  | drop b => rw [step, hdrAt_dropBitmap] at hx; exact hl _ _ _ hx
  | setCow b v => rw [step, hdrAt_setCow] at hx; exact hl _ _ _ hx

theorem hdrLocal_nil : HdrLocal [] := by intro b r a h; simp [Heap.hdrAt] at h

/-- one step of the discipline preserves `Safe` -/
theorem safe_step {h : Heap} (hs : Safe h = true) (op : Op) (hok : op.Ok h) : Safe (step h op) = true := by
  cases op with
  | gate b i c a => exact safe_gate hs hok
  | clone b n cs as hs' => exact safe_cloneBitmap hs hok.1 hok.2.1
  | appendCopy d s i c a => exact safe_appendCopy hs hok
  | appendFresh b k c a => exact safe_appendFresh hs hok
  | insertFresh b p k c a => exact safe_insertFresh hs hok.1
  | removeSlot b i => exact safe_removeSlot hs b i
  | detach b cs as => exact safe_detach hs hok.1 hok.2.1
  | zeroCopy n cow sl hs' => exact safe_addZeroCopy hs hok
  | drop b => exact safe_dropBitmap hs b
  | setCow b v => exact safe_setCow hs b v

/-- **Reachability closure.**  Any sequence of operations, each applied under its side conditions, keeps the heap safe. -/
theorem safe_run {h₀ : Heap} (hs : Safe h₀ = true) (ops : List Op) (hok : RunOk h₀ ops) : Safe (run h₀ ops) = true := by
  induction ops generalizing h₀ with
  | nil => exact hs
  | cons op ops ih => exact ih (safe_step hs op hok.1) hok.2

theorem hdrLocal_run {h₀ : Heap} (hl : HdrLocal h₀) (ops : List Op) : HdrLocal (run h₀ ops) := by
  induction ops generalizing h₀ with
  | nil => exact hl
  | cons op ops ih => exact ih (hdrLocal_step hl op)

/-- every heap reachable from the empty heap is safe (and has local header arrays) -/
theorem safe_reachable (ops : List Op) (hok : RunOk [] ops) : Safe (run [] ops) = true ∧ HdrLocal (run [] ops) :=
  ⟨safe_run safe_nil ops hok, hdrLocal_run hdrLocal_nil ops⟩

/-! ## 16. non-vacuity -/

/-- two bitmaps sharing one container (cell 10, array 20), flagged on both sides, and one private container -/
def exShared : Heap :=
  [ { name := "a", cow := true, hdr := [⟨1, false⟩, ⟨2, false⟩, ⟨3, false⟩],
      slots := [⟨0, 10, ⟨20, false⟩, true⟩, ⟨1, 11, ⟨21, false⟩, false⟩] },
    { name := "b", cow := true, hdr := [⟨4, false⟩, ⟨5, false⟩, ⟨6, false⟩],
      slots := [⟨0, 10, ⟨20, false⟩, true⟩] } ]

example : Safe exShared = true := by decide

/-- the same graph with the flag missing on ONE side is rejected -/
example : Safe (exShared.modify 1 (·.modSlot 0 fun s => { s with flag := false })) = false := by decide

/-- an unflagged slot over caller memory is rejected; flagged it is accepted -/
example : Safe [{ name := "z", cow := false, hdr := [], slots := [⟨0, 1, ⟨9, true⟩, false⟩] }] = false := by decide
example : Safe [{ name := "z", cow := false, hdr := [], slots := [⟨0, 1, ⟨9, true⟩, true⟩] }] = true := by decide

/-- a header array shared by two bitmaps is rejected -/
example : Safe [{ name := "a", cow := false, hdr := [⟨1, false⟩], slots := [] },
                { name := "b", cow := false, hdr := [⟨1, false⟩], slots := [] }] = false := by decide

instance (h : Heap) (c a : Nat) : Decidable (Fresh h c a) := inferInstanceAs (Decidable (_ ∧ _))
instance (h : Heap) (cs : List Nat) : Decidable (FreshCells h cs) := inferInstanceAs (Decidable (_ ∧ _))
instance (h : Heap) (as : List Nat) : Decidable (FreshArrs h as) := inferInstanceAs (Decidable (_ ∧ _))
instance (h : Heap) (sl : List HSlot) (hs : List Nat) : Decidable (ZeroCopyOk h sl hs) :=
  inferInstanceAs (Decidable (_ ∧ _ ∧ _))

instance (h : Heap) : (op : Op) → Decidable (op.Ok h)
  | .gate _ _ c a => inferInstanceAs (Decidable (Fresh h c a))
  | .clone b _ cs as hs =>
    inferInstanceAs (Decidable (FreshCells h cs ∧ FreshArrs h (as ++ hs) ∧
      (h.cowAt b = false → h.nslots b ≤ cs.length ∧ h.nslots b ≤ as.length)))
  | .appendCopy _ _ _ c a => inferInstanceAs (Decidable (Fresh h c a))
  | .appendFresh _ _ c a => inferInstanceAs (Decidable (Fresh h c a))
  | .insertFresh b pos _ c a => inferInstanceAs (Decidable (Fresh h c a ∧ pos ≤ h.nslots b))
  | .removeSlot _ _ => inferInstanceAs (Decidable True)
  | .detach b cs as =>
    inferInstanceAs (Decidable (FreshCells h cs ∧ FreshArrs h as ∧ h.nslots b ≤ cs.length ∧ h.nslots b ≤ as.length))
  | .zeroCopy _ _ sl hs => inferInstanceAs (Decidable (ZeroCopyOk h sl hs))
  | .drop _ => inferInstanceAs (Decidable True)
  | .setCow _ _ => inferInstanceAs (Decidable True)

def RunOk.dec : (h : Heap) → (ops : List Op) → Decidable (RunOk h ops)
  | _, [] => isTrue trivial
  | h, op :: ops => @instDecidableAnd (op.Ok h) (RunOk (step h op) ops) _ (RunOk.dec (step h op) ops)

instance (h : Heap) (ops : List Op) : Decidable (RunOk h ops) := RunOk.dec h ops

/-- a concrete run from the empty heap that exercises every operation -/
def exOps : List Op :=
  [ .zeroCopy "a" true [] [1, 2, 3],                                  -- a := New(), copy-on-write on
    .appendFresh 0 5 10 20,                                            -- a gets container (cell 10, array 20) for key 5
    .appendFresh 0 7 11 21,
    .clone 0 "b" [] [] [4, 5, 6],                                      -- b := a.Clone(): shares both containers, all flagged
    .gate 1 0 12 22,                                                   -- b writes key 5: private copy (12, 22)
    .zeroCopy "z" false [⟨0, 13, ⟨100, true⟩, true⟩] [7, 8, 9],       -- z := FromUnsafeBytes(buf)
    .appendCopy 1 2 0 14 24,                                           -- b.appendCopy(z, 0): shares the foreign container
    .insertFresh 1 0 3 15 25,
    .setCow 0 false,
    .clone 0 "c" [16, 17] [26, 27] [28, 29, 30],                       -- c := a.Clone() without cow: deep copy
    .detach 1 [40, 41, 42, 43] [50, 51, 52, 53],                       -- b.CloneCopyOnWriteContainers()
    .removeSlot 0 0,
    .drop 2 ]                                                          -- z becomes garbage

example : RunOk [] exOps := by decide
example : Safe (run [] exOps) = true := safe_run safe_nil exOps (by decide)
example : Safe (run [] exOps) = true := by decide
/-- after the clone `a` and `b` really share flagged containers -/
example : ((run [] (exOps.take 4)).places.filter (·.s.flag)).length = 4 := by decide
/-- after the run, bitmap `b` has no reference to caller memory although it had one before `detach` -/
example : (run [] (exOps.take 10))[1]?.map (·.foreignRefs) = some 1 ∧
          (run [] (exOps.take 11))[1]?.map (·.foreignRefs) = some 0 := by decide

/-- the side conditions matter: re-using a live cell for the "fresh" clone breaks `Safe` -/
example : Safe (run [] [.zeroCopy "a" false [] [1, 2, 3], .appendFresh 0 5 10 20, .appendFresh 0 7 10 21]) = false := by
  decide

end RModel.Impl

/-! ## 17. axiom audit -/
