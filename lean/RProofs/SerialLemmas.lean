import RModel.Impl.Serial
import RProofs.Properties.C14
/-!
Helper lemmas for property C05: byte-level inverses of the little-endian writers, lengths of the pieces of
`Rep.encode`, the run-flag bitmap, and stability of the reader under extension of its input.
-/
namespace RModel.Impl

/-! ### lengths -/

@[simp] theorem le16_length (n : Nat) : (le16 n).length = 2 := rfl
@[simp] theorem le32_length (n : Nat) : (le32 n).length = 4 := rfl
@[simp] theorem le64_length (n : Nat) : (le64 n).length = 8 := rfl

theorem flatMap_length_const {α β} (f : α → List β) (c : Nat) (h : ∀ a, (f a).length = c) (l : List α) :
    (l.flatMap f).length = c * l.length := by
  induction l with
  | nil => simp
  | cons a t ih => simp [List.flatMap_cons, ih, h, Nat.mul_add]; omega

theorem payload_length (c : Cont) : c.payload.length = c.serSize := by
  cases c with
  | arr vals => simp [Cont.payload, Cont.serSize, flatMap_length_const le16 2 le16_length]
  | bmp card words =>
    simp [Cont.payload, Cont.serSize, flatMap_length_const (fun w : BitVec 64 => le64 w.toNat) 8 (fun _ => rfl)]
  | run runs =>
    simp [Cont.payload, Cont.serSize,
      flatMap_length_const (fun p : Nat × Nat => le16 p.1 ++ le16 p.2) 4 (fun _ => rfl)]

theorem payloads_length (l : List Slot) :
    (l.flatMap (·.c.payload)).length = (l.map (·.c.serSize)).sum := by
  induction l with
  | nil => simp
  | cons a t ih => simp [List.flatMap_cons, ih, payload_length]

@[simp] theorem runFlagBytes_length (flags : List Bool) : (runFlagBytes flags).length = (flags.length + 7) / 8 := by
  simp [runFlagBytes]

@[simp] theorem offsets_length (P : SerParams) (start : Nat) (l : List Cont) :
    (offsets P start l).length = 4 * l.length := by
  induction l generalizing start with
  | nil => simp [offsets]
  | cons a t ih => simp [offsets, ih]; omega

theorem desc_length (l : List Slot) :
    (l.flatMap fun s => le16 s.key ++ le16 ((s.c.goCard - 1) % 65536).toNat).length = 4 * l.length :=
  flatMap_length_const _ 4 (fun _ => rfl) l

/-! ### byte-level inverses -/

theorem rd16_le16 (n : Nat) (h : n < 65536) (t : Bytes) : rd16 (le16 n ++ t) = some (n, t) := by
  simp [le16, rd16]; omega

theorem rd32_le16_le16 (a b : Nat) (ha : a < 65536) (hb : b < 65536) (t : Bytes) :
    rd32 (le16 a ++ (le16 b ++ t)) = some (a + 65536 * b, t) := by
  simp [le16, rd32]; omega

theorem rd32_le32 (n : Nat) (h : n < 4294967296) (t : Bytes) : rd32 (le32 n ++ t) = some (n, t) := by
  simp [le32, le16, rd32]; omega

theorem takeN_append (a t : Bytes) (k : Nat) (h : a.length = k) : takeN k (a ++ t) = some (a, t) := by
  subst h; simp [takeN]

theorem bytesTo16s_cons (a : Nat) (ha : a < 65536) (t : Bytes) :
    bytesTo16s (le16 a ++ t) = a :: bytesTo16s t := by
  simp [le16, bytesTo16s]; omega

theorem bytesTo16s_le16 (vals : List Nat) (h : ∀ v ∈ vals, v < 65536) :
    bytesTo16s (vals.flatMap le16) = vals := by
  induction vals with
  | nil => simp [bytesTo16s]
  | cons a t ih =>
    have ha := h a (by simp)
    have := ih (fun v hv => h v (by simp [hv]))
    simp [List.flatMap_cons, bytesTo16s_cons, ha, this]

theorem pairs16_le16 {α} (f g : α → Nat) (l : List α) (h : ∀ a ∈ l, f a < 65536 ∧ g a < 65536) :
    pairs16 (bytesTo16s (l.flatMap fun a => le16 (f a) ++ le16 (g a))) = l.map fun a => (f a, g a) := by
  induction l with
  | nil => simp [bytesTo16s, pairs16]
  | cons a t ih =>
    have ha := h a (by simp)
    have := ih (fun v hv => h v (by simp [hv]))
    simp [List.flatMap_cons, bytesTo16s_cons, ha, pairs16, this]

theorem word_of_bytes (w : BitVec 64) (t : Bytes) :
    bytesToWords (le64 w.toNat ++ t) = w :: bytesToWords t := by
  have hw := w.isLt
  simp [le64, le32, le16, bytesToWords]
  apply BitVec.eq_of_toNat_eq
  simp
  omega

theorem bytesToWords_le64 (words : List (BitVec 64)) :
    bytesToWords (words.flatMap fun w => le64 w.toNat) = words := by
  induction words with
  | nil => simp [bytesToWords]
  | cons a t ih => simp [List.flatMap_cons, word_of_bytes, ih]

/-! ### run-flag bitmap -/

def runBitAt (isRun : Option Bytes) (i : Nat) : Bool :=
  match isRun with
  | some rb => (rb.getD (i / 8) 0).toNat / 2 ^ (i % 8) % 2 == 1
  | none => false

theorem bits8 : ∀ b0 b1 b2 b3 b4 b5 b6 b7 : Bool, ∀ k : Fin 8,
  ((UInt8.ofNat ((List.range 8).foldl (fun acc b => if [b0,b1,b2,b3,b4,b5,b6,b7].getD b false then acc + 2 ^ b else acc) 0)).toNat / 2^k.val % 2 == 1) = [b0,b1,b2,b3,b4,b5,b6,b7].getD k.val false := by decide

theorem runFlag_bit (flags : List Bool) (i : Nat) (hi : i < flags.length) :
    (((runFlagBytes flags).getD (i / 8) 0).toNat / 2 ^ (i % 8) % 2 == 1) = flags[i] := by
  have hj : i / 8 < (flags.length + 7) / 8 := by omega
  simp only [runFlagBytes, List.getD_eq_getElem?_getD]
  rw [List.getElem?_map, List.getElem?_range hj]
  simp only [Option.map_some, Option.getD_some]
  have key := bits8 (flags.getD (8 * (i/8) + 0) false) (flags.getD (8 * (i/8) + 1) false)
    (flags.getD (8 * (i/8) + 2) false) (flags.getD (8 * (i/8) + 3) false) (flags.getD (8 * (i/8) + 4) false)
    (flags.getD (8 * (i/8) + 5) false) (flags.getD (8 * (i/8) + 6) false) (flags.getD (8 * (i/8) + 7) false)
    ⟨i % 8, by omega⟩
  have hr : List.range 8 = [0,1,2,3,4,5,6,7] := by decide
  have hfl : flags[i] = flags.getD (8 * (i / 8) + i % 8) false := by
    have : 8 * (i / 8) + i % 8 = i := by omega
    simp [this, hi]
  rw [hfl]
  simp only [hr, List.foldl_cons, List.foldl_nil] at key ⊢
  have h8 : i % 8 = 0 ∨ i % 8 = 1 ∨ i % 8 = 2 ∨ i % 8 = 3 ∨ i % 8 = 4 ∨ i % 8 = 5 ∨ i % 8 = 6 ∨ i % 8 = 7 := by omega
  rcases h8 with h | h | h | h | h | h | h | h <;> simp only [h] at key ⊢ <;> simpa using key
/-! ### `decode` cut into named pieces -/

def decodeHdr (P : SerParams) (cookie : Nat) (bs1 : Bytes) : Option (Nat × Option Bytes × Bytes) :=
  if cookie % 65536 == P.serialCookie then
    let size := cookie / 65536 + 1
    (takeN ((size + 7) / 8) bs1).map fun (rb, bs2) => (size, some rb, bs2)
  else if cookie == P.serialCookieNoRun then
    (rd32 bs1).map fun (size, bs2) => (size, none, bs2)
  else none

def decodeSkip (P : SerParams) (size : Nat) (isRun : Option Bytes) (bs3 : Bytes) : Option Bytes :=
  if isRun.isNone || size ≥ P.noOffsetThreshold then (takeN (4 * size) bs3).map (·.2) else some bs3

def decodeTail (P : SerParams) (flag : Bool) (len size : Nat) (isRun : Option Bytes) (bs2 : Bytes) :
    Outcome (Rep × Nat) :=
  if size > 65536 then .err else
  match takeN (4 * size) bs2 with
  | none => .err
  | some (kc, bs3) =>
    match decodeSkip P size isRun bs3 with
    | none => .err
    | some bs4 =>
      match readContainers P flag isRun 0 (pairs16 (bytesTo16s kc)) bs4 with
      | none => .err
      | some (slots, rest) => .ok ({ cow := false, slots := slots }, len - rest.length)

theorem decode_eq (P : SerParams) (flag : Bool) (bs : Bytes) :
    decode P flag bs =
      match rd32 bs with
      | none => .err
      | some (cookie, bs1) =>
        match decodeHdr P cookie bs1 with
        | none => .err
        | some (size, isRun, bs2) => decodeTail P flag bs.length size isRun bs2 := rfl

theorem decodeTail_no_panic (P : SerParams) (flag : Bool) (len size : Nat) (isRun : Option Bytes) (bs2 : Bytes) :
    decodeTail P flag len size isRun bs2 ≠ .panic := by
  unfold decodeTail
  repeat' split
  all_goals simp

/-! ### consequences of well-formedness -/

theorem popcount_le (w : BitVec 64) : popcount w ≤ 64 := by
  unfold popcount
  exact Nat.le_trans (List.length_filter_le _ _) (by simp)

theorem popcount_sum_le (ws : List (BitVec 64)) : (ws.map popcount).sum ≤ 64 * ws.length := by
  induction ws with
  | nil => simp
  | cons a t ih => have := popcount_le a; simp; omega

theorem runsOk_bound (runs : List (Nat × Nat)) (h : runsOk runs = true) : ∀ p ∈ runs, p.1 + p.2 ≤ 65535 := by
  fun_induction runsOk runs with
  | case1 s l => simpa using h
  | case2 s l s' l' t ih =>
    simp only [Bool.and_eq_true, decide_eq_true_eq] at h
    have ih' := ih h.2
    have h1 := ih' (s', l') (by simp)
    intro p hp
    rcases List.mem_cons.mp hp with rfl | hp
    · simp at h1 ⊢; omega
    · exact ih' p hp
  | case3 => simp

theorem strictInc_length (N : Nat) (a : Nat) (t : List Nat) (h : strictInc (a :: t) = true)
    (hb : ∀ x ∈ a :: t, x < N) : (a :: t).length + a ≤ N := by
  induction t generalizing a with
  | nil => have := hb a (by simp); simp; omega
  | cons b t ih =>
    simp [strictInc] at h
    have := ih b h.2 (fun x hx => hb x (List.mem_cons_of_mem _ hx))
    simp at this ⊢; omega

/-! ### `readContainers` unfolded -/

def readOne (P : SerParams) (runBit : Bool) (cardm1 : Nat) (bs : Bytes) : Option (Cont × Bytes) :=
  let card := cardm1 + 1
  if runBit then
    match rd16 bs with
    | none => none
    | some (nr, bs1) => (takeN (nr * 4) bs1).map fun (p, bs2) => (.run (pairs16 (bytesTo16s p)), bs2)
  else if card > P.arrayMax then
    (takeN (P.arrayMax * 2) bs).map fun (p, bs2) => (.bmp card (bytesToWords p), bs2)
  else
    (takeN (card * 2) bs).map fun (p, bs2) => (.arr (bytesTo16s p), bs2)

theorem readContainers_nil (P : SerParams) (flag : Bool) (isRun : Option Bytes) (i : Nat) (bs : Bytes) :
    readContainers P flag isRun i [] bs = some ([], bs) := by
  simp [readContainers]

theorem readContainers_cons (P : SerParams) (flag : Bool) (isRun : Option Bytes) (i key cardm1 : Nat)
    (rest : List (Nat × Nat)) (bs : Bytes) :
    readContainers P flag isRun i ((key, cardm1) :: rest) bs =
      match readOne P (runBitAt isRun i) cardm1 bs with
      | none => none
      | some (c, bs2) =>
        match readContainers P flag isRun (i + 1) rest bs2 with
        | none => none
        | some (ss, bs3) => some ({ key := key, c := c, flag := flag } :: ss, bs3) := by
  cases isRun <;> rfl

theorem readOne_payload (c : Cont) (hwf : c.wf = true) (tail : Bytes) :
    readOne specParams c.isRun ((c.goCard - 1) % 65536).toNat (c.payload ++ tail) = some (c, tail) := by
  cases c with
  | arr vals =>
    simp only [Cont.wf, Bool.and_eq_true, decide_eq_true_eq, List.all_eq_true] at hwf
    obtain ⟨⟨⟨h0, h1⟩, _⟩, hv⟩ := hwf
    have hc : (((vals.length : Int) - 1) % 65536).toNat + 1 = vals.length := by omega
    have hl : (vals.flatMap le16).length = vals.length * 2 := by
      rw [flatMap_length_const le16 2 le16_length]; omega
    simp only [readOne, Cont.isRun, Cont.goCard, Cont.payload, hc, specParams]
    rw [takeN_append _ _ _ hl]
    simp [bytesTo16s_le16 vals hv]; omega
  | bmp card words =>
    simp only [Cont.wf, Bool.and_eq_true, decide_eq_true_eq, beq_iff_eq] at hwf
    obtain ⟨⟨hl, hc⟩, hgt⟩ := hwf
    have hs := popcount_sum_le words
    have hc' : (((card - 1) % 65536).toNat + 1 : Nat) = card := by omega
    have hl : (words.flatMap fun w => le64 w.toNat).length = 4096 * 2 := by
      rw [flatMap_length_const (fun w : BitVec 64 => le64 w.toNat) 8 (fun _ => rfl)]; omega
    have hgt' : ((card - 1) % 65536).toNat + 1 > 4096 := by omega
    simp only [readOne, Cont.isRun, Cont.goCard, Cont.payload, specParams]
    rw [takeN_append _ _ _ hl]
    simp [hgt', hc', bytesToWords_le64]
  | run runs =>
    simp only [Cont.wf, Bool.and_eq_true, decide_eq_true_eq, runMinimal] at hwf
    obtain ⟨⟨_, hok⟩, hmin⟩ := hwf
    have hb := runsOk_bound runs hok
    have hlen : runs.length < 65536 := by omega
    have hl : (runs.flatMap fun (p : Nat × Nat) => le16 p.1 ++ le16 p.2).length = runs.length * 4 := by
      rw [flatMap_length_const (fun p : Nat × Nat => le16 p.1 ++ le16 p.2) 4 (fun _ => rfl)]; omega
    simp only [readOne, Cont.isRun, Cont.payload, List.append_assoc]
    rw [rd16_le16 _ hlen]
    simp only [if_true]
    rw [takeN_append _ _ _ hl]
    have := pairs16_le16 Prod.fst Prod.snd runs (fun p hp => by have := hb p hp; omega)
    simp [this]

theorem readContainers_encode (flag : Bool) (rb : Option Bytes) (slots : List Slot) (i : Nat) (tail : Bytes)
    (hwf : ∀ s ∈ slots, s.c.wf = true)
    (hbit : ∀ j (h : j < slots.length), runBitAt rb (i + j) = slots[j].c.isRun) :
    readContainers specParams flag rb i (slots.map fun s => (s.key, ((s.c.goCard - 1) % 65536).toNat))
      (slots.flatMap (·.c.payload) ++ tail) = some (slots.map fun s => { s with flag := flag }, tail) := by
  induction slots generalizing i with
  | nil => simp [readContainers_nil]
  | cons s t ih =>
    have h0 := hbit 0 (by simp)
    simp only [Nat.add_zero, List.getElem_cons_zero] at h0
    have iht := ih (i + 1) (fun s hs => hwf s (List.mem_cons_of_mem _ hs)) (fun j hj => by
      have := hbit (j + 1) (by simp; omega)
      simpa [Nat.add_assoc, Nat.add_comm 1 j] using this)
    simp only [List.map_cons, List.flatMap_cons, List.append_assoc, readContainers_cons, h0]
    rw [readOne_payload s.c (hwf s (by simp))]
    simp only [iht]

/-! ### decoding an encoded stream -/

@[simp] theorem specParams_serialCookie : specParams.serialCookie = 12347 := rfl
@[simp] theorem specParams_serialCookieNoRun : specParams.serialCookieNoRun = 12346 := rfl
@[simp] theorem specParams_noOffsetThreshold : specParams.noOffsetThreshold = 4 := rfl
@[simp] theorem specParams_arrayMax : specParams.arrayMax = 4096 := rfl

def descBytes (slots : List Slot) : Bytes :=
  slots.flatMap fun s => le16 s.key ++ le16 ((s.c.goCard - 1) % 65536).toNat

theorem decodeTail_encode (flag : Bool) (len : Nat) (rb : Option Bytes) (slots : List Slot) (off tail : Bytes)
    (hn : slots.length ≤ 65536) (hkeys : ∀ s ∈ slots, s.key < 65536) (hwf : ∀ s ∈ slots, s.c.wf = true)
    (hbit : ∀ j (h : j < slots.length), runBitAt rb j = slots[j].c.isRun)
    (hoff : off.length = if rb.isNone || decide (slots.length ≥ 4) then 4 * slots.length else 0) :
    decodeTail specParams flag len slots.length rb
        (descBytes slots ++ (off ++ (slots.flatMap (·.c.payload) ++ tail))) =
      .ok ({ cow := false, slots := slots.map fun s => { s with flag := flag } }, len - tail.length) := by
  have hdl : (descBytes slots).length = 4 * slots.length := desc_length slots
  have hkc : pairs16 (bytesTo16s (descBytes slots)) =
      slots.map fun s => (s.key, ((s.c.goCard - 1) % 65536).toNat) :=
    pairs16_le16 (fun s : Slot => s.key) (fun s => ((s.c.goCard - 1) % 65536).toNat) slots (fun s hs => by
      refine ⟨hkeys s hs, ?_⟩
      omega)
  have hskip : decodeSkip specParams slots.length rb (off ++ (slots.flatMap (·.c.payload) ++ tail)) =
      some (slots.flatMap (·.c.payload) ++ tail) := by
    unfold decodeSkip
    by_cases h : (rb.isNone || decide (slots.length ≥ specParams.noOffsetThreshold)) = true
    · have h' : (rb.isNone || decide (slots.length ≥ 4)) = true := h
      rw [if_pos h'] at hoff; rw [if_pos h, takeN_append _ _ _ hoff]; rfl
    · have h' : ¬ (rb.isNone || decide (slots.length ≥ 4)) = true := h
      rw [if_neg h'] at hoff; rw [if_neg h]
      have : off = [] := List.eq_nil_of_length_eq_zero hoff
      simp [this]
  unfold decodeTail
  rw [if_neg (by omega), takeN_append _ _ _ hdl]
  simp only [hskip, hkc]
  rw [readContainers_encode flag rb slots 0 tail hwf (by simpa using hbit)]

theorem wf_slots (r : Rep) (hwf : r.wf = true) :
    r.slots.length ≤ 65536 ∧ (∀ s ∈ r.slots, s.key < 65536) ∧ (∀ s ∈ r.slots, s.c.wf = true) := by
  simp only [Rep.wf, Bool.and_eq_true, List.all_eq_true, decide_eq_true_eq] at hwf
  obtain ⟨hinc, hall⟩ := hwf
  refine ⟨?_, fun s hs => (hall s hs).1, fun s hs => (hall s hs).2⟩
  cases hsl : r.slots with
  | nil => simp
  | cons a t =>
    have := strictInc_length 65536 a.key (t.map (·.key)) (by simpa [hsl] using hinc) (by
      intro x hx
      have hx' : x ∈ (a :: t).map (·.key) := by simpa using hx
      obtain ⟨s, hs, rfl⟩ := List.mem_map.mp hx'
      exact (hall s (hsl ▸ hs)).1)
    simp at this ⊢; omega

theorem encode_eq (r : Rep) :
    ∃ off : Bytes,
      off.length = (if !r.hasRun || decide (r.slots.length ≥ 4) then 4 * r.slots.length else 0) ∧
      r.encode specParams =
        (if r.hasRun then
            le16 12347 ++ (le16 ((r.slots.length - 1) % 65536) ++ runFlagBytes (r.slots.map (·.c.isRun)))
          else le32 12346 ++ le32 r.slots.length) ++
        (descBytes r.slots ++ (off ++ r.slots.flatMap (·.c.payload))) := by
  cases hr : r.hasRun
  · refine ⟨?off, ?len, ?eq⟩
    case eq =>
      simp only [Rep.encode, hr, descBytes, List.append_assoc, specParams_serialCookieNoRun]
      simp only [Bool.not_false, Bool.true_or, if_true, Bool.false_eq_true, if_false]
      exact rfl
    case len => simp
  · refine ⟨?off2, ?len2, ?eq2⟩
    case eq2 =>
      simp only [Rep.encode, hr, descBytes, List.append_assoc, specParams_serialCookie]
      simp only [Bool.not_true, Bool.false_or, if_true]
      exact rfl
    case len2 =>
      by_cases h : r.slots.length ≥ 4
      · simp [h]
      · simp [h]

theorem hasRun_false_iff (r : Rep) (h : r.hasRun = false) : ∀ s ∈ r.slots, s.c.isRun = false := by
  simpa [Rep.hasRun] using h

/-! ### the reader is stable under extension of its input -/

theorem rd16_ext {bs : Bytes} {v : Nat} {r : Bytes} (h : rd16 bs = some (v, r)) (t : Bytes) :
    rd16 (bs ++ t) = some (v, r ++ t) := by
  match bs, h with
  | a :: b :: u, h => simp [rd16] at h ⊢; exact ⟨h.1, by rw [h.2]⟩

theorem rd32_ext {bs : Bytes} {v : Nat} {r : Bytes} (h : rd32 bs = some (v, r)) (t : Bytes) :
    rd32 (bs ++ t) = some (v, r ++ t) := by
  match bs, h with
  | a :: b :: c :: d :: u, h => simp [rd32] at h ⊢; exact ⟨h.1, by rw [h.2]⟩

theorem takeN_ext {n : Nat} {bs a r : Bytes} (h : takeN n bs = some (a, r)) (t : Bytes) :
    takeN n (bs ++ t) = some (a, r ++ t) := by
  unfold takeN at h ⊢
  split at h
  · rename_i hle
    simp only [Option.some.injEq, Prod.mk.injEq] at h
    rw [if_pos (by simp; omega)]
    simp [← h.1, ← h.2, List.take_append_of_le_length hle, List.drop_append_of_le_length hle]
  · simp at h

theorem map_takeN_ext {α} {f : Bytes → α} {n : Nat} {bs : Bytes} {c : α} {r : Bytes}
    (h : (takeN n bs).map (fun (x : Bytes × Bytes) => (f x.1, x.2)) = some (c, r)) (t : Bytes) :
    (takeN n (bs ++ t)).map (fun (x : Bytes × Bytes) => (f x.1, x.2)) = some (c, r ++ t) := by
  cases h4 : takeN n bs with
  | none => simp [h4] at h
  | some p =>
    obtain ⟨a, r'⟩ := p
    rw [takeN_ext h4 t]
    simp [h4] at h
    obtain ⟨rfl, rfl⟩ := h
    simp

theorem readOne_ext {P : SerParams} {b : Bool} {m : Nat} {bs : Bytes} {c : Cont} {r : Bytes}
    (h : readOne P b m bs = some (c, r)) (t : Bytes) : readOne P b m (bs ++ t) = some (c, r ++ t) := by
  unfold readOne at h ⊢
  simp only at h ⊢
  cases b
  · simp only [Bool.false_eq_true, if_false] at h ⊢
    by_cases hc : m + 1 > P.arrayMax
    · rw [if_pos hc] at h ⊢
      exact map_takeN_ext (f := fun p => Cont.bmp (↑(m + 1)) (bytesToWords p)) h t
    · rw [if_neg hc] at h ⊢
      exact map_takeN_ext (f := fun p => Cont.arr (bytesTo16s p)) h t
  · simp only [if_true] at h ⊢
    cases h16 : rd16 bs with
    | none => simp [h16] at h
    | some p =>
      obtain ⟨nr, bs1⟩ := p
      rw [h16] at h
      rw [rd16_ext h16 t]
      exact map_takeN_ext (f := fun p => Cont.run (pairs16 (bytesTo16s p))) h t

theorem readContainers_ext {P : SerParams} {flag : Bool} {isRun : Option Bytes} {i : Nat} {kc : List (Nat × Nat)}
    {bs : Bytes} {ss : List Slot} {r : Bytes}
    (h : readContainers P flag isRun i kc bs = some (ss, r)) (t : Bytes) :
    readContainers P flag isRun i kc (bs ++ t) = some (ss, r ++ t) := by
  induction kc generalizing i bs ss r with
  | nil => simp [readContainers_nil] at h ⊢; obtain ⟨rfl, rfl⟩ := h; simp
  | cons p rest ih =>
    obtain ⟨key, cardm1⟩ := p
    rw [readContainers_cons] at h ⊢
    cases h1 : readOne P (runBitAt isRun i) cardm1 bs with
    | none => simp [h1] at h
    | some q =>
      obtain ⟨c, bs2⟩ := q
      rw [h1] at h
      rw [readOne_ext h1 t]
      simp only at h ⊢
      cases h2 : readContainers P flag isRun (i + 1) rest bs2 with
      | none => simp [h2] at h
      | some q2 =>
        obtain ⟨ss', bs3⟩ := q2
        rw [h2] at h
        rw [ih h2]
        simp only [Option.some.injEq, Prod.mk.injEq] at h ⊢
        exact ⟨h.1, by rw [h.2]⟩

theorem decodeHdr_ext {P : SerParams} {cookie : Nat} {bs1 : Bytes} {size : Nat} {isRun : Option Bytes} {bs2 : Bytes}
    (h : decodeHdr P cookie bs1 = some (size, isRun, bs2)) (t : Bytes) :
    decodeHdr P cookie (bs1 ++ t) = some (size, isRun, bs2 ++ t) := by
  unfold decodeHdr at h ⊢
  by_cases h1 : (cookie % 65536 == P.serialCookie) = true
  · rw [if_pos h1] at h ⊢
    simp only at h ⊢
    cases h4 : takeN ((cookie / 65536 + 1 + 7) / 8) bs1 with
    | none => simp [h4] at h
    | some p =>
      obtain ⟨a, r'⟩ := p
      rw [takeN_ext h4 t]
      simp [h4] at h
      obtain ⟨rfl, rfl, rfl⟩ := h
      simp
  · rw [if_neg h1] at h ⊢
    by_cases h2 : (cookie == P.serialCookieNoRun) = true
    · rw [if_pos h2] at h ⊢
      cases h4 : rd32 bs1 with
      | none => simp [h4] at h
      | some p =>
        obtain ⟨a, r'⟩ := p
        rw [rd32_ext h4 t]
        simp [h4] at h
        obtain ⟨rfl, rfl, rfl⟩ := h
        simp
    · rw [if_neg h2] at h; simp at h

theorem decodeSkip_ext {P : SerParams} {size : Nat} {isRun : Option Bytes} {bs3 bs4 : Bytes}
    (h : decodeSkip P size isRun bs3 = some bs4) (t : Bytes) :
    decodeSkip P size isRun (bs3 ++ t) = some (bs4 ++ t) := by
  unfold decodeSkip at h ⊢
  by_cases h1 : (isRun.isNone || decide (size ≥ P.noOffsetThreshold)) = true
  · rw [if_pos h1] at h ⊢
    cases h4 : takeN (4 * size) bs3 with
    | none => simp [h4] at h
    | some p =>
      obtain ⟨a, r'⟩ := p
      rw [takeN_ext h4 t]
      simp [h4] at h
      subst h
      simp
  · rw [if_neg h1] at h ⊢
    simp at h; subst h; rfl

theorem decodeTail_ext {P : SerParams} {flag : Bool} {len size : Nat} {isRun : Option Bytes} {bs2 : Bytes}
    {v : Rep × Nat} (h : decodeTail P flag len size isRun bs2 = .ok v) (t : Bytes) :
    decodeTail P flag (len + t.length) size isRun (bs2 ++ t) = .ok v := by
  unfold decodeTail at h ⊢
  by_cases h0 : size > 65536
  · rw [if_pos h0] at h; simp at h
  · rw [if_neg h0] at h ⊢
    cases h1 : takeN (4 * size) bs2 with
    | none => simp [h1] at h
    | some p =>
      obtain ⟨kc, bs3⟩ := p
      rw [h1] at h; rw [takeN_ext h1 t]
      simp only at h ⊢
      cases h2 : decodeSkip P size isRun bs3 with
      | none => simp [h2] at h
      | some bs4 =>
        rw [h2] at h; rw [decodeSkip_ext h2 t]
        simp only at h ⊢
        cases h3 : readContainers P flag isRun 0 (pairs16 (bytesTo16s kc)) bs4 with
        | none => simp [h3] at h
        | some q =>
          obtain ⟨slots, rest⟩ := q
          rw [h3] at h; rw [readContainers_ext h3 t]
          simp only [Outcome.ok.injEq] at h ⊢
          rw [← h]
          simp
          omega

theorem decode_ext {P : SerParams} {flag : Bool} {bs : Bytes} {v : Rep × Nat}
    (h : decode P flag bs = .ok v) (t : Bytes) : decode P flag (bs ++ t) = .ok v := by
  rw [decode_eq] at h ⊢
  cases h1 : rd32 bs with
  | none => simp [h1] at h
  | some p =>
    obtain ⟨cookie, bs1⟩ := p
    rw [h1] at h; rw [rd32_ext h1 t]
    simp only at h ⊢
    cases h2 : decodeHdr P cookie bs1 with
    | none => simp [h2] at h
    | some q =>
      obtain ⟨size, isRun, bs2⟩ := q
      rw [h2] at h; rw [decodeHdr_ext h2 t]
      simp only at h ⊢
      rw [List.length_append]
      exact decodeTail_ext h t

theorem decodeTail_count_le {P : SerParams} {flag : Bool} {len size : Nat} {isRun : Option Bytes} {bs2 : Bytes}
    {r : Rep} {c : Nat} (h : decodeTail P flag len size isRun bs2 = .ok (r, c)) : c ≤ len := by
  unfold decodeTail at h
  repeat' split at h
  all_goals simp at h
  omega

theorem decode_count_le {P : SerParams} {flag : Bool} {bs : Bytes} {r : Rep} {c : Nat}
    (h : decode P flag bs = .ok (r, c)) : c ≤ bs.length := by
  rw [decode_eq] at h
  repeat' split at h
  all_goals first | exact decodeTail_count_le h | simp at h

end RModel.Impl
