import RModel.Impl.BSI32Ops
import RProofs.BSI32
import RProofs.BSI64Big
/-!
Theorems about `RModel/Impl/BSI32Ops.lean`: the rest of `BitSliceIndexing.BSI`.

All statements are relative to the map semantics `getValue : column → Option int64` of `RProofs/BSI32.lean`
(`getValue_eq`, invariant `WF`).  `n`, `m` are EFFECTIVE worker counts (Go: `parallelism`, `0` = `runtime.NumCPU()`).
-/
namespace RModel.BSI32
open RModel.BSet
open RModel.BSI (Good good_nil good_union good_inter good_diff good_add batches batchesAux parExec)

/-! ### generic facts: canonical sets, `parallelExecutor` -/

/-- two canonical sets with the same members are equal -/
theorem good_ext (s t : BSet) (hs : Good s) (ht : Good t) (h : ∀ x, mem s x = true ↔ mem t x = true) : s = t :=
  canon_ext_sinc s t hs.1 ht.1 (fun x => by rw [Bool.eq_iff_iff]; exact h x)

/-- **the batches partition the iterated set**: for every worker count the concatenation of the batches of
`parallelExecutor` is the list that was cut -/
theorem batches_flatten (n : Nat) (l : List Nat) : (batches n l).flatten = l :=
  RModel.BSI.batchesAux_flatten (l.length / n) (n - 1) l

/-- there are exactly `n` batches (one for `n = 0`, which Go never uses: `parallelism == 0` means `NumCPU()`) -/
theorem batchesAux_length (x : Nat) : ∀ (k : Nat) (l : List Nat), (batchesAux x k l).length = k + 1
  | 0, _ => rfl
  | k + 1, l => by simp [batchesAux, batchesAux_length x k]

theorem batches_length (n : Nat) (l : List Nat) : (batches n l).length = (n - 1) + 1 := batchesAux_length _ _ _

/-- every batch but the last holds `⌊card / n⌋` columns (when the set has at least that many left) -/
theorem batches_head_length (n : Nat) (hn : 2 ≤ n) (l : List Nat) :
    ((batches n l).headD []).length = l.length / n := by
  obtain ⟨k, rfl⟩ : ∃ k, n = k + 2 := ⟨n - 2, by omega⟩
  simp only [batches, show k + 2 - 1 = k + 1 by omega, batchesAux, List.headD_cons, List.length_take]
  have : l.length / (k + 2) ≤ l.length := Nat.div_le_self _ _
  omega

/-- `parallelExecutor` with a worker whose result collects, for every column `c` of its batch, the members related to `c`:
the `ParOr` of the batch results collects them for every column of the iterated set, for every worker count -/
theorem parExec_rel (n : Nat) (worker : List Nat → BSet) (R : Nat → Nat → Prop)
    (hw : ∀ bt x, Good (worker bt) ∧ (mem (worker bt) x = true ↔ ∃ c ∈ bt, R c x)) (l : List Nat) (x : Nat) :
    Good (parExec n worker l) ∧ (mem (parExec n worker l) x = true ↔ ∃ c ∈ l, R c x) := by
  have := RModel.BSI.foldl_union_spec x ((batches n l).map worker) [] good_nil (by
    intro r hr
    obtain ⟨bt, _, e⟩ := List.mem_map.mp hr
    rw [← e]; exact (hw bt 0).1)
  refine ⟨this.1, ?_⟩
  rw [parExec, this.2]
  simp only [mem_nil, Bool.false_eq_true, false_or, List.mem_map]
  constructor
  · rintro ⟨r, ⟨bt, hbt, e⟩, hm⟩
    rw [← e, (hw bt x).2] at hm
    obtain ⟨c, hc, hR⟩ := hm
    exact ⟨c, (RModel.BSI.mem_batches n l c).mp ⟨bt, hbt, hc⟩, hR⟩
  · rintro ⟨c, hc, hR⟩
    obtain ⟨bt, hbt, hcb⟩ := (RModel.BSI.mem_batches n l c).mpr hc
    exact ⟨worker bt, ⟨bt, hbt, rfl⟩, (hw bt x).2.mpr ⟨c, hcb, hR⟩⟩

/-- hence the result does not depend on the worker count -/
theorem parExec_independent (n m : Nat) (worker : List Nat → BSet) (R : Nat → Nat → Prop)
    (hw : ∀ bt x, Good (worker bt) ∧ (mem (worker bt) x = true ↔ ∃ c ∈ bt, R c x)) (l : List Nat) :
    parExec n worker l = parExec m worker l :=
  good_ext _ _ (parExec_rel n worker R hw l 0).1 (parExec_rel m worker R hw l 0).1
    (fun x => by rw [(parExec_rel n worker R hw l x).2, (parExec_rel m worker R hw l x).2])

/-- … and is the result of ONE worker handling the whole set -/
theorem parExec_one_batch (n : Nat) (worker : List Nat → BSet) (R : Nat → Nat → Prop)
    (hw : ∀ bt x, Good (worker bt) ∧ (mem (worker bt) x = true ↔ ∃ c ∈ bt, R c x)) (l : List Nat) :
    parExec n worker l = worker l :=
  good_ext _ _ (parExec_rel n worker R hw l 0).1 (hw l 0).1
    (fun x => by rw [(parExec_rel n worker R hw l x).2, (hw l x).2])

theorem good_found (b : Index) (h : WF b) (found : Option BSet) (hf : ∀ f, found = some f → Good f) :
    Good (found.getD b.ebm) := by
  cases found with
  | none => exact h.ebm
  | some f => exact hf f rfl

/-! ### `CompareValue`: independence of the worker count -/

theorem compareBatch_spec (b : Index) (op : Op) (k k2 : Int) (bt : List Nat) (x : Nat) :
    Good (compareBatch b op k k2 bt) ∧
    (mem (compareBatch b op k k2 bt) x = true ↔ ∃ c ∈ bt, c = x ∧ keep b op k k2 c = true) := by
  have := RModel.BSI.foldl_addIf_spec (fun c => keep b op k k2 c) x bt [] good_nil
  refine ⟨this.1, ?_⟩
  rw [compareBatch, this.2]
  simp only [mem_nil, Bool.false_eq_true, false_or]
  constructor
  · rintro ⟨h1, h2⟩; exact ⟨x, h1, rfl, h2⟩
  · rintro ⟨c, h1, rfl, h2⟩; exact ⟨h1, h2⟩

/-- **`compareValue_worker_independent`**: with every number of workers `CompareValue` returns the bitmap of the closed form
`BSI32.compareValue` (for which `compare_spec` holds) -/
theorem compareValue_worker_independent (b : Index) (h : WF b) (n : Nat) (op : Op) (k k2 : Int) (found : Option BSet)
    (hf : ∀ f, found = some f → Good f) :
    compareValuePar b n op k k2 found = compareValue b op k k2 found := by
  have hg := good_found b h found hf
  have h1 := parExec_rel n (compareBatch b op k k2) (fun c x => c = x ∧ keep b op k k2 c = true)
    (compareBatch_spec b op k k2) (toList (found.getD b.ebm))
  show parExec n (compareBatch b op k k2) (toList (found.getD b.ebm)) = _
  apply good_ext _ _ (h1 0).1 (good_compareValue b h op k k2 found hf)
  intro x
  rw [(h1 x).2, compareValue, (ofSorted_spec _ ((toList_sorted _ hg.1 hg.2).filter _)).2.2,
    decide_eq_true_eq, List.mem_filter]
  constructor
  · rintro ⟨c, h1, rfl, h2⟩; exact ⟨h1, h2⟩
  · rintro ⟨h1, h2⟩; exact ⟨x, h1, rfl, h2⟩

/-- corollary: the specification of `CompareValue` for every worker count -/
theorem compareValuePar_spec (b : Index) (h : WF b) (n : Nat) (op : Op) (k k2 : Int) (found : Option BSet)
    (hf : ∀ f, found = some f → Good f) (hk : min64 ≤ k ∧ k ≤ max64) (hk2 : min64 ≤ k2 ∧ k2 ≤ max64) (c : Nat) :
    mem (compareValuePar b n op k k2 found) c = true ↔
      mem (found.getD b.ebm) c = true ∧ pred op (colValue b c) k k2 := by
  rw [compareValue_worker_independent b h n op k k2 found hf]
  exact compare_spec b h op k k2 found hf hk hk2 c

/-! ### `MinMax`: independence of the worker count -/

/-- the sentinel is neutral for values in the `int64` range, the step is associative -/
theorem minMaxStep_assoc (isMax : Bool) (a x y : Int) :
    minMaxStep isMax (minMaxStep isMax a x) y = minMaxStep isMax a (minMaxStep isMax x y) := by
  cases isMax <;> simp only [minMaxStep, Bool.true_and, Bool.false_and, Bool.not_true, Bool.not_false, Bool.false_or,
    Bool.or_false, decide_eq_true_eq] <;> (repeat' split) <;> omega

theorem minMaxStep_comm (isMax : Bool) (a x y : Int) :
    minMaxStep isMax (minMaxStep isMax a x) y = minMaxStep isMax (minMaxStep isMax a y) x := by
  cases isMax <;> simp only [minMaxStep, Bool.true_and, Bool.false_and, Bool.not_true, Bool.not_false, Bool.false_or,
    Bool.or_false, decide_eq_true_eq] <;> (repeat' split) <;> omega

theorem minMaxStep_sentinel (isMax : Bool) (x : Int) (h1 : min64 ≤ x) (h2 : x ≤ max64) :
    minMaxStep isMax (if isMax then min64 else max64) x = x := by
  cases isMax <;> simp only [minMaxStep, Bool.true_and, Bool.false_and, Bool.not_true, Bool.not_false, Bool.false_or,
    Bool.or_false, decide_eq_true_eq, Bool.false_eq_true, if_false, if_true] <;> split <;> omega

theorem minMaxStep_range (isMax : Bool) (a x : Int) (ha : min64 ≤ a ∧ a ≤ max64) (hx : min64 ≤ x ∧ x ≤ max64) :
    min64 ≤ minMaxStep isMax a x ∧ minMaxStep isMax a x ≤ max64 := by
  simp only [minMaxStep]; split <;> assumption

theorem minMaxStep_sentinel_right (isMax : Bool) (a : Int) (h1 : min64 ≤ a) (h2 : a ≤ max64) :
    minMaxStep isMax a (if isMax then min64 else max64) = a := by
  cases isMax <;> simp only [minMaxStep, Bool.true_and, Bool.false_and, Bool.not_true, Bool.not_false, Bool.false_or,
    Bool.or_false, decide_eq_true_eq, Bool.false_eq_true, if_false, if_true] <;> split <;> omega

/-- folding from an accumulator = combining the accumulator with the fold from the sentinel -/
theorem foldl_minMaxStep_acc (isMax : Bool) (g : Nat → Int) (hg : ∀ c, min64 ≤ g c ∧ g c ≤ max64) :
    ∀ (l : List Nat) (a : Int), min64 ≤ a ∧ a ≤ max64 →
      l.foldl (fun acc c => minMaxStep isMax acc (g c)) a =
        minMaxStep isMax a (l.foldl (fun acc c => minMaxStep isMax acc (g c)) (if isMax then min64 else max64))
  | [], a, ha => by
    simp only [List.foldl_nil]
    exact (minMaxStep_sentinel_right isMax a ha.1 ha.2).symm
  | x :: l, a, ha => by
    have hs : min64 ≤ (if isMax then min64 else max64) ∧ (if isMax then min64 else max64) ≤ max64 := by
      cases isMax <;> simp [min64, max64]
    simp only [List.foldl_cons]
    rw [foldl_minMaxStep_acc isMax g hg l (minMaxStep isMax a (g x)) (minMaxStep_range isMax a (g x) ha (hg x)),
      foldl_minMaxStep_acc isMax g hg l (minMaxStep isMax (if isMax then min64 else max64) (g x))
        (minMaxStep_range isMax _ (g x) hs (hg x)),
      minMaxStep_sentinel isMax (g x) (hg x).1 (hg x).2, minMaxStep_assoc]

/-- the reduction of the batch results is the reduction over the concatenation of the batches -/
theorem foldl_minOrMax (b : Index) (isMax : Bool) : ∀ (bts : List (List Nat)) (a : Int), min64 ≤ a ∧ a ≤ max64 →
    (bts.map (minOrMax b isMax)).foldl (minMaxStep isMax) a =
      bts.flatten.foldl (fun acc c => minMaxStep isMax acc (getValueD b c)) a
  | [], _, _ => rfl
  | bt :: bts, a, ha => by
    have hb : min64 ≤ minOrMax b isMax bt ∧ minOrMax b isMax bt ≤ max64 := by
      have hs : min64 ≤ (if isMax then min64 else max64) ∧ (if isMax then min64 else max64) ≤ max64 := by
        cases isMax <;> simp [min64, max64]
      have : ∀ (l : List Nat) (a : Int), min64 ≤ a ∧ a ≤ max64 →
          min64 ≤ l.foldl (fun acc c => minMaxStep isMax acc (getValueD b c)) a ∧
            l.foldl (fun acc c => minMaxStep isMax acc (getValueD b c)) a ≤ max64 := by
        intro l
        induction l with
        | nil => intro a ha; exact ha
        | cons x l ih => intro a ha; exact ih _ (minMaxStep_range isMax a _ ha (getValueD_range b x))
      exact this bt _ hs
    simp only [List.map_cons, List.foldl_cons, List.flatten_cons, List.foldl_append]
    rw [foldl_minOrMax b isMax bts _ (minMaxStep_range isMax a _ ha hb),
      foldl_minMaxStep_acc isMax (getValueD b) (getValueD_range b) bt a ha]
    rfl

/-- **`minMax_worker_independent`**: with every number of workers `MinMax` returns the value of the closed form
`BSI32.minMax` (for which `minMax_spec` holds) -/
theorem minMax_worker_independent (b : Index) (n : Nat) (isMax : Bool) (found : Option BSet) :
    minMaxPar b n isMax found = minMax b isMax found := by
  have hs : min64 ≤ (if isMax then min64 else max64) ∧ (if isMax then min64 else max64) ≤ max64 := by
    cases isMax <;> simp [min64, max64]
  rw [minMaxPar, foldl_minOrMax b isMax _ _ hs, batches_flatten, minMax]

/-- … also when the goroutines deliver their results in another order (`for val := range resultsChan`) -/
theorem minMax_order_independent (b : Index) (n : Nat) (isMax : Bool) (found : Option BSet) (rs : List Int)
    (hp : rs.Perm ((batches n (toList (found.getD b.ebm))).map (minOrMax b isMax))) :
    rs.foldl (minMaxStep isMax) (if isMax then min64 else max64) = minMax b isMax found := by
  rw [hp.foldl_eq' (fun x _ y _ z => minMaxStep_comm isMax z x y)]
  exact minMax_worker_independent b n isMax found

/-! ### `Sum`: the order of the atomic additions does not matter -/

theorem sumLoop_eq_terms (f : BSet) : ∀ (ps : List BSet) (i : Nat), sumLoop f ps i = (sumTerms f ps i).sum
  | [], _ => rfl
  | p :: ps, i => by simp [sumLoop, sumTerms, sumLoop_eq_terms f ps (i + 1)]

/-- **`sum_order_independent`**: `Sum` starts one goroutine per plane, each performing one `atomic.AddInt64`; in whatever
order the additions take place the total is the value of the closed form `BSI32.sum` (for which `sum_spec` holds) -/
theorem sum_order_independent (b : Index) (found : Option BSet) (terms : List Nat)
    (hp : terms.Perm (sumTerms (found.getD b.ebm) b.planes 0)) :
    sumOfTerms terms = (sum b found).1 := by
  simp only [sumOfTerms, sum, sumLoop_eq_terms, hp.sum_nat]

/-! ### `Transpose` / `IntersectAndTranspose` -/

theorem foldl_transposeStep_spec (b : Index) (k : Nat) : ∀ (l : List Nat) (acc : BSet), Good acc →
    Good (l.foldl (transposeStep b) acc) ∧
    (mem (l.foldl (transposeStep b) acc) k = true ↔
      mem acc k = true ∨ ∃ c ∈ l, ∃ v, getValue b c = some v ∧ u32 v = k)
  | [], acc, h => by simp [h]
  | a :: l, acc, h => by
    simp only [List.foldl_cons]
    cases hg : getValue b a with
    | none =>
      have ih := foldl_transposeStep_spec b k l acc h
      simp only [transposeStep, hg]
      refine ⟨ih.1, ?_⟩
      rw [ih.2]
      constructor
      · rintro (h1 | ⟨c, hc, v, h2⟩)
        · exact Or.inl h1
        · exact Or.inr ⟨c, by simp [hc], v, h2⟩
      · rintro (h1 | ⟨c, hc, v, h2⟩)
        · exact Or.inl h1
        · rcases List.mem_cons.mp hc with rfl | hc
          · rw [hg] at h2; cases h2.1
          · exact Or.inr ⟨c, hc, v, h2⟩
    | some w =>
      have ih := foldl_transposeStep_spec b k l (add acc (u32 w)) (good_add _ _ h)
      simp only [transposeStep, hg]
      refine ⟨ih.1, ?_⟩
      rw [ih.2, mem_add _ h.1]
      simp only [Bool.or_eq_true, decide_eq_true_eq]
      constructor
      · rintro ((h1 | h1) | ⟨c, hc, v, h2⟩)
        · exact Or.inl h1
        · exact Or.inr ⟨a, by simp, w, hg, h1.symm⟩
        · exact Or.inr ⟨c, by simp [hc], v, h2⟩
      · rintro (h1 | ⟨c, hc, v, h2⟩)
        · exact Or.inl (Or.inl h1)
        · rcases List.mem_cons.mp hc with rfl | hc
          · rw [hg] at h2
            have := Option.some.inj h2.1
            subst this
            exact Or.inl (Or.inr h2.2.symm)
          · exact Or.inr ⟨c, hc, v, h2⟩

theorem transposeBatch_spec (b : Index) (bt : List Nat) (k : Nat) :
    Good (transposeBatch b bt) ∧
    (mem (transposeBatch b bt) k = true ↔ ∃ c ∈ bt, ∃ v, getValue b c = some v ∧ u32 v = k) := by
  have := foldl_transposeStep_spec b k bt [] good_nil
  exact ⟨this.1, by simpa [transposeBatch] using this.2⟩

/-- **`transpose_spec`**: for every worker count `IntersectAndTranspose(parallelism, foundSet)` (`Transpose()` for the nil
found set / the existence bitmap) is the set of the values held by the existing columns of the found set, each value
truncated to its low 32 bits (`uint32(value)`): columns of the found set that hold no value contribute nothing. -/
theorem transpose_spec (b : Index) (h : WF b) (n : Nat) (found : Option BSet) (hf : ∀ f, found = some f → Good f) (k : Nat) :
    mem (transposePar b n found) k = true ↔
      ∃ c v, mem (found.getD b.ebm) c = true ∧ getValue b c = some v ∧ u32 v = k := by
  have hg := good_found b h found hf
  rw [transposePar, (parExec_rel n (transposeBatch b) (fun c k => ∃ v, getValue b c = some v ∧ u32 v = k)
    (transposeBatch_spec b) _ k).2]
  constructor
  · rintro ⟨c, hc, v, h1, h2⟩; exact ⟨c, v, (mem_toList _ hg.1 hg.2 c).mp hc, h1, h2⟩
  · rintro ⟨c, v, hc, h1, h2⟩; exact ⟨c, (mem_toList _ hg.1 hg.2 c).mpr hc, v, h1, h2⟩

theorem good_transposePar (b : Index) (n : Nat) (found : Option BSet) : Good (transposePar b n found) :=
  (parExec_rel n (transposeBatch b) (fun c k => ∃ v, getValue b c = some v ∧ u32 v = k) (transposeBatch_spec b) _ 0).1

/-- inside the documented domain — the found columns hold values that ARE column ids (`0 ≤ v < 2^32`) — nothing is
truncated: the result is exactly the set of values held by the existing columns of the found set -/
theorem transpose_spec_dom (b : Index) (h : WF b) (n : Nat) (found : Option BSet) (hf : ∀ f, found = some f → Good f)
    (hdom : ∀ c v, mem (found.getD b.ebm) c = true → getValue b c = some v → 0 ≤ v ∧ v < 4294967296) (k : Nat) :
    mem (transposePar b n found) k = true ↔
      ∃ c, mem (found.getD b.ebm) c = true ∧ getValue b c = some (k : Int) := by
  rw [transpose_spec b h n found hf]
  constructor
  · rintro ⟨c, v, hc, hg, e⟩
    have hd := hdom c v hc hg
    refine ⟨c, hc, ?_⟩
    rw [hg]; congr 1
    simp only [u32, u64] at e
    omega
  · rintro ⟨c, hc, hg⟩
    have hd := hdom c _ hc hg
    refine ⟨c, (k : Int), hc, hg, ?_⟩
    simp only [u32, u64]
    omega

/-- **`transpose_worker_independent`**: the same bitmap for every two worker counts … -/
theorem transpose_worker_independent (b : Index) (n m : Nat) (found : Option BSet) :
    transposePar b n found = transposePar b m found :=
  parExec_independent n m _ _ (transposeBatch_spec b) _

/-- … namely the result of one worker -/
theorem transposePar_eq (b : Index) (n : Nat) (found : Option BSet) : transposePar b n found = transpose b found :=
  parExec_one_batch n _ _ (transposeBatch_spec b) _

/-! ### `TransposeWithCounts` -/

open RModel.BSI (cell)

/-- does column `c` count for the key `k`?  (`uint32(value) == k` for an existing column) -/
def hits (input : Index) (k c : Nat) : Bool :=
  match getValue input c with
  | some v => u32 v == k
  | none => false

/-- how many of the columns `cols` hold a value whose low 32 bits are `k` -/
def countOf (input : Index) (cols : List Nat) (k : Nat) : Nat := cols.countP (hits input k)

theorem countOf_le (input : Index) (cols : List Nat) (k : Nat) : countOf input cols k ≤ cols.length := List.countP_le_length

theorem auto_twcStep (input res : Index) (c : Nat) : auto (twcStep input res c) = auto res := by
  simp only [twcStep]
  cases getValue input c with
  | none => rfl
  | some v =>
    simp only
    cases getValue res (u32 v) <;> rfl

theorem wf_twcStep (input res : Index) (h : WF res) (c : Nat) : WF (twcStep input res c) := by
  simp only [twcStep]
  cases getValue input c with
  | none => exact h
  | some v =>
    simp only
    cases getValue res (u32 v) with
    | none => exact wf_setValue _ h _ _
    | some n => exact wf_setValue _ h _ _

theorem set_cell (res : Index) (h : WF res) (ha : auto res = true) (N : Nat → Nat)
    (hN : ∀ k, getValue res k = cell (N k)) (k0 k : Nat) (hb : N k0 + 1 < 9223372036854775808) :
    getValue (setValue res k0 ((N k0 : Int) + 1)) k = cell (N k + (k0 == k).toNat) := by
  by_cases e : k = k0
  · subst e
    rw [get_set_same _ h _ _ (by simp only [min64]; omega) (by simp only [max64]; omega) (Or.inl ha)]
    simp [cell]
  · rw [get_set_other _ h _ _ e, hN k]
    have : (k0 == k) = false := by simp; exact fun h' => e h'.symm
    simp [this]

/-- one step of the worker: the cell of the visited column's value grows by one -/
theorem twcStep_spec (input res : Index) (N : Nat → Nat) (h : WF res) (ha : auto res = true)
    (hN : ∀ k, getValue res k = cell (N k)) (hb : ∀ k, N k + 1 < 9223372036854775808) (c k : Nat) :
    getValue (twcStep input res c) k = cell (N k + (hits input k c).toNat) := by
  simp only [twcStep, hits]
  cases hg : getValue input c with
  | none => simp [hN k]
  | some v =>
    simp only
    have hcell := hN (u32 v)
    cases hgv : getValue res (u32 v) with
    | none =>
      simp only
      have h0 : N (u32 v) = 0 := by
        rw [hgv] at hcell
        simp only [cell] at hcell
        split at hcell
        · assumption
        · cases hcell
      have := set_cell res h ha N hN (u32 v) k (hb _)
      rw [h0] at this
      simpa using this
    | some n =>
      simp only
      have hn : n = (N (u32 v) : Int) := by
        rw [hgv] at hcell
        simp only [cell] at hcell
        split at hcell
        · cases hcell
        · exact Option.some.inj hcell
      rw [hn]
      exact set_cell res h ha N hN (u32 v) k (hb _)

theorem foldl_twcStep_spec (input : Index) : ∀ (cols : List Nat) (res : Index) (N : Nat → Nat), WF res → auto res = true →
    (∀ k, getValue res k = cell (N k)) → (∀ k, N k + cols.length < 9223372036854775808) →
    WF (cols.foldl (twcStep input) res) ∧
    ∀ k, getValue (cols.foldl (twcStep input) res) k = cell (N k + countOf input cols k)
  | [], res, N, h, _, hN, _ => ⟨h, fun k => by simp [countOf, hN k]⟩
  | c :: cols, res, N, h, ha, hN, hb => by
    simp only [List.foldl_cons]
    have hb1 : ∀ k, N k + 1 < 9223372036854775808 := fun k => by have := hb k; simp only [List.length_cons] at this; omega
    have ih := foldl_twcStep_spec input cols _ (fun k => N k + (hits input k c).toNat)
      (wf_twcStep input res h c) (by rw [auto_twcStep]; exact ha) (twcStep_spec input res N h ha hN hb1 c)
      (fun k => by
        have := hb k
        simp only [List.length_cons] at this
        cases hits input k c <;> simp <;> omega)
    refine ⟨ih.1, fun k => ?_⟩
    rw [ih.2 k]
    congr 1
    simp only [countOf, List.countP_cons]
    cases hits input k c <;> simp <;> omega

/-- the worker's result: a well-formed auto-sized index that holds, for every key, the count over its batch -/
theorem twcBatch_spec (input : Index) (cols : List Nat) (hb : cols.length < 9223372036854775808) :
    WF (twcBatch input cols) ∧ ∀ k, getValue (twcBatch input cols) k = cell (countOf input cols k) := by
  have := foldl_twcStep_spec input cols newDefault (fun _ => 0) (wf_new 0 0) rfl
    (fun k => by rw [newDefault, getValue_new]; rfl) (fun _ => by simpa using hb)
  exact ⟨this.1, fun k => by simpa [twcBatch] using this.2 k⟩

theorem mem_ebm_of_cell (r : Index) (k A : Nat) (h : getValue r k = cell A) : mem r.ebm k = decide (A ≠ 0) := by
  rw [getValue_eq, value] at h
  simp only [cell] at h
  cases hm : mem r.ebm k <;> rw [hm] at h <;> split at h <;> simp_all

theorem getValueD_of_cell (r : Index) (k A : Nat) (h : getValue r k = cell A) : getValueD r k = (A : Int) := by
  simp only [getValueD, h, cell]
  split
  · simp_all
  · rfl

/-- adding two count maps cell by cell -/
theorem get_addIndex_cell (acc r : Index) (h : WF acc) (hr : WF r) (k A B : Nat)
    (hA : getValue acc k = cell A) (hB : getValue r k = cell B) (hb : A + B < 9223372036854775808) :
    getValue (addIndex acc r) k = cell (A + B) := by
  rw [get_addIndex acc r h hr, mem_ebm_of_cell acc k A hA, mem_ebm_of_cell r k B hB, getValueD_of_cell acc k A hA,
    getValueD_of_cell r k B hB, wrap_id _ (by simp only [min64]; omega) (by simp only [max64]; omega)]
  simp only [cell]
  by_cases h1 : A = 0 <;> by_cases h2 : B = 0 <;> simp [h1, h2]
  all_goals omega

theorem foldl_addIndex_spec (input : Index) : ∀ (bts : List (List Nat)) (acc : Index) (A : Nat → Nat), WF acc →
    (∀ k, getValue acc k = cell (A k)) → (∀ k, A k + bts.flatten.length < 9223372036854775808) →
    WF ((bts.map (twcBatch input)).foldl addIndex acc) ∧
    ∀ k, getValue ((bts.map (twcBatch input)).foldl addIndex acc) k = cell (A k + countOf input bts.flatten k)
  | [], acc, A, h, hA, _ => ⟨h, fun k => by simp [countOf, hA k]⟩
  | bt :: bts, acc, A, h, hA, hb => by
    simp only [List.map_cons, List.foldl_cons]
    have hlen : ∀ k, A k + (bt.length + bts.flatten.length) < 9223372036854775808 := fun k => by
      have := hb k; simpa using this
    have hbt := twcBatch_spec input bt (by have := hlen 0; omega)
    have ih := foldl_addIndex_spec input bts (addIndex acc (twcBatch input bt)) (fun k => A k + countOf input bt k)
      (wf_addIndex _ _ h hbt.1)
      (fun k => get_addIndex_cell acc _ h hbt.1 k _ _ (hA k) (hbt.2 k) (by
        have := hlen k; have := countOf_le input bt k; omega))
      (fun k => by have := hlen k; have := countOf_le input bt k; omega)
    refine ⟨ih.1, fun k => ?_⟩
    rw [ih.2 k]
    congr 1
    simp only [countOf, List.flatten_cons, List.countP_append]
    omega

/-- **`transposeWithCounts_spec`**: for every worker count, `TransposeWithCounts(parallelism, foundSet)` (nil = the
existence bitmap) is the histogram of the values held by the existing columns of the found set: the new index holds at
key `k` the number of found columns whose value, truncated to its low 32 bits, is `k`, and no key with count `0`
(`cell 0 = none`).  Found columns without a value are not counted.  There is no filter set in this implementation. -/
theorem transposeWithCounts_spec (input : Index) (n : Nat) (found : Option BSet)
    (hlen : card (found.getD input.ebm) < 9223372036854775808) (k : Nat) :
    getValue (transposeWithCounts input n found) k =
      cell (countOf input (toList (found.getD input.ebm)) k) := by
  have := foldl_addIndex_spec input (batches n (toList (found.getD input.ebm))) newDefault (fun _ => 0) (wf_new 0 0)
    (fun k => by rw [newDefault, getValue_new]; rfl)
    (fun _ => by rw [batches_flatten, toList_length]; simpa using hlen)
  have h2 := this.2 k
  rw [batches_flatten] at h2
  simpa [transposeWithCounts, sumResults] using h2

theorem wf_transposeWithCounts (input : Index) (n : Nat) (found : Option BSet)
    (hlen : card (found.getD input.ebm) < 9223372036854775808) : WF (transposeWithCounts input n found) :=
  (foldl_addIndex_spec input (batches n (toList (found.getD input.ebm))) newDefault (fun _ => 0) (wf_new 0 0)
    (fun k => by rw [newDefault, getValue_new]; rfl)
    (fun _ => by rw [batches_flatten, toList_length]; simpa using hlen)).1

/-- **`transposeWithCounts_worker_independent`**: the resulting MAP does not depend on the number of workers … -/
theorem transposeWithCounts_worker_independent (input : Index) (n m : Nat) (found : Option BSet)
    (hlen : card (found.getD input.ebm) < 9223372036854775808) (k : Nat) :
    getValue (transposeWithCounts input n found) k = getValue (transposeWithCounts input m found) k := by
  rw [transposeWithCounts_spec input n found hlen, transposeWithCounts_spec input m found hlen]

/-- … nor on the order in which the batch results arrive on the channel and are added up -/
theorem transposeWithCounts_order_independent (input : Index) (n : Nat) (found : Option BSet)
    (hlen : card (found.getD input.ebm) < 9223372036854775808) (bts : List (List Nat))
    (hp : bts.Perm (batches n (toList (found.getD input.ebm)))) (k : Nat) :
    getValue (sumResults (bts.map (twcBatch input))) k = cell (countOf input (toList (found.getD input.ebm)) k) := by
  have hfl : bts.flatten.Perm (toList (found.getD input.ebm)) := by
    have := hp.flatten; rwa [batches_flatten] at this
  have := foldl_addIndex_spec input bts newDefault (fun _ => 0) (wf_new 0 0)
    (fun k => by rw [newDefault, getValue_new]; rfl)
    (fun _ => by rw [hfl.length_eq, toList_length]; simpa using hlen)
  have h2 := this.2 k
  simp only [countOf, hfl.countP_eq] at h2
  simpa [sumResults, countOf] using h2

/-- the count in set terms: the found columns that exist and hold a value with low 32 bits `k` -/
theorem countOf_pos (input : Index) (s : BSet) (hs : Good s) (k : Nat) :
    0 < countOf input (toList s) k ↔ ∃ c v, mem s c = true ∧ getValue input c = some v ∧ u32 v = k := by
  rw [countOf, List.countP_pos_iff]
  constructor
  · rintro ⟨c, hc, hh⟩
    simp only [hits] at hh
    split at hh
    · rename_i v hg
      exact ⟨c, v, (mem_toList _ hs.1 hs.2 c).mp hc, hg, by simpa using hh⟩
    · cases hh
  · rintro ⟨c, v, hc, hg, e⟩
    exact ⟨c, (mem_toList _ hs.1 hs.2 c).mpr hc, by simp [hits, hg, e]⟩

/-! ### `BatchEqual`: the linear scan -/

theorem scanBatch_eq (b : Index) (want : List Nat) (cols : List Nat) :
    scanBatch b want cols = cols.foldl (fun out col =>
      if (match getValue b col with | some v => want.contains (u64 v) | none => false) then add out col else out) [] := by
  simp only [scanBatch]
  congr 1
  funext out col
  cases getValue b col <;> simp

theorem scanBatch_spec (b : Index) (want : List Nat) (bt : List Nat) (x : Nat) :
    Good (scanBatch b want bt) ∧
    (mem (scanBatch b want bt) x = true ↔ ∃ c ∈ bt, c = x ∧ ∃ v, getValue b c = some v ∧ u64 v ∈ want) := by
  have := RModel.BSI.foldl_addIf_spec
    (fun col => match getValue b col with | some v => want.contains (u64 v) | none => false) x bt [] good_nil
  rw [scanBatch_eq]
  refine ⟨this.1, ?_⟩
  rw [this.2]
  simp only [mem_nil, Bool.false_eq_true, false_or]
  constructor
  · rintro ⟨h1, h2⟩
    refine ⟨x, h1, rfl, ?_⟩
    cases hg : getValue b x with
    | none => rw [hg] at h2; cases h2
    | some v => rw [hg] at h2; exact ⟨v, rfl, by simpa using h2⟩
  · rintro ⟨c, h1, rfl, v, hg, hv⟩
    refine ⟨h1, ?_⟩
    rw [hg]; simpa using hv

theorem card_zero_mem (s : BSet) (hs : Good s) (h0 : card s = 0) (x : Nat) : mem s x = false := by
  have hl : (toList s).length = 0 := by rw [toList_length]; exact h0
  have : toList s = [] := List.eq_nil_of_length_eq_zero hl
  cases hm : mem s x
  · rfl
  · have := (mem_toList s hs.1 hs.2 x).mpr hm
    simp_all

theorem good_batchEqualScan (b : Index) (n : Nat) (vals : List Nat) : Good (batchEqualScan b n vals) := by
  simp only [batchEqualScan]
  split
  · exact good_nil
  · exact (parExec_rel _ (scanBatch b vals) _ (scanBatch_spec b vals) _ 0).1

/-- **the scan path** returns, for every worker count and EVERY width of the index, the existing columns whose `uint64`
bit pattern is in the (encoded) value list -/
theorem batchEqualScan_spec (b : Index) (h : WF b) (n : Nat) (vals : List Nat) (c : Nat) :
    mem (batchEqualScan b n vals) c = true ↔ ∃ v, getValue b c = some v ∧ u64 v ∈ vals := by
  have hmem : ∀ v, getValue b c = some v → mem b.ebm c = true := by
    intro v hg
    rw [getValue_eq, value] at hg
    split at hg
    · assumption
    · cases hg
  simp only [batchEqualScan]
  split
  · rename_i h0
    simp only [mem_nil, Bool.false_eq_true, false_iff]
    rintro ⟨v, hg, _⟩
    have := card_zero_mem b.ebm h.ebm h0 c
    rw [hmem v hg] at this; cases this
  · rw [(parExec_rel _ (scanBatch b vals) _ (scanBatch_spec b vals) _ c).2]
    constructor
    · rintro ⟨c', _, rfl, v, hg, hv⟩; exact ⟨v, hg, hv⟩
    · rintro ⟨v, hg, hv⟩
      exact ⟨c, (mem_toList _ h.ebm.1 h.ebm.2 c).mpr (hmem v hg), rfl, v, hg, hv⟩

/-- the scan path does not depend on the worker count (no hypothesis on the index) -/
theorem batchEqualScan_worker_independent (b : Index) (n m : Nat) (vals : List Nat) :
    batchEqualScan b n vals = batchEqualScan b m vals := by
  simp only [batchEqualScan]
  split
  · rfl
  · exact parExec_independent _ _ _ _ (scanBatch_spec b vals) _

/-- the encoded value list against the stored value: the link between the `uint64` patterns `BatchEqual` works with and the
`int64`s of the caller.  Needs no bound on the width: with fewer than 64 planes a dropped value cannot be stored. -/
theorem batchVals_key (b : Index) (values : List Int) (hv : ∀ v ∈ values, min64 ≤ v ∧ v ≤ max64) (c : Nat) :
    (∃ v, getValue b c = some v ∧ u64 v ∈ batchVals (bitCount b) values) ↔ ∃ v ∈ values, getValue b c = some v := by
  constructor
  · rintro ⟨v, hg, hm⟩
    obtain ⟨v', hv', _, e⟩ := (mem_batchVals _ values _).mp hm
    refine ⟨v', hv', ?_⟩
    have hr : min64 ≤ v ∧ v ≤ max64 := by
      rw [getValue_eq, value] at hg
      split at hg
      · cases hg; exact colValue_range b c
      · cases hg
    have : v' = v := by
      rw [← i64_u64 v' (hv v' hv').1 (hv v' hv').2, ← i64_u64 v hr.1 hr.2, e]
    rw [this]; exact hg
  · rintro ⟨v, hvm, hg⟩
    refine ⟨v, hg, (mem_batchVals _ values _).mpr ⟨v, hvm, ?_, rfl⟩⟩
    by_cases hbc : bitCount b < 64
    · have hw := word_eq_raw b (by omega) c
      rw [getValue_eq, value] at hg
      split at hg
      · have e := Option.some.inj hg
        have hlt : raw b c < 2 ^ bitCount b := hw.2
        have : (2 : Nat) ^ bitCount b ≤ 2 ^ 63 := Nat.pow_le_pow_right (by decide) (by omega)
        have p63 : (2 : Nat) ^ 63 = 9223372036854775808 := by decide
        have hraw : u64 v = raw b c := by rw [← e, colValue, u64_i64 _ (raw_lt b c)]
        have hnn : 0 ≤ v := by
          rw [← e, colValue]
          simp only [i64]
          rw [Nat.mod_eq_of_lt (raw_lt b c), if_pos (by omega)]
          omega
        simp only [dropped, hbc, decide_true, Bool.true_and, Bool.or_eq_false_iff, decide_eq_false_iff_not]
        omega
      · cases hg
    · simp [dropped, hbc]

/-! ### `sort.Search` -/

/-- the binary search loop: with enough fuel, on a predicate that is monotone between `i` and `j`, the result `r` splits
`[i, j)` into the part where the predicate fails and the part where it holds -/
theorem goSearchLoop_spec (f : Nat → Bool) : ∀ (fuel i j : Nat), i ≤ j → j - i ≤ fuel →
    (∀ a c, i ≤ a → a ≤ c → c < j → f a = true → f c = true) →
    i ≤ goSearchLoop f fuel i j ∧ goSearchLoop f fuel i j ≤ j ∧
      (∀ a, i ≤ a → a < goSearchLoop f fuel i j → f a = false) ∧
      (∀ a, goSearchLoop f fuel i j ≤ a → a < j → f a = true)
  | 0, i, j, hij, hf, _ => by
    have : i = j := by omega
    subst this
    simp only [goSearchLoop]
    exact ⟨Nat.le_refl _, Nat.le_refl _, fun a h1 h2 => by omega, fun a h1 h2 => by omega⟩
  | fuel + 1, i, j, hij, hf, hmono => by
    simp only [goSearchLoop]
    split
    · rename_i hlt
      have hh : i ≤ (i + j) / 2 ∧ (i + j) / 2 < j := by omega
      cases hfh : f ((i + j) / 2)
      · simp only [Bool.not_false, if_true]
        have ih := goSearchLoop_spec f fuel ((i + j) / 2 + 1) j (by omega) (by omega)
          (fun a c h1 h2 h3 h4 => hmono a c (by omega) h2 h3 h4)
        refine ⟨by omega, ih.2.1, ?_, ih.2.2.2⟩
        intro a h1 h2
        by_cases ha : a ≤ (i + j) / 2
        · cases hfa : f a
          · rfl
          · have := hmono a ((i + j) / 2) h1 ha hh.2 hfa
            rw [hfh] at this; cases this
        · exact ih.2.2.1 a (by omega) h2
      · simp only [Bool.not_true, Bool.false_eq_true, if_false]
        have ih := goSearchLoop_spec f fuel i ((i + j) / 2) (by omega) (by omega)
          (fun a c h1 h2 h3 h4 => hmono a c h1 h2 (by omega) h4)
        refine ⟨ih.1, by omega, ih.2.2.1, ?_⟩
        intro a h1 h2
        by_cases ha : a < (i + j) / 2
        · exact ih.2.2.2 a h1 ha
        · exact hmono ((i + j) / 2) a hh.1 (by omega) h2 hfh
    · have : i = j := by omega
      subst this
      exact ⟨Nat.le_refl _, Nat.le_refl _, fun a h1 h2 => by omega, fun a h1 h2 => by omega⟩

/-- `sort.Search(n, f)` on a monotone predicate: the smallest index at which `f` holds (`n` if none) -/
theorem goSearch_spec (n : Nat) (f : Nat → Bool) (hmono : ∀ a c, a ≤ c → c < n → f a = true → f c = true) :
    goSearch n f ≤ n ∧ (∀ a, a < goSearch n f → f a = false) ∧ (∀ a, goSearch n f ≤ a → a < n → f a = true) := by
  have := goSearchLoop_spec f n 0 n (Nat.zero_le _) (by omega) (fun a c _ h2 h3 h4 => hmono a c h2 h3 h4)
  exact ⟨this.2.1, fun a h => this.2.2.1 a (Nat.zero_le _) h, this.2.2.2⟩

theorem filter_eq_self_of_all {α : Type} (q : α → Bool) : ∀ (l : List α), (∀ x ∈ l, q x = true) → l.filter q = l
  | [], _ => rfl
  | a :: l, h => by
    rw [List.filter_cons, if_pos (h a (by simp)), filter_eq_self_of_all q l (fun x hx => h x (by simp [hx]))]

theorem filter_eq_nil_of_none {α : Type} (q : α → Bool) : ∀ (l : List α), (∀ x ∈ l, q x = false) → l.filter q = []
  | [], _ => rfl
  | a :: l, h => by
    rw [List.filter_cons, if_neg (by simp [h a (by simp)]), filter_eq_nil_of_none q l (fun x hx => h x (by simp [hx]))]

/-- cutting a list at the `sort.Search` index of a predicate that is monotone along the list = splitting it with a filter -/
theorem cut_eq_filter (vals : List Nat) (q : Nat → Bool)
    (hmono : ∀ i j, i ≤ j → j < vals.length → q (vals.getD i 0) = true → q (vals.getD j 0) = true) :
    vals.take (goSearch vals.length (fun i => q (vals.getD i 0))) = vals.filter (fun v => !q v) ∧
    vals.drop (goSearch vals.length (fun i => q (vals.getD i 0))) = vals.filter q := by
  obtain ⟨h1, h2, h3⟩ := goSearch_spec vals.length (fun i => q (vals.getD i 0)) hmono
  generalize goSearch vals.length (fun i => q (vals.getD i 0)) = k at h1 h2 h3
  have htake : ∀ x ∈ vals.take k, q x = false := by
    intro x hx
    obtain ⟨i, hi, e⟩ := List.getElem_of_mem hx
    have hik : i < k := by simp only [List.length_take] at hi; omega
    have := h2 i hik
    simp only [List.getElem_take] at e
    rw [List.getD_eq_getElem?_getD, List.getElem?_eq_getElem (by omega)] at this
    simpa [e] using this
  have hdrop : ∀ x ∈ vals.drop k, q x = true := by
    intro x hx
    obtain ⟨i, hi, e⟩ := List.getElem_of_mem hx
    simp only [List.length_drop] at hi
    have := h3 (k + i) (by omega) (by omega)
    simp only [List.getElem_drop] at e
    rw [List.getD_eq_getElem?_getD, List.getElem?_eq_getElem (by omega)] at this
    simpa [e] using this
  have hsplit : vals = vals.take k ++ vals.drop k := (List.take_append_drop k vals).symm
  constructor
  · conv => rhs; rw [hsplit]
    rw [List.filter_append, filter_eq_self_of_all _ _ (fun x hx => by simp [htake x hx]),
      filter_eq_nil_of_none _ _ (fun x hx => by simp [hdrop x hx]), List.append_nil]
  · conv => rhs; rw [hsplit]
    rw [List.filter_append, filter_eq_nil_of_none _ _ htake, filter_eq_self_of_all _ _ hdrop, List.nil_append]

/-! ### the match trie with `sort.Search` cuts -/

/-- among `uint64`s that agree above plane `p`, bit `p` is monotone -/
theorem maskBit_mono (v w p : Nat) (hlt : v < w) (hq : v / 2 ^ (p + 1) = w / 2 ^ (p + 1)) (hb : maskBit v p = true) :
    maskBit w p = true := by
  simp only [maskBit, Bool.and_eq_true, decide_eq_true_eq] at hb ⊢
  refine ⟨hb.1, ?_⟩
  have hv := Nat.div_add_mod v (2 ^ (p + 1))
  have hw := Nat.div_add_mod w (2 ^ (p + 1))
  have e1 := mod_succ_testBit v p
  have e2 := mod_succ_testBit w p
  have h1 : v % 2 ^ p < 2 ^ p := Nat.mod_lt _ (Nat.two_pow_pos p)
  have h2 : w % 2 ^ p < 2 ^ p := Nat.mod_lt _ (Nat.two_pow_pos p)
  rw [hq] at hv
  rw [hb.2] at e1
  generalize 2 ^ (p + 1) * (w / 2 ^ (p + 1)) = Q at hv hw
  generalize v % 2 ^ (p + 1) = a at *
  generalize w % 2 ^ (p + 1) = a' at *
  generalize v % 2 ^ p = c at *
  generalize w % 2 ^ p = c' at *
  generalize (2 : Nat) ^ p = P at *
  cases hwb : w.testBit p
  · rw [hwb] at e2
    simp only [Bool.toNat_true, Bool.toNat_false, Nat.mul_one, Nat.mul_zero, Nat.add_zero] at e1 e2
    omega
  · rfl

/-- values with the same bit `p` that agree above plane `p` agree above plane `p - 1` -/
theorem div_pow_of_bit (v w p : Nat) (hq : v / 2 ^ (p + 1) = w / 2 ^ (p + 1)) (hb : v.testBit p = w.testBit p) :
    v / 2 ^ p = w / 2 ^ p := by
  have e1 : v / 2 ^ (p + 1) = v / 2 ^ p / 2 := by rw [Nat.pow_succ, Nat.div_div_eq_div_mul]
  have e2 : w / 2 ^ (p + 1) = w / 2 ^ p / 2 := by rw [Nat.pow_succ, Nat.div_div_eq_div_mul]
  rw [Nat.testBit_eq_decide_div_mod_eq, Nat.testBit_eq_decide_div_mod_eq, decide_eq_decide] at hb
  omega

/-- the `sort.Search` cut of `matchTrie` / `estimateBranchCount` on a sorted list of `uint64`s that agree above plane `p`:
`vals[:cut]` are the values without bit `p`, `vals[cut:]` the values with it -/
theorem cutIdx_split (vals : List Nat) (p : Nat) (hs : vals.Pairwise (· < ·))
    (hq : ∀ v ∈ vals, ∀ w ∈ vals, v / 2 ^ (p + 1) = w / 2 ^ (p + 1)) (h64 : ∀ v ∈ vals, v < 18446744073709551616) :
    vals.take (cutIdx vals p) = vals.filter (fun v => !v.testBit p) ∧
    vals.drop (cutIdx vals p) = vals.filter (fun v => v.testBit p) := by
  have hmb : ∀ v ∈ vals, maskBit v p = v.testBit p := by
    intro v hv
    simp only [maskBit]
    by_cases hp : p < 64
    · simp [hp]
    · have : v < 2 ^ p := Nat.lt_of_lt_of_le (h64 v hv) (by
        have : (18446744073709551616 : Nat) = 2 ^ 64 := by decide
        rw [this]; exact Nat.pow_le_pow_right (by decide) (by omega))
      simp [hp, Nat.testBit_lt_two_pow this]
  have key := cut_eq_filter vals (fun v => maskBit v p) (by
    intro i j hij hj hb
    rcases Nat.lt_or_eq_of_le hij with hlt | rfl
    · have hi : i < vals.length := by omega
      rw [List.getD_eq_getElem?_getD, List.getElem?_eq_getElem hi] at hb
      rw [List.getD_eq_getElem?_getD, List.getElem?_eq_getElem hj]
      simp only [Option.getD_some] at hb ⊢
      exact maskBit_mono _ _ p (List.pairwise_iff_getElem.mp hs i j hi hj hlt)
        (hq _ (List.getElem_mem hi) _ (List.getElem_mem hj)) hb
    · exact hb)
  have c1 : vals.filter (fun v => !maskBit v p) = vals.filter (fun v => !v.testBit p) :=
    List.filter_congr (fun v hv => by rw [hmb v hv])
  have c2 : vals.filter (fun v => maskBit v p) = vals.filter (fun v => v.testBit p) :=
    List.filter_congr (fun v hv => hmb v hv)
  exact ⟨by rw [cutIdx, key.1, c1], by rw [cutIdx, key.2, c2]⟩

/-- **`matchTrieS_eq`**: on a sorted list of `uint64`s that agree above the planes still to visit — what `BatchEqual`
passes and what the recursion maintains — the trie with `sort.Search` cuts is the trie that splits with a filter -/
theorem matchTrieS_eq (b : Index) : ∀ (n : Nat) (vals : List Nat) (pre : BSet), vals.Pairwise (· < ·) →
    (∀ v ∈ vals, ∀ w ∈ vals, v / 2 ^ n = w / 2 ^ n) → (∀ v ∈ vals, v < 18446744073709551616) →
    matchTrieS b n vals pre = matchTrie b n vals pre
  | 0, _, _, _, _, _ => rfl
  | p + 1, vals, pre, hs, hq, h64 => by
    obtain ⟨e1, e2⟩ := cutIdx_split vals p hs hq h64
    have hlo : ∀ pre', matchTrieS b p (vals.filter (fun v => !v.testBit p)) pre' =
        matchTrie b p (vals.filter (fun v => !v.testBit p)) pre' := fun pre' =>
      matchTrieS_eq b p _ pre' (hs.filter _)
        (fun v hv w hw => div_pow_of_bit v w p (hq v (List.mem_filter.mp hv).1 w (List.mem_filter.mp hw).1) (by
          have a := (List.mem_filter.mp hv).2; have c := (List.mem_filter.mp hw).2
          simp only [Bool.not_eq_true'] at a c; rw [a, c]))
        (fun v hv => h64 v (List.mem_filter.mp hv).1)
    have hhi : ∀ pre', matchTrieS b p (vals.filter (fun v => v.testBit p)) pre' =
        matchTrie b p (vals.filter (fun v => v.testBit p)) pre' := fun pre' =>
      matchTrieS_eq b p _ pre' (hs.filter _)
        (fun v hv w hw => div_pow_of_bit v w p (hq v (List.mem_filter.mp hv).1 w (List.mem_filter.mp hw).1) (by
          rw [(List.mem_filter.mp hv).2, (List.mem_filter.mp hw).2]))
        (fun v hv => h64 v (List.mem_filter.mp hv).1)
    simp only [matchTrieS, matchTrie, e1, e2, hlo, hhi]

/-! ### `BatchEqual`: every dispatch outcome -/

theorem batchVals_lt64 (bc : Nat) (values : List Int) (z : Nat) (hz : z ∈ batchVals bc values) : z < 18446744073709551616 := by
  obtain ⟨v, _, _, rfl⟩ := (mem_batchVals bc values z).mp hz
  exact u64_lt v

theorem batchVals_div (bc : Nat) (values : List Int) (z : Nat) (hz : z ∈ batchVals bc values) : z / 2 ^ bc = 0 := by
  apply Nat.div_eq_of_lt
  by_cases h : bc ≤ 64
  · exact batchVals_lt bc h values z hz
  · exact Nat.lt_of_lt_of_le (batchVals_lt64 bc values z hz) (by
      have : (18446744073709551616 : Nat) = 2 ^ 64 := by decide
      rw [this]; exact Nat.pow_le_pow_right (by decide) (by omega))

/-- the trie as `BatchEqual` starts it (value list of `BatchEqual`, all planes): `sort.Search` cuts = filter splits -/
theorem matchTrieS_top (b : Index) (bc : Nat) (values : List Int) (pre : BSet) :
    matchTrieS b bc (batchVals bc values) pre = matchTrie b bc (batchVals bc values) pre :=
  matchTrieS_eq b bc _ pre (batchVals_sorted bc values)
    (fun v hv w hw => by rw [batchVals_div bc values v hv, batchVals_div bc values w hw])
    (fun v hv => batchVals_lt64 bc values v hv)

/-- **the trie path** on an index of at most 64 planes: the existing columns whose `uint64` pattern is in the value list -/
theorem trie_mem (b : Index) (h : WF b) (h64 : bitCount b ≤ 64) (values : List Int)
    (hne : batchVals (bitCount b) values ≠ []) (c : Nat) :
    Good (matchTrie b (bitCount b) (batchVals (bitCount b) values) b.ebm) ∧
    (mem (matchTrie b (bitCount b) (batchVals (bitCount b) values) b.ebm) c = true ↔
      ∃ v, getValue b c = some v ∧ u64 v ∈ batchVals (bitCount b) values) := by
  have hw := word_eq_raw b h64 c
  have hm := matchTrie_spec b h.planes c (bitCount b) _ b.ebm hne (distinct_batchVals _ h64 values) h.ebm
  refine ⟨hm.1, ?_⟩
  rw [hm.2, Bool.and_eq_true, List.any_eq_true]
  constructor
  · rintro ⟨he, z, hz, e⟩
    have hz' := batchVals_lt _ h64 values _ hz
    simp only [beq_iff_eq, Nat.mod_eq_of_lt hz', hw.1, Nat.mod_eq_of_lt hw.2] at e
    refine ⟨colValue b c, by simp [getValue_eq, value, he], ?_⟩
    rw [colValue, u64_i64 _ (raw_lt b c), ← e]; exact hz
  · rintro ⟨v, hg, hz⟩
    rw [getValue_eq, value] at hg
    split at hg
    · rename_i he
      have e := Option.some.inj hg
      have hraw : u64 v = raw b c := by rw [← e, colValue, u64_i64 _ (raw_lt b c)]
      exact ⟨he, u64 v, hz, by simp only [beq_iff_eq, hw.1, Nat.mod_eq_of_lt hw.2, hraw]⟩
    · cases hg

theorem good_batchEqualAny (b : Index) (h : WF b) (h64 : bitCount b ≤ 64) (n : Nat) (values : List Int) :
    Good (batchEqualAny b n values) := by
  simp only [batchEqualAny]
  split
  · exact good_nil
  · split
    · exact good_nil
    · rename_i hvne
      have hne : batchVals (bitCount b) values ≠ [] := fun e => hvne (by simp [e])
      split
      · exact good_batchEqualScan b n _
      · rw [matchTrieS_top]; exact (trie_mem b h h64 values hne 0).1

/-- **`batchEqualAny_spec`**: on an index with at most 64 planes (every index built with `SetValue` / `SetMany` / `ParOr` /
`UnmarshalBinary`; only a carry out of plane 63 in `Add` / `Increment` — an `int64` overflow — creates a 65th plane), for
EVERY dispatch outcome (early exit, match trie, linear scan) and EVERY worker count, `BatchEqual(parallelism, values)`
returns exactly the existing columns whose value is one of the given values.  The values may be ANY `int64`s: a value that
is not representable in the index's width is dropped by the code — correctly, no column can hold it. -/
theorem batchEqualAny_spec (b : Index) (h : WF b) (h64 : bitCount b ≤ 64) (n : Nat) (values : List Int)
    (hv : ∀ v ∈ values, min64 ≤ v ∧ v ≤ max64) (c : Nat) :
    mem (batchEqualAny b n values) c = true ↔ ∃ v ∈ values, getValue b c = some v := by
  have key := batchVals_key b values hv c
  simp only [batchEqualAny]
  split
  · rename_i he
    simp only [mem_nil, Bool.false_eq_true, false_iff]
    rintro ⟨v, hvm, hg⟩
    rw [Bool.or_eq_true] at he
    rcases he with he | he
    · rw [getValue_eq, value, good_isEmpty_mem _ he c] at hg; cases hg
    · have : values = [] := by simpa using he
      rw [this] at hvm; simp at hvm
  · split
    · rename_i hve
      simp only [mem_nil, Bool.false_eq_true, false_iff]
      intro hex
      obtain ⟨v, _, hz⟩ := key.mpr hex
      have hnil : batchVals (bitCount b) values = [] := by simpa using hve
      rw [hnil] at hz
      cases hz
    · rename_i hvne
      have hne : batchVals (bitCount b) values ≠ [] := fun e => hvne (by simp [e])
      split
      · rw [batchEqualScan_spec b h n _ c]; exact key
      · rw [matchTrieS_top, (trie_mem b h h64 values hne c).2]; exact key

/-- the scan path alone is right for every width (also beyond 64 planes, where the trie path is not) -/
theorem batchEqualScan_values (b : Index) (h : WF b) (n : Nat) (values : List Int)
    (hv : ∀ v ∈ values, min64 ≤ v ∧ v ≤ max64) (c : Nat) :
    mem (batchEqualScan b n (batchVals (bitCount b) values)) c = true ↔ ∃ v ∈ values, getValue b c = some v := by
  rw [batchEqualScan_spec b h n _ c]; exact batchVals_key b values hv c

/-- **`batchEqual_worker_independent`**: the same bitmap for every two worker counts (no hypothesis: the worker count only
enters the linear scan) -/
theorem batchEqual_worker_independent (b : Index) (n m : Nat) (values : List Int) :
    batchEqualAny b n values = batchEqualAny b m values := by
  simp only [batchEqualAny, batchEqualScan_worker_independent b n m]

/-- the dispatch only chooses HOW the result is computed: on an index of at most 64 planes the bitmap is the one the match
trie returns, whatever `shouldUseParallelScan` says (this is what the compiled checker evaluates) -/
theorem batchEqualAny_eq_fast (b : Index) (h : WF b) (h64 : bitCount b ≤ 64) (n : Nat) (values : List Int) :
    batchEqualAny b n values = batchEqualFast b values := by
  simp only [batchEqualAny, batchEqualFast]
  split
  · rfl
  · split
    · rfl
    · rename_i hvne
      have hne : batchVals (bitCount b) values ≠ [] := fun e => hvne (by simp [e])
      split
      · apply good_ext _ _ (good_batchEqualScan b n _) (trie_mem b h h64 values hne 0).1
        intro c
        rw [batchEqualScan_spec b h n _ c, (trie_mem b h h64 values hne c).2]
      · exact matchTrieS_top b _ values _

/-- the partial model of `Impl/BSI32.lean` (fewer than 128 distinct values: always the trie) is an instance -/
theorem batchEqualAny_of_batchEqual (b : Index) (n : Nat) (values : List Int) (r : BSet)
    (hr : batchEqual b values = some r) : batchEqualAny b n values = r := by
  simp only [batchEqual] at hr
  simp only [batchEqualAny]
  split at hr
  · rename_i he; rw [if_pos he]; exact Option.some.inj hr
  · rename_i he
    rw [if_neg he]
    split at hr
    · rename_i hve; rw [if_pos hve]; exact Option.some.inj hr
    · rename_i hve
      rw [if_neg hve]
      split at hr
      · cases hr
      · rename_i hlen
        have : (decide (List.length (batchVals (bitCount b) values) ≥ 128) &&
            shouldUseParallelScan b (batchVals (bitCount b) values) (bitCount b)) = false := by
          simp [hlen]
        rw [this, matchTrieS_top]
        exact Option.some.inj hr

/-! ### `MarshalBinary` / `UnmarshalBinary` -/

/-- the loading loop on data without nil entries: the planes of the data, then what the receiver had beyond them (empty) -/
theorem unmarshalLoop_some : ∀ (qs done : List BSet) (k : Nat),
    unmarshalLoop (qs.map some) (done.length + 1) (done ++ List.replicate k []) =
      some (done ++ qs ++ List.replicate (k - qs.length) [])
  | [], done, k => by simp [unmarshalLoop]
  | q :: qs, done, k => by
    simp only [List.map_cons, unmarshalLoop, List.length_append, List.length_replicate, Nat.add_sub_cancel]
    cases k with
    | zero =>
      have h1 : done.length + 0 < done.length + 1 := by omega
      simp only [h1, if_true, List.replicate_zero, List.append_nil, List.length_append, List.length_cons, List.length_nil]
      rw [if_pos (by omega)]
      have hset : (done ++ [([] : BSet)]).set done.length q = done ++ [q] := by
        rw [List.set_append_right _ _ (Nat.le_refl _)]; simp
      have ih := unmarshalLoop_some qs (done ++ [q]) 0
      simp only [List.length_append, List.length_cons, List.length_nil, List.replicate_zero, List.append_nil] at ih
      rw [hset, ih]
      simp
    | succ k =>
      have h1 : ¬ done.length + (k + 1) < done.length + 1 := by omega
      simp only [h1, if_false, List.length_append, List.length_replicate]
      rw [if_pos (by omega)]
      have hset : (done ++ List.replicate (k + 1) ([] : BSet)).set done.length q = (done ++ [q]) ++ List.replicate k [] := by
        rw [List.set_append_right _ _ (Nat.le_refl _)]
        simp [List.replicate_succ]
      have ih := unmarshalLoop_some qs (done ++ [q]) k
      simp only [List.length_append, List.length_cons, List.length_nil] at ih
      rw [hset, ih]
      simp [Nat.add_sub_add_right]

/-- **the round trip at plane level**: `recv.UnmarshalBinary(src.MarshalBinary())` never panics and yields the planes of
the source followed by as many EMPTY planes as the receiver was wider than the source, the existence bitmap of the source,
and the receiver's `MaxValue` / `MinValue` — the composite `BSI32.unmarshalFrom` -/
theorem roundTrip_eq (recv src : Index) : roundTrip recv src = some (unmarshalFrom recv src) := by
  have h := unmarshalLoop_some src.planes [] recv.planes.length
  simp only [List.length_nil, Nat.zero_add, List.nil_append] at h
  have hm : recv.planes.map (fun _ => ([] : BSet)) = List.replicate recv.planes.length [] := by
    rw [List.map_const']
  simp only [roundTrip, marshalBinary, unmarshalBinary, hm, h, unmarshalFrom, Option.getD_some]

/-- **`get_marshal32`**: EVERY map survives the round trip exactly — negative values (plane 63 is an ordinary plane, there is
no separate sign plane to lose), every width, every receiver (fresh, previously used, narrower, wider, holding other
columns): the loaded index reads back, column by column, what the source held, and is well formed when the source is. -/
theorem get_marshal32 (recv src : Index) :
    ∃ r, roundTrip recv src = some r ∧ (∀ c, getValue r c = getValue src c) ∧ r.ebm = src.ebm ∧
      r.planes = src.planes ++ List.replicate (recv.planes.length - src.planes.length) [] ∧
      r.maxValue = recv.maxValue ∧ r.minValue = recv.minValue ∧ (WF src → WF r) :=
  ⟨unmarshalFrom recv src, roundTrip_eq recv src, get_unmarshalFrom recv src, rfl, rfl, rfl, rfl, wf_unmarshalFrom recv src⟩

/-- the width after loading: the wider of the two -/
theorem bitCount_roundTrip (recv src : Index) :
    bitCount (unmarshalFrom recv src) = max (bitCount recv) (bitCount src) := by
  simp only [bitCount, unmarshalFrom, List.length_append, List.length_replicate]
  omega

/-! ### non-vacuity: concrete indexes -/

/-- values that are column ids: `{1:5, 2:7, 3:5, 9:0, 12:7, 13:7}` -/
def exT : Index :=
  setValue (setValue (setValue (setValue (setValue (setValue newDefault 1 5) 2 7) 3 5) 9 0) 12 7) 13 7

theorem wf_exT : WF exT := by
  unfold exT
  repeat apply wf_setValue
  exact wf_new 0 0

/-- 100001 columns: `[0, 100000)` hold 5, column 100000 holds 1000 (10 planes) -/
def exWide : Index := setMany (setValue newDefault 100000 1000) [0, 100000] 5

theorem wf_exWide : WF exWide :=
  wf_setMany _ (wf_setValue _ (wf_new 0 0) _ _) _ ⟨by decide, by decide⟩ _

/-- 200 scattered values `0, 3, 6, …, 597`, all representable in 10 planes -/
def exQuery : List Int := (List.range 200).map (fun (i : Nat) => 3 * (i : Int))

-- the batches of `parallelExecutor`: n - 1 batches of ⌊card/n⌋ columns, the last one takes the rest; more workers than columns
example : batches 3 [10, 11, 12, 13, 14, 15, 16, 17] = [[10, 11], [12, 13], [14, 15, 16, 17]] ∧
    batches 1 [10, 11, 12] = [[10, 11, 12]] ∧ batches 5 [10, 11, 12] = [[], [], [], [], [10, 11, 12]] := by decide
-- `CompareValue` / `MinMax` with 1, 2, 3, 7 workers on the index of `RProofs/BSI32.lean` ({1:2, 2:70000, 3:-3, 9:0})
example : [1, 2, 3, 7].map (fun n => compareValuePar exIdx n .LT 0 0 none) = List.replicate 4 [3, 4] ∧
    [1, 2, 3, 7].map (fun n => compareValuePar exIdx n .RANGE (-3) 2 (some [2, 4, 9, 10])) = List.replicate 4 [3, 4, 9, 10] ∧
    [1, 2, 3, 7].map (fun n => minMaxPar exIdx n false none) = List.replicate 4 (-3) ∧
    [1, 2, 3, 7].map (fun n => minMaxPar exIdx n true (some [1, 2, 3, 4])) = List.replicate 4 2 := by decide +kernel
example : compareValuePar exIdx 3 .LT 0 0 none = compareValue exIdx .LT 0 0 none :=
  compareValue_worker_independent exIdx wf_exIdx 3 .LT 0 0 none (by simp)
-- `Sum`: the plane terms in another order
example : sumOfTerms (sumTerms exT.ebm exT.planes 0).reverse = 31 ∧ sum exT none = (31, 6) := by decide +kernel
-- `Transpose`: the values as column ids; a found set (superset of / disjoint from the existing columns); truncation to 32 bits
example : [1, 2, 5].map (fun n => transposePar exT n none) = List.replicate 3 [0, 1, 5, 6, 7, 8] ∧
    transposePar exT 2 (some [2, 4, 50, 60]) = [5, 6, 7, 8] ∧ transposePar exT 2 (some [50, 60]) = [] ∧
    transposePar exIdx 2 none = [0, 1, 2, 3, 70000, 70001, 4294967293, 4294967294] := by decide +kernel
example (k : Nat) : mem (transposePar exT 4 (some [2, 4])) k = true ↔
    ∃ c, mem [2, 4] c = true ∧ getValue exT c = some (k : Int) :=
  transpose_spec_dom exT wf_exT 4 (some [2, 4]) (fun f e => by cases e; exact ⟨by decide, by decide⟩)
    (fun c v hc hg => by
      have hc' : c = 2 ∨ c = 3 := by
        simp only [Option.getD_some] at hc
        have := (mem_toList [2, 4] (by decide) (by decide) c).mpr hc
        simp only [toList, List.mem_append, List.mem_range'_1] at this
        simp at this
        omega
      rcases hc' with rfl | rfl
      · cases (show getValue exT 2 = some 7 by decide +kernel) ▸ hg; decide
      · cases (show getValue exT 3 = some 5 by decide +kernel) ▸ hg; decide) k
-- `TransposeWithCounts`: value ↦ number of columns holding it; 1, 2, 3, 7 workers; a found set
example : [1, 2, 3, 7].map (fun n => [0, 5, 7, 6].map (getValue (transposeWithCounts exT n none))) =
      List.replicate 4 [some 1, some 2, some 3, none] ∧
    [0, 5, 7].map (getValue (transposeWithCounts exT 2 (some [2, 4, 12, 13, 50, 60]))) = [none, some 1, some 2] := by
  decide +kernel
example : getValue (transposeWithCounts exT 3 none) 7 = some 3 := by
  rw [transposeWithCounts_spec exT 3 none (by decide +kernel)]; decide +kernel
-- `BatchEqual`: small lists take the trie; 200 scattered values on 100001 columns take the scan; 200 contiguous values do not
example : batchEqualPath exIdx [2, -3, 7] = some false ∧ batchEqualPath exWide exQuery = some true ∧
    batchEqualPath exWide ((List.range 200).map (fun (i : Nat) => (i : Int))) = some false ∧
    batchEqualPath exT exQuery = some false ∧ batchEqualPath exWide [-1] = none := by decide +kernel
example : [1, 2, 3, 7].map (fun n => batchEqualAny exIdx n [2, -3, 7]) = List.replicate 4 [1, 2, 3, 4] ∧
    [1, 2, 3, 7].map (fun n => batchEqualScan exIdx n [2, u64 (-3), 7]) = List.replicate 4 [1, 2, 3, 4] := by decide +kernel
example (c : Nat) : mem (batchEqualAny exWide 4 exQuery) c = true ↔ ∃ v ∈ exQuery, getValue exWide c = some v :=
  batchEqualAny_spec exWide wf_exWide (by decide +kernel) 4 exQuery (by
    intro v hv
    simp only [exQuery, List.mem_map, List.mem_range] at hv
    obtain ⟨i, hi, rfl⟩ := hv
    simp only [min64, max64]; omega) c
example : batchEqualFast exWide exQuery = [] ∧ batchEqualFast exWide (1000 :: exQuery) = [100000, 100001] ∧
    batchEqualFast exWide (5 :: exQuery) = [0, 100000] := by decide +kernel
example : estimate [0, 3, 6, 9] 4 64 = 3 ∧ estimate [0, 1, 2, 3] 4 64 = 0 ∧ estimate [0, 1, 2, 3, 8] 4 64 = 1 ∧
    cutIdx [0, 3, 6, 9] 3 = 3 ∧ goSearch 5 (fun i => decide (2 ≤ i)) = 2 := by decide +kernel
-- the round trip: a used, wider receiver holding other columns; a negative value survives
example : (roundTrip (setValue (new 0 0) 77 (2 ^ 62 + 1)) exIdx).map (fun r => ([1, 2, 3, 9, 77].map (getValue r), bitCount r)) =
    some ([some 2, some 70000, some (-3), some 0, none], 64) ∧
    (roundTrip exIdx exT).map (fun r => ([1, 2, 3, 9].map (getValue r), bitCount r)) =
      some ([some 5, some 7, some 5, some 0], 64) := by decide +kernel
-- data that `MarshalBinary` never produces: a nil entry before a non-empty one panics in a narrow receiver, loads in a wide one
example : unmarshalBinary newDefault [some [1, 3], none, some [1, 2]] = none ∧
    (unmarshalBinary (new 7 0) [some [1, 3], none, some [1, 2]]).map (fun r => [1, 2].map (getValue r)) =
      some [some 2, some 0] ∧ unmarshalBinary newDefault [] = none := by decide +kernel

end RModel.BSI32
