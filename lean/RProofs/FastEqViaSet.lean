import RProofs.FastEq
import RProofs.Rep64Witness
import RProofs.Iter
import RModel.Driver.L2R64
/-!
The checker's instance `Ops32.viaSet` (`Driver/L2R64.lean`) of the un-modelled 32-bit range / in-place functions rebuilds a
bucket from the L1 result with `Rep.ofBSet`.  Here: `Rep.ofBSet` is a right inverse of the abstraction
(`Rep.toBSet_ofBSet`, for every boundary list: strictly increasing, even length), hence `viaSet` has the SET semantics the
bucket-level theorems ask of an `Ops32` instance (the `mem_…` fields of `Ops32.Sound` / `Ops32.SoundBin`).
The `wf_…` fields are FALSE for `viaSet` (it stores run containers only, e.g. `{5}` as `run [(5,0)]`, which is not
`runMinimal`): the checker only compares such buckets as sets.
Core Lean only; no `native_decide`, `bv_decide`, axioms.
-/
namespace RModel.Impl
open RModel RModel.BSet RModel.Driver ContOps RepOps R64Ops

/-- membership in a list of pieces `(key, start, length-1)` -/
def pieceHas (p : Nat × Nat × Nat) (x : Nat) : Bool :=
  decide (p.1 * 65536 + p.2.1 ≤ x) && decide (x ≤ p.1 * 65536 + p.2.1 + p.2.2)

def piecesHas (ps : List (Nat × Nat × Nat)) (x : Nat) : Bool := ps.any (fun p => pieceHas p x)

def slotsAny (l : List Slot) (x : Nat) : Bool :=
  l.any (fun s => decide (s.key * 65536 ≤ x) && s.c.has (x - s.key * 65536))

theorem slotsAny_cons (s : Slot) (t : List Slot) (x : Nat) :
    slotsAny (s :: t) x = ((decide (s.key * 65536 ≤ x) && s.c.has (x - s.key * 65536)) || slotsAny t x) := by
  simp [slotsAny]

theorem run_piece (k s l x : Nat) (rs : List (Nat × Nat)) :
    (decide (k * 65536 ≤ x) && inRuns ((s, l) :: rs) (x - k * 65536)) =
      (pieceHas (k, s, l) x || (decide (k * 65536 ≤ x) && inRuns rs (x - k * 65536))) := by
  rw [inRuns_cons, Bool.eq_iff_iff]
  simp only [pieceHas, Bool.and_eq_true, Bool.or_eq_true, decide_eq_true_eq]
  constructor
  · rintro ⟨h1, h2 | h2⟩
    · left; omega
    · right; exact ⟨h1, h2⟩
  · rintro (h | ⟨h1, h2⟩)
    · exact ⟨by omega, Or.inl (by omega)⟩
    · exact ⟨h1, Or.inr h2⟩

theorem slotsAny_groupPieces : ∀ (ps : List (Nat × Nat × Nat)) (x : Nat),
    slotsAny (groupPieces ps) x = piecesHas ps x
  | [], _ => rfl
  | (k, s, l) :: t, x => by
    have ih := slotsAny_groupPieces t x
    have hp : piecesHas ((k, s, l) :: t) x = (pieceHas (k, s, l) x || piecesHas t x) := by simp [piecesHas]
    rw [hp, ← ih]
    simp only [groupPieces]
    split
    · rename_i k' rs f rest heq
      rw [heq]
      split
      · rename_i hk
        have hk' : k' = k := by simpa using hk
        subst hk'
        rw [slotsAny_cons, slotsAny_cons]
        simp only [has_run]
        rw [run_piece, Bool.or_assoc]
      · rw [slotsAny_cons, slotsAny_cons, slotsAny_cons]
        simp only [has_run]
        rw [run_piece]
        simp [inRuns]
    · rw [slotsAny_cons]
      simp only [has_run]
      rw [run_piece]
      simp [inRuns]

theorem piecesHas_append (a b : List (Nat × Nat × Nat)) (x : Nat) :
    piecesHas (a ++ b) x = (piecesHas a x || piecesHas b x) := by
  simp [piecesHas]

theorem piecesHas_piecesOf (lo hi x : Nat) :
    piecesHas (piecesOf lo hi) x = (decide (lo ≤ x) && decide (x < hi)) := by
  unfold piecesOf
  split
  · rename_i hlt
    rw [Bool.eq_iff_iff]
    simp only [piecesHas, List.any_map, List.any_eq_true, Function.comp, pieceHas, Bool.and_eq_true, decide_eq_true_eq]
    constructor
    · rintro ⟨k, hk, h1, h2⟩
      have := mem_keyRange hk
      omega
    · rintro ⟨h1, h2⟩
      refine ⟨x / 65536, ?_, ?_, ?_⟩
      · simp only [keyRange, List.mem_range'_1]; omega
      · omega
      · omega
  · rename_i hge
    rw [Bool.eq_iff_iff]
    simp only [piecesHas, List.any_nil, Bool.and_eq_true, decide_eq_true_eq]
    constructor
    · intro h; cases h
    · intro h; omega

theorem piecesHas_allPieces : ∀ (s : BSet), SInc s → s.length % 2 = 0 → ∀ x, piecesHas (allPieces s) x = mem s x
  | [], _, _, _ => rfl
  | [_], _, he, _ => by simp at he
  | lo :: hi :: t, hs, he, x => by
    have hp := List.pairwise_cons.mp hs
    have hp2 := List.pairwise_cons.mp hp.2
    have hlh : lo < hi := hp.1 hi (by simp)
    have ih := piecesHas_allPieces t hp2.2 (by simp only [List.length_cons] at he; omega) x
    simp only [allPieces]
    rw [piecesHas_append, piecesHas_piecesOf, ih, mem_cons, mem_cons]
    by_cases h1 : x < lo
    · have : mem t x = false := mem_of_lt_all t x (fun b hb => by have := hp2.1 b hb; omega)
      have h2 : ¬ lo ≤ x := by omega
      simp [h1, h2, this]
    · by_cases h2 : x < hi
      · have h3 : lo ≤ x := by omega
        simp [h1, h2, h3]
      · have h3 : lo ≤ x := by omega
        simp [h1, h2, h3]

/-- **`Rep.ofBSet` is a right inverse of the abstraction**, for every boundary list (no bound needed) -/
theorem Rep.toBSet_ofBSet (s : BSet) (hs : SInc s) (he : s.length % 2 = 0) : (Rep.ofBSet s).toBSet = s := by
  refine canon_ext_sinc _ _ (sinc_rep _) hs (fun x => ?_)
  rw [mem_rep_any]
  exact (slotsAny_groupPieces (allPieces s) x).trans (piecesHas_allPieces s hs he x)

theorem Rep.toBSetFast_ofBSet (s : BSet) (hs : SInc s) (he : s.length % 2 = 0) : (Rep.ofBSet s).toBSetFast = s := by
  rw [Rep.toBSetFast_eq, Rep.toBSet_ofBSet s hs he]

theorem Rep.toBSet_ofBSet_canon {U : Nat} (s : BSet) (hs : Canon U s) : (Rep.ofBSet s).toBSet = s :=
  Rep.toBSet_ofBSet s hs.1 hs.2.2

/-! ### which rebuilt buckets are empty (decides which buckets the bucket-level walks drop) -/

theorem groupPieces_ne_nil (p : Nat × Nat × Nat) (t : List (Nat × Nat × Nat)) : groupPieces (p :: t) ≠ [] := by
  obtain ⟨k, s, l⟩ := p
  simp only [groupPieces]
  split
  · split <;> simp
  · simp

theorem piecesOf_ne_nil {lo hi : Nat} (h : lo < hi) : piecesOf lo hi ≠ [] := by
  unfold piecesOf
  rw [if_pos h]
  intro hn
  have hm : lo / 65536 ∈ keyRange (lo / 65536) ((hi - 1) / 65536) := by
    simp only [keyRange, List.mem_range'_1]; omega
  rw [List.map_eq_nil_iff] at hn
  rw [hn] at hm
  cases hm

/-- `IsEmpty()` of the rebuilt bucket: no container iff the set is empty -/
theorem Rep.isEmptyGo_ofBSet (s : BSet) (hs : SInc s) (he : s.length % 2 = 0) :
    (Rep.ofBSet s).isEmptyGo = s.isEmpty := by
  match s, hs, he with
  | [], _, _ => rfl
  | [_], _, he => simp at he
  | lo :: hi :: t, hs, _ =>
    have hlh : lo < hi := (List.pairwise_cons.mp hs).1 hi (by simp)
    have h1 : allPieces (lo :: hi :: t) ≠ [] := by
      simp only [allPieces]
      intro hn
      exact piecesOf_ne_nil hlh (List.append_eq_nil_iff.mp hn).1
    unfold Rep.ofBSet Rep.isEmptyGo
    cases hps : allPieces (lo :: hi :: t) with
    | nil => exact absurd hps h1
    | cons p ps =>
      have := groupPieces_ne_nil p ps
      cases hg : groupPieces (p :: ps) with
      | nil => exact absurd hg this
      | cons _ _ => rfl

/-! ### the set semantics of the checker's `Ops32` instance -/

theorem Ops32.viaSet_flip (r : Rep) (hr : r.wf = true) (s e : Nat) (he : e ≤ 4294967296) :
    (Ops32.viaSet.flip r s e).toBSet = BSet.flipRange r.toBSet s e := by
  show (Rep.ofBSet (BSet.flipRange r.toBSetFast s e)).toBSet = _
  rw [Rep.toBSetFast_eq]
  exact Rep.toBSet_ofBSet_canon _ (canon_xor _ _ _ (It.canon_rep r hr) (canon_range _ s e he))

theorem Ops32.viaSet_addRange (r : Rep) (hr : r.wf = true) (s e : Nat) (he : e ≤ 4294967296) :
    (Ops32.viaSet.addRange r s e).toBSet = BSet.addRange r.toBSet s e := by
  show (Rep.ofBSet (BSet.addRange r.toBSetFast s e)).toBSet = _
  rw [Rep.toBSetFast_eq]
  exact Rep.toBSet_ofBSet_canon _ (canon_union _ _ _ (It.canon_rep r hr) (canon_range _ s e he))

theorem Ops32.viaSet_removeRange (r : Rep) (hr : r.wf = true) (s e : Nat) (he : e ≤ 4294967296) :
    (Ops32.viaSet.removeRange r s e).toBSet = BSet.removeRange r.toBSet s e := by
  show (Rep.ofBSet (BSet.removeRange r.toBSetFast s e)).toBSet = _
  rw [Rep.toBSetFast_eq]
  exact Rep.toBSet_ofBSet_canon _ (canon_diff _ _ _ (It.canon_rep r hr) (canon_range _ s e he))

theorem Ops32.viaSet_iand (a b : Rep) (ha : a.wf = true) (hb : b.wf = true) :
    (Ops32.viaSet.iand a b).toBSet = inter a.toBSet b.toBSet := by
  show (Rep.ofBSet (inter a.toBSetFast b.toBSetFast)).toBSet = _
  rw [Rep.toBSetFast_eq, Rep.toBSetFast_eq]
  exact Rep.toBSet_ofBSet_canon _ (canon_inter _ _ _ (It.canon_rep a ha) (It.canon_rep b hb))

theorem Ops32.viaSet_ior (a b : Rep) (ha : a.wf = true) (hb : b.wf = true) :
    (Ops32.viaSet.ior a b).toBSet = union a.toBSet b.toBSet := by
  show (Rep.ofBSet (union a.toBSetFast b.toBSetFast)).toBSet = _
  rw [Rep.toBSetFast_eq, Rep.toBSetFast_eq]
  exact Rep.toBSet_ofBSet_canon _ (canon_union _ _ _ (It.canon_rep a ha) (It.canon_rep b hb))

theorem Ops32.viaSet_iandNot (a b : Rep) (ha : a.wf = true) (hb : b.wf = true) :
    (Ops32.viaSet.iandNot a b).toBSet = diff a.toBSet b.toBSet := by
  show (Rep.ofBSet (diff a.toBSetFast b.toBSetFast)).toBSet = _
  rw [Rep.toBSetFast_eq, Rep.toBSetFast_eq]
  exact Rep.toBSet_ofBSet_canon _ (canon_diff _ _ _ (It.canon_rep a ha) (It.canon_rep b hb))

/-- the `mem_…` fields of `Ops32.Sound` and `Ops32.SoundBin` hold for the checker's instance -/
theorem Ops32.viaSet_mem :
    (∀ (r : Rep) (s e y : Nat), r.wf = true → s < e → e ≤ 4294967296 →
      mem (Ops32.viaSet.flip r s e).toBSet y = (mem r.toBSet y != (decide (s ≤ y) && decide (y < e)))) ∧
    (∀ (r : Rep) (s e y : Nat), r.wf = true → s < e → e ≤ 4294967296 →
      mem (Ops32.viaSet.addRange r s e).toBSet y = (mem r.toBSet y || (decide (s ≤ y) && decide (y < e)))) ∧
    (∀ (r : Rep) (s e y : Nat), r.wf = true → s < e → e ≤ 4294967296 →
      mem (Ops32.viaSet.removeRange r s e).toBSet y = (mem r.toBSet y && !(decide (s ≤ y) && decide (y < e)))) ∧
    (∀ (a b : Rep) (y : Nat), a.wf = true → b.wf = true →
      mem (Ops32.viaSet.iand a b).toBSet y = (mem a.toBSet y && mem b.toBSet y)) ∧
    (∀ (a b : Rep) (y : Nat), a.wf = true → b.wf = true →
      mem (Ops32.viaSet.ior a b).toBSet y = (mem a.toBSet y || mem b.toBSet y)) ∧
    (∀ (a b : Rep) (y : Nat), a.wf = true → b.wf = true →
      mem (Ops32.viaSet.iandNot a b).toBSet y = (mem a.toBSet y && !mem b.toBSet y)) := by
  refine ⟨?_, ?_, ?_, ?_, ?_, ?_⟩
  · intro r s e y hr _ he; rw [Ops32.viaSet_flip r hr s e he, mem_flipRange _ (sinc_rep r)]
  · intro r s e y hr _ he; rw [Ops32.viaSet_addRange r hr s e he, mem_addRange _ (sinc_rep r)]
  · intro r s e y hr _ he; rw [Ops32.viaSet_removeRange r hr s e he, mem_removeRange _ (sinc_rep r)]
  · intro a b y ha hb; rw [Ops32.viaSet_iand a b ha hb, mem_inter _ _ (sinc_rep a) (sinc_rep b)]
  · intro a b y ha hb; rw [Ops32.viaSet_ior a b ha hb, mem_union _ _ (sinc_rep a) (sinc_rep b)]
  · intro a b y ha hb; rw [Ops32.viaSet_iandNot a b ha hb, mem_diff _ _ (sinc_rep a) (sinc_rep b)]

/-- … but not the `wf_…` fields: the rebuilt bucket holds run containers only (here `{5}` as `run [(5, 0)]`, which is not
`runMinimal`), so `Ops32.viaSet.Sound` is false and the theorems of `Rep64Range.lean` / `Rep64InPlace.lean` do not apply to
the checker's instance as they stand -/
theorem Ops32.viaSet_not_wf : (Ops32.viaSet.addRange {} 5 6).wf = false := by
  have h : BSet.addRange ({} : Rep).toBSetFast 5 6 = [5, 6] := by
    show BSet.addRange [] 5 6 = _
    simp [BSet.addRange, BSet.union, BSet.combine, BSet.range, BSet.emit]
  show (Rep.ofBSet (BSet.addRange ({} : Rep).toBSetFast 5 6)).wf = false
  rw [h]; decide

end RModel.Impl
