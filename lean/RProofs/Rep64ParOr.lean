import RProofs.Rep64Agg
import RModel.Impl.Rep64ParOr
/-!
# `roaring64.ParOr` at representation level

The DATA model `Rep64.parOr` (`RModel/Impl/Rep64ParOr.lean`, tied to `/repo/roaring64/parallel64.go` by the `l2agg64 paror:<w>`
correspondence check) computes the union of its inputs and returns a well-formed bitmap, for well-formed inputs, EVERY effective
worker count `w ≥ 1` and every sound 32-bit in-place layer (`Ops32.SoundBin`); closed instances with the exact 32-bit model
`Ops32.exact`.

* the chunk grid over `uint32` keys — the chunk size / count functions are those of the 32-bit package (`ParData.parOrChunkSize`,
  `parOrChunkCount`: pure `Nat` arithmetic, `ParData.chunk_grid`, `chunkCount_pos`, `chunk_start_le`, `chunkOf_lt` hold for any key
  bound); here the `uint32` conversions of the chunk bounds are shown never to wrap (`chunkRange64_eq`, up to `hKey = 0xFFFFFFFF`),
  chunk 0 starts at `lKey` (`chunkRange64_first`), every chunk starts right after its predecessor ends (`chunkRange64_succ`), the
  last chunk ends at `hKey` (`chunkRange64_last`), no chunk is empty (`chunkRange64_nonempty`), later chunks lie above earlier ones
  (`chunkRange64_lt`), and a key of `[lKey, hKey]` lies in chunk `i` iff `i = (k − lKey) / chunkSize` (`chunk_partition64`);
* `rangeBuckets_eq_filter`: on a sorted key array the buckets `orOnRange` / `iorOnRange` look at are those with key in `[start, end]`;
* one chunk (`orChunk64_spec`), the assembly (`parOrBuckets_spec`), `roaring32AsRoaring64` (`mem_as64`, `wf_as64`);
* `Rep64.toBSet_parOr`, `Rep64.wf_parOr`, `Rep64.parOr_worker_independent`, `Rep64.parOr_exact`.
Core Lean only; no `native_decide`, `bv_decide`, axioms, `sorry`.
-/
set_option linter.unusedSimpArgs false
set_option linter.unusedVariables false
namespace RModel.Impl
open RModel RModel.BSet RModel.Driver ContOps RepOps R64Ops ParData

namespace R64Par

/-! ### the chunk grid over `uint32` keys -/

/-- `chunkRange64` without the `uint32` conversions (they are the identity on the values that occur): no chunk bound wraps, also
at the top of the key space -/
theorem chunkRange64_eq (lKey hKey w i : Nat) (hlh : lKey ≤ hKey) (hh : hKey ≤ 4294967295) (hw : 1 ≤ w)
    (hi : i < parOrChunkCount lKey hKey w) :
    chunkRange64 lKey hKey w i =
      (lKey + i * parOrChunkSize lKey hKey w, min (lKey + (i + 1) * parOrChunkSize lKey hKey w - 1) hKey) := by
  have hs := chunk_start_le lKey hKey w i hlh hw hi
  unfold chunkRange64 u32
  simp only []
  rw [Nat.mod_eq_of_lt (by omega), Nat.mod_eq_of_lt (by omega)]

/-- no chunk is empty -/
theorem chunkRange64_nonempty (lKey hKey w i : Nat) (hlh : lKey ≤ hKey) (hh : hKey ≤ 4294967295) (hw : 1 ≤ w)
    (hi : i < parOrChunkCount lKey hKey w) : (chunkRange64 lKey hKey w i).1 ≤ (chunkRange64 lKey hKey w i).2 := by
  have hs := chunk_start_le lKey hKey w i hlh hw hi
  have hpos := chunkSize_pos lKey hKey w hlh hw
  rw [chunkRange64_eq lKey hKey w i hlh hh hw hi]
  simp only []
  rw [Nat.add_mul, Nat.one_mul]
  omega

/-- the first chunk starts at `lKey` -/
theorem chunkRange64_first (lKey hKey w : Nat) (hlh : lKey ≤ hKey) (hh : hKey ≤ 4294967295) (hw : 1 ≤ w) :
    (chunkRange64 lKey hKey w 0).1 = lKey := by
  rw [chunkRange64_eq lKey hKey w 0 hlh hh hw (chunkCount_pos lKey hKey w hlh hw)]
  simp only [Nat.zero_mul, Nat.add_zero]

/-- every chunk starts right after its predecessor ends -/
theorem chunkRange64_succ (lKey hKey w i : Nat) (hlh : lKey ≤ hKey) (hh : hKey ≤ 4294967295) (hw : 1 ≤ w)
    (hi : i + 1 < parOrChunkCount lKey hKey w) :
    (chunkRange64 lKey hKey w (i + 1)).1 = (chunkRange64 lKey hKey w i).2 + 1 := by
  have hs := chunk_start_le lKey hKey w (i + 1) hlh hw hi
  have hpos := chunkSize_pos lKey hKey w hlh hw
  rw [chunkRange64_eq lKey hKey w (i + 1) hlh hh hw hi, chunkRange64_eq lKey hKey w i hlh hh hw (by omega)]
  simp only []
  rw [Nat.add_mul, Nat.one_mul] at hs ⊢
  omega

/-- the last chunk ends at `hKey` -/
theorem chunkRange64_last (lKey hKey w : Nat) (hlh : lKey ≤ hKey) (hh : hKey ≤ 4294967295) (hw : 1 ≤ w) :
    (chunkRange64 lKey hKey w (parOrChunkCount lKey hKey w - 1)).2 = hKey := by
  have hc := chunkCount_pos lKey hKey w hlh hw
  have hg := (chunk_grid lKey hKey w hlh hw).1
  rw [chunkRange64_eq lKey hKey w _ hlh hh hw (by omega)]
  simp only []
  have : parOrChunkCount lKey hKey w - 1 + 1 = parOrChunkCount lKey hKey w := by omega
  rw [this]
  omega

/-- chunk ranges are ordered: a later chunk lies entirely above an earlier one -/
theorem chunkRange64_lt (lKey hKey w i j : Nat) (hlh : lKey ≤ hKey) (hh : hKey ≤ 4294967295) (hw : 1 ≤ w)
    (hij : i < j) (hj : j < parOrChunkCount lKey hKey w) :
    (chunkRange64 lKey hKey w i).2 < (chunkRange64 lKey hKey w j).1 := by
  have hpos := chunkSize_pos lKey hKey w hlh hw
  have hsj := chunk_start_le lKey hKey w j hlh hw hj
  rw [chunkRange64_eq lKey hKey w j hlh hh hw hj, chunkRange64_eq lKey hKey w i hlh hh hw (by omega)]
  simp only []
  have hm : (i + 1) * parOrChunkSize lKey hKey w ≤ j * parOrChunkSize lKey hKey w := Nat.mul_le_mul_right _ hij
  rw [Nat.add_mul, Nat.one_mul] at hm ⊢
  omega

/-- **the chunk grid covers `[lKey, hKey]` exactly once**, for `uint32` keys: for every worker count `w ≥ 1` (whatever its size
relative to the key span) and every key range up to `hKey = 0xFFFFFFFF`, a key `k ∈ [lKey, hKey]` lies in the range of chunk
`i < chunkCount` iff `i = (k − lKey) / chunkSize`, and that index IS below `chunkCount` -/
theorem chunk_partition64 (lKey hKey w k : Nat) (hlh : lKey ≤ hKey) (hh : hKey ≤ 4294967295) (hw : 1 ≤ w)
    (hk1 : lKey ≤ k) (hk2 : k ≤ hKey) :
    chunkOf lKey hKey w k < parOrChunkCount lKey hKey w ∧
      ∀ i, i < parOrChunkCount lKey hKey w →
        (((chunkRange64 lKey hKey w i).1 ≤ k ∧ k ≤ (chunkRange64 lKey hKey w i).2) ↔ i = chunkOf lKey hKey w k) := by
  refine ⟨chunkOf_lt lKey hKey w k hlh hw hk1 hk2, fun i hi => ?_⟩
  have hpos := chunkSize_pos lKey hKey w hlh hw
  rw [chunkRange64_eq lKey hKey w i hlh hh hw hi]
  simp only []
  unfold chunkOf
  constructor
  · rintro ⟨h1, h2⟩
    symm
    rw [Nat.div_eq_iff hpos]
    rw [Nat.add_mul, Nat.one_mul] at h2
    omega
  · intro h
    have := (Nat.div_eq_iff hpos).mp h.symm
    rw [Nat.add_mul, Nat.one_mul]
    omega

/-- the ranges of the chunks lie inside `[lKey, hKey]` -/
theorem chunkRange64_within (lKey hKey w i : Nat) (hlh : lKey ≤ hKey) (hh : hKey ≤ 4294967295) (hw : 1 ≤ w)
    (hi : i < parOrChunkCount lKey hKey w) :
    lKey ≤ (chunkRange64 lKey hKey w i).1 ∧ (chunkRange64 lKey hKey w i).2 ≤ hKey := by
  rw [chunkRange64_eq lKey hKey w i hlh hh hw hi]
  simp only []
  omega

/-- the hypotheses are satisfiable at the very top of the key space: keys `0xFFFFFFF9 … 0xFFFFFFFF`, one worker: 4 chunks of (at
most) 2 keys, the last one is the single key `0xFFFFFFFF`, nothing wraps; and the partition theorem instantiated there -/
example : (parOrChunkSize 4294967289 4294967295 1, parOrChunkCount 4294967289 4294967295 1) = (2, 4) ∧
    (List.range 4).map (chunkRange64 4294967289 4294967295 1) =
      [(4294967289, 4294967290), (4294967291, 4294967292), (4294967293, 4294967294), (4294967295, 4294967295)] := by decide
example : chunkOf 4294967289 4294967295 1 4294967295 < parOrChunkCount 4294967289 4294967295 1 ∧
    ∀ i, i < parOrChunkCount 4294967289 4294967295 1 →
      (((chunkRange64 4294967289 4294967295 1 i).1 ≤ 4294967295 ∧ 4294967295 ≤ (chunkRange64 4294967289 4294967295 1 i).2) ↔
        i = chunkOf 4294967289 4294967295 1 4294967295) :=
  chunk_partition64 4294967289 4294967295 1 4294967295 (by decide) (by decide) (by decide) (by decide) (by decide)
/-- a re-trimmed grid: 70 keys, 16 workers: `chunkCount₀ = 64`, `chunkSize = 2`, `chunkCount = 35` -/
example : (parOrChunkSize 0 69 16, parOrChunkCount 0 69 16) = (2, 35) := by decide

/-! ### the buckets in range -/

def inKeyRange64 (start last : Nat) (b : Bucket) : Bool := decide (start ≤ b.high) && decide (b.high ≤ last)

theorem takeWhile_eq_filter64 (start last : Nat) (l : List Bucket) (hs : l.Pairwise (fun s t => s.high < t.high))
    (hge : ∀ s ∈ l, start ≤ s.high) :
    l.takeWhile (fun s => decide (s.high ≤ last)) = l.filter (inKeyRange64 start last) := by
  induction l with
  | nil => rfl
  | cons u v ih =>
    have hu := hge u (by simp)
    have hv := (List.pairwise_cons.mp hs)
    by_cases h : u.high ≤ last
    · rw [List.takeWhile_cons_of_pos (by simpa using h), List.filter_cons_of_pos (by simp [inKeyRange64, hu, h]),
        ih hv.2 (fun s hs' => hge s (by simp [hs']))]
    · rw [List.takeWhile_cons_of_neg (by simpa using h), List.filter_cons_of_neg (by simp [inKeyRange64, h])]
      symm
      rw [List.filter_eq_nil_iff]
      intro s hs'
      have := hv.1 s hs'
      simp [inKeyRange64]; omega

/-- on a sorted key array the buckets `orOnRange` / `iorOnRange` look at (`parNaiveStartAt`, then `key <= last`) are exactly those
whose key lies in `[start, last]` -/
theorem rangeBuckets_eq_filter (start last : Nat) (l : List Bucket) (hs : l.Pairwise (fun s t => s.high < t.high)) :
    rangeBuckets start last l = l.filter (inKeyRange64 start last) := by
  induction l with
  | nil => rfl
  | cons u v ih =>
    have hv := (List.pairwise_cons.mp hs)
    unfold rangeBuckets at ih ⊢
    by_cases h : u.high < start
    · rw [List.dropWhile_cons_of_pos (by simpa using h), List.filter_cons_of_neg (by simp [inKeyRange64]; omega)]
      exact ih hv.2
    · rw [List.dropWhile_cons_of_neg (by simpa using h)]
      exact takeWhile_eq_filter64 start last (u :: v) hs (fun s hs' => by
        rcases List.mem_cons.mp hs' with rfl | h'
        · omega
        · have := hv.1 s h'; omega)

/-- the key test commutes with the bucket lookup (`q` = the key looked up, `f` = the inner membership test) -/
theorem any_filter_range (start last q : Nat) (f : Bucket → Bool) (l : List Bucket) :
    (l.filter (inKeyRange64 start last)).any (fun b => b.high == q && f b) =
      (l.any (fun b => b.high == q && f b) && (decide (start ≤ q) && decide (q ≤ last))) := by
  induction l with
  | nil => rfl
  | cons u v ih =>
    by_cases h : inKeyRange64 start last u = true
    · rw [List.filter_cons_of_pos h, List.any_cons, List.any_cons, ih]
      by_cases hk : u.high = q
      · simp only [inKeyRange64, hk] at h
        rw [h, Bool.and_true, Bool.and_true]
      · rw [beq_false_of_ne' hk, Bool.false_and, Bool.false_or, Bool.false_or]
    · rw [List.filter_cons_of_neg h, List.any_cons, ih]
      by_cases hk : u.high = q
      · have : (decide (start ≤ q) && decide (q ≤ last)) = false := by
          simp only [inKeyRange64, hk] at h; simpa using h
        rw [this, Bool.and_false, Bool.and_false]
      · rw [beq_false_of_ne' hk, Bool.false_and, Bool.false_or]

theorem bucketsHas_filter_range (start last : Nat) (l : List Bucket) (x : Nat) :
    bucketsHas (l.filter (inKeyRange64 start last)) x =
      (bucketsHas l x && (decide (start ≤ x / 4294967296) && decide (x / 4294967296 ≤ last))) :=
  any_filter_range start last (x / 4294967296) (fun b => mem b.bm.toBSet (x % 4294967296)) l

theorem wf_filter64 {l : List Bucket} (h : BucketsWf l) (p : Bucket → Bool) : BucketsWf (l.filter p) :=
  ⟨h.sorted.sublist List.filter_sublist, fun s hs => h.ok s (List.mem_filter.mp hs).1⟩

theorem wf_rangeBuckets (start last : Nat) {l : List Bucket} (h : BucketsWf l) : BucketsWf (rangeBuckets start last l) := by
  rw [rangeBuckets_eq_filter start last l h.sorted]; exact wf_filter64 h _

theorem keys_rangeBuckets (start last : Nat) {l : List Bucket} (h : BucketsWf l) :
    ∀ s ∈ rangeBuckets start last l, start ≤ s.high ∧ s.high ≤ last := by
  rw [rangeBuckets_eq_filter start last l h.sorted]
  intro s hs
  have := (List.mem_filter.mp hs).2
  simpa [inKeyRange64] using this

theorem has_rangeBuckets (start last : Nat) {l : List Bucket} (h : BucketsWf l) (x : Nat) :
    bucketsHas (rangeBuckets start last l) x =
      (bucketsHas l x && (decide (start ≤ x / 4294967296) && decide (x / 4294967296 ≤ last))) := by
  rw [rangeBuckets_eq_filter start last l h.sorted]; exact bucketsHas_filter_range start last l x

/-! ### every key of a merge comes from one of the two sides -/

theorem keys_map_high {out : Bucket → Bucket} (h1 : ∀ b, (out b).high = b.high) (P : Nat → Prop) {l : List Bucket}
    (h : ∀ s ∈ l, P s.high) : ∀ s ∈ l.map out, P s.high := by
  intro s hs
  obtain ⟨b, hb, rfl⟩ := List.mem_map.mp hs
  rw [h1]; exact h b hb

theorem keys_orBuckets (P : Nat → Prop) (a b : List Bucket) (ha : ∀ s ∈ a, P s.high) (hb : ∀ s ∈ b, P s.high) :
    ∀ s ∈ orBuckets a b, P s.high := by
  fun_induction orBuckets a b with
  | case1 b => exact keys_map_high copyBucket_high P hb
  | case2 a h => exact keys_map_high copyBucket_high P ha
  | case3 sa ta sb tb hlt ih =>
    intro s hs
    rcases List.mem_cons.mp hs with h | h'
    · rw [h]; exact ha sa (by simp)
    · exact ih (fun s hs => ha s (by simp [hs])) hb s h'
  | case4 sa ta sb tb hlt hlt2 ih =>
    intro s hs
    rcases List.mem_cons.mp hs with h | h'
    · rw [h]; exact hb sb (by simp)
    · exact ih ha (fun s hs => hb s (by simp [hs])) s h'
  | case5 sa ta sb tb hlt hlt2 ih =>
    intro s hs
    rcases List.mem_cons.mp hs with h | h'
    · rw [h]; exact ha sa (by simp)
    · exact ih (fun s hs => ha s (by simp [hs])) (fun s hs => hb s (by simp [hs])) s h'

theorem keys_iorBuckets (o : Ops32) (c : Bool) (P : Nat → Prop) (a b : List Bucket) (ha : ∀ s ∈ a, P s.high)
    (hb : ∀ s ∈ b, P s.high) : ∀ s ∈ iorBuckets o c a b, P s.high := by
  fun_induction iorBuckets o c a b with
  | case1 b => exact keys_map_high (appendTail_high c) P hb
  | case2 a h => exact ha
  | case3 sa ta sb tb hlt ih =>
    intro s hs
    rcases List.mem_cons.mp hs with h | h'
    · rw [h]; exact ha sa (by simp)
    · exact ih (fun s hs => ha s (by simp [hs])) hb s h'
  | case4 sa ta sb tb hlt hlt2 ih =>
    intro s hs
    rcases List.mem_cons.mp hs with h | h'
    · rw [h]; exact hb sb (by simp)
    · exact ih ha (fun s hs => hb s (by simp [hs])) s h'
  | case5 sa ta sb tb hlt hlt2 ih =>
    intro s hs
    rcases List.mem_cons.mp hs with h | h'
    · rw [h]; exact ha sa (by simp)
    · exact ih (fun s hs => ha s (by simp [hs])) (fun s hs => hb s (by simp [hs])) s h'

/-! ### one chunk -/

theorem any_and_const64 {α : Type} (l : List α) (f : α → Bool) (c : Bool) :
    l.any (fun a => f a && c) = (l.any f && c) := by
  induction l with
  | nil => simp
  | cons a t ih => rw [List.any_cons, List.any_cons, ih]; cases f a <;> cases c <;> simp

theorem foldl_chunk64 {o : Ops32} (ho : o.SoundBin) (start last : Nat) (t : List (List Bucket))
    (ht : ∀ c ∈ t, BucketsWf c) (acc : List Bucket) (hacc : BucketsWf acc)
    (hk : ∀ s ∈ acc, start ≤ s.high ∧ s.high ≤ last) :
    BucketsWf (t.foldl (fun acc c => iorBuckets o false acc (rangeBuckets start last c)) acc) ∧
      (∀ s ∈ t.foldl (fun acc c => iorBuckets o false acc (rangeBuckets start last c)) acc,
        start ≤ s.high ∧ s.high ≤ last) ∧
      ∀ x, bucketsHas (t.foldl (fun acc c => iorBuckets o false acc (rangeBuckets start last c)) acc) x =
        (bucketsHas acc x || t.any (fun c => bucketsHas (rangeBuckets start last c) x)) := by
  induction t generalizing acc with
  | nil => exact ⟨hacc, hk, fun x => by simp⟩
  | cons c t ih =>
    have hc := ht c (by simp)
    have hr := wf_rangeBuckets start last hc
    have h1 := wf_iorBuckets ho false acc _ hacc hr
    have h2 := keys_iorBuckets o false (fun k => start ≤ k ∧ k ≤ last) acc _ hk (keys_rangeBuckets start last hc)
    obtain ⟨i1, i2, i3⟩ := ih (fun c' hc' => ht c' (by simp [hc'])) _ h1 h2
    refine ⟨i1, i2, fun x => ?_⟩
    rw [List.foldl_cons, i3 x, has_iorBuckets ho false acc _ hacc hr, List.any_cons, Bool.or_assoc]

/-- what one worker computes for one chunk spec `{start, last}`: a well-formed bucket list with keys in `[start, last]` holding
exactly the members of the operands whose bucket key is in that range -/
theorem orChunk64_spec {o : Ops32} (ho : o.SoundBin) (start last : Nat) (a b : List Bucket) (t : List (List Bucket))
    (ha : BucketsWf a) (hb : BucketsWf b) (ht : ∀ c ∈ t, BucketsWf c) :
    BucketsWf (orChunk64 o a b t start last) ∧
      (∀ s ∈ orChunk64 o a b t start last, start ≤ s.high ∧ s.high ≤ last) ∧
      ∀ x, bucketsHas (orChunk64 o a b t start last) x =
        ((bucketsHas a x || bucketsHas b x || t.any (fun c => bucketsHas c x)) &&
          (decide (start ≤ x / 4294967296) && decide (x / 4294967296 ≤ last))) := by
  have hra := wf_rangeBuckets start last ha
  have hrb := wf_rangeBuckets start last hb
  have h1 := wf_orBuckets _ _ hra hrb
  have h2 := keys_orBuckets (fun k => start ≤ k ∧ k ≤ last) _ _ (keys_rangeBuckets start last ha)
    (keys_rangeBuckets start last hb)
  obtain ⟨i1, i2, i3⟩ := foldl_chunk64 ho start last t ht _ h1 h2
  unfold orChunk64
  refine ⟨i1, i2, fun x => ?_⟩
  rw [i3 x, has_orBuckets _ _ hra hrb, has_rangeBuckets start last ha, has_rangeBuckets start last hb]
  have : t.any (fun c => bucketsHas (rangeBuckets start last c) x) =
      t.any (fun c => bucketsHas c x && (decide (start ≤ x / 4294967296) && decide (x / 4294967296 ≤ last))) :=
    any_congr_mem (fun c hc => has_rangeBuckets start last (ht c hc) x)
  rw [this, any_and_const64]
  cases bucketsHas a x <;> cases bucketsHas b x <;> cases t.any (fun c => bucketsHas c x) <;>
    cases (decide (start ≤ x / 4294967296) && decide (x / 4294967296 ≤ last)) <;> rfl

/-! ### `lKey`, `hKey` -/

theorem foldl_min_le64 (l : List Rep64) (m : Nat) :
    l.foldl (fun m r => min m (firstKey64 r)) m ≤ m ∧
      ∀ r ∈ l, l.foldl (fun m r => min m (firstKey64 r)) m ≤ firstKey64 r := by
  induction l generalizing m with
  | nil => exact ⟨Nat.le_refl _, fun _ h => by cases h⟩
  | cons a t ih =>
    obtain ⟨h1, h2⟩ := ih (min m (firstKey64 a))
    simp only [List.foldl_cons]
    refine ⟨by omega, fun r hr => ?_⟩
    rcases List.mem_cons.mp hr with rfl | h'
    · omega
    · exact h2 r h'

theorem foldl_max_ge64 (l : List Rep64) (m : Nat) :
    m ≤ l.foldl (fun m r => max m (lastKey64 r)) m ∧
      ∀ r ∈ l, lastKey64 r ≤ l.foldl (fun m r => max m (lastKey64 r)) m := by
  induction l generalizing m with
  | nil => exact ⟨Nat.le_refl _, fun _ h => by cases h⟩
  | cons a t ih =>
    obtain ⟨h1, h2⟩ := ih (max m (lastKey64 a))
    simp only [List.foldl_cons]
    refine ⟨by omega, fun r hr => ?_⟩
    rcases List.mem_cons.mp hr with rfl | h'
    · omega
    · exact h2 r h'

theorem foldl_max_le64 (l : List Rep64) (m B : Nat) (hm : m ≤ B) (hl : ∀ r ∈ l, lastKey64 r ≤ B) :
    l.foldl (fun m r => max m (lastKey64 r)) m ≤ B := by
  induction l generalizing m with
  | nil => exact hm
  | cons a t ih =>
    simp only [List.foldl_cons]
    exact ih _ (by have := hl a (by simp); omega) (fun r hr => hl r (by simp [hr]))

theorem firstKey64_le {r : Rep64} (h : BucketsWf r.buckets) : ∀ s ∈ r.buckets, firstKey64 r ≤ s.high := by
  unfold firstKey64
  cases hs : r.buckets with
  | nil => intro s h'; cases h'
  | cons u v =>
    rw [hs] at h
    intro s h'
    simp only [List.head?_cons, Option.map_some, Option.getD_some]
    rcases List.mem_cons.mp h' with rfl | h''
    · exact Nat.le_refl _
    · exact Nat.le_of_lt (h.head_lt s h'')

theorem le_lastKey64 {r : Rep64} (h : BucketsWf r.buckets) : ∀ s ∈ r.buckets, s.high ≤ lastKey64 r := by
  unfold lastKey64
  intro s hs
  have hne : r.buckets ≠ [] := by intro h0; rw [h0] at hs; cases hs
  obtain ⟨ys, hys⟩ := List.getLast?_eq_some_iff.mp (List.getLast?_eq_some_getLast hne)
  rw [List.getLast?_eq_some_getLast hne]
  simp only [Option.map_some, Option.getD_some]
  have hp := h.sorted
  rw [hys] at hp hs
  rcases List.mem_append.mp hs with h1 | h1
  · exact Nat.le_of_lt ((List.pairwise_append.mp hp).2.2 s h1 _ (by simp))
  · rw [List.mem_singleton.mp h1]; exact Nat.le_refl _

theorem lastKey64_le {r : Rep64} (h : BucketsWf r.buckets) : lastKey64 r ≤ 4294967295 := by
  unfold lastKey64
  cases hl : r.buckets.getLast? with
  | none => simp
  | some a =>
    have := (h.ok a (List.mem_of_getLast? hl)).1
    simp only [Option.map_some, Option.getD_some]; omega

/-- every key of every operand lies in `[lKey, hKey]`, and `hKey ≤ 0xFFFFFFFF` -/
theorem keys_between64 (l : List Rep64) (hl : ∀ r ∈ l, BucketsWf r.buckets) :
    highKey64 l ≤ 4294967295 ∧ ∀ r ∈ l, ∀ s ∈ r.buckets, lowKey64 l ≤ s.high ∧ s.high ≤ highKey64 l := by
  refine ⟨foldl_max_le64 l 0 4294967295 (Nat.zero_le _) (fun r hr => lastKey64_le (hl r hr)), fun r hr s hs => ⟨?_, ?_⟩⟩
  · exact Nat.le_trans ((foldl_min_le64 l 4294967295).2 r hr) (firstKey64_le (hl r hr) s hs)
  · exact Nat.le_trans (le_lastKey64 (hl r hr) s hs) ((foldl_max_ge64 l 0).2 r hr)

/-! ### assembling the chunks -/

theorem bucketsHas_flatMap {α : Type} (l : List α) (f : α → List Bucket) (x : Nat) :
    bucketsHas (l.flatMap f) x = l.any (fun i => bucketsHas (f i) x) := by
  simp only [bucketsHas, List.any_flatMap]

theorem wf_flatMap_range64 (n : Nat) (f : Nat → List Bucket) (hwf : ∀ i, i < n → BucketsWf (f i))
    (hord : ∀ i j, i < j → j < n → ∀ s ∈ f i, ∀ t ∈ f j, s.high < t.high) : BucketsWf ((List.range n).flatMap f) := by
  refine ⟨?_, ?_⟩
  · rw [List.pairwise_flatMap]
    refine ⟨fun i hi => (hwf i (List.mem_range.mp hi)).sorted, ?_⟩
    exact List.Pairwise.imp_of_mem (fun {i j} hi hj hij => hord i j hij (List.mem_range.mp hj)) List.pairwise_lt_range
  · intro s hs
    obtain ⟨i, hi, hsi⟩ := List.mem_flatMap.mp hs
    exact (hwf i (List.mem_range.mp hi)).ok s hsi

/-- **the assembled result of `ParOr`** (at least two non-empty operands, more than one key): well-formed — keys strictly
increasing across the chunk boundaries — and it holds exactly the members of the operands, for every worker count `w ≥ 1` -/
theorem parOrBuckets_spec {o : Ops32} (ho : o.SoundBin) (w : Nat) (hw : 1 ≤ w) (a b : Rep64) (t : List Rep64)
    (hl : ∀ r ∈ a :: b :: t, BucketsWf r.buckets) (hne : a.buckets ≠ []) :
    BucketsWf (parOrBuckets o w a b t) ∧
      ∀ x, bucketsHas (parOrBuckets o w a b t) x = (a :: b :: t).any (fun r => bucketsHas r.buckets x) := by
  obtain ⟨hh, hkeys⟩ := keys_between64 (a :: b :: t) hl
  have hlh : lowKey64 (a :: b :: t) ≤ highKey64 (a :: b :: t) := by
    cases hs : a.buckets with
    | nil => exact absurd hs hne
    | cons u v => have := hkeys a (by simp) u (by rw [hs]; simp); omega
  have ha := hl a (by simp)
  have hb := hl b (by simp)
  have ht : ∀ c ∈ t.map (·.buckets), BucketsWf c := by
    intro c hc
    obtain ⟨r, hr, rfl⟩ := List.mem_map.mp hc
    exact hl r (by simp [hr])
  unfold parOrBuckets
  simp only []
  generalize hlk : lowKey64 (a :: b :: t) = lKey at *
  generalize hhk : highKey64 (a :: b :: t) = hKey at *
  have hspec := fun i => orChunk64_spec ho (chunkRange64 lKey hKey w i).1 (chunkRange64 lKey hKey w i).2 a.buckets b.buckets
    (t.map (·.buckets)) ha hb ht
  refine ⟨?_, fun x => ?_⟩
  · refine wf_flatMap_range64 _ _ (fun i _ => (hspec i).1) ?_
    intro i j hij hj s hs u hu
    have h1 := ((hspec i).2.1 s hs).2
    have h2 := ((hspec j).2.1 u hu).1
    have := chunkRange64_lt lKey hKey w i j hlh hh hw hij hj
    omega
  · rw [bucketsHas_flatMap]
    have hU : (bucketsHas a.buckets x || bucketsHas b.buckets x || (t.map (·.buckets)).any (fun c => bucketsHas c x)) =
        (a :: b :: t).any (fun r => bucketsHas r.buckets x) := by
      simp only [List.any_cons, List.any_map, Bool.or_assoc]; rfl
    have : (List.range (parOrChunkCount lKey hKey w)).any (fun i =>
          bucketsHas (orChunk64 o a.buckets b.buckets (t.map (·.buckets)) (chunkRange64 lKey hKey w i).1
            (chunkRange64 lKey hKey w i).2) x) =
        (List.range (parOrChunkCount lKey hKey w)).any (fun i =>
          (decide ((chunkRange64 lKey hKey w i).1 ≤ x / 4294967296) &&
              decide (x / 4294967296 ≤ (chunkRange64 lKey hKey w i).2)) &&
            (a :: b :: t).any (fun r => bucketsHas r.buckets x)) :=
      any_congr_mem (fun i _ => by rw [(hspec i).2.2 x, hU, Bool.and_comm])
    rw [this, any_and_const64]
    cases hany : (a :: b :: t).any (fun r => bucketsHas r.buckets x) with
    | false => rw [Bool.and_false]
    | true =>
      rw [Bool.and_true]
      obtain ⟨r, hr, hrx⟩ := List.any_eq_true.mp hany
      obtain ⟨s, hs, hsx⟩ := List.any_eq_true.mp (show r.buckets.any _ = true from hrx)
      have hk : s.high = x / 4294967296 := by
        simp only [Bool.and_eq_true, beq_iff_eq] at hsx; exact hsx.1
      have hb' := hkeys r hr s hs
      rw [hk] at hb'
      obtain ⟨hlt, hiff⟩ := chunk_partition64 lKey hKey w (x / 4294967296) hlh hh hw hb'.1 hb'.2
      rw [List.any_eq_true]
      refine ⟨chunkOf lKey hKey w (x / 4294967296), List.mem_range.mpr hlt, ?_⟩
      have := (hiff _ hlt).mpr rfl
      simp only [Bool.and_eq_true, decide_eq_true_eq]
      exact this

/-! ### the filter, and membership operand by operand -/

theorem any_filter_nonempty64 (l : List Rep64) (x : Nat) :
    (l.filter (fun r => !r.buckets.isEmpty)).any (fun r => bucketsHas r.buckets x) =
      l.any (fun r => bucketsHas r.buckets x) := by
  induction l with
  | nil => rfl
  | cons a t ih =>
    by_cases h : a.buckets.isEmpty = true
    · rw [List.filter_cons_of_neg (by simp [h]), List.any_cons, ih]
      have : a.buckets = [] := List.isEmpty_iff.mp h
      rw [this, bucketsHas_nil, Bool.false_or]
    · rw [List.filter_cons_of_pos (by simpa using h), List.any_cons, List.any_cons, ih]

theorem any_mem_eq_any_buckets (l : List Rep64) (hl : ∀ r ∈ l, r.wf = true) (x : Nat) :
    l.any (fun r => mem r.toBSet x) = l.any (fun r => bucketsHas r.buckets x) :=
  any_congr_mem (fun r hr => mem_rep64_buckets r ((bucketsWf_iff r).mp (hl r hr)).bounded x)

/-! ### `roaring32AsRoaring64` and the one-key path -/

theorem wf_as64 (R : Rep) (k : Nat) (hk : k < 4294967296) (hR : R.wf = true) : (as64 R k).wf = true := by
  unfold as64
  cases he : R.isEmptyGo with
  | true => rfl
  | false =>
    exact (bucketsWf_iff _).mpr (BucketsWf.cons ⟨hk, hR, he⟩ BucketsWf.nil (fun _ h => by cases h))

theorem mem_as64 (R : Rep) (k : Nat) (hR : R.wf = true) (x : Nat) :
    mem (as64 R k).toBSet x = (k == x / 4294967296 && mem R.toBSet (x % 4294967296)) := by
  unfold as64
  cases he : R.isEmptyGo with
  | true =>
    rw [mem_of_isEmptyGo he, Bool.and_false]
    exact mem_rep64_buckets {} (fun _ h => by cases h) x
  | false =>
    have hb : ∀ b ∈ [({ high := k, bm := R, flag := false } : Bucket)], b.bm.Bounded32 := by
      intro b hb'
      rw [List.mem_singleton.mp hb']
      exact bounded32_of_wf hR
    exact (mem_rep64_buckets { cow := false, buckets := [{ high := k, bm := R, flag := false }] } hb x).trans
      (by rw [bucketsHas_cons, bucketsHas_nil, Bool.or_false])

/-- all buckets under one key: the bucket lookup is the key test and a search through the 32-bit bitmaps -/
theorem bucketsHas_onekey (bs : List Bucket) (k : Nat) (h : ∀ b ∈ bs, b.high = k) (x : Nat) :
    bucketsHas bs x = (k == x / 4294967296 && (bs.map (·.bm)).any (fun m => mem m.toBSet (x % 4294967296))) := by
  induction bs with
  | nil => rw [bucketsHas_nil, List.map_nil, List.any_nil, Bool.and_false]
  | cons b t ih =>
    rw [bucketsHas_cons, ih (fun b' hb' => h b' (by simp [hb'])), h b (by simp), List.map_cons, List.any_cons]
    generalize (k == x / 4294967296) = c
    cases c <;> simp

theorem any_onekey (l : List Rep64) (k : Nat) (h : ∀ r ∈ l, ∀ b ∈ r.buckets, b.high = k) (x : Nat) :
    l.any (fun r => bucketsHas r.buckets x) =
      (k == x / 4294967296 &&
        (l.flatMap fun r => r.buckets.map (·.bm)).any (fun m => mem m.toBSet (x % 4294967296))) := by
  induction l with
  | nil => rw [List.any_nil, List.flatMap_nil, List.any_nil, Bool.and_false]
  | cons r t ih =>
    rw [List.any_cons, ih (fun r' hr' => h r' (by simp [hr'])), bucketsHas_onekey r.buckets k (h r (by simp)) x,
      List.flatMap_cons, List.any_append]
    generalize (k == x / 4294967296) = c
    cases c <;> simp

end R64Par

open R64Par

/-! ### concrete operands for the `example`s below -/

namespace R64ParDemo
def sa (k : Nat) (vs : List Nat) : Slot := { key := k, c := .arr vs, flag := false }
/-- three non-empty operands around the top of the key space; `x1`'s last bucket and all buckets of `x3` are flagged -/
def x1 : Rep64 :=
  { cow := true, buckets := [⟨4294967290, { slots := [sa 0 [1, 2]] }, false⟩,
                             ⟨4294967295, { slots := [sa 0 [7], sa 65535 [65535]] }, true⟩] }
def x2 : Rep64 :=
  { cow := false, buckets := [⟨4294967292, { slots := [sa 3 [9]] }, false⟩, ⟨4294967295, { slots := [sa 0 [8]] }, false⟩] }
def x3 : Rep64 :=
  { cow := true, buckets := [⟨4294967289, { slots := [sa 1 [0]] }, true⟩, ⟨4294967291, { slots := [sa 1 [5]] }, true⟩,
                             ⟨4294967295, { slots := [sa 2 [4]] }, true⟩] }
/-- with an empty operand in the middle -/
def demo : List Rep64 := [x1, {}, x2, x3]
/-- two operands that consist of the one bucket `0xFFFFFFFF` (the 32-bit `ParOr` path) -/
def y1 : Rep64 := { buckets := [⟨4294967295, { slots := [sa 0 [1]] }, true⟩] }
def y2 : Rep64 := { buckets := [⟨4294967295, { cow := true, slots := [sa 3 [2]] }, false⟩] }

theorem demo_wf : ∀ r ∈ demo, r.wf = true := by decide
theorem demo1_wf : ∀ r ∈ [y1, y2], r.wf = true := by decide
end R64ParDemo
open R64ParDemo

/-! ### `ParOr` -/

/-- `roaring64.ParOr` on well-formed operands, for every effective worker count `w ≥ 1` and every sound 32-bit in-place layer: a
well-formed result holding exactly the members of the operands -/
theorem Rep64.parOr_spec {o : Ops32} (ho : o.SoundBin) (w : Nat) (hw : 1 ≤ w) (l : List Rep64)
    (hl : ∀ r ∈ l, r.wf = true) :
    (Rep64.parOr o w l).wf = true ∧ ∀ x, mem (Rep64.parOr o w l).toBSet x = l.any (fun r => mem r.toBSet x) := by
  have hkey : ∀ x, l.any (fun r => mem r.toBSet x) =
      (l.filter (fun r => !r.buckets.isEmpty)).any (fun r => bucketsHas r.buckets x) := by
    intro x; rw [any_mem_eq_any_buckets l hl x, any_filter_nonempty64]
  have hsub : ∀ r ∈ l.filter (fun r => !r.buckets.isEmpty), r.wf = true ∧ r.buckets ≠ [] := by
    intro r hr
    obtain ⟨h1, h2⟩ := List.mem_filter.mp hr
    refine ⟨hl r h1, ?_⟩
    intro h0; rw [h0] at h2; simp at h2
  unfold Rep64.parOr
  generalize l.filter (fun r => !r.buckets.isEmpty) = l' at hkey hsub
  match l', hkey, hsub with
  | [], hkey, _ => exact ⟨rfl, fun x => by rw [hkey x]; rfl⟩
  | [a], hkey, hsub =>
    have ha := (hsub a (by simp)).1
    refine ⟨Rep64.wf_clone a ha, fun x => ?_⟩
    simp only []
    rw [Rep64.toBSet_clone a ha, hkey x, List.any_cons, List.any_nil, Bool.or_false]
    exact mem_rep64_buckets a ((bucketsWf_iff a).mp ha).bounded x
  | a :: b :: t, hkey, hsub =>
    have hwf : ∀ r ∈ a :: b :: t, BucketsWf r.buckets := fun r hr => (bucketsWf_iff r).mp (hsub r hr).1
    have hne := (hsub a (by simp)).2
    simp only []
    split
    · -- all operands consist of the one bucket `lKey`: the 32-bit `ParOr` of all buckets, wrapped
      rename_i h1
      obtain ⟨hh, hkeys⟩ := keys_between64 (a :: b :: t) hwf
      have hlh : lowKey64 (a :: b :: t) ≤ highKey64 (a :: b :: t) := by
        cases hs : a.buckets with
        | nil => exact absurd hs hne
        | cons u v => have := hkeys a (by simp) u (by rw [hs]; simp); omega
      have h1' : highKey64 (a :: b :: t) + 1 - lowKey64 (a :: b :: t) = 1 := beq_iff_eq.mp h1
      generalize hlk : lowKey64 (a :: b :: t) = lKey at *
      generalize hhk : highKey64 (a :: b :: t) = hKey at *
      have hone : ∀ r ∈ a :: b :: t, ∀ s ∈ r.buckets, s.high = lKey := by
        intro r hr s hs
        have := hkeys r hr s hs
        omega
      have hbms : ∀ m ∈ (a :: b :: t).flatMap (fun r => r.buckets.map (·.bm)), m.wf = true := by
        intro m hm
        obtain ⟨r, hr, hm'⟩ := List.mem_flatMap.mp hm
        obtain ⟨bk, hbk, rfl⟩ := List.mem_map.mp hm'
        exact ((hwf r hr).ok bk hbk).2.1
      have hR := Rep.parOr_spec w hw _ hbms
      refine ⟨wf_as64 _ lKey (by omega) hR.1, fun x => ?_⟩
      rw [mem_as64 _ lKey hR.1 x, hR.2, hkey x, any_onekey (a :: b :: t) lKey hone x]
    · obtain ⟨h1, h2⟩ := parOrBuckets_spec ho w hw a b t hwf hne
      refine ⟨(bucketsWf_iff _).mpr h1, fun x => ?_⟩
      rw [mem_rep64_buckets _ h1.bounded, hkey x]
      exact h2 x

/-- **`roaring64.ParOr` computes the union**, whatever the worker count: for well-formed inputs, every effective worker count
`w ≥ 1` and every sound 32-bit in-place layer, the representation returned by the modelled `ParOr` (empty operands filtered out;
`New` / `Clone` shortcuts; one key → the 32-bit `ParOr` of all buckets wrapped by `roaring32AsRoaring64`; otherwise the chunk grid
built from `w`, per chunk `orOnRange` then `iorOnRange`, chunks concatenated in order) denotes `BSet.unionL` of the inputs' sets -/
theorem Rep64.toBSet_parOr {o : Ops32} (ho : o.SoundBin) (w : Nat) (hw : 1 ≤ w) (l : List Rep64)
    (hl : ∀ r ∈ l, r.wf = true) :
    (Rep64.parOr o w l).toBSet = BSet.unionL (l.map Rep64.toBSet) := by
  have hs : ∀ s ∈ l.map Rep64.toBSet, SInc s := by
    intro s hs
    obtain ⟨r, _, rfl⟩ := List.mem_map.mp hs
    exact sinc_rep64 r
  refine canon_ext_sinc _ _ (sinc_rep64 _) (sinc_unionL _ hs) (fun x => ?_)
  rw [(Rep64.parOr_spec ho w hw l hl).2 x, mem_unionL_sinc _ hs, List.any_map]
  rfl

/-- the hypotheses are satisfiable: the theorem instantiated on `demo` (keys `0xFFFFFFF9 … 0xFFFFFFFF`, chunk grid 4 × 2 keys) and on
the one-key operands `[y1, y2]`; and what the model returns there (one worker: every bucket of the flagged operand `x3` lands in a
chunk that already holds a larger key or the same key → inserted / merged with the flag off) -/
example : (Rep64.parOr Ops32.exact 1 demo).toBSet = BSet.unionL (demo.map Rep64.toBSet) :=
  Rep64.toBSet_parOr Ops32.exact_soundBin 1 (by decide) demo demo_wf
example : (Rep64.parOr Ops32.exact 3 [y1, y2]).toBSet = BSet.unionL ([y1, y2].map Rep64.toBSet) :=
  Rep64.toBSet_parOr Ops32.exact_soundBin 3 (by decide) [y1, y2] demo1_wf
example : Rep64.parOr Ops32.exact 1 demo =
    { cow := false,
      buckets := [⟨4294967289, { slots := [sa 1 [0]] }, false⟩, ⟨4294967290, { slots := [sa 0 [1, 2]] }, false⟩,
                  ⟨4294967291, { slots := [sa 1 [5]] }, false⟩, ⟨4294967292, { slots := [sa 3 [9]] }, false⟩,
                  ⟨4294967295, { slots := [sa 0 [7, 8], sa 2 [4], sa 65535 [65535]] }, false⟩] } := by
  simp [Rep64.parOr, demo, x1, x2, x3, parOrBuckets, orChunk64, highKey64, lowKey64, firstKey64, lastKey64, parOrChunkCount,
    parOrChunkSize, chunkRange64, u32, rangeBuckets, orBuckets, iorBuckets, List.range, List.range.loop, copyBucket, insertClone,
    appendTail, writableBm, sa, Rep.cloneB, Rep.or2, orSlots, Ops32.exact, Rep.ior, RepMut.iorSlots2, LazyOps.appendCopySlot, RepMut.unionedWritable, copySlot, Cont.or2, Cont.ior2,
    ArrayC.union2by2, arrayMax]
example : Rep64.parOr Ops32.exact 3 [y1, y2] =
    { cow := false, buckets := [⟨4294967295, { cow := false, slots := [sa 0 [1], sa 3 [2]] }, false⟩] } := by
  simp [Rep64.parOr, y1, y2, as64, highKey64, lowKey64, firstKey64, lastKey64, Rep.parOr, ParData.highKey, ParData.lowKey,
    ParData.firstKey, ParData.lastKey, parOrSlots, orChunk, parOrChunkCount, parOrChunkSize, chunkRange, u16, rangeSlots,
    parLazyOrSlots, List.range, List.range.loop, sa, RepOps.copySlot, repairSlotPar, repairContPar, Rep.isEmptyGo]

/-- **`roaring64.ParOr` returns a well-formed bitmap** for every worker count: keys strictly increasing (also across the chunk
boundaries) and `< 2^32`, no empty bucket, every bucket a well-formed 32-bit bitmap -/
theorem Rep64.wf_parOr {o : Ops32} (ho : o.SoundBin) (w : Nat) (hw : 1 ≤ w) (l : List Rep64)
    (hl : ∀ r ∈ l, r.wf = true) : (Rep64.parOr o w l).wf = true :=
  (Rep64.parOr_spec ho w hw l hl).1

example : (Rep64.parOr Ops32.exact 2 demo).wf = true := Rep64.wf_parOr Ops32.exact_soundBin 2 (by decide) demo demo_wf

/-- **the set computed by `roaring64.ParOr` does not depend on the worker count** (nor on the 32-bit layer): any two worker counts
give representations of the same set -/
theorem Rep64.parOr_worker_independent {o o' : Ops32} (ho : o.SoundBin) (ho' : o'.SoundBin) (w w' : Nat) (hw : 1 ≤ w)
    (hw' : 1 ≤ w') (l : List Rep64) (hl : ∀ r ∈ l, r.wf = true) :
    (Rep64.parOr o w l).toBSet = (Rep64.parOr o' w' l).toBSet := by
  rw [Rep64.toBSet_parOr ho w hw l hl, Rep64.toBSet_parOr ho' w' hw' l hl]

/-- instantiated on `demo` — where the REPRESENTATIONS for `w = 1` and `w = 2` differ: with two workers every key is a chunk of its
own and the flagged buckets `0xFFFFFFF9`, `0xFFFFFFFB` of the third operand are appended with their flag, with one worker they are
inserted below a key already in their chunk with the flag off -/
example : (Rep64.parOr Ops32.exact 1 demo).toBSet = (Rep64.parOr Ops32.exact 2 demo).toBSet :=
  Rep64.parOr_worker_independent Ops32.exact_soundBin Ops32.exact_soundBin 1 2 (by decide) (by decide) demo demo_wf
example : (Rep64.parOr Ops32.exact 1 demo).buckets.map (fun b => (b.high, b.flag)) =
      [(4294967289, false), (4294967290, false), (4294967291, false), (4294967292, false), (4294967295, false)] ∧
    (Rep64.parOr Ops32.exact 2 demo).buckets.map (fun b => (b.high, b.flag)) =
      [(4294967289, true), (4294967290, false), (4294967291, true), (4294967292, false), (4294967295, false)] := by
  constructor <;>
  simp [Rep64.parOr, demo, x1, x2, x3, parOrBuckets, orChunk64, highKey64, lowKey64, firstKey64, lastKey64, parOrChunkCount,
    parOrChunkSize, chunkRange64, u32, rangeBuckets, orBuckets, iorBuckets, List.range, List.range.loop, copyBucket, insertClone,
    appendTail]

/-- the closed instance: the 32-bit layer is the exact model of the Go code (`Impl/RepMut.lean`) -/
theorem Rep64.parOr_exact (w : Nat) (hw : 1 ≤ w) (l : List Rep64) (hl : ∀ r ∈ l, r.wf = true) :
    (Rep64.parOr Ops32.exact w l).toBSet = BSet.unionL (l.map Rep64.toBSet) ∧ (Rep64.parOr Ops32.exact w l).wf = true :=
  ⟨Rep64.toBSet_parOr Ops32.exact_soundBin w hw l hl, Rep64.wf_parOr Ops32.exact_soundBin w hw l hl⟩

example : (Rep64.parOr Ops32.exact 16 demo).toBSet = BSet.unionL (demo.map Rep64.toBSet) ∧
    (Rep64.parOr Ops32.exact 16 demo).wf = true := Rep64.parOr_exact 16 (by decide) demo demo_wf

/-- `ParOr` and `FastOr` agree as sets -/
theorem Rep64.parOr_eq_fastOr {o o' : Ops32} (ho : o.SoundBin) (ho' : o'.SoundBin) (w : Nat) (hw : 1 ≤ w) (l : List Rep64)
    (hl : ∀ r ∈ l, r.wf = true) : (Rep64.parOr o w l).toBSet = (Rep64.fastOr o' l).toBSet := by
  rw [Rep64.toBSet_parOr ho w hw l hl, Rep64.toBSet_fastOr ho' l hl]

end RModel.Impl
