import RProofs.IterBase
import RProofs.ContQueryBmpScan
/-!
Iteration protocols, part 3: the BITMAP container iterators
(`bitmapContainerShortIterator`, `reverseBitmapContainerShortIterator`, `bitmapContainerManyIterator`).

Same interface as `ArrIt` (IterBase.lean) and `RunIt` (IterRun.lean): a state invariant `Inv`, the list `rem` of the
values still to be delivered, and `hasNext_iff / peekNext_spec / next_spec / advanceIfNeeded_spec / init_spec`.
-/
namespace RModel.Impl.It
open RModel RModel.Impl RModel.Impl.ContOps RModel.Impl.ContQuery

/-! ### `NextSetBit` / `PrevSetBit` in terms of `remFrom` / `remBelow` -/

/-- the cursor value of an answer of `NextSetBit` -/
def nextCursor (r : Int) : Nat := if r < 0 then 65536 else r.toNat

theorem itTestBit_lt {ws : List (BitVec 64)} (hl : ws.length = 1024) {x : Nat} (h : testBit ws x = true) : x < 65536 := by
  apply Classical.byContradiction
  intro hc
  have := testBit_of_ge ws x (by omega)
  rw [h] at this; cases this

/-- `bmpNextSetBit_spec` without the range restriction -/
theorem bmpNextSetBit_isNext (ws : List (BitVec 64)) (hl : ws.length = 1024) (x : Nat) :
    IsNext (testBit ws) x (bmpNextSetBit ws x) := by
  by_cases hx : x < 65536
  · exact bmpNextSetBit_spec ws hl x hx
  · refine Or.inr ⟨?_, ?_⟩
    · unfold bmpNextSetBit
      simp only []
      rw [if_pos (by omega)]
    · intro u hu
      exact testBit_of_ge ws u (by omega)

theorem isNext_inv {ws : List (BitVec 64)} (hl : ws.length = 1024) {x : Nat} {r : Int} (h : IsNext (testBit ws) x r) :
    r = -1 ∨ (0 ≤ r ∧ r < 65536 ∧ testBit ws r.toNat = true) := by
  rcases h with ⟨v, hv, _, h2, _⟩ | ⟨hr, _⟩
  · right
    have := itTestBit_lt hl h2
    subst hv
    refine ⟨by omega, by omega, ?_⟩
    simpa using h2
  · exact Or.inl hr

theorem isNext_rem {ws : List (BitVec 64)} (hl : ws.length = 1024) {x : Nat} {r : Int} (h : IsNext (testBit ws) x r) :
    remFrom (valsOfWords ws) (nextCursor r) = remFrom (valsOfWords ws) x := by
  rcases h with ⟨v, hv, h1, h2, h3⟩ | ⟨hr, hnone⟩
  · subst hv
    have e : nextCursor (v : Int) = v := by unfold nextCursor; rw [if_neg (by omega)]; omega
    rw [e]
    apply remFrom_congr
    intro y hy
    rw [mem_valsOfWords] at hy
    constructor
    · intro; omega
    · intro hxy
      apply Classical.byContradiction
      intro hc
      have := h3 y hxy (by omega)
      rw [hy] at this; cases this
  · subst hr
    have e : nextCursor (-1) = 65536 := by unfold nextCursor; rw [if_pos (by omega)]
    rw [e, remFrom_nil, remFrom_nil]
    · intro y hy
      rw [mem_valsOfWords] at hy
      apply Classical.byContradiction
      intro hc
      have := hnone y (by omega)
      rw [hy] at this; cases this
    · intro y hy
      have := lt_of_mem_valsOfWords ws y hy
      omega

namespace BmpIt

/-- the cursor: the next set bit, 65536 when exhausted -/
def cursor (it : BmpIt) : Nat := if it.i < 0 then 65536 else it.i.toNat

def Inv (it : BmpIt) : Prop :=
  it.ws.length = 1024 ∧ (it.i = -1 ∨ (0 ≤ it.i ∧ it.i < 65536 ∧ testBit it.ws it.i.toNat = true))

def rem (it : BmpIt) : List Nat := remFrom (valsOfWords it.ws) it.cursor

theorem cursor_eq (it : BmpIt) : it.cursor = nextCursor it.i := rfl

theorem init_spec (ws : List (BitVec 64)) (hl : ws.length = 1024) :
    (init ws).Inv ∧ (init ws).rem = valsOfWords ws ∧ (init ws).ws = ws := by
  have h := bmpNextSetBit_isNext ws hl 0
  refine ⟨⟨hl, isNext_inv hl h⟩, ?_, rfl⟩
  show remFrom (valsOfWords ws) (nextCursor (bmpNextSetBit ws 0)) = _
  rw [isNext_rem hl h, remFrom_zero]

theorem rem_nil_of_neg {it : BmpIt} (hi : it.Inv) (h : it.i = -1) : it.rem = [] := by
  unfold rem cursor
  rw [if_pos (by omega)]
  apply remFrom_nil
  intro y hy
  have := lt_of_mem_valsOfWords it.ws y hy
  have := hi.1
  omega

/-- a live iterator: the cursor is the head of the remaining list -/
theorem rem_of_nonneg {it : BmpIt} (hi : it.Inv) (h : it.i ≠ -1) :
    0 ≤ it.i ∧ it.i < 65536 ∧ it.cursor = it.i.toNat ∧
      it.rem = it.i.toNat :: remFrom (valsOfWords it.ws) (it.i.toNat + 1) := by
  rcases hi.2 with e | ⟨h0, h1, h2⟩
  · exact absurd e h
  · have hc : it.cursor = it.i.toNat := by unfold cursor; rw [if_neg (by omega)]
    refine ⟨h0, h1, hc, ?_⟩
    unfold rem
    rw [hc]
    exact remFrom_cons (sorted_valsOfWords _) ((mem_valsOfWords _ _).mpr h2) (Nat.lt_succ_self _) (fun x _ hx => hx)

theorem hasNext_iff {it : BmpIt} (hi : it.Inv) : it.hasNext = true ↔ it.rem ≠ [] := by
  simp only [hasNext, decide_eq_true_eq]
  by_cases h : it.i = -1
  · rw [rem_nil_of_neg hi h, h]
    simp
  · obtain ⟨h0, _, _, hr⟩ := rem_of_nonneg hi h
    rw [hr]
    simp
    omega

theorem rem_cons {it : BmpIt} (hi : it.Inv) {v : Nat} {t : List Nat} (h : it.rem = v :: t) :
    0 ≤ it.i ∧ it.i < 65536 ∧ it.i.toNat = v ∧ t = remFrom (valsOfWords it.ws) (v + 1) := by
  by_cases hn : it.i = -1
  · rw [rem_nil_of_neg hi hn] at h; cases h
  · obtain ⟨h0, h1, _, hr⟩ := rem_of_nonneg hi hn
    rw [hr] at h
    injection h with e1 e2
    subst e1
    exact ⟨h0, h1, rfl, e2.symm⟩

theorem peekNext_spec {it : BmpIt} (hi : it.Inv) {v : Nat} {t : List Nat} (h : it.rem = v :: t) : it.peekNext = v := by
  obtain ⟨h0, h1, h2, _⟩ := rem_cons hi h
  unfold peekNext
  rw [Int.emod_eq_of_lt h0 h1]
  exact h2

theorem next_spec {it : BmpIt} (hi : it.Inv) {v : Nat} {t : List Nat} (h : it.rem = v :: t) :
    it.next.1 = v ∧ it.next.2.Inv ∧ it.next.2.rem = t ∧ it.next.2.ws = it.ws := by
  obtain ⟨h0, h1, h2, h3⟩ := rem_cons hi h
  have hs : uintSucc it.i = v + 1 := by unfold uintSucc; omega
  have hN := bmpNextSetBit_isNext it.ws hi.1 (v + 1)
  refine ⟨peekNext_spec hi h, ?_, ?_, rfl⟩
  · simp only [next, hs]
    exact ⟨hi.1, isNext_inv hi.1 hN⟩
  · simp only [next, hs, rem, cursor_eq]
    rw [isNext_rem hi.1 hN, h3]

theorem advanceIfNeeded_spec {it : BmpIt} (hi : it.Inv) (m : Nat) (hm : m < 65536) :
    (it.advanceIfNeeded m).Inv ∧ (it.advanceIfNeeded m).rem = it.rem.dropWhile (fun x => decide (x < m)) ∧
      (it.advanceIfNeeded m).ws = it.ws := by
  have _ := hm
  unfold advanceIfNeeded
  by_cases hc : (it.hasNext && decide (it.peekNext < m)) = true
  · rw [if_pos hc]
    simp only [Bool.and_eq_true, decide_eq_true_eq] at hc
    have hN := bmpNextSetBit_isNext it.ws hi.1 m
    refine ⟨⟨hi.1, isNext_inv hi.1 hN⟩, ?_, rfl⟩
    have hne := (hasNext_iff hi).mp hc.1
    obtain ⟨hn0, hn1, hcur, _⟩ := rem_of_nonneg hi (by
      intro e; exact hne (rem_nil_of_neg hi e))
    have hp : it.peekNext = it.i.toNat := by
      unfold peekNext; rw [Int.emod_eq_of_lt hn0 hn1]
    show remFrom (valsOfWords it.ws) (nextCursor (bmpNextSetBit it.ws m)) = _
    rw [isNext_rem hi.1 hN]
    unfold rem
    rw [remFrom_dropWhile (sorted_valsOfWords _), hcur, Nat.max_eq_right (by omega)]
  · rw [if_neg hc]
    refine ⟨hi, ?_, rfl⟩
    simp only [Bool.and_eq_true, decide_eq_true_eq, not_and] at hc
    by_cases hn : it.i = -1
    · rw [rem_nil_of_neg hi hn]; rfl
    · obtain ⟨hn0, hn1, hcur, hr⟩ := rem_of_nonneg hi hn
      have hp : it.peekNext = it.i.toNat := by
        unfold peekNext; rw [Int.emod_eq_of_lt hn0 hn1]
      have := hc ((hasNext_iff hi).mpr (by rw [hr]; simp))
      rw [hr, List.dropWhile_cons_of_neg]
      simp only [decide_eq_true_eq]
      omega

end BmpIt

/-- the cursor value of an answer of `PrevSetBit` / `maximum` -/
def prevCursor (r : Int) : Nat := if r < 0 then 0 else r.toNat + 1

theorem isPrev_inv {ws : List (BitVec 64)} (hl : ws.length = 1024) {x : Nat} {r : Int} (h : IsPrev (testBit ws) x r) :
    r = -1 ∨ (0 ≤ r ∧ r < 65536 ∧ testBit ws r.toNat = true) := by
  rcases h with ⟨v, hv, _, h2, _⟩ | ⟨hr, _⟩
  · right
    have := itTestBit_lt hl h2
    subst hv
    refine ⟨by omega, by omega, ?_⟩
    simpa using h2
  · exact Or.inl hr

theorem isPrev_rem {ws : List (BitVec 64)} {x : Nat} {r : Int} (h : IsPrev (testBit ws) x r) :
    remBelow (valsOfWords ws) (prevCursor r) = remBelow (valsOfWords ws) (x + 1) := by
  rcases h with ⟨v, hv, h1, h2, h3⟩ | ⟨hr, hnone⟩
  · subst hv
    have e : prevCursor (v : Int) = v + 1 := by unfold prevCursor; rw [if_neg (by omega)]; omega
    rw [e]
    apply remBelow_congr
    intro y hy
    rw [mem_valsOfWords] at hy
    constructor
    · intro; omega
    · intro hxy
      apply Classical.byContradiction
      intro hc
      have := h3 y (by omega) (by omega)
      rw [hy] at this; cases this
  · subst hr
    have e : prevCursor (-1) = 0 := by unfold prevCursor; rw [if_pos (by omega)]
    rw [e, remBelow_nil, remBelow_nil]
    · intro y hy
      rw [mem_valsOfWords] at hy
      apply Classical.byContradiction
      intro hc
      have := hnone y (by omega)
      rw [hy] at this; cases this
    · intro y _
      omega

namespace BmpRevIt

/-- the cursor: every member `< cursor` is still to be delivered (largest first) -/
def cursor (it : BmpRevIt) : Nat := if it.i < 0 then 0 else it.i.toNat + 1

def Inv (it : BmpRevIt) : Prop :=
  it.ws.length = 1024 ∧ (it.i = -1 ∨ (0 ≤ it.i ∧ it.i < 65536 ∧ testBit it.ws it.i.toNat = true))

/-- the values still to be delivered, ascending (they come out last first) -/
def rem (it : BmpRevIt) : List Nat := remBelow (valsOfWords it.ws) it.cursor

theorem cursor_eq (it : BmpRevIt) : it.cursor = prevCursor it.i := rfl

/-- `card` is the cached cardinality field; for a well-formed container it is the popcount (> 0) -/
theorem init_spec (card : Int) (ws : List (BitVec 64)) (hl : ws.length = 1024) (hc : card = (wordsCard ws : Int)) :
    (init card ws).Inv ∧ (init card ws).rem = valsOfWords ws ∧ (init card ws).ws = ws := by
  unfold init
  by_cases hp : card > 0
  · rw [if_pos hp]
    obtain ⟨v, hv, h1, h2⟩ := bmpMax_spec ws hl (exists_testBit_of_card_pos (by omega))
    have hlt := itTestBit_lt hl h1
    refine ⟨⟨hl, Or.inr ?_⟩, ?_, rfl⟩
    · simp only [hv]
      refine ⟨by omega, by omega, ?_⟩
      simpa using h1
    · simp only [rem, cursor, hv]
      rw [if_neg (by omega)]
      apply remBelow_all
      intro y hy
      rw [mem_valsOfWords] at hy
      apply Classical.byContradiction
      intro hc'
      have := h2 y (by omega)
      rw [hy] at this; cases this
  · rw [if_neg hp]
    refine ⟨⟨hl, Or.inl rfl⟩, ?_, rfl⟩
    have h0 : (valsOfWords ws).length = 0 := by rw [length_valsOfWords]; omega
    have h1 := List.length_eq_zero_iff.mp h0
    rw [h1]
    apply remBelow_nil
    intro y hy
    change y ∈ valsOfWords ws at hy
    rw [h1] at hy
    cases hy

theorem rem_nil_of_neg {it : BmpRevIt} (h : it.i = -1) : it.rem = [] := by
  unfold rem cursor
  rw [if_pos (by omega)]
  apply remBelow_nil
  intro y _
  omega

theorem rem_of_nonneg {it : BmpRevIt} (hi : it.Inv) (h : it.i ≠ -1) :
    0 ≤ it.i ∧ it.i < 65536 ∧
      it.rem = remBelow (valsOfWords it.ws) it.i.toNat ++ [it.i.toNat] := by
  rcases hi.2 with e | ⟨h0, h1, h2⟩
  · exact absurd e h
  · have hc : it.cursor = it.i.toNat + 1 := by unfold cursor; rw [if_neg (by omega)]
    refine ⟨h0, h1, ?_⟩
    unfold rem
    rw [hc]
    exact remBelow_snoc (sorted_valsOfWords _) ((mem_valsOfWords _ _).mpr h2)

theorem hasNext_iff {it : BmpRevIt} (hi : it.Inv) : it.hasNext = true ↔ it.rem ≠ [] := by
  simp only [hasNext, decide_eq_true_eq]
  by_cases h : it.i = -1
  · rw [rem_nil_of_neg h, h]
    simp
  · obtain ⟨h0, _, hr⟩ := rem_of_nonneg hi h
    rw [hr]
    simp
    omega

theorem next_spec {it : BmpRevIt} (hi : it.Inv) {v : Nat} {t : List Nat} (h : it.rem = t ++ [v]) :
    it.next.1 = v ∧ it.next.2.Inv ∧ it.next.2.rem = t ∧ it.next.2.ws = it.ws := by
  have hn : it.i ≠ -1 := by
    intro e
    rw [rem_nil_of_neg e] at h
    have := congrArg List.length h
    simp at this
  obtain ⟨h0, h1, hr⟩ := rem_of_nonneg hi hn
  rw [hr] at h
  have hh := List.append_inj' h (by simp)
  have hv : it.i.toNat = v := by simpa using hh.2
  refine ⟨?_, ?_, ?_, rfl⟩
  · simp only [next]
    rw [Int.emod_eq_of_lt h0 h1]
    exact hv
  · simp only [next, prevSetBit]
    refine ⟨hi.1, ?_⟩
    by_cases hz : it.i - 1 < 0
    · rw [if_pos hz]; exact Or.inl rfl
    · rw [if_neg hz]
      exact isPrev_inv hi.1 (bmpPrevSetBit_spec it.ws hi.1 _ (by omega))
  · simp only [next, prevSetBit, rem, cursor_eq]
    rw [← hh.1]
    by_cases hz : it.i - 1 < 0
    · rw [if_pos hz]
      have e : it.i.toNat = 0 := by omega
      rw [e]
      rfl
    · rw [if_neg hz, isPrev_rem (bmpPrevSetBit_spec it.ws hi.1 _ (by omega))]
      congr 1
      omega

end BmpRevIt

/-! ### bit tricks of the many-iterator: `t = w & -w`, `popcount(t - 1)`, `w ^ t` -/

/-- `w & -w` isolates the lowest set bit -/
theorem lowBit_getLsbD (w : BitVec 64) (h : w ≠ 0#64) (j : Nat) :
    (w &&& -w).getLsbD j = decide (j = tz w) := by
  obtain ⟨t1, t2, t3⟩ := tz_spec w h
  rw [BitVec.getLsbD_and, BitVec.getLsbD_neg]
  by_cases e : j = tz w
  · subst e
    rw [t2]
    have : ¬ ∃ i, i < tz w ∧ w.getLsbD i = true := by
      rintro ⟨i, hi, hb⟩
      rw [t3 i hi] at hb; cases hb
    simp [this, t1]
  · cases hb : w.getLsbD j with
    | false => simp [e]
    | true =>
      have hlt : tz w < j := by
        apply Classical.byContradiction
        intro hc
        have := t3 j (by omega)
        rw [hb] at this; cases this
      have : ∃ i, i < j ∧ w.getLsbD i = true := ⟨tz w, hlt, t2⟩
      have hj := BitVec.lt_of_getLsbD hb
      simp [this, e, hj]

theorem lowBit_eq (w : BitVec 64) (h : w ≠ 0#64) : w &&& -w = BitVec.twoPow 64 (tz w) := by
  apply BitVec.eq_of_getLsbD_eq
  intro j hj
  rw [lowBit_getLsbD w h, BitVec.getLsbD_twoPow]
  have := (tz_spec w h).1
  simp [this, eq_comm]

theorem twoPow_sub_one_getLsbD (k : Nat) (hk : k < 64) (j : Nat) :
    (BitVec.twoPow 64 k - 1#64).getLsbD j = decide (j < k) := by
  rw [BitVec.getLsbD, BitVec.toNat_sub, BitVec.toNat_twoPow]
  have h1 : 2 ^ k < 2 ^ 64 := Nat.pow_lt_pow_right (by omega) hk
  have h2 : 0 < 2 ^ k := Nat.two_pow_pos k
  have e : (2 ^ 64 - (1#64).toNat + 2 ^ k % 2 ^ 64) % 2 ^ 64 = 2 ^ k - 1 := by
    rw [Nat.mod_eq_of_lt h1]
    simp only [BitVec.toNat_ofNat]
    omega
  rw [e, Nat.testBit_two_pow_sub_one]

theorem filter_lt_length (k : Nat) (hk : k ≤ 64) : ((List.range 64).filter (fun j => decide (j < k))).length = k := by
  have h1 := cnt_eq_of_none (fun j => decide (j < k)) hk (b := 64) (by intro u h1 _; simp; omega)
  have h2 := cnt_eq_of_all (fun j => decide (j < k)) (Nat.zero_le k) (by intro u _ h2; simp; omega)
  rw [cnt_zero] at h2
  unfold cnt at h1 h2
  omega

/-- `popcount((w & -w) - 1)` is the number of trailing zeros -/
theorem popcount_lowBit_sub_one (w : BitVec 64) (h : w ≠ 0#64) : popcount ((w &&& -w) - 1#64) = tz w := by
  have hk := (tz_spec w h).1
  rw [lowBit_eq w h]
  unfold popcount
  refine Eq.trans ?_ (filter_lt_length (tz w) (by omega))
  congr 1
  apply List.filter_congr
  intro j hj
  exact twoPow_sub_one_getLsbD _ hk j

/-- `w ^ (w & -w)` clears the lowest set bit -/
theorem clearLow_getLsbD (w : BitVec 64) (h : w ≠ 0#64) (j : Nat) :
    (w ^^^ (w &&& -w)).getLsbD j = (w.getLsbD j && decide (j ≠ tz w)) := by
  rw [BitVec.getLsbD_xor, lowBit_getLsbD w h]
  by_cases e : j = tz w
  · subst e; simp [(tz_spec w h).2.1]
  · simp [e]
namespace BmpManyIt

/-- the cursor of `(base, bitset)`: the lowest set bit of the cached word, else the start of the next word -/
def cursor (it : BmpManyIt) : Nat :=
  if it.bitset = 0#64 then it.baseP * 64 else (it.baseP - 1) * 64 + tz it.bitset

/-- the cached word holds exactly the not-yet-delivered bits of word `base`: bits of `ws[base]` from some position on -/
def Inv (it : BmpManyIt) : Prop :=
  it.ws.length = 1024 ∧
    (it.bitset = 0#64 ∨
      (0 < it.baseP ∧ it.baseP ≤ 1024 ∧
        ∃ k, k < 64 ∧ ∀ j, j < 64 → it.bitset.getLsbD j = (decide (k ≤ j) && (it.ws.getD (it.baseP - 1) 0#64).getLsbD j)))

def rem (it : BmpManyIt) : List Nat := remFrom (valsOfWords it.ws) it.cursor

theorem init_spec (ws : List (BitVec 64)) (hl : ws.length = 1024) :
    let it : BmpManyIt := { ws := ws, baseP := 0, bitset := 0#64 }
    it.Inv ∧ it.rem = valsOfWords ws := by
  refine ⟨⟨hl, Or.inl rfl⟩, ?_⟩
  simp only [rem, cursor]
  exact remFrom_zero _

/-- `base++` onto a word of the bitmap: the next word is cached, nothing is skipped -/
theorem fetch_step (ws : List (BitVec 64)) (hl : ws.length = 1024) (b : Nat) (hb : b < 1024) :
    Inv { ws := ws, baseP := b + 1, bitset := ws.getD b 0#64 } ∧
      rem { ws := ws, baseP := b + 1, bitset := ws.getD b 0#64 } = rem { ws := ws, baseP := b, bitset := 0#64 } := by
  constructor
  · refine ⟨hl, ?_⟩
    by_cases hz : ws.getD b 0#64 = 0#64
    · exact Or.inl hz
    · refine Or.inr ⟨by simp, by simp; omega, 0, by omega, ?_⟩
      intro j _
      simp
  · simp only [rem, cursor, ↓reduceIte]
    apply remFrom_congr
    intro x hx
    rw [mem_valsOfWords] at hx
    unfold testBit at hx
    by_cases hz : ws.getD b 0#64 = 0#64
    · rw [if_pos hz]
      constructor
      · intro h; omega
      · intro h
        apply Classical.byContradiction
        intro hc
        have e : x / 64 = b := by omega
        rw [e, hz] at hx
        simp at hx
    · rw [if_neg hz]
      obtain ⟨t1, t2, t3⟩ := tz_spec _ hz
      simp only [Nat.add_sub_cancel]
      constructor
      · intro h; omega
      · intro h
        by_cases e : x / 64 = b
        · rw [e] at hx
          have : tz (ws.getD b 0#64) ≤ x % 64 := by
            apply Classical.byContradiction
            intro hc
            rw [t3 (x % 64) (by omega)] at hx; cases hx
          omega
        · omega

/-- `base++` past the end of the bitmap -/
theorem end_step (ws : List (BitVec 64)) (hl : ws.length = 1024) (b : Nat) (hb : 1024 ≤ b) :
    rem { ws := ws, baseP := b, bitset := 0#64 } = [] ∧ rem { ws := ws, baseP := b + 1, bitset := 0#64 } = [] := by
  simp only [rem, cursor, ↓reduceIte]
  constructor <;>
  · apply remFrom_nil
    intro y hy
    have := lt_of_mem_valsOfWords ws y hy
    omega

/-- one value is extracted from the cached word -/
theorem extract_step (ws : List (BitVec 64)) (b : Nat) (w : BitVec 64)
    (hi : Inv { ws := ws, baseP := b, bitset := w }) (hw : w ≠ 0#64) :
    (b - 1) * 64 + tz w < 65536 ∧ Inv { ws := ws, baseP := b, bitset := w ^^^ (w &&& -w) } ∧
      rem { ws := ws, baseP := b, bitset := w } =
        ((b - 1) * 64 + tz w) :: rem { ws := ws, baseP := b, bitset := w ^^^ (w &&& -w) } := by
  obtain ⟨hl, hr⟩ := hi
  simp only [] at hl hr
  rcases hr with e | ⟨hb0, hb1, k, hk, hbits⟩
  · exact absurd e hw
  obtain ⟨t1, t2, t3⟩ := tz_spec w hw
  have hclr := clearLow_getLsbD w hw
  generalize hw' : w ^^^ (w &&& -w) = w' at hclr
  -- the extracted bit is a bit of the word, at or after `k`
  have hkt : k ≤ tz w ∧ (ws.getD (b - 1) 0#64).getLsbD (tz w) = true := by
    have := hbits (tz w) t1
    rw [t2] at this
    simpa using this.symm
  -- bits of the word after the extracted one are still cached
  have hafter : ∀ j, tz w < j → j < 64 → (ws.getD (b - 1) 0#64).getLsbD j = true → w'.getLsbD j = true := by
    intro j h1 h2 h3
    rw [hclr, hbits j h2, h3]
    simp; omega
  have hw'tz : w' ≠ 0#64 → tz w < tz w' := by
    intro hne
    obtain ⟨u1, u2, u3⟩ := tz_spec w' hne
    rw [hclr] at u2
    simp only [Bool.and_eq_true, decide_eq_true_eq] at u2
    have : ¬ tz w' < tz w := by
      intro hc
      rw [t3 _ hc] at u2
      exact absurd u2.1 (by simp)
    omega
  refine ⟨by omega, ⟨hl, ?_⟩, ?_⟩
  · by_cases hz : w' = 0#64
    · exact Or.inl hz
    · have hlt := hw'tz hz
      have := (tz_spec w' hz).1
      refine Or.inr ⟨hb0, hb1, tz w + 1, by omega, ?_⟩
      intro j hj
      show w'.getLsbD j = _
      rw [hclr, hbits j hj]
      by_cases h1 : j < tz w
      · have := t3 j h1
        rw [hbits j hj] at this
        rw [this]
        simp; omega
      · by_cases h2 : j = tz w
        · subst h2; simp; intro h; omega
        · have h3 : k ≤ j := by omega
          have h4 : tz w + 1 ≤ j := by omega
          simp [h2, h3, h4]
  · simp only [rem, cursor]
    rw [if_neg hw]
    have hmem : (b - 1) * 64 + tz w ∈ valsOfWords ws := by
      rw [mem_valsOfWords]
      unfold testBit
      have e1 : ((b - 1) * 64 + tz w) / 64 = b - 1 := by omega
      have e2 : ((b - 1) * 64 + tz w) % 64 = tz w := by omega
      rw [e1, e2]
      exact hkt.2
    apply remFrom_cons (sorted_valsOfWords _) hmem
    · by_cases hz : w' = 0#64
      · rw [if_pos hz]; omega
      · rw [if_neg hz]
        have := hw'tz hz
        omega
    · intro x hx hcx
      rw [mem_valsOfWords] at hx
      unfold testBit at hx
      by_cases e : x / 64 = b - 1
      · rw [e] at hx
        have hx' := hafter (x % 64) (by omega) (by omega) hx
        have hz : w' ≠ 0#64 := by
          intro hz
          rw [hz] at hx'
          simp at hx'
        rw [if_neg hz]
        obtain ⟨u1, u2, u3⟩ := tz_spec w' hz
        have : tz w' ≤ x % 64 := by
          apply Classical.byContradiction
          intro hc
          rw [u3 (x % 64) (by omega)] at hx'; cases hx'
        omega
      · by_cases hz : w' = 0#64
        · rw [if_pos hz]; omega
        · rw [if_neg hz]
          have := (tz_spec w' hz).1
          omega

theorem loop_spec (ws : List (BitVec 64)) (hs : Nat) (hhs : hs % 65536 = 0) (room b : Nat) (w : BitVec 64) :
    Inv { ws := ws, baseP := b, bitset := w } →
    (loop ws hs room b w).1 = ((rem { ws := ws, baseP := b, bitset := w }).take room).map (hs + ·) ∧
      Inv { ws := ws, baseP := (loop ws hs room b w).2.1, bitset := (loop ws hs room b w).2.2 } ∧
      rem { ws := ws, baseP := (loop ws hs room b w).2.1, bitset := (loop ws hs room b w).2.2 } =
        (rem { ws := ws, baseP := b, bitset := w }).drop room := by
  fun_induction loop ws hs room b w with
  | case1 b w =>
    intro hi
    exact ⟨rfl, hi, rfl⟩
  | case2 room b hroom hge =>
    intro hi
    have hl : ws.length = 1024 := hi.1
    obtain ⟨e1, e2⟩ := end_step ws hl b (by omega)
    refine ⟨?_, ⟨hl, Or.inl rfl⟩, ?_⟩
    · rw [e1]; simp
    · rw [e1, e2]; simp
  | case3 room b hroom hlt ih =>
    intro hi
    have hl : ws.length = 1024 := hi.1
    obtain ⟨f1, f2⟩ := fetch_step ws hl b (by omega)
    obtain ⟨a1, a2, a3⟩ := ih f1
    rw [f2] at a1 a3
    exact ⟨a1, a2, a3⟩
  | case4 room b w hroom hw t v vs r heq ih =>
    intro hi
    obtain ⟨x1, x2, x3⟩ := extract_step ws b w hi hw
    obtain ⟨a1, a2, a3⟩ := ih x2
    rw [heq] at a1 a2 a3
    simp only [] at a1 a2 a3
    obtain ⟨n, rfl⟩ : ∃ n, room = n + 1 := ⟨room - 1, by omega⟩
    rw [x3]
    simp only [Nat.add_sub_cancel] at a1 a3
    refine ⟨?_, a2, ?_⟩
    · simp only [List.take_succ_cons, List.map_cons]
      rw [← a1]
      congr 1
      show ((b - 1) * 64 + popcount ((w &&& -w) - 1#64)) ||| hs = _
      rw [popcount_lowBit_sub_one w hw]
      exact or_hs_eq_add x1 hhs
    · rw [List.drop_succ_cons]
      exact a3

/-- one `nextMany` call delivers the next `min cap |rem|` values (`hs` = the high bits, a multiple of 65536) -/
theorem nextMany_spec {it : BmpManyIt} (hi : it.Inv) (hs cap : Nat) (hhs : hs % 65536 = 0) :
    (it.nextMany hs cap).1 = (it.rem.take cap).map (hs + ·) ∧ (it.nextMany hs cap).2.Inv ∧
      (it.nextMany hs cap).2.rem = it.rem.drop cap ∧ (it.nextMany hs cap).2.ws = it.ws := by
  obtain ⟨a1, a2, a3⟩ := loop_spec it.ws hs hhs cap it.baseP it.bitset hi
  exact ⟨a1, a2, a3, rfl⟩

end BmpManyIt

end RModel.Impl.It
