import RProofs.Rep64InPlace
/-!
The hypotheses `Ops32.Sound` / `Ops32.SoundBin` of the range and in-place theorems are satisfiable: the instance
`Ops32.viaStatic` implements the 32-bit `Flip / AddRange / RemoveRange (lo, hi)` as the verified STATIC 32-bit
`Xor / Or / AndNot` with a well-formed representation of `[lo, hi)` (`rangeRep`), and the in-place `And / Or / AndNot` as the
static ones.  (It is a witness, not a model of what the Go functions store: they keep other container kinds.)
Consequently every theorem of `Rep64Range.lean` / `Rep64InPlace.lean` has a closed instance (`…_viaStatic` below).
Core Lean only; no `native_decide`, `bv_decide`, axioms.
-/
namespace RModel.Impl
open RModel RModel.BSet RModel.Driver ContOps RepOps R64Ops

/-- a well-formed container holding exactly `a, a+1, …, a+l` -/
def rangeCont (a l : Nat) : Cont :=
  if l = 0 then .arr [a]
  else if l = 1 then .arr [a, a + 1]
  else if l = 2 then .arr [a, a + 1, a + 2]
  else .run [(a, l)]

theorem wf_rangeCont (a l : Nat) (h : a + l ≤ 65535) : (rangeCont a l).wf = true := by
  unfold rangeCont
  split
  · simp [Cont.wf, strictInc]; omega
  · split
    · simp [Cont.wf, strictInc]; omega
    · split
      · simp [Cont.wf, strictInc]; omega
      · simp [Cont.wf, runsOk, runMinimal]; omega

theorem has_rangeCont (a l y : Nat) : (rangeCont a l).has y = (decide (a ≤ y) && decide (y ≤ a + l)) := by
  unfold rangeCont
  rw [Bool.eq_iff_iff]
  split
  · simp [Cont.has]; omega
  · split
    · simp [Cont.has]; omega
    · split
      · simp [Cont.has]; omega
      · simp [Cont.has, inRuns]

def rangeLo (s k : Nat) : Nat := if k = s / 65536 then s % 65536 else 0
def rangeHi (e k : Nat) : Nat := if k = (e - 1) / 65536 then (e - 1) % 65536 else 65535

def rangeSlot (s e k : Nat) : Slot :=
  { key := k, c := rangeCont (rangeLo s k) (rangeHi e k - rangeLo s k), flag := false }

/-- a well-formed 32-bit representation of `[s, e)`, `s < e ≤ 2^32` -/
def rangeRep (s e : Nat) : Rep :=
  { cow := false, slots := (keyRange (s / 65536) ((e - 1) / 65536)).map (rangeSlot s e) }

theorem rangeLo_le_hi {s e k : Nat} (h : s < e) (hk : k ∈ keyRange (s / 65536) ((e - 1) / 65536)) :
    rangeLo s k ≤ rangeHi e k ∧ rangeHi e k ≤ 65535 := by
  have := mem_keyRange hk
  unfold rangeLo rangeHi
  split <;> split <;> omega

theorem slotsWf_rangeRep (s e : Nat) (h : s < e) (he : e ≤ 4294967296) : SlotsWf (rangeRep s e).slots := by
  refine ⟨List.Pairwise.map _ (fun a b hab => hab) (pairwise_keyRange _ _), fun sl hs => ?_⟩
  obtain ⟨k, hk, rfl⟩ := List.mem_map.mp hs
  have h1 := rangeLo_le_hi h hk
  have h2 := mem_keyRange hk
  refine ⟨?_, wf_rangeCont _ _ (by omega)⟩
  show k < 65536
  omega

theorem wf_rangeRep (s e : Nat) (h : s < e) (he : e ≤ 4294967296) : (rangeRep s e).wf = true :=
  (slotsWf_iff _).mpr (slotsWf_rangeRep s e h he)

theorem any_key (ks : List Nat) (q : Nat) (g : Nat → Bool) :
    ks.any (fun k => k == q && g k) = (ks.contains q && g q) := by
  induction ks with
  | nil => rfl
  | cons k t ih =>
    rw [List.any_cons, ih, List.contains_cons]
    by_cases hk : k = q
    · subst hk; simp
    · rw [beq_false_of_ne' hk, beq_false_of_ne' (fun h => hk h.symm)]; simp

theorem mem_rangeRep (s e y : Nat) (h : s < e) (he : e ≤ 4294967296) :
    mem (rangeRep s e).toBSet y = (decide (s ≤ y) && decide (y < e)) := by
  rw [mem_rep_slots _ (slotsWf_rangeRep s e h he).bounded]
  show slotsHas ((keyRange (s / 65536) ((e - 1) / 65536)).map (rangeSlot s e)) y = _
  unfold slotsHas
  rw [List.any_map]
  show (keyRange (s / 65536) ((e - 1) / 65536)).any
      (fun k => k == y / 65536 && (rangeCont (rangeLo s k) (rangeHi e k - rangeLo s k)).has (y % 65536)) = _
  rw [any_key _ _ (fun k => (rangeCont (rangeLo s k) (rangeHi e k - rangeLo s k)).has (y % 65536)), contains_keyRange,
    has_rangeCont, Bool.eq_iff_iff]
  simp only [Bool.and_eq_true, decide_eq_true_eq]
  unfold rangeLo rangeHi
  split <;> split <;> omega

/-- the witness: range functions through the verified static 32-bit operations -/
def Ops32.viaStatic : Ops32 where
  flip r s e := Rep.xor2 r (rangeRep s e)
  addRange r s e := Rep.or2 r (rangeRep s e)
  removeRange r s e := Rep.andNot2 r (rangeRep s e)
  iand := Rep.and2
  ior := Rep.or2
  iandNot := Rep.andNot2

theorem Ops32.viaStatic_sound : Ops32.viaStatic.Sound where
  mem_flip r s e y hr h he := by
    show mem (Rep.xor2 r (rangeRep s e)).toBSet y = _
    rw [Rep.mem_xor2 _ _ hr (wf_rangeRep s e h he), mem_rangeRep s e y h he]
  wf_flip r s e hr h he := Rep.wf_xor2 _ _ hr (wf_rangeRep s e h he)
  mem_addRange r s e y hr h he := by
    show mem (Rep.or2 r (rangeRep s e)).toBSet y = _
    rw [Rep.mem_or2 _ _ hr (wf_rangeRep s e h he), mem_rangeRep s e y h he]
  wf_addRange r s e hr h he := Rep.wf_or2 _ _ hr (wf_rangeRep s e h he)
  mem_removeRange r s e y hr h he := by
    show mem (Rep.andNot2 r (rangeRep s e)).toBSet y = _
    rw [Rep.mem_andNot2 _ _ hr (wf_rangeRep s e h he), mem_rangeRep s e y h he]
  wf_removeRange r s e hr h he := Rep.wf_andNot2 _ _ hr (wf_rangeRep s e h he)

theorem Ops32.viaStatic_soundBin : Ops32.viaStatic.SoundBin where
  mem_iand a b y ha hb := Rep.mem_and2 a b ha hb y
  wf_iand a b ha hb := Rep.wf_and2 a b ha hb
  mem_ior a b y ha hb := Rep.mem_or2 a b ha hb y
  wf_ior a b ha hb := Rep.wf_or2 a b ha hb
  mem_iandNot a b y ha hb := Rep.mem_andNot2 a b ha hb y
  wf_iandNot a b ha hb := Rep.wf_andNot2 a b ha hb

/-- closed instances: the bucket-level walks of `Flip`, `AddRange`, `RemoveRange` and of the in-place operations compute
the L1 operations when the 32-bit layer does -/
theorem Rep64.toBSet_flip_viaStatic (r : Rep64) (hr : r.wf = true) (lo hi : Nat) (hhi : hi < 18446744073709551616) :
    (Rep64.flip Ops32.viaStatic r lo hi).toBSet = BSet.flipRange r.toBSet lo hi ∧
      (Rep64.flip Ops32.viaStatic r lo hi).wf = true :=
  ⟨Rep64.toBSet_flip Ops32.viaStatic_sound r hr lo hi hhi, Rep64.wf_flip Ops32.viaStatic_sound r hr lo hi hhi⟩

theorem Rep64.toBSet_sflip_viaStatic (r : Rep64) (hr : r.wf = true) (lo hi : Nat) (hhi : hi < 18446744073709551616) :
    (Rep64.sflip Ops32.viaStatic r lo hi).toBSet = BSet.flipRange r.toBSet lo hi ∧
      (Rep64.sflip Ops32.viaStatic r lo hi).wf = true :=
  ⟨Rep64.toBSet_sflip Ops32.viaStatic_sound r hr lo hi hhi, Rep64.wf_sflip Ops32.viaStatic_sound r hr lo hi hhi⟩

theorem Rep64.toBSet_addRange_viaStatic (r : Rep64) (hr : r.wf = true) (lo hi : Nat) (hhi : hi ≤ 18446744073709551616) :
    (Rep64.addRange Ops32.viaStatic r lo hi).toBSet = BSet.addRange r.toBSet lo hi ∧
      (Rep64.addRange Ops32.viaStatic r lo hi).wf = true :=
  ⟨Rep64.toBSet_addRange Ops32.viaStatic_sound r hr lo hi hhi, Rep64.wf_addRange Ops32.viaStatic_sound r hr lo hi hhi⟩

theorem Rep64.toBSet_removeRange_viaStatic (r : Rep64) (hr : r.wf = true) (lo hi : Nat) :
    (Rep64.removeRange Ops32.viaStatic r lo hi).toBSet = BSet.removeRange r.toBSet lo hi ∧
      (Rep64.removeRange Ops32.viaStatic r lo hi).wf = true :=
  ⟨Rep64.toBSet_removeRange Ops32.viaStatic_sound r hr lo hi, Rep64.wf_removeRange Ops32.viaStatic_sound r hr lo hi⟩

end RModel.Impl
